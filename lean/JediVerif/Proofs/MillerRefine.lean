/-
C01, loop level: the hand-written Miller loop `Impl.millerLoop` (src/bls12_381/pairing.cpp `miller_loop`, one affine pair)
against the textbook loop `millerSpec` of Spec/Pairing.lean.

Shape of the two loops (n = |x| = 0xd201000000010000, bits 63 … 0, bit 63 the top one, bit 0 = 0):

  Spec  (bits 62 … 0):   f ← f² · ℓ_{T,T}(P);  T ← 2T;  if bit: f ← f · ℓ_{T,Q}(P);  T ← T + Q        (f₀ = 1, T₀ = Q)
  Impl  (bits 62 … 1):   g ← g · L_dbl;  r ← dbl r;   if bit: g ← g · L_add;  r ← add r Q;   g ← g²     (g₀ = 1, r₀ = Q)
        then once more:  g ← g · L_dbl;  finally  g ← conj g      (x < 0)

so Impl squares AFTER multiplying the lines in, skips bit 0 in the main loop and replaces it by one final doubling
round without squaring (bit 0 of |x| is 0, so no addition is lost).  With L = κ·ℓ (Proofs/MillerSteps.lean) the invariant at
the loop head is  g = c · f²,  Pt.ofJac r = T,  and the final relation is

      millerLoop [(P, Q)] [] = conj ( κ_total(Q) · millerSpec |x| P Q ),

κ_total(Q) = the product of the step factors with their squarings (`kappaRun`, an explicit function of Q alone, not of P).
The identity needs NO curve equation and holds whenever every ADDITION step of the Spec's run is non-exceptional
(`addOK`: the running point is finite and is not Q itself; doublings are never exceptional, `dbl_step_millerLine`).
If moreover no doubling hits a 2-torsion point / ∞ and no addition hits −Q (`noExc`), then
κ_total = k · w^j with k ∈ Fq2 nonzero: a unit, conj κ = ± κ, killed by the final exponentiation.
-/
import JediVerif.Proofs.MillerSteps
import Mathlib.Algebra.Field.ZMod

set_option linter.unusedSectionVars false
set_option linter.unusedVariables false
set_option linter.unnecessarySeqFocus false
namespace Jedi
open Jedi.Gen Jedi.Impl

/-! ### The Spec's loop, generically in the coefficient type -/
section GenericSpec
variable {F : Type} [Add F] [Sub F] [Mul F] [Neg F] [Zero F] [One F] [Inv F] [DecidableEq F]

/-- the body of `millerSpec`'s loop -/
def specStep (Q : Pt (Q2 F)) (xP yP : F) (st : Q12 F × Pt (Q2 F)) (bit : Bool) : Q12 F × Pt (Q2 F) :=
  let (f, T) := st
  let (l, T2) := millerLineG T T xP yP
  let f := f * f * l
  if bit then
    let (l2, T3) := millerLineG T2 Q xP yP
    (f * l2, T3)
  else (f, T2)

/-- `millerSpec` over any coefficient type. -/
def millerSpecG (n : Nat) (P : Pt F) (Q : Pt (Q2 F)) : Q12 F :=
  match P with
  | .inf => 1
  | .aff xP yP => ((bitsBelowTop n).foldl (specStep Q xP yP) (1, Q)).1

end GenericSpec

theorem foldl_ext' {α β : Type} (F G : α → β → α) (h : ∀ s b, F s b = G s b) (l : List β) (s : α) :
    l.foldl F s = l.foldl G s := by
  have : F = G := by funext s b; exact h s b
  rw [this]

/-- the Spec's `millerSpec` is the generic one at `Fq`. -/
theorem millerSpec_eq (n : Nat) (P : G1Pt) (Q : G2Pt) : millerSpec n P Q = millerSpecG n P Q := by
  cases P with
  | inf => rfl
  | aff xP yP =>
    unfold millerSpec millerSpecG
    simp only []
    generalize bitsBelowTop n = bits
    refine congrArg Prod.fst (foldl_ext' _ _ (fun st b => ?_) bits (1, Q))
    obtain ⟨f, T⟩ := st
    cases b <;> simp [specStep, millerLine_eq]

/-- the bits the Spec's loop runs over are the Impl's main-loop bits followed by bit 0 = 0. -/
theorem bitsBelowTop_blsX : bitsBelowTop blsX = millerBits ++ [false] := by decide +kernel

/-! ### `Impl.millerLoop` on one active affine pair, as a fold over (accumulator, running point) -/
section Impl1
variable {R : Type} [CommRing R]

theorem Q12.conj_mul' (a b : Q12 R) : Q12.conj (a * b) = Q12.conj a * Q12.conj b := by
  ext1 <;> simp [Q12.conj] <;> ring

theorem ell_eq_mul' (f : Q12 R) (c : MT R) (g1 : Aff R) : ell f c g1 = f * lineEl c g1 := by
  simp only [ell, lineEl, Fq12.multiply_by_c014_oa_spec]

/-- body of the main loop for one pair: doubling line, (addition line), then squaring. -/
def implStep (P : Aff R) (Q : Aff (Q2 R)) (st : Q12 R × Jac (Q2 R)) (b : Bool) : Q12 R × Jac (Q2 R) :=
  if b then
    ((st.1 * lineEl (miller_doubling_step st.2).1 P *
          lineEl (miller_addition_step (miller_doubling_step st.2).2 Q).1 P) *
       (st.1 * lineEl (miller_doubling_step st.2).1 P *
          lineEl (miller_addition_step (miller_doubling_step st.2).2 Q).1 P),
      (miller_addition_step (miller_doubling_step st.2).2 Q).2)
  else
    ((st.1 * lineEl (miller_doubling_step st.2).1 P) * (st.1 * lineEl (miller_doubling_step st.2).1 P),
      (miller_doubling_step st.2).2)

/-- main loop over `bits`, then the final doubling round (no squaring); before the conjugation. -/
def implRun (P : Aff R) (Q : Aff (Q2 R)) (bits : List Bool) : Q12 R :=
  (bits.foldl (implStep P Q) (1, Proj2.from_affine Q)).1 *
    lineEl (miller_doubling_step (bits.foldl (implStep P Q) (1, Proj2.from_affine Q)).2).1 P

variable (P : Aff R) (Q : Aff (Q2 R)) (hP : P.infinity = false) (hQ : Q.infinity = false)
include hP hQ

theorem millerIter_single (b : Bool) (f : Q12 R) (r : Jac (Q2 R)) :
    millerIter b (f, [(⟨P, Q, r⟩ : APair R)], ([] : List (PPair R))) =
      ((implStep P Q (f, r) b).1, [⟨P, Q, (implStep P Q (f, r) b).2⟩], []) := by
  cases b <;>
    simp [millerIter, roundAffine, roundPrepared, hP, hQ, ell_eq_mul', implStep, Fq12.square_oa_spec]

theorem fold_single : ∀ (bits : List Bool) (f : Q12 R) (r : Jac (Q2 R)),
    bits.foldl (fun st b => millerIter b st) (f, [(⟨P, Q, r⟩ : APair R)], ([] : List (PPair R))) =
      ((bits.foldl (implStep P Q) (f, r)).1, [⟨P, Q, (bits.foldl (implStep P Q) (f, r)).2⟩], []) := by
  intro bits
  induction bits with
  | nil => intro f r; rfl
  | cons b bs ih =>
    intro f r
    rw [List.foldl_cons, List.foldl_cons, millerIter_single P Q hP hQ, ih]

/-- **the C++ Miller loop on one pair with both members finite** is the conjugate of `implRun` over bits 62 … 1. -/
theorem millerLoop_single :
    millerLoop [(P, Q)] [] = Q12.conj (implRun P Q millerBits) := by
  unfold millerLoop implRun
  have h0 : ([(P, Q)].map initA : List (APair R)) = [⟨P, Q, Proj2.from_affine Q⟩] := rfl
  rw [h0, List.map_nil, fold_single P Q hP hQ]
  simp [finishLoop, roundAffine, roundPrepared, hP, hQ, ell_eq_mul', Fq12.conjugate_oa_spec,
    show Consts.bls_x_is_negative = 1 from rfl]

end Impl1

/-! ### The accumulated factor κ and the exception predicates -/
section Kappa
variable {R : Type} [CommRing R] [DecidableEq R]

/-- the accumulated factor: invariant `g = c · f²` at the loop head, `c ← (c · κ_dbl [· κ_add])²` per iteration,
and `c · κ_dbl` for the final doubling round.  A function of the running point (hence of Q and the bits) only. -/
def kappaRun (Q : Aff (Q2 R)) : Q12 R → Jac (Q2 R) → List Bool → Q12 R
  | c, r, [] => c * dblKappa r
  | c, r, b :: bs =>
    if b then
      kappaRun Q
        ((c * dblKappa r * addKappa (miller_doubling_step r).2 Q) *
          (c * dblKappa r * addKappa (miller_doubling_step r).2 Q))
        (miller_addition_step (miller_doubling_step r).2 Q).2 bs
    else
      kappaRun Q ((c * dblKappa r) * (c * dblKappa r)) (miller_doubling_step r).2 bs

/-- κ_total(Q) for the BLS12-381 loop. -/
def kappaTotal (Q : Aff (Q2 R)) : Q12 R := kappaRun Q 1 (Proj2.from_affine Q) millerBits

end Kappa

section Preds
variable {F : Type} [Add F] [Sub F] [Mul F] [Neg F] [Zero F] [One F] [Inv F] [DecidableEq F]

/-- the addition steps of the Spec's run from `T` over `bits` are all non-exceptional for the C++ step:
the point 2T to which Q = (xq, yq) is added is finite and is not Q (same x forces opposite y).
Decidable; mentions only the Spec's points. -/
def addOK (xq yq : Q2 F) : List Bool → Pt (Q2 F) → Bool
  | [], _ => true
  | b :: bs, T =>
    if b then
      (match Pt.add T T with
        | .aff x2 y2 => decide (x2 = xq → y2 = -yq)
        | .inf => false) && addOK xq yq bs (Pt.add (Pt.add T T) (.aff xq yq))
    else addOK xq yq bs (Pt.add T T)

/-- no exceptional case at all along the Spec's run: every doubled point is finite and not 2-torsion, every
addition is a proper chord (x(2T) ≠ x(Q)). -/
def noExc (xq yq : Q2 F) : List Bool → Pt (Q2 F) → Bool
  | [], _ => true
  | b :: bs, T =>
    (match T with
      | .aff _ y => decide (y ≠ -y)
      | .inf => false) &&
    (if b then
      (match Pt.add T T with
        | .aff x2 _ => decide (x2 ≠ xq)
        | .inf => false) && noExc xq yq bs (Pt.add (Pt.add T T) (.aff xq yq))
    else noExc xq yq bs (Pt.add T T))

theorem noExc_addOK (xq yq : Q2 F) : ∀ (bits : List Bool) (T : Pt (Q2 F)),
    noExc xq yq bits T = true → addOK xq yq bits T = true := by
  intro bits
  induction bits with
  | nil => intro T _; rfl
  | cons b bs ih =>
    intro T h
    cases b with
    | false =>
      simp only [noExc, Bool.false_eq_true, if_false, Bool.and_eq_true] at h
      simp only [addOK, Bool.false_eq_true, if_false]
      exact ih _ h.2
    | true =>
      simp only [noExc, if_true, Bool.and_eq_true] at h
      simp only [addOK, if_true, Bool.and_eq_true]
      refine ⟨?_, ih _ h.2.2⟩
      have h1 := h.2.1
      cases hT2 : Pt.add T T with
      | inf => rw [hT2] at h1; exact absurd h1 (by simp)
      | aff x2 y2 =>
        rw [hT2] at h1
        simp only [decide_eq_true_eq] at h1 ⊢
        intro hx; exact absurd hx h1

theorem millerLineG_snd (T S : Pt (Q2 F)) (xP yP : F) : (millerLineG T S xP yP).2 = Pt.add T S := by
  cases T with
  | inf => rfl
  | aff x1 y1 =>
    cases S with
    | inf => rfl
    | aff x2 y2 =>
      simp only [millerLineG]
      split
      · rename_i hx
        split
        · rename_i hy; simp [Pt.add, hx, hy]
        · rfl
      · rfl

end Preds

/-! ### The loop invariant and the refinement theorem -/
section Refine
variable {K : Type} [Field K] [DecidableEq K]
variable (hnr : ∀ x y : K, x * x + y * y = 0 → x = 0 ∧ y = 0) (h2 : (2 : K) ≠ 0)
include hnr h2

/-- loop invariant, for an arbitrary bit list `bs` (Impl runs `bs` then the final doubling; Spec runs `bs ++ [false]`). -/
theorem run_invariant (P : Aff K) (Q : Aff (Q2 K)) : ∀ (bs : List Bool) (f g c : Q12 K) (T : Pt (Q2 K))
    (r : Jac (Q2 K)), Pt.ofJac r = T → g = c * (f * f) → addOK Q.x Q.y (bs ++ [false]) T = true →
    (bs.foldl (implStep P Q) (g, r)).1 * lineEl (miller_doubling_step (bs.foldl (implStep P Q) (g, r)).2).1 P =
      kappaRun Q c r bs *
        ((bs ++ [false]).foldl (specStep (.aff Q.x Q.y) P.x P.y) (f, T)).1 := by
  intro bs
  induction bs with
  | nil =>
    intro f g c T r hT hg _
    obtain ⟨e1, _⟩ := dbl_step_millerLine hnr h2 r P
    simp only [List.foldl_nil, List.nil_append, List.foldl_cons, kappaRun, specStep, Bool.false_eq_true, if_false]
    rw [e1, hg, hT]; ring
  | cons b bs ih =>
    intro f g c T r hT hg hok
    obtain ⟨e1, e2⟩ := dbl_step_millerLine hnr h2 r P
    rw [hT] at e1 e2
    rw [millerLineG_snd] at e2
    cases b with
    | false =>
      simp only [List.cons_append, addOK, Bool.false_eq_true, if_false] at hok
      simp only [List.foldl_cons, List.cons_append, kappaRun, Bool.false_eq_true, if_false]
      have hs : specStep (Pt.aff Q.x Q.y) P.x P.y (f, T) false =
          (f * f * (millerLineG T T P.x P.y).1, Pt.add T T) := by
        simp only [specStep, Bool.false_eq_true, if_false, millerLineG_snd]
      have hi : implStep P Q (g, r) false =
          ((g * lineEl (miller_doubling_step r).1 P) * (g * lineEl (miller_doubling_step r).1 P),
            (miller_doubling_step r).2) := by
        simp only [implStep, Bool.false_eq_true, if_false]
      rw [hs, hi]
      refine ih _ _ _ _ _ e2 ?_ hok
      rw [e1, hg]; ring
    | true =>
      simp only [List.cons_append, addOK, if_true, Bool.and_eq_true] at hok
      obtain ⟨hok1, hok2⟩ := hok
      simp only [List.foldl_cons, List.cons_append, kappaRun, if_true]
      cases hT2 : Pt.add T T with
      | inf => rw [hT2] at hok1; exact absurd hok1 (by simp)
      | aff x2 y2 =>
        rw [hT2] at hok1 hok2 e2
        simp only [decide_eq_true_eq] at hok1
        obtain ⟨a1, a2⟩ := add_step_millerLine hnr h2 Q e2 hok1 P
        rw [millerLineG_snd] at a2
        have hs : specStep (Pt.aff Q.x Q.y) P.x P.y (f, T) true =
            (f * f * (millerLineG T T P.x P.y).1 *
                (millerLineG (Pt.aff x2 y2) (Pt.aff Q.x Q.y) P.x P.y).1,
              Pt.add (Pt.aff x2 y2) (Pt.aff Q.x Q.y)) := by
          simp only [specStep, if_true, millerLineG_snd, hT2]
        have hi : implStep P Q (g, r) true =
            ((g * lineEl (miller_doubling_step r).1 P *
                  lineEl (miller_addition_step (miller_doubling_step r).2 Q).1 P) *
                (g * lineEl (miller_doubling_step r).1 P *
                  lineEl (miller_addition_step (miller_doubling_step r).2 Q).1 P),
              (miller_addition_step (miller_doubling_step r).2 Q).2) := by
          simp only [implStep, if_true]
        rw [hs, hi]
        refine ih _ _ _ _ _ a2 ?_ hok2
        rw [e1, a1, hg]; ring

omit h2 in
theorem ofJac_from_affine (Q : Aff (Q2 K)) (hQ : Q.infinity = false) :
    Pt.ofJac (Proj2.from_affine Q) = .aff Q.x Q.y := by
  have := fq2_from_affine_correct' hnr Q
  simpa [Aff.toPt, hQ] using this

/-- refinement for an arbitrary bit list: (main loop over `bs`, final doubling round) = κ · (Spec loop over `bs ++ [0]`). -/
theorem implRun_refines (P : Aff K) (Q : Aff (Q2 K)) (hQ : Q.infinity = false) (bs : List Bool)
    (hok : addOK Q.x Q.y (bs ++ [false]) (.aff Q.x Q.y) = true) :
    implRun P Q bs =
      kappaRun Q 1 (Proj2.from_affine Q) bs *
        ((bs ++ [false]).foldl (specStep (.aff Q.x Q.y) P.x P.y) (1, .aff Q.x Q.y)).1 :=
  run_invariant hnr h2 P Q bs 1 1 1 _ _ (ofJac_from_affine hnr Q hQ) (by ring) hok

/-- **C01, loop refinement.**  P, Q finite (`infinity = false`; coordinates arbitrary — no curve equation is used),
no exceptional ADDITION along the Spec's run from Q over the bits of |x| (`addOK`, a decidable predicate on the Spec's
intermediate points).  Then the C++ Miller loop is the conjugate of κ_total(Q) times the textbook Miller function:

  `millerLoop [(P,Q)] [] = conj (κ_total(Q) · f_{|x|,ψ(Q)}(P))`. -/
theorem millerLoop_refines (P : Aff K) (Q : Aff (Q2 K)) (hP : P.infinity = false)
    (hQ : Q.infinity = false)
    (hok : addOK Q.x Q.y (bitsBelowTop blsX) (.aff Q.x Q.y) = true) :
    millerLoop [(P, Q)] [] =
      Q12.conj (kappaTotal Q * millerSpecG blsX (.aff P.x P.y) (.aff Q.x Q.y)) := by
  rw [millerLoop_single P Q hP hQ]
  rw [bitsBelowTop_blsX] at hok
  have := implRun_refines hnr h2 P Q hQ millerBits hok
  simp only [kappaTotal, millerSpecG, bitsBelowTop_blsX]
  rw [this]

/-! ### κ_total is a monomial k·w^j, k ∈ Fq2 nonzero, when nothing exceptional happens -/

/-- `z = k · w^j` with `k ∈ Fq2` nonzero. -/
def IsMono (z : Q12 K) : Prop := ∃ k : Q2 K, k ≠ 0 ∧ ∃ j : Nat, z = Q12.ofQ2 k * Q12.w ^ j

omit hnr h2 [DecidableEq K] in
theorem IsMono.one (h1 : (1 : Q2 K) ≠ 0) : IsMono (1 : Q12 K) :=
  ⟨1, h1, 0, by rw [Q12.ofQ2_one]; ring⟩

omit h2 [DecidableEq K] in
theorem IsMono.mul {a b : Q12 K} (ha : IsMono a) (hb : IsMono b) : IsMono (a * b) := by
  let _ := Q2.instField hnr
  obtain ⟨k, hk, j, rfl⟩ := ha
  obtain ⟨k', hk', j', rfl⟩ := hb
  exact ⟨k * k', mul_ne_zero hk hk', j + j', by rw [Q12.ofQ2_mul, pow_add]; ring⟩

omit [DecidableEq K] in
/-- a monomial is a unit of `Q12 K`, with explicit inverse `k⁻¹ · (w⁻¹)^j`. -/
theorem IsMono.unit {a : Q12 K} (ha : IsMono a) : ∃ b : Q12 K, a * b = 1 := by
  obtain ⟨k, hk, j, rfl⟩ := ha
  exact ⟨_, kappa_unit hnr h2 hk j⟩

omit hnr h2 [DecidableEq K] in
/-- a monomial is an eigenvector of the conjugation f ↦ f^(q⁶) with eigenvalue ±1. -/
theorem IsMono.conj {a : Q12 K} (ha : IsMono a) : Q12.conj a = a ∨ Q12.conj a = -a := by
  obtain ⟨k, hk, j, rfl⟩ := ha
  have hw : ∀ j : Nat, Q12.conj ((Q12.w : Q12 K) ^ j) = (-1) ^ j * Q12.w ^ j := by
    intro j
    induction j with
    | zero => ext <;> simp [Q12.conj]
    | succ n ih => rw [pow_succ, Q12.conj_mul', ih, Q12.conj_w]; ring
  rw [Q12.conj_mul', Q12.conj_ofQ2, hw]
  rcases neg_one_pow_eq_or (Q12 K) j with h | h
  · left; rw [h]; ring
  · right; rw [h]; ring

theorem dblKappa_mono {r : Jac (Q2 K)} (hz : r.z ≠ 0) (hy : r.y ≠ 0) : IsMono (dblKappa r) := by
  simp only [dblKappa, if_neg hz, if_neg hy]
  exact ⟨_, dbl_a_ne_zero hnr h2 hz hy, 3, rfl⟩

theorem addKappa_mono {r : Jac (Q2 K)} {Q : Aff (Q2 K)} (hz : r.z ≠ 0)
    (hH : r.x ≠ Q.x * (r.z * r.z)) : IsMono (addKappa r Q) := by
  simp only [addKappa, if_neg hH]
  exact ⟨_, add_a_ne_zero hnr h2 hz hH, 3, rfl⟩

theorem kappaRun_mono (Q : Aff (Q2 K)) : ∀ (bs : List Bool) (c : Q12 K) (T : Pt (Q2 K)) (r : Jac (Q2 K)),
    Pt.ofJac r = T → IsMono c → noExc Q.x Q.y (bs ++ [false]) T = true → IsMono (kappaRun Q c r bs) := by
  let _ := Q2.instField hnr
  -- a finite, non-2-torsion Spec point has Z ≠ 0, Y ≠ 0
  have key : ∀ (T : Pt (Q2 K)) (r : Jac (Q2 K)), Pt.ofJac r = T →
      (match T with
        | .aff _ y => decide (y ≠ -y)
        | .inf => false) = true → r.z ≠ 0 ∧ r.y ≠ 0 := by
    intro T r hT h
    cases T with
    | inf => exact absurd h (by simp)
    | aff x y =>
      obtain ⟨hz, _, hy⟩ := ofJac_aff_iff.mp hT
      refine ⟨hz, fun h0 => ?_⟩
      simp only [decide_eq_true_eq] at h
      apply h
      rw [hy, h0]; ring
  intro bs
  induction bs with
  | nil =>
    intro c T r hT hc hok
    simp only [List.nil_append, noExc, Bool.false_eq_true, if_false, Bool.and_eq_true] at hok
    obtain ⟨hz, hy⟩ := key T r hT hok.1
    simp only [kappaRun]
    exact hc.mul hnr (dblKappa_mono hnr h2 hz hy)
  | cons b bs ih =>
    intro c T r hT hc hok
    have e2 : Pt.ofJac (miller_doubling_step r).2 = Pt.add T T := by
      rw [dbl_step_point_add hnr h2, hT]
    cases b with
    | false =>
      simp only [List.cons_append, noExc, Bool.false_eq_true, if_false, Bool.and_eq_true] at hok
      obtain ⟨hz, hy⟩ := key T r hT hok.1
      simp only [kappaRun, Bool.false_eq_true, if_false]
      have hd := hc.mul hnr (dblKappa_mono hnr h2 hz hy)
      exact ih _ _ _ e2 (hd.mul hnr hd) hok.2
    | true =>
      simp only [List.cons_append, noExc, if_true, Bool.and_eq_true] at hok
      obtain ⟨hok0, hok1, hok2⟩ := hok
      obtain ⟨hz, hy⟩ := key T r hT hok0
      simp only [kappaRun, if_true]
      cases hT2 : Pt.add T T with
      | inf => rw [hT2] at hok1; exact absurd hok1 (by simp)
      | aff x2 y2 =>
        rw [hT2] at hok1 hok2 e2
        simp only [decide_eq_true_eq] at hok1
        obtain ⟨hz2, hx2, _⟩ := ofJac_aff_iff.mp e2
        have hH : (miller_doubling_step r).2.x ≠ Q.x * ((miller_doubling_step r).2.z * (miller_doubling_step r).2.z) := by
          intro h
          apply hok1
          rw [hx2, aff_x_eq_iff hz2, h]; ring
        have a2 : Pt.ofJac (miller_addition_step (miller_doubling_step r).2 Q).2 =
            Pt.add (Pt.aff x2 y2) (Pt.aff Q.x Q.y) := add_step_point hnr h2 Q e2 hok1
        have hd := (hc.mul hnr (dblKappa_mono hnr h2 hz hy)).mul hnr (addKappa_mono hnr h2 hz2 hH)
        exact ih _ _ _ a2 (hd.mul hnr hd) hok2

/-- **κ_total(Q) = k · w^j, k ∈ Fq2 nonzero**, when the Spec's run from Q meets no exceptional case (`noExc`):
hence κ_total is a unit (`IsMono.unit`), conj κ_total = ± κ_total (`IsMono.conj`), and the easy part
f ↦ conj(f)/f = f^(q⁶−1) of the final exponentiation sends it to ±1, which (q²+1) even kills. -/
theorem kappaTotal_mono (Q : Aff (Q2 K)) (hQ : Q.infinity = false)
    (hok : noExc Q.x Q.y (bitsBelowTop blsX) (.aff Q.x Q.y) = true) : IsMono (kappaTotal Q) := by
  let _ := Q2.instField hnr
  rw [bitsBelowTop_blsX] at hok
  exact kappaRun_mono hnr h2 Q millerBits 1 _ _ (ofJac_from_affine hnr Q hQ)
    (IsMono.one one_ne_zero) hok

end Refine

/-! ### Non-vacuity
(a) the full 63-bit statement over F₇ (7 ≡ 3 mod 4, so `Q2 (ZMod 7)` = F₄₉ is a field): Q = (6+6u, 6+5u) — a point of
the curve y² = x³ + b with b := y² − x³ — runs through all 63 doublings and 5 additions of the Spec without any
exceptional case; all hypotheses hold and both sides are nonzero.
(b) a short bit list over the Gaussian rationals. -/
section NonVacuity
private instance fact7 : Fact (Nat.Prime 7) := ⟨by decide⟩
private theorem hnr7 : ∀ x y : ZMod 7, x * x + y * y = 0 → x = 0 ∧ y = 0 := by decide
private def Q7 : Aff (Q2 (ZMod 7)) := ⟨⟨6, 6⟩, ⟨6, 5⟩, false⟩
private def P7 : Aff (ZMod 7) := ⟨3, 5, false⟩

private theorem noExc7 : noExc Q7.x Q7.y (bitsBelowTop blsX) (.aff Q7.x Q7.y) = true := by
  decide +kernel

example : millerLoop [(P7, Q7)] [] =
    Q12.conj (kappaTotal Q7 * millerSpecG blsX (.aff P7.x P7.y) (.aff Q7.x Q7.y)) :=
  millerLoop_refines hnr7 (by decide) P7 Q7 rfl rfl (noExc_addOK _ _ _ _ noExc7)
example : IsMono (kappaTotal Q7) := kappaTotal_mono hnr7 (by decide) Q7 rfl noExc7
example : millerLoop [(P7, Q7)] [] ≠ 0 := by decide +kernel
example : millerSpecG blsX (.aff P7.x P7.y) (.aff Q7.x Q7.y) ≠ 0 := by decide +kernel
/-- here κ_total = (5 + u)·w³ -/
example : kappaTotal Q7 = Q12.ofQ2 ⟨5, 1⟩ * Q12.w ^ 3 := by decide +kernel

private theorem hnrQ' : ∀ x y : ℚ, x * x + y * y = 0 → x = 0 ∧ y = 0 :=
  fun _ _ h => mul_self_add_mul_self_eq_zero.mp h
private def Q0' : Aff (Q2 ℚ) := ⟨⟨0, 1⟩, ⟨1, 0⟩, false⟩
private def P0' : Aff ℚ := ⟨3, 5, false⟩
private theorem noExcQ : noExc Q0'.x Q0'.y ([true] ++ [false]) (.aff Q0'.x Q0'.y) = true := by
  decide +kernel
example : implRun P0' Q0' [true] =
    kappaRun Q0' 1 (Proj2.from_affine Q0') [true] *
      (([true] ++ [false]).foldl (specStep (.aff Q0'.x Q0'.y) P0'.x P0'.y) (1, .aff Q0'.x Q0'.y)).1 :=
  implRun_refines hnrQ' (by norm_num) P0' Q0' rfl [true] (noExc_addOK _ _ _ _ noExcQ)
example : implRun P0' Q0' [true] ≠ 0 := by decide +kernel
end NonVacuity

end Jedi
