/-
Correctness proofs for the limb-level models of `JediVerif/Impl/Limbs.lean`
(BigInt / FpBase of /repo/include/core).  Everything is proved for an arbitrary limb base `B`
and an arbitrary number of limbs.
-/
import JediVerif.Impl.Limbs
import Mathlib.Tactic.Ring
import Mathlib.Tactic.Linarith
import Mathlib.Data.Nat.ModEq

namespace Jedi.Impl

/-! ### Basics: `val`, `WF`, `toLimbs` -/

@[simp] theorem val_nil (B : Nat) : val B [] = 0 := rfl
@[simp] theorem val_cons (B x : Nat) (xs : List Nat) : val B (x :: xs) = x + B * val B xs := rfl

@[simp] theorem WF_nil (B : Nat) : WF B [] := by intro x hx; cases hx
@[simp] theorem WF_cons {B x : Nat} {xs : List Nat} : WF B (x :: xs) ↔ x < B ∧ WF B xs := by
  simp [WF]

theorem WF_append {B : Nat} {xs ys : List Nat} : WF B (xs ++ ys) ↔ WF B xs ∧ WF B ys := by
  simp only [WF, List.mem_append]
  constructor
  · intro h; exact ⟨fun x hx => h x (Or.inl hx), fun x hx => h x (Or.inr hx)⟩
  · rintro ⟨h1, h2⟩ x (hx | hx); exacts [h1 x hx, h2 x hx]

theorem WF_tail {B : Nat} {xs : List Nat} (h : WF B xs) : WF B xs.tail := by
  cases xs with
  | nil => simp
  | cons x xs => exact (WF_cons.1 h).2

theorem WF_drop {B : Nat} {xs : List Nat} (h : WF B xs) (k : Nat) : WF B (xs.drop k) :=
  fun x hx => h x (List.mem_of_mem_drop hx)

theorem WF_take {B : Nat} {xs : List Nat} (h : WF B xs) (k : Nat) : WF B (xs.take k) :=
  fun x hx => h x (List.mem_of_mem_take hx)

theorem headD_lt {B : Nat} (hB : 0 < B) {xs : List Nat} (h : WF B xs) : xs.headD 0 < B := by
  cases xs with
  | nil => simpa using hB
  | cons x xs => exact (WF_cons.1 h).1

theorem val_headD_tail (B : Nat) (xs : List Nat) : val B xs = xs.headD 0 + B * val B xs.tail := by
  cases xs <;> simp

theorem val_append (B : Nat) (xs ys : List Nat) :
    val B (xs ++ ys) = val B xs + B ^ xs.length * val B ys := by
  induction xs with
  | nil => simp
  | cons x xs ih => simp [ih, pow_succ]; ring

theorem val_take_drop (B : Nat) (xs : List Nat) (k : Nat) :
    val B xs = val B (xs.take k) + B ^ (min k xs.length) * val B (xs.drop k) := by
  conv_lhs => rw [← List.take_append_drop k xs]
  rw [val_append, List.length_take]

/-- A well-formed `n`-limb list is `< B^n`. -/
theorem val_lt {B : Nat} {xs : List Nat} (h : WF B xs) : val B xs < B ^ xs.length := by
  induction xs with
  | nil => simp
  | cons x xs ih =>
    have hx := (WF_cons.1 h).1
    have := ih (WF_cons.1 h).2
    simp only [val_cons, List.length_cons, pow_succ]
    nlinarith

theorem val_replicate_zero (B n : Nat) : val B (List.replicate n 0) = 0 := by
  induction n with
  | zero => rfl
  | succ n ih => simp [List.replicate_succ, ih]

theorem WF_replicate_zero {B : Nat} (hB : 0 < B) (n : Nat) : WF B (List.replicate n 0) := by
  intro x hx; rw [List.eq_of_mem_replicate hx]; exact hB

@[simp] theorem length_toLimbs (B n v : Nat) : (toLimbs B n v).length = n := by
  induction n generalizing v with
  | zero => rfl
  | succ n ih => simp [toLimbs, ih]

theorem WF_toLimbs {B : Nat} (hB : 0 < B) (n v : Nat) : WF B (toLimbs B n v) := by
  induction n generalizing v with
  | zero => simp [toLimbs]
  | succ n ih => simp [toLimbs, ih, Nat.mod_lt _ hB]

theorem val_toLimbs (B n v : Nat) : val B (toLimbs B n v) = v % B ^ n := by
  induction n generalizing v with
  | zero => simp [toLimbs, Nat.mod_one]
  | succ n ih =>
    simp only [toLimbs, val_cons, ih, pow_succ]
    rw [Nat.mul_comm (B ^ n) B, Nat.mod_mul]

theorem toLimbs_val {B : Nat} {xs : List Nat} (h : WF B xs) :
    toLimbs B xs.length (val B xs) = xs := by
  induction xs with
  | nil => rfl
  | cons x xs ih =>
    have hx := (WF_cons.1 h).1
    have hB : 0 < B := by omega
    simp only [List.length_cons, toLimbs, val_cons]
    rw [Nat.add_mul_mod_self_left, Nat.mod_eq_of_lt hx, Nat.add_mul_div_left _ _ hB,
      Nat.div_eq_of_lt hx, Nat.zero_add, ih (WF_cons.1 h).2]

/-- Canonical limb representation is unique. -/
theorem val_inj {B : Nat} {a b : List Nat} (ha : WF B a) (hb : WF B b)
    (hlen : a.length = b.length) (hv : val B a = val B b) : a = b := by
  rw [← toLimbs_val ha, ← toLimbs_val hb, hlen, hv]


/-! ### `is_zero`, `compare` -/

theorem isZero_iff (B : Nat) (hB : 0 < B) (xs : List Nat) : isZero xs = true ↔ val B xs = 0 := by
  induction xs with
  | nil => simp [isZero]
  | cons x xs ih =>
    simp only [isZero, val_cons]
    by_cases hx : x = 0
    · subst hx
      simp only [bne_self_eq_false, Bool.false_eq_true, if_false, ih, Nat.zero_add]
      constructor
      · intro h; rw [h]; rfl
      · intro h; rcases Nat.mul_eq_zero.1 h with h | h
        · omega
        · exact h
    · have : (x != 0) = true := by simpa using hx
      simp only [this, if_true]
      constructor
      · intro h; cases h
      · intro h; omega

theorem cmp_cases {B : Nat} {a b : List Nat} (ha : WF B a) (hb : WF B b)
    (hlen : a.length = b.length) :
    (cmp a b = -1 ∧ val B a < val B b) ∨ (cmp a b = 0 ∧ val B a = val B b) ∨
    (cmp a b = 1 ∧ val B b < val B a) := by
  induction a generalizing b with
  | nil =>
    cases b with
    | nil => simp [cmp]
    | cons y ys => simp at hlen
  | cons x xs ih =>
    cases b with
    | nil => simp at hlen
    | cons y ys =>
      have hx := (WF_cons.1 ha).1
      have hy := (WF_cons.1 hb).1
      have hl : xs.length = ys.length := by simpa using hlen
      simp only [cmp, val_cons]
      rcases ih (WF_cons.1 ha).2 (WF_cons.1 hb).2 hl with ⟨h1, h2⟩ | ⟨h1, h2⟩ | ⟨h1, h2⟩
      · left
        refine ⟨by simp [h1], ?_⟩
        have := Nat.mul_le_mul_left B (Nat.succ_le_of_lt h2)
        rw [Nat.mul_succ] at this
        omega
      · rw [h1, h2]
        simp only [ne_eq, not_true_eq_false, if_false]
        by_cases hlt : x < y
        · left; simp [hlt]
        · by_cases hgt : x > y
          · right; right; simp [hlt, hgt]
          · right; left; simp [hlt, hgt]; omega
      · right; right
        refine ⟨by simp [h1], ?_⟩
        have := Nat.mul_le_mul_left B (Nat.succ_le_of_lt h2)
        rw [Nat.mul_succ] at this
        omega

theorem cmp_lt_iff {B : Nat} {a b : List Nat} (ha : WF B a) (hb : WF B b)
    (hlen : a.length = b.length) : cmp a b = -1 ↔ val B a < val B b := by
  rcases cmp_cases ha hb hlen with ⟨h1, h2⟩ | ⟨h1, h2⟩ | ⟨h1, h2⟩ <;> rw [h1] <;>
    constructor <;> intro h <;> omega

theorem cmp_eq_iff {B : Nat} {a b : List Nat} (ha : WF B a) (hb : WF B b)
    (hlen : a.length = b.length) : cmp a b = 0 ↔ val B a = val B b := by
  rcases cmp_cases ha hb hlen with ⟨h1, h2⟩ | ⟨h1, h2⟩ | ⟨h1, h2⟩ <;> rw [h1] <;>
    constructor <;> intro h <;> omega

theorem cmp_gt_iff {B : Nat} {a b : List Nat} (ha : WF B a) (hb : WF B b)
    (hlen : a.length = b.length) : cmp a b = 1 ↔ val B b < val B a := by
  rcases cmp_cases ha hb hlen with ⟨h1, h2⟩ | ⟨h1, h2⟩ | ⟨h1, h2⟩ <;> rw [h1] <;>
    constructor <;> intro h <;> omega

theorem cmp_ge_iff {B : Nat} {a b : List Nat} (ha : WF B a) (hb : WF B b)
    (hlen : a.length = b.length) : cmp a b ≥ 0 ↔ val B b ≤ val B a := by
  rcases cmp_cases ha hb hlen with ⟨h1, h2⟩ | ⟨h1, h2⟩ | ⟨h1, h2⟩ <;> rw [h1] <;>
    constructor <;> intro h <;> omega


/-! ### `add`, `subtract` -/

/-- One word of `BigInt::add`: the comparison trick recovers exactly the carry. -/
theorem add_word {B a b c : Nat} (ha : a < B) (hb : b < B) (hc : c ≤ 1) :
    (a + b + c) % B +
      B * (if c = 0 then (if (a + b + c) % B < b then 1 else 0)
           else (if (a + b + c) % B ≤ b then 1 else 0)) = a + b + c ∧
    (if c = 0 then (if (a + b + c) % B < b then 1 else 0)
           else (if (a + b + c) % B ≤ b then 1 else 0)) ≤ 1 := by
  by_cases h : a + b + c < B
  · rw [Nat.mod_eq_of_lt h]
    split_ifs <;> omega
  · have h2 : (a + b + c) % B = a + b + c - B := by
      rw [Nat.mod_eq_sub_mod (by omega), Nat.mod_eq_of_lt (by omega)]
    rw [h2]
    split_ifs <;> omega

theorem addLoop_spec {B : Nat} {a b : List Nat} {c : Nat} (ha : WF B a) (hb : WF B b)
    (hlen : a.length = b.length) (hc : c ≤ 1) :
    WF B (addLoop B a b c).1 ∧ (addLoop B a b c).1.length = a.length ∧
    (addLoop B a b c).2 ≤ 1 ∧
    val B (addLoop B a b c).1 + B ^ a.length * (addLoop B a b c).2 = val B a + val B b + c := by
  induction a generalizing b c with
  | nil =>
    cases b with
    | nil => simp [addLoop, hc]
    | cons y ys => simp at hlen
  | cons x xs ih =>
    cases b with
    | nil => simp at hlen
    | cons y ys =>
      have hx := (WF_cons.1 ha).1
      have hy := (WF_cons.1 hb).1
      have hB : 0 < B := by omega
      have hl : xs.length = ys.length := by simpa using hlen
      obtain ⟨hw1, hw2⟩ := add_word hx hy hc
      simp only [addLoop]
      generalize hc' : (if c = 0 then (if (x + y + c) % B < y then 1 else 0)
           else (if (x + y + c) % B ≤ y then 1 else 0)) = c' at hw1 hw2 ⊢
      obtain ⟨i1, i2, i3, i4⟩ := ih (c := c') (WF_cons.1 ha).2 (WF_cons.1 hb).2 hl hw2
      refine ⟨WF_cons.2 ⟨Nat.mod_lt _ hB, i1⟩, by simp [i2], i3, ?_⟩
      simp only [val_cons, List.length_cons, pow_succ]
      have := congrArg (B * ·) i4
      nlinarith

/-- One word of `BigInt::subtract`. -/
theorem sub_word {B a b c : Nat} (ha : a < B) (hb : b < B) (hc : c ≤ 1) :
    (a + B - b - c) % B + b + c =
      a + B * (if c = 0 then (if a < (a + B - b - c) % B then 1 else 0)
           else (if a ≤ (a + B - b - c) % B then 1 else 0)) ∧
    (if c = 0 then (if a < (a + B - b - c) % B then 1 else 0)
           else (if a ≤ (a + B - b - c) % B then 1 else 0)) ≤ 1 := by
  by_cases h : a + B - b - c < B
  · rw [Nat.mod_eq_of_lt h]
    split_ifs <;> omega
  · have h2 : (a + B - b - c) % B = a - b - c := by
      rw [Nat.mod_eq_sub_mod (by omega), Nat.mod_eq_of_lt (by omega)]; omega
    rw [h2]
    split_ifs <;> omega

theorem subLoop_spec {B : Nat} {a b : List Nat} {c : Nat} (ha : WF B a) (hb : WF B b)
    (hlen : a.length = b.length) (hc : c ≤ 1) :
    WF B (subLoop B a b c).1 ∧ (subLoop B a b c).1.length = a.length ∧
    (subLoop B a b c).2 ≤ 1 ∧
    val B (subLoop B a b c).1 + val B b + c = val B a + B ^ a.length * (subLoop B a b c).2 := by
  induction a generalizing b c with
  | nil =>
    cases b with
    | nil => simp [subLoop, hc]
    | cons y ys => simp at hlen
  | cons x xs ih =>
    cases b with
    | nil => simp at hlen
    | cons y ys =>
      have hx := (WF_cons.1 ha).1
      have hy := (WF_cons.1 hb).1
      have hB : 0 < B := by omega
      have hl : xs.length = ys.length := by simpa using hlen
      obtain ⟨hw1, hw2⟩ := sub_word hx hy hc
      simp only [subLoop]
      generalize hc' : (if c = 0 then (if x < (x + B - y - c) % B then 1 else 0)
           else (if x ≤ (x + B - y - c) % B then 1 else 0)) = c' at hw1 hw2 ⊢
      obtain ⟨i1, i2, i3, i4⟩ := ih (c := c') (WF_cons.1 ha).2 (WF_cons.1 hb).2 hl hw2
      refine ⟨WF_cons.2 ⟨Nat.mod_lt _ hB, i1⟩, by simp [i2], i3, ?_⟩
      simp only [val_cons, List.length_cons, pow_succ]
      have := congrArg (B * ·) i4
      nlinarith


/-! ### one-bit shifts -/

theorem or_bit (x s : Nat) (hs : s ≤ 1) : (2 * x) ||| s = 2 * x + s := by
  have h := Nat.shiftLeft_add_eq_or_of_lt (i := 1) (b := s) (by omega) x
  rw [Nat.shiftLeft_eq] at h
  rw [Nat.mul_comm 2 x]
  exact h.symm

/-- One word of `shift_left_in_word<1>` (`B` even, `B = 2H`). -/
theorem shl_word {H a s : Nat} (ha : a < 2 * H) (hs : s ≤ 1) :
    (((a * 2) % (2 * H)) ||| s) + (2 * H) * (a / (2 * H / 2)) = 2 * a + s ∧
    (((a * 2) % (2 * H)) ||| s) < 2 * H ∧ a / (2 * H / 2) ≤ 1 := by
  have hH : 0 < H := by omega
  have e1 : 2 * H / 2 = H := by omega
  have e2 : (a * 2) % (2 * H) = 2 * (a % H) := by
    rw [Nat.mul_comm a 2, Nat.mul_mod_mul_left]
  rw [e1, e2, or_bit _ _ hs]
  have h1 := Nat.div_add_mod a H
  have h2 := Nat.mod_lt a hH
  have h3 : a / H ≤ 1 := by
    have : a / H < 2 := (Nat.div_lt_iff_lt_mul hH).2 (by omega)
    omega
  refine ⟨?_, by omega, h3⟩
  nlinarith

theorem shl1Loop_spec {H : Nat} {a : List Nat} {s : Nat} (ha : WF (2 * H) a) (hs : s ≤ 1) :
    WF (2 * H) (shl1Loop (2 * H) a s).1 ∧ (shl1Loop (2 * H) a s).1.length = a.length ∧
    (shl1Loop (2 * H) a s).2 ≤ 1 ∧
    val (2 * H) (shl1Loop (2 * H) a s).1 + (2 * H) ^ a.length * (shl1Loop (2 * H) a s).2
      = 2 * val (2 * H) a + s := by
  induction a generalizing s with
  | nil => simp [shl1Loop, hs]
  | cons x xs ih =>
    have hx := (WF_cons.1 ha).1
    obtain ⟨w1, w2, w3⟩ := shl_word hx hs
    simp only [shl1Loop]
    obtain ⟨i1, i2, i3, i4⟩ := ih (s := x / (2 * H / 2)) (WF_cons.1 ha).2 w3
    refine ⟨WF_cons.2 ⟨w2, i1⟩, by simp only [List.length_cons, i2], i3, ?_⟩
    simp only [val_cons, List.length_cons, pow_succ]
    have := congrArg ((2 * H) * ·) i4
    nlinarith

/-- `shift_left_in_word<1>`: `out + B^n·shiftOut = 2·a`, for any even base. -/
theorem shl1_spec {B : Nat} {a : List Nat} (hB : B % 2 = 0) (ha : WF B a) :
    WF B (shl1 B a).1 ∧ (shl1 B a).1.length = a.length ∧ (shl1 B a).2 ≤ 1 ∧
    val B (shl1 B a).1 + B ^ a.length * (shl1 B a).2 = 2 * val B a := by
  obtain ⟨H, rfl⟩ : ∃ H, B = 2 * H := ⟨B / 2, by omega⟩
  simpa [shl1] using shl1Loop_spec (s := 0) ha (by omega)

theorem or_high (w e y : Nat) (hy : y < 2 ^ w) : (e * 2 ^ w) ||| y = e * 2 ^ w + y := by
  have h := Nat.shiftLeft_add_eq_or_of_lt hy e
  rw [Nat.shiftLeft_eq] at h
  exact h.symm

/-- `shift_right_in_word<1>` for `B = 2^(w+1)`: invariant of the top-down loop. -/
theorem shr1_aux {w : Nat} {a : List Nat} (ha : WF (2 ^ (w + 1)) a) :
    WF (2 ^ (w + 1)) (shr1 (2 ^ (w + 1)) a).1 ∧ (shr1 (2 ^ (w + 1)) a).1.length = a.length ∧
    (shr1 (2 ^ (w + 1)) a).2 = (val (2 ^ (w + 1)) a % 2) * 2 ^ w ∧
    2 ^ (w + 1) * val (2 ^ (w + 1)) (shr1 (2 ^ (w + 1)) a).1 + (shr1 (2 ^ (w + 1)) a).2
      = 2 ^ w * val (2 ^ (w + 1)) a := by
  induction a with
  | nil => simp [shr1]
  | cons x xs ih =>
    have hx := (WF_cons.1 ha).1
    obtain ⟨i1, i2, i3, i4⟩ := ih (WF_cons.1 ha).2
    have hH : 0 < 2 ^ w := Nat.pos_of_ne_zero (by positivity)
    have eB : 2 ^ (w + 1) = 2 * 2 ^ w := by rw [pow_succ, Nat.mul_comm]
    have e1 : 2 ^ (w + 1) / 2 = 2 ^ w := by omega
    have e2 : (x * 2 ^ w) % (2 ^ (w + 1)) = (x % 2) * 2 ^ w := by
      rw [eB, Nat.mul_mod_mul_right]
    have hx2 : x / 2 < 2 ^ w := by omega
    have hd := Nat.div_add_mod x 2
    simp only [shr1, e1, e2]
    rw [i3, or_high _ _ _ hx2]
    rw [i3] at i4
    have hm : (val (2 ^ (w + 1)) (x :: xs)) % 2 = x % 2 := by
      rw [val_cons, eB, Nat.mul_assoc, Nat.add_mul_mod_self_left]
    have hv2 := Nat.mod_lt (val (2 ^ (w + 1)) xs) (show 0 < 2 by omega)
    refine ⟨WF_cons.2 ⟨?_, i1⟩, by simp [i2], by rw [hm], ?_⟩
    · generalize val (2 ^ (w + 1)) xs % 2 = e at hv2 ⊢
      have : e * 2 ^ w ≤ 1 * 2 ^ w := Nat.mul_le_mul_right _ (by omega)
      omega
    · simp only [val_cons]
      generalize val (2 ^ (w + 1)) xs % 2 = e at *
      generalize val (2 ^ (w + 1)) (shr1 (2 ^ (w + 1)) xs).1 = r at *
      generalize val (2 ^ (w + 1)) xs = v at *
      rw [eB] at i4 ⊢
      generalize 2 ^ w = H at *
      have : x = 2 * (x / 2) + x % 2 := by omega
      generalize x / 2 = xq at *
      generalize x % 2 = xr at *
      subst this
      have := congrArg ((2 * H) * ·) i4
      nlinarith

/-- `shift_right_in_word<1>`: the result is `a / 2`, the returned word is the shifted-out bit
in the top bit position. -/
theorem shr1_spec {B w : Nat} {a : List Nat} (hB : B = 2 ^ (w + 1)) (ha : WF B a) :
    WF B (shr1 B a).1 ∧ (shr1 B a).1.length = a.length ∧
    val B (shr1 B a).1 = val B a / 2 ∧ (shr1 B a).2 = (val B a % 2) * (B / 2) := by
  subst hB
  obtain ⟨i1, i2, i3, i4⟩ := shr1_aux ha
  have e1 : 2 ^ (w + 1) / 2 = 2 ^ w := by rw [pow_succ]; omega
  refine ⟨i1, i2, ?_, by rw [i3, e1]⟩
  rw [i3] at i4
  have hH : 0 < 2 ^ w := Nat.pos_of_ne_zero (by positivity)
  have eB : 2 ^ (w + 1) = 2 * 2 ^ w := by rw [pow_succ, Nat.mul_comm]
  generalize val (2 ^ (w + 1)) (shr1 (2 ^ (w + 1)) a).1 = r at *
  generalize val (2 ^ (w + 1)) a = v at *
  rw [eB] at i4
  have : 2 ^ w * (2 * r + v % 2) = 2 ^ w * v := by rw [← i4]; ring
  have := Nat.eq_of_mul_eq_mul_left hH this
  omega


/-! ### multiply-accumulate rows, `multiply` -/

/-- `u·p + t + c` fits a double word and its high word fits a word. -/
theorem mac_word {B u p t c : Nat} (hu : u < B) (hp : p < B) (ht : t < B) (hc : c < B) :
    (u * p + t + c) / B < B := by
  apply Nat.div_lt_of_lt_mul
  have : u * p ≤ (B - 1) * (B - 1) := Nat.mul_le_mul (by omega) (by omega)
  obtain ⟨k, rfl⟩ : ∃ k, B = k + 1 := ⟨B - 1, by omega⟩
  simp only [Nat.add_sub_cancel] at this
  nlinarith

theorem val_take_succ (B : Nat) (ts : List Nat) (k : Nat) :
    val B (ts.take (k + 1)) = ts.headD 0 + B * val B (ts.tail.take k) := by
  cases ts <;> simp

theorem macLoop_spec {B u : Nat} {ps ts : List Nat} {c : Nat} (hu : u < B) (hp : WF B ps)
    (ht : WF B ts) (hc : c < B) :
    WF B (macLoop B u ps ts c).1 ∧ (macLoop B u ps ts c).1.length = ps.length ∧
    (macLoop B u ps ts c).2 < B ∧
    val B (macLoop B u ps ts c).1 + B ^ ps.length * (macLoop B u ps ts c).2
      = u * val B ps + val B (ts.take ps.length) + c := by
  have hB : 0 < B := by omega
  induction ps generalizing ts c with
  | nil => simp [macLoop, hc]
  | cons p ps ih =>
    have hp0 := (WF_cons.1 hp).1
    have ht0 := headD_lt hB ht
    have hc' := mac_word hu hp0 ht0 hc
    obtain ⟨i1, i2, i3, i4⟩ := ih (ts := ts.tail) (WF_cons.1 hp).2 (WF_tail ht) hc'
    simp only [macLoop]
    refine ⟨WF_cons.2 ⟨Nat.mod_lt _ hB, i1⟩, by simp only [List.length_cons, i2], i3, ?_⟩
    simp only [val_cons, List.length_cons, pow_succ, val_take_succ]
    have hd := Nat.div_add_mod (u * p + ts.headD 0 + c) B
    have := congrArg (B * ·) i4
    nlinarith

theorem mulRow0_spec {B a0 : Nat} {bs : List Nat} {c : Nat} (ha : a0 < B) (hb : WF B bs)
    (hc : c < B) :
    WF B (mulRow0 B a0 bs c).1 ∧ (mulRow0 B a0 bs c).1.length = bs.length ∧
    (mulRow0 B a0 bs c).2 < B ∧
    val B (mulRow0 B a0 bs c).1 + B ^ bs.length * (mulRow0 B a0 bs c).2
      = a0 * val B bs + c := by
  have hB : 0 < B := by omega
  induction bs generalizing c with
  | nil => simp [mulRow0, hc]
  | cons b bs ih =>
    have hb0 := (WF_cons.1 hb).1
    have hc' : (a0 * b + c) / B < B := by simpa using mac_word ha hb0 hB hc
    obtain ⟨i1, i2, i3, i4⟩ := ih (WF_cons.1 hb).2 hc'
    simp only [mulRow0]
    refine ⟨WF_cons.2 ⟨Nat.mod_lt _ hB, i1⟩, by simp only [List.length_cons, i2], i3, ?_⟩
    simp only [val_cons, List.length_cons, pow_succ]
    have hd := Nat.div_add_mod (a0 * b + c) B
    have := congrArg (B * ·) i4
    nlinarith

/-- What a finished row (stored words followed by the carry word) looks like. -/
theorem row_spec {B : Nat} {r1 : List Nat} {r2 : Nat} (h1 : WF B r1) (h2 : r2 < B) :
    WF B (r1 ++ [r2]) ∧ (r1 ++ [r2]).length = r1.length + 1 ∧
    val B (r1 ++ [r2]) = val B r1 + B ^ r1.length * r2 := by
  refine ⟨WF_append.2 ⟨h1, by simpa using h2⟩, by simp, ?_⟩
  rw [val_append]; simp

theorem mulRows_spec {B : Nat} {as bs t : List Nat} (ha : WF B as) (hb : WF B bs) (ht : WF B t)
    (hlen : t.length = bs.length) (hB : 0 < B) :
    WF B (mulRows B as bs t) ∧ (mulRows B as bs t).length = as.length + bs.length ∧
    val B (mulRows B as bs t) = val B t + val B as * val B bs := by
  induction as generalizing t with
  | nil => simp [mulRows, ht, hlen]
  | cons a as ih =>
    have ha0 := (WF_cons.1 ha).1
    obtain ⟨m1, m2, m3, m4⟩ := macLoop_spec (ts := t) (c := 0) ha0 hb ht hB
    obtain ⟨r1, r2, r3⟩ := row_spec m1 m3
    simp only [mulRows]
    generalize (macLoop B a bs t 0).1 ++ [(macLoop B a bs t 0).2] = row at r1 r2 r3 ⊢
    have hrl : row.tail.length = bs.length := by simp [r2, m2]
    obtain ⟨i1, i2, i3⟩ := ih (t := row.tail) (WF_cons.1 ha).2 (WF_tail r1) hrl
    refine ⟨WF_cons.2 ⟨headD_lt hB r1, i1⟩, by simp only [List.length_cons, i2]; omega, ?_⟩
    rw [val_cons, i3, val_cons]
    have e := val_headD_tail B row
    rw [r3, m2] at e
    have htk : t.take bs.length = t := by rw [← hlen]; exact List.take_length
    rw [htk] at m4
    nlinarith

/-- `BigInt::multiply` computes the full product (`n ≥ 1` limbs by `m` limbs, `n + m` limbs out). -/
theorem mulLoop_spec {B : Nat} {a b : List Nat} (ha : WF B a) (hb : WF B b) (hB : 0 < B) :
    WF B (mulLoop B a b) ∧ (mulLoop B a b).length = a.length + b.length ∧
    val B (mulLoop B a b) = val B a * val B b := by
  cases a with
  | nil => simp [mulLoop, val_replicate_zero, WF_replicate_zero hB]
  | cons a0 as =>
    have ha0 := (WF_cons.1 ha).1
    obtain ⟨m1, m2, m3, m4⟩ := mulRow0_spec (c := 0) ha0 hb hB
    obtain ⟨r1, r2, r3⟩ := row_spec m1 m3
    simp only [mulLoop]
    generalize (mulRow0 B a0 b 0).1 ++ [(mulRow0 B a0 b 0).2] = row at r1 r2 r3 ⊢
    have hrl : row.tail.length = b.length := by simp [r2, m2]
    obtain ⟨i1, i2, i3⟩ := mulRows_spec (t := row.tail) (WF_cons.1 ha).2 hb (WF_tail r1) hrl hB
    refine ⟨WF_cons.2 ⟨headD_lt hB r1, i1⟩, by simp only [List.length_cons, i2]; omega, ?_⟩
    rw [val_cons, i3, val_cons]
    have e := val_headD_tail B row
    rw [r3, m2] at e
    nlinarith


/-! ### `FpBase`: add, multiply2, subtract, negate, reduce -/

theorem mod_of_range {x P : Nat} (h1 : P ≤ x) (h2 : x < 2 * P) : x % P = x - P := by
  rw [Nat.mod_eq_sub_mod h1, Nat.mod_eq_of_lt (by omega)]

theorem le_one_cases {c : Nat} (h : c ≤ 1) : c = 0 ∨ c = 1 := by omega

/-- The compare-and-subtract step shared by `FpBase::add` and `FpBase::multiply2`:
`r` with carry-out `c` represents `x = r + B^n·c < 2P`; subtracting `p` when `r ≥ p` or `c` is
set yields `x mod P`. -/
theorem condSub_spec {B : Nat} {r p : List Nat} {c : Nat} (hr : WF B r) (hp : WF B p)
    (hlen : r.length = p.length) (hc : c ≤ 1)
    (hx : val B r + B ^ r.length * c < 2 * val B p) :
    WF B (if cmp r p ≥ 0 ∨ c ≠ 0 then (subLoop B r p 0).1 else r) ∧
    (if cmp r p ≥ 0 ∨ c ≠ 0 then (subLoop B r p 0).1 else r).length = r.length ∧
    val B (if cmp r p ≥ 0 ∨ c ≠ 0 then (subLoop B r p 0).1 else r)
      = (val B r + B ^ r.length * c) % val B p := by
  obtain ⟨s1, s2, s3, s4⟩ := subLoop_spec (c := 0) hr hp hlen (by omega)
  have hP := val_lt hp
  have hout := val_lt s1
  rw [s2] at hout
  rw [← hlen] at hP
  have hge := cmp_ge_iff hr hp hlen
  split_ifs with hcond
  · refine ⟨s1, s2, ?_⟩
    rcases le_one_cases hc with rfl | rfl
    · simp only [Nat.mul_zero, Nat.add_zero] at hx ⊢
      have hrp : val B p ≤ val B r := by
        rcases hcond with h | h
        · exact hge.1 h
        · exact absurd rfl h
      rw [mod_of_range hrp hx]
      rcases le_one_cases s3 with h | h <;> rw [h] at s4 <;>
        simp only [Nat.mul_zero, Nat.mul_one] at s4 <;> omega
    · simp only [Nat.mul_one] at hx ⊢
      rw [mod_of_range (by omega) hx]
      rcases le_one_cases s3 with h | h <;> rw [h] at s4 <;>
        simp only [Nat.mul_zero, Nat.mul_one] at s4 <;> omega
  · have hc0 : c = 0 := by
      by_contra h; exact hcond (Or.inr h)
    subst hc0
    have hlt : val B r < val B p := by
      by_contra h; exact hcond (Or.inl (hge.2 (by omega)))
    refine ⟨hr, rfl, ?_⟩
    simp only [Nat.mul_zero, Nat.add_zero]
    rw [Nat.mod_eq_of_lt hlt]

/-- `FpBase::add`. -/
theorem fpAdd_spec {B : Nat} {a b p : List Nat} (ha : WF B a) (hb : WF B b) (hp : WF B p)
    (hla : a.length = p.length) (hlb : b.length = p.length)
    (hap : val B a < val B p) (hbp : val B b < val B p) :
    WF B (fpAdd B a b p) ∧ (fpAdd B a b p).length = p.length ∧
    val B (fpAdd B a b p) = (val B a + val B b) % val B p := by
  obtain ⟨a1, a2, a3, a4⟩ := addLoop_spec (c := 0) ha hb (by omega) (by omega)
  have hx : val B (addLoop B a b 0).1 + B ^ (addLoop B a b 0).1.length * (addLoop B a b 0).2
      < 2 * val B p := by rw [a2, a4]; omega
  obtain ⟨c1, c2, c3⟩ := condSub_spec a1 hp (by omega) a3 hx
  simp only [fpAdd]
  refine ⟨c1, by rw [c2]; omega, ?_⟩
  rw [c3, a2, a4, Nat.add_zero]

/-- `FpBase::multiply2` (any even base). -/
theorem fpDbl_spec {B : Nat} {a p : List Nat} (hB : B % 2 = 0) (ha : WF B a) (hp : WF B p)
    (hla : a.length = p.length) (hap : val B a < val B p) :
    WF B (fpDbl B a p) ∧ (fpDbl B a p).length = p.length ∧
    val B (fpDbl B a p) = (2 * val B a) % val B p := by
  obtain ⟨a1, a2, a3, a4⟩ := shl1_spec hB ha
  have hx : val B (shl1 B a).1 + B ^ (shl1 B a).1.length * (shl1 B a).2
      < 2 * val B p := by rw [a2, a4]; omega
  obtain ⟨c1, c2, c3⟩ := condSub_spec a1 hp (by omega) a3 hx
  simp only [fpDbl]
  refine ⟨c1, by rw [c2]; omega, ?_⟩
  rw [c3, a2, a4]

/-- `FpBase::subtract`. -/
theorem fpSub_spec {B : Nat} {a b p : List Nat} (ha : WF B a) (hb : WF B b) (hp : WF B p)
    (hla : a.length = p.length) (hlb : b.length = p.length)
    (hap : val B a < val B p) (hbp : val B b < val B p) :
    WF B (fpSub B a b p) ∧ (fpSub B a b p).length = p.length ∧
    val B (fpSub B a b p) = (val B a + val B p - val B b) % val B p := by
  obtain ⟨s1, s2, s3, s4⟩ := subLoop_spec (c := 0) ha hb (by omega) (by omega)
  obtain ⟨a1, a2, a3, a4⟩ := addLoop_spec (c := 0) s1 hp (by omega) (by omega)
  have hP := val_lt hp
  have hout := val_lt a1
  rw [a2, s2, hla] at hout
  have hr := val_lt s1
  rw [s2, hla] at hr
  rw [s2, hla] at a4
  rw [hla] at s4
  simp only [fpSub]
  split_ifs with hbo
  · have h1 : (subLoop B a b 0).2 = 1 := by omega
    rw [h1] at s4
    refine ⟨a1, by omega, ?_⟩
    rcases le_one_cases a3 with h | h <;> rw [h] at a4 <;>
      simp only [Nat.mul_zero, Nat.mul_one] at a4 s4
    · omega
    · rw [Nat.mod_eq_of_lt (by omega)]; omega
  · have h0 : (subLoop B a b 0).2 = 0 := by omega
    rw [h0] at s4
    simp only [Nat.mul_zero] at s4
    refine ⟨s1, by omega, ?_⟩
    have e : val B a + val B p - val B b = (val B a - val B b) + val B p := by omega
    rw [e, Nat.add_mod_right, Nat.mod_eq_of_lt (by omega)]; omega

/-- `FpBase::negate`. -/
theorem fpNeg_spec {B : Nat} {a p : List Nat} (ha : WF B a) (hp : WF B p)
    (hla : a.length = p.length) (hap : val B a < val B p) :
    WF B (fpNeg B a p) ∧ (fpNeg B a p).length = p.length ∧
    val B (fpNeg B a p) = (val B p - val B a) % val B p := by
  have hB : 0 < B := by
    rcases Nat.eq_zero_or_pos B with h | h
    · subst h
      cases p with
      | nil => simp at hap
      | cons x xs => have := (WF_cons.1 hp).1; omega
    · exact h
  simp only [fpNeg]
  split_ifs with hz
  · have h0 := (isZero_iff B hB a).1 hz
    refine ⟨ha, hla, ?_⟩
    rw [h0, Nat.sub_zero, Nat.mod_self]
  · have h0 : val B a ≠ 0 := fun h => hz ((isZero_iff B hB a).2 h)
    obtain ⟨s1, s2, s3, s4⟩ := subLoop_spec (c := 0) hp ha (by omega) (by omega)
    have hout := val_lt s1
    rw [s2] at hout
    refine ⟨s1, s2, ?_⟩
    rw [Nat.mod_eq_of_lt (by omega)]
    rcases le_one_cases s3 with h | h <;> rw [h] at s4 <;>
      simp only [Nat.mul_zero, Nat.mul_one] at s4 <;> omega

/-- `FpBase::reduce`. -/
theorem fpReduce_spec {B : Nat} {a p : List Nat} (ha : WF B a) (hp : WF B p)
    (hla : a.length = p.length) (hap : val B a < 2 * val B p) :
    WF B (fpReduce B a p) ∧ (fpReduce B a p).length = p.length ∧
    val B (fpReduce B a p) = val B a % val B p := by
  simp only [fpReduce]
  split_ifs with hc
  · have := (cmp_lt_iff ha hp hla).1 hc
    exact ⟨ha, hla, (Nat.mod_eq_of_lt this).symm⟩
  · have hge : val B p ≤ val B a := by
      by_contra h; exact hc ((cmp_lt_iff ha hp hla).2 (by omega))
    obtain ⟨s1, s2, s3, s4⟩ := subLoop_spec (c := 0) ha hp hla (by omega)
    have hout := val_lt s1
    rw [s2] at hout
    refine ⟨s1, by omega, ?_⟩
    rw [mod_of_range hge hap]
    rcases le_one_cases s3 with h | h <;> rw [h] at s4 <;>
      simp only [Nat.mul_zero, Nat.mul_one] at s4 <;> omega


/-! ### `FpBase::montgomery_reduce` -/

/-- The choice `u = t0·inv mod B` with `inv·p0 ≡ -1 (mod B)` clears the low word. -/
theorem mont_low_word {B inv p0 t0 : Nat} (hinv : (inv * p0 + 1) % B = 0) :
    ((t0 * inv) % B * p0 + t0) % B = 0 := by
  rw [Nat.add_mod, Nat.mod_mul_mod, ← Nat.add_mod]
  have : t0 * inv * p0 + t0 = t0 * (inv * p0 + 1) := by ring
  rw [this, Nat.mul_mod, hinv, Nat.mul_zero, Nat.zero_mod]

/-- One outer iteration of `montgomery_reduce`: adding `u·P` (for some word `u`) makes the
current window divisible by `B`, and the step leaves exactly the quotient (window shifted by one
word, with the new `meta_carry` at relative position `n`). -/
theorem montStep_spec {B n inv : Nat} {p t : List Nat} {mc : Nat} (hp : WF B p) (ht : WF B t)
    (hn : p.length = n) (hn0 : 0 < n) (hlen : n < t.length) (hmc : mc ≤ 1)
    (hinv : (inv * p.headD 0 + 1) % B = 0) :
    WF B (montStep B n p inv t mc).1 ∧ (montStep B n p inv t mc).1.length + 1 = t.length ∧
    (montStep B n p inv t mc).2 ≤ 1 ∧
    ∃ u, u < B ∧ val B t + B ^ n * mc + u * val B p
      = B * (val B (montStep B n p inv t mc).1 + B ^ n * (montStep B n p inv t mc).2) := by
  cases p with
  | nil => simp at hn; omega
  | cons p0 ps =>
  cases t with
  | nil => simp at hlen
  | cons t0 tt =>
  have hp0 := (WF_cons.1 hp).1
  have ht0 := (WF_cons.1 ht).1
  have hB : 0 < B := by omega
  have hps := (WF_cons.1 hp).2
  have htt := (WF_cons.1 ht).2
  simp only [List.headD_cons] at hinv
  have hpl : ps.length = n - 1 := by simp at hn; omega
  have htl : n ≤ tt.length := by simp at hlen; omega
  -- u and the j = 0 step
  have hu : (t0 * inv) % B < B := Nat.mod_lt _ hB
  have hlow := mont_low_word (t0 := t0) hinv
  have hc0 : ((t0 * inv) % B * p0 + t0) / B < B := by
    simpa using mac_word (c := 0) hu hp0 ht0 hB
  have e1 := Nat.div_add_mod ((t0 * inv) % B * p0 + t0) B
  rw [hlow, Nat.add_zero] at e1
  -- the inner loop j = 1 … n-1
  obtain ⟨m1, m2, m3, m4⟩ := macLoop_spec (ts := tt) hu hps htt hc0
  -- the word receiving carry + meta_carry
  have hrest := WF_drop htt (n - 1)
  have hrl : (tt.drop (n - 1)).length = tt.length - (n - 1) := List.length_drop
  have hr0 := headD_lt hB hrest
  have hsplit := val_take_drop B tt (n - 1)
  rw [Nat.min_eq_left (by omega)] at hsplit
  have hrv := val_headD_tail B (tt.drop (n - 1))
  simp only [montStep, List.headD_cons, List.tail_cons]
  rw [hpl] at m2 m4
  generalize hu' : (t0 * inv) % B = u at *
  generalize hc' : (u * p0 + t0) / B = c0 at *
  generalize macLoop B u ps tt c0 = r at *
  generalize tt.drop (n - 1) = rest at *
  have e3 := Nat.div_add_mod (rest.headD 0 + r.2 + mc) B
  have hns : (rest.headD 0 + r.2 + mc) / B ≤ 1 := by
    have : (rest.headD 0 + r.2 + mc) / B < 2 := by
      apply Nat.div_lt_of_lt_mul; omega
    omega
  have hnm := Nat.mod_lt (rest.headD 0 + r.2 + mc) hB
  refine ⟨WF_append.2 ⟨m1, WF_cons.2 ⟨hnm, WF_tail hrest⟩⟩, ?_, hns, u, hu, ?_⟩
  · simp only [List.length_append, List.length_cons, List.length_tail, m2, hrl]; omega
  · rw [val_append, m2]
    simp only [val_cons]
    have hBn : B ^ n = B * B ^ (n - 1) := by
      conv_lhs => rw [show n = (n - 1) + 1 by omega, pow_succ, Nat.mul_comm]
    rw [hBn, hsplit, hrv]
    generalize B ^ (n - 1) = H at *
    generalize (rest.headD 0 + r.2 + mc) / B = nsd at *
    generalize (rest.headD 0 + r.2 + mc) % B = nsm at *
    generalize val B (tt.take (n - 1)) = T1 at *
    generalize val B rest.tail = R at *
    generalize val B ps = pt at *
    generalize val B r.1 = r1 at *
    generalize rest.headD 0 = r0 at *
    have h2 := congrArg (B * ·) m4
    have h3 := congrArg (B * H * ·) e3
    beta_reduce at h2 h3
    linarith


/-- `k` outer iterations: for some `U < B^k`, `window + U·P = B^k · (new window)`. -/
theorem montLoop_spec {B n inv : Nat} {p : List Nat} (hp : WF B p) (hn : p.length = n)
    (hn0 : 0 < n) (hinv : (inv * p.headD 0 + 1) % B = 0) (k : Nat) {t : List Nat} {mc : Nat}
    (ht : WF B t) (hlen : n + k ≤ t.length) (hmc : mc ≤ 1) :
    WF B (montLoop B n p inv k t mc).1 ∧ (montLoop B n p inv k t mc).1.length + k = t.length ∧
    (montLoop B n p inv k t mc).2 ≤ 1 ∧
    ∃ U, U < B ^ k ∧ val B t + B ^ n * mc + U * val B p
      = B ^ k * (val B (montLoop B n p inv k t mc).1 + B ^ n * (montLoop B n p inv k t mc).2) := by
  induction k generalizing t mc with
  | zero =>
    refine ⟨ht, rfl, hmc, 0, by simp, ?_⟩
    simp [montLoop]
  | succ k ih =>
    obtain ⟨s1, s2, s3, u, hu, s4⟩ := montStep_spec (inv := inv) hp ht hn hn0 (by omega) hmc hinv
    simp only [montLoop]
    generalize montStep B n p inv t mc = s at s1 s2 s3 s4 ⊢
    obtain ⟨i1, i2, i3, U, hU, i4⟩ := ih (t := s.1) (mc := s.2) s1 (by omega) s3
    refine ⟨i1, by omega, i3, u + B * U, ?_, ?_⟩
    · rw [pow_succ]
      have := Nat.mul_le_mul_left B (Nat.succ_le_of_lt hU)
      rw [Nat.mul_succ] at this
      rw [Nat.mul_comm (B ^ k) B]
      omega
    · rw [pow_succ]
      generalize val B (montLoop B n p inv k s.1 s.2).1 = o at *
      generalize (montLoop B n p inv k s.1 s.2).2 = om at *
      have h := congrArg (B * ·) i4
      beta_reduce at h
      generalize B ^ k = K at *
      generalize B ^ n = N at *
      generalize val B p = P at *
      generalize val B t = T at *
      generalize val B s.1 = S at *
      linarith

theorem headD_mod (B : Nat) (p : List Nat) : val B p % B = p.headD 0 % B := by
  cases p <;> simp

/-- **Montgomery reduction** (`FpBase::montgomery_reduce`).  `a` has `2n` limbs with value
`T < P·B^n`, `inv·P ≡ -1 (mod B)`, and the modulus leaves a spare top bit (`2P ≤ B^n`: the C++
drops the last `meta_carry`, which is only sound under this condition).  Then the result is the
canonical residue of `T·B^{-n}`. -/
theorem montReduce_spec {B n inv : Nat} {a p : List Nat} (ha : WF B a) (hp : WF B p)
    (hn : p.length = n) (hn0 : 0 < n) (hla : a.length = 2 * n)
    (hinv : (inv * val B p + 1) % B = 0)
    (hT : val B a < val B p * B ^ n) (h2P : 2 * val B p ≤ B ^ n) :
    WF B (montReduce B n a p inv) ∧ (montReduce B n a p inv).length = n ∧
    val B (montReduce B n a p inv) < val B p ∧
    (val B (montReduce B n a p inv) * B ^ n) % val B p = val B a % val B p := by
  have hinv' : (inv * p.headD 0 + 1) % B = 0 := by
    rw [Nat.add_mod, Nat.mul_mod, ← headD_mod, ← Nat.mul_mod, ← Nat.add_mod]; exact hinv
  obtain ⟨l1, l2, l3, U, hU, l4⟩ :=
    montLoop_spec (inv := inv) hp hn hn0 hinv' n (t := a) (mc := 0) ha (by omega) (by omega)
  simp only [montReduce]
  generalize montLoop B n p inv n a 0 = s at l1 l2 l3 l4 ⊢
  have hP0 : 0 < val B p := by
    rcases Nat.eq_zero_or_pos (val B p) with h | h
    · rw [h] at hT; simp at hT
    · exact h
  have hK : 0 < B ^ n := by omega
  have hup := val_lt l1
  have hsl : s.1.length = n := by omega
  rw [hsl] at hup
  -- the window after n iterations is < 2P, hence the dropped meta_carry is 0
  have hlt : B ^ n * (val B s.1 + B ^ n * s.2) < B ^ n * (2 * val B p) := by
    rw [← l4]
    have := Nat.mul_le_mul_right (val B p) (Nat.le_of_lt hU)
    simp only [Nat.mul_zero, Nat.add_zero]
    nlinarith
  have hlt' := Nat.lt_of_mul_lt_mul_left hlt
  have hs2 : s.2 = 0 := by
    rcases le_one_cases l3 with h | h
    · exact h
    · rw [h] at hlt'; omega
  rw [hs2] at l4 hlt'
  simp only [Nat.mul_zero, Nat.add_zero] at l4 hlt'
  obtain ⟨r1, r2, r3⟩ := fpReduce_spec l1 hp (by omega) hlt'
  refine ⟨r1, by omega, ?_, ?_⟩
  · rw [r3]; exact Nat.mod_lt _ hP0
  · rw [r3, Nat.mod_mul_mod, Nat.mul_comm, ← l4, Nat.add_mul_mod_self_right]

/-- `FpBase::multiply`: Montgomery product. -/
theorem fpMul_spec {B n inv : Nat} {a b p : List Nat} (ha : WF B a) (hb : WF B b) (hp : WF B p)
    (hn : p.length = n) (hn0 : 0 < n) (hla : a.length = n) (hlb : b.length = n)
    (hinv : (inv * val B p + 1) % B = 0)
    (hap : val B a < val B p) (hbp : val B b < val B p) (h2P : 2 * val B p ≤ B ^ n) :
    WF B (fpMul B n a b p inv) ∧ (fpMul B n a b p inv).length = n ∧
    val B (fpMul B n a b p inv) < val B p ∧
    (val B (fpMul B n a b p inv) * B ^ n) % val B p = (val B a * val B b) % val B p := by
  have hB : 0 < B := by
    cases p with
    | nil => simp at hn; omega
    | cons x xs => have := (WF_cons.1 hp).1; omega
  obtain ⟨m1, m2, m3⟩ := mulLoop_spec ha hb hB
  have hT : val B (mulLoop B a b) < val B p * B ^ n := by
    rw [m3]
    have h1 : val B a * val B b ≤ val B p * val B b := Nat.mul_le_mul_right _ (Nat.le_of_lt hap)
    have h2 : val B p * val B b < val B p * B ^ n :=
      Nat.mul_lt_mul_of_pos_left (by omega) (by omega)
    omega
  have := montReduce_spec (inv := inv) m1 hp hn hn0 (by omega) hinv hT h2P
  simp only [fpMul]
  rw [m3] at this
  exact this


/-! ### Montgomery form: consequences (need coprimality, `Nat.ModEq`) -/

/-- `FpBase::multiply` under the weaker bound `a·b < P·B^n` (one factor may be any `n`-limb
integer, as in `Fp::set`). -/
theorem fpMul_spec' {B n inv : Nat} {a b p : List Nat} (ha : WF B a) (hb : WF B b) (hp : WF B p)
    (hn : p.length = n) (hn0 : 0 < n) (hla : a.length = n) (hlb : b.length = n)
    (hinv : (inv * val B p + 1) % B = 0)
    (hab : val B a * val B b < val B p * B ^ n) (h2P : 2 * val B p ≤ B ^ n) :
    WF B (fpMul B n a b p inv) ∧ (fpMul B n a b p inv).length = n ∧
    val B (fpMul B n a b p inv) < val B p ∧
    (val B (fpMul B n a b p inv) * B ^ n) % val B p = (val B a * val B b) % val B p := by
  have hB : 0 < B := by
    cases p with
    | nil => simp at hn; omega
    | cons x xs => have := (WF_cons.1 hp).1; omega
  obtain ⟨m1, m2, m3⟩ := mulLoop_spec ha hb hB
  have := montReduce_spec (inv := inv) m1 hp hn hn0 (by omega) hinv (by rw [m3]; exact hab) h2P
  simp only [fpMul]
  rw [m3] at this
  exact this

/-- `inv·P ≡ -1 (mod B)` forces `gcd(P, B^n) = 1`. -/
theorem coprime_of_inv {B P inv : Nat} (hinv : (inv * P + 1) % B = 0) (n : Nat) :
    Nat.gcd P (B ^ n) = 1 := by
  have h1 : Nat.Coprime B P := by
    have hd : B ∣ inv * P + 1 := Nat.dvd_of_mod_eq_zero hinv
    have hg1 : Nat.gcd B P ∣ inv * P + 1 := Nat.dvd_trans (Nat.gcd_dvd_left B P) hd
    have hg2 : Nat.gcd B P ∣ inv * P := Dvd.dvd.mul_left (Nat.gcd_dvd_right B P) inv
    exact Nat.dvd_one.1 ((Nat.dvd_add_right hg2).1 hg1)
  exact (Nat.Coprime.pow_left n h1).symm

/-- If `x < P` and `x·R ≡ y·R (mod P)` with `R` invertible, then `x = y mod P`. -/
theorem eq_mod_of_mul_R {P R x y : Nat} (hc : Nat.gcd P R = 1) (hx : x < P)
    (h : (x * R) % P = (y * R) % P) : x = y % P := by
  have h1 : x ≡ y [MOD P] := Nat.ModEq.cancel_right_of_coprime hc h
  have h2 : x % P = y % P := h1
  rw [← h2, Nat.mod_eq_of_lt hx]


/-- `FpBase::multiply` on Montgomery representatives: if `a = x·R mod P` and `b = y·R mod P`
(`R = B^n`) then the result is `x·y·R mod P`. -/
theorem fpMul_mont {B n inv : Nat} {a b p : List Nat} {x y : Nat} (ha : WF B a) (hb : WF B b)
    (hp : WF B p) (hn : p.length = n) (hn0 : 0 < n) (hla : a.length = n) (hlb : b.length = n)
    (hinv : (inv * val B p + 1) % B = 0) (h2P : 2 * val B p ≤ B ^ n)
    (hP : 0 < val B p)
    (hax : val B a = (x * B ^ n) % val B p) (hby : val B b = (y * B ^ n) % val B p) :
    val B (fpMul B n a b p inv) = (x * y * B ^ n) % val B p := by
  have hap : val B a < val B p := by rw [hax]; exact Nat.mod_lt _ hP
  have hbp : val B b < val B p := by rw [hby]; exact Nat.mod_lt _ hP
  obtain ⟨_, _, m3, m4⟩ := fpMul_spec (inv := inv) ha hb hp hn hn0 hla hlb hinv hap hbp h2P
  apply eq_mod_of_mul_R (coprime_of_inv hinv n) m3
  rw [m4, hax, hby, ← Nat.mul_mod]
  congr 1; ring

/-- `Fp::set` / `into_montgomery_form`: any `n`-limb integer `x` is mapped to `x·R mod P`,
provided the constant `r2` is `R² mod P`. -/
theorem fpSet_spec {B n inv : Nat} {x r2 p : List Nat} (hx : WF B x) (hr2 : WF B r2)
    (hp : WF B p) (hn : p.length = n) (hn0 : 0 < n) (hlx : x.length = n) (hlr : r2.length = n)
    (hinv : (inv * val B p + 1) % B = 0) (h2P : 2 * val B p ≤ B ^ n) (hP : 0 < val B p)
    (hR2 : val B r2 = (B ^ n * B ^ n) % val B p) :
    WF B (fpSet B n x r2 p inv) ∧ (fpSet B n x r2 p inv).length = n ∧
    val B (fpSet B n x r2 p inv) = (val B x * B ^ n) % val B p := by
  have hxb := val_lt hx
  rw [hlx] at hxb
  have hrp : val B r2 < val B p := by rw [hR2]; exact Nat.mod_lt _ hP
  have hab : val B x * val B r2 < val B p * B ^ n := by
    have h1 : val B x * val B r2 ≤ val B x * val B p := Nat.mul_le_mul_left _ (Nat.le_of_lt hrp)
    have h2 : val B x * val B p < B ^ n * val B p := Nat.mul_lt_mul_of_pos_right hxb hP
    rw [Nat.mul_comm (val B p)]; omega
  obtain ⟨m1, m2, m3, m4⟩ := fpMul_spec' (inv := inv) hx hr2 hp hn hn0 hlx hlr hinv hab h2P
  refine ⟨m1, m2, ?_⟩
  apply eq_mod_of_mul_R (coprime_of_inv hinv n) m3
  show (val B (fpMul B n x r2 p inv) * B ^ n) % val B p = _
  rw [m4, hR2, Nat.mul_mod_mod, Nat.mul_assoc]

theorem val_append_zeros (B : Nat) (a : List Nat) (k : Nat) :
    val B (a ++ List.replicate k 0) = val B a := by
  rw [val_append, val_replicate_zero]; simp

/-- `Fp::get`: leaves Montgomery form. -/
theorem fpGet_spec {B n inv : Nat} {a p : List Nat} (ha : WF B a) (hp : WF B p)
    (hn : p.length = n) (hn0 : 0 < n) (hla : a.length = n)
    (hinv : (inv * val B p + 1) % B = 0) (h2P : 2 * val B p ≤ B ^ n)
    (hap : val B a < val B p) :
    WF B (fpGet B n a p inv) ∧ (fpGet B n a p inv).length = n ∧
    val B (fpGet B n a p inv) < val B p ∧
    (val B (fpGet B n a p inv) * B ^ n) % val B p = val B a := by
  have hB : 0 < B := by
    cases p with
    | nil => simp at hn; omega
    | cons x xs => have := (WF_cons.1 hp).1; omega
  have hK : 0 < B ^ n := Nat.pos_of_ne_zero (by positivity)
  have hw : WF B (a ++ List.replicate n 0) := WF_append.2 ⟨ha, WF_replicate_zero hB n⟩
  have hl : (a ++ List.replicate n 0).length = 2 * n := by simp [hla]; omega
  have hT : val B (a ++ List.replicate n 0) < val B p * B ^ n := by
    rw [val_append_zeros]
    calc val B a < val B p := hap
      _ = val B p * 1 := (Nat.mul_one _).symm
      _ ≤ val B p * B ^ n := Nat.mul_le_mul_left _ hK
  have := montReduce_spec (inv := inv) hw hp hn hn0 hl hinv hT h2P
  rw [val_append_zeros, Nat.mod_eq_of_lt hap] at this
  exact this

/-- `get` after `set` returns the integer reduced modulo `P`. -/
theorem fpGet_fpSet {B n inv : Nat} {x r2 p : List Nat} (hx : WF B x) (hr2 : WF B r2)
    (hp : WF B p) (hn : p.length = n) (hn0 : 0 < n) (hlx : x.length = n) (hlr : r2.length = n)
    (hinv : (inv * val B p + 1) % B = 0) (h2P : 2 * val B p ≤ B ^ n) (hP : 0 < val B p)
    (hR2 : val B r2 = (B ^ n * B ^ n) % val B p) :
    val B (fpGet B n (fpSet B n x r2 p inv) p inv) = val B x % val B p := by
  obtain ⟨s1, s2, s3⟩ := fpSet_spec (inv := inv) hx hr2 hp hn hn0 hlx hlr hinv h2P hP hR2
  have hsp : val B (fpSet B n x r2 p inv) < val B p := by rw [s3]; exact Nat.mod_lt _ hP
  obtain ⟨_, _, g3, g4⟩ := fpGet_spec (inv := inv) s1 hp hn hn0 s2 hinv h2P hsp
  apply eq_mod_of_mul_R (coprime_of_inv hinv n) g3
  rw [g4, s3]


/-! ### `BigInt::square` -/

/-- Sum of the diagonal terms `Σ aᵢ²·B^(2i)`. -/
def diag (B : Nat) : List Nat → Nat
  | [] => 0
  | x :: xs => x * x + B * B * diag B xs

theorem diag_concat (B : Nat) (xs : List Nat) (y : Nat) :
    diag B (xs ++ [y]) = diag B xs + B ^ (2 * xs.length) * (y * y) := by
  induction xs with
  | nil => simp [diag]
  | cons x xs ih =>
    simp only [List.cons_append, diag, ih, List.length_cons]
    rw [show 2 * (xs.length + 1) = 2 * xs.length + 2 by ring, pow_add]
    ring

theorem val_concat (B : Nat) (xs : List Nat) (y : Nat) :
    val B (xs ++ [y]) = val B xs + B ^ xs.length * y := by
  rw [val_append]; simp

/-- Half grid: if `t` holds the cross terms of `done`, the result holds those of
`done ++ todo`; its top word is 0. -/
theorem sqrRows_spec {B : Nat} (hB : 0 < B) {todo done t : List Nat} (hd : WF B done)
    (htd : WF B todo) (ht : WF B t) (hlen : t.length = 2 * done.length)
    (htop : ∃ front c, t = front ++ [c, 0])
    (hinv : val B done ^ 2 = 2 * val B t + diag B done) :
    WF B (sqrRows B done todo t) ∧
    (sqrRows B done todo t).length = 2 * (done.length + todo.length) ∧
    (∃ front c, sqrRows B done todo t = front ++ [c, 0]) ∧
    val B (done ++ todo) ^ 2 = 2 * val B (sqrRows B done todo t) + diag B (done ++ todo) := by
  induction todo generalizing done t with
  | nil => simpa [sqrRows, ht, hlen, htop] using hinv
  | cons ai rest ih =>
    have hai := (WF_cons.1 htd).1
    have hdrop : (t.drop done.length).length = done.length := by
      rw [List.length_drop]; omega
    obtain ⟨m1, m2, m3, m4⟩ :=
      macLoop_spec (ts := t.drop done.length) (c := 0) hai hd (WF_drop ht _) hB
    have htk : (t.drop done.length).take done.length = t.drop done.length :=
      List.take_of_length_le (by omega)
    rw [htk, Nat.add_zero] at m4
    have hsplit := val_take_drop B t done.length
    rw [Nat.min_eq_left (by omega)] at hsplit
    have htl : (t.take done.length).length = done.length := by
      rw [List.length_take]; omega
    simp only [sqrRows]
    generalize macLoop B ai done (t.drop done.length) 0 = r at m1 m2 m3 m4 ⊢
    have hw' : WF B (t.take done.length ++ r.1 ++ [r.2, 0]) :=
      WF_append.2 ⟨WF_append.2 ⟨WF_take ht _, m1⟩, by simp [m3, hB]⟩
    have hl' : (t.take done.length ++ r.1 ++ [r.2, 0]).length = 2 * (done ++ [ai]).length := by
      simp only [List.length_append, htl, m2, List.length_cons, List.length_nil]; omega
    have hv' : val B (t.take done.length ++ r.1 ++ [r.2, 0])
        = val B t + B ^ done.length * (ai * val B done) := by
      rw [val_append, val_append, List.length_append, htl, m2, pow_add, hsplit]
      simp only [val_cons, val_nil]
      have := congrArg (B ^ done.length * ·) m4
      beta_reduce at this
      generalize B ^ done.length = K at *
      nlinarith
    have hinv' : val B (done ++ [ai]) ^ 2
        = 2 * val B (t.take done.length ++ r.1 ++ [r.2, 0]) + diag B (done ++ [ai]) := by
      have hKK : B ^ (2 * done.length) = B ^ done.length * B ^ done.length := by
        rw [two_mul, pow_add]
      rw [hv', val_concat, diag_concat, hKK]
      generalize B ^ done.length = K at *
      nlinarith
    obtain ⟨i1, i2, i3, i4⟩ := ih (done := done ++ [ai])
      (WF_append.2 ⟨hd, by simpa using hai⟩) (WF_cons.1 htd).2 hw' hl'
      ⟨t.take done.length ++ r.1, r.2, rfl⟩ hinv'
    refine ⟨i1, ?_, i3, ?_⟩
    · rw [i2]; simp only [List.length_append, List.length_cons, List.length_nil]; omega
    · simpa using i4

/-- Diagonal loop. -/
theorem sqrDiag_spec {B : Nat} (hB : 2 ≤ B) {as t : List Nat} {c : Nat} (ha : WF B as)
    (ht : WF B t) (hc : c ≤ 1) :
    WF B (sqrDiag B as t c).1 ∧ (sqrDiag B as t c).1.length = 2 * as.length ∧
    (sqrDiag B as t c).2 ≤ 1 ∧
    val B (sqrDiag B as t c).1 + B ^ (2 * as.length) * (sqrDiag B as t c).2
      = diag B as + val B (t.take (2 * as.length)) + c := by
  have hB0 : 0 < B := by omega
  induction as generalizing t c with
  | nil => simp [sqrDiag, diag, hc]
  | cons a as ih =>
    have ha0 := (WF_cons.1 ha).1
    have ht0 := headD_lt hB0 ht
    have ht1 := headD_lt hB0 (WF_tail ht)
    simp only [sqrDiag]
    have e1 := Nat.div_add_mod (a * a + t.headD 0 + c) B
    have hm1 := Nat.mod_lt (a * a + t.headD 0 + c) hB0
    have hc1 : (a * a + t.headD 0 + c) / B < B := by
      apply Nat.div_lt_of_lt_mul
      have : a * a ≤ (B - 1) * (B - 1) := Nat.mul_le_mul (by omega) (by omega)
      obtain ⟨k, rfl⟩ : ∃ k, B = k + 2 := ⟨B - 2, by omega⟩
      simp only [show k + 2 - 1 = k + 1 by omega] at this
      nlinarith
    generalize (a * a + t.headD 0 + c) / B = c1 at *
    generalize (a * a + t.headD 0 + c) % B = w0 at *
    have e2 := Nat.div_add_mod (t.tail.headD 0 + c1) B
    have hm2 := Nat.mod_lt (t.tail.headD 0 + c1) hB0
    have hc2 : (t.tail.headD 0 + c1) / B ≤ 1 := by
      have : (t.tail.headD 0 + c1) / B < 2 := by apply Nat.div_lt_of_lt_mul; omega
      omega
    generalize (t.tail.headD 0 + c1) / B = c2 at *
    generalize (t.tail.headD 0 + c1) % B = w1 at *
    obtain ⟨i1, i2, i3, i4⟩ := ih (t := t.tail.tail) (c := c2) (WF_cons.1 ha).2
      (WF_tail (WF_tail ht)) hc2
    refine ⟨WF_cons.2 ⟨hm1, WF_cons.2 ⟨hm2, i1⟩⟩, ?_, i3, ?_⟩
    · simp only [List.length_cons, i2]; omega
    · have hk : 2 * (a :: as).length = (2 * as.length + 1) + 1 := by
        simp only [List.length_cons]; omega
      rw [hk, val_take_succ, val_take_succ, pow_succ, pow_succ]
      simp only [val_cons, diag]
      have h := congrArg (B * B * ·) i4
      beta_reduce at h
      generalize B ^ (2 * as.length) = K at *
      generalize val B (t.tail.tail.take (2 * as.length)) = T at *
      generalize val B (sqrDiag B as t.tail.tail c2).1 = o at *
      generalize (sqrDiag B as t.tail.tail c2).2 = oc at *
      generalize t.headD 0 = t0 at *
      generalize t.tail.headD 0 = t1 at *
      generalize diag B as = dg at *
      have h1 := congrArg (B * ·) e2
      beta_reduce at h1
      linarith


/-! #### the doubling step: the double-word loop is a one-bit left shift of the word array -/

theorem dblUpper_eq (D prev : Nat) (ds : List Nat) :
    dblUpper D prev ds = (shl1Loop D ds (prev / (D / 2))).1 := by
  induction ds generalizing prev with
  | nil => rfl
  | cons d ds ih => simp only [dblUpper, shl1Loop, ih]

theorem dblDwords_eq (D : Nat) (ds : List Nat) : dblDwords D ds = (shl1Loop D ds 0).1 := by
  cases ds with
  | nil => rfl
  | cons d ds => simp only [dblDwords, shl1Loop, dblUpper_eq, Nat.or_zero]

theorem shl1Loop_append (B : Nat) (xs ys : List Nat) (s : Nat) :
    shl1Loop B (xs ++ ys) s =
      ((shl1Loop B xs s).1 ++ (shl1Loop B ys (shl1Loop B xs s).2).1,
       (shl1Loop B ys (shl1Loop B xs s).2).2) := by
  induction xs generalizing s with
  | nil => simp [shl1Loop]
  | cons x xs ih => simp only [List.cons_append, shl1Loop, ih]

/-- Shifting the double word `lo + B·hi` is shifting its two words. -/
theorem dword_shl {H lo hi s : Nat} (hlo : lo < 2 * H) (hhi : hi < 2 * H) (hs : s ≤ 1) :
    ((((lo + 2 * H * hi) * 2) % (2 * H * (2 * H))) ||| s) % (2 * H) = ((lo * 2) % (2 * H)) ||| s ∧
    ((((lo + 2 * H * hi) * 2) % (2 * H * (2 * H))) ||| s) / (2 * H)
      = ((hi * 2) % (2 * H)) ||| (lo / (2 * H / 2)) ∧
    (lo + 2 * H * hi) / (2 * H * (2 * H) / 2) = hi / (2 * H / 2) := by
  have hH : 0 < H := by omega
  have hD : 2 * H * (2 * H) = 2 * (H * (2 * H)) := Nat.mul_assoc 2 H (2 * H)
  have hd : lo + 2 * H * hi < 2 * (H * (2 * H)) := by nlinarith
  obtain ⟨w1, w2, w3⟩ := shl_word (H := H * (2 * H)) hd hs
  obtain ⟨x1, x2, x3⟩ := shl_word hlo hs
  obtain ⟨y1, y2, y3⟩ := shl_word hhi x3
  rw [hD]
  generalize (((lo + 2 * H * hi) * 2) % (2 * (H * (2 * H)))) ||| s = X at *
  generalize (lo + 2 * H * hi) / (2 * (H * (2 * H)) / 2) = so at *
  generalize ((lo * 2) % (2 * H)) ||| s = Y0 at *
  generalize lo / (2 * H / 2) = c0 at *
  generalize ((hi * 2) % (2 * H)) ||| c0 = Y1 at *
  generalize hi / (2 * H / 2) = c1 at *
  -- X + D·so = 2·(lo + B·hi) + s = (Y0 + B·Y1) + D·c1, both remainders < D
  have key : X + 2 * (H * (2 * H)) * so = (Y0 + 2 * H * Y1) + 2 * (H * (2 * H)) * c1 := by
    have := congrArg (2 * H * ·) y1
    beta_reduce at this
    nlinarith
  have hY : Y0 + 2 * H * Y1 < 2 * (H * (2 * H)) := by nlinarith
  have hso : so = c1 ∧ X = Y0 + 2 * H * Y1 := by
    generalize 2 * (H * (2 * H)) = D at *
    generalize 2 * H * Y1 = BY1 at *
    rcases le_one_cases w3 with h | h <;> rcases le_one_cases y3 with h' | h' <;>
      rw [h, h'] at key <;> simp only [Nat.mul_zero, Nat.mul_one] at key <;>
      refine ⟨by omega, by omega⟩
  obtain ⟨h1, h2⟩ := hso
  refine ⟨?_, ?_, h1⟩
  · rw [h2, Nat.add_mul_mod_self_left, Nat.mod_eq_of_lt x2]
  · rw [h2, Nat.add_mul_div_left _ _ (by omega : 0 < 2 * H), Nat.div_eq_of_lt x2, Nat.zero_add]

/-- The double-word shift loop on the `dwords[]` view equals the word shift loop. -/
theorem dwords_shl {H : Nat} (k : Nat) {ws : List Nat} {s : Nat} (hlen : ws.length = 2 * k)
    (hw : WF (2 * H) ws) (hs : s ≤ 1) :
    wordsOf (2 * H) (shl1Loop (2 * H * (2 * H)) (dwordsOf (2 * H) ws) s).1
      = (shl1Loop (2 * H) ws s).1 ∧
    (shl1Loop (2 * H * (2 * H)) (dwordsOf (2 * H) ws) s).2 = (shl1Loop (2 * H) ws s).2 := by
  induction k generalizing ws s with
  | zero =>
    have : ws = [] := List.length_eq_zero_iff.1 (by omega)
    subst this; simp [dwordsOf, shl1Loop, wordsOf]
  | succ k ih =>
    match ws, hlen, hw with
    | x :: y :: rest, hlen, hw =>
      have hx := (WF_cons.1 hw).1
      have hy := (WF_cons.1 (WF_cons.1 hw).2).1
      have hr := (WF_cons.1 (WF_cons.1 hw).2).2
      have hl : rest.length = 2 * k := by simp at hlen; omega
      obtain ⟨d1, d2, d3⟩ := dword_shl hx hy hs
      have hc : y / (2 * H / 2) ≤ 1 := (shl_word hy hs).2.2
      obtain ⟨i1, i2⟩ := ih (s := y / (2 * H / 2)) hl hr hc
      simp only [dwordsOf, shl1Loop, wordsOf, d1, d2, d3, i1, i2, and_self]
    | [], hlen, _ => simp at hlen
    | [_], hlen, _ => simp at hlen; omega


/-- The doubling step of `BigInt::square` is a one-bit left shift of the whole array, and
nothing is shifted out because the top word was 0. -/
theorem sqrDouble_eq {H : Nat} {f : List Nat} {w3 c : Nat} (k : Nat)
    (hlen : (f ++ [w3]).length = 2 * k) (hw : WF (2 * H) (f ++ [w3] ++ [c, 0])) :
    sqrDouble (2 * H) (f ++ [w3] ++ [c, 0]) = (shl1 (2 * H) (f ++ [w3] ++ [c, 0])).1 ∧
    (shl1 (2 * H) (f ++ [w3] ++ [c, 0])).2 = 0 := by
  have hwf := (WF_append.1 hw).1
  have hm : (f ++ [w3] ++ [c, 0]).length = f.length + 3 := by simp
  have g2 : (f ++ [w3] ++ [c, 0]).getD (f.length + 3 - 2) 0 = c := by
    simp [List.getD_eq_getElem?_getD]
  have g3 : (f ++ [w3] ++ [c, 0]).getD (f.length + 3 - 3) 0 = w3 := by
    simp [List.getD_eq_getElem?_getD]
  have tk : (f ++ [w3] ++ [c, 0]).take (f.length + 3 - 2) = f ++ [w3] := by
    rw [List.take_append_of_le_length (by simp)]
    exact List.take_of_length_le (by simp)
  obtain ⟨e1, e2⟩ := dwords_shl k (s := 0) hlen hwf (by omega)
  have hso : (shl1Loop (2 * H) (f ++ [w3]) 0).2 = w3 / (2 * H / 2) := by
    rw [shl1Loop_append]; simp [shl1Loop]
  constructor
  · simp only [sqrDouble, hm, g2, g3, tk, dblDwords_eq, e1]
    simp only [shl1]
    rw [shl1Loop_append (2 * H) (f ++ [w3]) [c, 0] 0, hso]
    simp [shl1Loop]
  · simp only [shl1]
    rw [shl1Loop_append (2 * H) (f ++ [w3]) [c, 0] 0]
    simp [shl1Loop]

theorem sqrDouble_spec {B : Nat} (hB : B % 2 = 0) {front : List Nat} {c : Nat} (k : Nat)
    (hlen : front.length = 2 * (k + 1)) (hw : WF B (front ++ [c, 0])) :
    WF B (sqrDouble B (front ++ [c, 0])) ∧
    (sqrDouble B (front ++ [c, 0])).length = (front ++ [c, 0]).length ∧
    val B (sqrDouble B (front ++ [c, 0])) = 2 * val B (front ++ [c, 0]) := by
  obtain ⟨H, rfl⟩ : ∃ H, B = 2 * H := ⟨B / 2, by omega⟩
  have hne : front ≠ [] := by
    intro h; rw [h] at hlen; simp at hlen
  obtain ⟨f, w3, rfl⟩ : ∃ f w3, front = f ++ [w3] :=
    ⟨front.dropLast, front.getLast hne, (List.dropLast_concat_getLast hne).symm⟩
  obtain ⟨e1, e2⟩ := sqrDouble_eq (k + 1) hlen hw
  obtain ⟨s1, s2, s3, s4⟩ := shl1_spec (by omega) hw
  rw [e1]
  refine ⟨s1, s2, ?_⟩
  rw [e2] at s4
  simpa using s4

/-- **`BigInt::square`** computes the full square (`n ≥ 2` limbs in, `2n` limbs out; base even). -/
theorem sqrLoop_spec {B : Nat} (hB : B % 2 = 0) {a : List Nat} (ha : WF B a)
    (hn : 2 ≤ a.length) :
    WF B (sqrLoop B a) ∧ (sqrLoop B a).length = 2 * a.length ∧
    val B (sqrLoop B a) = val B a * val B a := by
  match a, ha, hn with
  | a0 :: as, ha, hn =>
    have ha0 := (WF_cons.1 ha).1
    have hB0 : 0 < B := by omega
    have hB2 : 2 ≤ B := by omega
    obtain ⟨r1, r2, ⟨front, c, r3⟩, r4⟩ := sqrRows_spec hB0 (done := [a0]) (todo := as)
      (t := [0, 0]) (by simpa using ha0) (WF_cons.1 ha).2 (by simp [hB0]) (by simp)
      ⟨[], 0, rfl⟩ (by simp [diag]; ring)
    simp only [sqrLoop]
    simp only [List.singleton_append] at r4
    generalize sqrRows B [a0] as [0, 0] = half at r1 r2 r3 r4 ⊢
    subst r3
    have hfl : front.length = 2 * ((as.length - 1) + 1) := by
      simp at r2 hn; omega
    obtain ⟨d1, d2, d3⟩ := sqrDouble_spec hB (as.length - 1) hfl r1
    generalize sqrDouble B (front ++ [c, 0]) = dbl at d1 d2 d3 ⊢
    obtain ⟨g1, g2, g3, g4⟩ := sqrDiag_spec hB2 (as := a0 :: as) (t := dbl) (c := 0) ha d1
      (by omega)
    have hdl : dbl.length = 2 * (a0 :: as).length := by
      rw [d2, r2]; simp only [List.length_cons, List.length_nil]; omega
    rw [List.take_of_length_le (by omega), d3, Nat.add_zero] at g4
    have hsq : val B (a0 :: as) * val B (a0 :: as) < B ^ (2 * (a0 :: as).length) := by
      have h := val_lt ha
      rw [two_mul, pow_add]
      exact Nat.mul_lt_mul'' h h
    have hout := val_lt g1
    rw [g2] at hout
    have hc0 : (sqrDiag B (a0 :: as) dbl 0).2 = 0 := by
      rcases le_one_cases g3 with h | h
      · exact h
      · rw [h, Nat.mul_one] at g4
        rw [sq] at r4
        omega
    rw [hc0, Nat.mul_zero, Nat.add_zero] at g4
    refine ⟨g1, g2, ?_⟩
    rw [g4, ← sq, r4, Nat.add_comm]

/-- `FpBase::square`. -/
theorem fpSqr_spec {B n inv : Nat} {a p : List Nat} (hB : B % 2 = 0) (ha : WF B a) (hp : WF B p)
    (hn : p.length = n) (hn2 : 2 ≤ n) (hla : a.length = n)
    (hinv : (inv * val B p + 1) % B = 0)
    (hap : val B a < val B p) (h2P : 2 * val B p ≤ B ^ n) :
    WF B (fpSqr B n a p inv) ∧ (fpSqr B n a p inv).length = n ∧
    val B (fpSqr B n a p inv) < val B p ∧
    (val B (fpSqr B n a p inv) * B ^ n) % val B p = (val B a * val B a) % val B p := by
  obtain ⟨m1, m2, m3⟩ := sqrLoop_spec hB ha (by omega)
  have hT : val B (sqrLoop B a) < val B p * B ^ n := by
    rw [m3]
    have h1 : val B a * val B a ≤ val B p * val B a := Nat.mul_le_mul_right _ (Nat.le_of_lt hap)
    have h2 : val B p * val B a < val B p * B ^ n :=
      Nat.mul_lt_mul_of_pos_left (by omega) (by omega)
    omega
  have := montReduce_spec (inv := inv) m1 hp hn (by omega) (by omega) hinv hT h2P
  simp only [fpSqr]
  rw [m3] at this
  exact this

/-- `square` agrees with `multiply` (as limb lists, not only as values). -/
theorem sqrLoop_eq_mulLoop {B : Nat} (hB : B % 2 = 0) {a : List Nat} (ha : WF B a)
    (hn : 2 ≤ a.length) : sqrLoop B a = mulLoop B a a := by
  obtain ⟨s1, s2, s3⟩ := sqrLoop_spec hB ha hn
  have hB0 : 0 < B := by
    match a, ha, hn with
    | a0 :: as, ha, _ => have := (WF_cons.1 ha).1; omega
  obtain ⟨m1, m2, m3⟩ := mulLoop_spec ha ha hB0
  exact val_inj s1 m1 (by omega) (by rw [s3, m3])


/-! ### Instantiation to a concrete field: modulus `P`, full-width constant `invC = −P⁻¹ mod M`,
`M = B^n` the Montgomery radix; the C++ passes the limbs of `P` and the low word of `invC`. -/

/-- The low word of the full-width inverse constant is the per-word inverse. -/
theorem inv_word {invC P M B : Nat} (h : (invC * P + 1) % M = 0) (hd : B ∣ M) :
    ((invC % B) * P + 1) % B = 0 := by
  rw [Nat.add_mod, Nat.mod_mul_mod, ← Nat.add_mod]
  exact Nat.mod_eq_zero_of_dvd (Nat.dvd_trans hd (Nat.dvd_of_mod_eq_zero h))

theorem val_toLimbs_of_lt {B n v : Nat} (h : v < B ^ n) : val B (toLimbs B n v) = v := by
  rw [val_toLimbs, Nat.mod_eq_of_lt h]

/-- Facts about the modulus limbs and inverse word used by every instantiated theorem. -/
theorem field_setup {P invC M B n : Nat} (hM : B ^ n = M) (hn : 0 < n) (h2P : 2 * P ≤ M)
    (hinv : (invC * P + 1) % M = 0) :
    0 < B ∧ WF B (toLimbs B n P) ∧ (toLimbs B n P).length = n ∧ val B (toLimbs B n P) = P ∧
    ((invC % B) * val B (toLimbs B n P) + 1) % B = 0 ∧ 2 * val B (toLimbs B n P) ≤ B ^ n := by
  have hB : 0 < B := by
    rcases Nat.eq_zero_or_pos B with h | h
    · subst h
      rw [Nat.zero_pow hn] at hM
      subst hM
      have : P = 0 := by omega
      subst this
      simp at hinv
    · exact h
  have hMpos : 0 < M := by rw [← hM]; exact Nat.pow_pos hB
  have hv : val B (toLimbs B n P) = P := val_toLimbs_of_lt (by rw [hM]; omega)
  have hd : B ∣ M := by rw [← hM]; exact dvd_pow_self B (by omega)
  refine ⟨hB, WF_toLimbs hB n P, length_toLimbs B n P, hv, ?_, ?_⟩
  · rw [hv]; exact inv_word hinv hd
  · rw [hv, hM]; exact h2P

theorem field_mul {P invC M B n : Nat} (hM : B ^ n = M) (hn : 0 < n) (h2P : 2 * P ≤ M)
    (hinv : (invC * P + 1) % M = 0) {a b : List Nat} (ha : WF B a) (hb : WF B b)
    (hla : a.length = n) (hlb : b.length = n) (hap : val B a < P) (hbp : val B b < P) :
    WF B (fpMul B n a b (toLimbs B n P) (invC % B)) ∧
    (fpMul B n a b (toLimbs B n P) (invC % B)).length = n ∧
    val B (fpMul B n a b (toLimbs B n P) (invC % B)) < P ∧
    (val B (fpMul B n a b (toLimbs B n P) (invC % B)) * M) % P = (val B a * val B b) % P := by
  obtain ⟨_, s1, s2, s3, s4, s5⟩ := field_setup hM hn h2P hinv
  have := fpMul_spec (inv := invC % B) ha hb s1 s2 hn hla hlb s4 (by omega) (by omega) s5
  rw [s3, hM] at this
  exact this

theorem field_mul_mont {P invC M B n : Nat} (hM : B ^ n = M) (hn : 0 < n) (h2P : 2 * P ≤ M)
    (hinv : (invC * P + 1) % M = 0) (hP : 0 < P) {a b : List Nat} {x y : Nat} (ha : WF B a)
    (hb : WF B b) (hla : a.length = n) (hlb : b.length = n)
    (hax : val B a = (x * M) % P) (hby : val B b = (y * M) % P) :
    val B (fpMul B n a b (toLimbs B n P) (invC % B)) = (x * y * M) % P := by
  obtain ⟨_, s1, s2, s3, s4, s5⟩ := field_setup hM hn h2P hinv
  have := fpMul_mont (inv := invC % B) (x := x) (y := y) ha hb s1 s2 hn hla hlb s4 s5
    (by omega) (by rw [s3, hM]; exact hax) (by rw [s3, hM]; exact hby)
  rw [s3, hM] at this
  exact this

theorem field_set {P invC R2C M B n : Nat} (hM : B ^ n = M) (hn : 0 < n) (h2P : 2 * P ≤ M)
    (hinv : (invC * P + 1) % M = 0) (hP : 0 < P) (hR2 : R2C = (M * M) % P)
    {x : List Nat} (hx : WF B x) (hlx : x.length = n) :
    WF B (fpSet B n x (toLimbs B n R2C) (toLimbs B n P) (invC % B)) ∧
    (fpSet B n x (toLimbs B n R2C) (toLimbs B n P) (invC % B)).length = n ∧
    val B (fpSet B n x (toLimbs B n R2C) (toLimbs B n P) (invC % B)) = (val B x * M) % P := by
  obtain ⟨hB, s1, s2, s3, s4, s5⟩ := field_setup hM hn h2P hinv
  have hR2lt : R2C < B ^ n := by
    have := Nat.mod_lt (M * M) hP
    omega
  have hv2 : val B (toLimbs B n R2C) = R2C := val_toLimbs_of_lt hR2lt
  have := fpSet_spec (inv := invC % B) hx (WF_toLimbs hB n R2C) s1 s2 hn hlx
    (length_toLimbs B n R2C) s4 s5 (by omega) (by rw [hv2, s3, hM]; exact hR2)
  rw [s3, hM] at this
  exact this

theorem field_get_set {P invC R2C M B n : Nat} (hM : B ^ n = M) (hn : 0 < n) (h2P : 2 * P ≤ M)
    (hinv : (invC * P + 1) % M = 0) (hP : 0 < P) (hR2 : R2C = (M * M) % P)
    {x : List Nat} (hx : WF B x) (hlx : x.length = n) :
    val B (fpGet B n (fpSet B n x (toLimbs B n R2C) (toLimbs B n P) (invC % B))
      (toLimbs B n P) (invC % B)) = val B x % P := by
  obtain ⟨hB, s1, s2, s3, s4, s5⟩ := field_setup hM hn h2P hinv
  have hR2lt : R2C < B ^ n := by
    have := Nat.mod_lt (M * M) hP
    omega
  have hv2 : val B (toLimbs B n R2C) = R2C := val_toLimbs_of_lt hR2lt
  have := fpGet_fpSet (inv := invC % B) hx (WF_toLimbs hB n R2C) s1 s2 hn hlx
    (length_toLimbs B n R2C) s4 s5 (by omega) (by rw [hv2, s3, hM]; exact hR2)
  rw [s3] at this
  exact this

end Jedi.Impl

