/-
The fused `fpbase_384_square` of /repo/src/core/arch/aarch64/multiply.s (as regenerated into
`JediVerif/Gen/AsmA64.lean`, executed by the machine model of `JediVerif/Impl/A64.lean`): the full product in registers
(macro equations of `A64ProofsMul.lean`), the six Montgomery rounds and the twelve endings of the final comparison
(lemmas of `A64ProofsMont.lean`).  For every entry state satisfying AAPCS64, `inv·P ≡ −1 (mod 2^64)`, `2P ≤ 2^384` and
product `< P·2^384` the six result limbs are `< P` and `≡ product·2^{-384} (mod P)`.  `p` and `inv` are parked on the
stack during the multiplication.  All loads precede all stores: `res` may overlap the operands and `p` in any way.
This file: the symbolic execution of the common prefix (up to the first `cmp`), cut into pieces, and the arithmetic on
the named intermediates; the endings and the final theorem are in `A64ProofsFpSqr.lean`.
-/
import JediVerif.Proofs.A64ProofsMont
import JediVerif.Proofs.A64ProofsSqr

set_option linter.unusedSimpArgs false

namespace Jedi.A64
open Lean Meta Simp
open Jedi.Impl (val WF val_cons val_nil val_lt val_inj)
open Jedi.X86 (limbs limbs_six limbs_twelve limbs_length limbs_WF Hide Hide.mk Hide.out ea_toNat)
open Jedi.Gen.AsmA64

/-! ## symbolic execution, cut into pieces -/

set_option maxHeartbeats 1600000 in
theorem fpsqr_part0 (s : State) (pr pa pp inv : Word)
    (hr : Buf s pr 6 true) (ha : Buf s pa 6 false) (hp : Buf s pp 6 false)
    (hstk : Stack s 5) (hrs : OffStack s 5 pr 6) (has : OffStack s 5 pa 6) (hps : OffStack s 5 pp 6) {a0 a1 a2 a3 a4 a5 h9 h12 h15 h19 h22 h27 l10 l11 l14 l18 l21 l26 : Word} {t13 t16 t17 t20 t23 t24 t25 t28 t29 : ArithRes}
    (hst : s.status = .running) (hpc : s.pc = 0) (h0 : s.x0 = pr) (h1 : s.x1 = pa) (h2 : s.x2 = pp) (h3 : s.x3 = inv) (ha0 : a0 = s.mem pa.toNat) (ha1 : a1 = s.mem (pa.toNat + 8)) (ha2 : a2 = s.mem (pa.toNat + 16))
    (ha3 : a3 = s.mem (pa.toNat + 24)) (ha4 : a4 = s.mem (pa.toNat + 32)) (ha5 : a5 = s.mem (pa.toNat + 40))
    (ht8 : t8 = addWithCarry (0 : Word) (0 : Word) false) (hh9 : h9 = mulHi a1 a0) (hl10 : l10 = mulLo a1 a0)
    (hl11 : l11 = mulLo a2 a0) (hh12 : h12 = mulHi a2 a0) (ht13 : t13 = addWithCarry h9 l11 false)
    (hl14 : l14 = mulLo a2 a1) (hh15 : h15 = mulHi a2 a1) (ht16 : t16 = addWithCarry l14 h12 t13.c)
    (ht17 : t17 = addWithCarry h15 (0 : Word) t16.c) (hl18 : l18 = mulLo a3 a0) (hh19 : h19 = mulHi a3 a0)
    (ht20 : t20 = addWithCarry t16.val l18 false) (hl21 : l21 = mulLo a3 a1) (hh22 : h22 = mulHi a3 a1)
    (ht23 : t23 = addWithCarry t17.val l21 t20.c) (ht24 : t24 = addWithCarry h22 (0 : Word) t23.c)
    (ht25 : t25 = addWithCarry t23.val h19 false) (hl26 : l26 = mulLo a3 a2) (hh27 : h27 = mulHi a3 a2)
    (ht28 : t28 = addWithCarry l26 t24.val t25.c) (ht29 : t29 = addWithCarry h27 (0 : Word) t28.c) :
    run embedded_pairing_core_arch_aarch64_fpbase_384_square s 30
      = ({ x0 := pr, x1 := t24.val, x2 := a0, x3 := a1, x4 := a2, x5 := a3, x6 := a4, x7 := a5, x8 := s.x8, x9 := l10, x10 := t13.val, x11 := t20.val, x12 := t25.val, x13 := t28.val, x14 := t29.val, x15 := s.x15, x16 := s.x16, x17 := s.x17, x18 := s.x18, x19 := s.x19, x20 := s.x20, x21 := s.x21, x22 := l21, x23 := s.x23, x24 := s.x24, x25 := s.x25, x26 := s.x26, x27 := s.x27, x28 := s.x28, x29 := s.x29, x30 := s.x30, sp := s.sp - 16#64 - 16#64 - 16#64 - 16#64 - 16#64, nf := some t29.n, zf := some t29.z, cf := some t29.c, vf := some t29.v, mem := setMem (setMem (setMem (setMem (setMem (setMem (setMem (setMem (setMem (setMem (s.mem) (s.sp.toNat - 16) s.x19) (s.sp.toNat - 16 + 8) s.x20) (s.sp.toNat - 16 - 16) s.x21) (s.sp.toNat - 16 - 16 + 8) s.x22) (s.sp.toNat - 16 - 16 - 16) s.x23) (s.sp.toNat - 16 - 16 - 16 + 8) s.x24) (s.sp.toNat - 16 - 16 - 16 - 16) s.x25) (s.sp.toNat - 16 - 16 - 16 - 16 + 8) s.x26) (s.sp.toNat - 16 - 16 - 16 - 16 - 16) pp) (s.sp.toNat - 16 - 16 - 16 - 16 - 16 + 8) inv, readable := s.readable, writable := s.writable, pc := 30, status := .running } : State) := by
  obtain ⟨ra0, ra1, ra2, ra3, ra4, ra5⟩ := ha.r6
  obtain ⟨⟨alra0, alra1, alra2, alra3, alra4, alra5⟩, fra1, fra2, fra3, fra4, fra5⟩ := ha.addr6
  obtain ⟨rp0, rp1, rp2, rp3, rp4, rp5⟩ := hp.r6
  obtain ⟨⟨alrp0, alrp1, alrp2, alrp3, alrp4, alrp5⟩, frp1, frp2, frp3, frp4, frp5⟩ := hp.addr6
  obtain ⟨rr0, rr1, rr2, rr3, rr4, rr5⟩ := hr.r6
  obtain ⟨wr0, wr1, wr2, wr3, wr4, wr5⟩ := hr.w6
  obtain ⟨⟨alrr0, alrr1, alrr2, alrr3, alrr4, alrr5⟩, frr1, frr2, frr3, frr4, frr5⟩ := hr.addr6
  have als0 := hstk.aligned
  obtain ⟨room1, als1, alq1a, alq1b, sr1a, sr1b, sw1a, sw1b⟩ := hstk.f1 (by omega)
  obtain ⟨room2, als2, alq2a, alq2b, sr2a, sr2b, sw2a, sw2b⟩ := hstk.f2 (by omega)
  obtain ⟨room3, als3, alq3a, alq3b, sr3a, sr3b, sw3a, sw3b⟩ := hstk.f3 (by omega)
  obtain ⟨room4, als4, alq4a, alq4b, sr4a, sr4b, sw4a, sw4b⟩ := hstk.f4 (by omega)
  obtain ⟨room5, als5, alq5a, alq5b, sr5a, sr5b, sw5a, sw5b⟩ := hstk.f5 (by omega)
  replace hrs := Hide.mk (And.intro room5 hrs); replace has := Hide.mk (And.intro room5 has)
  replace hps := Hide.mk (And.intro room5 hps)
  simp only [OffStack] at hrs has hps
  clear ha hp hr hstk
  rw [State.eta s]
  a64_sym [hst, hpc, h0, h1, h2, h3, ← ha0, ← ha1, ← ha2, ← ha3, ← ha4, ← ha5, ← ht8, ← hh9, ← hl10, ← hl11, ← hh12, ← ht13, ← hl14, ← hh15, ← ht16, ← ht17, ← hl18, ← hh19, ← ht20, ← hl21, ← hh22, ← ht23, ← ht24, ← ht25, ← hl26, ← hh27, ← ht28, ← ht29]

set_option maxHeartbeats 1600000 in
theorem fpsqr_part1 (s : State) (pr pa pp inv : Word)
    (hr : Buf s pr 6 true) (ha : Buf s pa 6 false) (hp : Buf s pp 6 false)
    (hstk : Stack s 5) (hrs : OffStack s 5 pr 6) (has : OffStack s 5 pa 6) (hps : OffStack s 5 pp 6) {a0 a1 a2 a3 a4 a5 h31 h34 h39 h44 h48 h51 h56 h61 h66 l10 l21 l30 l33 l38 l43 l47 l50 l55 l60 l65 : Word} {t13 t20 t24 t25 t28 t29 t32 t35 t36 t37 t40 t41 t42 t45 t46 t49 t52 t53 t54 t57 t58 t59 t62 t63 t64 t67 t68 : ArithRes}
    (hl30 : l30 = mulLo a4 a0) (hh31 : h31 = mulHi a4 a0) (ht32 : t32 = addWithCarry t25.val l30 false)
    (hl33 : l33 = mulLo a4 a1) (hh34 : h34 = mulHi a4 a1) (ht35 : t35 = addWithCarry t28.val l33 t32.c)
    (ht36 : t36 = addWithCarry h34 (0 : Word) t35.c) (ht37 : t37 = addWithCarry t35.val h31 false)
    (hl38 : l38 = mulLo a4 a2) (hh39 : h39 = mulHi a4 a2) (ht40 : t40 = addWithCarry t29.val l38 t37.c)
    (ht41 : t41 = addWithCarry h39 (0 : Word) t40.c) (ht42 : t42 = addWithCarry t40.val t36.val false)
    (hl43 : l43 = mulLo a4 a3) (hh44 : h44 = mulHi a4 a3) (ht45 : t45 = addWithCarry l43 t41.val t42.c)
    (ht46 : t46 = addWithCarry h44 (0 : Word) t45.c) (hl47 : l47 = mulLo a5 a0) (hh48 : h48 = mulHi a5 a0)
    (ht49 : t49 = addWithCarry t37.val l47 false) (hl50 : l50 = mulLo a5 a1) (hh51 : h51 = mulHi a5 a1)
    (ht52 : t52 = addWithCarry t42.val l50 t49.c) (ht53 : t53 = addWithCarry h51 (0 : Word) t52.c)
    (ht54 : t54 = addWithCarry t52.val h48 false) (hl55 : l55 = mulLo a5 a2) (hh56 : h56 = mulHi a5 a2)
    (ht57 : t57 = addWithCarry t45.val l55 t54.c) (ht58 : t58 = addWithCarry h56 (0 : Word) t57.c)
    (ht59 : t59 = addWithCarry t57.val t53.val false) (hl60 : l60 = mulLo a5 a3) (hh61 : h61 = mulHi a5 a3)
    (ht62 : t62 = addWithCarry t46.val l60 t59.c) (ht63 : t63 = addWithCarry h61 (0 : Word) t62.c)
    (ht64 : t64 = addWithCarry t62.val t58.val false) (hl65 : l65 = mulLo a5 a4) (hh66 : h66 = mulHi a5 a4)
    (ht67 : t67 = addWithCarry l65 t63.val t64.c) (ht68 : t68 = addWithCarry h66 (0 : Word) t67.c) :
    run embedded_pairing_core_arch_aarch64_fpbase_384_square ({ x0 := pr, x1 := t24.val, x2 := a0, x3 := a1, x4 := a2, x5 := a3, x6 := a4, x7 := a5, x8 := s.x8, x9 := l10, x10 := t13.val, x11 := t20.val, x12 := t25.val, x13 := t28.val, x14 := t29.val, x15 := s.x15, x16 := s.x16, x17 := s.x17, x18 := s.x18, x19 := s.x19, x20 := s.x20, x21 := s.x21, x22 := l21, x23 := s.x23, x24 := s.x24, x25 := s.x25, x26 := s.x26, x27 := s.x27, x28 := s.x28, x29 := s.x29, x30 := s.x30, sp := s.sp - 16#64 - 16#64 - 16#64 - 16#64 - 16#64, nf := some t29.n, zf := some t29.z, cf := some t29.c, vf := some t29.v, mem := setMem (setMem (setMem (setMem (setMem (setMem (setMem (setMem (setMem (setMem (s.mem) (s.sp.toNat - 16) s.x19) (s.sp.toNat - 16 + 8) s.x20) (s.sp.toNat - 16 - 16) s.x21) (s.sp.toNat - 16 - 16 + 8) s.x22) (s.sp.toNat - 16 - 16 - 16) s.x23) (s.sp.toNat - 16 - 16 - 16 + 8) s.x24) (s.sp.toNat - 16 - 16 - 16 - 16) s.x25) (s.sp.toNat - 16 - 16 - 16 - 16 + 8) s.x26) (s.sp.toNat - 16 - 16 - 16 - 16 - 16) pp) (s.sp.toNat - 16 - 16 - 16 - 16 - 16 + 8) inv, readable := s.readable, writable := s.writable, pc := 30, status := .running } : State) 39
      = ({ x0 := pr, x1 := t63.val, x2 := a0, x3 := a1, x4 := a2, x5 := a3, x6 := a4, x7 := a5, x8 := s.x8, x9 := l10, x10 := t13.val, x11 := t20.val, x12 := t32.val, x13 := t49.val, x14 := t54.val, x15 := t59.val, x16 := s.x16, x17 := s.x17, x18 := s.x18, x19 := t64.val, x20 := t67.val, x21 := t68.val, x22 := l60, x23 := s.x23, x24 := s.x24, x25 := s.x25, x26 := s.x26, x27 := s.x27, x28 := s.x28, x29 := s.x29, x30 := s.x30, sp := s.sp - 16#64 - 16#64 - 16#64 - 16#64 - 16#64, nf := some t68.n, zf := some t68.z, cf := some t68.c, vf := some t68.v, mem := setMem (setMem (setMem (setMem (setMem (setMem (setMem (setMem (setMem (setMem (s.mem) (s.sp.toNat - 16) s.x19) (s.sp.toNat - 16 + 8) s.x20) (s.sp.toNat - 16 - 16) s.x21) (s.sp.toNat - 16 - 16 + 8) s.x22) (s.sp.toNat - 16 - 16 - 16) s.x23) (s.sp.toNat - 16 - 16 - 16 + 8) s.x24) (s.sp.toNat - 16 - 16 - 16 - 16) s.x25) (s.sp.toNat - 16 - 16 - 16 - 16 + 8) s.x26) (s.sp.toNat - 16 - 16 - 16 - 16 - 16) pp) (s.sp.toNat - 16 - 16 - 16 - 16 - 16 + 8) inv, readable := s.readable, writable := s.writable, pc := 69, status := .running } : State) := by
  obtain ⟨ra0, ra1, ra2, ra3, ra4, ra5⟩ := ha.r6
  obtain ⟨⟨alra0, alra1, alra2, alra3, alra4, alra5⟩, fra1, fra2, fra3, fra4, fra5⟩ := ha.addr6
  obtain ⟨rp0, rp1, rp2, rp3, rp4, rp5⟩ := hp.r6
  obtain ⟨⟨alrp0, alrp1, alrp2, alrp3, alrp4, alrp5⟩, frp1, frp2, frp3, frp4, frp5⟩ := hp.addr6
  obtain ⟨rr0, rr1, rr2, rr3, rr4, rr5⟩ := hr.r6
  obtain ⟨wr0, wr1, wr2, wr3, wr4, wr5⟩ := hr.w6
  obtain ⟨⟨alrr0, alrr1, alrr2, alrr3, alrr4, alrr5⟩, frr1, frr2, frr3, frr4, frr5⟩ := hr.addr6
  have als0 := hstk.aligned
  obtain ⟨room1, als1, alq1a, alq1b, sr1a, sr1b, sw1a, sw1b⟩ := hstk.f1 (by omega)
  obtain ⟨room2, als2, alq2a, alq2b, sr2a, sr2b, sw2a, sw2b⟩ := hstk.f2 (by omega)
  obtain ⟨room3, als3, alq3a, alq3b, sr3a, sr3b, sw3a, sw3b⟩ := hstk.f3 (by omega)
  obtain ⟨room4, als4, alq4a, alq4b, sr4a, sr4b, sw4a, sw4b⟩ := hstk.f4 (by omega)
  obtain ⟨room5, als5, alq5a, alq5b, sr5a, sr5b, sw5a, sw5b⟩ := hstk.f5 (by omega)
  replace hrs := Hide.mk (And.intro room5 hrs); replace has := Hide.mk (And.intro room5 has)
  replace hps := Hide.mk (And.intro room5 hps)
  simp only [OffStack] at hrs has hps
  clear ha hp hr hstk
  a64_sym [← hl30, ← hh31, ← ht32, ← hl33, ← hh34, ← ht35, ← ht36, ← ht37, ← hl38, ← hh39, ← ht40, ← ht41, ← ht42, ← hl43, ← hh44, ← ht45, ← ht46, ← hl47, ← hh48, ← ht49, ← hl50, ← hh51, ← ht52, ← ht53, ← ht54, ← hl55, ← hh56, ← ht57, ← ht58, ← ht59, ← hl60, ← hh61, ← ht62, ← ht63, ← ht64, ← hl65, ← hh66, ← ht67, ← ht68]

set_option maxHeartbeats 1600000 in
theorem fpsqr_part2 (s : State) (pr pa pp inv : Word)
    (hr : Buf s pr 6 true) (ha : Buf s pa 6 false) (hp : Buf s pp 6 false)
    (hstk : Stack s 5) (hrs : OffStack s 5 pr 6) (has : OffStack s 5 pa 6) (hps : OffStack s 5 pp 6) {a0 a1 a2 a3 a4 a5 h82 h85 h89 h93 h97 l10 l60 l81 l84 l88 l92 l96 h101 l100 : Word} {t13 t20 t32 t49 t54 t59 t63 t64 t67 t68 t70 t71 t72 t73 t74 t75 t76 t77 t78 t79 t80 t83 t86 t87 t90 t91 t94 t95 t98 t99 t102 t103 : ArithRes}
    (ht70 : t70 = addWithCarry l10 l10 false) (ht71 : t71 = addWithCarry t13.val t13.val t70.c)
    (ht72 : t72 = addWithCarry t20.val t20.val t71.c) (ht73 : t73 = addWithCarry t32.val t32.val t72.c)
    (ht74 : t74 = addWithCarry t49.val t49.val t73.c) (ht75 : t75 = addWithCarry t54.val t54.val t74.c)
    (ht76 : t76 = addWithCarry t59.val t59.val t75.c) (ht77 : t77 = addWithCarry t64.val t64.val t76.c)
    (ht78 : t78 = addWithCarry t67.val t67.val t77.c) (ht79 : t79 = addWithCarry t68.val t68.val t78.c)
    (ht80 : t80 = addWithCarry (0 : Word) (0 : Word) t79.c) (hl81 : l81 = mulLo a0 a0) (hh82 : h82 = mulHi a0 a0)
    (ht83 : t83 = addWithCarry t70.val h82 false) (hl84 : l84 = mulLo a1 a1) (hh85 : h85 = mulHi a1 a1)
    (ht86 : t86 = addWithCarry t71.val l84 t83.c) (ht87 : t87 = addWithCarry t72.val h85 t86.c) (hl88 : l88 = mulLo a2 a2)
    (hh89 : h89 = mulHi a2 a2) (ht90 : t90 = addWithCarry t73.val l88 t87.c) (ht91 : t91 = addWithCarry t74.val h89 t90.c)
    (hl92 : l92 = mulLo a3 a3) (hh93 : h93 = mulHi a3 a3) (ht94 : t94 = addWithCarry t75.val l92 t91.c)
    (ht95 : t95 = addWithCarry t76.val h93 t94.c) (hl96 : l96 = mulLo a4 a4) (hh97 : h97 = mulHi a4 a4)
    (ht98 : t98 = addWithCarry t77.val l96 t95.c) (ht99 : t99 = addWithCarry t78.val h97 t98.c)
    (hl100 : l100 = mulLo a5 a5) (hh101 : h101 = mulHi a5 a5) (ht102 : t102 = addWithCarry t79.val l100 t99.c)
    (ht103 : t103 = addWithCarry t80.val h101 t102.c) :
    run embedded_pairing_core_arch_aarch64_fpbase_384_square ({ x0 := pr, x1 := t63.val, x2 := a0, x3 := a1, x4 := a2, x5 := a3, x6 := a4, x7 := a5, x8 := s.x8, x9 := l10, x10 := t13.val, x11 := t20.val, x12 := t32.val, x13 := t49.val, x14 := t54.val, x15 := t59.val, x16 := s.x16, x17 := s.x17, x18 := s.x18, x19 := t64.val, x20 := t67.val, x21 := t68.val, x22 := l60, x23 := s.x23, x24 := s.x24, x25 := s.x25, x26 := s.x26, x27 := s.x27, x28 := s.x28, x29 := s.x29, x30 := s.x30, sp := s.sp - 16#64 - 16#64 - 16#64 - 16#64 - 16#64, nf := some t68.n, zf := some t68.z, cf := some t68.c, vf := some t68.v, mem := setMem (setMem (setMem (setMem (setMem (setMem (setMem (setMem (setMem (setMem (s.mem) (s.sp.toNat - 16) s.x19) (s.sp.toNat - 16 + 8) s.x20) (s.sp.toNat - 16 - 16) s.x21) (s.sp.toNat - 16 - 16 + 8) s.x22) (s.sp.toNat - 16 - 16 - 16) s.x23) (s.sp.toNat - 16 - 16 - 16 + 8) s.x24) (s.sp.toNat - 16 - 16 - 16 - 16) s.x25) (s.sp.toNat - 16 - 16 - 16 - 16 + 8) s.x26) (s.sp.toNat - 16 - 16 - 16 - 16 - 16) pp) (s.sp.toNat - 16 - 16 - 16 - 16 - 16 + 8) inv, readable := s.readable, writable := s.writable, pc := 69, status := .running } : State) 35
      = ({ x0 := pr, x1 := l81, x2 := l100, x3 := h101, x4 := a2, x5 := a3, x6 := a4, x7 := a5, x8 := s.x8, x9 := t83.val, x10 := t86.val, x11 := t87.val, x12 := t90.val, x13 := t91.val, x14 := t94.val, x15 := t95.val, x16 := s.x16, x17 := s.x17, x18 := s.x18, x19 := t98.val, x20 := t99.val, x21 := t102.val, x22 := t103.val, x23 := s.x23, x24 := s.x24, x25 := s.x25, x26 := s.x26, x27 := s.x27, x28 := s.x28, x29 := s.x29, x30 := s.x30, sp := s.sp - 16#64 - 16#64 - 16#64 - 16#64 - 16#64, nf := some t103.n, zf := some t103.z, cf := some t103.c, vf := some t103.v, mem := setMem (setMem (setMem (setMem (setMem (setMem (setMem (setMem (setMem (setMem (s.mem) (s.sp.toNat - 16) s.x19) (s.sp.toNat - 16 + 8) s.x20) (s.sp.toNat - 16 - 16) s.x21) (s.sp.toNat - 16 - 16 + 8) s.x22) (s.sp.toNat - 16 - 16 - 16) s.x23) (s.sp.toNat - 16 - 16 - 16 + 8) s.x24) (s.sp.toNat - 16 - 16 - 16 - 16) s.x25) (s.sp.toNat - 16 - 16 - 16 - 16 + 8) s.x26) (s.sp.toNat - 16 - 16 - 16 - 16 - 16) pp) (s.sp.toNat - 16 - 16 - 16 - 16 - 16 + 8) inv, readable := s.readable, writable := s.writable, pc := 104, status := .running } : State) := by
  obtain ⟨ra0, ra1, ra2, ra3, ra4, ra5⟩ := ha.r6
  obtain ⟨⟨alra0, alra1, alra2, alra3, alra4, alra5⟩, fra1, fra2, fra3, fra4, fra5⟩ := ha.addr6
  obtain ⟨rp0, rp1, rp2, rp3, rp4, rp5⟩ := hp.r6
  obtain ⟨⟨alrp0, alrp1, alrp2, alrp3, alrp4, alrp5⟩, frp1, frp2, frp3, frp4, frp5⟩ := hp.addr6
  obtain ⟨rr0, rr1, rr2, rr3, rr4, rr5⟩ := hr.r6
  obtain ⟨wr0, wr1, wr2, wr3, wr4, wr5⟩ := hr.w6
  obtain ⟨⟨alrr0, alrr1, alrr2, alrr3, alrr4, alrr5⟩, frr1, frr2, frr3, frr4, frr5⟩ := hr.addr6
  have als0 := hstk.aligned
  obtain ⟨room1, als1, alq1a, alq1b, sr1a, sr1b, sw1a, sw1b⟩ := hstk.f1 (by omega)
  obtain ⟨room2, als2, alq2a, alq2b, sr2a, sr2b, sw2a, sw2b⟩ := hstk.f2 (by omega)
  obtain ⟨room3, als3, alq3a, alq3b, sr3a, sr3b, sw3a, sw3b⟩ := hstk.f3 (by omega)
  obtain ⟨room4, als4, alq4a, alq4b, sr4a, sr4b, sw4a, sw4b⟩ := hstk.f4 (by omega)
  obtain ⟨room5, als5, alq5a, alq5b, sr5a, sr5b, sw5a, sw5b⟩ := hstk.f5 (by omega)
  replace hrs := Hide.mk (And.intro room5 hrs); replace has := Hide.mk (And.intro room5 has)
  replace hps := Hide.mk (And.intro room5 hps)
  simp only [OffStack] at hrs has hps
  clear ha hp hr hstk
  a64_sym [← ht70, ← ht71, ← ht72, ← ht73, ← ht74, ← ht75, ← ht76, ← ht77, ← ht78, ← ht79, ← ht80, ← hl81, ← hh82, ← ht83, ← hl84, ← hh85, ← ht86, ← ht87, ← hl88, ← hh89, ← ht90, ← ht91, ← hl92, ← hh93, ← ht94, ← ht95, ← hl96, ← hh97, ← ht98, ← ht99, ← hl100, ← hh101, ← ht102, ← ht103]

set_option maxHeartbeats 1600000 in
theorem fpsqr_part3 (s : State) (pr pa pp inv : Word)
    (hr : Buf s pr 6 true) (ha : Buf s pa 6 false) (hp : Buf s pp 6 false)
    (hstk : Stack s 5) (hrs : OffStack s 5 pr 6) (has : OffStack s 5 pa 6) (hps : OffStack s 5 pp 6) {a2 a3 a4 a5 p0 p1 p2 p3 p4 p5 l81 h101 h110 h113 h118 h123 h128 h133 l100 l108 l109 l112 l117 l122 l127 l132 : Word} {t83 t86 t87 t90 t91 t94 t95 t98 t99 t102 t103 t111 t114 t115 t116 t119 t120 t121 t124 t125 t126 t129 t130 t131 t134 t135 t136 t137 t138 : ArithRes}
    (hp0 : p0 = s.mem pp.toNat) (hp1 : p1 = s.mem (pp.toNat + 8)) (hp2 : p2 = s.mem (pp.toNat + 16))
    (hp3 : p3 = s.mem (pp.toNat + 24)) (hp4 : p4 = s.mem (pp.toNat + 32)) (hp5 : p5 = s.mem (pp.toNat + 40))
    (hl108 : l108 = mulLo l81 inv) (hl109 : l109 = mulLo l108 p0) (hh110 : h110 = mulHi l108 p0)
    (ht111 : t111 = addWithCarry l81 l109 false) (hl112 : l112 = mulLo l108 p1) (hh113 : h113 = mulHi l108 p1)
    (ht114 : t114 = addWithCarry t83.val l112 t111.c) (ht115 : t115 = addWithCarry h113 (0 : Word) t114.c)
    (ht116 : t116 = addWithCarry t114.val h110 false) (hl117 : l117 = mulLo l108 p2) (hh118 : h118 = mulHi l108 p2)
    (ht119 : t119 = addWithCarry t86.val l117 t116.c) (ht120 : t120 = addWithCarry h118 (0 : Word) t119.c)
    (ht121 : t121 = addWithCarry t119.val t115.val false) (hl122 : l122 = mulLo l108 p3) (hh123 : h123 = mulHi l108 p3)
    (ht124 : t124 = addWithCarry t87.val l122 t121.c) (ht125 : t125 = addWithCarry h123 (0 : Word) t124.c)
    (ht126 : t126 = addWithCarry t124.val t120.val false) (hl127 : l127 = mulLo l108 p4) (hh128 : h128 = mulHi l108 p4)
    (ht129 : t129 = addWithCarry t90.val l127 t126.c) (ht130 : t130 = addWithCarry h128 (0 : Word) t129.c)
    (ht131 : t131 = addWithCarry t129.val t125.val false) (hl132 : l132 = mulLo l108 p5) (hh133 : h133 = mulHi l108 p5)
    (ht134 : t134 = addWithCarry t91.val l132 t131.c) (ht135 : t135 = addWithCarry h133 (0 : Word) t134.c)
    (ht136 : t136 = addWithCarry t134.val t130.val false) (ht137 : t137 = addWithCarry t94.val t135.val t136.c)
    (ht138 : t138 = addWithCarry (0 : Word) (0 : Word) t137.c) :
    run embedded_pairing_core_arch_aarch64_fpbase_384_square ({ x0 := pr, x1 := l81, x2 := l100, x3 := h101, x4 := a2, x5 := a3, x6 := a4, x7 := a5, x8 := s.x8, x9 := t83.val, x10 := t86.val, x11 := t87.val, x12 := t90.val, x13 := t91.val, x14 := t94.val, x15 := t95.val, x16 := s.x16, x17 := s.x17, x18 := s.x18, x19 := t98.val, x20 := t99.val, x21 := t102.val, x22 := t103.val, x23 := s.x23, x24 := s.x24, x25 := s.x25, x26 := s.x26, x27 := s.x27, x28 := s.x28, x29 := s.x29, x30 := s.x30, sp := s.sp - 16#64 - 16#64 - 16#64 - 16#64 - 16#64, nf := some t103.n, zf := some t103.z, cf := some t103.c, vf := some t103.v, mem := setMem (setMem (setMem (setMem (setMem (setMem (setMem (setMem (setMem (setMem (s.mem) (s.sp.toNat - 16) s.x19) (s.sp.toNat - 16 + 8) s.x20) (s.sp.toNat - 16 - 16) s.x21) (s.sp.toNat - 16 - 16 + 8) s.x22) (s.sp.toNat - 16 - 16 - 16) s.x23) (s.sp.toNat - 16 - 16 - 16 + 8) s.x24) (s.sp.toNat - 16 - 16 - 16 - 16) s.x25) (s.sp.toNat - 16 - 16 - 16 - 16 + 8) s.x26) (s.sp.toNat - 16 - 16 - 16 - 16 - 16) pp) (s.sp.toNat - 16 - 16 - 16 - 16 - 16 + 8) inv, readable := s.readable, writable := s.writable, pc := 104, status := .running } : State) 35
      = ({ x0 := pr, x1 := t138.val, x2 := l108, x3 := inv, x4 := p0, x5 := p1, x6 := p2, x7 := p3, x8 := s.x8, x9 := t116.val, x10 := t121.val, x11 := t126.val, x12 := t131.val, x13 := t136.val, x14 := t137.val, x15 := t95.val, x16 := s.x16, x17 := s.x17, x18 := s.x18, x19 := t98.val, x20 := t99.val, x21 := t102.val, x22 := t103.val, x23 := p4, x24 := p5, x25 := t130.val, x26 := l132, x27 := s.x27, x28 := s.x28, x29 := s.x29, x30 := s.x30, sp := s.sp - 16#64 - 16#64 - 16#64 - 16#64, nf := some t138.n, zf := some t138.z, cf := some t138.c, vf := some t138.v, mem := setMem (setMem (setMem (setMem (setMem (setMem (setMem (setMem (setMem (setMem (s.mem) (s.sp.toNat - 16) s.x19) (s.sp.toNat - 16 + 8) s.x20) (s.sp.toNat - 16 - 16) s.x21) (s.sp.toNat - 16 - 16 + 8) s.x22) (s.sp.toNat - 16 - 16 - 16) s.x23) (s.sp.toNat - 16 - 16 - 16 + 8) s.x24) (s.sp.toNat - 16 - 16 - 16 - 16) s.x25) (s.sp.toNat - 16 - 16 - 16 - 16 + 8) s.x26) (s.sp.toNat - 16 - 16 - 16 - 16 - 16) pp) (s.sp.toNat - 16 - 16 - 16 - 16 - 16 + 8) inv, readable := s.readable, writable := s.writable, pc := 139, status := .running } : State) := by
  obtain ⟨ra0, ra1, ra2, ra3, ra4, ra5⟩ := ha.r6
  obtain ⟨⟨alra0, alra1, alra2, alra3, alra4, alra5⟩, fra1, fra2, fra3, fra4, fra5⟩ := ha.addr6
  obtain ⟨rp0, rp1, rp2, rp3, rp4, rp5⟩ := hp.r6
  obtain ⟨⟨alrp0, alrp1, alrp2, alrp3, alrp4, alrp5⟩, frp1, frp2, frp3, frp4, frp5⟩ := hp.addr6
  obtain ⟨rr0, rr1, rr2, rr3, rr4, rr5⟩ := hr.r6
  obtain ⟨wr0, wr1, wr2, wr3, wr4, wr5⟩ := hr.w6
  obtain ⟨⟨alrr0, alrr1, alrr2, alrr3, alrr4, alrr5⟩, frr1, frr2, frr3, frr4, frr5⟩ := hr.addr6
  have als0 := hstk.aligned
  obtain ⟨room1, als1, alq1a, alq1b, sr1a, sr1b, sw1a, sw1b⟩ := hstk.f1 (by omega)
  obtain ⟨room2, als2, alq2a, alq2b, sr2a, sr2b, sw2a, sw2b⟩ := hstk.f2 (by omega)
  obtain ⟨room3, als3, alq3a, alq3b, sr3a, sr3b, sw3a, sw3b⟩ := hstk.f3 (by omega)
  obtain ⟨room4, als4, alq4a, alq4b, sr4a, sr4b, sw4a, sw4b⟩ := hstk.f4 (by omega)
  obtain ⟨room5, als5, alq5a, alq5b, sr5a, sr5b, sw5a, sw5b⟩ := hstk.f5 (by omega)
  replace hrs := Hide.mk (And.intro room5 hrs); replace has := Hide.mk (And.intro room5 has)
  replace hps := Hide.mk (And.intro room5 hps)
  simp only [OffStack] at hrs has hps
  clear ha hp hr hstk
  a64_sym [← hp0, ← hp1, ← hp2, ← hp3, ← hp4, ← hp5, ← hl108, ← hl109, ← hh110, ← ht111, ← hl112, ← hh113, ← ht114, ← ht115, ← ht116, ← hl117, ← hh118, ← ht119, ← ht120, ← ht121, ← hl122, ← hh123, ← ht124, ← ht125, ← ht126, ← hl127, ← hh128, ← ht129, ← ht130, ← ht131, ← hl132, ← hh133, ← ht134, ← ht135, ← ht136, ← ht137, ← ht138]

set_option maxHeartbeats 1600000 in
theorem fpsqr_part4 (s : State) (pr pa pp inv : Word)
    (hr : Buf s pr 6 true) (ha : Buf s pa 6 false) (hp : Buf s pp 6 false)
    (hstk : Stack s 5) (hrs : OffStack s 5 pr 6) (has : OffStack s 5 pa 6) (hps : OffStack s 5 pp 6) {p0 p1 p2 p3 p4 p5 h141 h144 h149 h154 h159 h164 l108 l132 l139 l140 l143 l148 l153 l158 l163 : Word} {t95 t98 t99 t102 t103 t116 t121 t126 t130 t131 t136 t137 t138 t142 t145 t146 t147 t150 t151 t152 t155 t156 t157 t160 t161 t162 t165 t166 t167 t168 t169 t170 t171 : ArithRes}
    (hl139 : l139 = mulLo t116.val inv) (hl140 : l140 = mulLo l139 p0) (hh141 : h141 = mulHi l139 p0)
    (ht142 : t142 = addWithCarry t116.val l140 false) (hl143 : l143 = mulLo l139 p1) (hh144 : h144 = mulHi l139 p1)
    (ht145 : t145 = addWithCarry t121.val l143 t142.c) (ht146 : t146 = addWithCarry h144 (0 : Word) t145.c)
    (ht147 : t147 = addWithCarry t145.val h141 false) (hl148 : l148 = mulLo l139 p2) (hh149 : h149 = mulHi l139 p2)
    (ht150 : t150 = addWithCarry t126.val l148 t147.c) (ht151 : t151 = addWithCarry h149 (0 : Word) t150.c)
    (ht152 : t152 = addWithCarry t150.val t146.val false) (hl153 : l153 = mulLo l139 p3) (hh154 : h154 = mulHi l139 p3)
    (ht155 : t155 = addWithCarry t131.val l153 t152.c) (ht156 : t156 = addWithCarry h154 (0 : Word) t155.c)
    (ht157 : t157 = addWithCarry t155.val t151.val false) (hl158 : l158 = mulLo l139 p4) (hh159 : h159 = mulHi l139 p4)
    (ht160 : t160 = addWithCarry t136.val l158 t157.c) (ht161 : t161 = addWithCarry h159 (0 : Word) t160.c)
    (ht162 : t162 = addWithCarry t160.val t156.val false) (hl163 : l163 = mulLo l139 p5) (hh164 : h164 = mulHi l139 p5)
    (ht165 : t165 = addWithCarry t137.val l163 t162.c) (ht166 : t166 = addWithCarry h164 (0 : Word) t165.c)
    (ht167 : t167 = addWithCarry t165.val t161.val false) (ht168 : t168 = addWithCarry t166.val (0 : Word) t167.c)
    (ht169 : t169 = addWithCarry t138.val (~~~1#64) true) (ht170 : t170 = addWithCarry t95.val t168.val t169.c)
    (ht171 : t171 = addWithCarry (0 : Word) (0 : Word) t170.c) :
    run embedded_pairing_core_arch_aarch64_fpbase_384_square ({ x0 := pr, x1 := t138.val, x2 := l108, x3 := inv, x4 := p0, x5 := p1, x6 := p2, x7 := p3, x8 := s.x8, x9 := t116.val, x10 := t121.val, x11 := t126.val, x12 := t131.val, x13 := t136.val, x14 := t137.val, x15 := t95.val, x16 := s.x16, x17 := s.x17, x18 := s.x18, x19 := t98.val, x20 := t99.val, x21 := t102.val, x22 := t103.val, x23 := p4, x24 := p5, x25 := t130.val, x26 := l132, x27 := s.x27, x28 := s.x28, x29 := s.x29, x30 := s.x30, sp := s.sp - 16#64 - 16#64 - 16#64 - 16#64, nf := some t138.n, zf := some t138.z, cf := some t138.c, vf := some t138.v, mem := setMem (setMem (setMem (setMem (setMem (setMem (setMem (setMem (setMem (setMem (s.mem) (s.sp.toNat - 16) s.x19) (s.sp.toNat - 16 + 8) s.x20) (s.sp.toNat - 16 - 16) s.x21) (s.sp.toNat - 16 - 16 + 8) s.x22) (s.sp.toNat - 16 - 16 - 16) s.x23) (s.sp.toNat - 16 - 16 - 16 + 8) s.x24) (s.sp.toNat - 16 - 16 - 16 - 16) s.x25) (s.sp.toNat - 16 - 16 - 16 - 16 + 8) s.x26) (s.sp.toNat - 16 - 16 - 16 - 16 - 16) pp) (s.sp.toNat - 16 - 16 - 16 - 16 - 16 + 8) inv, readable := s.readable, writable := s.writable, pc := 139, status := .running } : State) 33
      = ({ x0 := pr, x1 := t171.val, x2 := l139, x3 := inv, x4 := p0, x5 := p1, x6 := p2, x7 := p3, x8 := s.x8, x9 := t168.val, x10 := t147.val, x11 := t152.val, x12 := t157.val, x13 := t162.val, x14 := t167.val, x15 := t170.val, x16 := s.x16, x17 := s.x17, x18 := s.x18, x19 := t98.val, x20 := t99.val, x21 := t102.val, x22 := t103.val, x23 := p4, x24 := p5, x25 := t161.val, x26 := l163, x27 := s.x27, x28 := s.x28, x29 := s.x29, x30 := s.x30, sp := s.sp - 16#64 - 16#64 - 16#64 - 16#64, nf := some t171.n, zf := some t171.z, cf := some t171.c, vf := some t171.v, mem := setMem (setMem (setMem (setMem (setMem (setMem (setMem (setMem (setMem (setMem (s.mem) (s.sp.toNat - 16) s.x19) (s.sp.toNat - 16 + 8) s.x20) (s.sp.toNat - 16 - 16) s.x21) (s.sp.toNat - 16 - 16 + 8) s.x22) (s.sp.toNat - 16 - 16 - 16) s.x23) (s.sp.toNat - 16 - 16 - 16 + 8) s.x24) (s.sp.toNat - 16 - 16 - 16 - 16) s.x25) (s.sp.toNat - 16 - 16 - 16 - 16 + 8) s.x26) (s.sp.toNat - 16 - 16 - 16 - 16 - 16) pp) (s.sp.toNat - 16 - 16 - 16 - 16 - 16 + 8) inv, readable := s.readable, writable := s.writable, pc := 172, status := .running } : State) := by
  obtain ⟨ra0, ra1, ra2, ra3, ra4, ra5⟩ := ha.r6
  obtain ⟨⟨alra0, alra1, alra2, alra3, alra4, alra5⟩, fra1, fra2, fra3, fra4, fra5⟩ := ha.addr6
  obtain ⟨rp0, rp1, rp2, rp3, rp4, rp5⟩ := hp.r6
  obtain ⟨⟨alrp0, alrp1, alrp2, alrp3, alrp4, alrp5⟩, frp1, frp2, frp3, frp4, frp5⟩ := hp.addr6
  obtain ⟨rr0, rr1, rr2, rr3, rr4, rr5⟩ := hr.r6
  obtain ⟨wr0, wr1, wr2, wr3, wr4, wr5⟩ := hr.w6
  obtain ⟨⟨alrr0, alrr1, alrr2, alrr3, alrr4, alrr5⟩, frr1, frr2, frr3, frr4, frr5⟩ := hr.addr6
  have als0 := hstk.aligned
  obtain ⟨room1, als1, alq1a, alq1b, sr1a, sr1b, sw1a, sw1b⟩ := hstk.f1 (by omega)
  obtain ⟨room2, als2, alq2a, alq2b, sr2a, sr2b, sw2a, sw2b⟩ := hstk.f2 (by omega)
  obtain ⟨room3, als3, alq3a, alq3b, sr3a, sr3b, sw3a, sw3b⟩ := hstk.f3 (by omega)
  obtain ⟨room4, als4, alq4a, alq4b, sr4a, sr4b, sw4a, sw4b⟩ := hstk.f4 (by omega)
  obtain ⟨room5, als5, alq5a, alq5b, sr5a, sr5b, sw5a, sw5b⟩ := hstk.f5 (by omega)
  replace hrs := Hide.mk (And.intro room5 hrs); replace has := Hide.mk (And.intro room5 has)
  replace hps := Hide.mk (And.intro room5 hps)
  simp only [OffStack] at hrs has hps
  clear ha hp hr hstk
  a64_sym [← hl139, ← hl140, ← hh141, ← ht142, ← hl143, ← hh144, ← ht145, ← ht146, ← ht147, ← hl148, ← hh149, ← ht150, ← ht151, ← ht152, ← hl153, ← hh154, ← ht155, ← ht156, ← ht157, ← hl158, ← hh159, ← ht160, ← ht161, ← ht162, ← hl163, ← hh164, ← ht165, ← ht166, ← ht167, ← ht168, ← ht169, ← ht170, ← ht171]

set_option maxHeartbeats 1600000 in
theorem fpsqr_part5 (s : State) (pr pa pp inv : Word)
    (hr : Buf s pr 6 true) (ha : Buf s pa 6 false) (hp : Buf s pp 6 false)
    (hstk : Stack s 5) (hrs : OffStack s 5 pr 6) (has : OffStack s 5 pa 6) (hps : OffStack s 5 pp 6) {p0 p1 p2 p3 p4 p5 h174 h177 h182 h187 h192 h197 l139 l163 l172 l173 l176 l181 l186 l191 l196 : Word} {t98 t99 t102 t103 t147 t152 t157 t161 t162 t167 t168 t170 t171 t175 t178 t179 t180 t183 t184 t185 t188 t189 t190 t193 t194 t195 t198 t199 t200 t201 t202 t203 t204 : ArithRes}
    (hl172 : l172 = mulLo t147.val inv) (hl173 : l173 = mulLo l172 p0) (hh174 : h174 = mulHi l172 p0)
    (ht175 : t175 = addWithCarry t147.val l173 false) (hl176 : l176 = mulLo l172 p1) (hh177 : h177 = mulHi l172 p1)
    (ht178 : t178 = addWithCarry t152.val l176 t175.c) (ht179 : t179 = addWithCarry h177 (0 : Word) t178.c)
    (ht180 : t180 = addWithCarry t178.val h174 false) (hl181 : l181 = mulLo l172 p2) (hh182 : h182 = mulHi l172 p2)
    (ht183 : t183 = addWithCarry t157.val l181 t180.c) (ht184 : t184 = addWithCarry h182 (0 : Word) t183.c)
    (ht185 : t185 = addWithCarry t183.val t179.val false) (hl186 : l186 = mulLo l172 p3) (hh187 : h187 = mulHi l172 p3)
    (ht188 : t188 = addWithCarry t162.val l186 t185.c) (ht189 : t189 = addWithCarry h187 (0 : Word) t188.c)
    (ht190 : t190 = addWithCarry t188.val t184.val false) (hl191 : l191 = mulLo l172 p4) (hh192 : h192 = mulHi l172 p4)
    (ht193 : t193 = addWithCarry t167.val l191 t190.c) (ht194 : t194 = addWithCarry h192 (0 : Word) t193.c)
    (ht195 : t195 = addWithCarry t193.val t189.val false) (hl196 : l196 = mulLo l172 p5) (hh197 : h197 = mulHi l172 p5)
    (ht198 : t198 = addWithCarry t170.val l196 t195.c) (ht199 : t199 = addWithCarry h197 (0 : Word) t198.c)
    (ht200 : t200 = addWithCarry t198.val t194.val false) (ht201 : t201 = addWithCarry t199.val (0 : Word) t200.c)
    (ht202 : t202 = addWithCarry t171.val (~~~1#64) true) (ht203 : t203 = addWithCarry t98.val t201.val t202.c)
    (ht204 : t204 = addWithCarry (0 : Word) (0 : Word) t203.c) :
    run embedded_pairing_core_arch_aarch64_fpbase_384_square ({ x0 := pr, x1 := t171.val, x2 := l139, x3 := inv, x4 := p0, x5 := p1, x6 := p2, x7 := p3, x8 := s.x8, x9 := t168.val, x10 := t147.val, x11 := t152.val, x12 := t157.val, x13 := t162.val, x14 := t167.val, x15 := t170.val, x16 := s.x16, x17 := s.x17, x18 := s.x18, x19 := t98.val, x20 := t99.val, x21 := t102.val, x22 := t103.val, x23 := p4, x24 := p5, x25 := t161.val, x26 := l163, x27 := s.x27, x28 := s.x28, x29 := s.x29, x30 := s.x30, sp := s.sp - 16#64 - 16#64 - 16#64 - 16#64, nf := some t171.n, zf := some t171.z, cf := some t171.c, vf := some t171.v, mem := setMem (setMem (setMem (setMem (setMem (setMem (setMem (setMem (setMem (setMem (s.mem) (s.sp.toNat - 16) s.x19) (s.sp.toNat - 16 + 8) s.x20) (s.sp.toNat - 16 - 16) s.x21) (s.sp.toNat - 16 - 16 + 8) s.x22) (s.sp.toNat - 16 - 16 - 16) s.x23) (s.sp.toNat - 16 - 16 - 16 + 8) s.x24) (s.sp.toNat - 16 - 16 - 16 - 16) s.x25) (s.sp.toNat - 16 - 16 - 16 - 16 + 8) s.x26) (s.sp.toNat - 16 - 16 - 16 - 16 - 16) pp) (s.sp.toNat - 16 - 16 - 16 - 16 - 16 + 8) inv, readable := s.readable, writable := s.writable, pc := 172, status := .running } : State) 33
      = ({ x0 := pr, x1 := t204.val, x2 := l172, x3 := inv, x4 := p0, x5 := p1, x6 := p2, x7 := p3, x8 := s.x8, x9 := t168.val, x10 := t201.val, x11 := t180.val, x12 := t185.val, x13 := t190.val, x14 := t195.val, x15 := t200.val, x16 := s.x16, x17 := s.x17, x18 := s.x18, x19 := t203.val, x20 := t99.val, x21 := t102.val, x22 := t103.val, x23 := p4, x24 := p5, x25 := t194.val, x26 := l196, x27 := s.x27, x28 := s.x28, x29 := s.x29, x30 := s.x30, sp := s.sp - 16#64 - 16#64 - 16#64 - 16#64, nf := some t204.n, zf := some t204.z, cf := some t204.c, vf := some t204.v, mem := setMem (setMem (setMem (setMem (setMem (setMem (setMem (setMem (setMem (setMem (s.mem) (s.sp.toNat - 16) s.x19) (s.sp.toNat - 16 + 8) s.x20) (s.sp.toNat - 16 - 16) s.x21) (s.sp.toNat - 16 - 16 + 8) s.x22) (s.sp.toNat - 16 - 16 - 16) s.x23) (s.sp.toNat - 16 - 16 - 16 + 8) s.x24) (s.sp.toNat - 16 - 16 - 16 - 16) s.x25) (s.sp.toNat - 16 - 16 - 16 - 16 + 8) s.x26) (s.sp.toNat - 16 - 16 - 16 - 16 - 16) pp) (s.sp.toNat - 16 - 16 - 16 - 16 - 16 + 8) inv, readable := s.readable, writable := s.writable, pc := 205, status := .running } : State) := by
  obtain ⟨ra0, ra1, ra2, ra3, ra4, ra5⟩ := ha.r6
  obtain ⟨⟨alra0, alra1, alra2, alra3, alra4, alra5⟩, fra1, fra2, fra3, fra4, fra5⟩ := ha.addr6
  obtain ⟨rp0, rp1, rp2, rp3, rp4, rp5⟩ := hp.r6
  obtain ⟨⟨alrp0, alrp1, alrp2, alrp3, alrp4, alrp5⟩, frp1, frp2, frp3, frp4, frp5⟩ := hp.addr6
  obtain ⟨rr0, rr1, rr2, rr3, rr4, rr5⟩ := hr.r6
  obtain ⟨wr0, wr1, wr2, wr3, wr4, wr5⟩ := hr.w6
  obtain ⟨⟨alrr0, alrr1, alrr2, alrr3, alrr4, alrr5⟩, frr1, frr2, frr3, frr4, frr5⟩ := hr.addr6
  have als0 := hstk.aligned
  obtain ⟨room1, als1, alq1a, alq1b, sr1a, sr1b, sw1a, sw1b⟩ := hstk.f1 (by omega)
  obtain ⟨room2, als2, alq2a, alq2b, sr2a, sr2b, sw2a, sw2b⟩ := hstk.f2 (by omega)
  obtain ⟨room3, als3, alq3a, alq3b, sr3a, sr3b, sw3a, sw3b⟩ := hstk.f3 (by omega)
  obtain ⟨room4, als4, alq4a, alq4b, sr4a, sr4b, sw4a, sw4b⟩ := hstk.f4 (by omega)
  obtain ⟨room5, als5, alq5a, alq5b, sr5a, sr5b, sw5a, sw5b⟩ := hstk.f5 (by omega)
  replace hrs := Hide.mk (And.intro room5 hrs); replace has := Hide.mk (And.intro room5 has)
  replace hps := Hide.mk (And.intro room5 hps)
  simp only [OffStack] at hrs has hps
  clear ha hp hr hstk
  a64_sym [← hl172, ← hl173, ← hh174, ← ht175, ← hl176, ← hh177, ← ht178, ← ht179, ← ht180, ← hl181, ← hh182, ← ht183, ← ht184, ← ht185, ← hl186, ← hh187, ← ht188, ← ht189, ← ht190, ← hl191, ← hh192, ← ht193, ← ht194, ← ht195, ← hl196, ← hh197, ← ht198, ← ht199, ← ht200, ← ht201, ← ht202, ← ht203, ← ht204]

set_option maxHeartbeats 1600000 in
theorem fpsqr_part6 (s : State) (pr pa pp inv : Word)
    (hr : Buf s pr 6 true) (ha : Buf s pa 6 false) (hp : Buf s pp 6 false)
    (hstk : Stack s 5) (hrs : OffStack s 5 pr 6) (has : OffStack s 5 pa 6) (hps : OffStack s 5 pp 6) {p0 p1 p2 p3 p4 p5 h207 h210 h215 h220 h225 h230 l172 l196 l205 l206 l209 l214 l219 l224 l229 : Word} {t99 t102 t103 t168 t180 t185 t190 t194 t195 t200 t201 t203 t204 t208 t211 t212 t213 t216 t217 t218 t221 t222 t223 t226 t227 t228 t231 t232 t233 t234 t235 t236 t237 : ArithRes}
    (hl205 : l205 = mulLo t180.val inv) (hl206 : l206 = mulLo l205 p0) (hh207 : h207 = mulHi l205 p0)
    (ht208 : t208 = addWithCarry t180.val l206 false) (hl209 : l209 = mulLo l205 p1) (hh210 : h210 = mulHi l205 p1)
    (ht211 : t211 = addWithCarry t185.val l209 t208.c) (ht212 : t212 = addWithCarry h210 (0 : Word) t211.c)
    (ht213 : t213 = addWithCarry t211.val h207 false) (hl214 : l214 = mulLo l205 p2) (hh215 : h215 = mulHi l205 p2)
    (ht216 : t216 = addWithCarry t190.val l214 t213.c) (ht217 : t217 = addWithCarry h215 (0 : Word) t216.c)
    (ht218 : t218 = addWithCarry t216.val t212.val false) (hl219 : l219 = mulLo l205 p3) (hh220 : h220 = mulHi l205 p3)
    (ht221 : t221 = addWithCarry t195.val l219 t218.c) (ht222 : t222 = addWithCarry h220 (0 : Word) t221.c)
    (ht223 : t223 = addWithCarry t221.val t217.val false) (hl224 : l224 = mulLo l205 p4) (hh225 : h225 = mulHi l205 p4)
    (ht226 : t226 = addWithCarry t200.val l224 t223.c) (ht227 : t227 = addWithCarry h225 (0 : Word) t226.c)
    (ht228 : t228 = addWithCarry t226.val t222.val false) (hl229 : l229 = mulLo l205 p5) (hh230 : h230 = mulHi l205 p5)
    (ht231 : t231 = addWithCarry t203.val l229 t228.c) (ht232 : t232 = addWithCarry h230 (0 : Word) t231.c)
    (ht233 : t233 = addWithCarry t231.val t227.val false) (ht234 : t234 = addWithCarry t232.val (0 : Word) t233.c)
    (ht235 : t235 = addWithCarry t204.val (~~~1#64) true) (ht236 : t236 = addWithCarry t99.val t234.val t235.c)
    (ht237 : t237 = addWithCarry (0 : Word) (0 : Word) t236.c) :
    run embedded_pairing_core_arch_aarch64_fpbase_384_square ({ x0 := pr, x1 := t204.val, x2 := l172, x3 := inv, x4 := p0, x5 := p1, x6 := p2, x7 := p3, x8 := s.x8, x9 := t168.val, x10 := t201.val, x11 := t180.val, x12 := t185.val, x13 := t190.val, x14 := t195.val, x15 := t200.val, x16 := s.x16, x17 := s.x17, x18 := s.x18, x19 := t203.val, x20 := t99.val, x21 := t102.val, x22 := t103.val, x23 := p4, x24 := p5, x25 := t194.val, x26 := l196, x27 := s.x27, x28 := s.x28, x29 := s.x29, x30 := s.x30, sp := s.sp - 16#64 - 16#64 - 16#64 - 16#64, nf := some t204.n, zf := some t204.z, cf := some t204.c, vf := some t204.v, mem := setMem (setMem (setMem (setMem (setMem (setMem (setMem (setMem (setMem (setMem (s.mem) (s.sp.toNat - 16) s.x19) (s.sp.toNat - 16 + 8) s.x20) (s.sp.toNat - 16 - 16) s.x21) (s.sp.toNat - 16 - 16 + 8) s.x22) (s.sp.toNat - 16 - 16 - 16) s.x23) (s.sp.toNat - 16 - 16 - 16 + 8) s.x24) (s.sp.toNat - 16 - 16 - 16 - 16) s.x25) (s.sp.toNat - 16 - 16 - 16 - 16 + 8) s.x26) (s.sp.toNat - 16 - 16 - 16 - 16 - 16) pp) (s.sp.toNat - 16 - 16 - 16 - 16 - 16 + 8) inv, readable := s.readable, writable := s.writable, pc := 205, status := .running } : State) 33
      = ({ x0 := pr, x1 := t237.val, x2 := l205, x3 := inv, x4 := p0, x5 := p1, x6 := p2, x7 := p3, x8 := s.x8, x9 := t168.val, x10 := t201.val, x11 := t234.val, x12 := t213.val, x13 := t218.val, x14 := t223.val, x15 := t228.val, x16 := s.x16, x17 := s.x17, x18 := s.x18, x19 := t233.val, x20 := t236.val, x21 := t102.val, x22 := t103.val, x23 := p4, x24 := p5, x25 := t227.val, x26 := l229, x27 := s.x27, x28 := s.x28, x29 := s.x29, x30 := s.x30, sp := s.sp - 16#64 - 16#64 - 16#64 - 16#64, nf := some t237.n, zf := some t237.z, cf := some t237.c, vf := some t237.v, mem := setMem (setMem (setMem (setMem (setMem (setMem (setMem (setMem (setMem (setMem (s.mem) (s.sp.toNat - 16) s.x19) (s.sp.toNat - 16 + 8) s.x20) (s.sp.toNat - 16 - 16) s.x21) (s.sp.toNat - 16 - 16 + 8) s.x22) (s.sp.toNat - 16 - 16 - 16) s.x23) (s.sp.toNat - 16 - 16 - 16 + 8) s.x24) (s.sp.toNat - 16 - 16 - 16 - 16) s.x25) (s.sp.toNat - 16 - 16 - 16 - 16 + 8) s.x26) (s.sp.toNat - 16 - 16 - 16 - 16 - 16) pp) (s.sp.toNat - 16 - 16 - 16 - 16 - 16 + 8) inv, readable := s.readable, writable := s.writable, pc := 238, status := .running } : State) := by
  obtain ⟨ra0, ra1, ra2, ra3, ra4, ra5⟩ := ha.r6
  obtain ⟨⟨alra0, alra1, alra2, alra3, alra4, alra5⟩, fra1, fra2, fra3, fra4, fra5⟩ := ha.addr6
  obtain ⟨rp0, rp1, rp2, rp3, rp4, rp5⟩ := hp.r6
  obtain ⟨⟨alrp0, alrp1, alrp2, alrp3, alrp4, alrp5⟩, frp1, frp2, frp3, frp4, frp5⟩ := hp.addr6
  obtain ⟨rr0, rr1, rr2, rr3, rr4, rr5⟩ := hr.r6
  obtain ⟨wr0, wr1, wr2, wr3, wr4, wr5⟩ := hr.w6
  obtain ⟨⟨alrr0, alrr1, alrr2, alrr3, alrr4, alrr5⟩, frr1, frr2, frr3, frr4, frr5⟩ := hr.addr6
  have als0 := hstk.aligned
  obtain ⟨room1, als1, alq1a, alq1b, sr1a, sr1b, sw1a, sw1b⟩ := hstk.f1 (by omega)
  obtain ⟨room2, als2, alq2a, alq2b, sr2a, sr2b, sw2a, sw2b⟩ := hstk.f2 (by omega)
  obtain ⟨room3, als3, alq3a, alq3b, sr3a, sr3b, sw3a, sw3b⟩ := hstk.f3 (by omega)
  obtain ⟨room4, als4, alq4a, alq4b, sr4a, sr4b, sw4a, sw4b⟩ := hstk.f4 (by omega)
  obtain ⟨room5, als5, alq5a, alq5b, sr5a, sr5b, sw5a, sw5b⟩ := hstk.f5 (by omega)
  replace hrs := Hide.mk (And.intro room5 hrs); replace has := Hide.mk (And.intro room5 has)
  replace hps := Hide.mk (And.intro room5 hps)
  simp only [OffStack] at hrs has hps
  clear ha hp hr hstk
  a64_sym [← hl205, ← hl206, ← hh207, ← ht208, ← hl209, ← hh210, ← ht211, ← ht212, ← ht213, ← hl214, ← hh215, ← ht216, ← ht217, ← ht218, ← hl219, ← hh220, ← ht221, ← ht222, ← ht223, ← hl224, ← hh225, ← ht226, ← ht227, ← ht228, ← hl229, ← hh230, ← ht231, ← ht232, ← ht233, ← ht234, ← ht235, ← ht236, ← ht237]

set_option maxHeartbeats 1600000 in
theorem fpsqr_part7 (s : State) (pr pa pp inv : Word)
    (hr : Buf s pr 6 true) (ha : Buf s pa 6 false) (hp : Buf s pp 6 false)
    (hstk : Stack s 5) (hrs : OffStack s 5 pr 6) (has : OffStack s 5 pa 6) (hps : OffStack s 5 pp 6) {p0 p1 p2 p3 p4 p5 h240 h243 h248 h253 h258 h263 l205 l229 l238 l239 l242 l247 l252 l257 l262 : Word} {t102 t103 t168 t201 t213 t218 t223 t227 t228 t233 t234 t236 t237 t241 t244 t245 t246 t249 t250 t251 t254 t255 t256 t259 t260 t261 t264 t265 t266 t267 t268 t269 t270 : ArithRes}
    (hl238 : l238 = mulLo t213.val inv) (hl239 : l239 = mulLo l238 p0) (hh240 : h240 = mulHi l238 p0)
    (ht241 : t241 = addWithCarry t213.val l239 false) (hl242 : l242 = mulLo l238 p1) (hh243 : h243 = mulHi l238 p1)
    (ht244 : t244 = addWithCarry t218.val l242 t241.c) (ht245 : t245 = addWithCarry h243 (0 : Word) t244.c)
    (ht246 : t246 = addWithCarry t244.val h240 false) (hl247 : l247 = mulLo l238 p2) (hh248 : h248 = mulHi l238 p2)
    (ht249 : t249 = addWithCarry t223.val l247 t246.c) (ht250 : t250 = addWithCarry h248 (0 : Word) t249.c)
    (ht251 : t251 = addWithCarry t249.val t245.val false) (hl252 : l252 = mulLo l238 p3) (hh253 : h253 = mulHi l238 p3)
    (ht254 : t254 = addWithCarry t228.val l252 t251.c) (ht255 : t255 = addWithCarry h253 (0 : Word) t254.c)
    (ht256 : t256 = addWithCarry t254.val t250.val false) (hl257 : l257 = mulLo l238 p4) (hh258 : h258 = mulHi l238 p4)
    (ht259 : t259 = addWithCarry t233.val l257 t256.c) (ht260 : t260 = addWithCarry h258 (0 : Word) t259.c)
    (ht261 : t261 = addWithCarry t259.val t255.val false) (hl262 : l262 = mulLo l238 p5) (hh263 : h263 = mulHi l238 p5)
    (ht264 : t264 = addWithCarry t236.val l262 t261.c) (ht265 : t265 = addWithCarry h263 (0 : Word) t264.c)
    (ht266 : t266 = addWithCarry t264.val t260.val false) (ht267 : t267 = addWithCarry t265.val (0 : Word) t266.c)
    (ht268 : t268 = addWithCarry t237.val (~~~1#64) true) (ht269 : t269 = addWithCarry t102.val t267.val t268.c)
    (ht270 : t270 = addWithCarry (0 : Word) (0 : Word) t269.c) :
    run embedded_pairing_core_arch_aarch64_fpbase_384_square ({ x0 := pr, x1 := t237.val, x2 := l205, x3 := inv, x4 := p0, x5 := p1, x6 := p2, x7 := p3, x8 := s.x8, x9 := t168.val, x10 := t201.val, x11 := t234.val, x12 := t213.val, x13 := t218.val, x14 := t223.val, x15 := t228.val, x16 := s.x16, x17 := s.x17, x18 := s.x18, x19 := t233.val, x20 := t236.val, x21 := t102.val, x22 := t103.val, x23 := p4, x24 := p5, x25 := t227.val, x26 := l229, x27 := s.x27, x28 := s.x28, x29 := s.x29, x30 := s.x30, sp := s.sp - 16#64 - 16#64 - 16#64 - 16#64, nf := some t237.n, zf := some t237.z, cf := some t237.c, vf := some t237.v, mem := setMem (setMem (setMem (setMem (setMem (setMem (setMem (setMem (setMem (setMem (s.mem) (s.sp.toNat - 16) s.x19) (s.sp.toNat - 16 + 8) s.x20) (s.sp.toNat - 16 - 16) s.x21) (s.sp.toNat - 16 - 16 + 8) s.x22) (s.sp.toNat - 16 - 16 - 16) s.x23) (s.sp.toNat - 16 - 16 - 16 + 8) s.x24) (s.sp.toNat - 16 - 16 - 16 - 16) s.x25) (s.sp.toNat - 16 - 16 - 16 - 16 + 8) s.x26) (s.sp.toNat - 16 - 16 - 16 - 16 - 16) pp) (s.sp.toNat - 16 - 16 - 16 - 16 - 16 + 8) inv, readable := s.readable, writable := s.writable, pc := 238, status := .running } : State) 33
      = ({ x0 := pr, x1 := t270.val, x2 := l238, x3 := inv, x4 := p0, x5 := p1, x6 := p2, x7 := p3, x8 := s.x8, x9 := t168.val, x10 := t201.val, x11 := t234.val, x12 := t267.val, x13 := t246.val, x14 := t251.val, x15 := t256.val, x16 := s.x16, x17 := s.x17, x18 := s.x18, x19 := t261.val, x20 := t266.val, x21 := t269.val, x22 := t103.val, x23 := p4, x24 := p5, x25 := t260.val, x26 := l262, x27 := s.x27, x28 := s.x28, x29 := s.x29, x30 := s.x30, sp := s.sp - 16#64 - 16#64 - 16#64 - 16#64, nf := some t270.n, zf := some t270.z, cf := some t270.c, vf := some t270.v, mem := setMem (setMem (setMem (setMem (setMem (setMem (setMem (setMem (setMem (setMem (s.mem) (s.sp.toNat - 16) s.x19) (s.sp.toNat - 16 + 8) s.x20) (s.sp.toNat - 16 - 16) s.x21) (s.sp.toNat - 16 - 16 + 8) s.x22) (s.sp.toNat - 16 - 16 - 16) s.x23) (s.sp.toNat - 16 - 16 - 16 + 8) s.x24) (s.sp.toNat - 16 - 16 - 16 - 16) s.x25) (s.sp.toNat - 16 - 16 - 16 - 16 + 8) s.x26) (s.sp.toNat - 16 - 16 - 16 - 16 - 16) pp) (s.sp.toNat - 16 - 16 - 16 - 16 - 16 + 8) inv, readable := s.readable, writable := s.writable, pc := 271, status := .running } : State) := by
  obtain ⟨ra0, ra1, ra2, ra3, ra4, ra5⟩ := ha.r6
  obtain ⟨⟨alra0, alra1, alra2, alra3, alra4, alra5⟩, fra1, fra2, fra3, fra4, fra5⟩ := ha.addr6
  obtain ⟨rp0, rp1, rp2, rp3, rp4, rp5⟩ := hp.r6
  obtain ⟨⟨alrp0, alrp1, alrp2, alrp3, alrp4, alrp5⟩, frp1, frp2, frp3, frp4, frp5⟩ := hp.addr6
  obtain ⟨rr0, rr1, rr2, rr3, rr4, rr5⟩ := hr.r6
  obtain ⟨wr0, wr1, wr2, wr3, wr4, wr5⟩ := hr.w6
  obtain ⟨⟨alrr0, alrr1, alrr2, alrr3, alrr4, alrr5⟩, frr1, frr2, frr3, frr4, frr5⟩ := hr.addr6
  have als0 := hstk.aligned
  obtain ⟨room1, als1, alq1a, alq1b, sr1a, sr1b, sw1a, sw1b⟩ := hstk.f1 (by omega)
  obtain ⟨room2, als2, alq2a, alq2b, sr2a, sr2b, sw2a, sw2b⟩ := hstk.f2 (by omega)
  obtain ⟨room3, als3, alq3a, alq3b, sr3a, sr3b, sw3a, sw3b⟩ := hstk.f3 (by omega)
  obtain ⟨room4, als4, alq4a, alq4b, sr4a, sr4b, sw4a, sw4b⟩ := hstk.f4 (by omega)
  obtain ⟨room5, als5, alq5a, alq5b, sr5a, sr5b, sw5a, sw5b⟩ := hstk.f5 (by omega)
  replace hrs := Hide.mk (And.intro room5 hrs); replace has := Hide.mk (And.intro room5 has)
  replace hps := Hide.mk (And.intro room5 hps)
  simp only [OffStack] at hrs has hps
  clear ha hp hr hstk
  a64_sym [← hl238, ← hl239, ← hh240, ← ht241, ← hl242, ← hh243, ← ht244, ← ht245, ← ht246, ← hl247, ← hh248, ← ht249, ← ht250, ← ht251, ← hl252, ← hh253, ← ht254, ← ht255, ← ht256, ← hl257, ← hh258, ← ht259, ← ht260, ← ht261, ← hl262, ← hh263, ← ht264, ← ht265, ← ht266, ← ht267, ← ht268, ← ht269, ← ht270]

set_option maxHeartbeats 1600000 in
theorem fpsqr_part8 (s : State) (pr pa pp inv : Word)
    (hr : Buf s pr 6 true) (ha : Buf s pa 6 false) (hp : Buf s pp 6 false)
    (hstk : Stack s 5) (hrs : OffStack s 5 pr 6) (has : OffStack s 5 pa 6) (hps : OffStack s 5 pp 6) {p0 p1 p2 p3 p4 p5 h273 h276 h281 h286 h291 h296 l238 l262 l271 l272 l275 l280 l285 l290 l295 : Word} {t103 t168 t201 t234 t246 t251 t256 t260 t261 t266 t267 t269 t270 t274 t277 t278 t279 t282 t283 t284 t287 t288 t289 t292 t293 t294 t297 t298 t299 t300 t301 t302 : ArithRes}
    (hl271 : l271 = mulLo t246.val inv) (hl272 : l272 = mulLo l271 p0) (hh273 : h273 = mulHi l271 p0)
    (ht274 : t274 = addWithCarry t246.val l272 false) (hl275 : l275 = mulLo l271 p1) (hh276 : h276 = mulHi l271 p1)
    (ht277 : t277 = addWithCarry t251.val l275 t274.c) (ht278 : t278 = addWithCarry h276 (0 : Word) t277.c)
    (ht279 : t279 = addWithCarry t277.val h273 false) (hl280 : l280 = mulLo l271 p2) (hh281 : h281 = mulHi l271 p2)
    (ht282 : t282 = addWithCarry t256.val l280 t279.c) (ht283 : t283 = addWithCarry h281 (0 : Word) t282.c)
    (ht284 : t284 = addWithCarry t282.val t278.val false) (hl285 : l285 = mulLo l271 p3) (hh286 : h286 = mulHi l271 p3)
    (ht287 : t287 = addWithCarry t261.val l285 t284.c) (ht288 : t288 = addWithCarry h286 (0 : Word) t287.c)
    (ht289 : t289 = addWithCarry t287.val t283.val false) (hl290 : l290 = mulLo l271 p4) (hh291 : h291 = mulHi l271 p4)
    (ht292 : t292 = addWithCarry t266.val l290 t289.c) (ht293 : t293 = addWithCarry h291 (0 : Word) t292.c)
    (ht294 : t294 = addWithCarry t292.val t288.val false) (hl295 : l295 = mulLo l271 p5) (hh296 : h296 = mulHi l271 p5)
    (ht297 : t297 = addWithCarry t269.val l295 t294.c) (ht298 : t298 = addWithCarry h296 (0 : Word) t297.c)
    (ht299 : t299 = addWithCarry t297.val t293.val false) (ht300 : t300 = addWithCarry t298.val (0 : Word) t299.c)
    (ht301 : t301 = addWithCarry t270.val (~~~1#64) true) (ht302 : t302 = addWithCarry t103.val t300.val t301.c) :
    run embedded_pairing_core_arch_aarch64_fpbase_384_square ({ x0 := pr, x1 := t270.val, x2 := l238, x3 := inv, x4 := p0, x5 := p1, x6 := p2, x7 := p3, x8 := s.x8, x9 := t168.val, x10 := t201.val, x11 := t234.val, x12 := t267.val, x13 := t246.val, x14 := t251.val, x15 := t256.val, x16 := s.x16, x17 := s.x17, x18 := s.x18, x19 := t261.val, x20 := t266.val, x21 := t269.val, x22 := t103.val, x23 := p4, x24 := p5, x25 := t260.val, x26 := l262, x27 := s.x27, x28 := s.x28, x29 := s.x29, x30 := s.x30, sp := s.sp - 16#64 - 16#64 - 16#64 - 16#64, nf := some t270.n, zf := some t270.z, cf := some t270.c, vf := some t270.v, mem := setMem (setMem (setMem (setMem (setMem (setMem (setMem (setMem (setMem (setMem (s.mem) (s.sp.toNat - 16) s.x19) (s.sp.toNat - 16 + 8) s.x20) (s.sp.toNat - 16 - 16) s.x21) (s.sp.toNat - 16 - 16 + 8) s.x22) (s.sp.toNat - 16 - 16 - 16) s.x23) (s.sp.toNat - 16 - 16 - 16 + 8) s.x24) (s.sp.toNat - 16 - 16 - 16 - 16) s.x25) (s.sp.toNat - 16 - 16 - 16 - 16 + 8) s.x26) (s.sp.toNat - 16 - 16 - 16 - 16 - 16) pp) (s.sp.toNat - 16 - 16 - 16 - 16 - 16 + 8) inv, readable := s.readable, writable := s.writable, pc := 271, status := .running } : State) 32
      = ({ x0 := pr, x1 := t270.val, x2 := l271, x3 := inv, x4 := p0, x5 := p1, x6 := p2, x7 := p3, x8 := s.x8, x9 := t168.val, x10 := t201.val, x11 := t234.val, x12 := t267.val, x13 := t300.val, x14 := t279.val, x15 := t284.val, x16 := s.x16, x17 := s.x17, x18 := s.x18, x19 := t289.val, x20 := t294.val, x21 := t299.val, x22 := t302.val, x23 := p4, x24 := p5, x25 := t293.val, x26 := l295, x27 := s.x27, x28 := s.x28, x29 := s.x29, x30 := s.x30, sp := s.sp - 16#64 - 16#64 - 16#64 - 16#64, nf := some t302.n, zf := some t302.z, cf := some t302.c, vf := some t302.v, mem := setMem (setMem (setMem (setMem (setMem (setMem (setMem (setMem (setMem (setMem (s.mem) (s.sp.toNat - 16) s.x19) (s.sp.toNat - 16 + 8) s.x20) (s.sp.toNat - 16 - 16) s.x21) (s.sp.toNat - 16 - 16 + 8) s.x22) (s.sp.toNat - 16 - 16 - 16) s.x23) (s.sp.toNat - 16 - 16 - 16 + 8) s.x24) (s.sp.toNat - 16 - 16 - 16 - 16) s.x25) (s.sp.toNat - 16 - 16 - 16 - 16 + 8) s.x26) (s.sp.toNat - 16 - 16 - 16 - 16 - 16) pp) (s.sp.toNat - 16 - 16 - 16 - 16 - 16 + 8) inv, readable := s.readable, writable := s.writable, pc := 303, status := .running } : State) := by
  obtain ⟨ra0, ra1, ra2, ra3, ra4, ra5⟩ := ha.r6
  obtain ⟨⟨alra0, alra1, alra2, alra3, alra4, alra5⟩, fra1, fra2, fra3, fra4, fra5⟩ := ha.addr6
  obtain ⟨rp0, rp1, rp2, rp3, rp4, rp5⟩ := hp.r6
  obtain ⟨⟨alrp0, alrp1, alrp2, alrp3, alrp4, alrp5⟩, frp1, frp2, frp3, frp4, frp5⟩ := hp.addr6
  obtain ⟨rr0, rr1, rr2, rr3, rr4, rr5⟩ := hr.r6
  obtain ⟨wr0, wr1, wr2, wr3, wr4, wr5⟩ := hr.w6
  obtain ⟨⟨alrr0, alrr1, alrr2, alrr3, alrr4, alrr5⟩, frr1, frr2, frr3, frr4, frr5⟩ := hr.addr6
  have als0 := hstk.aligned
  obtain ⟨room1, als1, alq1a, alq1b, sr1a, sr1b, sw1a, sw1b⟩ := hstk.f1 (by omega)
  obtain ⟨room2, als2, alq2a, alq2b, sr2a, sr2b, sw2a, sw2b⟩ := hstk.f2 (by omega)
  obtain ⟨room3, als3, alq3a, alq3b, sr3a, sr3b, sw3a, sw3b⟩ := hstk.f3 (by omega)
  obtain ⟨room4, als4, alq4a, alq4b, sr4a, sr4b, sw4a, sw4b⟩ := hstk.f4 (by omega)
  obtain ⟨room5, als5, alq5a, alq5b, sr5a, sr5b, sw5a, sw5b⟩ := hstk.f5 (by omega)
  replace hrs := Hide.mk (And.intro room5 hrs); replace has := Hide.mk (And.intro room5 has)
  replace hps := Hide.mk (And.intro room5 hps)
  simp only [OffStack] at hrs has hps
  clear ha hp hr hstk
  a64_sym [← hl271, ← hl272, ← hh273, ← ht274, ← hl275, ← hh276, ← ht277, ← ht278, ← ht279, ← hl280, ← hh281, ← ht282, ← ht283, ← ht284, ← hl285, ← hh286, ← ht287, ← ht288, ← ht289, ← hl290, ← hh291, ← ht292, ← ht293, ← ht294, ← hl295, ← hh296, ← ht297, ← ht298, ← ht299, ← ht300, ← ht301, ← ht302]

/-! ## the arithmetic on the named intermediates -/

set_option maxHeartbeats 1600000 in
set_option exponentiation.threshold 800 in
theorem fpsqr_prod {a0 a1 a2 a3 a4 a5 h9 h12 h15 h19 h22 h27 h31 h34 h39 h44 h48 h51 h56 h61 h66 h82 h85 h89 h93 h97 l10 l11 l14 l18 l21 l26 l30 l33 l38 l43 l47 l50 l55 l60 l65 l81 l84 l88 l92 l96 h101 l100 : Word} {t13 t16 t17 t20 t23 t24 t25 t28 t29 t32 t35 t36 t37 t40 t41 t42 t45 t46 t49 t52 t53 t54 t57 t58 t59 t62 t63 t64 t67 t68 t70 t71 t72 t73 t74 t75 t76 t77 t78 t79 t80 t83 t86 t87 t90 t91 t94 t95 t98 t99 t102 t103 : ArithRes}
    (hh9 : h9 = mulHi a1 a0) (hl10 : l10 = mulLo a1 a0) (hl11 : l11 = mulLo a2 a0) (hh12 : h12 = mulHi a2 a0)
    (ht13 : t13 = addWithCarry h9 l11 false) (hl14 : l14 = mulLo a2 a1) (hh15 : h15 = mulHi a2 a1)
    (ht16 : t16 = addWithCarry l14 h12 t13.c) (ht17 : t17 = addWithCarry h15 (0 : Word) t16.c) (hl18 : l18 = mulLo a3 a0)
    (hh19 : h19 = mulHi a3 a0) (ht20 : t20 = addWithCarry t16.val l18 false) (hl21 : l21 = mulLo a3 a1)
    (hh22 : h22 = mulHi a3 a1) (ht23 : t23 = addWithCarry t17.val l21 t20.c)
    (ht24 : t24 = addWithCarry h22 (0 : Word) t23.c) (ht25 : t25 = addWithCarry t23.val h19 false)
    (hl26 : l26 = mulLo a3 a2) (hh27 : h27 = mulHi a3 a2) (ht28 : t28 = addWithCarry l26 t24.val t25.c)
    (ht29 : t29 = addWithCarry h27 (0 : Word) t28.c) (hl30 : l30 = mulLo a4 a0) (hh31 : h31 = mulHi a4 a0)
    (ht32 : t32 = addWithCarry t25.val l30 false) (hl33 : l33 = mulLo a4 a1) (hh34 : h34 = mulHi a4 a1)
    (ht35 : t35 = addWithCarry t28.val l33 t32.c) (ht36 : t36 = addWithCarry h34 (0 : Word) t35.c)
    (ht37 : t37 = addWithCarry t35.val h31 false) (hl38 : l38 = mulLo a4 a2) (hh39 : h39 = mulHi a4 a2)
    (ht40 : t40 = addWithCarry t29.val l38 t37.c) (ht41 : t41 = addWithCarry h39 (0 : Word) t40.c)
    (ht42 : t42 = addWithCarry t40.val t36.val false) (hl43 : l43 = mulLo a4 a3) (hh44 : h44 = mulHi a4 a3)
    (ht45 : t45 = addWithCarry l43 t41.val t42.c) (ht46 : t46 = addWithCarry h44 (0 : Word) t45.c)
    (hl47 : l47 = mulLo a5 a0) (hh48 : h48 = mulHi a5 a0) (ht49 : t49 = addWithCarry t37.val l47 false)
    (hl50 : l50 = mulLo a5 a1) (hh51 : h51 = mulHi a5 a1) (ht52 : t52 = addWithCarry t42.val l50 t49.c)
    (ht53 : t53 = addWithCarry h51 (0 : Word) t52.c) (ht54 : t54 = addWithCarry t52.val h48 false)
    (hl55 : l55 = mulLo a5 a2) (hh56 : h56 = mulHi a5 a2) (ht57 : t57 = addWithCarry t45.val l55 t54.c)
    (ht58 : t58 = addWithCarry h56 (0 : Word) t57.c) (ht59 : t59 = addWithCarry t57.val t53.val false)
    (hl60 : l60 = mulLo a5 a3) (hh61 : h61 = mulHi a5 a3) (ht62 : t62 = addWithCarry t46.val l60 t59.c)
    (ht63 : t63 = addWithCarry h61 (0 : Word) t62.c) (ht64 : t64 = addWithCarry t62.val t58.val false)
    (hl65 : l65 = mulLo a5 a4) (hh66 : h66 = mulHi a5 a4) (ht67 : t67 = addWithCarry l65 t63.val t64.c)
    (ht68 : t68 = addWithCarry h66 (0 : Word) t67.c) (ht70 : t70 = addWithCarry l10 l10 false)
    (ht71 : t71 = addWithCarry t13.val t13.val t70.c) (ht72 : t72 = addWithCarry t20.val t20.val t71.c)
    (ht73 : t73 = addWithCarry t32.val t32.val t72.c) (ht74 : t74 = addWithCarry t49.val t49.val t73.c)
    (ht75 : t75 = addWithCarry t54.val t54.val t74.c) (ht76 : t76 = addWithCarry t59.val t59.val t75.c)
    (ht77 : t77 = addWithCarry t64.val t64.val t76.c) (ht78 : t78 = addWithCarry t67.val t67.val t77.c)
    (ht79 : t79 = addWithCarry t68.val t68.val t78.c) (ht80 : t80 = addWithCarry (0 : Word) (0 : Word) t79.c)
    (hl81 : l81 = mulLo a0 a0) (hh82 : h82 = mulHi a0 a0) (ht83 : t83 = addWithCarry t70.val h82 false)
    (hl84 : l84 = mulLo a1 a1) (hh85 : h85 = mulHi a1 a1) (ht86 : t86 = addWithCarry t71.val l84 t83.c)
    (ht87 : t87 = addWithCarry t72.val h85 t86.c) (hl88 : l88 = mulLo a2 a2) (hh89 : h89 = mulHi a2 a2)
    (ht90 : t90 = addWithCarry t73.val l88 t87.c) (ht91 : t91 = addWithCarry t74.val h89 t90.c) (hl92 : l92 = mulLo a3 a3)
    (hh93 : h93 = mulHi a3 a3) (ht94 : t94 = addWithCarry t75.val l92 t91.c) (ht95 : t95 = addWithCarry t76.val h93 t94.c)
    (hl96 : l96 = mulLo a4 a4) (hh97 : h97 = mulHi a4 a4) (ht98 : t98 = addWithCarry t77.val l96 t95.c)
    (ht99 : t99 = addWithCarry t78.val h97 t98.c) (hl100 : l100 = mulLo a5 a5) (hh101 : h101 = mulHi a5 a5)
    (ht102 : t102 = addWithCarry t79.val l100 t99.c) (ht103 : t103 = addWithCarry t80.val h101 t102.c)
     :
    val (2 ^ 64) [l81.toNat, t83.val.toNat, t86.val.toNat, t87.val.toNat, t90.val.toNat, t91.val.toNat, t94.val.toNat, t95.val.toNat, t98.val.toNat, t99.val.toNat, t102.val.toNat, t103.val.toNat] = val (2 ^ 64) [a0.toNat, a1.toNat, a2.toNat, a3.toNat, a4.toNat, a5.toNat] * val (2 ^ 64) [a0.toNat, a1.toNat, a2.toNat, a3.toNat, a4.toNat, a5.toNat] := by
  have hz0 : (0 : Word).toNat = 0 := rfl
  have e9 := multiply64_spec hl10 hh9
  have e11 := muladd64_spec hl11 hh12 ht13
  have e14 := mulcarry64_spec hl14 hh15 ht16 e11.2
  have e17 := rowend_spec ht17 e14.2
  have e18 := muladd64_spec hl18 hh19 ht20
  have e21 := muladdcarry64_spec hl21 hh22 ht23 ht24 ht25 e18.2
  have e26 := mulcarry64_spec hl26 hh27 ht28 e21.2
  have e29 := rowend_spec ht29 e26.2
  have e30 := muladd64_spec hl30 hh31 ht32
  have e33 := muladdcarry64_spec hl33 hh34 ht35 ht36 ht37 e30.2
  have e38 := muladdcarry64_spec hl38 hh39 ht40 ht41 ht42 e33.2
  have e43 := mulcarry64_spec hl43 hh44 ht45 e38.2
  have e46 := rowend_spec ht46 e43.2
  have e47 := muladd64_spec hl47 hh48 ht49
  have e50 := muladdcarry64_spec hl50 hh51 ht52 ht53 ht54 e47.2
  have e55 := muladdcarry64_spec hl55 hh56 ht57 ht58 ht59 e50.2
  have e60 := muladdcarry64_spec hl60 hh61 ht62 ht63 ht64 e55.2
  have e65 := mulcarry64_spec hl65 hh66 ht67 e60.2
  have e68 := rowend_spec ht68 e65.2
  have e70 := awc_spec l10 l10 false; rw [← ht70] at e70
  simp only [Bool.toNat_false, Nat.add_zero, Nat.zero_add, hz0] at e70
  have e71 := awc_spec t13.val t13.val t70.c; rw [← ht71] at e71
  have e72 := awc_spec t20.val t20.val t71.c; rw [← ht72] at e72
  have e73 := awc_spec t32.val t32.val t72.c; rw [← ht73] at e73
  have e74 := awc_spec t49.val t49.val t73.c; rw [← ht74] at e74
  have e75 := awc_spec t54.val t54.val t74.c; rw [← ht75] at e75
  have e76 := awc_spec t59.val t59.val t75.c; rw [← ht76] at e76
  have e77 := awc_spec t64.val t64.val t76.c; rw [← ht77] at e77
  have e78 := awc_spec t67.val t67.val t77.c; rw [← ht78] at e78
  have e79 := awc_spec t68.val t68.val t78.c; rw [← ht79] at e79
  have e80 := awc_spec (0 : Word) (0 : Word) t79.c; rw [← ht80] at e80
  simp only [Bool.toNat_false, Nat.add_zero, Nat.zero_add, hz0] at e80
  have z80 : t80.c.toNat = 0 := by have := Bool.toNat_le t79.c; clear * - e80 this; omega
  simp only [z80, Nat.mul_zero, Nat.add_zero] at e80
  have e81 := mul_spec a0 a0; rw [← hl81, ← hh82] at e81
  have e83 := awc_spec t70.val h82 false; rw [← ht83] at e83
  simp only [Bool.toNat_false, Nat.add_zero, Nat.zero_add, hz0] at e83
  have e84 := mul_spec a1 a1; rw [← hl84, ← hh85] at e84
  have e86 := awc_spec t71.val l84 t83.c; rw [← ht86] at e86
  have e87 := awc_spec t72.val h85 t86.c; rw [← ht87] at e87
  have e88 := mul_spec a2 a2; rw [← hl88, ← hh89] at e88
  have e90 := awc_spec t73.val l88 t87.c; rw [← ht90] at e90
  have e91 := awc_spec t74.val h89 t90.c; rw [← ht91] at e91
  have e92 := mul_spec a3 a3; rw [← hl92, ← hh93] at e92
  have e94 := awc_spec t75.val l92 t91.c; rw [← ht94] at e94
  have e95 := awc_spec t76.val h93 t94.c; rw [← ht95] at e95
  have e96 := mul_spec a4 a4; rw [← hl96, ← hh97] at e96
  have e98 := awc_spec t77.val l96 t95.c; rw [← ht98] at e98
  have e99 := awc_spec t78.val h97 t98.c; rw [← ht99] at e99
  have e100 := mul_spec a5 a5; rw [← hl100, ← hh101] at e100
  have e102 := awc_spec t79.val l100 t99.c; rw [← ht102] at e102
  have e103 := awc_spec t80.val h101 t102.c; rw [← ht103] at e103
  have hA := X86.val6_lt a0 a1 a2 a3 a4 a5
  have key : val (2 ^ 64) [l81.toNat, t83.val.toNat, t86.val.toNat, t87.val.toNat, t90.val.toNat, t91.val.toNat, t94.val.toNat, t95.val.toNat, t98.val.toNat, t99.val.toNat, t102.val.toNat, t103.val.toNat] + 2 ^ 768 * t103.c.toNat = val (2 ^ 64) [a0.toNat, a1.toNat, a2.toNat, a3.toNat, a4.toNat, a5.toNat] * val (2 ^ 64) [a0.toNat, a1.toNat, a2.toNat, a3.toNat, a4.toNat, a5.toNat] := by
    simp only [val_cons, val_nil]
    linear_combination 2 * (2 ^ 64 * e9.1 + 2 ^ 128 * e11.1 + 2 ^ 192 * e14.1 + 2 ^ 256 * e17 + 2 ^ 192 * e18.1 + 2 ^ 256 * e21.1 + 2 ^ 320 * e26.1 + 2 ^ 384 * e29 + 2 ^ 256 * e30.1 + 2 ^ 320 * e33.1 + 2 ^ 384 * e38.1 + 2 ^ 448 * e43.1 + 2 ^ 512 * e46 + 2 ^ 320 * e47.1 + 2 ^ 384 * e50.1 + 2 ^ 448 * e55.1 + 2 ^ 512 * e60.1 + 2 ^ 576 * e65.1 + 2 ^ 640 * e68) + 2 ^ 64 * e70 + 2 ^ 128 * e71 + 2 ^ 192 * e72 + 2 ^ 256 * e73 + 2 ^ 320 * e74 + 2 ^ 384 * e75 + 2 ^ 448 * e76 + 2 ^ 512 * e77 + 2 ^ 576 * e78 + 2 ^ 640 * e79 + 2 ^ 704 * e80 + e81 + 2 ^ 64 * e83 + 2 ^ 128 * e84 + 2 ^ 128 * e86 + 2 ^ 192 * e87 + 2 ^ 256 * e88 + 2 ^ 256 * e90 + 2 ^ 320 * e91 + 2 ^ 384 * e92 + 2 ^ 384 * e94 + 2 ^ 448 * e95 + 2 ^ 512 * e96 + 2 ^ 512 * e98 + 2 ^ 576 * e99 + 2 ^ 640 * e100 + 2 ^ 640 * e102 + 2 ^ 704 * e103
  exact (sqr_no_carry key hA).2

set_option maxHeartbeats 1600000 in
set_option exponentiation.threshold 800 in
theorem fpsqr_mont {p0 p1 p2 p3 p4 p5 inv l81 h110 h113 h118 h123 h128 h133 h141 h144 h149 h154 h159 h164 h174 h177 h182 h187 h192 h197 h207 h210 h215 h220 h225 h230 h240 h243 h248 h253 h258 h263 h273 h276 h281 h286 h291 h296 l108 l109 l112 l117 l122 l127 l132 l139 l140 l143 l148 l153 l158 l163 l172 l173 l176 l181 l186 l191 l196 l205 l206 l209 l214 l219 l224 l229 l238 l239 l242 l247 l252 l257 l262 l271 l272 l275 l280 l285 l290 l295 : Word} {t83 t86 t87 t90 t91 t94 t95 t98 t99 t102 t103 t111 t114 t115 t116 t119 t120 t121 t124 t125 t126 t129 t130 t131 t134 t135 t136 t137 t138 t142 t145 t146 t147 t150 t151 t152 t155 t156 t157 t160 t161 t162 t165 t166 t167 t168 t169 t170 t171 t175 t178 t179 t180 t183 t184 t185 t188 t189 t190 t193 t194 t195 t198 t199 t200 t201 t202 t203 t204 t208 t211 t212 t213 t216 t217 t218 t221 t222 t223 t226 t227 t228 t231 t232 t233 t234 t235 t236 t237 t241 t244 t245 t246 t249 t250 t251 t254 t255 t256 t259 t260 t261 t264 t265 t266 t267 t268 t269 t270 t274 t277 t278 t279 t282 t283 t284 t287 t288 t289 t292 t293 t294 t297 t298 t299 t300 t301 t302 : ArithRes}
    (hl108 : l108 = mulLo l81 inv) (hl109 : l109 = mulLo l108 p0) (hh110 : h110 = mulHi l108 p0)
    (ht111 : t111 = addWithCarry l81 l109 false) (hl112 : l112 = mulLo l108 p1) (hh113 : h113 = mulHi l108 p1)
    (ht114 : t114 = addWithCarry t83.val l112 t111.c) (ht115 : t115 = addWithCarry h113 (0 : Word) t114.c)
    (ht116 : t116 = addWithCarry t114.val h110 false) (hl117 : l117 = mulLo l108 p2) (hh118 : h118 = mulHi l108 p2)
    (ht119 : t119 = addWithCarry t86.val l117 t116.c) (ht120 : t120 = addWithCarry h118 (0 : Word) t119.c)
    (ht121 : t121 = addWithCarry t119.val t115.val false) (hl122 : l122 = mulLo l108 p3) (hh123 : h123 = mulHi l108 p3)
    (ht124 : t124 = addWithCarry t87.val l122 t121.c) (ht125 : t125 = addWithCarry h123 (0 : Word) t124.c)
    (ht126 : t126 = addWithCarry t124.val t120.val false) (hl127 : l127 = mulLo l108 p4) (hh128 : h128 = mulHi l108 p4)
    (ht129 : t129 = addWithCarry t90.val l127 t126.c) (ht130 : t130 = addWithCarry h128 (0 : Word) t129.c)
    (ht131 : t131 = addWithCarry t129.val t125.val false) (hl132 : l132 = mulLo l108 p5) (hh133 : h133 = mulHi l108 p5)
    (ht134 : t134 = addWithCarry t91.val l132 t131.c) (ht135 : t135 = addWithCarry h133 (0 : Word) t134.c)
    (ht136 : t136 = addWithCarry t134.val t130.val false) (ht137 : t137 = addWithCarry t94.val t135.val t136.c)
    (ht138 : t138 = addWithCarry (0 : Word) (0 : Word) t137.c) (hl139 : l139 = mulLo t116.val inv)
    (hl140 : l140 = mulLo l139 p0) (hh141 : h141 = mulHi l139 p0) (ht142 : t142 = addWithCarry t116.val l140 false)
    (hl143 : l143 = mulLo l139 p1) (hh144 : h144 = mulHi l139 p1) (ht145 : t145 = addWithCarry t121.val l143 t142.c)
    (ht146 : t146 = addWithCarry h144 (0 : Word) t145.c) (ht147 : t147 = addWithCarry t145.val h141 false)
    (hl148 : l148 = mulLo l139 p2) (hh149 : h149 = mulHi l139 p2) (ht150 : t150 = addWithCarry t126.val l148 t147.c)
    (ht151 : t151 = addWithCarry h149 (0 : Word) t150.c) (ht152 : t152 = addWithCarry t150.val t146.val false)
    (hl153 : l153 = mulLo l139 p3) (hh154 : h154 = mulHi l139 p3) (ht155 : t155 = addWithCarry t131.val l153 t152.c)
    (ht156 : t156 = addWithCarry h154 (0 : Word) t155.c) (ht157 : t157 = addWithCarry t155.val t151.val false)
    (hl158 : l158 = mulLo l139 p4) (hh159 : h159 = mulHi l139 p4) (ht160 : t160 = addWithCarry t136.val l158 t157.c)
    (ht161 : t161 = addWithCarry h159 (0 : Word) t160.c) (ht162 : t162 = addWithCarry t160.val t156.val false)
    (hl163 : l163 = mulLo l139 p5) (hh164 : h164 = mulHi l139 p5) (ht165 : t165 = addWithCarry t137.val l163 t162.c)
    (ht166 : t166 = addWithCarry h164 (0 : Word) t165.c) (ht167 : t167 = addWithCarry t165.val t161.val false)
    (ht168 : t168 = addWithCarry t166.val (0 : Word) t167.c) (ht169 : t169 = addWithCarry t138.val (~~~1#64) true)
    (ht170 : t170 = addWithCarry t95.val t168.val t169.c) (ht171 : t171 = addWithCarry (0 : Word) (0 : Word) t170.c)
    (hl172 : l172 = mulLo t147.val inv) (hl173 : l173 = mulLo l172 p0) (hh174 : h174 = mulHi l172 p0)
    (ht175 : t175 = addWithCarry t147.val l173 false) (hl176 : l176 = mulLo l172 p1) (hh177 : h177 = mulHi l172 p1)
    (ht178 : t178 = addWithCarry t152.val l176 t175.c) (ht179 : t179 = addWithCarry h177 (0 : Word) t178.c)
    (ht180 : t180 = addWithCarry t178.val h174 false) (hl181 : l181 = mulLo l172 p2) (hh182 : h182 = mulHi l172 p2)
    (ht183 : t183 = addWithCarry t157.val l181 t180.c) (ht184 : t184 = addWithCarry h182 (0 : Word) t183.c)
    (ht185 : t185 = addWithCarry t183.val t179.val false) (hl186 : l186 = mulLo l172 p3) (hh187 : h187 = mulHi l172 p3)
    (ht188 : t188 = addWithCarry t162.val l186 t185.c) (ht189 : t189 = addWithCarry h187 (0 : Word) t188.c)
    (ht190 : t190 = addWithCarry t188.val t184.val false) (hl191 : l191 = mulLo l172 p4) (hh192 : h192 = mulHi l172 p4)
    (ht193 : t193 = addWithCarry t167.val l191 t190.c) (ht194 : t194 = addWithCarry h192 (0 : Word) t193.c)
    (ht195 : t195 = addWithCarry t193.val t189.val false) (hl196 : l196 = mulLo l172 p5) (hh197 : h197 = mulHi l172 p5)
    (ht198 : t198 = addWithCarry t170.val l196 t195.c) (ht199 : t199 = addWithCarry h197 (0 : Word) t198.c)
    (ht200 : t200 = addWithCarry t198.val t194.val false) (ht201 : t201 = addWithCarry t199.val (0 : Word) t200.c)
    (ht202 : t202 = addWithCarry t171.val (~~~1#64) true) (ht203 : t203 = addWithCarry t98.val t201.val t202.c)
    (ht204 : t204 = addWithCarry (0 : Word) (0 : Word) t203.c) (hl205 : l205 = mulLo t180.val inv)
    (hl206 : l206 = mulLo l205 p0) (hh207 : h207 = mulHi l205 p0) (ht208 : t208 = addWithCarry t180.val l206 false)
    (hl209 : l209 = mulLo l205 p1) (hh210 : h210 = mulHi l205 p1) (ht211 : t211 = addWithCarry t185.val l209 t208.c)
    (ht212 : t212 = addWithCarry h210 (0 : Word) t211.c) (ht213 : t213 = addWithCarry t211.val h207 false)
    (hl214 : l214 = mulLo l205 p2) (hh215 : h215 = mulHi l205 p2) (ht216 : t216 = addWithCarry t190.val l214 t213.c)
    (ht217 : t217 = addWithCarry h215 (0 : Word) t216.c) (ht218 : t218 = addWithCarry t216.val t212.val false)
    (hl219 : l219 = mulLo l205 p3) (hh220 : h220 = mulHi l205 p3) (ht221 : t221 = addWithCarry t195.val l219 t218.c)
    (ht222 : t222 = addWithCarry h220 (0 : Word) t221.c) (ht223 : t223 = addWithCarry t221.val t217.val false)
    (hl224 : l224 = mulLo l205 p4) (hh225 : h225 = mulHi l205 p4) (ht226 : t226 = addWithCarry t200.val l224 t223.c)
    (ht227 : t227 = addWithCarry h225 (0 : Word) t226.c) (ht228 : t228 = addWithCarry t226.val t222.val false)
    (hl229 : l229 = mulLo l205 p5) (hh230 : h230 = mulHi l205 p5) (ht231 : t231 = addWithCarry t203.val l229 t228.c)
    (ht232 : t232 = addWithCarry h230 (0 : Word) t231.c) (ht233 : t233 = addWithCarry t231.val t227.val false)
    (ht234 : t234 = addWithCarry t232.val (0 : Word) t233.c) (ht235 : t235 = addWithCarry t204.val (~~~1#64) true)
    (ht236 : t236 = addWithCarry t99.val t234.val t235.c) (ht237 : t237 = addWithCarry (0 : Word) (0 : Word) t236.c)
    (hl238 : l238 = mulLo t213.val inv) (hl239 : l239 = mulLo l238 p0) (hh240 : h240 = mulHi l238 p0)
    (ht241 : t241 = addWithCarry t213.val l239 false) (hl242 : l242 = mulLo l238 p1) (hh243 : h243 = mulHi l238 p1)
    (ht244 : t244 = addWithCarry t218.val l242 t241.c) (ht245 : t245 = addWithCarry h243 (0 : Word) t244.c)
    (ht246 : t246 = addWithCarry t244.val h240 false) (hl247 : l247 = mulLo l238 p2) (hh248 : h248 = mulHi l238 p2)
    (ht249 : t249 = addWithCarry t223.val l247 t246.c) (ht250 : t250 = addWithCarry h248 (0 : Word) t249.c)
    (ht251 : t251 = addWithCarry t249.val t245.val false) (hl252 : l252 = mulLo l238 p3) (hh253 : h253 = mulHi l238 p3)
    (ht254 : t254 = addWithCarry t228.val l252 t251.c) (ht255 : t255 = addWithCarry h253 (0 : Word) t254.c)
    (ht256 : t256 = addWithCarry t254.val t250.val false) (hl257 : l257 = mulLo l238 p4) (hh258 : h258 = mulHi l238 p4)
    (ht259 : t259 = addWithCarry t233.val l257 t256.c) (ht260 : t260 = addWithCarry h258 (0 : Word) t259.c)
    (ht261 : t261 = addWithCarry t259.val t255.val false) (hl262 : l262 = mulLo l238 p5) (hh263 : h263 = mulHi l238 p5)
    (ht264 : t264 = addWithCarry t236.val l262 t261.c) (ht265 : t265 = addWithCarry h263 (0 : Word) t264.c)
    (ht266 : t266 = addWithCarry t264.val t260.val false) (ht267 : t267 = addWithCarry t265.val (0 : Word) t266.c)
    (ht268 : t268 = addWithCarry t237.val (~~~1#64) true) (ht269 : t269 = addWithCarry t102.val t267.val t268.c)
    (ht270 : t270 = addWithCarry (0 : Word) (0 : Word) t269.c) (hl271 : l271 = mulLo t246.val inv)
    (hl272 : l272 = mulLo l271 p0) (hh273 : h273 = mulHi l271 p0) (ht274 : t274 = addWithCarry t246.val l272 false)
    (hl275 : l275 = mulLo l271 p1) (hh276 : h276 = mulHi l271 p1) (ht277 : t277 = addWithCarry t251.val l275 t274.c)
    (ht278 : t278 = addWithCarry h276 (0 : Word) t277.c) (ht279 : t279 = addWithCarry t277.val h273 false)
    (hl280 : l280 = mulLo l271 p2) (hh281 : h281 = mulHi l271 p2) (ht282 : t282 = addWithCarry t256.val l280 t279.c)
    (ht283 : t283 = addWithCarry h281 (0 : Word) t282.c) (ht284 : t284 = addWithCarry t282.val t278.val false)
    (hl285 : l285 = mulLo l271 p3) (hh286 : h286 = mulHi l271 p3) (ht287 : t287 = addWithCarry t261.val l285 t284.c)
    (ht288 : t288 = addWithCarry h286 (0 : Word) t287.c) (ht289 : t289 = addWithCarry t287.val t283.val false)
    (hl290 : l290 = mulLo l271 p4) (hh291 : h291 = mulHi l271 p4) (ht292 : t292 = addWithCarry t266.val l290 t289.c)
    (ht293 : t293 = addWithCarry h291 (0 : Word) t292.c) (ht294 : t294 = addWithCarry t292.val t288.val false)
    (hl295 : l295 = mulLo l271 p5) (hh296 : h296 = mulHi l271 p5) (ht297 : t297 = addWithCarry t269.val l295 t294.c)
    (ht298 : t298 = addWithCarry h296 (0 : Word) t297.c) (ht299 : t299 = addWithCarry t297.val t293.val false)
    (ht300 : t300 = addWithCarry t298.val (0 : Word) t299.c) (ht301 : t301 = addWithCarry t270.val (~~~1#64) true)
    (ht302 : t302 = addWithCarry t103.val t300.val t301.c)
    (hinv : (inv.toNat * val (2 ^ 64) [p0.toNat, p1.toNat, p2.toNat, p3.toNat, p4.toNat, p5.toNat] + 1) % 2 ^ 64 = 0)
    (hT : val (2 ^ 64) [l81.toNat, t83.val.toNat, t86.val.toNat, t87.val.toNat, t90.val.toNat, t91.val.toNat, t94.val.toNat, t95.val.toNat, t98.val.toNat, t99.val.toNat, t102.val.toNat, t103.val.toNat] < val (2 ^ 64) [p0.toNat, p1.toNat, p2.toNat, p3.toNat, p4.toNat, p5.toNat] * 2 ^ 384) (h2P : 2 * val (2 ^ 64) [p0.toNat, p1.toNat, p2.toNat, p3.toNat, p4.toNat, p5.toNat] ≤ 2 ^ 384) :
    val (2 ^ 64) [t279.val.toNat, t284.val.toNat, t289.val.toNat, t294.val.toNat, t299.val.toNat, t302.val.toNat] < 2 * val (2 ^ 64) [p0.toNat, p1.toNat, p2.toNat, p3.toNat, p4.toNat, p5.toNat] ∧ 2 ^ 384 * val (2 ^ 64) [t279.val.toNat, t284.val.toNat, t289.val.toNat, t294.val.toNat, t299.val.toNat, t302.val.toNat] = val (2 ^ 64) [l81.toNat, t83.val.toNat, t86.val.toNat, t87.val.toNat, t90.val.toNat, t91.val.toNat, t94.val.toNat, t95.val.toNat, t98.val.toNat, t99.val.toNat, t102.val.toNat, t103.val.toNat] + val (2 ^ 64) [l108.toNat, l139.toNat, l172.toNat, l205.toNat, l238.toNat, l271.toNat] * val (2 ^ 64) [p0.toNat, p1.toNat, p2.toNat, p3.toNat, p4.toNat, p5.toNat] := by
  have hinv' := hinv
  simp only [val_cons, val_nil] at hinv'
  replace hinv := hinv'
  have e109 := muladd64_spec hl109 hh110 ht111
  have z109 := mont_low hinv hl108 hl109 ht111
  have f109 := e109.1; rw [z109, Nat.zero_add] at f109
  have e112 := muladdcarry64_spec hl112 hh113 ht114 ht115 ht116 e109.2
  have e117 := muladdcarry64_spec hl117 hh118 ht119 ht120 ht121 e112.2
  have e122 := muladdcarry64_spec hl122 hh123 ht124 ht125 ht126 e117.2
  have e127 := muladdcarry64_spec hl127 hh128 ht129 ht130 ht131 e122.2
  have e132 := muladdcarry64_spec hl132 hh133 ht134 ht135 ht136 e127.2
  have e137 := mont_top_first ht137 ht138
  have e140 := muladd64_spec hl140 hh141 ht142
  have z140 := mont_low hinv hl139 hl140 ht142
  have f140 := e140.1; rw [z140, Nat.zero_add] at f140
  have e143 := muladdcarry64_spec hl143 hh144 ht145 ht146 ht147 e140.2
  have e148 := muladdcarry64_spec hl148 hh149 ht150 ht151 ht152 e143.2
  have e153 := muladdcarry64_spec hl153 hh154 ht155 ht156 ht157 e148.2
  have e158 := muladdcarry64_spec hl158 hh159 ht160 ht161 ht162 e153.2
  have e163 := muladdcarry64_spec hl163 hh164 ht165 ht166 ht167 e158.2
  have e170 := mont_top_mid ht168 ht169 ht170 ht171 e163.2 e137.2
  have e173 := muladd64_spec hl173 hh174 ht175
  have z173 := mont_low hinv hl172 hl173 ht175
  have f173 := e173.1; rw [z173, Nat.zero_add] at f173
  have e176 := muladdcarry64_spec hl176 hh177 ht178 ht179 ht180 e173.2
  have e181 := muladdcarry64_spec hl181 hh182 ht183 ht184 ht185 e176.2
  have e186 := muladdcarry64_spec hl186 hh187 ht188 ht189 ht190 e181.2
  have e191 := muladdcarry64_spec hl191 hh192 ht193 ht194 ht195 e186.2
  have e196 := muladdcarry64_spec hl196 hh197 ht198 ht199 ht200 e191.2
  have e203 := mont_top_mid ht201 ht202 ht203 ht204 e196.2 e170.2
  have e206 := muladd64_spec hl206 hh207 ht208
  have z206 := mont_low hinv hl205 hl206 ht208
  have f206 := e206.1; rw [z206, Nat.zero_add] at f206
  have e209 := muladdcarry64_spec hl209 hh210 ht211 ht212 ht213 e206.2
  have e214 := muladdcarry64_spec hl214 hh215 ht216 ht217 ht218 e209.2
  have e219 := muladdcarry64_spec hl219 hh220 ht221 ht222 ht223 e214.2
  have e224 := muladdcarry64_spec hl224 hh225 ht226 ht227 ht228 e219.2
  have e229 := muladdcarry64_spec hl229 hh230 ht231 ht232 ht233 e224.2
  have e236 := mont_top_mid ht234 ht235 ht236 ht237 e229.2 e203.2
  have e239 := muladd64_spec hl239 hh240 ht241
  have z239 := mont_low hinv hl238 hl239 ht241
  have f239 := e239.1; rw [z239, Nat.zero_add] at f239
  have e242 := muladdcarry64_spec hl242 hh243 ht244 ht245 ht246 e239.2
  have e247 := muladdcarry64_spec hl247 hh248 ht249 ht250 ht251 e242.2
  have e252 := muladdcarry64_spec hl252 hh253 ht254 ht255 ht256 e247.2
  have e257 := muladdcarry64_spec hl257 hh258 ht259 ht260 ht261 e252.2
  have e262 := muladdcarry64_spec hl262 hh263 ht264 ht265 ht266 e257.2
  have e269 := mont_top_mid ht267 ht268 ht269 ht270 e262.2 e236.2
  have e272 := muladd64_spec hl272 hh273 ht274
  have z272 := mont_low hinv hl271 hl272 ht274
  have f272 := e272.1; rw [z272, Nat.zero_add] at f272
  have e275 := muladdcarry64_spec hl275 hh276 ht277 ht278 ht279 e272.2
  have e280 := muladdcarry64_spec hl280 hh281 ht282 ht283 ht284 e275.2
  have e285 := muladdcarry64_spec hl285 hh286 ht287 ht288 ht289 e280.2
  have e290 := muladdcarry64_spec hl290 hh291 ht292 ht293 ht294 e285.2
  have e295 := muladdcarry64_spec hl295 hh296 ht297 ht298 ht299 e290.2
  have e302 := mont_top_last ht300 ht301 ht302 e295.2 e269.2
  have key : 2 ^ 384 * (val (2 ^ 64) [t279.val.toNat, t284.val.toNat, t289.val.toNat, t294.val.toNat, t299.val.toNat, t302.val.toNat] + 2 ^ 384 * t302.c.toNat) = val (2 ^ 64) [l81.toNat, t83.val.toNat, t86.val.toNat, t87.val.toNat, t90.val.toNat, t91.val.toNat, t94.val.toNat, t95.val.toNat, t98.val.toNat, t99.val.toNat, t102.val.toNat, t103.val.toNat] + val (2 ^ 64) [l108.toNat, l139.toNat, l172.toNat, l205.toNat, l238.toNat, l271.toNat] * val (2 ^ 64) [p0.toNat, p1.toNat, p2.toNat, p3.toNat, p4.toNat, p5.toNat] := by
    simp only [val_cons, val_nil]
    linear_combination f109 + 2 ^ 64 * e112.1 + 2 ^ 128 * e117.1 + 2 ^ 192 * e122.1 + 2 ^ 256 * e127.1 + 2 ^ 320 * e132.1 + 2 ^ 384 * e137.1 + 2 ^ 64 * f140 + 2 ^ 128 * e143.1 + 2 ^ 192 * e148.1 + 2 ^ 256 * e153.1 + 2 ^ 320 * e158.1 + 2 ^ 384 * e163.1 + 2 ^ 448 * e170.1 + 2 ^ 128 * f173 + 2 ^ 192 * e176.1 + 2 ^ 256 * e181.1 + 2 ^ 320 * e186.1 + 2 ^ 384 * e191.1 + 2 ^ 448 * e196.1 + 2 ^ 512 * e203.1 + 2 ^ 192 * f206 + 2 ^ 256 * e209.1 + 2 ^ 320 * e214.1 + 2 ^ 384 * e219.1 + 2 ^ 448 * e224.1 + 2 ^ 512 * e229.1 + 2 ^ 576 * e236.1 + 2 ^ 256 * f239 + 2 ^ 320 * e242.1 + 2 ^ 384 * e247.1 + 2 ^ 448 * e252.1 + 2 ^ 512 * e257.1 + 2 ^ 576 * e262.1 + 2 ^ 640 * e269.1 + 2 ^ 320 * f272 + 2 ^ 384 * e275.1 + 2 ^ 448 * e280.1 + 2 ^ 512 * e285.1 + 2 ^ 576 * e290.1 + 2 ^ 640 * e295.1 + 2 ^ 704 * e302
  exact (X86.mont_finish key (X86.val6_lt l108 l139 l172 l205 l238 l271) hT h2P).2

end Jedi.A64
