/-
Theorems about the AArch64 assembly of /repo/src/core/arch/aarch64/multiply.s (as regenerated into
`JediVerif/Gen/AsmA64.lean`, executed by the machine model of `JediVerif/Impl/A64.lean`): the lemmas about one
Montgomery round and the final comparison (shared with the fused `fpbase_384_multiply` / `fpbase_384_square`), and
`fpbase_384_montgomery_reduce`: for every entry state satisfying AAPCS64, `T < P·2^384`, `inv·P ≡ −1 (mod 2^64)` and
`2P ≤ 2^384` the six result limbs are `< P` and `≡ T·2^{-384} (mod P)`.  (`2P ≤ 2^384` is needed because the last
round drops the carry out of the top word, `adcs \dst11, \dst11, \dst5`: `X86.mont_finish`.)

Six rounds (macro equations of `A64ProofsMul.lean`; the low word vanishes by the choice of `u`: `mont_low`; the
hand-over of the carry pair and of the meta-carry kept in a register between rounds: `mont_top_*`), then the
word-by-word comparison with `P` from the top (`cmp; b.hi subtract; b.lo copy`): twelve endings, each a separate last
piece of the symbolic execution.  All loads precede all stores: `res` may overlap `T` and `P` in any way.
-/
import JediVerif.Proofs.A64ProofsMul
import JediVerif.Proofs.AsmMontProofs

set_option linter.unusedSimpArgs false

namespace Jedi.A64
open Lean Meta Simp
open Jedi.Impl (val WF val_cons val_nil val_lt val_inj)
open Jedi.X86 (limbs limbs_six limbs_twelve limbs_length limbs_WF Hide Hide.mk Hide.out ea_toNat)

/-! ## Montgomery reduction: the pieces of one round at the Nat level -/

/-- `u = w0·inv mod 2^64` with `inv·P ≡ −1 (mod 2^64)` makes the low word of `w0 + u·p0` vanish -/
theorem mont_low {inv w0 p0 u lo : Word} {t : ArithRes} {P' : Nat}
    (hinv : (inv.toNat * (p0.toNat + 2 ^ 64 * P') + 1) % 2 ^ 64 = 0)
    (hu : u = mulLo w0 inv) (hlo : lo = mulLo u p0) (ht : t = addWithCarry w0 lo false) : t.val.toNat = 0 := by
  have hinv' : (inv.toNat * p0.toNat + 1) % 2 ^ 64 = 0 := by
    have : inv.toNat * (p0.toNat + 2 ^ 64 * P') + 1 = inv.toNat * p0.toNat + 1 + 2 ^ 64 * (inv.toNat * P') := by ring
    rw [this, Nat.add_mul_mod_self_left] at hinv; exact hinv
  have key := Jedi.Impl.mont_low_word (t0 := w0.toNat) hinv'
  subst hu hlo ht
  simp only [addWithCarry, mulLo, Bool.toNat_false, Nat.add_zero, BitVec.toNat_ofNat, Nat.mod_mod]
  rw [Nat.add_comm, Nat.mod_add_mod]
  exact key

section top
variable {x r mc : Word} {cf : Bool} {t m f sb : ArithRes}

/-- `adcs Xd, xzr, xzr`: the carry flag as a word -/
theorem carry_word {c : Bool} (hm : m = addWithCarry (0 : Word) (0 : Word) c) : m.val.toNat = c.toNat := by
  have e := awc_spec (0 : Word) (0 : Word) c; rw [← hm] at e
  have h0 : (0 : Word).toNat = 0 := rfl
  have := Bool.toNat_le c; have := Bool.toNat_le m.c; have := m.val.isLt
  rw [h0] at e
  omega

/-- `subs xzr, mc, #1` turns a 0/1 word back into the carry flag -/
theorem carry_flag (hsb : sb = addWithCarry mc (~~~1#64) true) (hmc : mc.toNat ≤ 1) : sb.c.toNat = mc.toNat := by
  subst hsb
  have h1 : (~~~(1#64 : Word)).toNat = 2 ^ 64 - 2 := by decide
  simp only [addWithCarry, h1, Bool.toNat_true]
  rcases Nat.le_one_iff_eq_zero_or_eq_one.1 hmc with h | h <;> rw [h] <;> decide

/-- round 0: the carry pair goes into the next word, the carry out becomes the meta-carry word -/
theorem mont_top_first (ht : t = addWithCarry x r cf) (hm : m = addWithCarry (0 : Word) (0 : Word) t.c) :
    t.val.toNat + 2 ^ 64 * m.val.toNat = x.toNat + (r.toNat + cf.toNat) ∧ m.val.toNat ≤ 1 := by
  have e1 := awc_spec x r cf; rw [← ht] at e1
  have e2 := carry_word hm
  have := Bool.toNat_le t.c
  omega

/-- rounds 1–4: fold the carry pair (`adcs r, r, xzr`), restore the meta-carry flag, add both into the next word,
save the new meta-carry -/
theorem mont_top_mid (hf : f = addWithCarry r (0 : Word) cf) (hsb : sb = addWithCarry mc (~~~1#64) true)
    (ht : t = addWithCarry x f.val sb.c) (hm : m = addWithCarry (0 : Word) (0 : Word) t.c)
    (hinv : r.toNat + cf.toNat ≤ 2 ^ 64 - 1) (hmc : mc.toNat ≤ 1) :
    t.val.toNat + 2 ^ 64 * m.val.toNat = x.toNat + (r.toNat + cf.toNat) + mc.toNat ∧ m.val.toNat ≤ 1 := by
  have e0 := rowend_spec hf hinv
  have e1 := carry_flag hsb hmc
  have e2 := awc_spec x f.val sb.c; rw [← ht] at e2
  have e3 := carry_word hm
  have := Bool.toNat_le t.c
  omega

/-- round 5: as before, but the carry out of the top word is not saved -/
theorem mont_top_last (hf : f = addWithCarry r (0 : Word) cf) (hsb : sb = addWithCarry mc (~~~1#64) true)
    (ht : t = addWithCarry x f.val sb.c) (hinv : r.toNat + cf.toNat ≤ 2 ^ 64 - 1) (hmc : mc.toNat ≤ 1) :
    t.val.toNat + 2 ^ 64 * t.c.toNat = x.toNat + (r.toNat + cf.toNat) + mc.toNat := by
  have e0 := rowend_spec hf hinv
  have e1 := carry_flag hsb hmc
  have e2 := awc_spec x f.val sb.c; rw [← ht] at e2
  omega

end top

/-! ## the final comparison with `P` -/

/-- `cmp x, y`: C ⇔ `y ≤ x`, Z ⇔ `x = y` -/
theorem cmp_c_iff (x y : Word) : (addWithCarry x (~~~y) true).c = true ↔ y.toNat ≤ x.toNat := by
  have := x.isLt; have := y.isLt
  simp only [addWithCarry, not_toNat, Bool.toNat_true, decide_eq_true_eq]
  omega
theorem cmp_z_iff (x y : Word) : (addWithCarry x (~~~y) true).z = true ↔ x.toNat = y.toNat := by
  have := x.isLt; have := y.isLt
  simp only [addWithCarry, not_toNat, Bool.toNat_true, beq_iff_eq]
  rw [← BitVec.toNat_inj]
  have h0 : BitVec.toNat (0 : BitVec 64) = 0 := rfl
  rw [h0, BitVec.toNat_ofNat]
  omega

/-- `b.hi` taken: `x > y` -/
theorem cmp_hi {x y : Word} {t : ArithRes} (ht : t = addWithCarry x (~~~y) true) (h : (t.c && !t.z) = true) :
    y.toNat < x.toNat := by
  subst ht
  simp only [Bool.and_eq_true, Bool.not_eq_true', ← Bool.not_eq_true, cmp_c_iff, cmp_z_iff] at h
  omega
/-- `b.lo` taken: `x < y` -/
theorem cmp_lo {x y : Word} {t : ArithRes} (ht : t = addWithCarry x (~~~y) true) (h : (!t.c) = true) :
    x.toNat < y.toNat := by
  subst ht
  simp only [Bool.not_eq_true', ← Bool.not_eq_true, cmp_c_iff] at h
  omega
/-- neither `b.hi` nor `b.lo` taken: `x = y` -/
theorem cmp_eq {x y : Word} {t : ArithRes} (ht : t = addWithCarry x (~~~y) true) (h1 : (t.c && !t.z) = false)
    (h2 : (!t.c) = false) : x.toNat = y.toNat := by
  subst ht
  have hc : (addWithCarry x (~~~y) true).c = true := by simpa using h2
  rw [hc] at h1
  have hz : (addWithCarry x (~~~y) true).z = true := by simpa using h1
  exact (cmp_z_iff x y).1 hz
/-- last word, `b.lo` not taken: `x ≥ y` -/
theorem cmp_hs {x y : Word} {t : ArithRes} (ht : t = addWithCarry x (~~~y) true) (h : (!t.c) = false) :
    y.toNat ≤ x.toNat := by
  subst ht
  have hc : (addWithCarry x (~~~y) true).c = true := by simpa using h
  exact (cmp_c_iff x y).1 hc

set_option exponentiation.threshold 800 in
/-- the final `subs`/`sbcs` chain does not borrow when `P ≤ R` -/
theorem sub_no_borrow {res P R b : Nat} (hs : res + P = R + 2 ^ 384 * b) (hle : P ≤ R) (hb : res < 2 ^ 384) :
    res + P = R := by
  rcases Nat.eq_zero_or_pos b with h0 | h0
  · subst h0; omega
  · have : 2 ^ 384 * 1 ≤ 2 ^ 384 * b := Nat.mul_le_mul_left _ h0
    omega

open Jedi.Gen.AsmA64

/-! ## `fpbase_384_montgomery_reduce`: symbolic execution, cut into pieces -/

set_option maxHeartbeats 1600000 in
theorem mont_part0 (s : State) (pr pt pp inv : Word)
    (hr : Buf s pr 6 true) (ht : Buf s pt 12 false) (hp : Buf s pp 6 false)
    (hstk : Stack s 4) (hrs : OffStack s 4 pr 6) (hts : OffStack s 4 pt 12) (hps : OffStack s 4 pp 6) {p0 p1 p2 p3 p4 p5 w0 w1 w2 w3 w4 w5 w6 w7 w8 w9 h15 h18 h23 h28 h33 h38 l13 l14 l17 l22 l27 l32 l37 w10 w11 : Word} {t16 t19 t20 t21 t24 t25 t26 t29 t30 t31 t34 t35 t36 t39 t40 t41 t42 t43 : ArithRes}
    (hst : s.status = .running) (hpc : s.pc = 0) (h0 : s.x0 = pr) (h1 : s.x1 = pt) (h2 : s.x2 = pp) (h3 : s.x3 = inv) (hp0 : p0 = s.mem pp.toNat) (hp1 : p1 = s.mem (pp.toNat + 8)) (hp2 : p2 = s.mem (pp.toNat + 16))
    (hp3 : p3 = s.mem (pp.toNat + 24)) (hp4 : p4 = s.mem (pp.toNat + 32)) (hp5 : p5 = s.mem (pp.toNat + 40))
    (hw0 : w0 = s.mem pt.toNat) (hw1 : w1 = s.mem (pt.toNat + 8)) (hw2 : w2 = s.mem (pt.toNat + 16))
    (hw3 : w3 = s.mem (pt.toNat + 24)) (hw4 : w4 = s.mem (pt.toNat + 32)) (hw5 : w5 = s.mem (pt.toNat + 40))
    (hw6 : w6 = s.mem (pt.toNat + 48)) (hw7 : w7 = s.mem (pt.toNat + 56)) (hw8 : w8 = s.mem (pt.toNat + 64))
    (hw9 : w9 = s.mem (pt.toNat + 72)) (hw10 : w10 = s.mem (pt.toNat + 80)) (hw11 : w11 = s.mem (pt.toNat + 88))
    (hl13 : l13 = mulLo w0 inv) (hl14 : l14 = mulLo l13 p0) (hh15 : h15 = mulHi l13 p0)
    (ht16 : t16 = addWithCarry w0 l14 false) (hl17 : l17 = mulLo l13 p1) (hh18 : h18 = mulHi l13 p1)
    (ht19 : t19 = addWithCarry w1 l17 t16.c) (ht20 : t20 = addWithCarry h18 (0 : Word) t19.c)
    (ht21 : t21 = addWithCarry t19.val h15 false) (hl22 : l22 = mulLo l13 p2) (hh23 : h23 = mulHi l13 p2)
    (ht24 : t24 = addWithCarry w2 l22 t21.c) (ht25 : t25 = addWithCarry h23 (0 : Word) t24.c)
    (ht26 : t26 = addWithCarry t24.val t20.val false) (hl27 : l27 = mulLo l13 p3) (hh28 : h28 = mulHi l13 p3)
    (ht29 : t29 = addWithCarry w3 l27 t26.c) (ht30 : t30 = addWithCarry h28 (0 : Word) t29.c)
    (ht31 : t31 = addWithCarry t29.val t25.val false) (hl32 : l32 = mulLo l13 p4) (hh33 : h33 = mulHi l13 p4)
    (ht34 : t34 = addWithCarry w4 l32 t31.c) (ht35 : t35 = addWithCarry h33 (0 : Word) t34.c)
    (ht36 : t36 = addWithCarry t34.val t30.val false) (hl37 : l37 = mulLo l13 p5) (hh38 : h38 = mulHi l13 p5)
    (ht39 : t39 = addWithCarry w5 l37 t36.c) (ht40 : t40 = addWithCarry h38 (0 : Word) t39.c)
    (ht41 : t41 = addWithCarry t39.val t35.val false) (ht42 : t42 = addWithCarry w6 t40.val t41.c)
    (ht43 : t43 = addWithCarry (0 : Word) (0 : Word) t42.c) :
    run embedded_pairing_core_arch_aarch64_fpbase_384_montgomery_reduce s 44
      = ({ x0 := pr, x1 := l13, x2 := t43.val, x3 := inv, x4 := t21.val, x5 := t26.val, x6 := t31.val, x7 := t36.val, x8 := s.x8, x9 := t41.val, x10 := t42.val, x11 := w7, x12 := w8, x13 := w9, x14 := w10, x15 := w11, x16 := s.x16, x17 := s.x17, x18 := s.x18, x19 := p0, x20 := p1, x21 := p2, x22 := p3, x23 := p4, x24 := p5, x25 := t35.val, x26 := l37, x27 := s.x27, x28 := s.x28, x29 := s.x29, x30 := s.x30, sp := s.sp - 16#64 - 16#64 - 16#64 - 16#64, nf := some t43.n, zf := some t43.z, cf := some t43.c, vf := some t43.v, mem := setMem (setMem (setMem (setMem (setMem (setMem (setMem (setMem (s.mem) (s.sp.toNat - 16) s.x19) (s.sp.toNat - 16 + 8) s.x20) (s.sp.toNat - 16 - 16) s.x21) (s.sp.toNat - 16 - 16 + 8) s.x22) (s.sp.toNat - 16 - 16 - 16) s.x23) (s.sp.toNat - 16 - 16 - 16 + 8) s.x24) (s.sp.toNat - 16 - 16 - 16 - 16) s.x25) (s.sp.toNat - 16 - 16 - 16 - 16 + 8) s.x26, readable := s.readable, writable := s.writable, pc := 44, status := .running } : State) := by
  obtain ⟨rt0, rt1, rt2, rt3, rt4, rt5, rt6, rt7, rt8, rt9, rt10, rt11⟩ := ht.r12
  obtain ⟨⟨alrt0, alrt1, alrt2, alrt3, alrt4, alrt5, alrt6, alrt7, alrt8, alrt9, alrt10, alrt11⟩, frt1, frt2, frt3, frt4, frt5, frt6, frt7, frt8, frt9, frt10, frt11⟩ := ht.addr12
  obtain ⟨rp0, rp1, rp2, rp3, rp4, rp5⟩ := hp.r6
  obtain ⟨⟨alrp0, alrp1, alrp2, alrp3, alrp4, alrp5⟩, frp1, frp2, frp3, frp4, frp5⟩ := hp.addr6
  obtain ⟨rr0, rr1, rr2, rr3, rr4, rr5⟩ := hr.r6
  obtain ⟨wr0, wr1, wr2, wr3, wr4, wr5⟩ := hr.w6
  obtain ⟨⟨alrr0, alrr1, alrr2, alrr3, alrr4, alrr5⟩, frr1, frr2, frr3, frr4, frr5⟩ := hr.addr6
  have als0 := hstk.aligned
  obtain ⟨room1, als1, alq1a, alq1b, sr1a, sr1b, sw1a, sw1b⟩ := hstk.f1 (by omega)
  obtain ⟨room2, als2, alq2a, alq2b, sr2a, sr2b, sw2a, sw2b⟩ := hstk.f2 (by omega)
  obtain ⟨room3, als3, alq3a, alq3b, sr3a, sr3b, sw3a, sw3b⟩ := hstk.f3 (by omega)
  obtain ⟨room4, als4, alq4a, alq4b, sr4a, sr4b, sw4a, sw4b⟩ := hstk.f4 (by omega)
  replace hrs := Hide.mk (And.intro room4 hrs); replace hts := Hide.mk (And.intro room4 hts)
  replace hps := Hide.mk (And.intro room4 hps)
  simp only [OffStack] at hrs hts hps
  clear ht hp hr hstk
  rw [State.eta s]
  a64_sym [hst, hpc, h0, h1, h2, h3, ← hp0, ← hp1, ← hp2, ← hp3, ← hp4, ← hp5, ← hw0, ← hw1, ← hw2, ← hw3, ← hw4, ← hw5, ← hw6, ← hw7, ← hw8, ← hw9, ← hw10, ← hw11, ← hl13, ← hl14, ← hh15, ← ht16, ← hl17, ← hh18, ← ht19, ← ht20, ← ht21, ← hl22, ← hh23, ← ht24, ← ht25, ← ht26, ← hl27, ← hh28, ← ht29, ← ht30, ← ht31, ← hl32, ← hh33, ← ht34, ← ht35, ← ht36, ← hl37, ← hh38, ← ht39, ← ht40, ← ht41, ← ht42, ← ht43]

set_option maxHeartbeats 1600000 in
theorem mont_part1 (s : State) (pr pt pp inv : Word)
    (hr : Buf s pr 6 true) (ht : Buf s pt 12 false) (hp : Buf s pp 6 false)
    (hstk : Stack s 4) (hrs : OffStack s 4 pr 6) (hts : OffStack s 4 pt 12) (hps : OffStack s 4 pp 6) {p0 p1 p2 p3 p4 p5 w7 w8 w9 h46 h49 h54 h59 h64 h69 l13 l37 l44 l45 l48 l53 l58 l63 l68 w10 w11 : Word} {t21 t26 t31 t35 t36 t41 t42 t43 t47 t50 t51 t52 t55 t56 t57 t60 t61 t62 t65 t66 t67 t70 t71 t72 t73 t74 t75 t76 : ArithRes}
    (hl44 : l44 = mulLo t21.val inv) (hl45 : l45 = mulLo l44 p0) (hh46 : h46 = mulHi l44 p0)
    (ht47 : t47 = addWithCarry t21.val l45 false) (hl48 : l48 = mulLo l44 p1) (hh49 : h49 = mulHi l44 p1)
    (ht50 : t50 = addWithCarry t26.val l48 t47.c) (ht51 : t51 = addWithCarry h49 (0 : Word) t50.c)
    (ht52 : t52 = addWithCarry t50.val h46 false) (hl53 : l53 = mulLo l44 p2) (hh54 : h54 = mulHi l44 p2)
    (ht55 : t55 = addWithCarry t31.val l53 t52.c) (ht56 : t56 = addWithCarry h54 (0 : Word) t55.c)
    (ht57 : t57 = addWithCarry t55.val t51.val false) (hl58 : l58 = mulLo l44 p3) (hh59 : h59 = mulHi l44 p3)
    (ht60 : t60 = addWithCarry t36.val l58 t57.c) (ht61 : t61 = addWithCarry h59 (0 : Word) t60.c)
    (ht62 : t62 = addWithCarry t60.val t56.val false) (hl63 : l63 = mulLo l44 p4) (hh64 : h64 = mulHi l44 p4)
    (ht65 : t65 = addWithCarry t41.val l63 t62.c) (ht66 : t66 = addWithCarry h64 (0 : Word) t65.c)
    (ht67 : t67 = addWithCarry t65.val t61.val false) (hl68 : l68 = mulLo l44 p5) (hh69 : h69 = mulHi l44 p5)
    (ht70 : t70 = addWithCarry t42.val l68 t67.c) (ht71 : t71 = addWithCarry h69 (0 : Word) t70.c)
    (ht72 : t72 = addWithCarry t70.val t66.val false) (ht73 : t73 = addWithCarry t71.val (0 : Word) t72.c)
    (ht74 : t74 = addWithCarry t43.val (~~~1#64) true) (ht75 : t75 = addWithCarry w7 t73.val t74.c)
    (ht76 : t76 = addWithCarry (0 : Word) (0 : Word) t75.c) :
    run embedded_pairing_core_arch_aarch64_fpbase_384_montgomery_reduce ({ x0 := pr, x1 := l13, x2 := t43.val, x3 := inv, x4 := t21.val, x5 := t26.val, x6 := t31.val, x7 := t36.val, x8 := s.x8, x9 := t41.val, x10 := t42.val, x11 := w7, x12 := w8, x13 := w9, x14 := w10, x15 := w11, x16 := s.x16, x17 := s.x17, x18 := s.x18, x19 := p0, x20 := p1, x21 := p2, x22 := p3, x23 := p4, x24 := p5, x25 := t35.val, x26 := l37, x27 := s.x27, x28 := s.x28, x29 := s.x29, x30 := s.x30, sp := s.sp - 16#64 - 16#64 - 16#64 - 16#64, nf := some t43.n, zf := some t43.z, cf := some t43.c, vf := some t43.v, mem := setMem (setMem (setMem (setMem (setMem (setMem (setMem (setMem (s.mem) (s.sp.toNat - 16) s.x19) (s.sp.toNat - 16 + 8) s.x20) (s.sp.toNat - 16 - 16) s.x21) (s.sp.toNat - 16 - 16 + 8) s.x22) (s.sp.toNat - 16 - 16 - 16) s.x23) (s.sp.toNat - 16 - 16 - 16 + 8) s.x24) (s.sp.toNat - 16 - 16 - 16 - 16) s.x25) (s.sp.toNat - 16 - 16 - 16 - 16 + 8) s.x26, readable := s.readable, writable := s.writable, pc := 44, status := .running } : State) 33
      = ({ x0 := pr, x1 := l44, x2 := t76.val, x3 := inv, x4 := t73.val, x5 := t52.val, x6 := t57.val, x7 := t62.val, x8 := s.x8, x9 := t67.val, x10 := t72.val, x11 := t75.val, x12 := w8, x13 := w9, x14 := w10, x15 := w11, x16 := s.x16, x17 := s.x17, x18 := s.x18, x19 := p0, x20 := p1, x21 := p2, x22 := p3, x23 := p4, x24 := p5, x25 := t66.val, x26 := l68, x27 := s.x27, x28 := s.x28, x29 := s.x29, x30 := s.x30, sp := s.sp - 16#64 - 16#64 - 16#64 - 16#64, nf := some t76.n, zf := some t76.z, cf := some t76.c, vf := some t76.v, mem := setMem (setMem (setMem (setMem (setMem (setMem (setMem (setMem (s.mem) (s.sp.toNat - 16) s.x19) (s.sp.toNat - 16 + 8) s.x20) (s.sp.toNat - 16 - 16) s.x21) (s.sp.toNat - 16 - 16 + 8) s.x22) (s.sp.toNat - 16 - 16 - 16) s.x23) (s.sp.toNat - 16 - 16 - 16 + 8) s.x24) (s.sp.toNat - 16 - 16 - 16 - 16) s.x25) (s.sp.toNat - 16 - 16 - 16 - 16 + 8) s.x26, readable := s.readable, writable := s.writable, pc := 77, status := .running } : State) := by
  obtain ⟨rt0, rt1, rt2, rt3, rt4, rt5, rt6, rt7, rt8, rt9, rt10, rt11⟩ := ht.r12
  obtain ⟨⟨alrt0, alrt1, alrt2, alrt3, alrt4, alrt5, alrt6, alrt7, alrt8, alrt9, alrt10, alrt11⟩, frt1, frt2, frt3, frt4, frt5, frt6, frt7, frt8, frt9, frt10, frt11⟩ := ht.addr12
  obtain ⟨rp0, rp1, rp2, rp3, rp4, rp5⟩ := hp.r6
  obtain ⟨⟨alrp0, alrp1, alrp2, alrp3, alrp4, alrp5⟩, frp1, frp2, frp3, frp4, frp5⟩ := hp.addr6
  obtain ⟨rr0, rr1, rr2, rr3, rr4, rr5⟩ := hr.r6
  obtain ⟨wr0, wr1, wr2, wr3, wr4, wr5⟩ := hr.w6
  obtain ⟨⟨alrr0, alrr1, alrr2, alrr3, alrr4, alrr5⟩, frr1, frr2, frr3, frr4, frr5⟩ := hr.addr6
  have als0 := hstk.aligned
  obtain ⟨room1, als1, alq1a, alq1b, sr1a, sr1b, sw1a, sw1b⟩ := hstk.f1 (by omega)
  obtain ⟨room2, als2, alq2a, alq2b, sr2a, sr2b, sw2a, sw2b⟩ := hstk.f2 (by omega)
  obtain ⟨room3, als3, alq3a, alq3b, sr3a, sr3b, sw3a, sw3b⟩ := hstk.f3 (by omega)
  obtain ⟨room4, als4, alq4a, alq4b, sr4a, sr4b, sw4a, sw4b⟩ := hstk.f4 (by omega)
  replace hrs := Hide.mk (And.intro room4 hrs); replace hts := Hide.mk (And.intro room4 hts)
  replace hps := Hide.mk (And.intro room4 hps)
  simp only [OffStack] at hrs hts hps
  clear ht hp hr hstk
  a64_sym [← hl44, ← hl45, ← hh46, ← ht47, ← hl48, ← hh49, ← ht50, ← ht51, ← ht52, ← hl53, ← hh54, ← ht55, ← ht56, ← ht57, ← hl58, ← hh59, ← ht60, ← ht61, ← ht62, ← hl63, ← hh64, ← ht65, ← ht66, ← ht67, ← hl68, ← hh69, ← ht70, ← ht71, ← ht72, ← ht73, ← ht74, ← ht75, ← ht76]

set_option maxHeartbeats 1600000 in
theorem mont_part2 (s : State) (pr pt pp inv : Word)
    (hr : Buf s pr 6 true) (ht : Buf s pt 12 false) (hp : Buf s pp 6 false)
    (hstk : Stack s 4) (hrs : OffStack s 4 pr 6) (hts : OffStack s 4 pt 12) (hps : OffStack s 4 pp 6) {p0 p1 p2 p3 p4 p5 w8 w9 h79 h82 h87 h92 h97 l44 l68 l77 l78 l81 l86 l91 l96 w10 w11 h102 l101 : Word} {t52 t57 t62 t66 t67 t72 t73 t75 t76 t80 t83 t84 t85 t88 t89 t90 t93 t94 t95 t98 t99 t100 t103 t104 t105 t106 t107 t108 t109 : ArithRes}
    (hl77 : l77 = mulLo t52.val inv) (hl78 : l78 = mulLo l77 p0) (hh79 : h79 = mulHi l77 p0)
    (ht80 : t80 = addWithCarry t52.val l78 false) (hl81 : l81 = mulLo l77 p1) (hh82 : h82 = mulHi l77 p1)
    (ht83 : t83 = addWithCarry t57.val l81 t80.c) (ht84 : t84 = addWithCarry h82 (0 : Word) t83.c)
    (ht85 : t85 = addWithCarry t83.val h79 false) (hl86 : l86 = mulLo l77 p2) (hh87 : h87 = mulHi l77 p2)
    (ht88 : t88 = addWithCarry t62.val l86 t85.c) (ht89 : t89 = addWithCarry h87 (0 : Word) t88.c)
    (ht90 : t90 = addWithCarry t88.val t84.val false) (hl91 : l91 = mulLo l77 p3) (hh92 : h92 = mulHi l77 p3)
    (ht93 : t93 = addWithCarry t67.val l91 t90.c) (ht94 : t94 = addWithCarry h92 (0 : Word) t93.c)
    (ht95 : t95 = addWithCarry t93.val t89.val false) (hl96 : l96 = mulLo l77 p4) (hh97 : h97 = mulHi l77 p4)
    (ht98 : t98 = addWithCarry t72.val l96 t95.c) (ht99 : t99 = addWithCarry h97 (0 : Word) t98.c)
    (ht100 : t100 = addWithCarry t98.val t94.val false) (hl101 : l101 = mulLo l77 p5) (hh102 : h102 = mulHi l77 p5)
    (ht103 : t103 = addWithCarry t75.val l101 t100.c) (ht104 : t104 = addWithCarry h102 (0 : Word) t103.c)
    (ht105 : t105 = addWithCarry t103.val t99.val false) (ht106 : t106 = addWithCarry t104.val (0 : Word) t105.c)
    (ht107 : t107 = addWithCarry t76.val (~~~1#64) true) (ht108 : t108 = addWithCarry w8 t106.val t107.c)
    (ht109 : t109 = addWithCarry (0 : Word) (0 : Word) t108.c) :
    run embedded_pairing_core_arch_aarch64_fpbase_384_montgomery_reduce ({ x0 := pr, x1 := l44, x2 := t76.val, x3 := inv, x4 := t73.val, x5 := t52.val, x6 := t57.val, x7 := t62.val, x8 := s.x8, x9 := t67.val, x10 := t72.val, x11 := t75.val, x12 := w8, x13 := w9, x14 := w10, x15 := w11, x16 := s.x16, x17 := s.x17, x18 := s.x18, x19 := p0, x20 := p1, x21 := p2, x22 := p3, x23 := p4, x24 := p5, x25 := t66.val, x26 := l68, x27 := s.x27, x28 := s.x28, x29 := s.x29, x30 := s.x30, sp := s.sp - 16#64 - 16#64 - 16#64 - 16#64, nf := some t76.n, zf := some t76.z, cf := some t76.c, vf := some t76.v, mem := setMem (setMem (setMem (setMem (setMem (setMem (setMem (setMem (s.mem) (s.sp.toNat - 16) s.x19) (s.sp.toNat - 16 + 8) s.x20) (s.sp.toNat - 16 - 16) s.x21) (s.sp.toNat - 16 - 16 + 8) s.x22) (s.sp.toNat - 16 - 16 - 16) s.x23) (s.sp.toNat - 16 - 16 - 16 + 8) s.x24) (s.sp.toNat - 16 - 16 - 16 - 16) s.x25) (s.sp.toNat - 16 - 16 - 16 - 16 + 8) s.x26, readable := s.readable, writable := s.writable, pc := 77, status := .running } : State) 33
      = ({ x0 := pr, x1 := l77, x2 := t109.val, x3 := inv, x4 := t73.val, x5 := t106.val, x6 := t85.val, x7 := t90.val, x8 := s.x8, x9 := t95.val, x10 := t100.val, x11 := t105.val, x12 := t108.val, x13 := w9, x14 := w10, x15 := w11, x16 := s.x16, x17 := s.x17, x18 := s.x18, x19 := p0, x20 := p1, x21 := p2, x22 := p3, x23 := p4, x24 := p5, x25 := t99.val, x26 := l101, x27 := s.x27, x28 := s.x28, x29 := s.x29, x30 := s.x30, sp := s.sp - 16#64 - 16#64 - 16#64 - 16#64, nf := some t109.n, zf := some t109.z, cf := some t109.c, vf := some t109.v, mem := setMem (setMem (setMem (setMem (setMem (setMem (setMem (setMem (s.mem) (s.sp.toNat - 16) s.x19) (s.sp.toNat - 16 + 8) s.x20) (s.sp.toNat - 16 - 16) s.x21) (s.sp.toNat - 16 - 16 + 8) s.x22) (s.sp.toNat - 16 - 16 - 16) s.x23) (s.sp.toNat - 16 - 16 - 16 + 8) s.x24) (s.sp.toNat - 16 - 16 - 16 - 16) s.x25) (s.sp.toNat - 16 - 16 - 16 - 16 + 8) s.x26, readable := s.readable, writable := s.writable, pc := 110, status := .running } : State) := by
  obtain ⟨rt0, rt1, rt2, rt3, rt4, rt5, rt6, rt7, rt8, rt9, rt10, rt11⟩ := ht.r12
  obtain ⟨⟨alrt0, alrt1, alrt2, alrt3, alrt4, alrt5, alrt6, alrt7, alrt8, alrt9, alrt10, alrt11⟩, frt1, frt2, frt3, frt4, frt5, frt6, frt7, frt8, frt9, frt10, frt11⟩ := ht.addr12
  obtain ⟨rp0, rp1, rp2, rp3, rp4, rp5⟩ := hp.r6
  obtain ⟨⟨alrp0, alrp1, alrp2, alrp3, alrp4, alrp5⟩, frp1, frp2, frp3, frp4, frp5⟩ := hp.addr6
  obtain ⟨rr0, rr1, rr2, rr3, rr4, rr5⟩ := hr.r6
  obtain ⟨wr0, wr1, wr2, wr3, wr4, wr5⟩ := hr.w6
  obtain ⟨⟨alrr0, alrr1, alrr2, alrr3, alrr4, alrr5⟩, frr1, frr2, frr3, frr4, frr5⟩ := hr.addr6
  have als0 := hstk.aligned
  obtain ⟨room1, als1, alq1a, alq1b, sr1a, sr1b, sw1a, sw1b⟩ := hstk.f1 (by omega)
  obtain ⟨room2, als2, alq2a, alq2b, sr2a, sr2b, sw2a, sw2b⟩ := hstk.f2 (by omega)
  obtain ⟨room3, als3, alq3a, alq3b, sr3a, sr3b, sw3a, sw3b⟩ := hstk.f3 (by omega)
  obtain ⟨room4, als4, alq4a, alq4b, sr4a, sr4b, sw4a, sw4b⟩ := hstk.f4 (by omega)
  replace hrs := Hide.mk (And.intro room4 hrs); replace hts := Hide.mk (And.intro room4 hts)
  replace hps := Hide.mk (And.intro room4 hps)
  simp only [OffStack] at hrs hts hps
  clear ht hp hr hstk
  a64_sym [← hl77, ← hl78, ← hh79, ← ht80, ← hl81, ← hh82, ← ht83, ← ht84, ← ht85, ← hl86, ← hh87, ← ht88, ← ht89, ← ht90, ← hl91, ← hh92, ← ht93, ← ht94, ← ht95, ← hl96, ← hh97, ← ht98, ← ht99, ← ht100, ← hl101, ← hh102, ← ht103, ← ht104, ← ht105, ← ht106, ← ht107, ← ht108, ← ht109]

set_option maxHeartbeats 1600000 in
theorem mont_part3 (s : State) (pr pt pp inv : Word)
    (hr : Buf s pr 6 true) (ht : Buf s pt 12 false) (hp : Buf s pp 6 false)
    (hstk : Stack s 4) (hrs : OffStack s 4 pr 6) (hts : OffStack s 4 pt 12) (hps : OffStack s 4 pp 6) {p0 p1 p2 p3 p4 p5 w9 l77 w10 w11 h112 h115 h120 h125 h130 h135 l101 l110 l111 l114 l119 l124 l129 l134 : Word} {t73 t85 t90 t95 t99 t100 t105 t106 t108 t109 t113 t116 t117 t118 t121 t122 t123 t126 t127 t128 t131 t132 t133 t136 t137 t138 t139 t140 t141 t142 : ArithRes}
    (hl110 : l110 = mulLo t85.val inv) (hl111 : l111 = mulLo l110 p0) (hh112 : h112 = mulHi l110 p0)
    (ht113 : t113 = addWithCarry t85.val l111 false) (hl114 : l114 = mulLo l110 p1) (hh115 : h115 = mulHi l110 p1)
    (ht116 : t116 = addWithCarry t90.val l114 t113.c) (ht117 : t117 = addWithCarry h115 (0 : Word) t116.c)
    (ht118 : t118 = addWithCarry t116.val h112 false) (hl119 : l119 = mulLo l110 p2) (hh120 : h120 = mulHi l110 p2)
    (ht121 : t121 = addWithCarry t95.val l119 t118.c) (ht122 : t122 = addWithCarry h120 (0 : Word) t121.c)
    (ht123 : t123 = addWithCarry t121.val t117.val false) (hl124 : l124 = mulLo l110 p3) (hh125 : h125 = mulHi l110 p3)
    (ht126 : t126 = addWithCarry t100.val l124 t123.c) (ht127 : t127 = addWithCarry h125 (0 : Word) t126.c)
    (ht128 : t128 = addWithCarry t126.val t122.val false) (hl129 : l129 = mulLo l110 p4) (hh130 : h130 = mulHi l110 p4)
    (ht131 : t131 = addWithCarry t105.val l129 t128.c) (ht132 : t132 = addWithCarry h130 (0 : Word) t131.c)
    (ht133 : t133 = addWithCarry t131.val t127.val false) (hl134 : l134 = mulLo l110 p5) (hh135 : h135 = mulHi l110 p5)
    (ht136 : t136 = addWithCarry t108.val l134 t133.c) (ht137 : t137 = addWithCarry h135 (0 : Word) t136.c)
    (ht138 : t138 = addWithCarry t136.val t132.val false) (ht139 : t139 = addWithCarry t137.val (0 : Word) t138.c)
    (ht140 : t140 = addWithCarry t109.val (~~~1#64) true) (ht141 : t141 = addWithCarry w9 t139.val t140.c)
    (ht142 : t142 = addWithCarry (0 : Word) (0 : Word) t141.c) :
    run embedded_pairing_core_arch_aarch64_fpbase_384_montgomery_reduce ({ x0 := pr, x1 := l77, x2 := t109.val, x3 := inv, x4 := t73.val, x5 := t106.val, x6 := t85.val, x7 := t90.val, x8 := s.x8, x9 := t95.val, x10 := t100.val, x11 := t105.val, x12 := t108.val, x13 := w9, x14 := w10, x15 := w11, x16 := s.x16, x17 := s.x17, x18 := s.x18, x19 := p0, x20 := p1, x21 := p2, x22 := p3, x23 := p4, x24 := p5, x25 := t99.val, x26 := l101, x27 := s.x27, x28 := s.x28, x29 := s.x29, x30 := s.x30, sp := s.sp - 16#64 - 16#64 - 16#64 - 16#64, nf := some t109.n, zf := some t109.z, cf := some t109.c, vf := some t109.v, mem := setMem (setMem (setMem (setMem (setMem (setMem (setMem (setMem (s.mem) (s.sp.toNat - 16) s.x19) (s.sp.toNat - 16 + 8) s.x20) (s.sp.toNat - 16 - 16) s.x21) (s.sp.toNat - 16 - 16 + 8) s.x22) (s.sp.toNat - 16 - 16 - 16) s.x23) (s.sp.toNat - 16 - 16 - 16 + 8) s.x24) (s.sp.toNat - 16 - 16 - 16 - 16) s.x25) (s.sp.toNat - 16 - 16 - 16 - 16 + 8) s.x26, readable := s.readable, writable := s.writable, pc := 110, status := .running } : State) 33
      = ({ x0 := pr, x1 := l110, x2 := t142.val, x3 := inv, x4 := t73.val, x5 := t106.val, x6 := t139.val, x7 := t118.val, x8 := s.x8, x9 := t123.val, x10 := t128.val, x11 := t133.val, x12 := t138.val, x13 := t141.val, x14 := w10, x15 := w11, x16 := s.x16, x17 := s.x17, x18 := s.x18, x19 := p0, x20 := p1, x21 := p2, x22 := p3, x23 := p4, x24 := p5, x25 := t132.val, x26 := l134, x27 := s.x27, x28 := s.x28, x29 := s.x29, x30 := s.x30, sp := s.sp - 16#64 - 16#64 - 16#64 - 16#64, nf := some t142.n, zf := some t142.z, cf := some t142.c, vf := some t142.v, mem := setMem (setMem (setMem (setMem (setMem (setMem (setMem (setMem (s.mem) (s.sp.toNat - 16) s.x19) (s.sp.toNat - 16 + 8) s.x20) (s.sp.toNat - 16 - 16) s.x21) (s.sp.toNat - 16 - 16 + 8) s.x22) (s.sp.toNat - 16 - 16 - 16) s.x23) (s.sp.toNat - 16 - 16 - 16 + 8) s.x24) (s.sp.toNat - 16 - 16 - 16 - 16) s.x25) (s.sp.toNat - 16 - 16 - 16 - 16 + 8) s.x26, readable := s.readable, writable := s.writable, pc := 143, status := .running } : State) := by
  obtain ⟨rt0, rt1, rt2, rt3, rt4, rt5, rt6, rt7, rt8, rt9, rt10, rt11⟩ := ht.r12
  obtain ⟨⟨alrt0, alrt1, alrt2, alrt3, alrt4, alrt5, alrt6, alrt7, alrt8, alrt9, alrt10, alrt11⟩, frt1, frt2, frt3, frt4, frt5, frt6, frt7, frt8, frt9, frt10, frt11⟩ := ht.addr12
  obtain ⟨rp0, rp1, rp2, rp3, rp4, rp5⟩ := hp.r6
  obtain ⟨⟨alrp0, alrp1, alrp2, alrp3, alrp4, alrp5⟩, frp1, frp2, frp3, frp4, frp5⟩ := hp.addr6
  obtain ⟨rr0, rr1, rr2, rr3, rr4, rr5⟩ := hr.r6
  obtain ⟨wr0, wr1, wr2, wr3, wr4, wr5⟩ := hr.w6
  obtain ⟨⟨alrr0, alrr1, alrr2, alrr3, alrr4, alrr5⟩, frr1, frr2, frr3, frr4, frr5⟩ := hr.addr6
  have als0 := hstk.aligned
  obtain ⟨room1, als1, alq1a, alq1b, sr1a, sr1b, sw1a, sw1b⟩ := hstk.f1 (by omega)
  obtain ⟨room2, als2, alq2a, alq2b, sr2a, sr2b, sw2a, sw2b⟩ := hstk.f2 (by omega)
  obtain ⟨room3, als3, alq3a, alq3b, sr3a, sr3b, sw3a, sw3b⟩ := hstk.f3 (by omega)
  obtain ⟨room4, als4, alq4a, alq4b, sr4a, sr4b, sw4a, sw4b⟩ := hstk.f4 (by omega)
  replace hrs := Hide.mk (And.intro room4 hrs); replace hts := Hide.mk (And.intro room4 hts)
  replace hps := Hide.mk (And.intro room4 hps)
  simp only [OffStack] at hrs hts hps
  clear ht hp hr hstk
  a64_sym [← hl110, ← hl111, ← hh112, ← ht113, ← hl114, ← hh115, ← ht116, ← ht117, ← ht118, ← hl119, ← hh120, ← ht121, ← ht122, ← ht123, ← hl124, ← hh125, ← ht126, ← ht127, ← ht128, ← hl129, ← hh130, ← ht131, ← ht132, ← ht133, ← hl134, ← hh135, ← ht136, ← ht137, ← ht138, ← ht139, ← ht140, ← ht141, ← ht142]

set_option maxHeartbeats 1600000 in
theorem mont_part4 (s : State) (pr pt pp inv : Word)
    (hr : Buf s pr 6 true) (ht : Buf s pt 12 false) (hp : Buf s pp 6 false)
    (hstk : Stack s 4) (hrs : OffStack s 4 pr 6) (hts : OffStack s 4 pt 12) (hps : OffStack s 4 pp 6) {p0 p1 p2 p3 p4 p5 w10 w11 h145 h148 h153 h158 h163 h168 l110 l134 l143 l144 l147 l152 l157 l162 l167 : Word} {t73 t106 t118 t123 t128 t132 t133 t138 t139 t141 t142 t146 t149 t150 t151 t154 t155 t156 t159 t160 t161 t164 t165 t166 t169 t170 t171 t172 t173 t174 t175 : ArithRes}
    (hl143 : l143 = mulLo t118.val inv) (hl144 : l144 = mulLo l143 p0) (hh145 : h145 = mulHi l143 p0)
    (ht146 : t146 = addWithCarry t118.val l144 false) (hl147 : l147 = mulLo l143 p1) (hh148 : h148 = mulHi l143 p1)
    (ht149 : t149 = addWithCarry t123.val l147 t146.c) (ht150 : t150 = addWithCarry h148 (0 : Word) t149.c)
    (ht151 : t151 = addWithCarry t149.val h145 false) (hl152 : l152 = mulLo l143 p2) (hh153 : h153 = mulHi l143 p2)
    (ht154 : t154 = addWithCarry t128.val l152 t151.c) (ht155 : t155 = addWithCarry h153 (0 : Word) t154.c)
    (ht156 : t156 = addWithCarry t154.val t150.val false) (hl157 : l157 = mulLo l143 p3) (hh158 : h158 = mulHi l143 p3)
    (ht159 : t159 = addWithCarry t133.val l157 t156.c) (ht160 : t160 = addWithCarry h158 (0 : Word) t159.c)
    (ht161 : t161 = addWithCarry t159.val t155.val false) (hl162 : l162 = mulLo l143 p4) (hh163 : h163 = mulHi l143 p4)
    (ht164 : t164 = addWithCarry t138.val l162 t161.c) (ht165 : t165 = addWithCarry h163 (0 : Word) t164.c)
    (ht166 : t166 = addWithCarry t164.val t160.val false) (hl167 : l167 = mulLo l143 p5) (hh168 : h168 = mulHi l143 p5)
    (ht169 : t169 = addWithCarry t141.val l167 t166.c) (ht170 : t170 = addWithCarry h168 (0 : Word) t169.c)
    (ht171 : t171 = addWithCarry t169.val t165.val false) (ht172 : t172 = addWithCarry t170.val (0 : Word) t171.c)
    (ht173 : t173 = addWithCarry t142.val (~~~1#64) true) (ht174 : t174 = addWithCarry w10 t172.val t173.c)
    (ht175 : t175 = addWithCarry (0 : Word) (0 : Word) t174.c) :
    run embedded_pairing_core_arch_aarch64_fpbase_384_montgomery_reduce ({ x0 := pr, x1 := l110, x2 := t142.val, x3 := inv, x4 := t73.val, x5 := t106.val, x6 := t139.val, x7 := t118.val, x8 := s.x8, x9 := t123.val, x10 := t128.val, x11 := t133.val, x12 := t138.val, x13 := t141.val, x14 := w10, x15 := w11, x16 := s.x16, x17 := s.x17, x18 := s.x18, x19 := p0, x20 := p1, x21 := p2, x22 := p3, x23 := p4, x24 := p5, x25 := t132.val, x26 := l134, x27 := s.x27, x28 := s.x28, x29 := s.x29, x30 := s.x30, sp := s.sp - 16#64 - 16#64 - 16#64 - 16#64, nf := some t142.n, zf := some t142.z, cf := some t142.c, vf := some t142.v, mem := setMem (setMem (setMem (setMem (setMem (setMem (setMem (setMem (s.mem) (s.sp.toNat - 16) s.x19) (s.sp.toNat - 16 + 8) s.x20) (s.sp.toNat - 16 - 16) s.x21) (s.sp.toNat - 16 - 16 + 8) s.x22) (s.sp.toNat - 16 - 16 - 16) s.x23) (s.sp.toNat - 16 - 16 - 16 + 8) s.x24) (s.sp.toNat - 16 - 16 - 16 - 16) s.x25) (s.sp.toNat - 16 - 16 - 16 - 16 + 8) s.x26, readable := s.readable, writable := s.writable, pc := 143, status := .running } : State) 33
      = ({ x0 := pr, x1 := l143, x2 := t175.val, x3 := inv, x4 := t73.val, x5 := t106.val, x6 := t139.val, x7 := t172.val, x8 := s.x8, x9 := t151.val, x10 := t156.val, x11 := t161.val, x12 := t166.val, x13 := t171.val, x14 := t174.val, x15 := w11, x16 := s.x16, x17 := s.x17, x18 := s.x18, x19 := p0, x20 := p1, x21 := p2, x22 := p3, x23 := p4, x24 := p5, x25 := t165.val, x26 := l167, x27 := s.x27, x28 := s.x28, x29 := s.x29, x30 := s.x30, sp := s.sp - 16#64 - 16#64 - 16#64 - 16#64, nf := some t175.n, zf := some t175.z, cf := some t175.c, vf := some t175.v, mem := setMem (setMem (setMem (setMem (setMem (setMem (setMem (setMem (s.mem) (s.sp.toNat - 16) s.x19) (s.sp.toNat - 16 + 8) s.x20) (s.sp.toNat - 16 - 16) s.x21) (s.sp.toNat - 16 - 16 + 8) s.x22) (s.sp.toNat - 16 - 16 - 16) s.x23) (s.sp.toNat - 16 - 16 - 16 + 8) s.x24) (s.sp.toNat - 16 - 16 - 16 - 16) s.x25) (s.sp.toNat - 16 - 16 - 16 - 16 + 8) s.x26, readable := s.readable, writable := s.writable, pc := 176, status := .running } : State) := by
  obtain ⟨rt0, rt1, rt2, rt3, rt4, rt5, rt6, rt7, rt8, rt9, rt10, rt11⟩ := ht.r12
  obtain ⟨⟨alrt0, alrt1, alrt2, alrt3, alrt4, alrt5, alrt6, alrt7, alrt8, alrt9, alrt10, alrt11⟩, frt1, frt2, frt3, frt4, frt5, frt6, frt7, frt8, frt9, frt10, frt11⟩ := ht.addr12
  obtain ⟨rp0, rp1, rp2, rp3, rp4, rp5⟩ := hp.r6
  obtain ⟨⟨alrp0, alrp1, alrp2, alrp3, alrp4, alrp5⟩, frp1, frp2, frp3, frp4, frp5⟩ := hp.addr6
  obtain ⟨rr0, rr1, rr2, rr3, rr4, rr5⟩ := hr.r6
  obtain ⟨wr0, wr1, wr2, wr3, wr4, wr5⟩ := hr.w6
  obtain ⟨⟨alrr0, alrr1, alrr2, alrr3, alrr4, alrr5⟩, frr1, frr2, frr3, frr4, frr5⟩ := hr.addr6
  have als0 := hstk.aligned
  obtain ⟨room1, als1, alq1a, alq1b, sr1a, sr1b, sw1a, sw1b⟩ := hstk.f1 (by omega)
  obtain ⟨room2, als2, alq2a, alq2b, sr2a, sr2b, sw2a, sw2b⟩ := hstk.f2 (by omega)
  obtain ⟨room3, als3, alq3a, alq3b, sr3a, sr3b, sw3a, sw3b⟩ := hstk.f3 (by omega)
  obtain ⟨room4, als4, alq4a, alq4b, sr4a, sr4b, sw4a, sw4b⟩ := hstk.f4 (by omega)
  replace hrs := Hide.mk (And.intro room4 hrs); replace hts := Hide.mk (And.intro room4 hts)
  replace hps := Hide.mk (And.intro room4 hps)
  simp only [OffStack] at hrs hts hps
  clear ht hp hr hstk
  a64_sym [← hl143, ← hl144, ← hh145, ← ht146, ← hl147, ← hh148, ← ht149, ← ht150, ← ht151, ← hl152, ← hh153, ← ht154, ← ht155, ← ht156, ← hl157, ← hh158, ← ht159, ← ht160, ← ht161, ← hl162, ← hh163, ← ht164, ← ht165, ← ht166, ← hl167, ← hh168, ← ht169, ← ht170, ← ht171, ← ht172, ← ht173, ← ht174, ← ht175]

set_option maxHeartbeats 1600000 in
theorem mont_part5 (s : State) (pr pt pp inv : Word)
    (hr : Buf s pr 6 true) (ht : Buf s pt 12 false) (hp : Buf s pp 6 false)
    (hstk : Stack s 4) (hrs : OffStack s 4 pr 6) (hts : OffStack s 4 pt 12) (hps : OffStack s 4 pp 6) {p0 p1 p2 p3 p4 p5 w11 h178 h181 h186 h191 h196 h201 l143 l167 l176 l177 l180 l185 l190 l195 l200 : Word} {t73 t106 t139 t151 t156 t161 t165 t166 t171 t172 t174 t175 t179 t182 t183 t184 t187 t188 t189 t192 t193 t194 t197 t198 t199 t202 t203 t204 t205 t206 t207 : ArithRes}
    (hl176 : l176 = mulLo t151.val inv) (hl177 : l177 = mulLo l176 p0) (hh178 : h178 = mulHi l176 p0)
    (ht179 : t179 = addWithCarry t151.val l177 false) (hl180 : l180 = mulLo l176 p1) (hh181 : h181 = mulHi l176 p1)
    (ht182 : t182 = addWithCarry t156.val l180 t179.c) (ht183 : t183 = addWithCarry h181 (0 : Word) t182.c)
    (ht184 : t184 = addWithCarry t182.val h178 false) (hl185 : l185 = mulLo l176 p2) (hh186 : h186 = mulHi l176 p2)
    (ht187 : t187 = addWithCarry t161.val l185 t184.c) (ht188 : t188 = addWithCarry h186 (0 : Word) t187.c)
    (ht189 : t189 = addWithCarry t187.val t183.val false) (hl190 : l190 = mulLo l176 p3) (hh191 : h191 = mulHi l176 p3)
    (ht192 : t192 = addWithCarry t166.val l190 t189.c) (ht193 : t193 = addWithCarry h191 (0 : Word) t192.c)
    (ht194 : t194 = addWithCarry t192.val t188.val false) (hl195 : l195 = mulLo l176 p4) (hh196 : h196 = mulHi l176 p4)
    (ht197 : t197 = addWithCarry t171.val l195 t194.c) (ht198 : t198 = addWithCarry h196 (0 : Word) t197.c)
    (ht199 : t199 = addWithCarry t197.val t193.val false) (hl200 : l200 = mulLo l176 p5) (hh201 : h201 = mulHi l176 p5)
    (ht202 : t202 = addWithCarry t174.val l200 t199.c) (ht203 : t203 = addWithCarry h201 (0 : Word) t202.c)
    (ht204 : t204 = addWithCarry t202.val t198.val false) (ht205 : t205 = addWithCarry t203.val (0 : Word) t204.c)
    (ht206 : t206 = addWithCarry t175.val (~~~1#64) true) (ht207 : t207 = addWithCarry w11 t205.val t206.c) :
    run embedded_pairing_core_arch_aarch64_fpbase_384_montgomery_reduce ({ x0 := pr, x1 := l143, x2 := t175.val, x3 := inv, x4 := t73.val, x5 := t106.val, x6 := t139.val, x7 := t172.val, x8 := s.x8, x9 := t151.val, x10 := t156.val, x11 := t161.val, x12 := t166.val, x13 := t171.val, x14 := t174.val, x15 := w11, x16 := s.x16, x17 := s.x17, x18 := s.x18, x19 := p0, x20 := p1, x21 := p2, x22 := p3, x23 := p4, x24 := p5, x25 := t165.val, x26 := l167, x27 := s.x27, x28 := s.x28, x29 := s.x29, x30 := s.x30, sp := s.sp - 16#64 - 16#64 - 16#64 - 16#64, nf := some t175.n, zf := some t175.z, cf := some t175.c, vf := some t175.v, mem := setMem (setMem (setMem (setMem (setMem (setMem (setMem (setMem (s.mem) (s.sp.toNat - 16) s.x19) (s.sp.toNat - 16 + 8) s.x20) (s.sp.toNat - 16 - 16) s.x21) (s.sp.toNat - 16 - 16 + 8) s.x22) (s.sp.toNat - 16 - 16 - 16) s.x23) (s.sp.toNat - 16 - 16 - 16 + 8) s.x24) (s.sp.toNat - 16 - 16 - 16 - 16) s.x25) (s.sp.toNat - 16 - 16 - 16 - 16 + 8) s.x26, readable := s.readable, writable := s.writable, pc := 176, status := .running } : State) 32
      = ({ x0 := pr, x1 := l176, x2 := t175.val, x3 := inv, x4 := t73.val, x5 := t106.val, x6 := t139.val, x7 := t172.val, x8 := s.x8, x9 := t205.val, x10 := t184.val, x11 := t189.val, x12 := t194.val, x13 := t199.val, x14 := t204.val, x15 := t207.val, x16 := s.x16, x17 := s.x17, x18 := s.x18, x19 := p0, x20 := p1, x21 := p2, x22 := p3, x23 := p4, x24 := p5, x25 := t198.val, x26 := l200, x27 := s.x27, x28 := s.x28, x29 := s.x29, x30 := s.x30, sp := s.sp - 16#64 - 16#64 - 16#64 - 16#64, nf := some t207.n, zf := some t207.z, cf := some t207.c, vf := some t207.v, mem := setMem (setMem (setMem (setMem (setMem (setMem (setMem (setMem (s.mem) (s.sp.toNat - 16) s.x19) (s.sp.toNat - 16 + 8) s.x20) (s.sp.toNat - 16 - 16) s.x21) (s.sp.toNat - 16 - 16 + 8) s.x22) (s.sp.toNat - 16 - 16 - 16) s.x23) (s.sp.toNat - 16 - 16 - 16 + 8) s.x24) (s.sp.toNat - 16 - 16 - 16 - 16) s.x25) (s.sp.toNat - 16 - 16 - 16 - 16 + 8) s.x26, readable := s.readable, writable := s.writable, pc := 208, status := .running } : State) := by
  obtain ⟨rt0, rt1, rt2, rt3, rt4, rt5, rt6, rt7, rt8, rt9, rt10, rt11⟩ := ht.r12
  obtain ⟨⟨alrt0, alrt1, alrt2, alrt3, alrt4, alrt5, alrt6, alrt7, alrt8, alrt9, alrt10, alrt11⟩, frt1, frt2, frt3, frt4, frt5, frt6, frt7, frt8, frt9, frt10, frt11⟩ := ht.addr12
  obtain ⟨rp0, rp1, rp2, rp3, rp4, rp5⟩ := hp.r6
  obtain ⟨⟨alrp0, alrp1, alrp2, alrp3, alrp4, alrp5⟩, frp1, frp2, frp3, frp4, frp5⟩ := hp.addr6
  obtain ⟨rr0, rr1, rr2, rr3, rr4, rr5⟩ := hr.r6
  obtain ⟨wr0, wr1, wr2, wr3, wr4, wr5⟩ := hr.w6
  obtain ⟨⟨alrr0, alrr1, alrr2, alrr3, alrr4, alrr5⟩, frr1, frr2, frr3, frr4, frr5⟩ := hr.addr6
  have als0 := hstk.aligned
  obtain ⟨room1, als1, alq1a, alq1b, sr1a, sr1b, sw1a, sw1b⟩ := hstk.f1 (by omega)
  obtain ⟨room2, als2, alq2a, alq2b, sr2a, sr2b, sw2a, sw2b⟩ := hstk.f2 (by omega)
  obtain ⟨room3, als3, alq3a, alq3b, sr3a, sr3b, sw3a, sw3b⟩ := hstk.f3 (by omega)
  obtain ⟨room4, als4, alq4a, alq4b, sr4a, sr4b, sw4a, sw4b⟩ := hstk.f4 (by omega)
  replace hrs := Hide.mk (And.intro room4 hrs); replace hts := Hide.mk (And.intro room4 hts)
  replace hps := Hide.mk (And.intro room4 hps)
  simp only [OffStack] at hrs hts hps
  clear ht hp hr hstk
  a64_sym [← hl176, ← hl177, ← hh178, ← ht179, ← hl180, ← hh181, ← ht182, ← ht183, ← ht184, ← hl185, ← hh186, ← ht187, ← ht188, ← ht189, ← hl190, ← hh191, ← ht192, ← ht193, ← ht194, ← hl195, ← hh196, ← ht197, ← ht198, ← ht199, ← hl200, ← hh201, ← ht202, ← ht203, ← ht204, ← ht205, ← ht206, ← ht207]

/-! ### the twelve endings -/

set_option maxHeartbeats 1600000 in
theorem mont_tail_hi5 (s : State) (pr pt pp inv : Word)
    (hr : Buf s pr 6 true) (ht : Buf s pt 12 false) (hp : Buf s pp 6 false)
    (hstk : Stack s 4) (hrs : OffStack s 4 pr 6) (hts : OffStack s 4 pt 12) (hps : OffStack s 4 pp 6) {p0 p1 p2 p3 p4 p5 l176 l200 : Word} {t73 t106 t139 t172 t175 t184 t189 t194 t198 t199 t204 t205 t207 t225 t226 t227 t228 t229 t230 : ArithRes}
    (ht208 : t208 = addWithCarry t207.val (~~~p5) true) (ht225 : t225 = addWithCarry t184.val (~~~p0) true)
    (ht226 : t226 = addWithCarry t189.val (~~~p1) t225.c) (ht227 : t227 = addWithCarry t194.val (~~~p2) t226.c)
    (ht228 : t228 = addWithCarry t199.val (~~~p3) t227.c) (ht229 : t229 = addWithCarry t204.val (~~~p4) t228.c)
    (ht230 : t230 = addWithCarry t207.val (~~~p5) t229.c) (hb209 : (t208.c && !t208.z) = true) :
    run embedded_pairing_core_arch_aarch64_fpbase_384_montgomery_reduce ({ x0 := pr, x1 := l176, x2 := t175.val, x3 := inv, x4 := t73.val, x5 := t106.val, x6 := t139.val, x7 := t172.val, x8 := s.x8, x9 := t205.val, x10 := t184.val, x11 := t189.val, x12 := t194.val, x13 := t199.val, x14 := t204.val, x15 := t207.val, x16 := s.x16, x17 := s.x17, x18 := s.x18, x19 := p0, x20 := p1, x21 := p2, x22 := p3, x23 := p4, x24 := p5, x25 := t198.val, x26 := l200, x27 := s.x27, x28 := s.x28, x29 := s.x29, x30 := s.x30, sp := s.sp - 16#64 - 16#64 - 16#64 - 16#64, nf := some t207.n, zf := some t207.z, cf := some t207.c, vf := some t207.v, mem := setMem (setMem (setMem (setMem (setMem (setMem (setMem (setMem (s.mem) (s.sp.toNat - 16) s.x19) (s.sp.toNat - 16 + 8) s.x20) (s.sp.toNat - 16 - 16) s.x21) (s.sp.toNat - 16 - 16 + 8) s.x22) (s.sp.toNat - 16 - 16 - 16) s.x23) (s.sp.toNat - 16 - 16 - 16 + 8) s.x24) (s.sp.toNat - 16 - 16 - 16 - 16) s.x25) (s.sp.toNat - 16 - 16 - 16 - 16 + 8) s.x26, readable := s.readable, writable := s.writable, pc := 208, status := .running } : State) 16
      = ({ x0 := pr + 48#64, x1 := l176, x2 := t175.val, x3 := inv, x4 := t73.val, x5 := t106.val, x6 := t139.val, x7 := t172.val, x8 := s.x8, x9 := t205.val, x10 := t225.val, x11 := t226.val, x12 := t227.val, x13 := t228.val, x14 := t229.val, x15 := t230.val, x16 := s.x16, x17 := s.x17, x18 := s.x18, x19 := s.x19, x20 := s.x20, x21 := s.x21, x22 := s.x22, x23 := s.x23, x24 := s.x24, x25 := s.x25, x26 := s.x26, x27 := s.x27, x28 := s.x28, x29 := s.x29, x30 := s.x30, sp := s.sp, nf := some t230.n, zf := some t230.z, cf := some t230.c, vf := some t230.v, mem := setMem (setMem (setMem (setMem (setMem (setMem (setMem (setMem (setMem (setMem (setMem (setMem (setMem (setMem (s.mem) (s.sp.toNat - 16) s.x19) (s.sp.toNat - 16 + 8) s.x20) (s.sp.toNat - 16 - 16) s.x21) (s.sp.toNat - 16 - 16 + 8) s.x22) (s.sp.toNat - 16 - 16 - 16) s.x23) (s.sp.toNat - 16 - 16 - 16 + 8) s.x24) (s.sp.toNat - 16 - 16 - 16 - 16) s.x25) (s.sp.toNat - 16 - 16 - 16 - 16 + 8) s.x26) pr.toNat t225.val) (pr.toNat + 8) t226.val) (pr.toNat + 16) t227.val) (pr.toNat + 24) t228.val) (pr.toNat + 32) t229.val) (pr.toNat + 40) t230.val, readable := s.readable, writable := s.writable, pc := s.x30.toNat, status := .halted } : State) := by
  obtain ⟨rt0, rt1, rt2, rt3, rt4, rt5, rt6, rt7, rt8, rt9, rt10, rt11⟩ := ht.r12
  obtain ⟨⟨alrt0, alrt1, alrt2, alrt3, alrt4, alrt5, alrt6, alrt7, alrt8, alrt9, alrt10, alrt11⟩, frt1, frt2, frt3, frt4, frt5, frt6, frt7, frt8, frt9, frt10, frt11⟩ := ht.addr12
  obtain ⟨rp0, rp1, rp2, rp3, rp4, rp5⟩ := hp.r6
  obtain ⟨⟨alrp0, alrp1, alrp2, alrp3, alrp4, alrp5⟩, frp1, frp2, frp3, frp4, frp5⟩ := hp.addr6
  obtain ⟨rr0, rr1, rr2, rr3, rr4, rr5⟩ := hr.r6
  obtain ⟨wr0, wr1, wr2, wr3, wr4, wr5⟩ := hr.w6
  obtain ⟨⟨alrr0, alrr1, alrr2, alrr3, alrr4, alrr5⟩, frr1, frr2, frr3, frr4, frr5⟩ := hr.addr6
  have als0 := hstk.aligned
  obtain ⟨room1, als1, alq1a, alq1b, sr1a, sr1b, sw1a, sw1b⟩ := hstk.f1 (by omega)
  obtain ⟨room2, als2, alq2a, alq2b, sr2a, sr2b, sw2a, sw2b⟩ := hstk.f2 (by omega)
  obtain ⟨room3, als3, alq3a, alq3b, sr3a, sr3b, sw3a, sw3b⟩ := hstk.f3 (by omega)
  obtain ⟨room4, als4, alq4a, alq4b, sr4a, sr4b, sw4a, sw4b⟩ := hstk.f4 (by omega)
  replace hrs := Hide.mk (And.intro room4 hrs); replace hts := Hide.mk (And.intro room4 hts)
  replace hps := Hide.mk (And.intro room4 hps)
  simp only [OffStack] at hrs hts hps
  clear ht hp hr hstk
  a64_sym [← ht208, ← ht225, ← ht226, ← ht227, ← ht228, ← ht229, ← ht230, hb209]

set_option maxHeartbeats 1600000 in
set_option exponentiation.threshold 800 in
theorem mont_end_hi5 (s : State) (pr pt pp inv : Word) {p0 p1 p2 p3 p4 p5 l176 l200 : Word} {t73 t106 t139 t172 t175 t184 t189 t194 t198 t199 t204 t205 t207 t225 t226 t227 t228 t229 t230 : ArithRes} {T U : Nat}
    (hr : Buf s pr 6 true) (ht : Buf s pt 12 false) (hp : Buf s pp 6 false)
    (hstk : Stack s 4) (hrs : OffStack s 4 pr 6) (hts : OffStack s 4 pt 12) (hps : OffStack s 4 pp 6)
    (ht208 : t208 = addWithCarry t207.val (~~~p5) true) (ht225 : t225 = addWithCarry t184.val (~~~p0) true)
    (ht226 : t226 = addWithCarry t189.val (~~~p1) t225.c) (ht227 : t227 = addWithCarry t194.val (~~~p2) t226.c)
    (ht228 : t228 = addWithCarry t199.val (~~~p3) t227.c) (ht229 : t229 = addWithCarry t204.val (~~~p4) t228.c)
    (ht230 : t230 = addWithCarry t207.val (~~~p5) t229.c) (hb209 : (t208.c && !t208.z) = true)
    (hR2 : val (2 ^ 64) [t184.val.toNat, t189.val.toNat, t194.val.toNat, t199.val.toNat, t204.val.toNat, t207.val.toNat] < 2 * val (2 ^ 64) [p0.toNat, p1.toNat, p2.toNat, p3.toNat, p4.toNat, p5.toNat])
    (hRe : 2 ^ 384 * val (2 ^ 64) [t184.val.toNat, t189.val.toNat, t194.val.toNat, t199.val.toNat, t204.val.toNat, t207.val.toNat] = T + U * val (2 ^ 64) [p0.toNat, p1.toNat, p2.toNat, p3.toNat, p4.toNat, p5.toNat]) :
    ∃ s', run embedded_pairing_core_arch_aarch64_fpbase_384_montgomery_reduce ({ x0 := pr, x1 := l176, x2 := t175.val, x3 := inv, x4 := t73.val, x5 := t106.val, x6 := t139.val, x7 := t172.val, x8 := s.x8, x9 := t205.val, x10 := t184.val, x11 := t189.val, x12 := t194.val, x13 := t199.val, x14 := t204.val, x15 := t207.val, x16 := s.x16, x17 := s.x17, x18 := s.x18, x19 := p0, x20 := p1, x21 := p2, x22 := p3, x23 := p4, x24 := p5, x25 := t198.val, x26 := l200, x27 := s.x27, x28 := s.x28, x29 := s.x29, x30 := s.x30, sp := s.sp - 16#64 - 16#64 - 16#64 - 16#64, nf := some t207.n, zf := some t207.z, cf := some t207.c, vf := some t207.v, mem := setMem (setMem (setMem (setMem (setMem (setMem (setMem (setMem (s.mem) (s.sp.toNat - 16) s.x19) (s.sp.toNat - 16 + 8) s.x20) (s.sp.toNat - 16 - 16) s.x21) (s.sp.toNat - 16 - 16 + 8) s.x22) (s.sp.toNat - 16 - 16 - 16) s.x23) (s.sp.toNat - 16 - 16 - 16 + 8) s.x24) (s.sp.toNat - 16 - 16 - 16 - 16) s.x25) (s.sp.toNat - 16 - 16 - 16 - 16 + 8) s.x26, readable := s.readable, writable := s.writable, pc := 208, status := .running } : State) 16 = s' ∧ Returned s s' ∧
      val (2 ^ 64) [(s'.mem pr.toNat).toNat, (s'.mem (pr.toNat + 8)).toNat, (s'.mem (pr.toNat + 16)).toNat, (s'.mem (pr.toNat + 24)).toNat, (s'.mem (pr.toNat + 32)).toNat, (s'.mem (pr.toNat + 40)).toNat] < val (2 ^ 64) [p0.toNat, p1.toNat, p2.toNat, p3.toNat, p4.toNat, p5.toNat] ∧
      (val (2 ^ 64) [(s'.mem pr.toNat).toNat, (s'.mem (pr.toNat + 8)).toNat, (s'.mem (pr.toNat + 16)).toNat, (s'.mem (pr.toNat + 24)).toNat, (s'.mem (pr.toNat + 32)).toNat, (s'.mem (pr.toNat + 40)).toNat] * 2 ^ 384) % val (2 ^ 64) [p0.toNat, p1.toNat, p2.toNat, p3.toNat, p4.toNat, p5.toNat] = T % val (2 ^ 64) [p0.toNat, p1.toNat, p2.toNat, p3.toNat, p4.toNat, p5.toNat] ∧
      (∀ k, ¬(pr.toNat ≤ k ∧ k < pr.toNat + 48) → ¬(s.sp.toNat - 64 ≤ k ∧ k < s.sp.toNat) → s'.mem k = s.mem k) := by
  have ir0 := (t184.val).isLt; have ip0 := (p0).isLt
  have ir1 := (t189.val).isLt; have ip1 := (p1).isLt
  have ir2 := (t194.val).isLt; have ip2 := (p2).isLt
  have ir3 := (t199.val).isLt; have ip3 := (p3).isLt
  have ir4 := (t204.val).isLt; have ip4 := (p4).isLt
  have ir5 := (t207.val).isLt; have ip5 := (p5).isLt
  have c5 := cmp_hi ht208 hb209
  have hle : val (2 ^ 64) [p0.toNat, p1.toNat, p2.toNat, p3.toNat, p4.toNat, p5.toNat] ≤ val (2 ^ 64) [t184.val.toNat, t189.val.toNat, t194.val.toNat, t199.val.toNat, t204.val.toNat, t207.val.toNat] := by
    simp only [val_cons, val_nil]
    clear * - c5 ir0 ip0 ir1 ip1 ir2 ip2 ir3 ip3 ir4 ip4 ir5 ip5
    omega
  have hs := sub6_val ht225 ht226 ht227 ht228 ht229 ht230
  simp only [Bool.not_true, Bool.toNat_false, Nat.add_zero] at hs
  have hres := X86.mont_result hR2 hRe (Or.inr (sub_no_borrow hs hle (X86.val6_lt t225.val t226.val t227.val t228.val t229.val t230.val)))
  have hq := mont_tail_hi5 s pr pt pp inv hr ht hp hstk hrs hts hps (t73 := t73) (t106 := t106) (t139 := t139) (t172 := t172) (t175 := t175) (t184 := t184) (t189 := t189) (t194 := t194) (t198 := t198) (t199 := t199) (t204 := t204) (t205 := t205) (t207 := t207) (t225 := t225) (t226 := t226) (t227 := t227) (t228 := t228) (t229 := t229) (t230 := t230) (p0 := p0) (p1 := p1) (p2 := p2) (p3 := p3) (p4 := p4) (p5 := p5) (l176 := l176) (l200 := l200) ht208 ht225 ht226 ht227 ht228 ht229 ht230 hb209
  obtain ⟨rr0, rr1, rr2, rr3, rr4, rr5⟩ := hr.r6
  obtain ⟨⟨alrr0, alrr1, alrr2, alrr3, alrr4, alrr5⟩, frr1, frr2, frr3, frr4, frr5⟩ := hr.addr6
  have room4 := (hstk.f4 (by omega)).1
  replace hrs := Hide.mk (And.intro room4 hrs)
  simp only [OffStack] at hrs
  refine ⟨_, hq, ⟨rfl, rfl, rfl, rfl, rfl, rfl, rfl, rfl, rfl, rfl, rfl, rfl, rfl, rfl, rfl⟩, ?_, ?_, ?_⟩
  · simp only; a64_mem; exact hres.1
  · simp only; a64_mem; exact hres.2
  · intro k hk1 hk2
    simp (disch := (clear * - hk1 hk2 room4; omega)) only [setMem_ne]

set_option maxHeartbeats 1600000 in
theorem mont_tail_lo5 (s : State) (pr pt pp inv : Word)
    (hr : Buf s pr 6 true) (ht : Buf s pt 12 false) (hp : Buf s pp 6 false)
    (hstk : Stack s 4) (hrs : OffStack s 4 pr 6) (hts : OffStack s 4 pt 12) (hps : OffStack s 4 pp 6) {p0 p1 p2 p3 p4 p5 l176 l200 : Word} {t73 t106 t139 t172 t175 t184 t189 t194 t198 t199 t204 t205 t207 t208 : ArithRes}
    (ht208 : t208 = addWithCarry t207.val (~~~p5) true) (hb209 : (t208.c && !t208.z) = false) (hb210 : (!t208.c) = true) :
    run embedded_pairing_core_arch_aarch64_fpbase_384_montgomery_reduce ({ x0 := pr, x1 := l176, x2 := t175.val, x3 := inv, x4 := t73.val, x5 := t106.val, x6 := t139.val, x7 := t172.val, x8 := s.x8, x9 := t205.val, x10 := t184.val, x11 := t189.val, x12 := t194.val, x13 := t199.val, x14 := t204.val, x15 := t207.val, x16 := s.x16, x17 := s.x17, x18 := s.x18, x19 := p0, x20 := p1, x21 := p2, x22 := p3, x23 := p4, x24 := p5, x25 := t198.val, x26 := l200, x27 := s.x27, x28 := s.x28, x29 := s.x29, x30 := s.x30, sp := s.sp - 16#64 - 16#64 - 16#64 - 16#64, nf := some t207.n, zf := some t207.z, cf := some t207.c, vf := some t207.v, mem := setMem (setMem (setMem (setMem (setMem (setMem (setMem (setMem (s.mem) (s.sp.toNat - 16) s.x19) (s.sp.toNat - 16 + 8) s.x20) (s.sp.toNat - 16 - 16) s.x21) (s.sp.toNat - 16 - 16 + 8) s.x22) (s.sp.toNat - 16 - 16 - 16) s.x23) (s.sp.toNat - 16 - 16 - 16 + 8) s.x24) (s.sp.toNat - 16 - 16 - 16 - 16) s.x25) (s.sp.toNat - 16 - 16 - 16 - 16 + 8) s.x26, readable := s.readable, writable := s.writable, pc := 208, status := .running } : State) 11
      = ({ x0 := pr + 48#64, x1 := l176, x2 := t175.val, x3 := inv, x4 := t73.val, x5 := t106.val, x6 := t139.val, x7 := t172.val, x8 := s.x8, x9 := t205.val, x10 := t184.val, x11 := t189.val, x12 := t194.val, x13 := t199.val, x14 := t204.val, x15 := t207.val, x16 := s.x16, x17 := s.x17, x18 := s.x18, x19 := s.x19, x20 := s.x20, x21 := s.x21, x22 := s.x22, x23 := s.x23, x24 := s.x24, x25 := s.x25, x26 := s.x26, x27 := s.x27, x28 := s.x28, x29 := s.x29, x30 := s.x30, sp := s.sp, nf := some t208.n, zf := some t208.z, cf := some t208.c, vf := some t208.v, mem := setMem (setMem (setMem (setMem (setMem (setMem (setMem (setMem (setMem (setMem (setMem (setMem (setMem (setMem (s.mem) (s.sp.toNat - 16) s.x19) (s.sp.toNat - 16 + 8) s.x20) (s.sp.toNat - 16 - 16) s.x21) (s.sp.toNat - 16 - 16 + 8) s.x22) (s.sp.toNat - 16 - 16 - 16) s.x23) (s.sp.toNat - 16 - 16 - 16 + 8) s.x24) (s.sp.toNat - 16 - 16 - 16 - 16) s.x25) (s.sp.toNat - 16 - 16 - 16 - 16 + 8) s.x26) pr.toNat t184.val) (pr.toNat + 8) t189.val) (pr.toNat + 16) t194.val) (pr.toNat + 24) t199.val) (pr.toNat + 32) t204.val) (pr.toNat + 40) t207.val, readable := s.readable, writable := s.writable, pc := s.x30.toNat, status := .halted } : State) := by
  obtain ⟨rt0, rt1, rt2, rt3, rt4, rt5, rt6, rt7, rt8, rt9, rt10, rt11⟩ := ht.r12
  obtain ⟨⟨alrt0, alrt1, alrt2, alrt3, alrt4, alrt5, alrt6, alrt7, alrt8, alrt9, alrt10, alrt11⟩, frt1, frt2, frt3, frt4, frt5, frt6, frt7, frt8, frt9, frt10, frt11⟩ := ht.addr12
  obtain ⟨rp0, rp1, rp2, rp3, rp4, rp5⟩ := hp.r6
  obtain ⟨⟨alrp0, alrp1, alrp2, alrp3, alrp4, alrp5⟩, frp1, frp2, frp3, frp4, frp5⟩ := hp.addr6
  obtain ⟨rr0, rr1, rr2, rr3, rr4, rr5⟩ := hr.r6
  obtain ⟨wr0, wr1, wr2, wr3, wr4, wr5⟩ := hr.w6
  obtain ⟨⟨alrr0, alrr1, alrr2, alrr3, alrr4, alrr5⟩, frr1, frr2, frr3, frr4, frr5⟩ := hr.addr6
  have als0 := hstk.aligned
  obtain ⟨room1, als1, alq1a, alq1b, sr1a, sr1b, sw1a, sw1b⟩ := hstk.f1 (by omega)
  obtain ⟨room2, als2, alq2a, alq2b, sr2a, sr2b, sw2a, sw2b⟩ := hstk.f2 (by omega)
  obtain ⟨room3, als3, alq3a, alq3b, sr3a, sr3b, sw3a, sw3b⟩ := hstk.f3 (by omega)
  obtain ⟨room4, als4, alq4a, alq4b, sr4a, sr4b, sw4a, sw4b⟩ := hstk.f4 (by omega)
  replace hrs := Hide.mk (And.intro room4 hrs); replace hts := Hide.mk (And.intro room4 hts)
  replace hps := Hide.mk (And.intro room4 hps)
  simp only [OffStack] at hrs hts hps
  clear ht hp hr hstk
  a64_sym [← ht208, hb209, hb210]

set_option maxHeartbeats 1600000 in
set_option exponentiation.threshold 800 in
theorem mont_end_lo5 (s : State) (pr pt pp inv : Word) {p0 p1 p2 p3 p4 p5 l176 l200 : Word} {t73 t106 t139 t172 t175 t184 t189 t194 t198 t199 t204 t205 t207 t208 : ArithRes} {T U : Nat}
    (hr : Buf s pr 6 true) (ht : Buf s pt 12 false) (hp : Buf s pp 6 false)
    (hstk : Stack s 4) (hrs : OffStack s 4 pr 6) (hts : OffStack s 4 pt 12) (hps : OffStack s 4 pp 6)
    (ht208 : t208 = addWithCarry t207.val (~~~p5) true) (hb209 : (t208.c && !t208.z) = false) (hb210 : (!t208.c) = true)
    (hR2 : val (2 ^ 64) [t184.val.toNat, t189.val.toNat, t194.val.toNat, t199.val.toNat, t204.val.toNat, t207.val.toNat] < 2 * val (2 ^ 64) [p0.toNat, p1.toNat, p2.toNat, p3.toNat, p4.toNat, p5.toNat])
    (hRe : 2 ^ 384 * val (2 ^ 64) [t184.val.toNat, t189.val.toNat, t194.val.toNat, t199.val.toNat, t204.val.toNat, t207.val.toNat] = T + U * val (2 ^ 64) [p0.toNat, p1.toNat, p2.toNat, p3.toNat, p4.toNat, p5.toNat]) :
    ∃ s', run embedded_pairing_core_arch_aarch64_fpbase_384_montgomery_reduce ({ x0 := pr, x1 := l176, x2 := t175.val, x3 := inv, x4 := t73.val, x5 := t106.val, x6 := t139.val, x7 := t172.val, x8 := s.x8, x9 := t205.val, x10 := t184.val, x11 := t189.val, x12 := t194.val, x13 := t199.val, x14 := t204.val, x15 := t207.val, x16 := s.x16, x17 := s.x17, x18 := s.x18, x19 := p0, x20 := p1, x21 := p2, x22 := p3, x23 := p4, x24 := p5, x25 := t198.val, x26 := l200, x27 := s.x27, x28 := s.x28, x29 := s.x29, x30 := s.x30, sp := s.sp - 16#64 - 16#64 - 16#64 - 16#64, nf := some t207.n, zf := some t207.z, cf := some t207.c, vf := some t207.v, mem := setMem (setMem (setMem (setMem (setMem (setMem (setMem (setMem (s.mem) (s.sp.toNat - 16) s.x19) (s.sp.toNat - 16 + 8) s.x20) (s.sp.toNat - 16 - 16) s.x21) (s.sp.toNat - 16 - 16 + 8) s.x22) (s.sp.toNat - 16 - 16 - 16) s.x23) (s.sp.toNat - 16 - 16 - 16 + 8) s.x24) (s.sp.toNat - 16 - 16 - 16 - 16) s.x25) (s.sp.toNat - 16 - 16 - 16 - 16 + 8) s.x26, readable := s.readable, writable := s.writable, pc := 208, status := .running } : State) 11 = s' ∧ Returned s s' ∧
      val (2 ^ 64) [(s'.mem pr.toNat).toNat, (s'.mem (pr.toNat + 8)).toNat, (s'.mem (pr.toNat + 16)).toNat, (s'.mem (pr.toNat + 24)).toNat, (s'.mem (pr.toNat + 32)).toNat, (s'.mem (pr.toNat + 40)).toNat] < val (2 ^ 64) [p0.toNat, p1.toNat, p2.toNat, p3.toNat, p4.toNat, p5.toNat] ∧
      (val (2 ^ 64) [(s'.mem pr.toNat).toNat, (s'.mem (pr.toNat + 8)).toNat, (s'.mem (pr.toNat + 16)).toNat, (s'.mem (pr.toNat + 24)).toNat, (s'.mem (pr.toNat + 32)).toNat, (s'.mem (pr.toNat + 40)).toNat] * 2 ^ 384) % val (2 ^ 64) [p0.toNat, p1.toNat, p2.toNat, p3.toNat, p4.toNat, p5.toNat] = T % val (2 ^ 64) [p0.toNat, p1.toNat, p2.toNat, p3.toNat, p4.toNat, p5.toNat] ∧
      (∀ k, ¬(pr.toNat ≤ k ∧ k < pr.toNat + 48) → ¬(s.sp.toNat - 64 ≤ k ∧ k < s.sp.toNat) → s'.mem k = s.mem k) := by
  have ir0 := (t184.val).isLt; have ip0 := (p0).isLt
  have ir1 := (t189.val).isLt; have ip1 := (p1).isLt
  have ir2 := (t194.val).isLt; have ip2 := (p2).isLt
  have ir3 := (t199.val).isLt; have ip3 := (p3).isLt
  have ir4 := (t204.val).isLt; have ip4 := (p4).isLt
  have ir5 := (t207.val).isLt; have ip5 := (p5).isLt
  have c5 := cmp_lo ht208 hb210
  have hlt : val (2 ^ 64) [t184.val.toNat, t189.val.toNat, t194.val.toNat, t199.val.toNat, t204.val.toNat, t207.val.toNat] < val (2 ^ 64) [p0.toNat, p1.toNat, p2.toNat, p3.toNat, p4.toNat, p5.toNat] := by
    simp only [val_cons, val_nil]
    clear * - c5 ir0 ip0 ir1 ip1 ir2 ip2 ir3 ip3 ir4 ip4 ir5 ip5
    omega
  have hres := X86.mont_result hR2 hRe (Or.inl ⟨rfl, hlt⟩)
  have hq := mont_tail_lo5 s pr pt pp inv hr ht hp hstk hrs hts hps (t73 := t73) (t106 := t106) (t139 := t139) (t172 := t172) (t175 := t175) (t184 := t184) (t189 := t189) (t194 := t194) (t198 := t198) (t199 := t199) (t204 := t204) (t205 := t205) (t207 := t207) (t208 := t208) (p0 := p0) (p1 := p1) (p2 := p2) (p3 := p3) (p4 := p4) (p5 := p5) (l176 := l176) (l200 := l200) ht208 hb209 hb210
  obtain ⟨rr0, rr1, rr2, rr3, rr4, rr5⟩ := hr.r6
  obtain ⟨⟨alrr0, alrr1, alrr2, alrr3, alrr4, alrr5⟩, frr1, frr2, frr3, frr4, frr5⟩ := hr.addr6
  have room4 := (hstk.f4 (by omega)).1
  replace hrs := Hide.mk (And.intro room4 hrs)
  simp only [OffStack] at hrs
  refine ⟨_, hq, ⟨rfl, rfl, rfl, rfl, rfl, rfl, rfl, rfl, rfl, rfl, rfl, rfl, rfl, rfl, rfl⟩, ?_, ?_, ?_⟩
  · simp only; a64_mem; exact hres.1
  · simp only; a64_mem; exact hres.2
  · intro k hk1 hk2
    simp (disch := (clear * - hk1 hk2 room4; omega)) only [setMem_ne]

set_option maxHeartbeats 1600000 in
theorem mont_tail_hi4 (s : State) (pr pt pp inv : Word)
    (hr : Buf s pr 6 true) (ht : Buf s pt 12 false) (hp : Buf s pp 6 false)
    (hstk : Stack s 4) (hrs : OffStack s 4 pr 6) (hts : OffStack s 4 pt 12) (hps : OffStack s 4 pp 6) {p0 p1 p2 p3 p4 p5 l176 l200 : Word} {t73 t106 t139 t172 t175 t184 t189 t194 t198 t199 t204 t205 t207 t225 t226 t227 t228 t229 t230 : ArithRes}
    (ht208 : t208 = addWithCarry t207.val (~~~p5) true) (ht211 : t211 = addWithCarry t204.val (~~~p4) true)
    (ht225 : t225 = addWithCarry t184.val (~~~p0) true) (ht226 : t226 = addWithCarry t189.val (~~~p1) t225.c)
    (ht227 : t227 = addWithCarry t194.val (~~~p2) t226.c) (ht228 : t228 = addWithCarry t199.val (~~~p3) t227.c)
    (ht229 : t229 = addWithCarry t204.val (~~~p4) t228.c) (ht230 : t230 = addWithCarry t207.val (~~~p5) t229.c)
    (hb209 : (t208.c && !t208.z) = false) (hb210 : (!t208.c) = false) (hb212 : (t211.c && !t211.z) = true) :
    run embedded_pairing_core_arch_aarch64_fpbase_384_montgomery_reduce ({ x0 := pr, x1 := l176, x2 := t175.val, x3 := inv, x4 := t73.val, x5 := t106.val, x6 := t139.val, x7 := t172.val, x8 := s.x8, x9 := t205.val, x10 := t184.val, x11 := t189.val, x12 := t194.val, x13 := t199.val, x14 := t204.val, x15 := t207.val, x16 := s.x16, x17 := s.x17, x18 := s.x18, x19 := p0, x20 := p1, x21 := p2, x22 := p3, x23 := p4, x24 := p5, x25 := t198.val, x26 := l200, x27 := s.x27, x28 := s.x28, x29 := s.x29, x30 := s.x30, sp := s.sp - 16#64 - 16#64 - 16#64 - 16#64, nf := some t207.n, zf := some t207.z, cf := some t207.c, vf := some t207.v, mem := setMem (setMem (setMem (setMem (setMem (setMem (setMem (setMem (s.mem) (s.sp.toNat - 16) s.x19) (s.sp.toNat - 16 + 8) s.x20) (s.sp.toNat - 16 - 16) s.x21) (s.sp.toNat - 16 - 16 + 8) s.x22) (s.sp.toNat - 16 - 16 - 16) s.x23) (s.sp.toNat - 16 - 16 - 16 + 8) s.x24) (s.sp.toNat - 16 - 16 - 16 - 16) s.x25) (s.sp.toNat - 16 - 16 - 16 - 16 + 8) s.x26, readable := s.readable, writable := s.writable, pc := 208, status := .running } : State) 19
      = ({ x0 := pr + 48#64, x1 := l176, x2 := t175.val, x3 := inv, x4 := t73.val, x5 := t106.val, x6 := t139.val, x7 := t172.val, x8 := s.x8, x9 := t205.val, x10 := t225.val, x11 := t226.val, x12 := t227.val, x13 := t228.val, x14 := t229.val, x15 := t230.val, x16 := s.x16, x17 := s.x17, x18 := s.x18, x19 := s.x19, x20 := s.x20, x21 := s.x21, x22 := s.x22, x23 := s.x23, x24 := s.x24, x25 := s.x25, x26 := s.x26, x27 := s.x27, x28 := s.x28, x29 := s.x29, x30 := s.x30, sp := s.sp, nf := some t230.n, zf := some t230.z, cf := some t230.c, vf := some t230.v, mem := setMem (setMem (setMem (setMem (setMem (setMem (setMem (setMem (setMem (setMem (setMem (setMem (setMem (setMem (s.mem) (s.sp.toNat - 16) s.x19) (s.sp.toNat - 16 + 8) s.x20) (s.sp.toNat - 16 - 16) s.x21) (s.sp.toNat - 16 - 16 + 8) s.x22) (s.sp.toNat - 16 - 16 - 16) s.x23) (s.sp.toNat - 16 - 16 - 16 + 8) s.x24) (s.sp.toNat - 16 - 16 - 16 - 16) s.x25) (s.sp.toNat - 16 - 16 - 16 - 16 + 8) s.x26) pr.toNat t225.val) (pr.toNat + 8) t226.val) (pr.toNat + 16) t227.val) (pr.toNat + 24) t228.val) (pr.toNat + 32) t229.val) (pr.toNat + 40) t230.val, readable := s.readable, writable := s.writable, pc := s.x30.toNat, status := .halted } : State) := by
  obtain ⟨rt0, rt1, rt2, rt3, rt4, rt5, rt6, rt7, rt8, rt9, rt10, rt11⟩ := ht.r12
  obtain ⟨⟨alrt0, alrt1, alrt2, alrt3, alrt4, alrt5, alrt6, alrt7, alrt8, alrt9, alrt10, alrt11⟩, frt1, frt2, frt3, frt4, frt5, frt6, frt7, frt8, frt9, frt10, frt11⟩ := ht.addr12
  obtain ⟨rp0, rp1, rp2, rp3, rp4, rp5⟩ := hp.r6
  obtain ⟨⟨alrp0, alrp1, alrp2, alrp3, alrp4, alrp5⟩, frp1, frp2, frp3, frp4, frp5⟩ := hp.addr6
  obtain ⟨rr0, rr1, rr2, rr3, rr4, rr5⟩ := hr.r6
  obtain ⟨wr0, wr1, wr2, wr3, wr4, wr5⟩ := hr.w6
  obtain ⟨⟨alrr0, alrr1, alrr2, alrr3, alrr4, alrr5⟩, frr1, frr2, frr3, frr4, frr5⟩ := hr.addr6
  have als0 := hstk.aligned
  obtain ⟨room1, als1, alq1a, alq1b, sr1a, sr1b, sw1a, sw1b⟩ := hstk.f1 (by omega)
  obtain ⟨room2, als2, alq2a, alq2b, sr2a, sr2b, sw2a, sw2b⟩ := hstk.f2 (by omega)
  obtain ⟨room3, als3, alq3a, alq3b, sr3a, sr3b, sw3a, sw3b⟩ := hstk.f3 (by omega)
  obtain ⟨room4, als4, alq4a, alq4b, sr4a, sr4b, sw4a, sw4b⟩ := hstk.f4 (by omega)
  replace hrs := Hide.mk (And.intro room4 hrs); replace hts := Hide.mk (And.intro room4 hts)
  replace hps := Hide.mk (And.intro room4 hps)
  simp only [OffStack] at hrs hts hps
  clear ht hp hr hstk
  a64_sym [← ht208, ← ht211, ← ht225, ← ht226, ← ht227, ← ht228, ← ht229, ← ht230, hb209, hb210, hb212]

set_option maxHeartbeats 1600000 in
set_option exponentiation.threshold 800 in
theorem mont_end_hi4 (s : State) (pr pt pp inv : Word) {p0 p1 p2 p3 p4 p5 l176 l200 : Word} {t73 t106 t139 t172 t175 t184 t189 t194 t198 t199 t204 t205 t207 t225 t226 t227 t228 t229 t230 : ArithRes} {T U : Nat}
    (hr : Buf s pr 6 true) (ht : Buf s pt 12 false) (hp : Buf s pp 6 false)
    (hstk : Stack s 4) (hrs : OffStack s 4 pr 6) (hts : OffStack s 4 pt 12) (hps : OffStack s 4 pp 6)
    (ht208 : t208 = addWithCarry t207.val (~~~p5) true) (ht211 : t211 = addWithCarry t204.val (~~~p4) true)
    (ht225 : t225 = addWithCarry t184.val (~~~p0) true) (ht226 : t226 = addWithCarry t189.val (~~~p1) t225.c)
    (ht227 : t227 = addWithCarry t194.val (~~~p2) t226.c) (ht228 : t228 = addWithCarry t199.val (~~~p3) t227.c)
    (ht229 : t229 = addWithCarry t204.val (~~~p4) t228.c) (ht230 : t230 = addWithCarry t207.val (~~~p5) t229.c)
    (hb209 : (t208.c && !t208.z) = false) (hb210 : (!t208.c) = false) (hb212 : (t211.c && !t211.z) = true)
    (hR2 : val (2 ^ 64) [t184.val.toNat, t189.val.toNat, t194.val.toNat, t199.val.toNat, t204.val.toNat, t207.val.toNat] < 2 * val (2 ^ 64) [p0.toNat, p1.toNat, p2.toNat, p3.toNat, p4.toNat, p5.toNat])
    (hRe : 2 ^ 384 * val (2 ^ 64) [t184.val.toNat, t189.val.toNat, t194.val.toNat, t199.val.toNat, t204.val.toNat, t207.val.toNat] = T + U * val (2 ^ 64) [p0.toNat, p1.toNat, p2.toNat, p3.toNat, p4.toNat, p5.toNat]) :
    ∃ s', run embedded_pairing_core_arch_aarch64_fpbase_384_montgomery_reduce ({ x0 := pr, x1 := l176, x2 := t175.val, x3 := inv, x4 := t73.val, x5 := t106.val, x6 := t139.val, x7 := t172.val, x8 := s.x8, x9 := t205.val, x10 := t184.val, x11 := t189.val, x12 := t194.val, x13 := t199.val, x14 := t204.val, x15 := t207.val, x16 := s.x16, x17 := s.x17, x18 := s.x18, x19 := p0, x20 := p1, x21 := p2, x22 := p3, x23 := p4, x24 := p5, x25 := t198.val, x26 := l200, x27 := s.x27, x28 := s.x28, x29 := s.x29, x30 := s.x30, sp := s.sp - 16#64 - 16#64 - 16#64 - 16#64, nf := some t207.n, zf := some t207.z, cf := some t207.c, vf := some t207.v, mem := setMem (setMem (setMem (setMem (setMem (setMem (setMem (setMem (s.mem) (s.sp.toNat - 16) s.x19) (s.sp.toNat - 16 + 8) s.x20) (s.sp.toNat - 16 - 16) s.x21) (s.sp.toNat - 16 - 16 + 8) s.x22) (s.sp.toNat - 16 - 16 - 16) s.x23) (s.sp.toNat - 16 - 16 - 16 + 8) s.x24) (s.sp.toNat - 16 - 16 - 16 - 16) s.x25) (s.sp.toNat - 16 - 16 - 16 - 16 + 8) s.x26, readable := s.readable, writable := s.writable, pc := 208, status := .running } : State) 19 = s' ∧ Returned s s' ∧
      val (2 ^ 64) [(s'.mem pr.toNat).toNat, (s'.mem (pr.toNat + 8)).toNat, (s'.mem (pr.toNat + 16)).toNat, (s'.mem (pr.toNat + 24)).toNat, (s'.mem (pr.toNat + 32)).toNat, (s'.mem (pr.toNat + 40)).toNat] < val (2 ^ 64) [p0.toNat, p1.toNat, p2.toNat, p3.toNat, p4.toNat, p5.toNat] ∧
      (val (2 ^ 64) [(s'.mem pr.toNat).toNat, (s'.mem (pr.toNat + 8)).toNat, (s'.mem (pr.toNat + 16)).toNat, (s'.mem (pr.toNat + 24)).toNat, (s'.mem (pr.toNat + 32)).toNat, (s'.mem (pr.toNat + 40)).toNat] * 2 ^ 384) % val (2 ^ 64) [p0.toNat, p1.toNat, p2.toNat, p3.toNat, p4.toNat, p5.toNat] = T % val (2 ^ 64) [p0.toNat, p1.toNat, p2.toNat, p3.toNat, p4.toNat, p5.toNat] ∧
      (∀ k, ¬(pr.toNat ≤ k ∧ k < pr.toNat + 48) → ¬(s.sp.toNat - 64 ≤ k ∧ k < s.sp.toNat) → s'.mem k = s.mem k) := by
  have ir0 := (t184.val).isLt; have ip0 := (p0).isLt
  have ir1 := (t189.val).isLt; have ip1 := (p1).isLt
  have ir2 := (t194.val).isLt; have ip2 := (p2).isLt
  have ir3 := (t199.val).isLt; have ip3 := (p3).isLt
  have ir4 := (t204.val).isLt; have ip4 := (p4).isLt
  have ir5 := (t207.val).isLt; have ip5 := (p5).isLt
  have c5 := cmp_eq ht208 hb209 hb210
  have c4 := cmp_hi ht211 hb212
  have hle : val (2 ^ 64) [p0.toNat, p1.toNat, p2.toNat, p3.toNat, p4.toNat, p5.toNat] ≤ val (2 ^ 64) [t184.val.toNat, t189.val.toNat, t194.val.toNat, t199.val.toNat, t204.val.toNat, t207.val.toNat] := by
    simp only [val_cons, val_nil]
    clear * - c5 c4 ir0 ip0 ir1 ip1 ir2 ip2 ir3 ip3 ir4 ip4 ir5 ip5
    omega
  have hs := sub6_val ht225 ht226 ht227 ht228 ht229 ht230
  simp only [Bool.not_true, Bool.toNat_false, Nat.add_zero] at hs
  have hres := X86.mont_result hR2 hRe (Or.inr (sub_no_borrow hs hle (X86.val6_lt t225.val t226.val t227.val t228.val t229.val t230.val)))
  have hq := mont_tail_hi4 s pr pt pp inv hr ht hp hstk hrs hts hps (t73 := t73) (t106 := t106) (t139 := t139) (t172 := t172) (t175 := t175) (t184 := t184) (t189 := t189) (t194 := t194) (t198 := t198) (t199 := t199) (t204 := t204) (t205 := t205) (t207 := t207) (t225 := t225) (t226 := t226) (t227 := t227) (t228 := t228) (t229 := t229) (t230 := t230) (p0 := p0) (p1 := p1) (p2 := p2) (p3 := p3) (p4 := p4) (p5 := p5) (l176 := l176) (l200 := l200) ht208 ht211 ht225 ht226 ht227 ht228 ht229 ht230 hb209 hb210 hb212
  obtain ⟨rr0, rr1, rr2, rr3, rr4, rr5⟩ := hr.r6
  obtain ⟨⟨alrr0, alrr1, alrr2, alrr3, alrr4, alrr5⟩, frr1, frr2, frr3, frr4, frr5⟩ := hr.addr6
  have room4 := (hstk.f4 (by omega)).1
  replace hrs := Hide.mk (And.intro room4 hrs)
  simp only [OffStack] at hrs
  refine ⟨_, hq, ⟨rfl, rfl, rfl, rfl, rfl, rfl, rfl, rfl, rfl, rfl, rfl, rfl, rfl, rfl, rfl⟩, ?_, ?_, ?_⟩
  · simp only; a64_mem; exact hres.1
  · simp only; a64_mem; exact hres.2
  · intro k hk1 hk2
    simp (disch := (clear * - hk1 hk2 room4; omega)) only [setMem_ne]

set_option maxHeartbeats 1600000 in
theorem mont_tail_lo4 (s : State) (pr pt pp inv : Word)
    (hr : Buf s pr 6 true) (ht : Buf s pt 12 false) (hp : Buf s pp 6 false)
    (hstk : Stack s 4) (hrs : OffStack s 4 pr 6) (hts : OffStack s 4 pt 12) (hps : OffStack s 4 pp 6) {p0 p1 p2 p3 p4 p5 l176 l200 : Word} {t73 t106 t139 t172 t175 t184 t189 t194 t198 t199 t204 t205 t207 t211 : ArithRes}
    (ht208 : t208 = addWithCarry t207.val (~~~p5) true) (ht211 : t211 = addWithCarry t204.val (~~~p4) true)
    (hb209 : (t208.c && !t208.z) = false) (hb210 : (!t208.c) = false) (hb212 : (t211.c && !t211.z) = false)
    (hb213 : (!t211.c) = true) :
    run embedded_pairing_core_arch_aarch64_fpbase_384_montgomery_reduce ({ x0 := pr, x1 := l176, x2 := t175.val, x3 := inv, x4 := t73.val, x5 := t106.val, x6 := t139.val, x7 := t172.val, x8 := s.x8, x9 := t205.val, x10 := t184.val, x11 := t189.val, x12 := t194.val, x13 := t199.val, x14 := t204.val, x15 := t207.val, x16 := s.x16, x17 := s.x17, x18 := s.x18, x19 := p0, x20 := p1, x21 := p2, x22 := p3, x23 := p4, x24 := p5, x25 := t198.val, x26 := l200, x27 := s.x27, x28 := s.x28, x29 := s.x29, x30 := s.x30, sp := s.sp - 16#64 - 16#64 - 16#64 - 16#64, nf := some t207.n, zf := some t207.z, cf := some t207.c, vf := some t207.v, mem := setMem (setMem (setMem (setMem (setMem (setMem (setMem (setMem (s.mem) (s.sp.toNat - 16) s.x19) (s.sp.toNat - 16 + 8) s.x20) (s.sp.toNat - 16 - 16) s.x21) (s.sp.toNat - 16 - 16 + 8) s.x22) (s.sp.toNat - 16 - 16 - 16) s.x23) (s.sp.toNat - 16 - 16 - 16 + 8) s.x24) (s.sp.toNat - 16 - 16 - 16 - 16) s.x25) (s.sp.toNat - 16 - 16 - 16 - 16 + 8) s.x26, readable := s.readable, writable := s.writable, pc := 208, status := .running } : State) 14
      = ({ x0 := pr + 48#64, x1 := l176, x2 := t175.val, x3 := inv, x4 := t73.val, x5 := t106.val, x6 := t139.val, x7 := t172.val, x8 := s.x8, x9 := t205.val, x10 := t184.val, x11 := t189.val, x12 := t194.val, x13 := t199.val, x14 := t204.val, x15 := t207.val, x16 := s.x16, x17 := s.x17, x18 := s.x18, x19 := s.x19, x20 := s.x20, x21 := s.x21, x22 := s.x22, x23 := s.x23, x24 := s.x24, x25 := s.x25, x26 := s.x26, x27 := s.x27, x28 := s.x28, x29 := s.x29, x30 := s.x30, sp := s.sp, nf := some t211.n, zf := some t211.z, cf := some t211.c, vf := some t211.v, mem := setMem (setMem (setMem (setMem (setMem (setMem (setMem (setMem (setMem (setMem (setMem (setMem (setMem (setMem (s.mem) (s.sp.toNat - 16) s.x19) (s.sp.toNat - 16 + 8) s.x20) (s.sp.toNat - 16 - 16) s.x21) (s.sp.toNat - 16 - 16 + 8) s.x22) (s.sp.toNat - 16 - 16 - 16) s.x23) (s.sp.toNat - 16 - 16 - 16 + 8) s.x24) (s.sp.toNat - 16 - 16 - 16 - 16) s.x25) (s.sp.toNat - 16 - 16 - 16 - 16 + 8) s.x26) pr.toNat t184.val) (pr.toNat + 8) t189.val) (pr.toNat + 16) t194.val) (pr.toNat + 24) t199.val) (pr.toNat + 32) t204.val) (pr.toNat + 40) t207.val, readable := s.readable, writable := s.writable, pc := s.x30.toNat, status := .halted } : State) := by
  obtain ⟨rt0, rt1, rt2, rt3, rt4, rt5, rt6, rt7, rt8, rt9, rt10, rt11⟩ := ht.r12
  obtain ⟨⟨alrt0, alrt1, alrt2, alrt3, alrt4, alrt5, alrt6, alrt7, alrt8, alrt9, alrt10, alrt11⟩, frt1, frt2, frt3, frt4, frt5, frt6, frt7, frt8, frt9, frt10, frt11⟩ := ht.addr12
  obtain ⟨rp0, rp1, rp2, rp3, rp4, rp5⟩ := hp.r6
  obtain ⟨⟨alrp0, alrp1, alrp2, alrp3, alrp4, alrp5⟩, frp1, frp2, frp3, frp4, frp5⟩ := hp.addr6
  obtain ⟨rr0, rr1, rr2, rr3, rr4, rr5⟩ := hr.r6
  obtain ⟨wr0, wr1, wr2, wr3, wr4, wr5⟩ := hr.w6
  obtain ⟨⟨alrr0, alrr1, alrr2, alrr3, alrr4, alrr5⟩, frr1, frr2, frr3, frr4, frr5⟩ := hr.addr6
  have als0 := hstk.aligned
  obtain ⟨room1, als1, alq1a, alq1b, sr1a, sr1b, sw1a, sw1b⟩ := hstk.f1 (by omega)
  obtain ⟨room2, als2, alq2a, alq2b, sr2a, sr2b, sw2a, sw2b⟩ := hstk.f2 (by omega)
  obtain ⟨room3, als3, alq3a, alq3b, sr3a, sr3b, sw3a, sw3b⟩ := hstk.f3 (by omega)
  obtain ⟨room4, als4, alq4a, alq4b, sr4a, sr4b, sw4a, sw4b⟩ := hstk.f4 (by omega)
  replace hrs := Hide.mk (And.intro room4 hrs); replace hts := Hide.mk (And.intro room4 hts)
  replace hps := Hide.mk (And.intro room4 hps)
  simp only [OffStack] at hrs hts hps
  clear ht hp hr hstk
  a64_sym [← ht208, ← ht211, hb209, hb210, hb212, hb213]

set_option maxHeartbeats 1600000 in
set_option exponentiation.threshold 800 in
theorem mont_end_lo4 (s : State) (pr pt pp inv : Word) {p0 p1 p2 p3 p4 p5 l176 l200 : Word} {t73 t106 t139 t172 t175 t184 t189 t194 t198 t199 t204 t205 t207 t211 : ArithRes} {T U : Nat}
    (hr : Buf s pr 6 true) (ht : Buf s pt 12 false) (hp : Buf s pp 6 false)
    (hstk : Stack s 4) (hrs : OffStack s 4 pr 6) (hts : OffStack s 4 pt 12) (hps : OffStack s 4 pp 6)
    (ht208 : t208 = addWithCarry t207.val (~~~p5) true) (ht211 : t211 = addWithCarry t204.val (~~~p4) true)
    (hb209 : (t208.c && !t208.z) = false) (hb210 : (!t208.c) = false) (hb212 : (t211.c && !t211.z) = false)
    (hb213 : (!t211.c) = true)
    (hR2 : val (2 ^ 64) [t184.val.toNat, t189.val.toNat, t194.val.toNat, t199.val.toNat, t204.val.toNat, t207.val.toNat] < 2 * val (2 ^ 64) [p0.toNat, p1.toNat, p2.toNat, p3.toNat, p4.toNat, p5.toNat])
    (hRe : 2 ^ 384 * val (2 ^ 64) [t184.val.toNat, t189.val.toNat, t194.val.toNat, t199.val.toNat, t204.val.toNat, t207.val.toNat] = T + U * val (2 ^ 64) [p0.toNat, p1.toNat, p2.toNat, p3.toNat, p4.toNat, p5.toNat]) :
    ∃ s', run embedded_pairing_core_arch_aarch64_fpbase_384_montgomery_reduce ({ x0 := pr, x1 := l176, x2 := t175.val, x3 := inv, x4 := t73.val, x5 := t106.val, x6 := t139.val, x7 := t172.val, x8 := s.x8, x9 := t205.val, x10 := t184.val, x11 := t189.val, x12 := t194.val, x13 := t199.val, x14 := t204.val, x15 := t207.val, x16 := s.x16, x17 := s.x17, x18 := s.x18, x19 := p0, x20 := p1, x21 := p2, x22 := p3, x23 := p4, x24 := p5, x25 := t198.val, x26 := l200, x27 := s.x27, x28 := s.x28, x29 := s.x29, x30 := s.x30, sp := s.sp - 16#64 - 16#64 - 16#64 - 16#64, nf := some t207.n, zf := some t207.z, cf := some t207.c, vf := some t207.v, mem := setMem (setMem (setMem (setMem (setMem (setMem (setMem (setMem (s.mem) (s.sp.toNat - 16) s.x19) (s.sp.toNat - 16 + 8) s.x20) (s.sp.toNat - 16 - 16) s.x21) (s.sp.toNat - 16 - 16 + 8) s.x22) (s.sp.toNat - 16 - 16 - 16) s.x23) (s.sp.toNat - 16 - 16 - 16 + 8) s.x24) (s.sp.toNat - 16 - 16 - 16 - 16) s.x25) (s.sp.toNat - 16 - 16 - 16 - 16 + 8) s.x26, readable := s.readable, writable := s.writable, pc := 208, status := .running } : State) 14 = s' ∧ Returned s s' ∧
      val (2 ^ 64) [(s'.mem pr.toNat).toNat, (s'.mem (pr.toNat + 8)).toNat, (s'.mem (pr.toNat + 16)).toNat, (s'.mem (pr.toNat + 24)).toNat, (s'.mem (pr.toNat + 32)).toNat, (s'.mem (pr.toNat + 40)).toNat] < val (2 ^ 64) [p0.toNat, p1.toNat, p2.toNat, p3.toNat, p4.toNat, p5.toNat] ∧
      (val (2 ^ 64) [(s'.mem pr.toNat).toNat, (s'.mem (pr.toNat + 8)).toNat, (s'.mem (pr.toNat + 16)).toNat, (s'.mem (pr.toNat + 24)).toNat, (s'.mem (pr.toNat + 32)).toNat, (s'.mem (pr.toNat + 40)).toNat] * 2 ^ 384) % val (2 ^ 64) [p0.toNat, p1.toNat, p2.toNat, p3.toNat, p4.toNat, p5.toNat] = T % val (2 ^ 64) [p0.toNat, p1.toNat, p2.toNat, p3.toNat, p4.toNat, p5.toNat] ∧
      (∀ k, ¬(pr.toNat ≤ k ∧ k < pr.toNat + 48) → ¬(s.sp.toNat - 64 ≤ k ∧ k < s.sp.toNat) → s'.mem k = s.mem k) := by
  have ir0 := (t184.val).isLt; have ip0 := (p0).isLt
  have ir1 := (t189.val).isLt; have ip1 := (p1).isLt
  have ir2 := (t194.val).isLt; have ip2 := (p2).isLt
  have ir3 := (t199.val).isLt; have ip3 := (p3).isLt
  have ir4 := (t204.val).isLt; have ip4 := (p4).isLt
  have ir5 := (t207.val).isLt; have ip5 := (p5).isLt
  have c5 := cmp_eq ht208 hb209 hb210
  have c4 := cmp_lo ht211 hb213
  have hlt : val (2 ^ 64) [t184.val.toNat, t189.val.toNat, t194.val.toNat, t199.val.toNat, t204.val.toNat, t207.val.toNat] < val (2 ^ 64) [p0.toNat, p1.toNat, p2.toNat, p3.toNat, p4.toNat, p5.toNat] := by
    simp only [val_cons, val_nil]
    clear * - c5 c4 ir0 ip0 ir1 ip1 ir2 ip2 ir3 ip3 ir4 ip4 ir5 ip5
    omega
  have hres := X86.mont_result hR2 hRe (Or.inl ⟨rfl, hlt⟩)
  have hq := mont_tail_lo4 s pr pt pp inv hr ht hp hstk hrs hts hps (t73 := t73) (t106 := t106) (t139 := t139) (t172 := t172) (t175 := t175) (t184 := t184) (t189 := t189) (t194 := t194) (t198 := t198) (t199 := t199) (t204 := t204) (t205 := t205) (t207 := t207) (t211 := t211) (p0 := p0) (p1 := p1) (p2 := p2) (p3 := p3) (p4 := p4) (p5 := p5) (l176 := l176) (l200 := l200) ht208 ht211 hb209 hb210 hb212 hb213
  obtain ⟨rr0, rr1, rr2, rr3, rr4, rr5⟩ := hr.r6
  obtain ⟨⟨alrr0, alrr1, alrr2, alrr3, alrr4, alrr5⟩, frr1, frr2, frr3, frr4, frr5⟩ := hr.addr6
  have room4 := (hstk.f4 (by omega)).1
  replace hrs := Hide.mk (And.intro room4 hrs)
  simp only [OffStack] at hrs
  refine ⟨_, hq, ⟨rfl, rfl, rfl, rfl, rfl, rfl, rfl, rfl, rfl, rfl, rfl, rfl, rfl, rfl, rfl⟩, ?_, ?_, ?_⟩
  · simp only; a64_mem; exact hres.1
  · simp only; a64_mem; exact hres.2
  · intro k hk1 hk2
    simp (disch := (clear * - hk1 hk2 room4; omega)) only [setMem_ne]

set_option maxHeartbeats 1600000 in
theorem mont_tail_hi3 (s : State) (pr pt pp inv : Word)
    (hr : Buf s pr 6 true) (ht : Buf s pt 12 false) (hp : Buf s pp 6 false)
    (hstk : Stack s 4) (hrs : OffStack s 4 pr 6) (hts : OffStack s 4 pt 12) (hps : OffStack s 4 pp 6) {p0 p1 p2 p3 p4 p5 l176 l200 : Word} {t73 t106 t139 t172 t175 t184 t189 t194 t198 t199 t204 t205 t207 t225 t226 t227 t228 t229 t230 : ArithRes}
    (ht208 : t208 = addWithCarry t207.val (~~~p5) true) (ht211 : t211 = addWithCarry t204.val (~~~p4) true)
    (ht214 : t214 = addWithCarry t199.val (~~~p3) true) (ht225 : t225 = addWithCarry t184.val (~~~p0) true)
    (ht226 : t226 = addWithCarry t189.val (~~~p1) t225.c) (ht227 : t227 = addWithCarry t194.val (~~~p2) t226.c)
    (ht228 : t228 = addWithCarry t199.val (~~~p3) t227.c) (ht229 : t229 = addWithCarry t204.val (~~~p4) t228.c)
    (ht230 : t230 = addWithCarry t207.val (~~~p5) t229.c) (hb209 : (t208.c && !t208.z) = false)
    (hb210 : (!t208.c) = false) (hb212 : (t211.c && !t211.z) = false) (hb213 : (!t211.c) = false)
    (hb215 : (t214.c && !t214.z) = true) :
    run embedded_pairing_core_arch_aarch64_fpbase_384_montgomery_reduce ({ x0 := pr, x1 := l176, x2 := t175.val, x3 := inv, x4 := t73.val, x5 := t106.val, x6 := t139.val, x7 := t172.val, x8 := s.x8, x9 := t205.val, x10 := t184.val, x11 := t189.val, x12 := t194.val, x13 := t199.val, x14 := t204.val, x15 := t207.val, x16 := s.x16, x17 := s.x17, x18 := s.x18, x19 := p0, x20 := p1, x21 := p2, x22 := p3, x23 := p4, x24 := p5, x25 := t198.val, x26 := l200, x27 := s.x27, x28 := s.x28, x29 := s.x29, x30 := s.x30, sp := s.sp - 16#64 - 16#64 - 16#64 - 16#64, nf := some t207.n, zf := some t207.z, cf := some t207.c, vf := some t207.v, mem := setMem (setMem (setMem (setMem (setMem (setMem (setMem (setMem (s.mem) (s.sp.toNat - 16) s.x19) (s.sp.toNat - 16 + 8) s.x20) (s.sp.toNat - 16 - 16) s.x21) (s.sp.toNat - 16 - 16 + 8) s.x22) (s.sp.toNat - 16 - 16 - 16) s.x23) (s.sp.toNat - 16 - 16 - 16 + 8) s.x24) (s.sp.toNat - 16 - 16 - 16 - 16) s.x25) (s.sp.toNat - 16 - 16 - 16 - 16 + 8) s.x26, readable := s.readable, writable := s.writable, pc := 208, status := .running } : State) 22
      = ({ x0 := pr + 48#64, x1 := l176, x2 := t175.val, x3 := inv, x4 := t73.val, x5 := t106.val, x6 := t139.val, x7 := t172.val, x8 := s.x8, x9 := t205.val, x10 := t225.val, x11 := t226.val, x12 := t227.val, x13 := t228.val, x14 := t229.val, x15 := t230.val, x16 := s.x16, x17 := s.x17, x18 := s.x18, x19 := s.x19, x20 := s.x20, x21 := s.x21, x22 := s.x22, x23 := s.x23, x24 := s.x24, x25 := s.x25, x26 := s.x26, x27 := s.x27, x28 := s.x28, x29 := s.x29, x30 := s.x30, sp := s.sp, nf := some t230.n, zf := some t230.z, cf := some t230.c, vf := some t230.v, mem := setMem (setMem (setMem (setMem (setMem (setMem (setMem (setMem (setMem (setMem (setMem (setMem (setMem (setMem (s.mem) (s.sp.toNat - 16) s.x19) (s.sp.toNat - 16 + 8) s.x20) (s.sp.toNat - 16 - 16) s.x21) (s.sp.toNat - 16 - 16 + 8) s.x22) (s.sp.toNat - 16 - 16 - 16) s.x23) (s.sp.toNat - 16 - 16 - 16 + 8) s.x24) (s.sp.toNat - 16 - 16 - 16 - 16) s.x25) (s.sp.toNat - 16 - 16 - 16 - 16 + 8) s.x26) pr.toNat t225.val) (pr.toNat + 8) t226.val) (pr.toNat + 16) t227.val) (pr.toNat + 24) t228.val) (pr.toNat + 32) t229.val) (pr.toNat + 40) t230.val, readable := s.readable, writable := s.writable, pc := s.x30.toNat, status := .halted } : State) := by
  obtain ⟨rt0, rt1, rt2, rt3, rt4, rt5, rt6, rt7, rt8, rt9, rt10, rt11⟩ := ht.r12
  obtain ⟨⟨alrt0, alrt1, alrt2, alrt3, alrt4, alrt5, alrt6, alrt7, alrt8, alrt9, alrt10, alrt11⟩, frt1, frt2, frt3, frt4, frt5, frt6, frt7, frt8, frt9, frt10, frt11⟩ := ht.addr12
  obtain ⟨rp0, rp1, rp2, rp3, rp4, rp5⟩ := hp.r6
  obtain ⟨⟨alrp0, alrp1, alrp2, alrp3, alrp4, alrp5⟩, frp1, frp2, frp3, frp4, frp5⟩ := hp.addr6
  obtain ⟨rr0, rr1, rr2, rr3, rr4, rr5⟩ := hr.r6
  obtain ⟨wr0, wr1, wr2, wr3, wr4, wr5⟩ := hr.w6
  obtain ⟨⟨alrr0, alrr1, alrr2, alrr3, alrr4, alrr5⟩, frr1, frr2, frr3, frr4, frr5⟩ := hr.addr6
  have als0 := hstk.aligned
  obtain ⟨room1, als1, alq1a, alq1b, sr1a, sr1b, sw1a, sw1b⟩ := hstk.f1 (by omega)
  obtain ⟨room2, als2, alq2a, alq2b, sr2a, sr2b, sw2a, sw2b⟩ := hstk.f2 (by omega)
  obtain ⟨room3, als3, alq3a, alq3b, sr3a, sr3b, sw3a, sw3b⟩ := hstk.f3 (by omega)
  obtain ⟨room4, als4, alq4a, alq4b, sr4a, sr4b, sw4a, sw4b⟩ := hstk.f4 (by omega)
  replace hrs := Hide.mk (And.intro room4 hrs); replace hts := Hide.mk (And.intro room4 hts)
  replace hps := Hide.mk (And.intro room4 hps)
  simp only [OffStack] at hrs hts hps
  clear ht hp hr hstk
  a64_sym [← ht208, ← ht211, ← ht214, ← ht225, ← ht226, ← ht227, ← ht228, ← ht229, ← ht230, hb209, hb210, hb212, hb213, hb215]

set_option maxHeartbeats 1600000 in
set_option exponentiation.threshold 800 in
theorem mont_end_hi3 (s : State) (pr pt pp inv : Word) {p0 p1 p2 p3 p4 p5 l176 l200 : Word} {t73 t106 t139 t172 t175 t184 t189 t194 t198 t199 t204 t205 t207 t225 t226 t227 t228 t229 t230 : ArithRes} {T U : Nat}
    (hr : Buf s pr 6 true) (ht : Buf s pt 12 false) (hp : Buf s pp 6 false)
    (hstk : Stack s 4) (hrs : OffStack s 4 pr 6) (hts : OffStack s 4 pt 12) (hps : OffStack s 4 pp 6)
    (ht208 : t208 = addWithCarry t207.val (~~~p5) true) (ht211 : t211 = addWithCarry t204.val (~~~p4) true)
    (ht214 : t214 = addWithCarry t199.val (~~~p3) true) (ht225 : t225 = addWithCarry t184.val (~~~p0) true)
    (ht226 : t226 = addWithCarry t189.val (~~~p1) t225.c) (ht227 : t227 = addWithCarry t194.val (~~~p2) t226.c)
    (ht228 : t228 = addWithCarry t199.val (~~~p3) t227.c) (ht229 : t229 = addWithCarry t204.val (~~~p4) t228.c)
    (ht230 : t230 = addWithCarry t207.val (~~~p5) t229.c) (hb209 : (t208.c && !t208.z) = false)
    (hb210 : (!t208.c) = false) (hb212 : (t211.c && !t211.z) = false) (hb213 : (!t211.c) = false)
    (hb215 : (t214.c && !t214.z) = true)
    (hR2 : val (2 ^ 64) [t184.val.toNat, t189.val.toNat, t194.val.toNat, t199.val.toNat, t204.val.toNat, t207.val.toNat] < 2 * val (2 ^ 64) [p0.toNat, p1.toNat, p2.toNat, p3.toNat, p4.toNat, p5.toNat])
    (hRe : 2 ^ 384 * val (2 ^ 64) [t184.val.toNat, t189.val.toNat, t194.val.toNat, t199.val.toNat, t204.val.toNat, t207.val.toNat] = T + U * val (2 ^ 64) [p0.toNat, p1.toNat, p2.toNat, p3.toNat, p4.toNat, p5.toNat]) :
    ∃ s', run embedded_pairing_core_arch_aarch64_fpbase_384_montgomery_reduce ({ x0 := pr, x1 := l176, x2 := t175.val, x3 := inv, x4 := t73.val, x5 := t106.val, x6 := t139.val, x7 := t172.val, x8 := s.x8, x9 := t205.val, x10 := t184.val, x11 := t189.val, x12 := t194.val, x13 := t199.val, x14 := t204.val, x15 := t207.val, x16 := s.x16, x17 := s.x17, x18 := s.x18, x19 := p0, x20 := p1, x21 := p2, x22 := p3, x23 := p4, x24 := p5, x25 := t198.val, x26 := l200, x27 := s.x27, x28 := s.x28, x29 := s.x29, x30 := s.x30, sp := s.sp - 16#64 - 16#64 - 16#64 - 16#64, nf := some t207.n, zf := some t207.z, cf := some t207.c, vf := some t207.v, mem := setMem (setMem (setMem (setMem (setMem (setMem (setMem (setMem (s.mem) (s.sp.toNat - 16) s.x19) (s.sp.toNat - 16 + 8) s.x20) (s.sp.toNat - 16 - 16) s.x21) (s.sp.toNat - 16 - 16 + 8) s.x22) (s.sp.toNat - 16 - 16 - 16) s.x23) (s.sp.toNat - 16 - 16 - 16 + 8) s.x24) (s.sp.toNat - 16 - 16 - 16 - 16) s.x25) (s.sp.toNat - 16 - 16 - 16 - 16 + 8) s.x26, readable := s.readable, writable := s.writable, pc := 208, status := .running } : State) 22 = s' ∧ Returned s s' ∧
      val (2 ^ 64) [(s'.mem pr.toNat).toNat, (s'.mem (pr.toNat + 8)).toNat, (s'.mem (pr.toNat + 16)).toNat, (s'.mem (pr.toNat + 24)).toNat, (s'.mem (pr.toNat + 32)).toNat, (s'.mem (pr.toNat + 40)).toNat] < val (2 ^ 64) [p0.toNat, p1.toNat, p2.toNat, p3.toNat, p4.toNat, p5.toNat] ∧
      (val (2 ^ 64) [(s'.mem pr.toNat).toNat, (s'.mem (pr.toNat + 8)).toNat, (s'.mem (pr.toNat + 16)).toNat, (s'.mem (pr.toNat + 24)).toNat, (s'.mem (pr.toNat + 32)).toNat, (s'.mem (pr.toNat + 40)).toNat] * 2 ^ 384) % val (2 ^ 64) [p0.toNat, p1.toNat, p2.toNat, p3.toNat, p4.toNat, p5.toNat] = T % val (2 ^ 64) [p0.toNat, p1.toNat, p2.toNat, p3.toNat, p4.toNat, p5.toNat] ∧
      (∀ k, ¬(pr.toNat ≤ k ∧ k < pr.toNat + 48) → ¬(s.sp.toNat - 64 ≤ k ∧ k < s.sp.toNat) → s'.mem k = s.mem k) := by
  have ir0 := (t184.val).isLt; have ip0 := (p0).isLt
  have ir1 := (t189.val).isLt; have ip1 := (p1).isLt
  have ir2 := (t194.val).isLt; have ip2 := (p2).isLt
  have ir3 := (t199.val).isLt; have ip3 := (p3).isLt
  have ir4 := (t204.val).isLt; have ip4 := (p4).isLt
  have ir5 := (t207.val).isLt; have ip5 := (p5).isLt
  have c5 := cmp_eq ht208 hb209 hb210
  have c4 := cmp_eq ht211 hb212 hb213
  have c3 := cmp_hi ht214 hb215
  have hle : val (2 ^ 64) [p0.toNat, p1.toNat, p2.toNat, p3.toNat, p4.toNat, p5.toNat] ≤ val (2 ^ 64) [t184.val.toNat, t189.val.toNat, t194.val.toNat, t199.val.toNat, t204.val.toNat, t207.val.toNat] := by
    simp only [val_cons, val_nil]
    clear * - c5 c4 c3 ir0 ip0 ir1 ip1 ir2 ip2 ir3 ip3 ir4 ip4 ir5 ip5
    omega
  have hs := sub6_val ht225 ht226 ht227 ht228 ht229 ht230
  simp only [Bool.not_true, Bool.toNat_false, Nat.add_zero] at hs
  have hres := X86.mont_result hR2 hRe (Or.inr (sub_no_borrow hs hle (X86.val6_lt t225.val t226.val t227.val t228.val t229.val t230.val)))
  have hq := mont_tail_hi3 s pr pt pp inv hr ht hp hstk hrs hts hps (t73 := t73) (t106 := t106) (t139 := t139) (t172 := t172) (t175 := t175) (t184 := t184) (t189 := t189) (t194 := t194) (t198 := t198) (t199 := t199) (t204 := t204) (t205 := t205) (t207 := t207) (t225 := t225) (t226 := t226) (t227 := t227) (t228 := t228) (t229 := t229) (t230 := t230) (p0 := p0) (p1 := p1) (p2 := p2) (p3 := p3) (p4 := p4) (p5 := p5) (l176 := l176) (l200 := l200) ht208 ht211 ht214 ht225 ht226 ht227 ht228 ht229 ht230 hb209 hb210 hb212 hb213 hb215
  obtain ⟨rr0, rr1, rr2, rr3, rr4, rr5⟩ := hr.r6
  obtain ⟨⟨alrr0, alrr1, alrr2, alrr3, alrr4, alrr5⟩, frr1, frr2, frr3, frr4, frr5⟩ := hr.addr6
  have room4 := (hstk.f4 (by omega)).1
  replace hrs := Hide.mk (And.intro room4 hrs)
  simp only [OffStack] at hrs
  refine ⟨_, hq, ⟨rfl, rfl, rfl, rfl, rfl, rfl, rfl, rfl, rfl, rfl, rfl, rfl, rfl, rfl, rfl⟩, ?_, ?_, ?_⟩
  · simp only; a64_mem; exact hres.1
  · simp only; a64_mem; exact hres.2
  · intro k hk1 hk2
    simp (disch := (clear * - hk1 hk2 room4; omega)) only [setMem_ne]

set_option maxHeartbeats 1600000 in
theorem mont_tail_lo3 (s : State) (pr pt pp inv : Word)
    (hr : Buf s pr 6 true) (ht : Buf s pt 12 false) (hp : Buf s pp 6 false)
    (hstk : Stack s 4) (hrs : OffStack s 4 pr 6) (hts : OffStack s 4 pt 12) (hps : OffStack s 4 pp 6) {p0 p1 p2 p3 p4 p5 l176 l200 : Word} {t73 t106 t139 t172 t175 t184 t189 t194 t198 t199 t204 t205 t207 t214 : ArithRes}
    (ht208 : t208 = addWithCarry t207.val (~~~p5) true) (ht211 : t211 = addWithCarry t204.val (~~~p4) true)
    (ht214 : t214 = addWithCarry t199.val (~~~p3) true) (hb209 : (t208.c && !t208.z) = false) (hb210 : (!t208.c) = false)
    (hb212 : (t211.c && !t211.z) = false) (hb213 : (!t211.c) = false) (hb215 : (t214.c && !t214.z) = false)
    (hb216 : (!t214.c) = true) :
    run embedded_pairing_core_arch_aarch64_fpbase_384_montgomery_reduce ({ x0 := pr, x1 := l176, x2 := t175.val, x3 := inv, x4 := t73.val, x5 := t106.val, x6 := t139.val, x7 := t172.val, x8 := s.x8, x9 := t205.val, x10 := t184.val, x11 := t189.val, x12 := t194.val, x13 := t199.val, x14 := t204.val, x15 := t207.val, x16 := s.x16, x17 := s.x17, x18 := s.x18, x19 := p0, x20 := p1, x21 := p2, x22 := p3, x23 := p4, x24 := p5, x25 := t198.val, x26 := l200, x27 := s.x27, x28 := s.x28, x29 := s.x29, x30 := s.x30, sp := s.sp - 16#64 - 16#64 - 16#64 - 16#64, nf := some t207.n, zf := some t207.z, cf := some t207.c, vf := some t207.v, mem := setMem (setMem (setMem (setMem (setMem (setMem (setMem (setMem (s.mem) (s.sp.toNat - 16) s.x19) (s.sp.toNat - 16 + 8) s.x20) (s.sp.toNat - 16 - 16) s.x21) (s.sp.toNat - 16 - 16 + 8) s.x22) (s.sp.toNat - 16 - 16 - 16) s.x23) (s.sp.toNat - 16 - 16 - 16 + 8) s.x24) (s.sp.toNat - 16 - 16 - 16 - 16) s.x25) (s.sp.toNat - 16 - 16 - 16 - 16 + 8) s.x26, readable := s.readable, writable := s.writable, pc := 208, status := .running } : State) 17
      = ({ x0 := pr + 48#64, x1 := l176, x2 := t175.val, x3 := inv, x4 := t73.val, x5 := t106.val, x6 := t139.val, x7 := t172.val, x8 := s.x8, x9 := t205.val, x10 := t184.val, x11 := t189.val, x12 := t194.val, x13 := t199.val, x14 := t204.val, x15 := t207.val, x16 := s.x16, x17 := s.x17, x18 := s.x18, x19 := s.x19, x20 := s.x20, x21 := s.x21, x22 := s.x22, x23 := s.x23, x24 := s.x24, x25 := s.x25, x26 := s.x26, x27 := s.x27, x28 := s.x28, x29 := s.x29, x30 := s.x30, sp := s.sp, nf := some t214.n, zf := some t214.z, cf := some t214.c, vf := some t214.v, mem := setMem (setMem (setMem (setMem (setMem (setMem (setMem (setMem (setMem (setMem (setMem (setMem (setMem (setMem (s.mem) (s.sp.toNat - 16) s.x19) (s.sp.toNat - 16 + 8) s.x20) (s.sp.toNat - 16 - 16) s.x21) (s.sp.toNat - 16 - 16 + 8) s.x22) (s.sp.toNat - 16 - 16 - 16) s.x23) (s.sp.toNat - 16 - 16 - 16 + 8) s.x24) (s.sp.toNat - 16 - 16 - 16 - 16) s.x25) (s.sp.toNat - 16 - 16 - 16 - 16 + 8) s.x26) pr.toNat t184.val) (pr.toNat + 8) t189.val) (pr.toNat + 16) t194.val) (pr.toNat + 24) t199.val) (pr.toNat + 32) t204.val) (pr.toNat + 40) t207.val, readable := s.readable, writable := s.writable, pc := s.x30.toNat, status := .halted } : State) := by
  obtain ⟨rt0, rt1, rt2, rt3, rt4, rt5, rt6, rt7, rt8, rt9, rt10, rt11⟩ := ht.r12
  obtain ⟨⟨alrt0, alrt1, alrt2, alrt3, alrt4, alrt5, alrt6, alrt7, alrt8, alrt9, alrt10, alrt11⟩, frt1, frt2, frt3, frt4, frt5, frt6, frt7, frt8, frt9, frt10, frt11⟩ := ht.addr12
  obtain ⟨rp0, rp1, rp2, rp3, rp4, rp5⟩ := hp.r6
  obtain ⟨⟨alrp0, alrp1, alrp2, alrp3, alrp4, alrp5⟩, frp1, frp2, frp3, frp4, frp5⟩ := hp.addr6
  obtain ⟨rr0, rr1, rr2, rr3, rr4, rr5⟩ := hr.r6
  obtain ⟨wr0, wr1, wr2, wr3, wr4, wr5⟩ := hr.w6
  obtain ⟨⟨alrr0, alrr1, alrr2, alrr3, alrr4, alrr5⟩, frr1, frr2, frr3, frr4, frr5⟩ := hr.addr6
  have als0 := hstk.aligned
  obtain ⟨room1, als1, alq1a, alq1b, sr1a, sr1b, sw1a, sw1b⟩ := hstk.f1 (by omega)
  obtain ⟨room2, als2, alq2a, alq2b, sr2a, sr2b, sw2a, sw2b⟩ := hstk.f2 (by omega)
  obtain ⟨room3, als3, alq3a, alq3b, sr3a, sr3b, sw3a, sw3b⟩ := hstk.f3 (by omega)
  obtain ⟨room4, als4, alq4a, alq4b, sr4a, sr4b, sw4a, sw4b⟩ := hstk.f4 (by omega)
  replace hrs := Hide.mk (And.intro room4 hrs); replace hts := Hide.mk (And.intro room4 hts)
  replace hps := Hide.mk (And.intro room4 hps)
  simp only [OffStack] at hrs hts hps
  clear ht hp hr hstk
  a64_sym [← ht208, ← ht211, ← ht214, hb209, hb210, hb212, hb213, hb215, hb216]

set_option maxHeartbeats 1600000 in
set_option exponentiation.threshold 800 in
theorem mont_end_lo3 (s : State) (pr pt pp inv : Word) {p0 p1 p2 p3 p4 p5 l176 l200 : Word} {t73 t106 t139 t172 t175 t184 t189 t194 t198 t199 t204 t205 t207 t214 : ArithRes} {T U : Nat}
    (hr : Buf s pr 6 true) (ht : Buf s pt 12 false) (hp : Buf s pp 6 false)
    (hstk : Stack s 4) (hrs : OffStack s 4 pr 6) (hts : OffStack s 4 pt 12) (hps : OffStack s 4 pp 6)
    (ht208 : t208 = addWithCarry t207.val (~~~p5) true) (ht211 : t211 = addWithCarry t204.val (~~~p4) true)
    (ht214 : t214 = addWithCarry t199.val (~~~p3) true) (hb209 : (t208.c && !t208.z) = false) (hb210 : (!t208.c) = false)
    (hb212 : (t211.c && !t211.z) = false) (hb213 : (!t211.c) = false) (hb215 : (t214.c && !t214.z) = false)
    (hb216 : (!t214.c) = true)
    (hR2 : val (2 ^ 64) [t184.val.toNat, t189.val.toNat, t194.val.toNat, t199.val.toNat, t204.val.toNat, t207.val.toNat] < 2 * val (2 ^ 64) [p0.toNat, p1.toNat, p2.toNat, p3.toNat, p4.toNat, p5.toNat])
    (hRe : 2 ^ 384 * val (2 ^ 64) [t184.val.toNat, t189.val.toNat, t194.val.toNat, t199.val.toNat, t204.val.toNat, t207.val.toNat] = T + U * val (2 ^ 64) [p0.toNat, p1.toNat, p2.toNat, p3.toNat, p4.toNat, p5.toNat]) :
    ∃ s', run embedded_pairing_core_arch_aarch64_fpbase_384_montgomery_reduce ({ x0 := pr, x1 := l176, x2 := t175.val, x3 := inv, x4 := t73.val, x5 := t106.val, x6 := t139.val, x7 := t172.val, x8 := s.x8, x9 := t205.val, x10 := t184.val, x11 := t189.val, x12 := t194.val, x13 := t199.val, x14 := t204.val, x15 := t207.val, x16 := s.x16, x17 := s.x17, x18 := s.x18, x19 := p0, x20 := p1, x21 := p2, x22 := p3, x23 := p4, x24 := p5, x25 := t198.val, x26 := l200, x27 := s.x27, x28 := s.x28, x29 := s.x29, x30 := s.x30, sp := s.sp - 16#64 - 16#64 - 16#64 - 16#64, nf := some t207.n, zf := some t207.z, cf := some t207.c, vf := some t207.v, mem := setMem (setMem (setMem (setMem (setMem (setMem (setMem (setMem (s.mem) (s.sp.toNat - 16) s.x19) (s.sp.toNat - 16 + 8) s.x20) (s.sp.toNat - 16 - 16) s.x21) (s.sp.toNat - 16 - 16 + 8) s.x22) (s.sp.toNat - 16 - 16 - 16) s.x23) (s.sp.toNat - 16 - 16 - 16 + 8) s.x24) (s.sp.toNat - 16 - 16 - 16 - 16) s.x25) (s.sp.toNat - 16 - 16 - 16 - 16 + 8) s.x26, readable := s.readable, writable := s.writable, pc := 208, status := .running } : State) 17 = s' ∧ Returned s s' ∧
      val (2 ^ 64) [(s'.mem pr.toNat).toNat, (s'.mem (pr.toNat + 8)).toNat, (s'.mem (pr.toNat + 16)).toNat, (s'.mem (pr.toNat + 24)).toNat, (s'.mem (pr.toNat + 32)).toNat, (s'.mem (pr.toNat + 40)).toNat] < val (2 ^ 64) [p0.toNat, p1.toNat, p2.toNat, p3.toNat, p4.toNat, p5.toNat] ∧
      (val (2 ^ 64) [(s'.mem pr.toNat).toNat, (s'.mem (pr.toNat + 8)).toNat, (s'.mem (pr.toNat + 16)).toNat, (s'.mem (pr.toNat + 24)).toNat, (s'.mem (pr.toNat + 32)).toNat, (s'.mem (pr.toNat + 40)).toNat] * 2 ^ 384) % val (2 ^ 64) [p0.toNat, p1.toNat, p2.toNat, p3.toNat, p4.toNat, p5.toNat] = T % val (2 ^ 64) [p0.toNat, p1.toNat, p2.toNat, p3.toNat, p4.toNat, p5.toNat] ∧
      (∀ k, ¬(pr.toNat ≤ k ∧ k < pr.toNat + 48) → ¬(s.sp.toNat - 64 ≤ k ∧ k < s.sp.toNat) → s'.mem k = s.mem k) := by
  have ir0 := (t184.val).isLt; have ip0 := (p0).isLt
  have ir1 := (t189.val).isLt; have ip1 := (p1).isLt
  have ir2 := (t194.val).isLt; have ip2 := (p2).isLt
  have ir3 := (t199.val).isLt; have ip3 := (p3).isLt
  have ir4 := (t204.val).isLt; have ip4 := (p4).isLt
  have ir5 := (t207.val).isLt; have ip5 := (p5).isLt
  have c5 := cmp_eq ht208 hb209 hb210
  have c4 := cmp_eq ht211 hb212 hb213
  have c3 := cmp_lo ht214 hb216
  have hlt : val (2 ^ 64) [t184.val.toNat, t189.val.toNat, t194.val.toNat, t199.val.toNat, t204.val.toNat, t207.val.toNat] < val (2 ^ 64) [p0.toNat, p1.toNat, p2.toNat, p3.toNat, p4.toNat, p5.toNat] := by
    simp only [val_cons, val_nil]
    clear * - c5 c4 c3 ir0 ip0 ir1 ip1 ir2 ip2 ir3 ip3 ir4 ip4 ir5 ip5
    omega
  have hres := X86.mont_result hR2 hRe (Or.inl ⟨rfl, hlt⟩)
  have hq := mont_tail_lo3 s pr pt pp inv hr ht hp hstk hrs hts hps (t73 := t73) (t106 := t106) (t139 := t139) (t172 := t172) (t175 := t175) (t184 := t184) (t189 := t189) (t194 := t194) (t198 := t198) (t199 := t199) (t204 := t204) (t205 := t205) (t207 := t207) (t214 := t214) (p0 := p0) (p1 := p1) (p2 := p2) (p3 := p3) (p4 := p4) (p5 := p5) (l176 := l176) (l200 := l200) ht208 ht211 ht214 hb209 hb210 hb212 hb213 hb215 hb216
  obtain ⟨rr0, rr1, rr2, rr3, rr4, rr5⟩ := hr.r6
  obtain ⟨⟨alrr0, alrr1, alrr2, alrr3, alrr4, alrr5⟩, frr1, frr2, frr3, frr4, frr5⟩ := hr.addr6
  have room4 := (hstk.f4 (by omega)).1
  replace hrs := Hide.mk (And.intro room4 hrs)
  simp only [OffStack] at hrs
  refine ⟨_, hq, ⟨rfl, rfl, rfl, rfl, rfl, rfl, rfl, rfl, rfl, rfl, rfl, rfl, rfl, rfl, rfl⟩, ?_, ?_, ?_⟩
  · simp only; a64_mem; exact hres.1
  · simp only; a64_mem; exact hres.2
  · intro k hk1 hk2
    simp (disch := (clear * - hk1 hk2 room4; omega)) only [setMem_ne]

set_option maxHeartbeats 1600000 in
theorem mont_tail_hi2 (s : State) (pr pt pp inv : Word)
    (hr : Buf s pr 6 true) (ht : Buf s pt 12 false) (hp : Buf s pp 6 false)
    (hstk : Stack s 4) (hrs : OffStack s 4 pr 6) (hts : OffStack s 4 pt 12) (hps : OffStack s 4 pp 6) {p0 p1 p2 p3 p4 p5 l176 l200 : Word} {t73 t106 t139 t172 t175 t184 t189 t194 t198 t199 t204 t205 t207 t225 t226 t227 t228 t229 t230 : ArithRes}
    (ht208 : t208 = addWithCarry t207.val (~~~p5) true) (ht211 : t211 = addWithCarry t204.val (~~~p4) true)
    (ht214 : t214 = addWithCarry t199.val (~~~p3) true) (ht217 : t217 = addWithCarry t194.val (~~~p2) true)
    (ht225 : t225 = addWithCarry t184.val (~~~p0) true) (ht226 : t226 = addWithCarry t189.val (~~~p1) t225.c)
    (ht227 : t227 = addWithCarry t194.val (~~~p2) t226.c) (ht228 : t228 = addWithCarry t199.val (~~~p3) t227.c)
    (ht229 : t229 = addWithCarry t204.val (~~~p4) t228.c) (ht230 : t230 = addWithCarry t207.val (~~~p5) t229.c)
    (hb209 : (t208.c && !t208.z) = false) (hb210 : (!t208.c) = false) (hb212 : (t211.c && !t211.z) = false)
    (hb213 : (!t211.c) = false) (hb215 : (t214.c && !t214.z) = false) (hb216 : (!t214.c) = false)
    (hb218 : (t217.c && !t217.z) = true) :
    run embedded_pairing_core_arch_aarch64_fpbase_384_montgomery_reduce ({ x0 := pr, x1 := l176, x2 := t175.val, x3 := inv, x4 := t73.val, x5 := t106.val, x6 := t139.val, x7 := t172.val, x8 := s.x8, x9 := t205.val, x10 := t184.val, x11 := t189.val, x12 := t194.val, x13 := t199.val, x14 := t204.val, x15 := t207.val, x16 := s.x16, x17 := s.x17, x18 := s.x18, x19 := p0, x20 := p1, x21 := p2, x22 := p3, x23 := p4, x24 := p5, x25 := t198.val, x26 := l200, x27 := s.x27, x28 := s.x28, x29 := s.x29, x30 := s.x30, sp := s.sp - 16#64 - 16#64 - 16#64 - 16#64, nf := some t207.n, zf := some t207.z, cf := some t207.c, vf := some t207.v, mem := setMem (setMem (setMem (setMem (setMem (setMem (setMem (setMem (s.mem) (s.sp.toNat - 16) s.x19) (s.sp.toNat - 16 + 8) s.x20) (s.sp.toNat - 16 - 16) s.x21) (s.sp.toNat - 16 - 16 + 8) s.x22) (s.sp.toNat - 16 - 16 - 16) s.x23) (s.sp.toNat - 16 - 16 - 16 + 8) s.x24) (s.sp.toNat - 16 - 16 - 16 - 16) s.x25) (s.sp.toNat - 16 - 16 - 16 - 16 + 8) s.x26, readable := s.readable, writable := s.writable, pc := 208, status := .running } : State) 25
      = ({ x0 := pr + 48#64, x1 := l176, x2 := t175.val, x3 := inv, x4 := t73.val, x5 := t106.val, x6 := t139.val, x7 := t172.val, x8 := s.x8, x9 := t205.val, x10 := t225.val, x11 := t226.val, x12 := t227.val, x13 := t228.val, x14 := t229.val, x15 := t230.val, x16 := s.x16, x17 := s.x17, x18 := s.x18, x19 := s.x19, x20 := s.x20, x21 := s.x21, x22 := s.x22, x23 := s.x23, x24 := s.x24, x25 := s.x25, x26 := s.x26, x27 := s.x27, x28 := s.x28, x29 := s.x29, x30 := s.x30, sp := s.sp, nf := some t230.n, zf := some t230.z, cf := some t230.c, vf := some t230.v, mem := setMem (setMem (setMem (setMem (setMem (setMem (setMem (setMem (setMem (setMem (setMem (setMem (setMem (setMem (s.mem) (s.sp.toNat - 16) s.x19) (s.sp.toNat - 16 + 8) s.x20) (s.sp.toNat - 16 - 16) s.x21) (s.sp.toNat - 16 - 16 + 8) s.x22) (s.sp.toNat - 16 - 16 - 16) s.x23) (s.sp.toNat - 16 - 16 - 16 + 8) s.x24) (s.sp.toNat - 16 - 16 - 16 - 16) s.x25) (s.sp.toNat - 16 - 16 - 16 - 16 + 8) s.x26) pr.toNat t225.val) (pr.toNat + 8) t226.val) (pr.toNat + 16) t227.val) (pr.toNat + 24) t228.val) (pr.toNat + 32) t229.val) (pr.toNat + 40) t230.val, readable := s.readable, writable := s.writable, pc := s.x30.toNat, status := .halted } : State) := by
  obtain ⟨rt0, rt1, rt2, rt3, rt4, rt5, rt6, rt7, rt8, rt9, rt10, rt11⟩ := ht.r12
  obtain ⟨⟨alrt0, alrt1, alrt2, alrt3, alrt4, alrt5, alrt6, alrt7, alrt8, alrt9, alrt10, alrt11⟩, frt1, frt2, frt3, frt4, frt5, frt6, frt7, frt8, frt9, frt10, frt11⟩ := ht.addr12
  obtain ⟨rp0, rp1, rp2, rp3, rp4, rp5⟩ := hp.r6
  obtain ⟨⟨alrp0, alrp1, alrp2, alrp3, alrp4, alrp5⟩, frp1, frp2, frp3, frp4, frp5⟩ := hp.addr6
  obtain ⟨rr0, rr1, rr2, rr3, rr4, rr5⟩ := hr.r6
  obtain ⟨wr0, wr1, wr2, wr3, wr4, wr5⟩ := hr.w6
  obtain ⟨⟨alrr0, alrr1, alrr2, alrr3, alrr4, alrr5⟩, frr1, frr2, frr3, frr4, frr5⟩ := hr.addr6
  have als0 := hstk.aligned
  obtain ⟨room1, als1, alq1a, alq1b, sr1a, sr1b, sw1a, sw1b⟩ := hstk.f1 (by omega)
  obtain ⟨room2, als2, alq2a, alq2b, sr2a, sr2b, sw2a, sw2b⟩ := hstk.f2 (by omega)
  obtain ⟨room3, als3, alq3a, alq3b, sr3a, sr3b, sw3a, sw3b⟩ := hstk.f3 (by omega)
  obtain ⟨room4, als4, alq4a, alq4b, sr4a, sr4b, sw4a, sw4b⟩ := hstk.f4 (by omega)
  replace hrs := Hide.mk (And.intro room4 hrs); replace hts := Hide.mk (And.intro room4 hts)
  replace hps := Hide.mk (And.intro room4 hps)
  simp only [OffStack] at hrs hts hps
  clear ht hp hr hstk
  a64_sym [← ht208, ← ht211, ← ht214, ← ht217, ← ht225, ← ht226, ← ht227, ← ht228, ← ht229, ← ht230, hb209, hb210, hb212, hb213, hb215, hb216, hb218]

set_option maxHeartbeats 1600000 in
set_option exponentiation.threshold 800 in
theorem mont_end_hi2 (s : State) (pr pt pp inv : Word) {p0 p1 p2 p3 p4 p5 l176 l200 : Word} {t73 t106 t139 t172 t175 t184 t189 t194 t198 t199 t204 t205 t207 t225 t226 t227 t228 t229 t230 : ArithRes} {T U : Nat}
    (hr : Buf s pr 6 true) (ht : Buf s pt 12 false) (hp : Buf s pp 6 false)
    (hstk : Stack s 4) (hrs : OffStack s 4 pr 6) (hts : OffStack s 4 pt 12) (hps : OffStack s 4 pp 6)
    (ht208 : t208 = addWithCarry t207.val (~~~p5) true) (ht211 : t211 = addWithCarry t204.val (~~~p4) true)
    (ht214 : t214 = addWithCarry t199.val (~~~p3) true) (ht217 : t217 = addWithCarry t194.val (~~~p2) true)
    (ht225 : t225 = addWithCarry t184.val (~~~p0) true) (ht226 : t226 = addWithCarry t189.val (~~~p1) t225.c)
    (ht227 : t227 = addWithCarry t194.val (~~~p2) t226.c) (ht228 : t228 = addWithCarry t199.val (~~~p3) t227.c)
    (ht229 : t229 = addWithCarry t204.val (~~~p4) t228.c) (ht230 : t230 = addWithCarry t207.val (~~~p5) t229.c)
    (hb209 : (t208.c && !t208.z) = false) (hb210 : (!t208.c) = false) (hb212 : (t211.c && !t211.z) = false)
    (hb213 : (!t211.c) = false) (hb215 : (t214.c && !t214.z) = false) (hb216 : (!t214.c) = false)
    (hb218 : (t217.c && !t217.z) = true)
    (hR2 : val (2 ^ 64) [t184.val.toNat, t189.val.toNat, t194.val.toNat, t199.val.toNat, t204.val.toNat, t207.val.toNat] < 2 * val (2 ^ 64) [p0.toNat, p1.toNat, p2.toNat, p3.toNat, p4.toNat, p5.toNat])
    (hRe : 2 ^ 384 * val (2 ^ 64) [t184.val.toNat, t189.val.toNat, t194.val.toNat, t199.val.toNat, t204.val.toNat, t207.val.toNat] = T + U * val (2 ^ 64) [p0.toNat, p1.toNat, p2.toNat, p3.toNat, p4.toNat, p5.toNat]) :
    ∃ s', run embedded_pairing_core_arch_aarch64_fpbase_384_montgomery_reduce ({ x0 := pr, x1 := l176, x2 := t175.val, x3 := inv, x4 := t73.val, x5 := t106.val, x6 := t139.val, x7 := t172.val, x8 := s.x8, x9 := t205.val, x10 := t184.val, x11 := t189.val, x12 := t194.val, x13 := t199.val, x14 := t204.val, x15 := t207.val, x16 := s.x16, x17 := s.x17, x18 := s.x18, x19 := p0, x20 := p1, x21 := p2, x22 := p3, x23 := p4, x24 := p5, x25 := t198.val, x26 := l200, x27 := s.x27, x28 := s.x28, x29 := s.x29, x30 := s.x30, sp := s.sp - 16#64 - 16#64 - 16#64 - 16#64, nf := some t207.n, zf := some t207.z, cf := some t207.c, vf := some t207.v, mem := setMem (setMem (setMem (setMem (setMem (setMem (setMem (setMem (s.mem) (s.sp.toNat - 16) s.x19) (s.sp.toNat - 16 + 8) s.x20) (s.sp.toNat - 16 - 16) s.x21) (s.sp.toNat - 16 - 16 + 8) s.x22) (s.sp.toNat - 16 - 16 - 16) s.x23) (s.sp.toNat - 16 - 16 - 16 + 8) s.x24) (s.sp.toNat - 16 - 16 - 16 - 16) s.x25) (s.sp.toNat - 16 - 16 - 16 - 16 + 8) s.x26, readable := s.readable, writable := s.writable, pc := 208, status := .running } : State) 25 = s' ∧ Returned s s' ∧
      val (2 ^ 64) [(s'.mem pr.toNat).toNat, (s'.mem (pr.toNat + 8)).toNat, (s'.mem (pr.toNat + 16)).toNat, (s'.mem (pr.toNat + 24)).toNat, (s'.mem (pr.toNat + 32)).toNat, (s'.mem (pr.toNat + 40)).toNat] < val (2 ^ 64) [p0.toNat, p1.toNat, p2.toNat, p3.toNat, p4.toNat, p5.toNat] ∧
      (val (2 ^ 64) [(s'.mem pr.toNat).toNat, (s'.mem (pr.toNat + 8)).toNat, (s'.mem (pr.toNat + 16)).toNat, (s'.mem (pr.toNat + 24)).toNat, (s'.mem (pr.toNat + 32)).toNat, (s'.mem (pr.toNat + 40)).toNat] * 2 ^ 384) % val (2 ^ 64) [p0.toNat, p1.toNat, p2.toNat, p3.toNat, p4.toNat, p5.toNat] = T % val (2 ^ 64) [p0.toNat, p1.toNat, p2.toNat, p3.toNat, p4.toNat, p5.toNat] ∧
      (∀ k, ¬(pr.toNat ≤ k ∧ k < pr.toNat + 48) → ¬(s.sp.toNat - 64 ≤ k ∧ k < s.sp.toNat) → s'.mem k = s.mem k) := by
  have ir0 := (t184.val).isLt; have ip0 := (p0).isLt
  have ir1 := (t189.val).isLt; have ip1 := (p1).isLt
  have ir2 := (t194.val).isLt; have ip2 := (p2).isLt
  have ir3 := (t199.val).isLt; have ip3 := (p3).isLt
  have ir4 := (t204.val).isLt; have ip4 := (p4).isLt
  have ir5 := (t207.val).isLt; have ip5 := (p5).isLt
  have c5 := cmp_eq ht208 hb209 hb210
  have c4 := cmp_eq ht211 hb212 hb213
  have c3 := cmp_eq ht214 hb215 hb216
  have c2 := cmp_hi ht217 hb218
  have hle : val (2 ^ 64) [p0.toNat, p1.toNat, p2.toNat, p3.toNat, p4.toNat, p5.toNat] ≤ val (2 ^ 64) [t184.val.toNat, t189.val.toNat, t194.val.toNat, t199.val.toNat, t204.val.toNat, t207.val.toNat] := by
    simp only [val_cons, val_nil]
    clear * - c5 c4 c3 c2 ir0 ip0 ir1 ip1 ir2 ip2 ir3 ip3 ir4 ip4 ir5 ip5
    omega
  have hs := sub6_val ht225 ht226 ht227 ht228 ht229 ht230
  simp only [Bool.not_true, Bool.toNat_false, Nat.add_zero] at hs
  have hres := X86.mont_result hR2 hRe (Or.inr (sub_no_borrow hs hle (X86.val6_lt t225.val t226.val t227.val t228.val t229.val t230.val)))
  have hq := mont_tail_hi2 s pr pt pp inv hr ht hp hstk hrs hts hps (t73 := t73) (t106 := t106) (t139 := t139) (t172 := t172) (t175 := t175) (t184 := t184) (t189 := t189) (t194 := t194) (t198 := t198) (t199 := t199) (t204 := t204) (t205 := t205) (t207 := t207) (t225 := t225) (t226 := t226) (t227 := t227) (t228 := t228) (t229 := t229) (t230 := t230) (p0 := p0) (p1 := p1) (p2 := p2) (p3 := p3) (p4 := p4) (p5 := p5) (l176 := l176) (l200 := l200) ht208 ht211 ht214 ht217 ht225 ht226 ht227 ht228 ht229 ht230 hb209 hb210 hb212 hb213 hb215 hb216 hb218
  obtain ⟨rr0, rr1, rr2, rr3, rr4, rr5⟩ := hr.r6
  obtain ⟨⟨alrr0, alrr1, alrr2, alrr3, alrr4, alrr5⟩, frr1, frr2, frr3, frr4, frr5⟩ := hr.addr6
  have room4 := (hstk.f4 (by omega)).1
  replace hrs := Hide.mk (And.intro room4 hrs)
  simp only [OffStack] at hrs
  refine ⟨_, hq, ⟨rfl, rfl, rfl, rfl, rfl, rfl, rfl, rfl, rfl, rfl, rfl, rfl, rfl, rfl, rfl⟩, ?_, ?_, ?_⟩
  · simp only; a64_mem; exact hres.1
  · simp only; a64_mem; exact hres.2
  · intro k hk1 hk2
    simp (disch := (clear * - hk1 hk2 room4; omega)) only [setMem_ne]

set_option maxHeartbeats 1600000 in
theorem mont_tail_lo2 (s : State) (pr pt pp inv : Word)
    (hr : Buf s pr 6 true) (ht : Buf s pt 12 false) (hp : Buf s pp 6 false)
    (hstk : Stack s 4) (hrs : OffStack s 4 pr 6) (hts : OffStack s 4 pt 12) (hps : OffStack s 4 pp 6) {p0 p1 p2 p3 p4 p5 l176 l200 : Word} {t73 t106 t139 t172 t175 t184 t189 t194 t198 t199 t204 t205 t207 t217 : ArithRes}
    (ht208 : t208 = addWithCarry t207.val (~~~p5) true) (ht211 : t211 = addWithCarry t204.val (~~~p4) true)
    (ht214 : t214 = addWithCarry t199.val (~~~p3) true) (ht217 : t217 = addWithCarry t194.val (~~~p2) true)
    (hb209 : (t208.c && !t208.z) = false) (hb210 : (!t208.c) = false) (hb212 : (t211.c && !t211.z) = false)
    (hb213 : (!t211.c) = false) (hb215 : (t214.c && !t214.z) = false) (hb216 : (!t214.c) = false)
    (hb218 : (t217.c && !t217.z) = false) (hb219 : (!t217.c) = true) :
    run embedded_pairing_core_arch_aarch64_fpbase_384_montgomery_reduce ({ x0 := pr, x1 := l176, x2 := t175.val, x3 := inv, x4 := t73.val, x5 := t106.val, x6 := t139.val, x7 := t172.val, x8 := s.x8, x9 := t205.val, x10 := t184.val, x11 := t189.val, x12 := t194.val, x13 := t199.val, x14 := t204.val, x15 := t207.val, x16 := s.x16, x17 := s.x17, x18 := s.x18, x19 := p0, x20 := p1, x21 := p2, x22 := p3, x23 := p4, x24 := p5, x25 := t198.val, x26 := l200, x27 := s.x27, x28 := s.x28, x29 := s.x29, x30 := s.x30, sp := s.sp - 16#64 - 16#64 - 16#64 - 16#64, nf := some t207.n, zf := some t207.z, cf := some t207.c, vf := some t207.v, mem := setMem (setMem (setMem (setMem (setMem (setMem (setMem (setMem (s.mem) (s.sp.toNat - 16) s.x19) (s.sp.toNat - 16 + 8) s.x20) (s.sp.toNat - 16 - 16) s.x21) (s.sp.toNat - 16 - 16 + 8) s.x22) (s.sp.toNat - 16 - 16 - 16) s.x23) (s.sp.toNat - 16 - 16 - 16 + 8) s.x24) (s.sp.toNat - 16 - 16 - 16 - 16) s.x25) (s.sp.toNat - 16 - 16 - 16 - 16 + 8) s.x26, readable := s.readable, writable := s.writable, pc := 208, status := .running } : State) 20
      = ({ x0 := pr + 48#64, x1 := l176, x2 := t175.val, x3 := inv, x4 := t73.val, x5 := t106.val, x6 := t139.val, x7 := t172.val, x8 := s.x8, x9 := t205.val, x10 := t184.val, x11 := t189.val, x12 := t194.val, x13 := t199.val, x14 := t204.val, x15 := t207.val, x16 := s.x16, x17 := s.x17, x18 := s.x18, x19 := s.x19, x20 := s.x20, x21 := s.x21, x22 := s.x22, x23 := s.x23, x24 := s.x24, x25 := s.x25, x26 := s.x26, x27 := s.x27, x28 := s.x28, x29 := s.x29, x30 := s.x30, sp := s.sp, nf := some t217.n, zf := some t217.z, cf := some t217.c, vf := some t217.v, mem := setMem (setMem (setMem (setMem (setMem (setMem (setMem (setMem (setMem (setMem (setMem (setMem (setMem (setMem (s.mem) (s.sp.toNat - 16) s.x19) (s.sp.toNat - 16 + 8) s.x20) (s.sp.toNat - 16 - 16) s.x21) (s.sp.toNat - 16 - 16 + 8) s.x22) (s.sp.toNat - 16 - 16 - 16) s.x23) (s.sp.toNat - 16 - 16 - 16 + 8) s.x24) (s.sp.toNat - 16 - 16 - 16 - 16) s.x25) (s.sp.toNat - 16 - 16 - 16 - 16 + 8) s.x26) pr.toNat t184.val) (pr.toNat + 8) t189.val) (pr.toNat + 16) t194.val) (pr.toNat + 24) t199.val) (pr.toNat + 32) t204.val) (pr.toNat + 40) t207.val, readable := s.readable, writable := s.writable, pc := s.x30.toNat, status := .halted } : State) := by
  obtain ⟨rt0, rt1, rt2, rt3, rt4, rt5, rt6, rt7, rt8, rt9, rt10, rt11⟩ := ht.r12
  obtain ⟨⟨alrt0, alrt1, alrt2, alrt3, alrt4, alrt5, alrt6, alrt7, alrt8, alrt9, alrt10, alrt11⟩, frt1, frt2, frt3, frt4, frt5, frt6, frt7, frt8, frt9, frt10, frt11⟩ := ht.addr12
  obtain ⟨rp0, rp1, rp2, rp3, rp4, rp5⟩ := hp.r6
  obtain ⟨⟨alrp0, alrp1, alrp2, alrp3, alrp4, alrp5⟩, frp1, frp2, frp3, frp4, frp5⟩ := hp.addr6
  obtain ⟨rr0, rr1, rr2, rr3, rr4, rr5⟩ := hr.r6
  obtain ⟨wr0, wr1, wr2, wr3, wr4, wr5⟩ := hr.w6
  obtain ⟨⟨alrr0, alrr1, alrr2, alrr3, alrr4, alrr5⟩, frr1, frr2, frr3, frr4, frr5⟩ := hr.addr6
  have als0 := hstk.aligned
  obtain ⟨room1, als1, alq1a, alq1b, sr1a, sr1b, sw1a, sw1b⟩ := hstk.f1 (by omega)
  obtain ⟨room2, als2, alq2a, alq2b, sr2a, sr2b, sw2a, sw2b⟩ := hstk.f2 (by omega)
  obtain ⟨room3, als3, alq3a, alq3b, sr3a, sr3b, sw3a, sw3b⟩ := hstk.f3 (by omega)
  obtain ⟨room4, als4, alq4a, alq4b, sr4a, sr4b, sw4a, sw4b⟩ := hstk.f4 (by omega)
  replace hrs := Hide.mk (And.intro room4 hrs); replace hts := Hide.mk (And.intro room4 hts)
  replace hps := Hide.mk (And.intro room4 hps)
  simp only [OffStack] at hrs hts hps
  clear ht hp hr hstk
  a64_sym [← ht208, ← ht211, ← ht214, ← ht217, hb209, hb210, hb212, hb213, hb215, hb216, hb218, hb219]

set_option maxHeartbeats 1600000 in
set_option exponentiation.threshold 800 in
theorem mont_end_lo2 (s : State) (pr pt pp inv : Word) {p0 p1 p2 p3 p4 p5 l176 l200 : Word} {t73 t106 t139 t172 t175 t184 t189 t194 t198 t199 t204 t205 t207 t217 : ArithRes} {T U : Nat}
    (hr : Buf s pr 6 true) (ht : Buf s pt 12 false) (hp : Buf s pp 6 false)
    (hstk : Stack s 4) (hrs : OffStack s 4 pr 6) (hts : OffStack s 4 pt 12) (hps : OffStack s 4 pp 6)
    (ht208 : t208 = addWithCarry t207.val (~~~p5) true) (ht211 : t211 = addWithCarry t204.val (~~~p4) true)
    (ht214 : t214 = addWithCarry t199.val (~~~p3) true) (ht217 : t217 = addWithCarry t194.val (~~~p2) true)
    (hb209 : (t208.c && !t208.z) = false) (hb210 : (!t208.c) = false) (hb212 : (t211.c && !t211.z) = false)
    (hb213 : (!t211.c) = false) (hb215 : (t214.c && !t214.z) = false) (hb216 : (!t214.c) = false)
    (hb218 : (t217.c && !t217.z) = false) (hb219 : (!t217.c) = true)
    (hR2 : val (2 ^ 64) [t184.val.toNat, t189.val.toNat, t194.val.toNat, t199.val.toNat, t204.val.toNat, t207.val.toNat] < 2 * val (2 ^ 64) [p0.toNat, p1.toNat, p2.toNat, p3.toNat, p4.toNat, p5.toNat])
    (hRe : 2 ^ 384 * val (2 ^ 64) [t184.val.toNat, t189.val.toNat, t194.val.toNat, t199.val.toNat, t204.val.toNat, t207.val.toNat] = T + U * val (2 ^ 64) [p0.toNat, p1.toNat, p2.toNat, p3.toNat, p4.toNat, p5.toNat]) :
    ∃ s', run embedded_pairing_core_arch_aarch64_fpbase_384_montgomery_reduce ({ x0 := pr, x1 := l176, x2 := t175.val, x3 := inv, x4 := t73.val, x5 := t106.val, x6 := t139.val, x7 := t172.val, x8 := s.x8, x9 := t205.val, x10 := t184.val, x11 := t189.val, x12 := t194.val, x13 := t199.val, x14 := t204.val, x15 := t207.val, x16 := s.x16, x17 := s.x17, x18 := s.x18, x19 := p0, x20 := p1, x21 := p2, x22 := p3, x23 := p4, x24 := p5, x25 := t198.val, x26 := l200, x27 := s.x27, x28 := s.x28, x29 := s.x29, x30 := s.x30, sp := s.sp - 16#64 - 16#64 - 16#64 - 16#64, nf := some t207.n, zf := some t207.z, cf := some t207.c, vf := some t207.v, mem := setMem (setMem (setMem (setMem (setMem (setMem (setMem (setMem (s.mem) (s.sp.toNat - 16) s.x19) (s.sp.toNat - 16 + 8) s.x20) (s.sp.toNat - 16 - 16) s.x21) (s.sp.toNat - 16 - 16 + 8) s.x22) (s.sp.toNat - 16 - 16 - 16) s.x23) (s.sp.toNat - 16 - 16 - 16 + 8) s.x24) (s.sp.toNat - 16 - 16 - 16 - 16) s.x25) (s.sp.toNat - 16 - 16 - 16 - 16 + 8) s.x26, readable := s.readable, writable := s.writable, pc := 208, status := .running } : State) 20 = s' ∧ Returned s s' ∧
      val (2 ^ 64) [(s'.mem pr.toNat).toNat, (s'.mem (pr.toNat + 8)).toNat, (s'.mem (pr.toNat + 16)).toNat, (s'.mem (pr.toNat + 24)).toNat, (s'.mem (pr.toNat + 32)).toNat, (s'.mem (pr.toNat + 40)).toNat] < val (2 ^ 64) [p0.toNat, p1.toNat, p2.toNat, p3.toNat, p4.toNat, p5.toNat] ∧
      (val (2 ^ 64) [(s'.mem pr.toNat).toNat, (s'.mem (pr.toNat + 8)).toNat, (s'.mem (pr.toNat + 16)).toNat, (s'.mem (pr.toNat + 24)).toNat, (s'.mem (pr.toNat + 32)).toNat, (s'.mem (pr.toNat + 40)).toNat] * 2 ^ 384) % val (2 ^ 64) [p0.toNat, p1.toNat, p2.toNat, p3.toNat, p4.toNat, p5.toNat] = T % val (2 ^ 64) [p0.toNat, p1.toNat, p2.toNat, p3.toNat, p4.toNat, p5.toNat] ∧
      (∀ k, ¬(pr.toNat ≤ k ∧ k < pr.toNat + 48) → ¬(s.sp.toNat - 64 ≤ k ∧ k < s.sp.toNat) → s'.mem k = s.mem k) := by
  have ir0 := (t184.val).isLt; have ip0 := (p0).isLt
  have ir1 := (t189.val).isLt; have ip1 := (p1).isLt
  have ir2 := (t194.val).isLt; have ip2 := (p2).isLt
  have ir3 := (t199.val).isLt; have ip3 := (p3).isLt
  have ir4 := (t204.val).isLt; have ip4 := (p4).isLt
  have ir5 := (t207.val).isLt; have ip5 := (p5).isLt
  have c5 := cmp_eq ht208 hb209 hb210
  have c4 := cmp_eq ht211 hb212 hb213
  have c3 := cmp_eq ht214 hb215 hb216
  have c2 := cmp_lo ht217 hb219
  have hlt : val (2 ^ 64) [t184.val.toNat, t189.val.toNat, t194.val.toNat, t199.val.toNat, t204.val.toNat, t207.val.toNat] < val (2 ^ 64) [p0.toNat, p1.toNat, p2.toNat, p3.toNat, p4.toNat, p5.toNat] := by
    simp only [val_cons, val_nil]
    clear * - c5 c4 c3 c2 ir0 ip0 ir1 ip1 ir2 ip2 ir3 ip3 ir4 ip4 ir5 ip5
    omega
  have hres := X86.mont_result hR2 hRe (Or.inl ⟨rfl, hlt⟩)
  have hq := mont_tail_lo2 s pr pt pp inv hr ht hp hstk hrs hts hps (t73 := t73) (t106 := t106) (t139 := t139) (t172 := t172) (t175 := t175) (t184 := t184) (t189 := t189) (t194 := t194) (t198 := t198) (t199 := t199) (t204 := t204) (t205 := t205) (t207 := t207) (t217 := t217) (p0 := p0) (p1 := p1) (p2 := p2) (p3 := p3) (p4 := p4) (p5 := p5) (l176 := l176) (l200 := l200) ht208 ht211 ht214 ht217 hb209 hb210 hb212 hb213 hb215 hb216 hb218 hb219
  obtain ⟨rr0, rr1, rr2, rr3, rr4, rr5⟩ := hr.r6
  obtain ⟨⟨alrr0, alrr1, alrr2, alrr3, alrr4, alrr5⟩, frr1, frr2, frr3, frr4, frr5⟩ := hr.addr6
  have room4 := (hstk.f4 (by omega)).1
  replace hrs := Hide.mk (And.intro room4 hrs)
  simp only [OffStack] at hrs
  refine ⟨_, hq, ⟨rfl, rfl, rfl, rfl, rfl, rfl, rfl, rfl, rfl, rfl, rfl, rfl, rfl, rfl, rfl⟩, ?_, ?_, ?_⟩
  · simp only; a64_mem; exact hres.1
  · simp only; a64_mem; exact hres.2
  · intro k hk1 hk2
    simp (disch := (clear * - hk1 hk2 room4; omega)) only [setMem_ne]

set_option maxHeartbeats 1600000 in
theorem mont_tail_hi1 (s : State) (pr pt pp inv : Word)
    (hr : Buf s pr 6 true) (ht : Buf s pt 12 false) (hp : Buf s pp 6 false)
    (hstk : Stack s 4) (hrs : OffStack s 4 pr 6) (hts : OffStack s 4 pt 12) (hps : OffStack s 4 pp 6) {p0 p1 p2 p3 p4 p5 l176 l200 : Word} {t73 t106 t139 t172 t175 t184 t189 t194 t198 t199 t204 t205 t207 t225 t226 t227 t228 t229 t230 : ArithRes}
    (ht208 : t208 = addWithCarry t207.val (~~~p5) true) (ht211 : t211 = addWithCarry t204.val (~~~p4) true)
    (ht214 : t214 = addWithCarry t199.val (~~~p3) true) (ht217 : t217 = addWithCarry t194.val (~~~p2) true)
    (ht220 : t220 = addWithCarry t189.val (~~~p1) true) (ht225 : t225 = addWithCarry t184.val (~~~p0) true)
    (ht226 : t226 = addWithCarry t189.val (~~~p1) t225.c) (ht227 : t227 = addWithCarry t194.val (~~~p2) t226.c)
    (ht228 : t228 = addWithCarry t199.val (~~~p3) t227.c) (ht229 : t229 = addWithCarry t204.val (~~~p4) t228.c)
    (ht230 : t230 = addWithCarry t207.val (~~~p5) t229.c) (hb209 : (t208.c && !t208.z) = false)
    (hb210 : (!t208.c) = false) (hb212 : (t211.c && !t211.z) = false) (hb213 : (!t211.c) = false)
    (hb215 : (t214.c && !t214.z) = false) (hb216 : (!t214.c) = false) (hb218 : (t217.c && !t217.z) = false)
    (hb219 : (!t217.c) = false) (hb221 : (t220.c && !t220.z) = true) :
    run embedded_pairing_core_arch_aarch64_fpbase_384_montgomery_reduce ({ x0 := pr, x1 := l176, x2 := t175.val, x3 := inv, x4 := t73.val, x5 := t106.val, x6 := t139.val, x7 := t172.val, x8 := s.x8, x9 := t205.val, x10 := t184.val, x11 := t189.val, x12 := t194.val, x13 := t199.val, x14 := t204.val, x15 := t207.val, x16 := s.x16, x17 := s.x17, x18 := s.x18, x19 := p0, x20 := p1, x21 := p2, x22 := p3, x23 := p4, x24 := p5, x25 := t198.val, x26 := l200, x27 := s.x27, x28 := s.x28, x29 := s.x29, x30 := s.x30, sp := s.sp - 16#64 - 16#64 - 16#64 - 16#64, nf := some t207.n, zf := some t207.z, cf := some t207.c, vf := some t207.v, mem := setMem (setMem (setMem (setMem (setMem (setMem (setMem (setMem (s.mem) (s.sp.toNat - 16) s.x19) (s.sp.toNat - 16 + 8) s.x20) (s.sp.toNat - 16 - 16) s.x21) (s.sp.toNat - 16 - 16 + 8) s.x22) (s.sp.toNat - 16 - 16 - 16) s.x23) (s.sp.toNat - 16 - 16 - 16 + 8) s.x24) (s.sp.toNat - 16 - 16 - 16 - 16) s.x25) (s.sp.toNat - 16 - 16 - 16 - 16 + 8) s.x26, readable := s.readable, writable := s.writable, pc := 208, status := .running } : State) 28
      = ({ x0 := pr + 48#64, x1 := l176, x2 := t175.val, x3 := inv, x4 := t73.val, x5 := t106.val, x6 := t139.val, x7 := t172.val, x8 := s.x8, x9 := t205.val, x10 := t225.val, x11 := t226.val, x12 := t227.val, x13 := t228.val, x14 := t229.val, x15 := t230.val, x16 := s.x16, x17 := s.x17, x18 := s.x18, x19 := s.x19, x20 := s.x20, x21 := s.x21, x22 := s.x22, x23 := s.x23, x24 := s.x24, x25 := s.x25, x26 := s.x26, x27 := s.x27, x28 := s.x28, x29 := s.x29, x30 := s.x30, sp := s.sp, nf := some t230.n, zf := some t230.z, cf := some t230.c, vf := some t230.v, mem := setMem (setMem (setMem (setMem (setMem (setMem (setMem (setMem (setMem (setMem (setMem (setMem (setMem (setMem (s.mem) (s.sp.toNat - 16) s.x19) (s.sp.toNat - 16 + 8) s.x20) (s.sp.toNat - 16 - 16) s.x21) (s.sp.toNat - 16 - 16 + 8) s.x22) (s.sp.toNat - 16 - 16 - 16) s.x23) (s.sp.toNat - 16 - 16 - 16 + 8) s.x24) (s.sp.toNat - 16 - 16 - 16 - 16) s.x25) (s.sp.toNat - 16 - 16 - 16 - 16 + 8) s.x26) pr.toNat t225.val) (pr.toNat + 8) t226.val) (pr.toNat + 16) t227.val) (pr.toNat + 24) t228.val) (pr.toNat + 32) t229.val) (pr.toNat + 40) t230.val, readable := s.readable, writable := s.writable, pc := s.x30.toNat, status := .halted } : State) := by
  obtain ⟨rt0, rt1, rt2, rt3, rt4, rt5, rt6, rt7, rt8, rt9, rt10, rt11⟩ := ht.r12
  obtain ⟨⟨alrt0, alrt1, alrt2, alrt3, alrt4, alrt5, alrt6, alrt7, alrt8, alrt9, alrt10, alrt11⟩, frt1, frt2, frt3, frt4, frt5, frt6, frt7, frt8, frt9, frt10, frt11⟩ := ht.addr12
  obtain ⟨rp0, rp1, rp2, rp3, rp4, rp5⟩ := hp.r6
  obtain ⟨⟨alrp0, alrp1, alrp2, alrp3, alrp4, alrp5⟩, frp1, frp2, frp3, frp4, frp5⟩ := hp.addr6
  obtain ⟨rr0, rr1, rr2, rr3, rr4, rr5⟩ := hr.r6
  obtain ⟨wr0, wr1, wr2, wr3, wr4, wr5⟩ := hr.w6
  obtain ⟨⟨alrr0, alrr1, alrr2, alrr3, alrr4, alrr5⟩, frr1, frr2, frr3, frr4, frr5⟩ := hr.addr6
  have als0 := hstk.aligned
  obtain ⟨room1, als1, alq1a, alq1b, sr1a, sr1b, sw1a, sw1b⟩ := hstk.f1 (by omega)
  obtain ⟨room2, als2, alq2a, alq2b, sr2a, sr2b, sw2a, sw2b⟩ := hstk.f2 (by omega)
  obtain ⟨room3, als3, alq3a, alq3b, sr3a, sr3b, sw3a, sw3b⟩ := hstk.f3 (by omega)
  obtain ⟨room4, als4, alq4a, alq4b, sr4a, sr4b, sw4a, sw4b⟩ := hstk.f4 (by omega)
  replace hrs := Hide.mk (And.intro room4 hrs); replace hts := Hide.mk (And.intro room4 hts)
  replace hps := Hide.mk (And.intro room4 hps)
  simp only [OffStack] at hrs hts hps
  clear ht hp hr hstk
  a64_sym [← ht208, ← ht211, ← ht214, ← ht217, ← ht220, ← ht225, ← ht226, ← ht227, ← ht228, ← ht229, ← ht230, hb209, hb210, hb212, hb213, hb215, hb216, hb218, hb219, hb221]

set_option maxHeartbeats 1600000 in
set_option exponentiation.threshold 800 in
theorem mont_end_hi1 (s : State) (pr pt pp inv : Word) {p0 p1 p2 p3 p4 p5 l176 l200 : Word} {t73 t106 t139 t172 t175 t184 t189 t194 t198 t199 t204 t205 t207 t225 t226 t227 t228 t229 t230 : ArithRes} {T U : Nat}
    (hr : Buf s pr 6 true) (ht : Buf s pt 12 false) (hp : Buf s pp 6 false)
    (hstk : Stack s 4) (hrs : OffStack s 4 pr 6) (hts : OffStack s 4 pt 12) (hps : OffStack s 4 pp 6)
    (ht208 : t208 = addWithCarry t207.val (~~~p5) true) (ht211 : t211 = addWithCarry t204.val (~~~p4) true)
    (ht214 : t214 = addWithCarry t199.val (~~~p3) true) (ht217 : t217 = addWithCarry t194.val (~~~p2) true)
    (ht220 : t220 = addWithCarry t189.val (~~~p1) true) (ht225 : t225 = addWithCarry t184.val (~~~p0) true)
    (ht226 : t226 = addWithCarry t189.val (~~~p1) t225.c) (ht227 : t227 = addWithCarry t194.val (~~~p2) t226.c)
    (ht228 : t228 = addWithCarry t199.val (~~~p3) t227.c) (ht229 : t229 = addWithCarry t204.val (~~~p4) t228.c)
    (ht230 : t230 = addWithCarry t207.val (~~~p5) t229.c) (hb209 : (t208.c && !t208.z) = false)
    (hb210 : (!t208.c) = false) (hb212 : (t211.c && !t211.z) = false) (hb213 : (!t211.c) = false)
    (hb215 : (t214.c && !t214.z) = false) (hb216 : (!t214.c) = false) (hb218 : (t217.c && !t217.z) = false)
    (hb219 : (!t217.c) = false) (hb221 : (t220.c && !t220.z) = true)
    (hR2 : val (2 ^ 64) [t184.val.toNat, t189.val.toNat, t194.val.toNat, t199.val.toNat, t204.val.toNat, t207.val.toNat] < 2 * val (2 ^ 64) [p0.toNat, p1.toNat, p2.toNat, p3.toNat, p4.toNat, p5.toNat])
    (hRe : 2 ^ 384 * val (2 ^ 64) [t184.val.toNat, t189.val.toNat, t194.val.toNat, t199.val.toNat, t204.val.toNat, t207.val.toNat] = T + U * val (2 ^ 64) [p0.toNat, p1.toNat, p2.toNat, p3.toNat, p4.toNat, p5.toNat]) :
    ∃ s', run embedded_pairing_core_arch_aarch64_fpbase_384_montgomery_reduce ({ x0 := pr, x1 := l176, x2 := t175.val, x3 := inv, x4 := t73.val, x5 := t106.val, x6 := t139.val, x7 := t172.val, x8 := s.x8, x9 := t205.val, x10 := t184.val, x11 := t189.val, x12 := t194.val, x13 := t199.val, x14 := t204.val, x15 := t207.val, x16 := s.x16, x17 := s.x17, x18 := s.x18, x19 := p0, x20 := p1, x21 := p2, x22 := p3, x23 := p4, x24 := p5, x25 := t198.val, x26 := l200, x27 := s.x27, x28 := s.x28, x29 := s.x29, x30 := s.x30, sp := s.sp - 16#64 - 16#64 - 16#64 - 16#64, nf := some t207.n, zf := some t207.z, cf := some t207.c, vf := some t207.v, mem := setMem (setMem (setMem (setMem (setMem (setMem (setMem (setMem (s.mem) (s.sp.toNat - 16) s.x19) (s.sp.toNat - 16 + 8) s.x20) (s.sp.toNat - 16 - 16) s.x21) (s.sp.toNat - 16 - 16 + 8) s.x22) (s.sp.toNat - 16 - 16 - 16) s.x23) (s.sp.toNat - 16 - 16 - 16 + 8) s.x24) (s.sp.toNat - 16 - 16 - 16 - 16) s.x25) (s.sp.toNat - 16 - 16 - 16 - 16 + 8) s.x26, readable := s.readable, writable := s.writable, pc := 208, status := .running } : State) 28 = s' ∧ Returned s s' ∧
      val (2 ^ 64) [(s'.mem pr.toNat).toNat, (s'.mem (pr.toNat + 8)).toNat, (s'.mem (pr.toNat + 16)).toNat, (s'.mem (pr.toNat + 24)).toNat, (s'.mem (pr.toNat + 32)).toNat, (s'.mem (pr.toNat + 40)).toNat] < val (2 ^ 64) [p0.toNat, p1.toNat, p2.toNat, p3.toNat, p4.toNat, p5.toNat] ∧
      (val (2 ^ 64) [(s'.mem pr.toNat).toNat, (s'.mem (pr.toNat + 8)).toNat, (s'.mem (pr.toNat + 16)).toNat, (s'.mem (pr.toNat + 24)).toNat, (s'.mem (pr.toNat + 32)).toNat, (s'.mem (pr.toNat + 40)).toNat] * 2 ^ 384) % val (2 ^ 64) [p0.toNat, p1.toNat, p2.toNat, p3.toNat, p4.toNat, p5.toNat] = T % val (2 ^ 64) [p0.toNat, p1.toNat, p2.toNat, p3.toNat, p4.toNat, p5.toNat] ∧
      (∀ k, ¬(pr.toNat ≤ k ∧ k < pr.toNat + 48) → ¬(s.sp.toNat - 64 ≤ k ∧ k < s.sp.toNat) → s'.mem k = s.mem k) := by
  have ir0 := (t184.val).isLt; have ip0 := (p0).isLt
  have ir1 := (t189.val).isLt; have ip1 := (p1).isLt
  have ir2 := (t194.val).isLt; have ip2 := (p2).isLt
  have ir3 := (t199.val).isLt; have ip3 := (p3).isLt
  have ir4 := (t204.val).isLt; have ip4 := (p4).isLt
  have ir5 := (t207.val).isLt; have ip5 := (p5).isLt
  have c5 := cmp_eq ht208 hb209 hb210
  have c4 := cmp_eq ht211 hb212 hb213
  have c3 := cmp_eq ht214 hb215 hb216
  have c2 := cmp_eq ht217 hb218 hb219
  have c1 := cmp_hi ht220 hb221
  have hle : val (2 ^ 64) [p0.toNat, p1.toNat, p2.toNat, p3.toNat, p4.toNat, p5.toNat] ≤ val (2 ^ 64) [t184.val.toNat, t189.val.toNat, t194.val.toNat, t199.val.toNat, t204.val.toNat, t207.val.toNat] := by
    simp only [val_cons, val_nil]
    clear * - c5 c4 c3 c2 c1 ir0 ip0 ir1 ip1 ir2 ip2 ir3 ip3 ir4 ip4 ir5 ip5
    omega
  have hs := sub6_val ht225 ht226 ht227 ht228 ht229 ht230
  simp only [Bool.not_true, Bool.toNat_false, Nat.add_zero] at hs
  have hres := X86.mont_result hR2 hRe (Or.inr (sub_no_borrow hs hle (X86.val6_lt t225.val t226.val t227.val t228.val t229.val t230.val)))
  have hq := mont_tail_hi1 s pr pt pp inv hr ht hp hstk hrs hts hps (t73 := t73) (t106 := t106) (t139 := t139) (t172 := t172) (t175 := t175) (t184 := t184) (t189 := t189) (t194 := t194) (t198 := t198) (t199 := t199) (t204 := t204) (t205 := t205) (t207 := t207) (t225 := t225) (t226 := t226) (t227 := t227) (t228 := t228) (t229 := t229) (t230 := t230) (p0 := p0) (p1 := p1) (p2 := p2) (p3 := p3) (p4 := p4) (p5 := p5) (l176 := l176) (l200 := l200) ht208 ht211 ht214 ht217 ht220 ht225 ht226 ht227 ht228 ht229 ht230 hb209 hb210 hb212 hb213 hb215 hb216 hb218 hb219 hb221
  obtain ⟨rr0, rr1, rr2, rr3, rr4, rr5⟩ := hr.r6
  obtain ⟨⟨alrr0, alrr1, alrr2, alrr3, alrr4, alrr5⟩, frr1, frr2, frr3, frr4, frr5⟩ := hr.addr6
  have room4 := (hstk.f4 (by omega)).1
  replace hrs := Hide.mk (And.intro room4 hrs)
  simp only [OffStack] at hrs
  refine ⟨_, hq, ⟨rfl, rfl, rfl, rfl, rfl, rfl, rfl, rfl, rfl, rfl, rfl, rfl, rfl, rfl, rfl⟩, ?_, ?_, ?_⟩
  · simp only; a64_mem; exact hres.1
  · simp only; a64_mem; exact hres.2
  · intro k hk1 hk2
    simp (disch := (clear * - hk1 hk2 room4; omega)) only [setMem_ne]

set_option maxHeartbeats 1600000 in
theorem mont_tail_lo1 (s : State) (pr pt pp inv : Word)
    (hr : Buf s pr 6 true) (ht : Buf s pt 12 false) (hp : Buf s pp 6 false)
    (hstk : Stack s 4) (hrs : OffStack s 4 pr 6) (hts : OffStack s 4 pt 12) (hps : OffStack s 4 pp 6) {p0 p1 p2 p3 p4 p5 l176 l200 : Word} {t73 t106 t139 t172 t175 t184 t189 t194 t198 t199 t204 t205 t207 t220 : ArithRes}
    (ht208 : t208 = addWithCarry t207.val (~~~p5) true) (ht211 : t211 = addWithCarry t204.val (~~~p4) true)
    (ht214 : t214 = addWithCarry t199.val (~~~p3) true) (ht217 : t217 = addWithCarry t194.val (~~~p2) true)
    (ht220 : t220 = addWithCarry t189.val (~~~p1) true) (hb209 : (t208.c && !t208.z) = false) (hb210 : (!t208.c) = false)
    (hb212 : (t211.c && !t211.z) = false) (hb213 : (!t211.c) = false) (hb215 : (t214.c && !t214.z) = false)
    (hb216 : (!t214.c) = false) (hb218 : (t217.c && !t217.z) = false) (hb219 : (!t217.c) = false)
    (hb221 : (t220.c && !t220.z) = false) (hb222 : (!t220.c) = true) :
    run embedded_pairing_core_arch_aarch64_fpbase_384_montgomery_reduce ({ x0 := pr, x1 := l176, x2 := t175.val, x3 := inv, x4 := t73.val, x5 := t106.val, x6 := t139.val, x7 := t172.val, x8 := s.x8, x9 := t205.val, x10 := t184.val, x11 := t189.val, x12 := t194.val, x13 := t199.val, x14 := t204.val, x15 := t207.val, x16 := s.x16, x17 := s.x17, x18 := s.x18, x19 := p0, x20 := p1, x21 := p2, x22 := p3, x23 := p4, x24 := p5, x25 := t198.val, x26 := l200, x27 := s.x27, x28 := s.x28, x29 := s.x29, x30 := s.x30, sp := s.sp - 16#64 - 16#64 - 16#64 - 16#64, nf := some t207.n, zf := some t207.z, cf := some t207.c, vf := some t207.v, mem := setMem (setMem (setMem (setMem (setMem (setMem (setMem (setMem (s.mem) (s.sp.toNat - 16) s.x19) (s.sp.toNat - 16 + 8) s.x20) (s.sp.toNat - 16 - 16) s.x21) (s.sp.toNat - 16 - 16 + 8) s.x22) (s.sp.toNat - 16 - 16 - 16) s.x23) (s.sp.toNat - 16 - 16 - 16 + 8) s.x24) (s.sp.toNat - 16 - 16 - 16 - 16) s.x25) (s.sp.toNat - 16 - 16 - 16 - 16 + 8) s.x26, readable := s.readable, writable := s.writable, pc := 208, status := .running } : State) 23
      = ({ x0 := pr + 48#64, x1 := l176, x2 := t175.val, x3 := inv, x4 := t73.val, x5 := t106.val, x6 := t139.val, x7 := t172.val, x8 := s.x8, x9 := t205.val, x10 := t184.val, x11 := t189.val, x12 := t194.val, x13 := t199.val, x14 := t204.val, x15 := t207.val, x16 := s.x16, x17 := s.x17, x18 := s.x18, x19 := s.x19, x20 := s.x20, x21 := s.x21, x22 := s.x22, x23 := s.x23, x24 := s.x24, x25 := s.x25, x26 := s.x26, x27 := s.x27, x28 := s.x28, x29 := s.x29, x30 := s.x30, sp := s.sp, nf := some t220.n, zf := some t220.z, cf := some t220.c, vf := some t220.v, mem := setMem (setMem (setMem (setMem (setMem (setMem (setMem (setMem (setMem (setMem (setMem (setMem (setMem (setMem (s.mem) (s.sp.toNat - 16) s.x19) (s.sp.toNat - 16 + 8) s.x20) (s.sp.toNat - 16 - 16) s.x21) (s.sp.toNat - 16 - 16 + 8) s.x22) (s.sp.toNat - 16 - 16 - 16) s.x23) (s.sp.toNat - 16 - 16 - 16 + 8) s.x24) (s.sp.toNat - 16 - 16 - 16 - 16) s.x25) (s.sp.toNat - 16 - 16 - 16 - 16 + 8) s.x26) pr.toNat t184.val) (pr.toNat + 8) t189.val) (pr.toNat + 16) t194.val) (pr.toNat + 24) t199.val) (pr.toNat + 32) t204.val) (pr.toNat + 40) t207.val, readable := s.readable, writable := s.writable, pc := s.x30.toNat, status := .halted } : State) := by
  obtain ⟨rt0, rt1, rt2, rt3, rt4, rt5, rt6, rt7, rt8, rt9, rt10, rt11⟩ := ht.r12
  obtain ⟨⟨alrt0, alrt1, alrt2, alrt3, alrt4, alrt5, alrt6, alrt7, alrt8, alrt9, alrt10, alrt11⟩, frt1, frt2, frt3, frt4, frt5, frt6, frt7, frt8, frt9, frt10, frt11⟩ := ht.addr12
  obtain ⟨rp0, rp1, rp2, rp3, rp4, rp5⟩ := hp.r6
  obtain ⟨⟨alrp0, alrp1, alrp2, alrp3, alrp4, alrp5⟩, frp1, frp2, frp3, frp4, frp5⟩ := hp.addr6
  obtain ⟨rr0, rr1, rr2, rr3, rr4, rr5⟩ := hr.r6
  obtain ⟨wr0, wr1, wr2, wr3, wr4, wr5⟩ := hr.w6
  obtain ⟨⟨alrr0, alrr1, alrr2, alrr3, alrr4, alrr5⟩, frr1, frr2, frr3, frr4, frr5⟩ := hr.addr6
  have als0 := hstk.aligned
  obtain ⟨room1, als1, alq1a, alq1b, sr1a, sr1b, sw1a, sw1b⟩ := hstk.f1 (by omega)
  obtain ⟨room2, als2, alq2a, alq2b, sr2a, sr2b, sw2a, sw2b⟩ := hstk.f2 (by omega)
  obtain ⟨room3, als3, alq3a, alq3b, sr3a, sr3b, sw3a, sw3b⟩ := hstk.f3 (by omega)
  obtain ⟨room4, als4, alq4a, alq4b, sr4a, sr4b, sw4a, sw4b⟩ := hstk.f4 (by omega)
  replace hrs := Hide.mk (And.intro room4 hrs); replace hts := Hide.mk (And.intro room4 hts)
  replace hps := Hide.mk (And.intro room4 hps)
  simp only [OffStack] at hrs hts hps
  clear ht hp hr hstk
  a64_sym [← ht208, ← ht211, ← ht214, ← ht217, ← ht220, hb209, hb210, hb212, hb213, hb215, hb216, hb218, hb219, hb221, hb222]

set_option maxHeartbeats 1600000 in
set_option exponentiation.threshold 800 in
theorem mont_end_lo1 (s : State) (pr pt pp inv : Word) {p0 p1 p2 p3 p4 p5 l176 l200 : Word} {t73 t106 t139 t172 t175 t184 t189 t194 t198 t199 t204 t205 t207 t220 : ArithRes} {T U : Nat}
    (hr : Buf s pr 6 true) (ht : Buf s pt 12 false) (hp : Buf s pp 6 false)
    (hstk : Stack s 4) (hrs : OffStack s 4 pr 6) (hts : OffStack s 4 pt 12) (hps : OffStack s 4 pp 6)
    (ht208 : t208 = addWithCarry t207.val (~~~p5) true) (ht211 : t211 = addWithCarry t204.val (~~~p4) true)
    (ht214 : t214 = addWithCarry t199.val (~~~p3) true) (ht217 : t217 = addWithCarry t194.val (~~~p2) true)
    (ht220 : t220 = addWithCarry t189.val (~~~p1) true) (hb209 : (t208.c && !t208.z) = false) (hb210 : (!t208.c) = false)
    (hb212 : (t211.c && !t211.z) = false) (hb213 : (!t211.c) = false) (hb215 : (t214.c && !t214.z) = false)
    (hb216 : (!t214.c) = false) (hb218 : (t217.c && !t217.z) = false) (hb219 : (!t217.c) = false)
    (hb221 : (t220.c && !t220.z) = false) (hb222 : (!t220.c) = true)
    (hR2 : val (2 ^ 64) [t184.val.toNat, t189.val.toNat, t194.val.toNat, t199.val.toNat, t204.val.toNat, t207.val.toNat] < 2 * val (2 ^ 64) [p0.toNat, p1.toNat, p2.toNat, p3.toNat, p4.toNat, p5.toNat])
    (hRe : 2 ^ 384 * val (2 ^ 64) [t184.val.toNat, t189.val.toNat, t194.val.toNat, t199.val.toNat, t204.val.toNat, t207.val.toNat] = T + U * val (2 ^ 64) [p0.toNat, p1.toNat, p2.toNat, p3.toNat, p4.toNat, p5.toNat]) :
    ∃ s', run embedded_pairing_core_arch_aarch64_fpbase_384_montgomery_reduce ({ x0 := pr, x1 := l176, x2 := t175.val, x3 := inv, x4 := t73.val, x5 := t106.val, x6 := t139.val, x7 := t172.val, x8 := s.x8, x9 := t205.val, x10 := t184.val, x11 := t189.val, x12 := t194.val, x13 := t199.val, x14 := t204.val, x15 := t207.val, x16 := s.x16, x17 := s.x17, x18 := s.x18, x19 := p0, x20 := p1, x21 := p2, x22 := p3, x23 := p4, x24 := p5, x25 := t198.val, x26 := l200, x27 := s.x27, x28 := s.x28, x29 := s.x29, x30 := s.x30, sp := s.sp - 16#64 - 16#64 - 16#64 - 16#64, nf := some t207.n, zf := some t207.z, cf := some t207.c, vf := some t207.v, mem := setMem (setMem (setMem (setMem (setMem (setMem (setMem (setMem (s.mem) (s.sp.toNat - 16) s.x19) (s.sp.toNat - 16 + 8) s.x20) (s.sp.toNat - 16 - 16) s.x21) (s.sp.toNat - 16 - 16 + 8) s.x22) (s.sp.toNat - 16 - 16 - 16) s.x23) (s.sp.toNat - 16 - 16 - 16 + 8) s.x24) (s.sp.toNat - 16 - 16 - 16 - 16) s.x25) (s.sp.toNat - 16 - 16 - 16 - 16 + 8) s.x26, readable := s.readable, writable := s.writable, pc := 208, status := .running } : State) 23 = s' ∧ Returned s s' ∧
      val (2 ^ 64) [(s'.mem pr.toNat).toNat, (s'.mem (pr.toNat + 8)).toNat, (s'.mem (pr.toNat + 16)).toNat, (s'.mem (pr.toNat + 24)).toNat, (s'.mem (pr.toNat + 32)).toNat, (s'.mem (pr.toNat + 40)).toNat] < val (2 ^ 64) [p0.toNat, p1.toNat, p2.toNat, p3.toNat, p4.toNat, p5.toNat] ∧
      (val (2 ^ 64) [(s'.mem pr.toNat).toNat, (s'.mem (pr.toNat + 8)).toNat, (s'.mem (pr.toNat + 16)).toNat, (s'.mem (pr.toNat + 24)).toNat, (s'.mem (pr.toNat + 32)).toNat, (s'.mem (pr.toNat + 40)).toNat] * 2 ^ 384) % val (2 ^ 64) [p0.toNat, p1.toNat, p2.toNat, p3.toNat, p4.toNat, p5.toNat] = T % val (2 ^ 64) [p0.toNat, p1.toNat, p2.toNat, p3.toNat, p4.toNat, p5.toNat] ∧
      (∀ k, ¬(pr.toNat ≤ k ∧ k < pr.toNat + 48) → ¬(s.sp.toNat - 64 ≤ k ∧ k < s.sp.toNat) → s'.mem k = s.mem k) := by
  have ir0 := (t184.val).isLt; have ip0 := (p0).isLt
  have ir1 := (t189.val).isLt; have ip1 := (p1).isLt
  have ir2 := (t194.val).isLt; have ip2 := (p2).isLt
  have ir3 := (t199.val).isLt; have ip3 := (p3).isLt
  have ir4 := (t204.val).isLt; have ip4 := (p4).isLt
  have ir5 := (t207.val).isLt; have ip5 := (p5).isLt
  have c5 := cmp_eq ht208 hb209 hb210
  have c4 := cmp_eq ht211 hb212 hb213
  have c3 := cmp_eq ht214 hb215 hb216
  have c2 := cmp_eq ht217 hb218 hb219
  have c1 := cmp_lo ht220 hb222
  have hlt : val (2 ^ 64) [t184.val.toNat, t189.val.toNat, t194.val.toNat, t199.val.toNat, t204.val.toNat, t207.val.toNat] < val (2 ^ 64) [p0.toNat, p1.toNat, p2.toNat, p3.toNat, p4.toNat, p5.toNat] := by
    simp only [val_cons, val_nil]
    clear * - c5 c4 c3 c2 c1 ir0 ip0 ir1 ip1 ir2 ip2 ir3 ip3 ir4 ip4 ir5 ip5
    omega
  have hres := X86.mont_result hR2 hRe (Or.inl ⟨rfl, hlt⟩)
  have hq := mont_tail_lo1 s pr pt pp inv hr ht hp hstk hrs hts hps (t73 := t73) (t106 := t106) (t139 := t139) (t172 := t172) (t175 := t175) (t184 := t184) (t189 := t189) (t194 := t194) (t198 := t198) (t199 := t199) (t204 := t204) (t205 := t205) (t207 := t207) (t220 := t220) (p0 := p0) (p1 := p1) (p2 := p2) (p3 := p3) (p4 := p4) (p5 := p5) (l176 := l176) (l200 := l200) ht208 ht211 ht214 ht217 ht220 hb209 hb210 hb212 hb213 hb215 hb216 hb218 hb219 hb221 hb222
  obtain ⟨rr0, rr1, rr2, rr3, rr4, rr5⟩ := hr.r6
  obtain ⟨⟨alrr0, alrr1, alrr2, alrr3, alrr4, alrr5⟩, frr1, frr2, frr3, frr4, frr5⟩ := hr.addr6
  have room4 := (hstk.f4 (by omega)).1
  replace hrs := Hide.mk (And.intro room4 hrs)
  simp only [OffStack] at hrs
  refine ⟨_, hq, ⟨rfl, rfl, rfl, rfl, rfl, rfl, rfl, rfl, rfl, rfl, rfl, rfl, rfl, rfl, rfl⟩, ?_, ?_, ?_⟩
  · simp only; a64_mem; exact hres.1
  · simp only; a64_mem; exact hres.2
  · intro k hk1 hk2
    simp (disch := (clear * - hk1 hk2 room4; omega)) only [setMem_ne]

set_option maxHeartbeats 1600000 in
theorem mont_tail_lo0 (s : State) (pr pt pp inv : Word)
    (hr : Buf s pr 6 true) (ht : Buf s pt 12 false) (hp : Buf s pp 6 false)
    (hstk : Stack s 4) (hrs : OffStack s 4 pr 6) (hts : OffStack s 4 pt 12) (hps : OffStack s 4 pp 6) {p0 p1 p2 p3 p4 p5 l176 l200 : Word} {t73 t106 t139 t172 t175 t184 t189 t194 t198 t199 t204 t205 t207 t223 : ArithRes}
    (ht208 : t208 = addWithCarry t207.val (~~~p5) true) (ht211 : t211 = addWithCarry t204.val (~~~p4) true)
    (ht214 : t214 = addWithCarry t199.val (~~~p3) true) (ht217 : t217 = addWithCarry t194.val (~~~p2) true)
    (ht220 : t220 = addWithCarry t189.val (~~~p1) true) (ht223 : t223 = addWithCarry t184.val (~~~p0) true)
    (hb209 : (t208.c && !t208.z) = false) (hb210 : (!t208.c) = false) (hb212 : (t211.c && !t211.z) = false)
    (hb213 : (!t211.c) = false) (hb215 : (t214.c && !t214.z) = false) (hb216 : (!t214.c) = false)
    (hb218 : (t217.c && !t217.z) = false) (hb219 : (!t217.c) = false) (hb221 : (t220.c && !t220.z) = false)
    (hb222 : (!t220.c) = false) (hb224 : (!t223.c) = true) :
    run embedded_pairing_core_arch_aarch64_fpbase_384_montgomery_reduce ({ x0 := pr, x1 := l176, x2 := t175.val, x3 := inv, x4 := t73.val, x5 := t106.val, x6 := t139.val, x7 := t172.val, x8 := s.x8, x9 := t205.val, x10 := t184.val, x11 := t189.val, x12 := t194.val, x13 := t199.val, x14 := t204.val, x15 := t207.val, x16 := s.x16, x17 := s.x17, x18 := s.x18, x19 := p0, x20 := p1, x21 := p2, x22 := p3, x23 := p4, x24 := p5, x25 := t198.val, x26 := l200, x27 := s.x27, x28 := s.x28, x29 := s.x29, x30 := s.x30, sp := s.sp - 16#64 - 16#64 - 16#64 - 16#64, nf := some t207.n, zf := some t207.z, cf := some t207.c, vf := some t207.v, mem := setMem (setMem (setMem (setMem (setMem (setMem (setMem (setMem (s.mem) (s.sp.toNat - 16) s.x19) (s.sp.toNat - 16 + 8) s.x20) (s.sp.toNat - 16 - 16) s.x21) (s.sp.toNat - 16 - 16 + 8) s.x22) (s.sp.toNat - 16 - 16 - 16) s.x23) (s.sp.toNat - 16 - 16 - 16 + 8) s.x24) (s.sp.toNat - 16 - 16 - 16 - 16) s.x25) (s.sp.toNat - 16 - 16 - 16 - 16 + 8) s.x26, readable := s.readable, writable := s.writable, pc := 208, status := .running } : State) 25
      = ({ x0 := pr + 48#64, x1 := l176, x2 := t175.val, x3 := inv, x4 := t73.val, x5 := t106.val, x6 := t139.val, x7 := t172.val, x8 := s.x8, x9 := t205.val, x10 := t184.val, x11 := t189.val, x12 := t194.val, x13 := t199.val, x14 := t204.val, x15 := t207.val, x16 := s.x16, x17 := s.x17, x18 := s.x18, x19 := s.x19, x20 := s.x20, x21 := s.x21, x22 := s.x22, x23 := s.x23, x24 := s.x24, x25 := s.x25, x26 := s.x26, x27 := s.x27, x28 := s.x28, x29 := s.x29, x30 := s.x30, sp := s.sp, nf := some t223.n, zf := some t223.z, cf := some t223.c, vf := some t223.v, mem := setMem (setMem (setMem (setMem (setMem (setMem (setMem (setMem (setMem (setMem (setMem (setMem (setMem (setMem (s.mem) (s.sp.toNat - 16) s.x19) (s.sp.toNat - 16 + 8) s.x20) (s.sp.toNat - 16 - 16) s.x21) (s.sp.toNat - 16 - 16 + 8) s.x22) (s.sp.toNat - 16 - 16 - 16) s.x23) (s.sp.toNat - 16 - 16 - 16 + 8) s.x24) (s.sp.toNat - 16 - 16 - 16 - 16) s.x25) (s.sp.toNat - 16 - 16 - 16 - 16 + 8) s.x26) pr.toNat t184.val) (pr.toNat + 8) t189.val) (pr.toNat + 16) t194.val) (pr.toNat + 24) t199.val) (pr.toNat + 32) t204.val) (pr.toNat + 40) t207.val, readable := s.readable, writable := s.writable, pc := s.x30.toNat, status := .halted } : State) := by
  obtain ⟨rt0, rt1, rt2, rt3, rt4, rt5, rt6, rt7, rt8, rt9, rt10, rt11⟩ := ht.r12
  obtain ⟨⟨alrt0, alrt1, alrt2, alrt3, alrt4, alrt5, alrt6, alrt7, alrt8, alrt9, alrt10, alrt11⟩, frt1, frt2, frt3, frt4, frt5, frt6, frt7, frt8, frt9, frt10, frt11⟩ := ht.addr12
  obtain ⟨rp0, rp1, rp2, rp3, rp4, rp5⟩ := hp.r6
  obtain ⟨⟨alrp0, alrp1, alrp2, alrp3, alrp4, alrp5⟩, frp1, frp2, frp3, frp4, frp5⟩ := hp.addr6
  obtain ⟨rr0, rr1, rr2, rr3, rr4, rr5⟩ := hr.r6
  obtain ⟨wr0, wr1, wr2, wr3, wr4, wr5⟩ := hr.w6
  obtain ⟨⟨alrr0, alrr1, alrr2, alrr3, alrr4, alrr5⟩, frr1, frr2, frr3, frr4, frr5⟩ := hr.addr6
  have als0 := hstk.aligned
  obtain ⟨room1, als1, alq1a, alq1b, sr1a, sr1b, sw1a, sw1b⟩ := hstk.f1 (by omega)
  obtain ⟨room2, als2, alq2a, alq2b, sr2a, sr2b, sw2a, sw2b⟩ := hstk.f2 (by omega)
  obtain ⟨room3, als3, alq3a, alq3b, sr3a, sr3b, sw3a, sw3b⟩ := hstk.f3 (by omega)
  obtain ⟨room4, als4, alq4a, alq4b, sr4a, sr4b, sw4a, sw4b⟩ := hstk.f4 (by omega)
  replace hrs := Hide.mk (And.intro room4 hrs); replace hts := Hide.mk (And.intro room4 hts)
  replace hps := Hide.mk (And.intro room4 hps)
  simp only [OffStack] at hrs hts hps
  clear ht hp hr hstk
  a64_sym [← ht208, ← ht211, ← ht214, ← ht217, ← ht220, ← ht223, hb209, hb210, hb212, hb213, hb215, hb216, hb218, hb219, hb221, hb222, hb224]

set_option maxHeartbeats 1600000 in
set_option exponentiation.threshold 800 in
theorem mont_end_lo0 (s : State) (pr pt pp inv : Word) {p0 p1 p2 p3 p4 p5 l176 l200 : Word} {t73 t106 t139 t172 t175 t184 t189 t194 t198 t199 t204 t205 t207 t223 : ArithRes} {T U : Nat}
    (hr : Buf s pr 6 true) (ht : Buf s pt 12 false) (hp : Buf s pp 6 false)
    (hstk : Stack s 4) (hrs : OffStack s 4 pr 6) (hts : OffStack s 4 pt 12) (hps : OffStack s 4 pp 6)
    (ht208 : t208 = addWithCarry t207.val (~~~p5) true) (ht211 : t211 = addWithCarry t204.val (~~~p4) true)
    (ht214 : t214 = addWithCarry t199.val (~~~p3) true) (ht217 : t217 = addWithCarry t194.val (~~~p2) true)
    (ht220 : t220 = addWithCarry t189.val (~~~p1) true) (ht223 : t223 = addWithCarry t184.val (~~~p0) true)
    (hb209 : (t208.c && !t208.z) = false) (hb210 : (!t208.c) = false) (hb212 : (t211.c && !t211.z) = false)
    (hb213 : (!t211.c) = false) (hb215 : (t214.c && !t214.z) = false) (hb216 : (!t214.c) = false)
    (hb218 : (t217.c && !t217.z) = false) (hb219 : (!t217.c) = false) (hb221 : (t220.c && !t220.z) = false)
    (hb222 : (!t220.c) = false) (hb224 : (!t223.c) = true)
    (hR2 : val (2 ^ 64) [t184.val.toNat, t189.val.toNat, t194.val.toNat, t199.val.toNat, t204.val.toNat, t207.val.toNat] < 2 * val (2 ^ 64) [p0.toNat, p1.toNat, p2.toNat, p3.toNat, p4.toNat, p5.toNat])
    (hRe : 2 ^ 384 * val (2 ^ 64) [t184.val.toNat, t189.val.toNat, t194.val.toNat, t199.val.toNat, t204.val.toNat, t207.val.toNat] = T + U * val (2 ^ 64) [p0.toNat, p1.toNat, p2.toNat, p3.toNat, p4.toNat, p5.toNat]) :
    ∃ s', run embedded_pairing_core_arch_aarch64_fpbase_384_montgomery_reduce ({ x0 := pr, x1 := l176, x2 := t175.val, x3 := inv, x4 := t73.val, x5 := t106.val, x6 := t139.val, x7 := t172.val, x8 := s.x8, x9 := t205.val, x10 := t184.val, x11 := t189.val, x12 := t194.val, x13 := t199.val, x14 := t204.val, x15 := t207.val, x16 := s.x16, x17 := s.x17, x18 := s.x18, x19 := p0, x20 := p1, x21 := p2, x22 := p3, x23 := p4, x24 := p5, x25 := t198.val, x26 := l200, x27 := s.x27, x28 := s.x28, x29 := s.x29, x30 := s.x30, sp := s.sp - 16#64 - 16#64 - 16#64 - 16#64, nf := some t207.n, zf := some t207.z, cf := some t207.c, vf := some t207.v, mem := setMem (setMem (setMem (setMem (setMem (setMem (setMem (setMem (s.mem) (s.sp.toNat - 16) s.x19) (s.sp.toNat - 16 + 8) s.x20) (s.sp.toNat - 16 - 16) s.x21) (s.sp.toNat - 16 - 16 + 8) s.x22) (s.sp.toNat - 16 - 16 - 16) s.x23) (s.sp.toNat - 16 - 16 - 16 + 8) s.x24) (s.sp.toNat - 16 - 16 - 16 - 16) s.x25) (s.sp.toNat - 16 - 16 - 16 - 16 + 8) s.x26, readable := s.readable, writable := s.writable, pc := 208, status := .running } : State) 25 = s' ∧ Returned s s' ∧
      val (2 ^ 64) [(s'.mem pr.toNat).toNat, (s'.mem (pr.toNat + 8)).toNat, (s'.mem (pr.toNat + 16)).toNat, (s'.mem (pr.toNat + 24)).toNat, (s'.mem (pr.toNat + 32)).toNat, (s'.mem (pr.toNat + 40)).toNat] < val (2 ^ 64) [p0.toNat, p1.toNat, p2.toNat, p3.toNat, p4.toNat, p5.toNat] ∧
      (val (2 ^ 64) [(s'.mem pr.toNat).toNat, (s'.mem (pr.toNat + 8)).toNat, (s'.mem (pr.toNat + 16)).toNat, (s'.mem (pr.toNat + 24)).toNat, (s'.mem (pr.toNat + 32)).toNat, (s'.mem (pr.toNat + 40)).toNat] * 2 ^ 384) % val (2 ^ 64) [p0.toNat, p1.toNat, p2.toNat, p3.toNat, p4.toNat, p5.toNat] = T % val (2 ^ 64) [p0.toNat, p1.toNat, p2.toNat, p3.toNat, p4.toNat, p5.toNat] ∧
      (∀ k, ¬(pr.toNat ≤ k ∧ k < pr.toNat + 48) → ¬(s.sp.toNat - 64 ≤ k ∧ k < s.sp.toNat) → s'.mem k = s.mem k) := by
  have ir0 := (t184.val).isLt; have ip0 := (p0).isLt
  have ir1 := (t189.val).isLt; have ip1 := (p1).isLt
  have ir2 := (t194.val).isLt; have ip2 := (p2).isLt
  have ir3 := (t199.val).isLt; have ip3 := (p3).isLt
  have ir4 := (t204.val).isLt; have ip4 := (p4).isLt
  have ir5 := (t207.val).isLt; have ip5 := (p5).isLt
  have c5 := cmp_eq ht208 hb209 hb210
  have c4 := cmp_eq ht211 hb212 hb213
  have c3 := cmp_eq ht214 hb215 hb216
  have c2 := cmp_eq ht217 hb218 hb219
  have c1 := cmp_eq ht220 hb221 hb222
  have c0 := cmp_lo ht223 hb224
  have hlt : val (2 ^ 64) [t184.val.toNat, t189.val.toNat, t194.val.toNat, t199.val.toNat, t204.val.toNat, t207.val.toNat] < val (2 ^ 64) [p0.toNat, p1.toNat, p2.toNat, p3.toNat, p4.toNat, p5.toNat] := by
    simp only [val_cons, val_nil]
    clear * - c5 c4 c3 c2 c1 c0 ir0 ip0 ir1 ip1 ir2 ip2 ir3 ip3 ir4 ip4 ir5 ip5
    omega
  have hres := X86.mont_result hR2 hRe (Or.inl ⟨rfl, hlt⟩)
  have hq := mont_tail_lo0 s pr pt pp inv hr ht hp hstk hrs hts hps (t73 := t73) (t106 := t106) (t139 := t139) (t172 := t172) (t175 := t175) (t184 := t184) (t189 := t189) (t194 := t194) (t198 := t198) (t199 := t199) (t204 := t204) (t205 := t205) (t207 := t207) (t223 := t223) (p0 := p0) (p1 := p1) (p2 := p2) (p3 := p3) (p4 := p4) (p5 := p5) (l176 := l176) (l200 := l200) ht208 ht211 ht214 ht217 ht220 ht223 hb209 hb210 hb212 hb213 hb215 hb216 hb218 hb219 hb221 hb222 hb224
  obtain ⟨rr0, rr1, rr2, rr3, rr4, rr5⟩ := hr.r6
  obtain ⟨⟨alrr0, alrr1, alrr2, alrr3, alrr4, alrr5⟩, frr1, frr2, frr3, frr4, frr5⟩ := hr.addr6
  have room4 := (hstk.f4 (by omega)).1
  replace hrs := Hide.mk (And.intro room4 hrs)
  simp only [OffStack] at hrs
  refine ⟨_, hq, ⟨rfl, rfl, rfl, rfl, rfl, rfl, rfl, rfl, rfl, rfl, rfl, rfl, rfl, rfl, rfl⟩, ?_, ?_, ?_⟩
  · simp only; a64_mem; exact hres.1
  · simp only; a64_mem; exact hres.2
  · intro k hk1 hk2
    simp (disch := (clear * - hk1 hk2 room4; omega)) only [setMem_ne]

set_option maxHeartbeats 1600000 in
theorem mont_tail_hs0 (s : State) (pr pt pp inv : Word)
    (hr : Buf s pr 6 true) (ht : Buf s pt 12 false) (hp : Buf s pp 6 false)
    (hstk : Stack s 4) (hrs : OffStack s 4 pr 6) (hts : OffStack s 4 pt 12) (hps : OffStack s 4 pp 6) {p0 p1 p2 p3 p4 p5 l176 l200 : Word} {t73 t106 t139 t172 t175 t184 t189 t194 t198 t199 t204 t205 t207 t223 t226e t227e t228e t229e t230e : ArithRes}
    (ht208 : t208 = addWithCarry t207.val (~~~p5) true) (ht211 : t211 = addWithCarry t204.val (~~~p4) true)
    (ht214 : t214 = addWithCarry t199.val (~~~p3) true) (ht217 : t217 = addWithCarry t194.val (~~~p2) true)
    (ht220 : t220 = addWithCarry t189.val (~~~p1) true) (ht223 : t223 = addWithCarry t184.val (~~~p0) true)
    (ht226e : t226e = addWithCarry t189.val (~~~p1) t223.c) (ht227e : t227e = addWithCarry t194.val (~~~p2) t226e.c)
    (ht228e : t228e = addWithCarry t199.val (~~~p3) t227e.c) (ht229e : t229e = addWithCarry t204.val (~~~p4) t228e.c)
    (ht230e : t230e = addWithCarry t207.val (~~~p5) t229e.c) (hb209 : (t208.c && !t208.z) = false)
    (hb210 : (!t208.c) = false) (hb212 : (t211.c && !t211.z) = false) (hb213 : (!t211.c) = false)
    (hb215 : (t214.c && !t214.z) = false) (hb216 : (!t214.c) = false) (hb218 : (t217.c && !t217.z) = false)
    (hb219 : (!t217.c) = false) (hb221 : (t220.c && !t220.z) = false) (hb222 : (!t220.c) = false)
    (hb224 : (!t223.c) = false) :
    run embedded_pairing_core_arch_aarch64_fpbase_384_montgomery_reduce ({ x0 := pr, x1 := l176, x2 := t175.val, x3 := inv, x4 := t73.val, x5 := t106.val, x6 := t139.val, x7 := t172.val, x8 := s.x8, x9 := t205.val, x10 := t184.val, x11 := t189.val, x12 := t194.val, x13 := t199.val, x14 := t204.val, x15 := t207.val, x16 := s.x16, x17 := s.x17, x18 := s.x18, x19 := p0, x20 := p1, x21 := p2, x22 := p3, x23 := p4, x24 := p5, x25 := t198.val, x26 := l200, x27 := s.x27, x28 := s.x28, x29 := s.x29, x30 := s.x30, sp := s.sp - 16#64 - 16#64 - 16#64 - 16#64, nf := some t207.n, zf := some t207.z, cf := some t207.c, vf := some t207.v, mem := setMem (setMem (setMem (setMem (setMem (setMem (setMem (setMem (s.mem) (s.sp.toNat - 16) s.x19) (s.sp.toNat - 16 + 8) s.x20) (s.sp.toNat - 16 - 16) s.x21) (s.sp.toNat - 16 - 16 + 8) s.x22) (s.sp.toNat - 16 - 16 - 16) s.x23) (s.sp.toNat - 16 - 16 - 16 + 8) s.x24) (s.sp.toNat - 16 - 16 - 16 - 16) s.x25) (s.sp.toNat - 16 - 16 - 16 - 16 + 8) s.x26, readable := s.readable, writable := s.writable, pc := 208, status := .running } : State) 31
      = ({ x0 := pr + 48#64, x1 := l176, x2 := t175.val, x3 := inv, x4 := t73.val, x5 := t106.val, x6 := t139.val, x7 := t172.val, x8 := s.x8, x9 := t205.val, x10 := t223.val, x11 := t226e.val, x12 := t227e.val, x13 := t228e.val, x14 := t229e.val, x15 := t230e.val, x16 := s.x16, x17 := s.x17, x18 := s.x18, x19 := s.x19, x20 := s.x20, x21 := s.x21, x22 := s.x22, x23 := s.x23, x24 := s.x24, x25 := s.x25, x26 := s.x26, x27 := s.x27, x28 := s.x28, x29 := s.x29, x30 := s.x30, sp := s.sp, nf := some t230e.n, zf := some t230e.z, cf := some t230e.c, vf := some t230e.v, mem := setMem (setMem (setMem (setMem (setMem (setMem (setMem (setMem (setMem (setMem (setMem (setMem (setMem (setMem (s.mem) (s.sp.toNat - 16) s.x19) (s.sp.toNat - 16 + 8) s.x20) (s.sp.toNat - 16 - 16) s.x21) (s.sp.toNat - 16 - 16 + 8) s.x22) (s.sp.toNat - 16 - 16 - 16) s.x23) (s.sp.toNat - 16 - 16 - 16 + 8) s.x24) (s.sp.toNat - 16 - 16 - 16 - 16) s.x25) (s.sp.toNat - 16 - 16 - 16 - 16 + 8) s.x26) pr.toNat t223.val) (pr.toNat + 8) t226e.val) (pr.toNat + 16) t227e.val) (pr.toNat + 24) t228e.val) (pr.toNat + 32) t229e.val) (pr.toNat + 40) t230e.val, readable := s.readable, writable := s.writable, pc := s.x30.toNat, status := .halted } : State) := by
  obtain ⟨rt0, rt1, rt2, rt3, rt4, rt5, rt6, rt7, rt8, rt9, rt10, rt11⟩ := ht.r12
  obtain ⟨⟨alrt0, alrt1, alrt2, alrt3, alrt4, alrt5, alrt6, alrt7, alrt8, alrt9, alrt10, alrt11⟩, frt1, frt2, frt3, frt4, frt5, frt6, frt7, frt8, frt9, frt10, frt11⟩ := ht.addr12
  obtain ⟨rp0, rp1, rp2, rp3, rp4, rp5⟩ := hp.r6
  obtain ⟨⟨alrp0, alrp1, alrp2, alrp3, alrp4, alrp5⟩, frp1, frp2, frp3, frp4, frp5⟩ := hp.addr6
  obtain ⟨rr0, rr1, rr2, rr3, rr4, rr5⟩ := hr.r6
  obtain ⟨wr0, wr1, wr2, wr3, wr4, wr5⟩ := hr.w6
  obtain ⟨⟨alrr0, alrr1, alrr2, alrr3, alrr4, alrr5⟩, frr1, frr2, frr3, frr4, frr5⟩ := hr.addr6
  have als0 := hstk.aligned
  obtain ⟨room1, als1, alq1a, alq1b, sr1a, sr1b, sw1a, sw1b⟩ := hstk.f1 (by omega)
  obtain ⟨room2, als2, alq2a, alq2b, sr2a, sr2b, sw2a, sw2b⟩ := hstk.f2 (by omega)
  obtain ⟨room3, als3, alq3a, alq3b, sr3a, sr3b, sw3a, sw3b⟩ := hstk.f3 (by omega)
  obtain ⟨room4, als4, alq4a, alq4b, sr4a, sr4b, sw4a, sw4b⟩ := hstk.f4 (by omega)
  replace hrs := Hide.mk (And.intro room4 hrs); replace hts := Hide.mk (And.intro room4 hts)
  replace hps := Hide.mk (And.intro room4 hps)
  simp only [OffStack] at hrs hts hps
  clear ht hp hr hstk
  a64_sym [← ht208, ← ht211, ← ht214, ← ht217, ← ht220, ← ht223, ← ht226e, ← ht227e, ← ht228e, ← ht229e, ← ht230e, hb209, hb210, hb212, hb213, hb215, hb216, hb218, hb219, hb221, hb222, hb224]

set_option maxHeartbeats 1600000 in
set_option exponentiation.threshold 800 in
theorem mont_end_hs0 (s : State) (pr pt pp inv : Word) {p0 p1 p2 p3 p4 p5 l176 l200 : Word} {t73 t106 t139 t172 t175 t184 t189 t194 t198 t199 t204 t205 t207 t223 t226e t227e t228e t229e t230e : ArithRes} {T U : Nat}
    (hr : Buf s pr 6 true) (ht : Buf s pt 12 false) (hp : Buf s pp 6 false)
    (hstk : Stack s 4) (hrs : OffStack s 4 pr 6) (hts : OffStack s 4 pt 12) (hps : OffStack s 4 pp 6)
    (ht208 : t208 = addWithCarry t207.val (~~~p5) true) (ht211 : t211 = addWithCarry t204.val (~~~p4) true)
    (ht214 : t214 = addWithCarry t199.val (~~~p3) true) (ht217 : t217 = addWithCarry t194.val (~~~p2) true)
    (ht220 : t220 = addWithCarry t189.val (~~~p1) true) (ht223 : t223 = addWithCarry t184.val (~~~p0) true)
    (ht226e : t226e = addWithCarry t189.val (~~~p1) t223.c) (ht227e : t227e = addWithCarry t194.val (~~~p2) t226e.c)
    (ht228e : t228e = addWithCarry t199.val (~~~p3) t227e.c) (ht229e : t229e = addWithCarry t204.val (~~~p4) t228e.c)
    (ht230e : t230e = addWithCarry t207.val (~~~p5) t229e.c) (hb209 : (t208.c && !t208.z) = false)
    (hb210 : (!t208.c) = false) (hb212 : (t211.c && !t211.z) = false) (hb213 : (!t211.c) = false)
    (hb215 : (t214.c && !t214.z) = false) (hb216 : (!t214.c) = false) (hb218 : (t217.c && !t217.z) = false)
    (hb219 : (!t217.c) = false) (hb221 : (t220.c && !t220.z) = false) (hb222 : (!t220.c) = false)
    (hb224 : (!t223.c) = false)
    (hR2 : val (2 ^ 64) [t184.val.toNat, t189.val.toNat, t194.val.toNat, t199.val.toNat, t204.val.toNat, t207.val.toNat] < 2 * val (2 ^ 64) [p0.toNat, p1.toNat, p2.toNat, p3.toNat, p4.toNat, p5.toNat])
    (hRe : 2 ^ 384 * val (2 ^ 64) [t184.val.toNat, t189.val.toNat, t194.val.toNat, t199.val.toNat, t204.val.toNat, t207.val.toNat] = T + U * val (2 ^ 64) [p0.toNat, p1.toNat, p2.toNat, p3.toNat, p4.toNat, p5.toNat]) :
    ∃ s', run embedded_pairing_core_arch_aarch64_fpbase_384_montgomery_reduce ({ x0 := pr, x1 := l176, x2 := t175.val, x3 := inv, x4 := t73.val, x5 := t106.val, x6 := t139.val, x7 := t172.val, x8 := s.x8, x9 := t205.val, x10 := t184.val, x11 := t189.val, x12 := t194.val, x13 := t199.val, x14 := t204.val, x15 := t207.val, x16 := s.x16, x17 := s.x17, x18 := s.x18, x19 := p0, x20 := p1, x21 := p2, x22 := p3, x23 := p4, x24 := p5, x25 := t198.val, x26 := l200, x27 := s.x27, x28 := s.x28, x29 := s.x29, x30 := s.x30, sp := s.sp - 16#64 - 16#64 - 16#64 - 16#64, nf := some t207.n, zf := some t207.z, cf := some t207.c, vf := some t207.v, mem := setMem (setMem (setMem (setMem (setMem (setMem (setMem (setMem (s.mem) (s.sp.toNat - 16) s.x19) (s.sp.toNat - 16 + 8) s.x20) (s.sp.toNat - 16 - 16) s.x21) (s.sp.toNat - 16 - 16 + 8) s.x22) (s.sp.toNat - 16 - 16 - 16) s.x23) (s.sp.toNat - 16 - 16 - 16 + 8) s.x24) (s.sp.toNat - 16 - 16 - 16 - 16) s.x25) (s.sp.toNat - 16 - 16 - 16 - 16 + 8) s.x26, readable := s.readable, writable := s.writable, pc := 208, status := .running } : State) 31 = s' ∧ Returned s s' ∧
      val (2 ^ 64) [(s'.mem pr.toNat).toNat, (s'.mem (pr.toNat + 8)).toNat, (s'.mem (pr.toNat + 16)).toNat, (s'.mem (pr.toNat + 24)).toNat, (s'.mem (pr.toNat + 32)).toNat, (s'.mem (pr.toNat + 40)).toNat] < val (2 ^ 64) [p0.toNat, p1.toNat, p2.toNat, p3.toNat, p4.toNat, p5.toNat] ∧
      (val (2 ^ 64) [(s'.mem pr.toNat).toNat, (s'.mem (pr.toNat + 8)).toNat, (s'.mem (pr.toNat + 16)).toNat, (s'.mem (pr.toNat + 24)).toNat, (s'.mem (pr.toNat + 32)).toNat, (s'.mem (pr.toNat + 40)).toNat] * 2 ^ 384) % val (2 ^ 64) [p0.toNat, p1.toNat, p2.toNat, p3.toNat, p4.toNat, p5.toNat] = T % val (2 ^ 64) [p0.toNat, p1.toNat, p2.toNat, p3.toNat, p4.toNat, p5.toNat] ∧
      (∀ k, ¬(pr.toNat ≤ k ∧ k < pr.toNat + 48) → ¬(s.sp.toNat - 64 ≤ k ∧ k < s.sp.toNat) → s'.mem k = s.mem k) := by
  have ir0 := (t184.val).isLt; have ip0 := (p0).isLt
  have ir1 := (t189.val).isLt; have ip1 := (p1).isLt
  have ir2 := (t194.val).isLt; have ip2 := (p2).isLt
  have ir3 := (t199.val).isLt; have ip3 := (p3).isLt
  have ir4 := (t204.val).isLt; have ip4 := (p4).isLt
  have ir5 := (t207.val).isLt; have ip5 := (p5).isLt
  have c5 := cmp_eq ht208 hb209 hb210
  have c4 := cmp_eq ht211 hb212 hb213
  have c3 := cmp_eq ht214 hb215 hb216
  have c2 := cmp_eq ht217 hb218 hb219
  have c1 := cmp_eq ht220 hb221 hb222
  have c0 := cmp_hs ht223 hb224
  have hle : val (2 ^ 64) [p0.toNat, p1.toNat, p2.toNat, p3.toNat, p4.toNat, p5.toNat] ≤ val (2 ^ 64) [t184.val.toNat, t189.val.toNat, t194.val.toNat, t199.val.toNat, t204.val.toNat, t207.val.toNat] := by
    simp only [val_cons, val_nil]
    clear * - c5 c4 c3 c2 c1 c0 ir0 ip0 ir1 ip1 ir2 ip2 ir3 ip3 ir4 ip4 ir5 ip5
    omega
  have hs := sub6_val ht223 ht226e ht227e ht228e ht229e ht230e
  simp only [Bool.not_true, Bool.toNat_false, Nat.add_zero] at hs
  have hres := X86.mont_result hR2 hRe (Or.inr (sub_no_borrow hs hle (X86.val6_lt t223.val t226e.val t227e.val t228e.val t229e.val t230e.val)))
  have hq := mont_tail_hs0 s pr pt pp inv hr ht hp hstk hrs hts hps (t73 := t73) (t106 := t106) (t139 := t139) (t172 := t172) (t175 := t175) (t184 := t184) (t189 := t189) (t194 := t194) (t198 := t198) (t199 := t199) (t204 := t204) (t205 := t205) (t207 := t207) (t223 := t223) (t226e := t226e) (t227e := t227e) (t228e := t228e) (t229e := t229e) (t230e := t230e) (p0 := p0) (p1 := p1) (p2 := p2) (p3 := p3) (p4 := p4) (p5 := p5) (l176 := l176) (l200 := l200) ht208 ht211 ht214 ht217 ht220 ht223 ht226e ht227e ht228e ht229e ht230e hb209 hb210 hb212 hb213 hb215 hb216 hb218 hb219 hb221 hb222 hb224
  obtain ⟨rr0, rr1, rr2, rr3, rr4, rr5⟩ := hr.r6
  obtain ⟨⟨alrr0, alrr1, alrr2, alrr3, alrr4, alrr5⟩, frr1, frr2, frr3, frr4, frr5⟩ := hr.addr6
  have room4 := (hstk.f4 (by omega)).1
  replace hrs := Hide.mk (And.intro room4 hrs)
  simp only [OffStack] at hrs
  refine ⟨_, hq, ⟨rfl, rfl, rfl, rfl, rfl, rfl, rfl, rfl, rfl, rfl, rfl, rfl, rfl, rfl, rfl⟩, ?_, ?_, ?_⟩
  · simp only; a64_mem; exact hres.1
  · simp only; a64_mem; exact hres.2
  · intro k hk1 hk2
    simp (disch := (clear * - hk1 hk2 room4; omega)) only [setMem_ne]


set_option maxHeartbeats 1600000 in
set_option exponentiation.threshold 800 in
/-- `void fpbase_384_montgomery_reduce(res, T, p, inv)`: `res < P` and `res · 2^384 ≡ T (mod P)` -/
theorem fpbase_384_montgomery_reduce_run (s : State) (pr pt pp inv : Word)
    (hst : s.status = .running) (hpc : s.pc = 0) (h0 : s.x0 = pr) (h1 : s.x1 = pt) (h2 : s.x2 = pp) (h3 : s.x3 = inv)
    (hr : Buf s pr 6 true) (ht : Buf s pt 12 false) (hp : Buf s pp 6 false)
    (hstk : Stack s 4) (hrs : OffStack s 4 pr 6) (hts : OffStack s 4 pt 12) (hps : OffStack s 4 pp 6)
    (hinv : (inv.toNat * val (2 ^ 64) (limbs s.mem pp.toNat 6) + 1) % 2 ^ 64 = 0)
    (hT : val (2 ^ 64) (limbs s.mem pt.toNat 12) < val (2 ^ 64) (limbs s.mem pp.toNat 6) * 2 ^ 384)
    (h2P : 2 * val (2 ^ 64) (limbs s.mem pp.toNat 6) ≤ 2 ^ 384) :
    ∃ s', run embedded_pairing_core_arch_aarch64_fpbase_384_montgomery_reduce s 239 = s' ∧ Returned s s' ∧
      val (2 ^ 64) (limbs s'.mem pr.toNat 6) < val (2 ^ 64) (limbs s.mem pp.toNat 6) ∧
      (val (2 ^ 64) (limbs s'.mem pr.toNat 6) * 2 ^ 384) % val (2 ^ 64) (limbs s.mem pp.toNat 6)
        = val (2 ^ 64) (limbs s.mem pt.toNat 12) % val (2 ^ 64) (limbs s.mem pp.toNat 6) ∧
      (∀ k, ¬(pr.toNat ≤ k ∧ k < pr.toNat + 48) → ¬(s.sp.toNat - 64 ≤ k ∧ k < s.sp.toNat) → s'.mem k = s.mem k) := by
  simp only [limbs_six, limbs_twelve, Nat.add_zero] at hinv hT h2P ⊢
  obtain ⟨w0, hw0⟩ : ∃ x, x = s.mem pt.toNat := ⟨_, rfl⟩
  obtain ⟨w1, hw1⟩ : ∃ x, x = s.mem (pt.toNat + 8) := ⟨_, rfl⟩
  obtain ⟨w2, hw2⟩ : ∃ x, x = s.mem (pt.toNat + 16) := ⟨_, rfl⟩
  obtain ⟨w3, hw3⟩ : ∃ x, x = s.mem (pt.toNat + 24) := ⟨_, rfl⟩
  obtain ⟨w4, hw4⟩ : ∃ x, x = s.mem (pt.toNat + 32) := ⟨_, rfl⟩
  obtain ⟨w5, hw5⟩ : ∃ x, x = s.mem (pt.toNat + 40) := ⟨_, rfl⟩
  obtain ⟨w6, hw6⟩ : ∃ x, x = s.mem (pt.toNat + 48) := ⟨_, rfl⟩
  obtain ⟨w7, hw7⟩ : ∃ x, x = s.mem (pt.toNat + 56) := ⟨_, rfl⟩
  obtain ⟨w8, hw8⟩ : ∃ x, x = s.mem (pt.toNat + 64) := ⟨_, rfl⟩
  obtain ⟨w9, hw9⟩ : ∃ x, x = s.mem (pt.toNat + 72) := ⟨_, rfl⟩
  obtain ⟨w10, hw10⟩ : ∃ x, x = s.mem (pt.toNat + 80) := ⟨_, rfl⟩
  obtain ⟨w11, hw11⟩ : ∃ x, x = s.mem (pt.toNat + 88) := ⟨_, rfl⟩
  obtain ⟨p0, hp0⟩ : ∃ x, x = s.mem pp.toNat := ⟨_, rfl⟩
  obtain ⟨p1, hp1⟩ : ∃ x, x = s.mem (pp.toNat + 8) := ⟨_, rfl⟩
  obtain ⟨p2, hp2⟩ : ∃ x, x = s.mem (pp.toNat + 16) := ⟨_, rfl⟩
  obtain ⟨p3, hp3⟩ : ∃ x, x = s.mem (pp.toNat + 24) := ⟨_, rfl⟩
  obtain ⟨p4, hp4⟩ : ∃ x, x = s.mem (pp.toNat + 32) := ⟨_, rfl⟩
  obtain ⟨p5, hp5⟩ : ∃ x, x = s.mem (pp.toNat + 40) := ⟨_, rfl⟩
  simp only [← hw0, ← hw1, ← hw2, ← hw3, ← hw4, ← hw5, ← hw6, ← hw7, ← hw8, ← hw9, ← hw10, ← hw11, ← hp0, ← hp1, ← hp2, ← hp3, ← hp4, ← hp5] at hinv hT h2P ⊢
  obtain ⟨l13, hl13⟩ : ∃ x, x = mulLo w0 inv := ⟨_, rfl⟩
  obtain ⟨l14, hl14⟩ : ∃ x, x = mulLo l13 p0 := ⟨_, rfl⟩
  obtain ⟨h15, hh15⟩ : ∃ x, x = mulHi l13 p0 := ⟨_, rfl⟩
  obtain ⟨t16, ht16⟩ : ∃ x, x = addWithCarry w0 l14 false := ⟨_, rfl⟩
  obtain ⟨l17, hl17⟩ : ∃ x, x = mulLo l13 p1 := ⟨_, rfl⟩
  obtain ⟨h18, hh18⟩ : ∃ x, x = mulHi l13 p1 := ⟨_, rfl⟩
  obtain ⟨t19, ht19⟩ : ∃ x, x = addWithCarry w1 l17 t16.c := ⟨_, rfl⟩
  obtain ⟨t20, ht20⟩ : ∃ x, x = addWithCarry h18 (0 : Word) t19.c := ⟨_, rfl⟩
  obtain ⟨t21, ht21⟩ : ∃ x, x = addWithCarry t19.val h15 false := ⟨_, rfl⟩
  obtain ⟨l22, hl22⟩ : ∃ x, x = mulLo l13 p2 := ⟨_, rfl⟩
  obtain ⟨h23, hh23⟩ : ∃ x, x = mulHi l13 p2 := ⟨_, rfl⟩
  obtain ⟨t24, ht24⟩ : ∃ x, x = addWithCarry w2 l22 t21.c := ⟨_, rfl⟩
  obtain ⟨t25, ht25⟩ : ∃ x, x = addWithCarry h23 (0 : Word) t24.c := ⟨_, rfl⟩
  obtain ⟨t26, ht26⟩ : ∃ x, x = addWithCarry t24.val t20.val false := ⟨_, rfl⟩
  obtain ⟨l27, hl27⟩ : ∃ x, x = mulLo l13 p3 := ⟨_, rfl⟩
  obtain ⟨h28, hh28⟩ : ∃ x, x = mulHi l13 p3 := ⟨_, rfl⟩
  obtain ⟨t29, ht29⟩ : ∃ x, x = addWithCarry w3 l27 t26.c := ⟨_, rfl⟩
  obtain ⟨t30, ht30⟩ : ∃ x, x = addWithCarry h28 (0 : Word) t29.c := ⟨_, rfl⟩
  obtain ⟨t31, ht31⟩ : ∃ x, x = addWithCarry t29.val t25.val false := ⟨_, rfl⟩
  obtain ⟨l32, hl32⟩ : ∃ x, x = mulLo l13 p4 := ⟨_, rfl⟩
  obtain ⟨h33, hh33⟩ : ∃ x, x = mulHi l13 p4 := ⟨_, rfl⟩
  obtain ⟨t34, ht34⟩ : ∃ x, x = addWithCarry w4 l32 t31.c := ⟨_, rfl⟩
  obtain ⟨t35, ht35⟩ : ∃ x, x = addWithCarry h33 (0 : Word) t34.c := ⟨_, rfl⟩
  obtain ⟨t36, ht36⟩ : ∃ x, x = addWithCarry t34.val t30.val false := ⟨_, rfl⟩
  obtain ⟨l37, hl37⟩ : ∃ x, x = mulLo l13 p5 := ⟨_, rfl⟩
  obtain ⟨h38, hh38⟩ : ∃ x, x = mulHi l13 p5 := ⟨_, rfl⟩
  obtain ⟨t39, ht39⟩ : ∃ x, x = addWithCarry w5 l37 t36.c := ⟨_, rfl⟩
  obtain ⟨t40, ht40⟩ : ∃ x, x = addWithCarry h38 (0 : Word) t39.c := ⟨_, rfl⟩
  obtain ⟨t41, ht41⟩ : ∃ x, x = addWithCarry t39.val t35.val false := ⟨_, rfl⟩
  obtain ⟨t42, ht42⟩ : ∃ x, x = addWithCarry w6 t40.val t41.c := ⟨_, rfl⟩
  obtain ⟨t43, ht43⟩ : ∃ x, x = addWithCarry (0 : Word) (0 : Word) t42.c := ⟨_, rfl⟩
  obtain ⟨l44, hl44⟩ : ∃ x, x = mulLo t21.val inv := ⟨_, rfl⟩
  obtain ⟨l45, hl45⟩ : ∃ x, x = mulLo l44 p0 := ⟨_, rfl⟩
  obtain ⟨h46, hh46⟩ : ∃ x, x = mulHi l44 p0 := ⟨_, rfl⟩
  obtain ⟨t47, ht47⟩ : ∃ x, x = addWithCarry t21.val l45 false := ⟨_, rfl⟩
  obtain ⟨l48, hl48⟩ : ∃ x, x = mulLo l44 p1 := ⟨_, rfl⟩
  obtain ⟨h49, hh49⟩ : ∃ x, x = mulHi l44 p1 := ⟨_, rfl⟩
  obtain ⟨t50, ht50⟩ : ∃ x, x = addWithCarry t26.val l48 t47.c := ⟨_, rfl⟩
  obtain ⟨t51, ht51⟩ : ∃ x, x = addWithCarry h49 (0 : Word) t50.c := ⟨_, rfl⟩
  obtain ⟨t52, ht52⟩ : ∃ x, x = addWithCarry t50.val h46 false := ⟨_, rfl⟩
  obtain ⟨l53, hl53⟩ : ∃ x, x = mulLo l44 p2 := ⟨_, rfl⟩
  obtain ⟨h54, hh54⟩ : ∃ x, x = mulHi l44 p2 := ⟨_, rfl⟩
  obtain ⟨t55, ht55⟩ : ∃ x, x = addWithCarry t31.val l53 t52.c := ⟨_, rfl⟩
  obtain ⟨t56, ht56⟩ : ∃ x, x = addWithCarry h54 (0 : Word) t55.c := ⟨_, rfl⟩
  obtain ⟨t57, ht57⟩ : ∃ x, x = addWithCarry t55.val t51.val false := ⟨_, rfl⟩
  obtain ⟨l58, hl58⟩ : ∃ x, x = mulLo l44 p3 := ⟨_, rfl⟩
  obtain ⟨h59, hh59⟩ : ∃ x, x = mulHi l44 p3 := ⟨_, rfl⟩
  obtain ⟨t60, ht60⟩ : ∃ x, x = addWithCarry t36.val l58 t57.c := ⟨_, rfl⟩
  obtain ⟨t61, ht61⟩ : ∃ x, x = addWithCarry h59 (0 : Word) t60.c := ⟨_, rfl⟩
  obtain ⟨t62, ht62⟩ : ∃ x, x = addWithCarry t60.val t56.val false := ⟨_, rfl⟩
  obtain ⟨l63, hl63⟩ : ∃ x, x = mulLo l44 p4 := ⟨_, rfl⟩
  obtain ⟨h64, hh64⟩ : ∃ x, x = mulHi l44 p4 := ⟨_, rfl⟩
  obtain ⟨t65, ht65⟩ : ∃ x, x = addWithCarry t41.val l63 t62.c := ⟨_, rfl⟩
  obtain ⟨t66, ht66⟩ : ∃ x, x = addWithCarry h64 (0 : Word) t65.c := ⟨_, rfl⟩
  obtain ⟨t67, ht67⟩ : ∃ x, x = addWithCarry t65.val t61.val false := ⟨_, rfl⟩
  obtain ⟨l68, hl68⟩ : ∃ x, x = mulLo l44 p5 := ⟨_, rfl⟩
  obtain ⟨h69, hh69⟩ : ∃ x, x = mulHi l44 p5 := ⟨_, rfl⟩
  obtain ⟨t70, ht70⟩ : ∃ x, x = addWithCarry t42.val l68 t67.c := ⟨_, rfl⟩
  obtain ⟨t71, ht71⟩ : ∃ x, x = addWithCarry h69 (0 : Word) t70.c := ⟨_, rfl⟩
  obtain ⟨t72, ht72⟩ : ∃ x, x = addWithCarry t70.val t66.val false := ⟨_, rfl⟩
  obtain ⟨t73, ht73⟩ : ∃ x, x = addWithCarry t71.val (0 : Word) t72.c := ⟨_, rfl⟩
  obtain ⟨t74, ht74⟩ : ∃ x, x = addWithCarry t43.val (~~~1#64) true := ⟨_, rfl⟩
  obtain ⟨t75, ht75⟩ : ∃ x, x = addWithCarry w7 t73.val t74.c := ⟨_, rfl⟩
  obtain ⟨t76, ht76⟩ : ∃ x, x = addWithCarry (0 : Word) (0 : Word) t75.c := ⟨_, rfl⟩
  obtain ⟨l77, hl77⟩ : ∃ x, x = mulLo t52.val inv := ⟨_, rfl⟩
  obtain ⟨l78, hl78⟩ : ∃ x, x = mulLo l77 p0 := ⟨_, rfl⟩
  obtain ⟨h79, hh79⟩ : ∃ x, x = mulHi l77 p0 := ⟨_, rfl⟩
  obtain ⟨t80, ht80⟩ : ∃ x, x = addWithCarry t52.val l78 false := ⟨_, rfl⟩
  obtain ⟨l81, hl81⟩ : ∃ x, x = mulLo l77 p1 := ⟨_, rfl⟩
  obtain ⟨h82, hh82⟩ : ∃ x, x = mulHi l77 p1 := ⟨_, rfl⟩
  obtain ⟨t83, ht83⟩ : ∃ x, x = addWithCarry t57.val l81 t80.c := ⟨_, rfl⟩
  obtain ⟨t84, ht84⟩ : ∃ x, x = addWithCarry h82 (0 : Word) t83.c := ⟨_, rfl⟩
  obtain ⟨t85, ht85⟩ : ∃ x, x = addWithCarry t83.val h79 false := ⟨_, rfl⟩
  obtain ⟨l86, hl86⟩ : ∃ x, x = mulLo l77 p2 := ⟨_, rfl⟩
  obtain ⟨h87, hh87⟩ : ∃ x, x = mulHi l77 p2 := ⟨_, rfl⟩
  obtain ⟨t88, ht88⟩ : ∃ x, x = addWithCarry t62.val l86 t85.c := ⟨_, rfl⟩
  obtain ⟨t89, ht89⟩ : ∃ x, x = addWithCarry h87 (0 : Word) t88.c := ⟨_, rfl⟩
  obtain ⟨t90, ht90⟩ : ∃ x, x = addWithCarry t88.val t84.val false := ⟨_, rfl⟩
  obtain ⟨l91, hl91⟩ : ∃ x, x = mulLo l77 p3 := ⟨_, rfl⟩
  obtain ⟨h92, hh92⟩ : ∃ x, x = mulHi l77 p3 := ⟨_, rfl⟩
  obtain ⟨t93, ht93⟩ : ∃ x, x = addWithCarry t67.val l91 t90.c := ⟨_, rfl⟩
  obtain ⟨t94, ht94⟩ : ∃ x, x = addWithCarry h92 (0 : Word) t93.c := ⟨_, rfl⟩
  obtain ⟨t95, ht95⟩ : ∃ x, x = addWithCarry t93.val t89.val false := ⟨_, rfl⟩
  obtain ⟨l96, hl96⟩ : ∃ x, x = mulLo l77 p4 := ⟨_, rfl⟩
  obtain ⟨h97, hh97⟩ : ∃ x, x = mulHi l77 p4 := ⟨_, rfl⟩
  obtain ⟨t98, ht98⟩ : ∃ x, x = addWithCarry t72.val l96 t95.c := ⟨_, rfl⟩
  obtain ⟨t99, ht99⟩ : ∃ x, x = addWithCarry h97 (0 : Word) t98.c := ⟨_, rfl⟩
  obtain ⟨t100, ht100⟩ : ∃ x, x = addWithCarry t98.val t94.val false := ⟨_, rfl⟩
  obtain ⟨l101, hl101⟩ : ∃ x, x = mulLo l77 p5 := ⟨_, rfl⟩
  obtain ⟨h102, hh102⟩ : ∃ x, x = mulHi l77 p5 := ⟨_, rfl⟩
  obtain ⟨t103, ht103⟩ : ∃ x, x = addWithCarry t75.val l101 t100.c := ⟨_, rfl⟩
  obtain ⟨t104, ht104⟩ : ∃ x, x = addWithCarry h102 (0 : Word) t103.c := ⟨_, rfl⟩
  obtain ⟨t105, ht105⟩ : ∃ x, x = addWithCarry t103.val t99.val false := ⟨_, rfl⟩
  obtain ⟨t106, ht106⟩ : ∃ x, x = addWithCarry t104.val (0 : Word) t105.c := ⟨_, rfl⟩
  obtain ⟨t107, ht107⟩ : ∃ x, x = addWithCarry t76.val (~~~1#64) true := ⟨_, rfl⟩
  obtain ⟨t108, ht108⟩ : ∃ x, x = addWithCarry w8 t106.val t107.c := ⟨_, rfl⟩
  obtain ⟨t109, ht109⟩ : ∃ x, x = addWithCarry (0 : Word) (0 : Word) t108.c := ⟨_, rfl⟩
  obtain ⟨l110, hl110⟩ : ∃ x, x = mulLo t85.val inv := ⟨_, rfl⟩
  obtain ⟨l111, hl111⟩ : ∃ x, x = mulLo l110 p0 := ⟨_, rfl⟩
  obtain ⟨h112, hh112⟩ : ∃ x, x = mulHi l110 p0 := ⟨_, rfl⟩
  obtain ⟨t113, ht113⟩ : ∃ x, x = addWithCarry t85.val l111 false := ⟨_, rfl⟩
  obtain ⟨l114, hl114⟩ : ∃ x, x = mulLo l110 p1 := ⟨_, rfl⟩
  obtain ⟨h115, hh115⟩ : ∃ x, x = mulHi l110 p1 := ⟨_, rfl⟩
  obtain ⟨t116, ht116⟩ : ∃ x, x = addWithCarry t90.val l114 t113.c := ⟨_, rfl⟩
  obtain ⟨t117, ht117⟩ : ∃ x, x = addWithCarry h115 (0 : Word) t116.c := ⟨_, rfl⟩
  obtain ⟨t118, ht118⟩ : ∃ x, x = addWithCarry t116.val h112 false := ⟨_, rfl⟩
  obtain ⟨l119, hl119⟩ : ∃ x, x = mulLo l110 p2 := ⟨_, rfl⟩
  obtain ⟨h120, hh120⟩ : ∃ x, x = mulHi l110 p2 := ⟨_, rfl⟩
  obtain ⟨t121, ht121⟩ : ∃ x, x = addWithCarry t95.val l119 t118.c := ⟨_, rfl⟩
  obtain ⟨t122, ht122⟩ : ∃ x, x = addWithCarry h120 (0 : Word) t121.c := ⟨_, rfl⟩
  obtain ⟨t123, ht123⟩ : ∃ x, x = addWithCarry t121.val t117.val false := ⟨_, rfl⟩
  obtain ⟨l124, hl124⟩ : ∃ x, x = mulLo l110 p3 := ⟨_, rfl⟩
  obtain ⟨h125, hh125⟩ : ∃ x, x = mulHi l110 p3 := ⟨_, rfl⟩
  obtain ⟨t126, ht126⟩ : ∃ x, x = addWithCarry t100.val l124 t123.c := ⟨_, rfl⟩
  obtain ⟨t127, ht127⟩ : ∃ x, x = addWithCarry h125 (0 : Word) t126.c := ⟨_, rfl⟩
  obtain ⟨t128, ht128⟩ : ∃ x, x = addWithCarry t126.val t122.val false := ⟨_, rfl⟩
  obtain ⟨l129, hl129⟩ : ∃ x, x = mulLo l110 p4 := ⟨_, rfl⟩
  obtain ⟨h130, hh130⟩ : ∃ x, x = mulHi l110 p4 := ⟨_, rfl⟩
  obtain ⟨t131, ht131⟩ : ∃ x, x = addWithCarry t105.val l129 t128.c := ⟨_, rfl⟩
  obtain ⟨t132, ht132⟩ : ∃ x, x = addWithCarry h130 (0 : Word) t131.c := ⟨_, rfl⟩
  obtain ⟨t133, ht133⟩ : ∃ x, x = addWithCarry t131.val t127.val false := ⟨_, rfl⟩
  obtain ⟨l134, hl134⟩ : ∃ x, x = mulLo l110 p5 := ⟨_, rfl⟩
  obtain ⟨h135, hh135⟩ : ∃ x, x = mulHi l110 p5 := ⟨_, rfl⟩
  obtain ⟨t136, ht136⟩ : ∃ x, x = addWithCarry t108.val l134 t133.c := ⟨_, rfl⟩
  obtain ⟨t137, ht137⟩ : ∃ x, x = addWithCarry h135 (0 : Word) t136.c := ⟨_, rfl⟩
  obtain ⟨t138, ht138⟩ : ∃ x, x = addWithCarry t136.val t132.val false := ⟨_, rfl⟩
  obtain ⟨t139, ht139⟩ : ∃ x, x = addWithCarry t137.val (0 : Word) t138.c := ⟨_, rfl⟩
  obtain ⟨t140, ht140⟩ : ∃ x, x = addWithCarry t109.val (~~~1#64) true := ⟨_, rfl⟩
  obtain ⟨t141, ht141⟩ : ∃ x, x = addWithCarry w9 t139.val t140.c := ⟨_, rfl⟩
  obtain ⟨t142, ht142⟩ : ∃ x, x = addWithCarry (0 : Word) (0 : Word) t141.c := ⟨_, rfl⟩
  obtain ⟨l143, hl143⟩ : ∃ x, x = mulLo t118.val inv := ⟨_, rfl⟩
  obtain ⟨l144, hl144⟩ : ∃ x, x = mulLo l143 p0 := ⟨_, rfl⟩
  obtain ⟨h145, hh145⟩ : ∃ x, x = mulHi l143 p0 := ⟨_, rfl⟩
  obtain ⟨t146, ht146⟩ : ∃ x, x = addWithCarry t118.val l144 false := ⟨_, rfl⟩
  obtain ⟨l147, hl147⟩ : ∃ x, x = mulLo l143 p1 := ⟨_, rfl⟩
  obtain ⟨h148, hh148⟩ : ∃ x, x = mulHi l143 p1 := ⟨_, rfl⟩
  obtain ⟨t149, ht149⟩ : ∃ x, x = addWithCarry t123.val l147 t146.c := ⟨_, rfl⟩
  obtain ⟨t150, ht150⟩ : ∃ x, x = addWithCarry h148 (0 : Word) t149.c := ⟨_, rfl⟩
  obtain ⟨t151, ht151⟩ : ∃ x, x = addWithCarry t149.val h145 false := ⟨_, rfl⟩
  obtain ⟨l152, hl152⟩ : ∃ x, x = mulLo l143 p2 := ⟨_, rfl⟩
  obtain ⟨h153, hh153⟩ : ∃ x, x = mulHi l143 p2 := ⟨_, rfl⟩
  obtain ⟨t154, ht154⟩ : ∃ x, x = addWithCarry t128.val l152 t151.c := ⟨_, rfl⟩
  obtain ⟨t155, ht155⟩ : ∃ x, x = addWithCarry h153 (0 : Word) t154.c := ⟨_, rfl⟩
  obtain ⟨t156, ht156⟩ : ∃ x, x = addWithCarry t154.val t150.val false := ⟨_, rfl⟩
  obtain ⟨l157, hl157⟩ : ∃ x, x = mulLo l143 p3 := ⟨_, rfl⟩
  obtain ⟨h158, hh158⟩ : ∃ x, x = mulHi l143 p3 := ⟨_, rfl⟩
  obtain ⟨t159, ht159⟩ : ∃ x, x = addWithCarry t133.val l157 t156.c := ⟨_, rfl⟩
  obtain ⟨t160, ht160⟩ : ∃ x, x = addWithCarry h158 (0 : Word) t159.c := ⟨_, rfl⟩
  obtain ⟨t161, ht161⟩ : ∃ x, x = addWithCarry t159.val t155.val false := ⟨_, rfl⟩
  obtain ⟨l162, hl162⟩ : ∃ x, x = mulLo l143 p4 := ⟨_, rfl⟩
  obtain ⟨h163, hh163⟩ : ∃ x, x = mulHi l143 p4 := ⟨_, rfl⟩
  obtain ⟨t164, ht164⟩ : ∃ x, x = addWithCarry t138.val l162 t161.c := ⟨_, rfl⟩
  obtain ⟨t165, ht165⟩ : ∃ x, x = addWithCarry h163 (0 : Word) t164.c := ⟨_, rfl⟩
  obtain ⟨t166, ht166⟩ : ∃ x, x = addWithCarry t164.val t160.val false := ⟨_, rfl⟩
  obtain ⟨l167, hl167⟩ : ∃ x, x = mulLo l143 p5 := ⟨_, rfl⟩
  obtain ⟨h168, hh168⟩ : ∃ x, x = mulHi l143 p5 := ⟨_, rfl⟩
  obtain ⟨t169, ht169⟩ : ∃ x, x = addWithCarry t141.val l167 t166.c := ⟨_, rfl⟩
  obtain ⟨t170, ht170⟩ : ∃ x, x = addWithCarry h168 (0 : Word) t169.c := ⟨_, rfl⟩
  obtain ⟨t171, ht171⟩ : ∃ x, x = addWithCarry t169.val t165.val false := ⟨_, rfl⟩
  obtain ⟨t172, ht172⟩ : ∃ x, x = addWithCarry t170.val (0 : Word) t171.c := ⟨_, rfl⟩
  obtain ⟨t173, ht173⟩ : ∃ x, x = addWithCarry t142.val (~~~1#64) true := ⟨_, rfl⟩
  obtain ⟨t174, ht174⟩ : ∃ x, x = addWithCarry w10 t172.val t173.c := ⟨_, rfl⟩
  obtain ⟨t175, ht175⟩ : ∃ x, x = addWithCarry (0 : Word) (0 : Word) t174.c := ⟨_, rfl⟩
  obtain ⟨l176, hl176⟩ : ∃ x, x = mulLo t151.val inv := ⟨_, rfl⟩
  obtain ⟨l177, hl177⟩ : ∃ x, x = mulLo l176 p0 := ⟨_, rfl⟩
  obtain ⟨h178, hh178⟩ : ∃ x, x = mulHi l176 p0 := ⟨_, rfl⟩
  obtain ⟨t179, ht179⟩ : ∃ x, x = addWithCarry t151.val l177 false := ⟨_, rfl⟩
  obtain ⟨l180, hl180⟩ : ∃ x, x = mulLo l176 p1 := ⟨_, rfl⟩
  obtain ⟨h181, hh181⟩ : ∃ x, x = mulHi l176 p1 := ⟨_, rfl⟩
  obtain ⟨t182, ht182⟩ : ∃ x, x = addWithCarry t156.val l180 t179.c := ⟨_, rfl⟩
  obtain ⟨t183, ht183⟩ : ∃ x, x = addWithCarry h181 (0 : Word) t182.c := ⟨_, rfl⟩
  obtain ⟨t184, ht184⟩ : ∃ x, x = addWithCarry t182.val h178 false := ⟨_, rfl⟩
  obtain ⟨l185, hl185⟩ : ∃ x, x = mulLo l176 p2 := ⟨_, rfl⟩
  obtain ⟨h186, hh186⟩ : ∃ x, x = mulHi l176 p2 := ⟨_, rfl⟩
  obtain ⟨t187, ht187⟩ : ∃ x, x = addWithCarry t161.val l185 t184.c := ⟨_, rfl⟩
  obtain ⟨t188, ht188⟩ : ∃ x, x = addWithCarry h186 (0 : Word) t187.c := ⟨_, rfl⟩
  obtain ⟨t189, ht189⟩ : ∃ x, x = addWithCarry t187.val t183.val false := ⟨_, rfl⟩
  obtain ⟨l190, hl190⟩ : ∃ x, x = mulLo l176 p3 := ⟨_, rfl⟩
  obtain ⟨h191, hh191⟩ : ∃ x, x = mulHi l176 p3 := ⟨_, rfl⟩
  obtain ⟨t192, ht192⟩ : ∃ x, x = addWithCarry t166.val l190 t189.c := ⟨_, rfl⟩
  obtain ⟨t193, ht193⟩ : ∃ x, x = addWithCarry h191 (0 : Word) t192.c := ⟨_, rfl⟩
  obtain ⟨t194, ht194⟩ : ∃ x, x = addWithCarry t192.val t188.val false := ⟨_, rfl⟩
  obtain ⟨l195, hl195⟩ : ∃ x, x = mulLo l176 p4 := ⟨_, rfl⟩
  obtain ⟨h196, hh196⟩ : ∃ x, x = mulHi l176 p4 := ⟨_, rfl⟩
  obtain ⟨t197, ht197⟩ : ∃ x, x = addWithCarry t171.val l195 t194.c := ⟨_, rfl⟩
  obtain ⟨t198, ht198⟩ : ∃ x, x = addWithCarry h196 (0 : Word) t197.c := ⟨_, rfl⟩
  obtain ⟨t199, ht199⟩ : ∃ x, x = addWithCarry t197.val t193.val false := ⟨_, rfl⟩
  obtain ⟨l200, hl200⟩ : ∃ x, x = mulLo l176 p5 := ⟨_, rfl⟩
  obtain ⟨h201, hh201⟩ : ∃ x, x = mulHi l176 p5 := ⟨_, rfl⟩
  obtain ⟨t202, ht202⟩ : ∃ x, x = addWithCarry t174.val l200 t199.c := ⟨_, rfl⟩
  obtain ⟨t203, ht203⟩ : ∃ x, x = addWithCarry h201 (0 : Word) t202.c := ⟨_, rfl⟩
  obtain ⟨t204, ht204⟩ : ∃ x, x = addWithCarry t202.val t198.val false := ⟨_, rfl⟩
  obtain ⟨t205, ht205⟩ : ∃ x, x = addWithCarry t203.val (0 : Word) t204.c := ⟨_, rfl⟩
  obtain ⟨t206, ht206⟩ : ∃ x, x = addWithCarry t175.val (~~~1#64) true := ⟨_, rfl⟩
  obtain ⟨t207, ht207⟩ : ∃ x, x = addWithCarry w11 t205.val t206.c := ⟨_, rfl⟩
  obtain ⟨t208, ht208⟩ : ∃ x, x = addWithCarry t207.val (~~~p5) true := ⟨_, rfl⟩
  obtain ⟨t225, ht225⟩ : ∃ x, x = addWithCarry t184.val (~~~p0) true := ⟨_, rfl⟩
  obtain ⟨t226, ht226⟩ : ∃ x, x = addWithCarry t189.val (~~~p1) t225.c := ⟨_, rfl⟩
  obtain ⟨t227, ht227⟩ : ∃ x, x = addWithCarry t194.val (~~~p2) t226.c := ⟨_, rfl⟩
  obtain ⟨t228, ht228⟩ : ∃ x, x = addWithCarry t199.val (~~~p3) t227.c := ⟨_, rfl⟩
  obtain ⟨t229, ht229⟩ : ∃ x, x = addWithCarry t204.val (~~~p4) t228.c := ⟨_, rfl⟩
  obtain ⟨t230, ht230⟩ : ∃ x, x = addWithCarry t207.val (~~~p5) t229.c := ⟨_, rfl⟩
  obtain ⟨t211, ht211⟩ : ∃ x, x = addWithCarry t204.val (~~~p4) true := ⟨_, rfl⟩
  obtain ⟨t214, ht214⟩ : ∃ x, x = addWithCarry t199.val (~~~p3) true := ⟨_, rfl⟩
  obtain ⟨t217, ht217⟩ : ∃ x, x = addWithCarry t194.val (~~~p2) true := ⟨_, rfl⟩
  obtain ⟨t220, ht220⟩ : ∃ x, x = addWithCarry t189.val (~~~p1) true := ⟨_, rfl⟩
  obtain ⟨t223, ht223⟩ : ∃ x, x = addWithCarry t184.val (~~~p0) true := ⟨_, rfl⟩
  obtain ⟨t226e, ht226e⟩ : ∃ x, x = addWithCarry t189.val (~~~p1) t223.c := ⟨_, rfl⟩
  obtain ⟨t227e, ht227e⟩ : ∃ x, x = addWithCarry t194.val (~~~p2) t226e.c := ⟨_, rfl⟩
  obtain ⟨t228e, ht228e⟩ : ∃ x, x = addWithCarry t199.val (~~~p3) t227e.c := ⟨_, rfl⟩
  obtain ⟨t229e, ht229e⟩ : ∃ x, x = addWithCarry t204.val (~~~p4) t228e.c := ⟨_, rfl⟩
  obtain ⟨t230e, ht230e⟩ : ∃ x, x = addWithCarry t207.val (~~~p5) t229e.c := ⟨_, rfl⟩
  have hq0 := mont_part0 s pr pt pp inv hr ht hp hstk hrs hts hps hst hpc h0 h1 h2 h3 (t16 := t16) (t19 := t19) (t20 := t20) (t21 := t21) (t24 := t24) (t25 := t25) (t26 := t26) (t29 := t29) (t30 := t30) (t31 := t31) (t34 := t34) (t35 := t35) (t36 := t36) (t39 := t39) (t40 := t40) (t41 := t41) (t42 := t42) (t43 := t43) (p0 := p0) (p1 := p1) (p2 := p2) (p3 := p3) (p4 := p4) (p5 := p5) (w0 := w0) (w1 := w1) (w2 := w2) (w3 := w3) (w4 := w4) (w5 := w5) (w6 := w6) (w7 := w7) (w8 := w8) (w9 := w9) (h15 := h15) (h18 := h18) (h23 := h23) (h28 := h28) (h33 := h33) (h38 := h38) (l13 := l13) (l14 := l14) (l17 := l17) (l22 := l22) (l27 := l27) (l32 := l32) (l37 := l37) (w10 := w10) (w11 := w11) hp0 hp1 hp2 hp3 hp4 hp5 hw0 hw1 hw2 hw3 hw4 hw5 hw6 hw7 hw8 hw9 hw10 hw11 hl13 hl14 hh15 ht16 hl17 hh18 ht19 ht20 ht21 hl22 hh23 ht24 ht25 ht26 hl27 hh28 ht29 ht30 ht31 hl32 hh33 ht34 ht35 ht36 hl37 hh38 ht39 ht40 ht41 ht42 ht43
  have hq1 := mont_part1 s pr pt pp inv hr ht hp hstk hrs hts hps (t21 := t21) (t26 := t26) (t31 := t31) (t35 := t35) (t36 := t36) (t41 := t41) (t42 := t42) (t43 := t43) (t47 := t47) (t50 := t50) (t51 := t51) (t52 := t52) (t55 := t55) (t56 := t56) (t57 := t57) (t60 := t60) (t61 := t61) (t62 := t62) (t65 := t65) (t66 := t66) (t67 := t67) (t70 := t70) (t71 := t71) (t72 := t72) (t73 := t73) (t74 := t74) (t75 := t75) (t76 := t76) (p0 := p0) (p1 := p1) (p2 := p2) (p3 := p3) (p4 := p4) (p5 := p5) (w7 := w7) (w8 := w8) (w9 := w9) (h46 := h46) (h49 := h49) (h54 := h54) (h59 := h59) (h64 := h64) (h69 := h69) (l13 := l13) (l37 := l37) (l44 := l44) (l45 := l45) (l48 := l48) (l53 := l53) (l58 := l58) (l63 := l63) (l68 := l68) (w10 := w10) (w11 := w11) hl44 hl45 hh46 ht47 hl48 hh49 ht50 ht51 ht52 hl53 hh54 ht55 ht56 ht57 hl58 hh59 ht60 ht61 ht62 hl63 hh64 ht65 ht66 ht67 hl68 hh69 ht70 ht71 ht72 ht73 ht74 ht75 ht76
  have hq2 := mont_part2 s pr pt pp inv hr ht hp hstk hrs hts hps (t52 := t52) (t57 := t57) (t62 := t62) (t66 := t66) (t67 := t67) (t72 := t72) (t73 := t73) (t75 := t75) (t76 := t76) (t80 := t80) (t83 := t83) (t84 := t84) (t85 := t85) (t88 := t88) (t89 := t89) (t90 := t90) (t93 := t93) (t94 := t94) (t95 := t95) (t98 := t98) (t99 := t99) (t100 := t100) (t103 := t103) (t104 := t104) (t105 := t105) (t106 := t106) (t107 := t107) (t108 := t108) (t109 := t109) (p0 := p0) (p1 := p1) (p2 := p2) (p3 := p3) (p4 := p4) (p5 := p5) (w8 := w8) (w9 := w9) (h79 := h79) (h82 := h82) (h87 := h87) (h92 := h92) (h97 := h97) (l44 := l44) (l68 := l68) (l77 := l77) (l78 := l78) (l81 := l81) (l86 := l86) (l91 := l91) (l96 := l96) (w10 := w10) (w11 := w11) (h102 := h102) (l101 := l101) hl77 hl78 hh79 ht80 hl81 hh82 ht83 ht84 ht85 hl86 hh87 ht88 ht89 ht90 hl91 hh92 ht93 ht94 ht95 hl96 hh97 ht98 ht99 ht100 hl101 hh102 ht103 ht104 ht105 ht106 ht107 ht108 ht109
  have hq3 := mont_part3 s pr pt pp inv hr ht hp hstk hrs hts hps (t73 := t73) (t85 := t85) (t90 := t90) (t95 := t95) (t99 := t99) (t100 := t100) (t105 := t105) (t106 := t106) (t108 := t108) (t109 := t109) (t113 := t113) (t116 := t116) (t117 := t117) (t118 := t118) (t121 := t121) (t122 := t122) (t123 := t123) (t126 := t126) (t127 := t127) (t128 := t128) (t131 := t131) (t132 := t132) (t133 := t133) (t136 := t136) (t137 := t137) (t138 := t138) (t139 := t139) (t140 := t140) (t141 := t141) (t142 := t142) (p0 := p0) (p1 := p1) (p2 := p2) (p3 := p3) (p4 := p4) (p5 := p5) (w9 := w9) (l77 := l77) (w10 := w10) (w11 := w11) (h112 := h112) (h115 := h115) (h120 := h120) (h125 := h125) (h130 := h130) (h135 := h135) (l101 := l101) (l110 := l110) (l111 := l111) (l114 := l114) (l119 := l119) (l124 := l124) (l129 := l129) (l134 := l134) hl110 hl111 hh112 ht113 hl114 hh115 ht116 ht117 ht118 hl119 hh120 ht121 ht122 ht123 hl124 hh125 ht126 ht127 ht128 hl129 hh130 ht131 ht132 ht133 hl134 hh135 ht136 ht137 ht138 ht139 ht140 ht141 ht142
  have hq4 := mont_part4 s pr pt pp inv hr ht hp hstk hrs hts hps (t73 := t73) (t106 := t106) (t118 := t118) (t123 := t123) (t128 := t128) (t132 := t132) (t133 := t133) (t138 := t138) (t139 := t139) (t141 := t141) (t142 := t142) (t146 := t146) (t149 := t149) (t150 := t150) (t151 := t151) (t154 := t154) (t155 := t155) (t156 := t156) (t159 := t159) (t160 := t160) (t161 := t161) (t164 := t164) (t165 := t165) (t166 := t166) (t169 := t169) (t170 := t170) (t171 := t171) (t172 := t172) (t173 := t173) (t174 := t174) (t175 := t175) (p0 := p0) (p1 := p1) (p2 := p2) (p3 := p3) (p4 := p4) (p5 := p5) (w10 := w10) (w11 := w11) (h145 := h145) (h148 := h148) (h153 := h153) (h158 := h158) (h163 := h163) (h168 := h168) (l110 := l110) (l134 := l134) (l143 := l143) (l144 := l144) (l147 := l147) (l152 := l152) (l157 := l157) (l162 := l162) (l167 := l167) hl143 hl144 hh145 ht146 hl147 hh148 ht149 ht150 ht151 hl152 hh153 ht154 ht155 ht156 hl157 hh158 ht159 ht160 ht161 hl162 hh163 ht164 ht165 ht166 hl167 hh168 ht169 ht170 ht171 ht172 ht173 ht174 ht175
  have hq5 := mont_part5 s pr pt pp inv hr ht hp hstk hrs hts hps (t73 := t73) (t106 := t106) (t139 := t139) (t151 := t151) (t156 := t156) (t161 := t161) (t165 := t165) (t166 := t166) (t171 := t171) (t172 := t172) (t174 := t174) (t175 := t175) (t179 := t179) (t182 := t182) (t183 := t183) (t184 := t184) (t187 := t187) (t188 := t188) (t189 := t189) (t192 := t192) (t193 := t193) (t194 := t194) (t197 := t197) (t198 := t198) (t199 := t199) (t202 := t202) (t203 := t203) (t204 := t204) (t205 := t205) (t206 := t206) (t207 := t207) (p0 := p0) (p1 := p1) (p2 := p2) (p3 := p3) (p4 := p4) (p5 := p5) (w11 := w11) (h178 := h178) (h181 := h181) (h186 := h186) (h191 := h191) (h196 := h196) (h201 := h201) (l143 := l143) (l167 := l167) (l176 := l176) (l177 := l177) (l180 := l180) (l185 := l185) (l190 := l190) (l195 := l195) (l200 := l200) hl176 hl177 hh178 ht179 hl180 hh181 ht182 ht183 ht184 hl185 hh186 ht187 ht188 ht189 hl190 hh191 ht192 ht193 ht194 hl195 hh196 ht197 ht198 ht199 hl200 hh201 ht202 ht203 ht204 ht205 ht206 ht207
  have hpre : run embedded_pairing_core_arch_aarch64_fpbase_384_montgomery_reduce s 208 = _ := show run embedded_pairing_core_arch_aarch64_fpbase_384_montgomery_reduce s (44 + (33 + (33 + (33 + (33 + (32)))))) = _ from run_chain hq0 (run_chain hq1 (run_chain hq2 (run_chain hq3 (run_chain hq4 (hq5)))))
  clear hq0 hq1 hq2 hq3 hq4 hq5
  obtain ⟨hR2, hRe⟩ : val (2 ^ 64) [t184.val.toNat, t189.val.toNat, t194.val.toNat, t199.val.toNat, t204.val.toNat, t207.val.toNat] < 2 * val (2 ^ 64) [p0.toNat, p1.toNat, p2.toNat, p3.toNat, p4.toNat, p5.toNat] ∧ 2 ^ 384 * val (2 ^ 64) [t184.val.toNat, t189.val.toNat, t194.val.toNat, t199.val.toNat, t204.val.toNat, t207.val.toNat] = val (2 ^ 64) [w0.toNat, w1.toNat, w2.toNat, w3.toNat, w4.toNat, w5.toNat, w6.toNat, w7.toNat, w8.toNat, w9.toNat, w10.toNat, w11.toNat] + val (2 ^ 64) [l13.toNat, l44.toNat, l77.toNat, l110.toNat, l143.toNat, l176.toNat] * val (2 ^ 64) [p0.toNat, p1.toNat, p2.toNat, p3.toNat, p4.toNat, p5.toNat] := by
    have hinv' := hinv
    simp only [val_cons, val_nil] at hinv'
    replace hinv := hinv'
    have e14 := muladd64_spec hl14 hh15 ht16
    have z14 := mont_low hinv hl13 hl14 ht16
    have f14 := e14.1; rw [z14, Nat.zero_add] at f14
    have e17 := muladdcarry64_spec hl17 hh18 ht19 ht20 ht21 e14.2
    have e22 := muladdcarry64_spec hl22 hh23 ht24 ht25 ht26 e17.2
    have e27 := muladdcarry64_spec hl27 hh28 ht29 ht30 ht31 e22.2
    have e32 := muladdcarry64_spec hl32 hh33 ht34 ht35 ht36 e27.2
    have e37 := muladdcarry64_spec hl37 hh38 ht39 ht40 ht41 e32.2
    have e42 := mont_top_first ht42 ht43
    have e45 := muladd64_spec hl45 hh46 ht47
    have z45 := mont_low hinv hl44 hl45 ht47
    have f45 := e45.1; rw [z45, Nat.zero_add] at f45
    have e48 := muladdcarry64_spec hl48 hh49 ht50 ht51 ht52 e45.2
    have e53 := muladdcarry64_spec hl53 hh54 ht55 ht56 ht57 e48.2
    have e58 := muladdcarry64_spec hl58 hh59 ht60 ht61 ht62 e53.2
    have e63 := muladdcarry64_spec hl63 hh64 ht65 ht66 ht67 e58.2
    have e68 := muladdcarry64_spec hl68 hh69 ht70 ht71 ht72 e63.2
    have e75 := mont_top_mid ht73 ht74 ht75 ht76 e68.2 e42.2
    have e78 := muladd64_spec hl78 hh79 ht80
    have z78 := mont_low hinv hl77 hl78 ht80
    have f78 := e78.1; rw [z78, Nat.zero_add] at f78
    have e81 := muladdcarry64_spec hl81 hh82 ht83 ht84 ht85 e78.2
    have e86 := muladdcarry64_spec hl86 hh87 ht88 ht89 ht90 e81.2
    have e91 := muladdcarry64_spec hl91 hh92 ht93 ht94 ht95 e86.2
    have e96 := muladdcarry64_spec hl96 hh97 ht98 ht99 ht100 e91.2
    have e101 := muladdcarry64_spec hl101 hh102 ht103 ht104 ht105 e96.2
    have e108 := mont_top_mid ht106 ht107 ht108 ht109 e101.2 e75.2
    have e111 := muladd64_spec hl111 hh112 ht113
    have z111 := mont_low hinv hl110 hl111 ht113
    have f111 := e111.1; rw [z111, Nat.zero_add] at f111
    have e114 := muladdcarry64_spec hl114 hh115 ht116 ht117 ht118 e111.2
    have e119 := muladdcarry64_spec hl119 hh120 ht121 ht122 ht123 e114.2
    have e124 := muladdcarry64_spec hl124 hh125 ht126 ht127 ht128 e119.2
    have e129 := muladdcarry64_spec hl129 hh130 ht131 ht132 ht133 e124.2
    have e134 := muladdcarry64_spec hl134 hh135 ht136 ht137 ht138 e129.2
    have e141 := mont_top_mid ht139 ht140 ht141 ht142 e134.2 e108.2
    have e144 := muladd64_spec hl144 hh145 ht146
    have z144 := mont_low hinv hl143 hl144 ht146
    have f144 := e144.1; rw [z144, Nat.zero_add] at f144
    have e147 := muladdcarry64_spec hl147 hh148 ht149 ht150 ht151 e144.2
    have e152 := muladdcarry64_spec hl152 hh153 ht154 ht155 ht156 e147.2
    have e157 := muladdcarry64_spec hl157 hh158 ht159 ht160 ht161 e152.2
    have e162 := muladdcarry64_spec hl162 hh163 ht164 ht165 ht166 e157.2
    have e167 := muladdcarry64_spec hl167 hh168 ht169 ht170 ht171 e162.2
    have e174 := mont_top_mid ht172 ht173 ht174 ht175 e167.2 e141.2
    have e177 := muladd64_spec hl177 hh178 ht179
    have z177 := mont_low hinv hl176 hl177 ht179
    have f177 := e177.1; rw [z177, Nat.zero_add] at f177
    have e180 := muladdcarry64_spec hl180 hh181 ht182 ht183 ht184 e177.2
    have e185 := muladdcarry64_spec hl185 hh186 ht187 ht188 ht189 e180.2
    have e190 := muladdcarry64_spec hl190 hh191 ht192 ht193 ht194 e185.2
    have e195 := muladdcarry64_spec hl195 hh196 ht197 ht198 ht199 e190.2
    have e200 := muladdcarry64_spec hl200 hh201 ht202 ht203 ht204 e195.2
    have e207 := mont_top_last ht205 ht206 ht207 e200.2 e174.2
    have key : 2 ^ 384 * (val (2 ^ 64) [t184.val.toNat, t189.val.toNat, t194.val.toNat, t199.val.toNat, t204.val.toNat, t207.val.toNat] + 2 ^ 384 * t207.c.toNat) = val (2 ^ 64) [w0.toNat, w1.toNat, w2.toNat, w3.toNat, w4.toNat, w5.toNat, w6.toNat, w7.toNat, w8.toNat, w9.toNat, w10.toNat, w11.toNat] + val (2 ^ 64) [l13.toNat, l44.toNat, l77.toNat, l110.toNat, l143.toNat, l176.toNat] * val (2 ^ 64) [p0.toNat, p1.toNat, p2.toNat, p3.toNat, p4.toNat, p5.toNat] := by
      simp only [val_cons, val_nil]
      linear_combination f14 + 2 ^ 64 * e17.1 + 2 ^ 128 * e22.1 + 2 ^ 192 * e27.1 + 2 ^ 256 * e32.1 + 2 ^ 320 * e37.1 + 2 ^ 384 * e42.1 + 2 ^ 64 * f45 + 2 ^ 128 * e48.1 + 2 ^ 192 * e53.1 + 2 ^ 256 * e58.1 + 2 ^ 320 * e63.1 + 2 ^ 384 * e68.1 + 2 ^ 448 * e75.1 + 2 ^ 128 * f78 + 2 ^ 192 * e81.1 + 2 ^ 256 * e86.1 + 2 ^ 320 * e91.1 + 2 ^ 384 * e96.1 + 2 ^ 448 * e101.1 + 2 ^ 512 * e108.1 + 2 ^ 192 * f111 + 2 ^ 256 * e114.1 + 2 ^ 320 * e119.1 + 2 ^ 384 * e124.1 + 2 ^ 448 * e129.1 + 2 ^ 512 * e134.1 + 2 ^ 576 * e141.1 + 2 ^ 256 * f144 + 2 ^ 320 * e147.1 + 2 ^ 384 * e152.1 + 2 ^ 448 * e157.1 + 2 ^ 512 * e162.1 + 2 ^ 576 * e167.1 + 2 ^ 640 * e174.1 + 2 ^ 320 * f177 + 2 ^ 384 * e180.1 + 2 ^ 448 * e185.1 + 2 ^ 512 * e190.1 + 2 ^ 576 * e195.1 + 2 ^ 640 * e200.1 + 2 ^ 704 * e207
    exact (X86.mont_finish key (X86.val6_lt l13 l44 l77 l110 l143 l176) hT h2P).2
  cases hb209 : (t208.c && !t208.z) with
  | true =>
    obtain ⟨s', e1, e2, e3, e4, e5⟩ := mont_end_hi5 s pr pt pp inv hr ht hp hstk hrs hts hps (t73 := t73) (t106 := t106) (t139 := t139) (t172 := t172) (t175 := t175) (t184 := t184) (t189 := t189) (t194 := t194) (t198 := t198) (t199 := t199) (t204 := t204) (t205 := t205) (t207 := t207) (t225 := t225) (t226 := t226) (t227 := t227) (t228 := t228) (t229 := t229) (t230 := t230) (p0 := p0) (p1 := p1) (p2 := p2) (p3 := p3) (p4 := p4) (p5 := p5) (l176 := l176) (l200 := l200) ht208 ht225 ht226 ht227 ht228 ht229 ht230 hb209 hR2 hRe
    exact ⟨s', run_fuel (run_chain hpre e1) e2.halted 239 (by decide), e2, e3, e4, e5⟩
  | false =>
    cases hb210 : (!t208.c) with
    | true =>
      obtain ⟨s', e1, e2, e3, e4, e5⟩ := mont_end_lo5 s pr pt pp inv hr ht hp hstk hrs hts hps (t73 := t73) (t106 := t106) (t139 := t139) (t172 := t172) (t175 := t175) (t184 := t184) (t189 := t189) (t194 := t194) (t198 := t198) (t199 := t199) (t204 := t204) (t205 := t205) (t207 := t207) (t208 := t208) (p0 := p0) (p1 := p1) (p2 := p2) (p3 := p3) (p4 := p4) (p5 := p5) (l176 := l176) (l200 := l200) ht208 hb209 hb210 hR2 hRe
      exact ⟨s', run_fuel (run_chain hpre e1) e2.halted 239 (by decide), e2, e3, e4, e5⟩
    | false =>
      cases hb212 : (t211.c && !t211.z) with
      | true =>
        obtain ⟨s', e1, e2, e3, e4, e5⟩ := mont_end_hi4 s pr pt pp inv hr ht hp hstk hrs hts hps (t73 := t73) (t106 := t106) (t139 := t139) (t172 := t172) (t175 := t175) (t184 := t184) (t189 := t189) (t194 := t194) (t198 := t198) (t199 := t199) (t204 := t204) (t205 := t205) (t207 := t207) (t225 := t225) (t226 := t226) (t227 := t227) (t228 := t228) (t229 := t229) (t230 := t230) (p0 := p0) (p1 := p1) (p2 := p2) (p3 := p3) (p4 := p4) (p5 := p5) (l176 := l176) (l200 := l200) ht208 ht211 ht225 ht226 ht227 ht228 ht229 ht230 hb209 hb210 hb212 hR2 hRe
        exact ⟨s', run_fuel (run_chain hpre e1) e2.halted 239 (by decide), e2, e3, e4, e5⟩
      | false =>
        cases hb213 : (!t211.c) with
        | true =>
          obtain ⟨s', e1, e2, e3, e4, e5⟩ := mont_end_lo4 s pr pt pp inv hr ht hp hstk hrs hts hps (t73 := t73) (t106 := t106) (t139 := t139) (t172 := t172) (t175 := t175) (t184 := t184) (t189 := t189) (t194 := t194) (t198 := t198) (t199 := t199) (t204 := t204) (t205 := t205) (t207 := t207) (t211 := t211) (p0 := p0) (p1 := p1) (p2 := p2) (p3 := p3) (p4 := p4) (p5 := p5) (l176 := l176) (l200 := l200) ht208 ht211 hb209 hb210 hb212 hb213 hR2 hRe
          exact ⟨s', run_fuel (run_chain hpre e1) e2.halted 239 (by decide), e2, e3, e4, e5⟩
        | false =>
          cases hb215 : (t214.c && !t214.z) with
          | true =>
            obtain ⟨s', e1, e2, e3, e4, e5⟩ := mont_end_hi3 s pr pt pp inv hr ht hp hstk hrs hts hps (t73 := t73) (t106 := t106) (t139 := t139) (t172 := t172) (t175 := t175) (t184 := t184) (t189 := t189) (t194 := t194) (t198 := t198) (t199 := t199) (t204 := t204) (t205 := t205) (t207 := t207) (t225 := t225) (t226 := t226) (t227 := t227) (t228 := t228) (t229 := t229) (t230 := t230) (p0 := p0) (p1 := p1) (p2 := p2) (p3 := p3) (p4 := p4) (p5 := p5) (l176 := l176) (l200 := l200) ht208 ht211 ht214 ht225 ht226 ht227 ht228 ht229 ht230 hb209 hb210 hb212 hb213 hb215 hR2 hRe
            exact ⟨s', run_fuel (run_chain hpre e1) e2.halted 239 (by decide), e2, e3, e4, e5⟩
          | false =>
            cases hb216 : (!t214.c) with
            | true =>
              obtain ⟨s', e1, e2, e3, e4, e5⟩ := mont_end_lo3 s pr pt pp inv hr ht hp hstk hrs hts hps (t73 := t73) (t106 := t106) (t139 := t139) (t172 := t172) (t175 := t175) (t184 := t184) (t189 := t189) (t194 := t194) (t198 := t198) (t199 := t199) (t204 := t204) (t205 := t205) (t207 := t207) (t214 := t214) (p0 := p0) (p1 := p1) (p2 := p2) (p3 := p3) (p4 := p4) (p5 := p5) (l176 := l176) (l200 := l200) ht208 ht211 ht214 hb209 hb210 hb212 hb213 hb215 hb216 hR2 hRe
              exact ⟨s', run_fuel (run_chain hpre e1) e2.halted 239 (by decide), e2, e3, e4, e5⟩
            | false =>
              cases hb218 : (t217.c && !t217.z) with
              | true =>
                obtain ⟨s', e1, e2, e3, e4, e5⟩ := mont_end_hi2 s pr pt pp inv hr ht hp hstk hrs hts hps (t73 := t73) (t106 := t106) (t139 := t139) (t172 := t172) (t175 := t175) (t184 := t184) (t189 := t189) (t194 := t194) (t198 := t198) (t199 := t199) (t204 := t204) (t205 := t205) (t207 := t207) (t225 := t225) (t226 := t226) (t227 := t227) (t228 := t228) (t229 := t229) (t230 := t230) (p0 := p0) (p1 := p1) (p2 := p2) (p3 := p3) (p4 := p4) (p5 := p5) (l176 := l176) (l200 := l200) ht208 ht211 ht214 ht217 ht225 ht226 ht227 ht228 ht229 ht230 hb209 hb210 hb212 hb213 hb215 hb216 hb218 hR2 hRe
                exact ⟨s', run_fuel (run_chain hpre e1) e2.halted 239 (by decide), e2, e3, e4, e5⟩
              | false =>
                cases hb219 : (!t217.c) with
                | true =>
                  obtain ⟨s', e1, e2, e3, e4, e5⟩ := mont_end_lo2 s pr pt pp inv hr ht hp hstk hrs hts hps (t73 := t73) (t106 := t106) (t139 := t139) (t172 := t172) (t175 := t175) (t184 := t184) (t189 := t189) (t194 := t194) (t198 := t198) (t199 := t199) (t204 := t204) (t205 := t205) (t207 := t207) (t217 := t217) (p0 := p0) (p1 := p1) (p2 := p2) (p3 := p3) (p4 := p4) (p5 := p5) (l176 := l176) (l200 := l200) ht208 ht211 ht214 ht217 hb209 hb210 hb212 hb213 hb215 hb216 hb218 hb219 hR2 hRe
                  exact ⟨s', run_fuel (run_chain hpre e1) e2.halted 239 (by decide), e2, e3, e4, e5⟩
                | false =>
                  cases hb221 : (t220.c && !t220.z) with
                  | true =>
                    obtain ⟨s', e1, e2, e3, e4, e5⟩ := mont_end_hi1 s pr pt pp inv hr ht hp hstk hrs hts hps (t73 := t73) (t106 := t106) (t139 := t139) (t172 := t172) (t175 := t175) (t184 := t184) (t189 := t189) (t194 := t194) (t198 := t198) (t199 := t199) (t204 := t204) (t205 := t205) (t207 := t207) (t225 := t225) (t226 := t226) (t227 := t227) (t228 := t228) (t229 := t229) (t230 := t230) (p0 := p0) (p1 := p1) (p2 := p2) (p3 := p3) (p4 := p4) (p5 := p5) (l176 := l176) (l200 := l200) ht208 ht211 ht214 ht217 ht220 ht225 ht226 ht227 ht228 ht229 ht230 hb209 hb210 hb212 hb213 hb215 hb216 hb218 hb219 hb221 hR2 hRe
                    exact ⟨s', run_fuel (run_chain hpre e1) e2.halted 239 (by decide), e2, e3, e4, e5⟩
                  | false =>
                    cases hb222 : (!t220.c) with
                    | true =>
                      obtain ⟨s', e1, e2, e3, e4, e5⟩ := mont_end_lo1 s pr pt pp inv hr ht hp hstk hrs hts hps (t73 := t73) (t106 := t106) (t139 := t139) (t172 := t172) (t175 := t175) (t184 := t184) (t189 := t189) (t194 := t194) (t198 := t198) (t199 := t199) (t204 := t204) (t205 := t205) (t207 := t207) (t220 := t220) (p0 := p0) (p1 := p1) (p2 := p2) (p3 := p3) (p4 := p4) (p5 := p5) (l176 := l176) (l200 := l200) ht208 ht211 ht214 ht217 ht220 hb209 hb210 hb212 hb213 hb215 hb216 hb218 hb219 hb221 hb222 hR2 hRe
                      exact ⟨s', run_fuel (run_chain hpre e1) e2.halted 239 (by decide), e2, e3, e4, e5⟩
                    | false =>
                      cases hb224 : (!t223.c) with
                      | true =>
                        obtain ⟨s', e1, e2, e3, e4, e5⟩ := mont_end_lo0 s pr pt pp inv hr ht hp hstk hrs hts hps (t73 := t73) (t106 := t106) (t139 := t139) (t172 := t172) (t175 := t175) (t184 := t184) (t189 := t189) (t194 := t194) (t198 := t198) (t199 := t199) (t204 := t204) (t205 := t205) (t207 := t207) (t223 := t223) (p0 := p0) (p1 := p1) (p2 := p2) (p3 := p3) (p4 := p4) (p5 := p5) (l176 := l176) (l200 := l200) ht208 ht211 ht214 ht217 ht220 ht223 hb209 hb210 hb212 hb213 hb215 hb216 hb218 hb219 hb221 hb222 hb224 hR2 hRe
                        exact ⟨s', run_fuel (run_chain hpre e1) e2.halted 239 (by decide), e2, e3, e4, e5⟩
                      | false =>
                        obtain ⟨s', e1, e2, e3, e4, e5⟩ := mont_end_hs0 s pr pt pp inv hr ht hp hstk hrs hts hps (t73 := t73) (t106 := t106) (t139 := t139) (t172 := t172) (t175 := t175) (t184 := t184) (t189 := t189) (t194 := t194) (t198 := t198) (t199 := t199) (t204 := t204) (t205 := t205) (t207 := t207) (t223 := t223) (t226e := t226e) (t227e := t227e) (t228e := t228e) (t229e := t229e) (t230e := t230e) (p0 := p0) (p1 := p1) (p2 := p2) (p3 := p3) (p4 := p4) (p5 := p5) (l176 := l176) (l200 := l200) ht208 ht211 ht214 ht217 ht220 ht223 ht226e ht227e ht228e ht229e ht230e hb209 hb210 hb212 hb213 hb215 hb216 hb218 hb219 hb221 hb222 hb224 hR2 hRe
                        exact ⟨s', run_fuel (run_chain hpre e1) e2.halted 239 (by decide), e2, e3, e4, e5⟩

end Jedi.A64
