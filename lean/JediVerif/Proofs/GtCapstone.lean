/-
C07/C04 capstone over the concrete field `Fq = Fin q` with the library's constant tables: the target group GT (elements of
order dividing `r` in Fq12ˣ), membership of every output of the final exponentiation, and exactness of the fast GT
routines (`exponentiate_gt`, `random_gt`, cyclotomic squaring, inversion by conjugation) on EVERY element of GT, with no
hypothesis other than membership.

Ingredients: `Proofs/Cyclotomic.lean` (Granger–Scott predicate `IsCyclotomic`), `Proofs/FinalExp.lean` (power form of the
final exponentiation), `Proofs/GtExp.lean` (loop of `exponentiate_gt`), `Proofs/FqTower.lean` (Fq12 is a field, the
table-driven Frobenius maps are the powers `x ↦ x^(q^k)`).  Closed number-theoretic facts (`r ∣ q⁴ − q² + 1`, …) are checked
by kernel evaluation.
-/
import JediVerif.Proofs.Cyclotomic
import JediVerif.Proofs.FinalExp
import JediVerif.Proofs.FqTower
import JediVerif.Proofs.GtExp

set_option linter.unusedSimpArgs false
set_option linter.unusedVariables false

namespace Jedi.GtCapstone
open Jedi Jedi.Gen Jedi.Impl Jedi.Cyclotomic Jedi.Driver

/-! ## Closed facts -/

/-- `Φ₁₂(q) = q⁴ − q² + 1` (the order of the cyclotomic subgroup of Fq12ˣ) -/
def phi12 : Nat := q ^ 4 - q ^ 2 + 1

/-- `r` divides `Φ₁₂(q)` (embedding degree 12). -/
theorem r_dvd_phi12 : (q ^ 4 - q ^ 2 + 1) % r = 0 := by decide +kernel
theorem phi12_add : (q ^ 4 - q ^ 2 + 1) + q ^ 2 = q ^ 4 + 1 := by decide +kernel
theorem phi12_dvd_q12 : (q ^ 12 - 1) % (q ^ 4 - q ^ 2 + 1) = 0 := by decide +kernel
/-- the easy-part exponent times `Φ₁₂(q)` is `q¹² − 1` -/
theorem easy_mul_phi12 : (q ^ 6 - 1) * (q ^ 2 + 1) * (q ^ 4 - q ^ 2 + 1) = q ^ 12 - 1 := by decide +kernel
theorem q_pos : 0 < q := by decide
theorem r_pos : 0 < r := by decide

/-- the four closed facts about the Frobenius tables needed for `conjugate = frobenius_map(·, 6)` (own copy; the
same facts are `tab_zero`/`tab_special` of `Proofs/FqTower.lean`). -/
theorem lawfulFrobPowFq : FinalExp.LawfulFrobPow Fq where
  c2_zero := tab_zero.1
  g1_zero := tab_zero.2.1
  g2_zero := tab_zero.2.2.1
  g12_six := tab_special.2

/-- the uniform form of "Frobenius = power" the generic theorems take as a hypothesis -/
theorem frobPowFq : ∀ (a : Fq12) (k : Nat), Fq12.frobenius_map a k = a ^ (q ^ k) := Fq12.frobenius_map_eq_pow

/-! ## Non-zero elements of Fq12 -/

/-- the norm down to Fq of a non-zero element is non-zero (multiplicativity of the norm, `a · a⁻¹ = 1`). -/
theorem normBase_ne_zero (a : Fq12) (ha : a ≠ 0) : FinalExp.normBase a ≠ 0 := by
  intro h
  have h1 := FinalExp.normBase_mul a (Fq12.inverse a)
  rw [Fq12.mul_inverse a ha, FinalExp.normBase_one, h, zero_mul] at h1
  exact one_ne_zero h1

/-- **the generated final exponentiation is the power `3·(q¹²−1)/r`** on every non-zero element (own copy of CAP1's
`final_exponentiation_is_pow`). -/
theorem final_exponentiation_eq_pow_Fq (a : Fq12) (ha : a ≠ 0) :
    final_exponentiation a = a ^ (3 * ((q ^ 12 - 1) / r)) :=
  FinalExp.final_exponentiation_eq_pow lawfulFrobPowFq frobPowFq a (normBase_ne_zero a ha) (Fq12.pow_q12_sub_one a ha)

theorem Fq12.conj_eq_pow (a : Fq12) : Q12.conj a = a ^ (q ^ 6) := by
  rw [← Fq12.conjugate_eq_pow, Fq12.conjugate_spec]

/-! ## The target group -/

/-- **GT**: the elements of Fq12 of order dividing `r` (automatically non-zero: `IsGT.ne_zero`). -/
def IsGT (a : Fq12) : Prop := a ^ r = 1

instance (a : Fq12) : Decidable (IsGT a) := decidable_of_iff (npow a r = 1) (by rw [npow_eq_pow]; rfl)

theorem isGT_iff (a : Fq12) : IsGT a ↔ a ^ r = 1 := Iff.rfl

theorem IsGT.ne_zero {a : Fq12} (h : IsGT a) : a ≠ 0 := by
  rintro rfl
  rw [IsGT, zero_pow (Nat.pos_iff_ne_zero.mp r_pos)] at h
  exact zero_ne_one h

theorem isGT_one : IsGT 1 := one_pow r

theorem IsGT.mul {a b : Fq12} (ha : IsGT a) (hb : IsGT b) : IsGT (a * b) := by
  rw [IsGT, mul_pow, ha, hb, mul_one]

theorem IsGT.pow {a : Fq12} (ha : IsGT a) (n : Nat) : IsGT (a ^ n) := by
  rw [IsGT, ← pow_mul, mul_comm, pow_mul, ha, one_pow]

theorem IsGT.conj {a : Fq12} (ha : IsGT a) : IsGT (Q12.conj a) := by
  rw [Fq12.conj_eq_pow]; exact ha.pow _

theorem IsGT.conjugate {a : Fq12} (ha : IsGT a) : IsGT (Fq12.conjugate a) := by
  rw [Fq12.conjugate_spec]; exact ha.conj

theorem IsGT.frobenius_map {a : Fq12} (ha : IsGT a) (k : Nat) : IsGT (Fq12.frobenius_map a k) := by
  rw [Fq12.frobenius_map_eq_pow]; exact ha.pow _

theorem isGT_list_prod (l : List Fq12) (h : ∀ x ∈ l, IsGT x) : IsGT l.prod :=
  GtExp.pred_listprod IsGT isGT_one (fun _ _ => IsGT.mul) l h

/-- the order of a GT element divides `Φ₁₂(q)` … -/
theorem IsGT.pow_phi12 {a : Fq12} (ha : IsGT a) : a ^ (q ^ 4 - q ^ 2 + 1) = 1 := by
  rw [pow_eq_pow_mod _ ha, r_dvd_phi12, pow_zero]

/-- … so **GT is inside the cyclotomic subgroup**: every GT element satisfies the Granger–Scott equations. -/
theorem IsGT.isCyclotomic {a : Fq12} (ha : IsGT a) : IsCyclotomic a := by
  refine isCyclotomic_of_pow frobTwoFacts_Fq q a (frobPowFq a 2) (frobPowFq _ 2) ?_
  rw [← phi12_add, pow_add, ha.pow_phi12, one_mul]

/-- GT elements are unitary: `a · conj a = 1`. -/
theorem IsGT.mul_conj {a : Fq12} (ha : IsGT a) : a * Q12.conj a = 1 :=
  ha.isCyclotomic.mul_conj_eq_one (Fq12.mul_inverse a ha.ne_zero)

theorem IsGT.conjugate_mul {a : Fq12} (ha : IsGT a) : Fq12.conjugate a * a = 1 :=
  GtExp.conjugate_mul_self a ha.mul_conj

/-- the general inversion `Fq12::inverse` (what `gt_negate` calls) agrees with conjugation on GT. -/
theorem IsGT.inverse_eq_conjugate {a : Fq12} (ha : IsGT a) : Fq12.inverse a = Fq12.conjugate a :=
  GtExp.inverse_eq_conjugate a (Fq12.mul_inverse a ha.ne_zero) ha.mul_conj

theorem IsGT.inverse {a : Fq12} (ha : IsGT a) : IsGT (Fq12.inverse a) := by
  rw [ha.inverse_eq_conjugate]; exact ha.conjugate

/-- (H-frob) of `Properties/C07.lean` holds on GT. -/
theorem IsGT.gtTable {a : Fq12} (ha : IsGT a) : ∀ j < 4, GtExp.gtTable a j = a ^ (blsX ^ j) :=
  GtExp.gtTable_eq_pow_of_qpow a ha ha.mul_conj (fun j _ => frobPowFq a j)

/-- (H-cyc) of `Properties/C07.lean` holds on GT. -/
theorem IsGT.square_cyclotomic_pow {a : Fq12} (ha : IsGT a) (n : Nat) :
    Fq12.square_cyclotomic_oa (a ^ n) = a ^ n * a ^ n :=
  square_cyclotomic_oa_eq _ (ha.isCyclotomic.pow n)

/-! ## Every output of the final exponentiation is in GT -/

/-- **every output of the final exponentiation on a non-zero input is a GT element**. -/
theorem final_exponentiation_isGT (f : Fq12) (hf : f ≠ 0) : IsGT (final_exponentiation f) :=
  FinalExp.final_exponentiation_pow_r lawfulFrobPowFq frobPowFq f (normBase_ne_zero f hf) (Fq12.pow_q12_sub_one f hf)

theorem final_exponentiation_oa_isGT (f : Fq12) (hf : f ≠ 0) : IsGT (final_exponentiation_oa f) :=
  final_exponentiation_isGT f hf

/-- on the input 0 the chain returns 0 (not in GT): the hypothesis `f ≠ 0` is necessary. -/
theorem final_exponentiation_zero : final_exponentiation (0 : Fq12) = 0 := by decide +kernel

theorem final_exponentiation_isGT_iff (f : Fq12) : IsGT (final_exponentiation f) ↔ f ≠ 0 := by
  refine ⟨fun h hf => ?_, final_exponentiation_isGT f⟩
  rw [hf, final_exponentiation_zero] at h
  exact h.ne_zero rfl

/-- every pairing value with non-zero Miller value is in GT (all three entry points). -/
theorem pairing_isGT (g1 : Aff Fq) (g2 : Aff Fq2) (h : millerLoop [(g1, g2)] [] ≠ 0) : IsGT (pairing g1 g2) :=
  final_exponentiation_oa_isGT _ h

theorem pairingPrepared_isGT (g1 : Aff Fq) (g2 : Prepared Fq) (h : millerLoop [] [(g1, g2)] ≠ 0) :
    IsGT (pairingPrepared g1 g2) :=
  final_exponentiation_oa_isGT _ h

theorem pairingProduct_isGT (as : List (Aff Fq × Aff Fq2)) (ps : List (Aff Fq × Prepared Fq))
    (h : millerLoop as ps ≠ 0) : IsGT (pairingProduct as ps) :=
  final_exponentiation_oa_isGT _ h

/-! ## The fast GT routines are exact on GT -/

/-- **`exponentiate_gt_div` returns `a ^ k`** for every GT element and every 256-bit exponent. -/
theorem gt_exponentiation_exact (a : Fq12) (ha : IsGT a) (k : Nat) (hk : k < 2 ^ 256) :
    exponentiateGt a (xadic k) = a ^ k :=
  GtExp.gt_exp_correct a ha ha.gtTable ha.square_cyclotomic_pow k hk

theorem gt_exponentiation_exact_mod (a : Fq12) (ha : IsGT a) (k : Nat) (hk : k < 2 ^ 256) :
    exponentiateGt a (xadic k) = a ^ (k % r) := by
  rw [gt_exponentiation_exact a ha k hk, pow_eq_pow_mod k ha]

/-- the result is again in GT. -/
theorem gt_exponentiation_isGT (a : Fq12) (ha : IsGT a) (k : Nat) (hk : k < 2 ^ 256) :
    IsGT (exponentiateGt a (xadic k)) := by
  rw [gt_exponentiation_exact a ha k hk]; exact ha.pow k

/-- for an arbitrary digit vector with 64-bit digits: the power by the recombined value. -/
theorem gt_exponentiation_digits_exact (a : Fq12) (ha : IsGT a) (c : List Nat) (hc : ∀ j < 4, c.getD j 0 < 2 ^ 64) :
    exponentiateGt a c = a ^ xadicVal c :=
  GtExp.exponentiateGt_digits a c hc ha.gtTable ha.square_cyclotomic_pow

/-- **`random_gt`**: for every byte stream, `y < r` and the element returned is exactly `a ^ y`. -/
theorem gt_rand_exact (a : Fq12) (ha : IsGT a) (fuel : Nat) (s : RS) :
    (xrandModel fuel s).1 < r ∧ exponentiateGt a (xrandModel fuel s).2.1 = a ^ (xrandModel fuel s).1 :=
  GtExp.gt_rand_correct a ha.gtTable ha.square_cyclotomic_pow fuel s

/-- **the fast (Granger–Scott) squaring is the squaring on GT**, both alias forms, and agrees with the generic one. -/
theorem gt_square_exact (a : Fq12) (ha : IsGT a) :
    Fq12.square_cyclotomic_oa a = a * a ∧ Fq12.square_cyclotomic a = a * a ∧
      Fq12.square_cyclotomic a = Fq12.square a :=
  ⟨square_cyclotomic_oa_eq a ha.isCyclotomic, square_cyclotomic_eq a ha.isCyclotomic,
    by rw [square_cyclotomic_eq a ha.isCyclotomic, Fq12.square_spec]⟩

/-- **inversion on GT**: conjugation is the inverse, it is what the general `Fq12::inverse` returns, and it is the
field inverse of `Fq12`. -/
theorem gt_inverse_exact (a : Fq12) (ha : IsGT a) :
    Fq12.conjugate a * a = 1 ∧ Fq12.inverse a = Fq12.conjugate a ∧ Fq12.conjugate a = a⁻¹ ∧
      Fq12.conjugate a = a ^ (r - 1) := by
  refine ⟨ha.conjugate_mul, ha.inverse_eq_conjugate, (eq_inv_of_mul_eq_one_left ha.conjugate_mul), ?_⟩
  have h1 : a ^ (r - 1) * a = 1 := by
    rw [← pow_succ, Nat.sub_add_cancel r_pos]; exact ha
  rw [eq_inv_of_mul_eq_one_left ha.conjugate_mul, eq_inv_of_mul_eq_one_left h1]

/-! ## GT and the cyclotomic subgroup, as powers -/

/-- `IsCyclotomic` over the concrete Fq12, step 1: the Granger–Scott equations say `a · a^(q⁴) = a^(q²)`. -/
theorem isCyclotomic_iff_pow_eq (a : Fq12) : IsCyclotomic a ↔ a * a ^ (q ^ 4) = a ^ (q ^ 2) := by
  have T := frobTwoFacts_Fq
  rw [isCyclotomic_iff_twist T.h_prim6, sq, ← twist_twist, ← frobenius_map_two T, ← frobenius_map_two T,
    frobPowFq, frobPowFq, ← pow_mul, ← pow_add]

/-- **characterisation of the Granger–Scott predicate over the concrete Fq12**: `a = 0` or `a` lies in the cyclotomic
subgroup, i.e. `a ^ Φ₁₂(q) = 1`. -/
theorem isCyclotomic_iff_pow (a : Fq12) : IsCyclotomic a ↔ a = 0 ∨ a ^ (q ^ 4 - q ^ 2 + 1) = 1 := by
  rw [isCyclotomic_iff_pow_eq, ← pow_succ', ← phi12_add, pow_add]
  by_cases ha : a = 0
  · subst ha
    simp [zero_pow (Nat.pos_iff_ne_zero.mp (Nat.pow_pos q_pos : 0 < q ^ 2))]
  · have hq : a ^ (q ^ 2) ≠ 0 := pow_ne_zero _ ha
    constructor
    · intro h
      exact Or.inr (mul_right_cancel₀ hq (by rw [h, one_mul]))
    · rintro (h | h)
      · exact absurd h ha
      · rw [h, one_mul]

/-- the cyclotomic subgroup, as a power condition, is where the fast squaring is exact — and nowhere else
(apart from 0). -/
theorem square_cyclotomic_eq_iff_pow (a : Fq12) :
    Fq12.square_cyclotomic a = a * a ↔ a = 0 ∨ a ^ (q ^ 4 - q ^ 2 + 1) = 1 := by
  rw [← isCyclotomic_iff_pow]
  refine square_cyclotomic_eq_iff (fun x hx => ?_) a
  have h2 : (2 : Fq) * x = 0 := by rw [two_mul]; exact hx
  rcases mul_eq_zero.mp h2 with h | h
  · exact absurd h fq_two_ne_zero
  · exact h

/-- **the easy part as a power**: `map_to_cyclotomic a = a ^ ((q⁶ − 1)(q² + 1))` for every non-zero `a`. -/
theorem map_to_cyclotomic_eq_pow (a : Fq12) (ha : a ≠ 0) :
    Fq12.map_to_cyclotomic a = a ^ ((q ^ 6 - 1) * (q ^ 2 + 1)) :=
  map_to_cyclotomic_eq' q q_pos frobPowFq a (Fq12.mul_inverse a ha) (Fq12.conj_eq_pow a)

theorem map_to_cyclotomic_zero : Fq12.map_to_cyclotomic (0 : Fq12) = 0 := by decide +kernel

/-- every output of `map_to_cyclotomic` satisfies the Granger–Scott equations (input 0 included: output 0). -/
theorem isCyclotomic_map_to_cyclotomic_all (a : Fq12) : IsCyclotomic (Fq12.map_to_cyclotomic a) := by
  by_cases ha : a = 0
  · subst ha; rw [map_to_cyclotomic_zero, isCyclotomic_iff_pow]; exact Or.inl rfl
  · exact isCyclotomic_map_to_cyclotomic_Fq a (Fq12.mul_inverse a ha)

/-- … and for non-zero input it lies in the cyclotomic subgroup in the power sense. -/
theorem map_to_cyclotomic_pow_phi12 (a : Fq12) (ha : a ≠ 0) :
    Fq12.map_to_cyclotomic a ^ (q ^ 4 - q ^ 2 + 1) = 1 := by
  rw [map_to_cyclotomic_eq_pow a ha, ← pow_mul, easy_mul_phi12, Fq12.pow_q12_sub_one a ha]

/-! ## Non-vacuity -/

/-- GT is non-trivial: the library's exported `generator_pairing` is a GT element different from 1. -/
theorem gtGen_isGT : IsGT Cyclotomic.gtGen ∧ Cyclotomic.gtGen ≠ 1 := by
  constructor
  · rw [IsGT, ← npow_eq_pow]; decide +kernel
  · decide +kernel

example : exponentiateGt Cyclotomic.gtGen (xadic (2 ^ 256 - 1)) = Cyclotomic.gtGen ^ (2 ^ 256 - 1) :=
  gt_exponentiation_exact Cyclotomic.gtGen gtGen_isGT.1 _ (by decide)

/-- the final exponentiation of an arbitrary non-zero element (outside the cyclotomic subgroup) lands in GT -/
example : IsGT (final_exponentiation Cyclotomic.sample) := final_exponentiation_isGT _ (by decide +kernel)

/-- an element of the cyclotomic subgroup need not be in GT (the cofactor `Φ₁₂(q)/r` is non-trivial) -/
example : IsCyclotomic (Fq12.map_to_cyclotomic Cyclotomic.sample) ∧ ¬ IsGT (Fq12.map_to_cyclotomic Cyclotomic.sample) :=
  ⟨isCyclotomic_map_to_cyclotomic_all _, by decide +kernel⟩

/-- the hypothesis of `map_to_cyclotomic_eq_pow` / `final_exponentiation_isGT` -/
example : Cyclotomic.sample ≠ 0 := by decide +kernel

end Jedi.GtCapstone
