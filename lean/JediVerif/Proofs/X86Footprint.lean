/-
Footprints of the x86-64 machine model (`JediVerif/Impl/X86.lean`), for EVERY program.

The model's `State` carries, besides registers / flags / pc / status, one memory `mem : Nat → Word`
and two permission maps `readable writable : Nat → Bool`; `State.load` / `State.store` fault on an
address without the permission.  This file turns "the permissions are checked" into

1. **Frame** (`step_frame`, `run_frame`): no instruction changes `readable`, `writable`, `cpuidFn`; a
   run changes memory only at addresses that are `writable`.
2. **Locality** (`Agree`, `step_local`, `run_local`): two states that agree on everything except the
   memory outside `readable` stay in agreement, instruction by instruction; and every memory cell
   after the run is either untouched in both runs or holds the same value in both and is `writable`.
   Writable addresses need NOT be readable for this (the model allows write-only cells): the
   statement tracks "equal on `readable`, and equal wherever something was written".
3. **Two cores, one memory** (`Sys`, `sysStep`, `sysRun`): two cores with private registers and
   permission maps execute on one shared memory under an arbitrary schedule (`List Bool`, one
   instruction of one core per entry).  If the permission maps are `Compatible` (what one core may
   write the other may neither read nor write), the final system state of EVERY schedule is the
   one of the sequential execution (`sysRun_eq_sequential`), each core's registers are those of
   running alone on the initial memory (`sysRun_core1`, `sysRun_core2`), and the final memory is
   the merge of the two solo runs (`sysRun_mem`, `sysRun_mem1`, `sysRun_mem2`, `sysRun_view1`, `sysRun_view2`).

Nothing here depends on which program runs: it holds for all the generated routines at once.
No Mathlib.
-/
import JediVerif.Impl.X86

namespace Jedi.X86

/-! ## Replacing / erasing the memory of a state -/

/-- the same core state on another memory -/
def State.withMem (s : State) (m : Nat → Word) : State := { s with mem := m }

/-- the core-private part of a state: everything but the memory contents -/
def State.noMem (s : State) : State := { s with mem := fun _ => 0 }

@[simp] theorem State.withMem_mem (s : State) (m : Nat → Word) : (s.withMem m).mem = m := rfl
@[simp] theorem State.withMem_self (s : State) : s.withMem s.mem = s := rfl
@[simp] theorem State.withMem_withMem (s : State) (m m' : Nat → Word) : (s.withMem m).withMem m' = s.withMem m' := rfl
@[simp] theorem State.withMem_noMem (s : State) (m : Nat → Word) : (s.withMem m).noMem = s.noMem := rfl
@[simp] theorem State.noMem_noMem (s : State) : s.noMem.noMem = s.noMem := rfl
@[simp] theorem State.noMem_withMem (s : State) (m : Nat → Word) : s.noMem.withMem m = s.withMem m := rfl
@[simp] theorem State.withMem_readable (s : State) (m : Nat → Word) : (s.withMem m).readable = s.readable := rfl
@[simp] theorem State.withMem_writable (s : State) (m : Nat → Word) : (s.withMem m).writable = s.writable := rfl
@[simp] theorem State.withMem_cpuidFn (s : State) (m : Nat → Word) : (s.withMem m).cpuidFn = s.cpuidFn := rfl
@[simp] theorem State.withMem_status (s : State) (m : Nat → Word) : (s.withMem m).status = s.status := rfl
@[simp] theorem State.withMem_pc (s : State) (m : Nat → Word) : (s.withMem m).pc = s.pc := rfl
@[simp] theorem State.noMem_readable (s : State) : s.noMem.readable = s.readable := rfl
@[simp] theorem State.noMem_writable (s : State) : s.noMem.writable = s.writable := rfl
@[simp] theorem State.noMem_cpuidFn (s : State) : s.noMem.cpuidFn = s.cpuidFn := rfl
@[simp] theorem State.noMem_status (s : State) : s.noMem.status = s.status := rfl
@[simp] theorem State.noMem_pc (s : State) : s.noMem.pc = s.pc := rfl

/-- equal core parts: the second state is the first one on another memory -/
theorem State.eq_withMem_of_noMem_eq {s t : State} (h : t.noMem = s.noMem) : t = s.withMem t.mem := by
  have : t.noMem.withMem t.mem = s.noMem.withMem t.mem := by rw [h]
  simpa using this

/-! ### the building blocks of `exec` commute with `withMem` -/

theorem State.withMem_get (s : State) (m : Nat → Word) (r : Reg) : (s.withMem m).get r = s.get r := by
  cases r <;> rfl
theorem State.withMem_set (s : State) (m : Nat → Word) (r : Reg) (v : Word) :
    (s.withMem m).set r v = (s.set r v).withMem m := by
  cases r <;> rfl
theorem State.withMem_raise (s : State) (m : Nat → Word) (f : Fault) : (s.withMem m).raise f = (s.raise f).withMem m := rfl
theorem State.withMem_next (s : State) (m : Nat → Word) : (s.withMem m).next = s.next.withMem m := rfl
theorem State.withMem_setFlags (s : State) (m : Nat → Word) (f : ArithRes) :
    (s.withMem m).setFlags f = (s.setFlags f).withMem m := rfl
theorem State.withMem_ea (s : State) (m : Nat → Word) (b : Reg) (d : Int) : (s.withMem m).ea b d = s.ea b d := by
  simp only [State.ea, State.withMem_get]
theorem State.withMem_cond (s : State) (m : Nat → Word) (c : Cond) : (s.withMem m).cond c = s.cond c := by
  cases c <;> rfl

/-- the part of a state that no instruction may change, and the memory -/
structure SameEnv (s t : State) : Prop where
  readable : t.readable = s.readable
  writable : t.writable = s.writable
  cpuidFn : t.cpuidFn = s.cpuidFn

theorem SameEnv.refl (s : State) : SameEnv s s := ⟨rfl, rfl, rfl⟩
theorem SameEnv.trans {s t u : State} (h1 : SameEnv s t) (h2 : SameEnv t u) : SameEnv s u :=
  ⟨h2.readable.trans h1.readable, h2.writable.trans h1.writable, h2.cpuidFn.trans h1.cpuidFn⟩

/-- `t` is `s` with registers / flags / pc / status possibly changed: memory and environment as in `s` -/
structure RegUpd (s t : State) : Prop extends SameEnv s t where
  mem : t.mem = s.mem

theorem RegUpd.refl (s : State) : RegUpd s s := ⟨SameEnv.refl s, rfl⟩
theorem RegUpd.trans {s t u : State} (h1 : RegUpd s t) (h2 : RegUpd t u) : RegUpd s u :=
  ⟨h1.toSameEnv.trans h2.toSameEnv, h2.mem.trans h1.mem⟩
theorem RegUpd.set (s : State) (r : Reg) (v : Word) : RegUpd s (s.set r v) := by
  cases r <;> exact ⟨⟨rfl, rfl, rfl⟩, rfl⟩
theorem RegUpd.raise (s : State) (f : Fault) : RegUpd s (s.raise f) := ⟨⟨rfl, rfl, rfl⟩, rfl⟩
theorem RegUpd.next (s : State) : RegUpd s s.next := ⟨⟨rfl, rfl, rfl⟩, rfl⟩
theorem RegUpd.setFlags (s : State) (f : ArithRes) : RegUpd s (s.setFlags f) := ⟨⟨rfl, rfl, rfl⟩, rfl⟩

/-! ## One instruction: frame and locality together

`Post s m' t t'` relates the outcome `t` of an instruction executed in `s` to the outcome `t'` of the
same instruction executed in `s.withMem m'`, where `m'` agrees with `s.mem` on the readable
addresses. -/

/-- `m'` may differ from the memory of `s` only where `s` cannot read -/
def MemAgree (s : State) (m' : Nat → Word) : Prop := ∀ a, s.readable a = true → s.mem a = m' a

structure Post (s : State) (m' : Nat → Word) (t t' : State) : Prop where
  /-- permissions and the `cpuid` oracle are untouched -/
  env : SameEnv s t
  /-- registers, flags, pc, status come out the same -/
  core : t' = t.withMem t'.mem
  /-- each memory cell: untouched in both executions, or written with the same value (and then writable) -/
  cell : ∀ a, (t.mem a = s.mem a ∧ t'.mem a = m' a) ∨ (t.mem a = t'.mem a ∧ s.writable a = true)

/-- an outcome that does not touch memory and is computed without looking at memory -/
theorem Post.pure {s : State} {m' : Nat → Word} {t : State} (h : RegUpd s t) : Post s m' t (t.withMem m') :=
  ⟨h.toSameEnv, rfl, fun a => Or.inl ⟨by rw [h.mem], rfl⟩⟩

/-- a register-only post-processing `g` (one that commutes with swapping the memory) -/
def RegOnly (g : State → State) : Prop := ∀ t, (∀ m, g (t.withMem m) = (g t).withMem m) ∧ SameEnv t (g t)

theorem RegOnly.mem {g : State → State} (hg : RegOnly g) (t : State) : (g t).mem = t.mem := by
  have := (hg t).1 t.mem
  rw [State.withMem_self] at this
  exact (congrArg State.mem this).trans rfl

theorem RegOnly.regUpd {g : State → State} (hg : RegOnly g) (t : State) : RegUpd t (g t) := ⟨(hg t).2, hg.mem t⟩

theorem RegOnly.id : RegOnly (fun t => t) := fun t => ⟨fun _ => rfl, SameEnv.refl t⟩
theorem RegOnly.next : RegOnly State.next := fun _ => ⟨fun _ => rfl, ⟨rfl, rfl, rfl⟩⟩
theorem RegOnly.setFlags (r : ArithRes) : RegOnly (·.setFlags r) := fun _ => ⟨fun _ => rfl, ⟨rfl, rfl, rfl⟩⟩
theorem RegOnly.comp {g h : State → State} (hg : RegOnly g) (hh : RegOnly h) : RegOnly (fun t => g (h t)) :=
  fun t => ⟨fun m => by show g (h (t.withMem m)) = (g (h t)).withMem m; rw [(hh t).1 m, (hg (h t)).1 m],
    (hh t).2.trans (hg (h t)).2⟩

theorem Post.map {s : State} {m' : Nat → Word} {t t' : State} {g : State → State} (hg : RegOnly g)
    (h : Post s m' t t') : Post s m' (g t) (g t') := by
  have e : g t' = (g t).withMem t'.mem := by
    have := (hg t).1 t'.mem
    rw [← h.core] at this
    exact this
  refine ⟨h.env.trans (hg t).2, ?_, ?_⟩
  · rw [e]; rfl
  · intro a
    rw [hg.mem t, hg.mem t']
    exact h.cell a

/-! ### loads and stores -/

theorem State.withMem_load {s : State} {m' : Nat → Word} (h : MemAgree s m') (a : Nat) :
    (s.withMem m').load a = s.load a := by
  unfold State.load
  by_cases h1 : a % 8 ≠ 0
  · rw [if_pos h1, if_pos h1]
  · rw [if_neg h1, if_neg h1]
    by_cases h2 : s.readable a = false
    · rw [if_pos h2, if_pos (by exact h2)]
    · rw [if_neg h2, if_neg (by exact h2)]
      show Except.ok (m' a) = Except.ok (s.mem a)
      rw [h a (by simpa using h2)]

theorem State.withMem_readOp {s : State} {m' : Nat → Word} (h : MemAgree s m') (w : Width) (o : Operand) :
    (s.withMem m').readOp w o = s.readOp w o := by
  cases o with
  | reg r => simp only [State.readOp, State.withMem_get]
  | imm v => rfl
  | mem b d =>
    cases w with
    | l => rfl
    | q => simp only [State.readOp, State.withMem_ea, State.withMem_load h]

/-- a store either faults in the same way on both memories, or hits a writable cell in both -/
theorem State.store_cases (s : State) (m' : Nat → Word) (a : Nat) (v : Word) :
    (∃ f, s.store a v = .error f ∧ (s.withMem m').store a v = .error f) ∨
    (s.writable a = true ∧ s.store a v = .ok (s.withMem (setMem s.mem a v)) ∧
      (s.withMem m').store a v = .ok (s.withMem (setMem m' a v))) := by
  unfold State.store
  by_cases h1 : a % 8 ≠ 0
  · exact Or.inl ⟨_, if_pos h1, if_pos h1⟩
  · by_cases h2 : s.writable a = false
    · refine Or.inl ⟨.memWrite a, ?_, ?_⟩
      · rw [if_neg h1, if_pos h2]
      · rw [if_neg h1, if_pos (by exact h2)]
    · refine Or.inr ⟨by simpa using h2, ?_, ?_⟩
      · rw [if_neg h1, if_neg h2]; rfl
      · rw [if_neg h1, if_neg (by exact h2)]; rfl

/-- finishing an instruction whose last action is a store, followed by a register-only update -/
theorem Post.store {s : State} {m' : Nat → Word} (a : Nat) (v : Word) {g : State → State} (hg : RegOnly g) :
    Post s m' (s.fin ((s.store a v).map g)) ((s.withMem m').fin (((s.withMem m').store a v).map g)) := by
  rcases s.store_cases m' a v with ⟨f, e1, e2⟩ | ⟨hw, e1, e2⟩
  · rw [e1, e2]
    exact Post.pure (RegUpd.raise _ _)
  · rw [e1, e2]
    have hgn : RegOnly (fun t => (g t).next) := RegOnly.next.comp hg
    show Post s m' ((fun t => (g t).next) (s.withMem (setMem s.mem a v))) ((fun t => (g t).next) (s.withMem (setMem m' a v)))
    apply Post.map hgn
    refine ⟨⟨rfl, rfl, rfl⟩, rfl, fun k => ?_⟩
    simp only [State.withMem_mem, setMem]
    by_cases hk : k = a
    · right; subst hk; simp [hw]
    · left; simp [hk]

/-- finishing an instruction whose last action is `writeOp`, followed by a register-only update -/
theorem Post.writeOp {s : State} {m' : Nat → Word} (w : Width) (dst : Operand) (v : Word) {g : State → State}
    (hg : RegOnly g) :
    Post s m' (s.fin ((s.writeOp w dst v).map g)) ((s.withMem m').fin (((s.withMem m').writeOp w dst v).map g)) := by
  cases dst with
  | reg r =>
    simp only [State.writeOp, Except.map, State.fin, State.withMem_set]
    have hgn : RegOnly (fun t => (g t).next) := RegOnly.next.comp hg
    have := (hgn (s.set r (trunc w v))).1 m'
    simp only at this
    rw [this]
    exact Post.pure ((RegUpd.set s r _).trans (hgn.regUpd _))
  | imm i =>
    simp only [State.writeOp, Except.map, State.fin, State.withMem_raise]
    exact Post.pure (RegUpd.raise _ _)
  | mem b d =>
    cases w with
    | l =>
      simp only [State.writeOp, Except.map, State.fin, State.withMem_raise]
      exact Post.pure (RegUpd.raise _ _)
    | q =>
      simp only [State.writeOp, State.withMem_ea]
      exact Post.store _ _ hg

theorem Post.commit {s : State} {m' : Nat → Word} (w : Width) (dst : Operand) (r : ArithRes) :
    Post s m' (s.commit w dst r) ((s.withMem m').commit w dst r) :=
  Post.writeOp w dst r.val (RegOnly.setFlags r)

/-! ### every instruction -/

theorem execAlu_post {s : State} {m' : Nat → Word} (h : MemAgree s m') (op : AluOp) (w : Width) (src dst : Operand) :
    Post s m' (execAlu s op w src dst) (execAlu (s.withMem m') op w src dst) := by
  unfold execAlu
  rw [State.withMem_readOp h, State.withMem_readOp h]
  cases s.readOp w src with
  | error f => exact Post.pure (RegUpd.raise _ _)
  | ok y =>
    cases s.readOp w dst with
    | error f => exact Post.pure (RegUpd.raise _ _)
    | ok x =>
      cases op with
      | add => exact Post.commit _ _ _
      | adc =>
        show Post s m' (match s.cf with | none => _ | some c => _) (match s.cf with | none => _ | some c => _)
        cases s.cf with
        | none => exact Post.pure (RegUpd.raise _ _)
        | some c => exact Post.commit _ _ _
      | sub => exact Post.commit _ _ _
      | sbb =>
        show Post s m' (match s.cf with | none => _ | some c => _) (match s.cf with | none => _ | some c => _)
        cases s.cf with
        | none => exact Post.pure (RegUpd.raise _ _)
        | some c => exact Post.commit _ _ _
      | cmp => exact Post.pure ((RegUpd.setFlags _ _).trans (RegUpd.next _))
      | and => exact Post.commit _ _ _
      | or => exact Post.commit _ _ _
      | xor => exact Post.commit _ _ _
      | test => exact Post.pure ((RegUpd.setFlags _ _).trans (RegUpd.next _))

theorem exec_post {s : State} {m' : Nat → Word} (h : MemAgree s m') (i : Instr) :
    Post s m' (exec s i) (exec (s.withMem m') i) := by
  cases i with
  | mov w src dst =>
    simp only [exec, State.withMem_readOp h]
    cases s.readOp w src with
    | error f => exact Post.pure (RegUpd.raise _ _)
    | ok v =>
      have e : ∀ x : Except Fault State, x.map (fun t => t) = x := by intro x; cases x <;> rfl
      have := Post.writeOp (s := s) (m' := m') w dst v RegOnly.id
      rw [e, e] at this
      exact this
  | lea b d dst =>
    simp only [exec, State.withMem_ea, State.withMem_set, State.withMem_next]
    exact Post.pure ((RegUpd.set _ _ _).trans (RegUpd.next _))
  | alu op w src dst => exact execAlu_post h op w src dst
  | neg w dst =>
    simp only [exec, State.withMem_readOp h]
    cases s.readOp w dst with
    | error f => exact Post.pure (RegUpd.raise _ _)
    | ok x => exact Post.commit _ _ _
  | inc w dst =>
    simp only [exec, State.withMem_readOp h]
    cases s.readOp w dst with
    | error f => exact Post.pure (RegUpd.raise _ _)
    | ok x =>
      exact Post.map (g := fun t => { t with cf := s.cf }) (fun _ => ⟨fun _ => rfl, ⟨rfl, rfl, rfl⟩⟩) (Post.commit _ _ _)
  | dec w dst =>
    simp only [exec, State.withMem_readOp h]
    cases s.readOp w dst with
    | error f => exact Post.pure (RegUpd.raise _ _)
    | ok x =>
      exact Post.map (g := fun t => { t with cf := s.cf }) (fun _ => ⟨fun _ => rfl, ⟨rfl, rfl, rfl⟩⟩) (Post.commit _ _ _)
  | mul src =>
    simp only [exec, State.withMem_readOp h]
    cases s.readOp .q src with
    | error f => exact Post.pure (RegUpd.raise _ _)
    | ok y => exact Post.pure ⟨⟨rfl, rfl, rfl⟩, rfl⟩
  | imul2 src dst =>
    simp only [exec, State.withMem_readOp h, State.withMem_get, State.withMem_set]
    cases s.readOp .q src with
    | error f => exact Post.pure (RegUpd.raise _ _)
    | ok y =>
      exact Post.pure (t := ({ s.set dst _ with cf := _, of := _, zf := none, sf := none } : State).next)
        ((RegUpd.set s dst _).trans ⟨⟨rfl, rfl, rfl⟩, rfl⟩)
  | mulx src lo hi =>
    simp only [exec, State.withMem_readOp h, State.withMem_set, State.withMem_next]
    cases s.readOp .q src with
    | error f => exact Post.pure (RegUpd.raise _ _)
    | ok y => exact Post.pure (((RegUpd.set _ _ _).trans (RegUpd.set _ _ _)).trans (RegUpd.next _))
  | adcx src dst =>
    simp only [exec, State.withMem_readOp h, State.withMem_get, State.withMem_set]
    cases s.readOp .q src with
    | error f => exact Post.pure (RegUpd.raise _ _)
    | ok y =>
      show Post s m' (match s.cf with | none => _ | some c => _) (match s.cf with | none => _ | some c => _)
      cases s.cf with
      | none => exact Post.pure (RegUpd.raise _ _)
      | some c =>
        exact Post.pure (t := ({ s.set dst _ with cf := _ } : State).next) ((RegUpd.set s dst _).trans ⟨⟨rfl, rfl, rfl⟩, rfl⟩)
  | adox src dst =>
    simp only [exec, State.withMem_readOp h, State.withMem_get, State.withMem_set]
    cases s.readOp .q src with
    | error f => exact Post.pure (RegUpd.raise _ _)
    | ok y =>
      show Post s m' (match s.of with | none => _ | some c => _) (match s.of with | none => _ | some c => _)
      cases s.of with
      | none => exact Post.pure (RegUpd.raise _ _)
      | some c =>
        exact Post.pure (t := ({ s.set dst _ with of := _ } : State).next) ((RegUpd.set s dst _).trans ⟨⟨rfl, rfl, rfl⟩, rfl⟩)
  | bt w bit src =>
    simp only [exec, State.withMem_readOp h]
    cases s.readOp w src with
    | error f => exact Post.pure (RegUpd.raise _ _)
    | ok x => exact Post.pure ⟨⟨rfl, rfl, rfl⟩, rfl⟩
  | setcc c dst =>
    simp only [exec, State.withMem_cond, State.withMem_get, State.withMem_set, State.withMem_next]
    cases s.cond c with
    | none => exact Post.pure (RegUpd.raise _ _)
    | some b => exact Post.pure ((RegUpd.set _ _ _).trans (RegUpd.next _))
  | push src =>
    simp only [exec, State.withMem_readOp h]
    cases s.readOp .q src with
    | error f => exact Post.pure (RegUpd.raise _ _)
    | ok v =>
      exact Post.store (s := s) (m' := m') (s.rsp - 8).toNat v (g := fun t => { t with rsp := s.rsp - 8 })
        (fun _ => ⟨fun _ => rfl, ⟨rfl, rfl, rfl⟩⟩)
  | pop dst =>
    simp only [exec]
    rw [show (s.withMem m').rsp = s.rsp from rfl, State.withMem_load h]
    cases s.load s.rsp.toNat with
    | error f => exact Post.pure (RegUpd.raise _ _)
    | ok v =>
      show Post s m' ((State.set ({ s with rsp := s.rsp + 8 } : State) dst v).next)
        ((State.set (({ s with rsp := s.rsp + 8 } : State).withMem m') dst v).next)
      rw [State.withMem_set]
      have h0 : RegUpd s ({ s with rsp := s.rsp + 8 } : State) := ⟨⟨rfl, rfl, rfl⟩, rfl⟩
      exact Post.pure ((h0.trans (RegUpd.set _ _ _)).trans (RegUpd.next _))
  | ret =>
    simp only [exec]
    rw [show (s.withMem m').rsp = s.rsp from rfl, State.withMem_load h]
    cases s.load s.rsp.toNat with
    | error f => exact Post.pure (RegUpd.raise _ _)
    | ok v => exact Post.pure ⟨⟨rfl, rfl, rfl⟩, rfl⟩
  | cpuid => exact Post.pure (t := exec s .cpuid) ⟨⟨rfl, rfl, rfl⟩, rfl⟩
  | jcc c t =>
    simp only [exec, State.withMem_cond]
    cases s.cond c with
    | none => exact Post.pure (RegUpd.raise _ _)
    | some b =>
      cases b with
      | true => exact Post.pure ⟨⟨rfl, rfl, rfl⟩, rfl⟩
      | false => exact Post.pure (RegUpd.next _)
  | jmp t => exact Post.pure ⟨⟨rfl, rfl, rfl⟩, rfl⟩

theorem step_post {s : State} {m' : Nat → Word} (h : MemAgree s m') (p : Program) :
    Post s m' (step p s) (step p (s.withMem m')) := by
  unfold step
  rw [State.withMem_pc]
  cases p[s.pc]? with
  | none => exact Post.pure (RegUpd.raise _ _)
  | some i => exact exec_post h i

/-- one scheduler tick of a core: an instruction if the core is running, nothing otherwise
(`run p s (n+1) = run p (tick p s) n`, see `run_succ_tick`) -/
def tick (p : Program) (s : State) : State :=
  match s.status with
  | .running => step p s
  | _ => s

theorem run_succ_tick (p : Program) (s : State) (n : Nat) : run p s (n + 1) = run p (tick p s) n := by
  have stopped : ∀ (t : State) (k : Nat), t.status ≠ .running → run p t k = t := by
    intro t k ht
    cases k with
    | zero => rfl
    | succ k =>
      show (match t.status with | .running => run p (step p t) k | _ => t) = t
      split
      · rename_i e; exact absurd e ht
      · rfl
  show (match s.status with | .running => run p (step p s) n | _ => s) = run p (tick p s) n
  unfold tick
  split
  · rfl
  · rename_i hs
    exact (stopped s n (fun e => hs e)).symm

theorem tick_post {s : State} {m' : Nat → Word} (h : MemAgree s m') (p : Program) :
    Post s m' (tick p s) (tick p (s.withMem m')) := by
  unfold tick
  rw [State.withMem_status]
  split
  · exact step_post h p
  · exact Post.pure (RegUpd.refl s)

/-! ## 1. Frame -/

/-- **Frame, one instruction.**  `step` leaves the permission maps and the `cpuid` oracle alone and
changes memory only at writable addresses. -/
theorem step_frame (p : Program) (s : State) :
    (step p s).readable = s.readable ∧ (step p s).writable = s.writable ∧ (step p s).cpuidFn = s.cpuidFn ∧
    ∀ a, s.writable a = false → (step p s).mem a = s.mem a := by
  have h := step_post (s := s) (m' := s.mem) (fun _ _ => rfl) p
  refine ⟨h.env.readable, h.env.writable, h.env.cpuidFn, fun a ha => ?_⟩
  rcases h.cell a with ⟨e, _⟩ | ⟨_, w⟩
  · exact e
  · rw [ha] at w; cases w

theorem tick_frame (p : Program) (s : State) :
    (tick p s).readable = s.readable ∧ (tick p s).writable = s.writable ∧ (tick p s).cpuidFn = s.cpuidFn ∧
    ∀ a, s.writable a = false → (tick p s).mem a = s.mem a := by
  unfold tick
  split
  · exact step_frame p s
  · exact ⟨rfl, rfl, rfl, fun _ _ => rfl⟩

/-- **Frame, whole run.**  For every program, state and fuel: the run keeps `readable`, `writable`,
`cpuidFn`, and every address that is not writable keeps its contents. -/
theorem run_frame (p : Program) (s : State) (n : Nat) :
    (run p s n).readable = s.readable ∧ (run p s n).writable = s.writable ∧ (run p s n).cpuidFn = s.cpuidFn ∧
    ∀ a, s.writable a = false → (run p s n).mem a = s.mem a := by
  induction n generalizing s with
  | zero => exact ⟨rfl, rfl, rfl, fun _ _ => rfl⟩
  | succ n ih =>
    rw [run_succ_tick]
    obtain ⟨r1, w1, c1, m1⟩ := tick_frame p s
    obtain ⟨r2, w2, c2, m2⟩ := ih (tick p s)
    refine ⟨r2.trans r1, w2.trans w1, c2.trans c1, fun a ha => ?_⟩
    rw [m2 a (by rw [w1]; exact ha), m1 a ha]

/-! ## 2. Locality -/

/-- Two states that a program cannot tell apart: same registers, flags, pc, status, permission maps
and `cpuid` oracle (`noMem` erases exactly the memory contents), and the same contents at every
readable address. -/
structure Agree (s s' : State) : Prop where
  core : s'.noMem = s.noMem
  mem : ∀ a, s.readable a = true → s.mem a = s'.mem a

theorem Agree.refl (s : State) : Agree s s := ⟨rfl, fun _ _ => rfl⟩

theorem Agree.eq_withMem {s s' : State} (h : Agree s s') : s' = s.withMem s'.mem := State.eq_withMem_of_noMem_eq h.core

theorem Agree.memAgree {s s' : State} (h : Agree s s') : MemAgree s s'.mem := h.mem

/-- spelled out: every register, flag, pc, status, permission map and oracle is equal -/
theorem Agree.fields {s s' : State} (h : Agree s s') :
    s'.rax = s.rax ∧ s'.rcx = s.rcx ∧ s'.rdx = s.rdx ∧ s'.rbx = s.rbx ∧ s'.rsp = s.rsp ∧ s'.rbp = s.rbp ∧
    s'.rsi = s.rsi ∧ s'.rdi = s.rdi ∧ s'.r8 = s.r8 ∧ s'.r9 = s.r9 ∧ s'.r10 = s.r10 ∧ s'.r11 = s.r11 ∧
    s'.r12 = s.r12 ∧ s'.r13 = s.r13 ∧ s'.r14 = s.r14 ∧ s'.r15 = s.r15 ∧
    s'.cf = s.cf ∧ s'.zf = s.zf ∧ s'.sf = s.sf ∧ s'.of = s.of ∧ s'.pc = s.pc ∧ s'.status = s.status ∧
    s'.readable = s.readable ∧ s'.writable = s.writable ∧ s'.cpuidFn = s.cpuidFn := by
  have e := h.eq_withMem
  rw [e]
  exact ⟨rfl, rfl, rfl, rfl, rfl, rfl, rfl, rfl, rfl, rfl, rfl, rfl, rfl, rfl, rfl, rfl, rfl, rfl, rfl, rfl, rfl, rfl, rfl, rfl, rfl⟩

/-- what a transition from agreeing states `s`, `s'` to `t`, `t'` guarantees -/
structure Local (s s' t t' : State) : Prop where
  agree : Agree t t'
  /-- each cell is untouched in both executions, or holds the same value in both and is writable -/
  cell : ∀ a, (t.mem a = s.mem a ∧ t'.mem a = s'.mem a) ∨ (t.mem a = t'.mem a ∧ s.writable a = true)

theorem Local.of_post {s s' t t' : State} (hs : Agree s s') (h : Post s s'.mem t t') : Local s s' t t' := by
  refine ⟨⟨?_, fun a ha => ?_⟩, h.cell⟩
  · rw [h.core]; rfl
  · rcases h.cell a with ⟨e1, e2⟩ | ⟨e, _⟩
    · rw [e1, e2]
      exact hs.mem a (by rw [← h.env.readable]; exact ha)
    · exact e

/-- **Locality, one instruction.** -/
theorem step_local (p : Program) {s s' : State} (h : Agree s s') : Local s s' (step p s) (step p s') := by
  have := step_post h.memAgree p
  rw [← h.eq_withMem] at this
  exact Local.of_post h this

theorem tick_local (p : Program) {s s' : State} (h : Agree s s') : Local s s' (tick p s) (tick p s') := by
  have := tick_post h.memAgree p
  rw [← h.eq_withMem] at this
  exact Local.of_post h this

theorem Local.trans {s s' t t' u u' : State} (h1 : Local s s' t t') (h2 : Local t t' u u')
    (hw : t.writable = s.writable) : Local s s' u u' := by
  refine ⟨h2.agree, fun a => ?_⟩
  rcases h2.cell a with ⟨e1, e2⟩ | ⟨e, w⟩
  · rcases h1.cell a with ⟨f1, f2⟩ | ⟨f, w⟩
    · exact Or.inl ⟨e1.trans f1, e2.trans f2⟩
    · exact Or.inr ⟨by rw [e1, e2, f], w⟩
  · exact Or.inr ⟨e, by rw [← hw]; exact w⟩

/-- **Locality, whole run.**  Runs from agreeing states end in agreeing states (in particular with
the same registers and status), and each memory cell is either untouched by both or holds the same
value after both (and is writable): what a run computes and writes is a function of the registers
and of the readable part of memory only. -/
theorem run_local (p : Program) {s s' : State} (h : Agree s s') (n : Nat) :
    Local s s' (run p s n) (run p s' n) := by
  induction n generalizing s s' with
  | zero => exact ⟨h, fun _ => Or.inl ⟨rfl, rfl⟩⟩
  | succ n ih =>
    rw [run_succ_tick, run_succ_tick]
    have h1 := tick_local p h
    exact h1.trans (ih h1.agree) (tick_frame p s).2.1

/-- the same, for the memory an otherwise identical core starts on -/
theorem run_withMem (p : Program) (s : State) (m' : Nat → Word) (h : MemAgree s m') (n : Nat) :
    (run p (s.withMem m') n).noMem = (run p s n).noMem ∧
    ∀ a, ((run p s n).mem a = s.mem a ∧ (run p (s.withMem m') n).mem a = m' a) ∨
         ((run p s n).mem a = (run p (s.withMem m') n).mem a ∧ s.writable a = true) := by
  have := run_local p (s := s) (s' := s.withMem m') ⟨rfl, h⟩ n
  exact ⟨this.agree.core, this.cell⟩

/-! ## 3. Two cores, one memory -/

/-- Two cores and the memory they share.  `c1`, `c2` hold each core's private registers, flags, pc,
status, permission maps and `cpuid` oracle; the `mem` FIELD OF A CORE IS IGNORED (overwritten with the
shared memory before the core executes, erased by `noMem` afterwards). -/
structure Sys where
  c1 : State
  c2 : State
  mem : Nat → Word

/-- One scheduler decision: core 1 (`false`) resp. core 2 (`true`) loads the shared memory,
executes one instruction of its program if it is still running (`tick`), and the memory is written
back. -/
def sysStep (p1 p2 : Program) (b : Bool) (σ : Sys) : Sys :=
  match b with
  | false => { c1 := (tick p1 (σ.c1.withMem σ.mem)).noMem, c2 := σ.c2, mem := (tick p1 (σ.c1.withMem σ.mem)).mem }
  | true => { c1 := σ.c1, c2 := (tick p2 (σ.c2.withMem σ.mem)).noMem, mem := (tick p2 (σ.c2.withMem σ.mem)).mem }

/-- run a schedule (head of the list first) -/
def sysRun (p1 p2 : Program) : List Bool → Sys → Sys
  | [], σ => σ
  | b :: bs, σ => sysRun p1 p2 bs (sysStep p1 p2 b σ)

/-- `n` consecutive steps of one core -/
def sysRep (p1 p2 : Program) (b : Bool) : Nat → Sys → Sys
  | 0, σ => σ
  | n + 1, σ => sysRep p1 p2 b n (sysStep p1 p2 b σ)

/-- What one core may write, the other may neither read nor write.  (Both may read the same cells.) -/
def Compatible (c1 c2 : State) : Prop :=
  ∀ a, (c1.writable a = true → c2.readable a = false ∧ c2.writable a = false) ∧
       (c2.writable a = true → c1.readable a = false ∧ c1.writable a = false)

theorem Compatible.symm {c1 c2 : State} (h : Compatible c1 c2) : Compatible c2 c1 := fun a => ⟨(h a).2, (h a).1⟩

theorem Compatible.congr {c1 c2 d1 d2 : State} (h : Compatible c1 c2)
    (r1 : d1.readable = c1.readable) (w1 : d1.writable = c1.writable)
    (r2 : d2.readable = c2.readable) (w2 : d2.writable = c2.writable) : Compatible d1 d2 := by
  intro a
  rw [r1, w1, r2, w2]
  exact h a

theorem sysStep_compatible (p1 p2 : Program) (b : Bool) {σ : Sys} (h : Compatible σ.c1 σ.c2) :
    Compatible (sysStep p1 p2 b σ).c1 (sysStep p1 p2 b σ).c2 := by
  cases b with
  | false =>
    obtain ⟨r, w, _, _⟩ := tick_frame p1 (σ.c1.withMem σ.mem)
    exact h.congr (by simp [sysStep, r]) (by simp [sysStep, w]) rfl rfl
  | true =>
    obtain ⟨r, w, _, _⟩ := tick_frame p2 (σ.c2.withMem σ.mem)
    exact h.congr rfl rfl (by simp [sysStep, r]) (by simp [sysStep, w])

/-- a memory that differs from `m` only at cells `c` cannot read is as good as `m` for `c` -/
theorem memAgree_of_frame {c d : State} {m : Nat → Word} (h : ∀ a, d.writable a = true → c.readable a = false)
    (t : State) (ht : ∀ a, d.writable a = false → t.mem a = m a) : MemAgree (c.withMem m) t.mem := by
  intro a ha
  have hr : c.readable a = true := ha
  have : d.writable a = false := by
    cases hd : d.writable a with
    | false => rfl
    | true => rw [h a hd] at hr; cases hr
  exact (ht a this).symm

/-- **Commutation.**  Under compatible permissions, an instruction of core 1 and an instruction of
core 2 can be swapped: the system state afterwards is the same. -/
theorem sysStep_comm (p1 p2 : Program) {σ : Sys} (h : Compatible σ.c1 σ.c2) :
    sysStep p1 p2 false (sysStep p1 p2 true σ) = sysStep p1 p2 true (sysStep p1 p2 false σ) := by
  obtain ⟨c1, c2, m⟩ := σ
  simp only at h
  -- the four executions involved
  have f1 := tick_frame p1 (c1.withMem m)
  have f2 := tick_frame p2 (c2.withMem m)
  -- core 1 on the memory core 2 left behind
  have a1 : MemAgree (c1.withMem m) (tick p2 (c2.withMem m)).mem :=
    memAgree_of_frame (d := c2) (fun a ha => ((h a).2 ha).1) _ f2.2.2.2
  have a2 : MemAgree (c2.withMem m) (tick p1 (c1.withMem m)).mem :=
    memAgree_of_frame (d := c1) (fun a ha => ((h a).1 ha).1) _ f1.2.2.2
  have l1 := tick_post a1 p1
  have l2 := tick_post a2 p2
  simp only [State.withMem_withMem] at l1 l2
  have k1 : (tick p1 (c1.withMem (tick p2 (c2.withMem m)).mem)).noMem = (tick p1 (c1.withMem m)).noMem := by
    rw [l1.core]; rfl
  have k2 : (tick p2 (c2.withMem (tick p1 (c1.withMem m)).mem)).noMem = (tick p2 (c2.withMem m)).noMem := by
    rw [l2.core]; rfl
  have km : (tick p1 (c1.withMem (tick p2 (c2.withMem m)).mem)).mem = (tick p2 (c2.withMem (tick p1 (c1.withMem m)).mem)).mem := by
    funext a
    rcases l1.cell a with ⟨x1, y1⟩ | ⟨x1, w1⟩ <;> rcases l2.cell a with ⟨x2, y2⟩ | ⟨x2, w2⟩
    · rw [y1, y2, x1, x2]; rfl
    · rw [y1, x2]
    · rw [y2, x1]
    · have w2' : c2.writable a = true := w2
      rw [((h a).1 w1).2] at w2'; cases w2'
  simp only [sysStep, k1, k2, km]

theorem sysRep_succ' (p1 p2 : Program) (b : Bool) (n : Nat) (σ : Sys) :
    sysRep p1 p2 b (n + 1) σ = sysStep p1 p2 b (sysRep p1 p2 b n σ) := by
  induction n generalizing σ with
  | zero => rfl
  | succ n ih => exact ih (sysStep p1 p2 b σ)

theorem sysRep_compatible (p1 p2 : Program) (b : Bool) (n : Nat) {σ : Sys} (h : Compatible σ.c1 σ.c2) :
    Compatible (sysRep p1 p2 b n σ).c1 (sysRep p1 p2 b n σ).c2 := by
  induction n generalizing σ with
  | zero => exact h
  | succ n ih => exact ih (sysStep_compatible p1 p2 b h)

/-- a step of core 2 moves behind any number of steps of core 1 -/
theorem sysRep_comm (p1 p2 : Program) (n : Nat) {σ : Sys} (h : Compatible σ.c1 σ.c2) :
    sysRep p1 p2 false n (sysStep p1 p2 true σ) = sysStep p1 p2 true (sysRep p1 p2 false n σ) := by
  induction n generalizing σ with
  | zero => rfl
  | succ n ih =>
    show sysRep p1 p2 false n (sysStep p1 p2 false (sysStep p1 p2 true σ)) = _
    rw [sysStep_comm p1 p2 h, ih (sysStep_compatible p1 p2 false h)]
    rfl

/-- number of steps a schedule gives to core 1 / core 2 -/
def steps1 (sch : List Bool) : Nat := sch.count false
def steps2 (sch : List Bool) : Nat := sch.count true

/-- every schedule is equivalent to "core 1 first, then core 2" -/
theorem sysRun_eq_sysRep (p1 p2 : Program) (sch : List Bool) {σ : Sys} (h : Compatible σ.c1 σ.c2) :
    sysRun p1 p2 sch σ = sysRep p1 p2 true (steps2 sch) (sysRep p1 p2 false (steps1 sch) σ) := by
  induction sch generalizing σ with
  | nil => rfl
  | cons b bs ih =>
    show sysRun p1 p2 bs (sysStep p1 p2 b σ) = _
    rw [ih (sysStep_compatible p1 p2 b h)]
    cases b with
    | false =>
      have e1 : steps1 (false :: bs) = steps1 bs + 1 := by simp [steps1]
      have e2 : steps2 (false :: bs) = steps2 bs := by simp [steps2]
      rw [e1, e2]; rfl
    | true =>
      have e1 : steps1 (true :: bs) = steps1 bs := by simp [steps1]
      have e2 : steps2 (true :: bs) = steps2 bs + 1 := by simp [steps2]
      rw [e1, e2, sysRep_comm p1 p2 _ h]; rfl

/-- `n` steps of core 1 are a `run` of core 1 on the shared memory -/
theorem sysRep_false (p1 p2 : Program) (n : Nat) (σ : Sys) :
    (sysRep p1 p2 false n σ).c1.noMem = (run p1 (σ.c1.withMem σ.mem) n).noMem ∧
    (sysRep p1 p2 false n σ).c2 = σ.c2 ∧
    (sysRep p1 p2 false n σ).mem = (run p1 (σ.c1.withMem σ.mem) n).mem := by
  induction n generalizing σ with
  | zero => exact ⟨rfl, rfl, rfl⟩
  | succ n ih =>
    obtain ⟨h1, h2, h3⟩ := ih (sysStep p1 p2 false σ)
    rw [run_succ_tick]
    exact ⟨h1, h2, h3⟩

theorem sysRep_true (p1 p2 : Program) (n : Nat) (σ : Sys) :
    (sysRep p1 p2 true n σ).c1 = σ.c1 ∧
    (sysRep p1 p2 true n σ).c2.noMem = (run p2 (σ.c2.withMem σ.mem) n).noMem ∧
    (sysRep p1 p2 true n σ).mem = (run p2 (σ.c2.withMem σ.mem) n).mem := by
  induction n generalizing σ with
  | zero => exact ⟨rfl, rfl, rfl⟩
  | succ n ih =>
    obtain ⟨h1, h2, h3⟩ := ih (sysStep p1 p2 true σ)
    rw [run_succ_tick]
    exact ⟨h1, h2, h3⟩

/-- **Every interleaving is the sequential execution.**  Two cores with compatible permission maps
run programs `p1`, `p2` on a shared memory under an arbitrary schedule.  Let `n₁`, `n₂` be the
numbers of steps the schedule gives them.  Then the final system state is: core 1 as after running
ALONE for `n₁` steps on the initial memory, core 2 as after running alone for `n₂` steps on the
memory core 1 left behind, and that run's memory. -/
theorem sysRun_eq_sequential (p1 p2 : Program) (σ : Sys) (h : Compatible σ.c1 σ.c2) (sch : List Bool) :
    (sysRun p1 p2 sch σ).c1.noMem = (run p1 (σ.c1.withMem σ.mem) (steps1 sch)).noMem ∧
    (sysRun p1 p2 sch σ).c2.noMem
      = (run p2 (σ.c2.withMem (run p1 (σ.c1.withMem σ.mem) (steps1 sch)).mem) (steps2 sch)).noMem ∧
    (sysRun p1 p2 sch σ).mem
      = (run p2 (σ.c2.withMem (run p1 (σ.c1.withMem σ.mem) (steps1 sch)).mem) (steps2 sch)).mem := by
  rw [sysRun_eq_sysRep p1 p2 sch h]
  obtain ⟨a1, a2, a3⟩ := sysRep_false p1 p2 (steps1 sch) σ
  obtain ⟨b1, b2, b3⟩ := sysRep_true p1 p2 (steps2 sch) (sysRep p1 p2 false (steps1 sch) σ)
  rw [a2, a3] at b2 b3
  exact ⟨by rw [b1]; exact a1, b2, b3⟩

/-- swapping the roles of the two cores -/
def Sys.swap (σ : Sys) : Sys := { c1 := σ.c2, c2 := σ.c1, mem := σ.mem }

theorem sysRun_swap (p1 p2 : Program) (sch : List Bool) (σ : Sys) :
    (sysRun p1 p2 sch σ).swap = sysRun p2 p1 (sch.map (!·)) σ.swap := by
  induction sch generalizing σ with
  | nil => rfl
  | cons b bs ih =>
    show (sysRun p1 p2 bs (sysStep p1 p2 b σ)).swap = sysRun p2 p1 (bs.map (!·)) (sysStep p2 p1 (!b) σ.swap)
    rw [ih]
    cases b <;> rfl

theorem steps1_map_not (sch : List Bool) : steps1 (sch.map (!·)) = steps2 sch := by
  induction sch with
  | nil => rfl
  | cons b bs ih => cases b <;> simp_all [steps1, steps2]

theorem steps2_map_not (sch : List Bool) : steps2 (sch.map (!·)) = steps1 sch := by
  induction sch with
  | nil => rfl
  | cons b bs ih => cases b <;> simp_all [steps1, steps2]

/-- core 1 ends exactly as if it had run alone on the initial memory -/
theorem sysRun_core1 (p1 p2 : Program) (σ : Sys) (h : Compatible σ.c1 σ.c2) (sch : List Bool) :
    (sysRun p1 p2 sch σ).c1.noMem = (run p1 (σ.c1.withMem σ.mem) (steps1 sch)).noMem :=
  (sysRun_eq_sequential p1 p2 σ h sch).1

/-- … and so does core 2 (the sequential order is irrelevant) -/
theorem sysRun_core2 (p1 p2 : Program) (σ : Sys) (h : Compatible σ.c1 σ.c2) (sch : List Bool) :
    (sysRun p1 p2 sch σ).c2.noMem = (run p2 (σ.c2.withMem σ.mem) (steps2 sch)).noMem := by
  have := (sysRun_eq_sequential p2 p1 σ.swap h.symm (sch.map (!·))).1
  rw [← sysRun_swap, steps1_map_not] at this
  exact this

/-- **The final memory is the merge of the two solo runs**: at an address core 1 may write, what core 1
alone leaves there; at every other address what core 2 alone leaves there (which is the initial
contents if core 2 may not write it either). -/
theorem sysRun_mem (p1 p2 : Program) (σ : Sys) (h : Compatible σ.c1 σ.c2) (sch : List Bool) (a : Nat) :
    (sysRun p1 p2 sch σ).mem a
      = if σ.c1.writable a = true then (run p1 (σ.c1.withMem σ.mem) (steps1 sch)).mem a
        else (run p2 (σ.c2.withMem σ.mem) (steps2 sch)).mem a := by
  rw [(sysRun_eq_sequential p1 p2 σ h sch).2.2]
  have f1 := run_frame p1 (σ.c1.withMem σ.mem) (steps1 sch)
  have ag : MemAgree (σ.c2.withMem σ.mem) (run p1 (σ.c1.withMem σ.mem) (steps1 sch)).mem :=
    memAgree_of_frame (d := σ.c1) (fun a ha => ((h a).1 ha).1) _ f1.2.2.2
  have l := (run_withMem p2 (σ.c2.withMem σ.mem) _ ag (steps2 sch)).2 a
  simp only [State.withMem_withMem, State.withMem_mem, State.withMem_writable] at l
  by_cases hw : σ.c1.writable a = true
  · rw [if_pos hw]
    rcases l with ⟨_, y⟩ | ⟨_, w⟩
    · exact y
    · rw [((h a).1 hw).2] at w; cases w
  · rw [if_neg hw]
    rcases l with ⟨x, y⟩ | ⟨x, _⟩
    · rw [y, x]
      exact f1.2.2.2 a (by simpa using hw)
    · exact x.symm

/-- a cell neither core may write keeps its initial contents under every schedule -/
theorem sysRun_mem_frame (p1 p2 : Program) (σ : Sys) (h : Compatible σ.c1 σ.c2) (sch : List Bool) (a : Nat)
    (h1 : σ.c1.writable a = false) (h2 : σ.c2.writable a = false) : (sysRun p1 p2 sch σ).mem a = σ.mem a := by
  rw [sysRun_mem p1 p2 σ h sch a, if_neg (by rw [h1]; simp)]
  exact (run_frame p2 (σ.c2.withMem σ.mem) (steps2 sch)).2.2.2 a h2

/-- at every address core 2 may not write, the final memory is what core 1 ALONE leaves there -/
theorem sysRun_mem1 (p1 p2 : Program) (σ : Sys) (h : Compatible σ.c1 σ.c2) (sch : List Bool) (a : Nat)
    (ha : σ.c2.writable a = false) :
    (sysRun p1 p2 sch σ).mem a = (run p1 (σ.c1.withMem σ.mem) (steps1 sch)).mem a := by
  rw [sysRun_mem p1 p2 σ h sch a]
  by_cases hw : σ.c1.writable a = true
  · rw [if_pos hw]
  · rw [if_neg hw, (run_frame p2 (σ.c2.withMem σ.mem) (steps2 sch)).2.2.2 a ha,
      (run_frame p1 (σ.c1.withMem σ.mem) (steps1 sch)).2.2.2 a (by simpa using hw)]
    rfl

/-- at every address core 1 may not write, the final memory is what core 2 ALONE leaves there -/
theorem sysRun_mem2 (p1 p2 : Program) (σ : Sys) (h : Compatible σ.c1 σ.c2) (sch : List Bool) (a : Nat)
    (ha : σ.c1.writable a = false) :
    (sysRun p1 p2 sch σ).mem a = (run p2 (σ.c2.withMem σ.mem) (steps2 sch)).mem a := by
  rw [sysRun_mem p1 p2 σ h sch a, if_neg (by rw [ha]; simp)]

/-- **Each core's view.**  What core 1 sees at the end of ANY schedule (its registers, and the shared
memory through its permissions) is indistinguishable from the final state of running alone. -/
theorem sysRun_view1 (p1 p2 : Program) (σ : Sys) (h : Compatible σ.c1 σ.c2) (sch : List Bool) :
    Agree (run p1 (σ.c1.withMem σ.mem) (steps1 sch))
      ((sysRun p1 p2 sch σ).c1.withMem (sysRun p1 p2 sch σ).mem) := by
  refine ⟨sysRun_core1 p1 p2 σ h sch, fun a ha => ?_⟩
  rw [(run_frame p1 (σ.c1.withMem σ.mem) (steps1 sch)).1] at ha
  have hr : σ.c1.readable a = true := ha
  have : σ.c2.writable a = false := by
    cases hd : σ.c2.writable a with
    | false => rfl
    | true => rw [((h a).2 hd).1] at hr; cases hr
  exact (sysRun_mem1 p1 p2 σ h sch a this).symm

theorem sysRun_view2 (p1 p2 : Program) (σ : Sys) (h : Compatible σ.c1 σ.c2) (sch : List Bool) :
    Agree (run p2 (σ.c2.withMem σ.mem) (steps2 sch))
      ((sysRun p1 p2 sch σ).c2.withMem (sysRun p1 p2 sch σ).mem) := by
  refine ⟨sysRun_core2 p1 p2 σ h sch, fun a ha => ?_⟩
  rw [(run_frame p2 (σ.c2.withMem σ.mem) (steps2 sch)).1] at ha
  have hr : σ.c2.readable a = true := ha
  have : σ.c1.writable a = false := by
    cases hd : σ.c1.writable a with
    | false => rfl
    | true => rw [((h a).1 hd).1] at hr; cases hr
  exact (sysRun_mem2 p1 p2 σ h sch a this).symm

/-! ### the premise matters

Without `Compatible` the theorem is false: two cores that both store to address 0 leave different
memories depending on the order. -/

section Counterexample
private def cex (v : Word) : State :=
  { rax := v, rcx := 0, rdx := 0, rbx := 0, rsp := 0, rbp := 0, rsi := 0, rdi := 0, r8 := 0, r9 := 0, r10 := 0,
    r11 := 0, r12 := 0, r13 := 0, r14 := 0, r15 := 0, cf := none, zf := none, sf := none, of := none,
    mem := fun _ => 0, readable := fun _ => true, writable := fun _ => true, cpuidFn := fun _ _ => (0, 0, 0, 0),
    pc := 0, status := .running }
private def cexProg : Program := [.mov .q (.reg .rax) (.mem .rcx 0)]

example : (sysRun cexProg cexProg [false, true] ⟨cex 1, cex 2, fun _ => 0⟩).mem 0 = 2 ∧
          (sysRun cexProg cexProg [true, false] ⟨cex 1, cex 2, fun _ => 0⟩).mem 0 = 1 := by
  constructor <;> decide
end Counterexample

end Jedi.X86
