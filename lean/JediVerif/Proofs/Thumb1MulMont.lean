/-
`montgomeryreduce384` of /repo/src/core/arch/armv6_m/multiply.s composed from its twelve rows, the final step (the call of the C++
`fpbase_384_reduce`), and the routine `embedded_pairing_core_arch_armv6_m_fpbase_384_montgomery_reduce`.

Statements and proof scripts are written by an authoring script; nothing depends on it.
-/
import JediVerif.Proofs.Thumb1MulMontRows
import JediVerif.Proofs.Thumb1MulExtern
import JediVerif.Proofs.Thumb1MulSqr

set_option linter.unusedSimpArgs false
set_option linter.unusedVariables false
set_option exponentiation.threshold 800

namespace Jedi.Thumb1
open Jedi.Impl (val WF val_cons val_nil val_lt val_inj val_append)
open Jedi.X86 (Hide Hide.mk Hide.out)
open Jedi.Gen.AsmV6M

/-- one Montgomery row: `B^i · (tmp[i..24) + B^12·mc) = T + M·P` becomes `B^(i+1) · (tmp'[i+1..24) + B^12·mc') = T + M'·P` -/
theorem mont_step (i k : Nat) (hik : i + k = 11) (m0 m m' : Nat → Word) (pp S a0 a1 : Nat) (inv M mc mc' lo0 : Nat)
    (ha0 : a0 = S + 4 * i) (ha1 : a1 = S + 4 * i + 4)
    (hdp : pp + 48 ≤ S ∨ S + 96 ≤ pp)
    (hinvP : (inv * val (2 ^ 32) (limbs32 m0 pp 12) + 1) % 2 ^ 32 = 0)
    (hfr : ∀ kk, ¬(S ≤ kk ∧ kk < S + 96) → m kk = m0 kk)
    (hM : M < (2 ^ 32) ^ i)
    (hinv : (2 ^ 32) ^ i * (val (2 ^ 32) (limbs32 m a0 (13 + k)) + (2 ^ 32) ^ 12 * mc)
      = val (2 ^ 32) (limbs32 m0 S 24) + M * val (2 ^ 32) (limbs32 m0 pp 12))
    (hfr' : ∀ kk, ¬(a1 ≤ kk ∧ kk < a0 + 52) → m' kk = m kk)
    (hlo : lo0 < 2 ^ 32)
    (hrow : lo0 + 2 ^ 32 * (val (2 ^ 32) (limbs32 m' a1 12) + (2 ^ 32) ^ 12 * mc')
      = (inv * (m a0).toNat % 2 ^ 32) * val (2 ^ 32) (limbs32 m pp 12) + val (2 ^ 32) (limbs32 m a0 13) + (2 ^ 32) ^ 12 * mc) :
    (∀ kk, ¬(S ≤ kk ∧ kk < S + 96) → m' kk = m0 kk) ∧
    ∃ M', M' < (2 ^ 32) ^ (i + 1) ∧ (2 ^ 32) ^ (i + 1) * (val (2 ^ 32) (limbs32 m' a1 (12 + k)) + (2 ^ 32) ^ 12 * mc')
      = val (2 ^ 32) (limbs32 m0 S 24) + M' * val (2 ^ 32) (limbs32 m0 pp 12) := by
  subst ha0 ha1
  refine ⟨fun kk hkk => by rw [hfr' kk (by omega), hfr kk hkk], ?_⟩
  have eP : limbs32 m pp 12 = limbs32 m0 pp 12 := limbs32_congr _ _ _ _ (fun t ht => hfr _ (by omega))
  rw [eP] at hrow
  have e1 : limbs32 m (S + 4 * i) (13 + k) = limbs32 m (S + 4 * i) 13 ++ limbs32 m (S + 4 * i + 52) k := by
    rw [limbs32_add]
  have e2 : limbs32 m' (S + 4 * i + 4) (12 + k) = limbs32 m' (S + 4 * i + 4) 12 ++ limbs32 m' (S + 4 * i + 52) k := by
    rw [limbs32_add, show S + 4 * i + 4 + 4 * 12 = S + 4 * i + 52 by omega]
  have e3 : limbs32 m' (S + 4 * i + 52) k = limbs32 m (S + 4 * i + 52) k := limbs32_congr _ _ _ _ (fun t ht => hfr' _ (by omega))
  have e4 : limbs32 m (S + 4 * i) 13 = (m (S + 4 * i)).toNat :: limbs32 m (S + 4 * i + 4) 12 := limbs32_succ _ _ _
  rw [e1, val_append, limbs32_length, e4, val_cons] at hinv
  rw [e4, val_cons] at hrow
  rw [e2, val_append, e3, limbs32_length]
  generalize val (2 ^ 32) (limbs32 m0 pp 12) = P at *
  generalize val (2 ^ 32) (limbs32 m0 S 24) = T at *
  generalize (m (S + 4 * i)).toNat = d0 at *
  generalize val (2 ^ 32) (limbs32 m (S + 4 * i + 4) 12) = D' at *
  generalize val (2 ^ 32) (limbs32 m (S + 4 * i + 52) k) = Rest at *
  generalize val (2 ^ 32) (limbs32 m' (S + 4 * i + 4) 12) = V' at *
  have hB : 0 < (2 : ℕ) ^ 32 := by norm_num
  generalize (2 : ℕ) ^ 32 = B at *
  obtain ⟨u, hu⟩ : ∃ u, u = inv * d0 % B := ⟨_, rfl⟩
  rw [← hu] at hrow
  have huB : u < B := by rw [hu]; exact Nat.mod_lt _ hB
  have hdiv : B ∣ u * P + d0 := by
    have h1 : B * (inv * d0 / B) + u = inv * d0 := by rw [hu]; exact Nat.div_add_mod _ _
    obtain ⟨q, hq⟩ := Nat.dvd_of_mod_eq_zero hinvP
    have h2 : u * P + d0 + B * (inv * d0 / B * P) = B * (q * d0) := by linear_combination P * h1 + d0 * hq
    exact (Nat.dvd_add_iff_left (Nat.dvd_mul_right B _)).mpr ⟨q * d0, h2⟩
  obtain ⟨w, hw⟩ := hdiv
  have hlo0 : lo0 = 0 := by
    have hr : lo0 + B * (V' + B ^ 12 * mc') = B * (w + D' + B ^ 11 * mc) := by
      rw [hrow]; linear_combination hw
    have hd : B ∣ lo0 := (Nat.dvd_add_iff_left (Nat.dvd_mul_right B _)).mpr ⟨_, hr⟩
    exact Nat.eq_zero_of_dvd_of_lt hd hlo
  subst hlo0
  refine ⟨M + B ^ i * u, ?_, ?_⟩
  · calc M + B ^ i * u < B ^ i + B ^ i * u := by omega
      _ = B ^ i * (u + 1) := by ring
      _ ≤ B ^ i * B := Nat.mul_le_mul_left _ (by omega)
      _ = B ^ (i + 1) := by ring
  · linear_combination hinv + B ^ i * hrow

/-- after the twelfth row: the dropped meta-carry is 0 and the upper half is `< 2P` -/
theorem mont_finish (R T P M mc : Nat) (h : (2 ^ 32) ^ 12 * (R + (2 ^ 32) ^ 12 * mc) = T + M * P) (hM : M < (2 ^ 32) ^ 12)
    (hT : T < P * (2 ^ 32) ^ 12) (h2P : 2 * P ≤ (2 ^ 32) ^ 12) (hmc : mc ≤ 1) :
    R < 2 * P ∧ (2 ^ 32) ^ 12 * R = T + M * P := by
  generalize (2 ^ 32) ^ 12 = N at *
  have hP : 0 < P := by
    rcases Nat.eq_zero_or_pos P with h0 | h0
    · subst h0; omega
    · exact h0
  have h1 : M * P < N * P := Nat.mul_lt_mul_of_pos_right hM hP
  have h2 : N * (R + N * mc) < N * (2 * P) := by rw [h]; linarith
  have h3 : R + N * mc < 2 * P := Nat.lt_of_mul_lt_mul_left h2
  have h4 : mc = 0 := by
    rcases Nat.eq_zero_or_pos mc with h0 | h0
    · exact h0
    · have : N * 1 ≤ N * mc := Nat.mul_le_mul_left _ h0
      omega
  subst h4
  exact ⟨by omega, by simpa using h⟩

/-- … and what `reduce` then leaves: `< P`, congruent to `T · B^{-12}` -/
theorem reduce_finish (R T P M : Nat) (hR : R < 2 * P) (h : (2 ^ 32) ^ 12 * R = T + M * P) :
    reduceVal R P < P ∧ (reduceVal R P * 2 ^ 384) % P = T % P := by
  obtain ⟨hlt, q, hq⟩ := reduceVal_spec R P hR
  refine ⟨hlt, ?_⟩
  have e : ((2 : ℕ) ^ 32) ^ 12 = 2 ^ 384 := by rw [← pow_mul]
  rw [e] at h
  generalize reduceVal R P = rv at *
  generalize (2 : ℕ) ^ 384 = N at *
  have h2 : rv * N + (q * N) * P = T + M * P := by
    rw [← h, hq]; ring
  have h3 : (rv * N + (q * N) * P) % P = (T + M * P) % P := by rw [h2]
  rwa [Nat.add_mul_mod_self_right, Nat.add_mul_mod_self_right] at h3

set_option maxHeartbeats 1600000 in
/-- `montgomeryreduce384` (with `r1 = p`, `r2 = r9 = inv`, `inv·P ≡ −1 mod 2^32`): afterwards `R = tmp[12..24)` and a carry bit `mc` satisfy
`2^384·(R + 2^384·mc) = T + M·P` for some `M < 2^384` (`T` the 24 words at SP before). -/
theorem montgomeryreduce384_run (st : State) (hst : st.status = .running) (hr2 : st.r2 = st.r9)
    (hp : Span st.readable st.writable st.r1.toNat 12 false) (ht : Span st.readable st.writable st.sp.toNat 24 true)
    (hdp : st.r1.toNat + 48 ≤ st.sp.toNat ∨ st.sp.toNat + 96 ≤ st.r1.toNat)
    (hinvP : (st.r9.toNat * val (2 ^ 32) (limbs32 st.mem st.r1.toNat 12) + 1) % 2 ^ 32 = 0) :
    ∃ (x0 x2 x3 x4 x5 x6 x7 x8 : Word) (n z c v : Option Bool) (m' : Nat → Word) (M mc : Nat),
      runL Code.montgomeryreduce384 st = { st with r0 := x0, r2 := x2, r3 := x3, r4 := x4, r5 := x5, r6 := x6, r7 := x7, r8 := x8, nf := n, zf := z, cf := c, vf := v, mem := m', pc := st.pc + 3535 } ∧
      (∀ k, ¬(st.sp.toNat ≤ k ∧ k < st.sp.toNat + 96) → m' k = st.mem k) ∧ M < (2 ^ 32) ^ 12 ∧ mc ≤ 1 ∧
      (2 ^ 32) ^ 12 * (val (2 ^ 32) (limbs32 m' (st.sp.toNat + 48) 12) + (2 ^ 32) ^ 12 * mc)
        = val (2 ^ 32) (limbs32 st.mem st.sp.toNat 24) + M * val (2 ^ 32) (limbs32 st.mem st.r1.toNat 12) := by
  obtain ⟨r0, r1, r2, r3, r4, r5, r6, r7, r8, r9, r10, r11, r12, sp, lr, nf, zf, cf, vf, m, rd, wr, pc, status, csm⟩ := st
  simp only at hst hr2 hp ht hdp hinvP ⊢
  subst hst
  have hr2' := hr2.symm
  subst hr2'
  unfold Code.montgomeryreduce384
  simp only [runL_append]
  have hfr0 : ∀ kk, ¬(sp.toNat ≤ kk ∧ kk < sp.toNat + 96) → m kk = m kk := fun _ _ => rfl
  obtain ⟨x0_0, x2_0, x3_0, x4_0, x5_0, x6_0, x7_0, x8_0, n_0, z_0, c_0, v_0, m_0, lo_0, mc_0, e0, f0, hl0, hc0, h80, v0⟩ := montRow0_run r0 r1 r9 r3 r4 r5 r6 r7 r8 r9 r10 r11 r12 sp lr nf zf cf vf m rd wr pc csm hp (ht.sub 0 13 (by decide)) (by omega)
  rw [e0]; clear e0
  obtain ⟨fr0, M0, hM0, inv0⟩ := mont_step 0 11 rfl m m m_0 r1.toNat sp.toNat sp.toNat (sp.toNat + 4) r9.toNat 0 0 mc_0 lo_0 (by omega) (by omega) hdp hinvP hfr0 (by norm_num)
    (by simp) (fun kk hkk => f0 kk (by omega)) hl0 (by simpa using v0)
  clear f0 v0
  obtain ⟨x0_1, x2_1, x3_1, x4_1, x5_1, x6_1, x7_1, x8_1, n_1, z_1, c_1, v_1, m_1, lo_1, mc_1, e1, f1, hl1, hc1, h81, v1⟩ := montRow_run 4 x0_0 r1 x2_0 x3_0 x4_0 x5_0 x6_0 x7_0 x8_0 r9 r10 r11 r12 sp lr n_0 z_0 c_0 v_0 m_0 rd wr (pc + 292) csm hp (ht.sub 1 13 (by decide)) (by omega)
  rw [e1]; clear e1
  rw [h80] at v1
  obtain ⟨fr1, M1, hM1, inv1⟩ := mont_step 1 10 rfl m m_0 m_1 r1.toNat sp.toNat (sp.toNat + 4) (sp.toNat + (4 + 4)) r9.toNat M0 mc_0 mc_1 lo_1 (by omega) (by omega) hdp hinvP fr0 hM0
    inv0 (fun kk hkk => f1 kk (by omega)) hl1 v1
  clear f1 v1 inv0 fr0
  obtain ⟨x0_2, x2_2, x3_2, x4_2, x5_2, x6_2, x7_2, x8_2, n_2, z_2, c_2, v_2, m_2, lo_2, mc_2, e2, f2, hl2, hc2, h82, v2⟩ := montRow_run 8 x0_1 r1 x2_1 x3_1 x4_1 x5_1 x6_1 x7_1 x8_1 r9 r10 r11 r12 sp lr n_1 z_1 c_1 v_1 m_1 rd wr (pc + 587) csm hp (ht.sub 2 13 (by decide)) (by omega)
  rw [e2]; clear e2
  rw [h81] at v2
  obtain ⟨fr2, M2, hM2, inv2⟩ := mont_step 2 9 rfl m m_1 m_2 r1.toNat sp.toNat (sp.toNat + 8) (sp.toNat + (8 + 4)) r9.toNat M1 mc_1 mc_2 lo_2 (by omega) (by omega) hdp hinvP fr1 hM1
    inv1 (fun kk hkk => f2 kk (by omega)) hl2 v2
  clear f2 v2 inv1 fr1
  obtain ⟨x0_3, x2_3, x3_3, x4_3, x5_3, x6_3, x7_3, x8_3, n_3, z_3, c_3, v_3, m_3, lo_3, mc_3, e3, f3, hl3, hc3, h83, v3⟩ := montRow_run 12 x0_2 r1 x2_2 x3_2 x4_2 x5_2 x6_2 x7_2 x8_2 r9 r10 r11 r12 sp lr n_2 z_2 c_2 v_2 m_2 rd wr (pc + 882) csm hp (ht.sub 3 13 (by decide)) (by omega)
  rw [e3]; clear e3
  rw [h82] at v3
  obtain ⟨fr3, M3, hM3, inv3⟩ := mont_step 3 8 rfl m m_2 m_3 r1.toNat sp.toNat (sp.toNat + 12) (sp.toNat + (12 + 4)) r9.toNat M2 mc_2 mc_3 lo_3 (by omega) (by omega) hdp hinvP fr2 hM2
    inv2 (fun kk hkk => f3 kk (by omega)) hl3 v3
  clear f3 v3 inv2 fr2
  obtain ⟨x0_4, x2_4, x3_4, x4_4, x5_4, x6_4, x7_4, x8_4, n_4, z_4, c_4, v_4, m_4, lo_4, mc_4, e4, f4, hl4, hc4, h84, v4⟩ := montRow_run 16 x0_3 r1 x2_3 x3_3 x4_3 x5_3 x6_3 x7_3 x8_3 r9 r10 r11 r12 sp lr n_3 z_3 c_3 v_3 m_3 rd wr (pc + 1177) csm hp (ht.sub 4 13 (by decide)) (by omega)
  rw [e4]; clear e4
  rw [h83] at v4
  obtain ⟨fr4, M4, hM4, inv4⟩ := mont_step 4 7 rfl m m_3 m_4 r1.toNat sp.toNat (sp.toNat + 16) (sp.toNat + (16 + 4)) r9.toNat M3 mc_3 mc_4 lo_4 (by omega) (by omega) hdp hinvP fr3 hM3
    inv3 (fun kk hkk => f4 kk (by omega)) hl4 v4
  clear f4 v4 inv3 fr3
  obtain ⟨x0_5, x2_5, x3_5, x4_5, x5_5, x6_5, x7_5, x8_5, n_5, z_5, c_5, v_5, m_5, lo_5, mc_5, e5, f5, hl5, hc5, h85, v5⟩ := montRow_run 20 x0_4 r1 x2_4 x3_4 x4_4 x5_4 x6_4 x7_4 x8_4 r9 r10 r11 r12 sp lr n_4 z_4 c_4 v_4 m_4 rd wr (pc + 1472) csm hp (ht.sub 5 13 (by decide)) (by omega)
  rw [e5]; clear e5
  rw [h84] at v5
  obtain ⟨fr5, M5, hM5, inv5⟩ := mont_step 5 6 rfl m m_4 m_5 r1.toNat sp.toNat (sp.toNat + 20) (sp.toNat + (20 + 4)) r9.toNat M4 mc_4 mc_5 lo_5 (by omega) (by omega) hdp hinvP fr4 hM4
    inv4 (fun kk hkk => f5 kk (by omega)) hl5 v5
  clear f5 v5 inv4 fr4
  obtain ⟨x0_6, x2_6, x3_6, x4_6, x5_6, x6_6, x7_6, x8_6, n_6, z_6, c_6, v_6, m_6, lo_6, mc_6, e6, f6, hl6, hc6, h86, v6⟩ := montRow_run 24 x0_5 r1 x2_5 x3_5 x4_5 x5_5 x6_5 x7_5 x8_5 r9 r10 r11 r12 sp lr n_5 z_5 c_5 v_5 m_5 rd wr (pc + 1767) csm hp (ht.sub 6 13 (by decide)) (by omega)
  rw [e6]; clear e6
  rw [h85] at v6
  obtain ⟨fr6, M6, hM6, inv6⟩ := mont_step 6 5 rfl m m_5 m_6 r1.toNat sp.toNat (sp.toNat + 24) (sp.toNat + (24 + 4)) r9.toNat M5 mc_5 mc_6 lo_6 (by omega) (by omega) hdp hinvP fr5 hM5
    inv5 (fun kk hkk => f6 kk (by omega)) hl6 v6
  clear f6 v6 inv5 fr5
  obtain ⟨x0_7, x2_7, x3_7, x4_7, x5_7, x6_7, x7_7, x8_7, n_7, z_7, c_7, v_7, m_7, lo_7, mc_7, e7, f7, hl7, hc7, h87, v7⟩ := montRow_run 28 x0_6 r1 x2_6 x3_6 x4_6 x5_6 x6_6 x7_6 x8_6 r9 r10 r11 r12 sp lr n_6 z_6 c_6 v_6 m_6 rd wr (pc + 2062) csm hp (ht.sub 7 13 (by decide)) (by omega)
  rw [e7]; clear e7
  rw [h86] at v7
  obtain ⟨fr7, M7, hM7, inv7⟩ := mont_step 7 4 rfl m m_6 m_7 r1.toNat sp.toNat (sp.toNat + 28) (sp.toNat + (28 + 4)) r9.toNat M6 mc_6 mc_7 lo_7 (by omega) (by omega) hdp hinvP fr6 hM6
    inv6 (fun kk hkk => f7 kk (by omega)) hl7 v7
  clear f7 v7 inv6 fr6
  obtain ⟨x0_8, x2_8, x3_8, x4_8, x5_8, x6_8, x7_8, x8_8, n_8, z_8, c_8, v_8, m_8, lo_8, mc_8, e8, f8, hl8, hc8, h88, v8⟩ := montRow_run 32 x0_7 r1 x2_7 x3_7 x4_7 x5_7 x6_7 x7_7 x8_7 r9 r10 r11 r12 sp lr n_7 z_7 c_7 v_7 m_7 rd wr (pc + 2357) csm hp (ht.sub 8 13 (by decide)) (by omega)
  rw [e8]; clear e8
  rw [h87] at v8
  obtain ⟨fr8, M8, hM8, inv8⟩ := mont_step 8 3 rfl m m_7 m_8 r1.toNat sp.toNat (sp.toNat + 32) (sp.toNat + (32 + 4)) r9.toNat M7 mc_7 mc_8 lo_8 (by omega) (by omega) hdp hinvP fr7 hM7
    inv7 (fun kk hkk => f8 kk (by omega)) hl8 v8
  clear f8 v8 inv7 fr7
  obtain ⟨x0_9, x2_9, x3_9, x4_9, x5_9, x6_9, x7_9, x8_9, n_9, z_9, c_9, v_9, m_9, lo_9, mc_9, e9, f9, hl9, hc9, h89, v9⟩ := montRow_run 36 x0_8 r1 x2_8 x3_8 x4_8 x5_8 x6_8 x7_8 x8_8 r9 r10 r11 r12 sp lr n_8 z_8 c_8 v_8 m_8 rd wr (pc + 2652) csm hp (ht.sub 9 13 (by decide)) (by omega)
  rw [e9]; clear e9
  rw [h88] at v9
  obtain ⟨fr9, M9, hM9, inv9⟩ := mont_step 9 2 rfl m m_8 m_9 r1.toNat sp.toNat (sp.toNat + 36) (sp.toNat + (36 + 4)) r9.toNat M8 mc_8 mc_9 lo_9 (by omega) (by omega) hdp hinvP fr8 hM8
    inv8 (fun kk hkk => f9 kk (by omega)) hl9 v9
  clear f9 v9 inv8 fr8
  obtain ⟨x0_10, x2_10, x3_10, x4_10, x5_10, x6_10, x7_10, x8_10, n_10, z_10, c_10, v_10, m_10, lo_10, mc_10, e10, f10, hl10, hc10, h810, v10⟩ := montRow_run 40 x0_9 r1 x2_9 x3_9 x4_9 x5_9 x6_9 x7_9 x8_9 r9 r10 r11 r12 sp lr n_9 z_9 c_9 v_9 m_9 rd wr (pc + 2947) csm hp (ht.sub 10 13 (by decide)) (by omega)
  rw [e10]; clear e10
  rw [h89] at v10
  obtain ⟨fr10, M10, hM10, inv10⟩ := mont_step 10 1 rfl m m_9 m_10 r1.toNat sp.toNat (sp.toNat + 40) (sp.toNat + (40 + 4)) r9.toNat M9 mc_9 mc_10 lo_10 (by omega) (by omega) hdp hinvP fr9 hM9
    inv9 (fun kk hkk => f10 kk (by omega)) hl10 v10
  clear f10 v10 inv9 fr9
  obtain ⟨x0_11, x2_11, x3_11, x4_11, x5_11, x6_11, x7_11, n_11, z_11, c_11, v_11, m_11, lo_11, mc_11, e11, f11, hl11, hc11, v11⟩ := montRow11_run x0_10 r1 x2_10 x3_10 x4_10 x5_10 x6_10 x7_10 x8_10 r9 r10 r11 r12 sp lr n_10 z_10 c_10 v_10 m_10 rd wr (pc + 3242) csm hp (ht.sub 11 13 (by decide)) (by omega)
  rw [e11]; clear e11
  rw [h810] at v11
  obtain ⟨fr11, M11, hM11, inv11⟩ := mont_step 11 0 rfl m m_10 m_11 r1.toNat sp.toNat (sp.toNat + 44) (sp.toNat + 48) r9.toNat M10 mc_10 mc_11 lo_11 (by omega) (by omega) hdp hinvP fr10 hM10
    inv10 (fun kk hkk => f11 kk (by omega)) hl11 v11
  clear f11 v11 inv10 fr10
  exact ⟨_, _, _, _, _, _, _, _, _, _, _, _, _, M11, mc_11, rfl, fr11, hM11, hc11, inv11⟩


theorem montgomeryreduce384_run' {st st' : State} (h : runL Code.montgomeryreduce384 st = st') (hst : st.status = .running) (hr2 : st.r2 = st.r9)
    (hp : Span st.readable st.writable st.r1.toNat 12 false) (ht : Span st.readable st.writable st.sp.toNat 24 true)
    (hdp : st.r1.toNat + 48 ≤ st.sp.toNat ∨ st.sp.toNat + 96 ≤ st.r1.toNat)
    (hinvP : (st.r9.toNat * val (2 ^ 32) (limbs32 st.mem st.r1.toNat 12) + 1) % 2 ^ 32 = 0) :
    ∃ (x0 x2 x3 x4 x5 x6 x7 x8 : Word) (n z c v : Option Bool) (m' : Nat → Word) (M mc : Nat),
      st' = { st with r0 := x0, r2 := x2, r3 := x3, r4 := x4, r5 := x5, r6 := x6, r7 := x7, r8 := x8, nf := n, zf := z, cf := c, vf := v, mem := m', pc := st.pc + 3535 } ∧
      (∀ k, ¬(st.sp.toNat ≤ k ∧ k < st.sp.toNat + 96) → m' k = st.mem k) ∧ M < (2 ^ 32) ^ 12 ∧ mc ≤ 1 ∧
      (2 ^ 32) ^ 12 * (val (2 ^ 32) (limbs32 m' (st.sp.toNat + 48) 12) + (2 ^ 32) ^ 12 * mc)
        = val (2 ^ 32) (limbs32 st.mem st.sp.toNat 24) + M * val (2 ^ 32) (limbs32 st.mem st.r1.toNat 12) := by
  obtain ⟨x0, x2, x3, x4, x5, x6, x7, x8, n, z, c, v, m', M, mc, e, r⟩ := montgomeryreduce384_run st hst hr2 hp ht hdp hinvP
  exact ⟨x0, x2, x3, x4, x5, x6, x7, x8, n, z, c, v, m', M, mc, h ▸ e, r⟩

theorem writeList_words_ne (m : Nat → Word) (a v k : Nat) (h : k < a ∨ a + 48 ≤ k) : writeList m a (wordsOfNat 12 v) k = m k :=
  writeList_ne _ _ _ _ (by rw [wordsOfNat_length]; exact h)

theorem val_limbs32_writeList_words (m : Nat → Word) (a v : Nat) (h : v < (2 ^ 32) ^ 12) :
    val (2 ^ 32) (limbs32 (writeList m a (wordsOfNat 12 v)) a 12) = v := by
  have := limbs32_writeList (wordsOfNat 12 v) m a
  rw [wordsOfNat_length] at this
  rw [this, val_wordsOfNat _ _ h]

theorem limbs32_lt12' (m : Nat → Word) (p : Nat) : val (2 ^ 32) (limbs32 m p 12) < (2 ^ 32) ^ 12 := limbs32_lt12 m p

set_option maxHeartbeats 1600000 in
/-- `void fpbase_384_montgomery_reduce(res, T, p, inv)`: `res < P` and `res · 2^384 ≡ T (mod P)`; `res` may overlap `T` in any way. -/
theorem fpbase_384_montgomery_reduce_run (s : State) (pr pt pp inv : Word)
    (hst : s.status = .running) (hpc : s.pc = 0) (h0 : s.r0 = pr) (h1 : s.r1 = pt) (h2 : s.r2 = pp) (h3 : s.r3 = inv) (hlr : s.lr.toNat % 2 = 1)
    (hr : Buf s pr 12 true) (ht : Buf s pt 24 false) (hp : Buf s pp 12 false)
    (hstk : Stack s 33) (hrs : OffStack s 33 pr 12) (hts : OffStack s 33 pt 24) (hps : OffStack s 33 pp 12)
    (hinv : (inv.toNat * val (2 ^ 32) (limbs32 s.mem pp.toNat 12) + 1) % 2 ^ 32 = 0)
    (hT : val (2 ^ 32) (limbs32 s.mem pt.toNat 24) < val (2 ^ 32) (limbs32 s.mem pp.toNat 12) * 2 ^ 384)
    (h2P : 2 * val (2 ^ 32) (limbs32 s.mem pp.toNat 12) ≤ 2 ^ 384) :
    ∃ s', run embedded_pairing_core_arch_armv6_m_fpbase_384_montgomery_reduce s 3567 = s' ∧ Returned s s' ∧
      val (2 ^ 32) (limbs32 s'.mem pr.toNat 12) < val (2 ^ 32) (limbs32 s.mem pp.toNat 12) ∧
      (val (2 ^ 32) (limbs32 s'.mem pr.toNat 12) * 2 ^ 384) % val (2 ^ 32) (limbs32 s.mem pp.toNat 12) = val (2 ^ 32) (limbs32 s.mem pt.toNat 24) % val (2 ^ 32) (limbs32 s.mem pp.toNat 12) ∧
      (∀ k, ¬(pr.toNat ≤ k ∧ k < pr.toNat + 48) → ¬(s.sp.toNat - 132 ≤ k ∧ k < s.sp.toNat) → s'.mem k = s.mem k) ∧
      s'.callSpMisaligned = (s.callSpMisaligned || (s.sp.toNat - 132) % 8 != 0) := by
  refine ⟨_, rfl, ?_⟩
  have e384 : ((2 : ℕ) ^ 32) ^ 12 = 2 ^ 384 := by rw [← pow_mul]
  obtain ⟨B, hB, hBlt, hsp⟩ := hstk.base (by decide)
  have hS := hstk.span B.toNat hsp
  have hR := hr.span
  have hTs := ht.span
  have hP := hp.span
  have k_lt0 : B.toNat < 2 ^ 32 := hS.lt_0 (by decide)
  have k_al0 : (B.toNat) % 4 = 0 := hS.aligned
  have k_rd0 : s.readable (B.toNat) = true := hS.rd_0 (by decide)
  have k_wr0 : s.writable (B.toNat) = true := hS.wr_0 (by decide)
  have k_lt1 : B.toNat + 4 < 2 ^ 32 := hS.lt_k 4 (by decide)
  have k_al1 : (B.toNat + 4) % 4 = 0 := hS.al_k 4 (by decide)
  have k_rd1 : s.readable (B.toNat + 4) = true := hS.rd_k 4 (by decide) (by decide)
  have k_wr1 : s.writable (B.toNat + 4) = true := hS.wr_k 4 (by decide) (by decide)
  have k_lt2 : B.toNat + 8 < 2 ^ 32 := hS.lt_k 8 (by decide)
  have k_al2 : (B.toNat + 8) % 4 = 0 := hS.al_k 8 (by decide)
  have k_rd2 : s.readable (B.toNat + 8) = true := hS.rd_k 8 (by decide) (by decide)
  have k_wr2 : s.writable (B.toNat + 8) = true := hS.wr_k 8 (by decide) (by decide)
  have k_lt3 : B.toNat + 12 < 2 ^ 32 := hS.lt_k 12 (by decide)
  have k_al3 : (B.toNat + 12) % 4 = 0 := hS.al_k 12 (by decide)
  have k_rd3 : s.readable (B.toNat + 12) = true := hS.rd_k 12 (by decide) (by decide)
  have k_wr3 : s.writable (B.toNat + 12) = true := hS.wr_k 12 (by decide) (by decide)
  have k_lt4 : B.toNat + 16 < 2 ^ 32 := hS.lt_k 16 (by decide)
  have k_al4 : (B.toNat + 16) % 4 = 0 := hS.al_k 16 (by decide)
  have k_rd4 : s.readable (B.toNat + 16) = true := hS.rd_k 16 (by decide) (by decide)
  have k_wr4 : s.writable (B.toNat + 16) = true := hS.wr_k 16 (by decide) (by decide)
  have k_lt5 : B.toNat + 20 < 2 ^ 32 := hS.lt_k 20 (by decide)
  have k_al5 : (B.toNat + 20) % 4 = 0 := hS.al_k 20 (by decide)
  have k_rd5 : s.readable (B.toNat + 20) = true := hS.rd_k 20 (by decide) (by decide)
  have k_wr5 : s.writable (B.toNat + 20) = true := hS.wr_k 20 (by decide) (by decide)
  have k_lt6 : B.toNat + 24 < 2 ^ 32 := hS.lt_k 24 (by decide)
  have k_al6 : (B.toNat + 24) % 4 = 0 := hS.al_k 24 (by decide)
  have k_rd6 : s.readable (B.toNat + 24) = true := hS.rd_k 24 (by decide) (by decide)
  have k_wr6 : s.writable (B.toNat + 24) = true := hS.wr_k 24 (by decide) (by decide)
  have k_lt7 : B.toNat + 28 < 2 ^ 32 := hS.lt_k 28 (by decide)
  have k_al7 : (B.toNat + 28) % 4 = 0 := hS.al_k 28 (by decide)
  have k_rd7 : s.readable (B.toNat + 28) = true := hS.rd_k 28 (by decide) (by decide)
  have k_wr7 : s.writable (B.toNat + 28) = true := hS.wr_k 28 (by decide) (by decide)
  have k_lt8 : B.toNat + 32 < 2 ^ 32 := hS.lt_k 32 (by decide)
  have k_al8 : (B.toNat + 32) % 4 = 0 := hS.al_k 32 (by decide)
  have k_rd8 : s.readable (B.toNat + 32) = true := hS.rd_k 32 (by decide) (by decide)
  have k_wr8 : s.writable (B.toNat + 32) = true := hS.wr_k 32 (by decide) (by decide)
  have k_lt9 : B.toNat + 36 < 2 ^ 32 := hS.lt_k 36 (by decide)
  have k_al9 : (B.toNat + 36) % 4 = 0 := hS.al_k 36 (by decide)
  have k_rd9 : s.readable (B.toNat + 36) = true := hS.rd_k 36 (by decide) (by decide)
  have k_wr9 : s.writable (B.toNat + 36) = true := hS.wr_k 36 (by decide) (by decide)
  have k_lt10 : B.toNat + 40 < 2 ^ 32 := hS.lt_k 40 (by decide)
  have k_al10 : (B.toNat + 40) % 4 = 0 := hS.al_k 40 (by decide)
  have k_rd10 : s.readable (B.toNat + 40) = true := hS.rd_k 40 (by decide) (by decide)
  have k_wr10 : s.writable (B.toNat + 40) = true := hS.wr_k 40 (by decide) (by decide)
  have k_lt11 : B.toNat + 44 < 2 ^ 32 := hS.lt_k 44 (by decide)
  have k_al11 : (B.toNat + 44) % 4 = 0 := hS.al_k 44 (by decide)
  have k_rd11 : s.readable (B.toNat + 44) = true := hS.rd_k 44 (by decide) (by decide)
  have k_wr11 : s.writable (B.toNat + 44) = true := hS.wr_k 44 (by decide) (by decide)
  have k_lt12 : B.toNat + 48 < 2 ^ 32 := hS.lt_k 48 (by decide)
  have k_al12 : (B.toNat + 48) % 4 = 0 := hS.al_k 48 (by decide)
  have k_rd12 : s.readable (B.toNat + 48) = true := hS.rd_k 48 (by decide) (by decide)
  have k_wr12 : s.writable (B.toNat + 48) = true := hS.wr_k 48 (by decide) (by decide)
  have k_lt13 : B.toNat + 52 < 2 ^ 32 := hS.lt_k 52 (by decide)
  have k_al13 : (B.toNat + 52) % 4 = 0 := hS.al_k 52 (by decide)
  have k_rd13 : s.readable (B.toNat + 52) = true := hS.rd_k 52 (by decide) (by decide)
  have k_wr13 : s.writable (B.toNat + 52) = true := hS.wr_k 52 (by decide) (by decide)
  have k_lt14 : B.toNat + 56 < 2 ^ 32 := hS.lt_k 56 (by decide)
  have k_al14 : (B.toNat + 56) % 4 = 0 := hS.al_k 56 (by decide)
  have k_rd14 : s.readable (B.toNat + 56) = true := hS.rd_k 56 (by decide) (by decide)
  have k_wr14 : s.writable (B.toNat + 56) = true := hS.wr_k 56 (by decide) (by decide)
  have k_lt15 : B.toNat + 60 < 2 ^ 32 := hS.lt_k 60 (by decide)
  have k_al15 : (B.toNat + 60) % 4 = 0 := hS.al_k 60 (by decide)
  have k_rd15 : s.readable (B.toNat + 60) = true := hS.rd_k 60 (by decide) (by decide)
  have k_wr15 : s.writable (B.toNat + 60) = true := hS.wr_k 60 (by decide) (by decide)
  have k_lt16 : B.toNat + 64 < 2 ^ 32 := hS.lt_k 64 (by decide)
  have k_al16 : (B.toNat + 64) % 4 = 0 := hS.al_k 64 (by decide)
  have k_rd16 : s.readable (B.toNat + 64) = true := hS.rd_k 64 (by decide) (by decide)
  have k_wr16 : s.writable (B.toNat + 64) = true := hS.wr_k 64 (by decide) (by decide)
  have k_lt17 : B.toNat + 68 < 2 ^ 32 := hS.lt_k 68 (by decide)
  have k_al17 : (B.toNat + 68) % 4 = 0 := hS.al_k 68 (by decide)
  have k_rd17 : s.readable (B.toNat + 68) = true := hS.rd_k 68 (by decide) (by decide)
  have k_wr17 : s.writable (B.toNat + 68) = true := hS.wr_k 68 (by decide) (by decide)
  have k_lt18 : B.toNat + 72 < 2 ^ 32 := hS.lt_k 72 (by decide)
  have k_al18 : (B.toNat + 72) % 4 = 0 := hS.al_k 72 (by decide)
  have k_rd18 : s.readable (B.toNat + 72) = true := hS.rd_k 72 (by decide) (by decide)
  have k_wr18 : s.writable (B.toNat + 72) = true := hS.wr_k 72 (by decide) (by decide)
  have k_lt19 : B.toNat + 76 < 2 ^ 32 := hS.lt_k 76 (by decide)
  have k_al19 : (B.toNat + 76) % 4 = 0 := hS.al_k 76 (by decide)
  have k_rd19 : s.readable (B.toNat + 76) = true := hS.rd_k 76 (by decide) (by decide)
  have k_wr19 : s.writable (B.toNat + 76) = true := hS.wr_k 76 (by decide) (by decide)
  have k_lt20 : B.toNat + 80 < 2 ^ 32 := hS.lt_k 80 (by decide)
  have k_al20 : (B.toNat + 80) % 4 = 0 := hS.al_k 80 (by decide)
  have k_rd20 : s.readable (B.toNat + 80) = true := hS.rd_k 80 (by decide) (by decide)
  have k_wr20 : s.writable (B.toNat + 80) = true := hS.wr_k 80 (by decide) (by decide)
  have k_lt21 : B.toNat + 84 < 2 ^ 32 := hS.lt_k 84 (by decide)
  have k_al21 : (B.toNat + 84) % 4 = 0 := hS.al_k 84 (by decide)
  have k_rd21 : s.readable (B.toNat + 84) = true := hS.rd_k 84 (by decide) (by decide)
  have k_wr21 : s.writable (B.toNat + 84) = true := hS.wr_k 84 (by decide) (by decide)
  have k_lt22 : B.toNat + 88 < 2 ^ 32 := hS.lt_k 88 (by decide)
  have k_al22 : (B.toNat + 88) % 4 = 0 := hS.al_k 88 (by decide)
  have k_rd22 : s.readable (B.toNat + 88) = true := hS.rd_k 88 (by decide) (by decide)
  have k_wr22 : s.writable (B.toNat + 88) = true := hS.wr_k 88 (by decide) (by decide)
  have k_lt23 : B.toNat + 92 < 2 ^ 32 := hS.lt_k 92 (by decide)
  have k_al23 : (B.toNat + 92) % 4 = 0 := hS.al_k 92 (by decide)
  have k_rd23 : s.readable (B.toNat + 92) = true := hS.rd_k 92 (by decide) (by decide)
  have k_wr23 : s.writable (B.toNat + 92) = true := hS.wr_k 92 (by decide) (by decide)
  have k_lt24 : B.toNat + 96 < 2 ^ 32 := hS.lt_k 96 (by decide)
  have k_al24 : (B.toNat + 96) % 4 = 0 := hS.al_k 96 (by decide)
  have k_rd24 : s.readable (B.toNat + 96) = true := hS.rd_k 96 (by decide) (by decide)
  have k_wr24 : s.writable (B.toNat + 96) = true := hS.wr_k 96 (by decide) (by decide)
  have k_lt25 : B.toNat + 100 < 2 ^ 32 := hS.lt_k 100 (by decide)
  have k_al25 : (B.toNat + 100) % 4 = 0 := hS.al_k 100 (by decide)
  have k_rd25 : s.readable (B.toNat + 100) = true := hS.rd_k 100 (by decide) (by decide)
  have k_wr25 : s.writable (B.toNat + 100) = true := hS.wr_k 100 (by decide) (by decide)
  have k_lt26 : B.toNat + 104 < 2 ^ 32 := hS.lt_k 104 (by decide)
  have k_al26 : (B.toNat + 104) % 4 = 0 := hS.al_k 104 (by decide)
  have k_rd26 : s.readable (B.toNat + 104) = true := hS.rd_k 104 (by decide) (by decide)
  have k_wr26 : s.writable (B.toNat + 104) = true := hS.wr_k 104 (by decide) (by decide)
  have k_lt27 : B.toNat + 108 < 2 ^ 32 := hS.lt_k 108 (by decide)
  have k_al27 : (B.toNat + 108) % 4 = 0 := hS.al_k 108 (by decide)
  have k_rd27 : s.readable (B.toNat + 108) = true := hS.rd_k 108 (by decide) (by decide)
  have k_wr27 : s.writable (B.toNat + 108) = true := hS.wr_k 108 (by decide) (by decide)
  have k_lt28 : B.toNat + 112 < 2 ^ 32 := hS.lt_k 112 (by decide)
  have k_al28 : (B.toNat + 112) % 4 = 0 := hS.al_k 112 (by decide)
  have k_rd28 : s.readable (B.toNat + 112) = true := hS.rd_k 112 (by decide) (by decide)
  have k_wr28 : s.writable (B.toNat + 112) = true := hS.wr_k 112 (by decide) (by decide)
  have k_lt29 : B.toNat + 116 < 2 ^ 32 := hS.lt_k 116 (by decide)
  have k_al29 : (B.toNat + 116) % 4 = 0 := hS.al_k 116 (by decide)
  have k_rd29 : s.readable (B.toNat + 116) = true := hS.rd_k 116 (by decide) (by decide)
  have k_wr29 : s.writable (B.toNat + 116) = true := hS.wr_k 116 (by decide) (by decide)
  have k_lt30 : B.toNat + 120 < 2 ^ 32 := hS.lt_k 120 (by decide)
  have k_al30 : (B.toNat + 120) % 4 = 0 := hS.al_k 120 (by decide)
  have k_rd30 : s.readable (B.toNat + 120) = true := hS.rd_k 120 (by decide) (by decide)
  have k_wr30 : s.writable (B.toNat + 120) = true := hS.wr_k 120 (by decide) (by decide)
  have k_lt31 : B.toNat + 124 < 2 ^ 32 := hS.lt_k 124 (by decide)
  have k_al31 : (B.toNat + 124) % 4 = 0 := hS.al_k 124 (by decide)
  have k_rd31 : s.readable (B.toNat + 124) = true := hS.rd_k 124 (by decide) (by decide)
  have k_wr31 : s.writable (B.toNat + 124) = true := hS.wr_k 124 (by decide) (by decide)
  have k_lt32 : B.toNat + 128 < 2 ^ 32 := hS.lt_k 128 (by decide)
  have k_al32 : (B.toNat + 128) % 4 = 0 := hS.al_k 128 (by decide)
  have k_rd32 : s.readable (B.toNat + 128) = true := hS.rd_k 128 (by decide) (by decide)
  have k_wr32 : s.writable (B.toNat + 128) = true := hS.wr_k 128 (by decide) (by decide)
  have q_lt0 : pt.toNat < 2 ^ 32 := hTs.lt_0 (by decide)
  have q_al0 : (pt.toNat) % 4 = 0 := hTs.aligned
  have q_rd0 : s.readable (pt.toNat) = true := hTs.rd_0 (by decide)
  have q_lt1 : pt.toNat + 4 < 2 ^ 32 := hTs.lt_k 4 (by decide)
  have q_al1 : (pt.toNat + 4) % 4 = 0 := hTs.al_k 4 (by decide)
  have q_rd1 : s.readable (pt.toNat + 4) = true := hTs.rd_k 4 (by decide) (by decide)
  have q_lt2 : pt.toNat + 8 < 2 ^ 32 := hTs.lt_k 8 (by decide)
  have q_al2 : (pt.toNat + 8) % 4 = 0 := hTs.al_k 8 (by decide)
  have q_rd2 : s.readable (pt.toNat + 8) = true := hTs.rd_k 8 (by decide) (by decide)
  have q_lt3 : pt.toNat + 12 < 2 ^ 32 := hTs.lt_k 12 (by decide)
  have q_al3 : (pt.toNat + 12) % 4 = 0 := hTs.al_k 12 (by decide)
  have q_rd3 : s.readable (pt.toNat + 12) = true := hTs.rd_k 12 (by decide) (by decide)
  have q_lt4 : pt.toNat + 16 < 2 ^ 32 := hTs.lt_k 16 (by decide)
  have q_al4 : (pt.toNat + 16) % 4 = 0 := hTs.al_k 16 (by decide)
  have q_rd4 : s.readable (pt.toNat + 16) = true := hTs.rd_k 16 (by decide) (by decide)
  have q_lt5 : pt.toNat + 20 < 2 ^ 32 := hTs.lt_k 20 (by decide)
  have q_al5 : (pt.toNat + 20) % 4 = 0 := hTs.al_k 20 (by decide)
  have q_rd5 : s.readable (pt.toNat + 20) = true := hTs.rd_k 20 (by decide) (by decide)
  have q_lt6 : pt.toNat + 24 < 2 ^ 32 := hTs.lt_k 24 (by decide)
  have q_al6 : (pt.toNat + 24) % 4 = 0 := hTs.al_k 24 (by decide)
  have q_rd6 : s.readable (pt.toNat + 24) = true := hTs.rd_k 24 (by decide) (by decide)
  have q_lt7 : pt.toNat + 28 < 2 ^ 32 := hTs.lt_k 28 (by decide)
  have q_al7 : (pt.toNat + 28) % 4 = 0 := hTs.al_k 28 (by decide)
  have q_rd7 : s.readable (pt.toNat + 28) = true := hTs.rd_k 28 (by decide) (by decide)
  have q_lt8 : pt.toNat + 32 < 2 ^ 32 := hTs.lt_k 32 (by decide)
  have q_al8 : (pt.toNat + 32) % 4 = 0 := hTs.al_k 32 (by decide)
  have q_rd8 : s.readable (pt.toNat + 32) = true := hTs.rd_k 32 (by decide) (by decide)
  have q_lt9 : pt.toNat + 36 < 2 ^ 32 := hTs.lt_k 36 (by decide)
  have q_al9 : (pt.toNat + 36) % 4 = 0 := hTs.al_k 36 (by decide)
  have q_rd9 : s.readable (pt.toNat + 36) = true := hTs.rd_k 36 (by decide) (by decide)
  have q_lt10 : pt.toNat + 40 < 2 ^ 32 := hTs.lt_k 40 (by decide)
  have q_al10 : (pt.toNat + 40) % 4 = 0 := hTs.al_k 40 (by decide)
  have q_rd10 : s.readable (pt.toNat + 40) = true := hTs.rd_k 40 (by decide) (by decide)
  have q_lt11 : pt.toNat + 44 < 2 ^ 32 := hTs.lt_k 44 (by decide)
  have q_al11 : (pt.toNat + 44) % 4 = 0 := hTs.al_k 44 (by decide)
  have q_rd11 : s.readable (pt.toNat + 44) = true := hTs.rd_k 44 (by decide) (by decide)
  have q_lt12 : pt.toNat + 48 < 2 ^ 32 := hTs.lt_k 48 (by decide)
  have q_al12 : (pt.toNat + 48) % 4 = 0 := hTs.al_k 48 (by decide)
  have q_rd12 : s.readable (pt.toNat + 48) = true := hTs.rd_k 48 (by decide) (by decide)
  have q_lt13 : pt.toNat + 52 < 2 ^ 32 := hTs.lt_k 52 (by decide)
  have q_al13 : (pt.toNat + 52) % 4 = 0 := hTs.al_k 52 (by decide)
  have q_rd13 : s.readable (pt.toNat + 52) = true := hTs.rd_k 52 (by decide) (by decide)
  have q_lt14 : pt.toNat + 56 < 2 ^ 32 := hTs.lt_k 56 (by decide)
  have q_al14 : (pt.toNat + 56) % 4 = 0 := hTs.al_k 56 (by decide)
  have q_rd14 : s.readable (pt.toNat + 56) = true := hTs.rd_k 56 (by decide) (by decide)
  have q_lt15 : pt.toNat + 60 < 2 ^ 32 := hTs.lt_k 60 (by decide)
  have q_al15 : (pt.toNat + 60) % 4 = 0 := hTs.al_k 60 (by decide)
  have q_rd15 : s.readable (pt.toNat + 60) = true := hTs.rd_k 60 (by decide) (by decide)
  have q_lt16 : pt.toNat + 64 < 2 ^ 32 := hTs.lt_k 64 (by decide)
  have q_al16 : (pt.toNat + 64) % 4 = 0 := hTs.al_k 64 (by decide)
  have q_rd16 : s.readable (pt.toNat + 64) = true := hTs.rd_k 64 (by decide) (by decide)
  have q_lt17 : pt.toNat + 68 < 2 ^ 32 := hTs.lt_k 68 (by decide)
  have q_al17 : (pt.toNat + 68) % 4 = 0 := hTs.al_k 68 (by decide)
  have q_rd17 : s.readable (pt.toNat + 68) = true := hTs.rd_k 68 (by decide) (by decide)
  have q_lt18 : pt.toNat + 72 < 2 ^ 32 := hTs.lt_k 72 (by decide)
  have q_al18 : (pt.toNat + 72) % 4 = 0 := hTs.al_k 72 (by decide)
  have q_rd18 : s.readable (pt.toNat + 72) = true := hTs.rd_k 72 (by decide) (by decide)
  have q_lt19 : pt.toNat + 76 < 2 ^ 32 := hTs.lt_k 76 (by decide)
  have q_al19 : (pt.toNat + 76) % 4 = 0 := hTs.al_k 76 (by decide)
  have q_rd19 : s.readable (pt.toNat + 76) = true := hTs.rd_k 76 (by decide) (by decide)
  have q_lt20 : pt.toNat + 80 < 2 ^ 32 := hTs.lt_k 80 (by decide)
  have q_al20 : (pt.toNat + 80) % 4 = 0 := hTs.al_k 80 (by decide)
  have q_rd20 : s.readable (pt.toNat + 80) = true := hTs.rd_k 80 (by decide) (by decide)
  have q_lt21 : pt.toNat + 84 < 2 ^ 32 := hTs.lt_k 84 (by decide)
  have q_al21 : (pt.toNat + 84) % 4 = 0 := hTs.al_k 84 (by decide)
  have q_rd21 : s.readable (pt.toNat + 84) = true := hTs.rd_k 84 (by decide) (by decide)
  have q_lt22 : pt.toNat + 88 < 2 ^ 32 := hTs.lt_k 88 (by decide)
  have q_al22 : (pt.toNat + 88) % 4 = 0 := hTs.al_k 88 (by decide)
  have q_rd22 : s.readable (pt.toNat + 88) = true := hTs.rd_k 88 (by decide) (by decide)
  have q_lt23 : pt.toNat + 92 < 2 ^ 32 := hTs.lt_k 92 (by decide)
  have q_al23 : (pt.toNat + 92) % 4 = 0 := hTs.al_k 92 (by decide)
  have q_rd23 : s.readable (pt.toNat + 92) = true := hTs.rd_k 92 (by decide) (by decide)
  simp only [OffStack] at hrs hts hps
  have hrs' : pr.toNat + 48 ≤ B.toNat ∨ B.toNat + 132 ≤ pr.toNat := by clear * - hrs hsp; omega
  have hts' : pt.toNat + 96 ≤ B.toNat ∨ B.toNat + 132 ≤ pt.toNat := by clear * - hts hsp; omega
  have hps' : pp.toNat + 48 ≤ B.toNat ∨ B.toNat + 132 ≤ pp.toNat := by clear * - hps hsp; omega
  have hdp : pp.toNat + 48 ≤ B.toNat ∨ B.toNat + 96 ≤ pp.toNat := by clear * - hps'; omega
  have hT24 : Span s.readable s.writable B.toNat 24 true := hS.sub 0 24 (by decide)
  have hT48 : Span s.readable s.writable (B + BitVec.ofNat 32 48).toNat 12 false := by
    rw [add_lit_toNat _ _ (by clear * - hBlt; omega)]; exact (hS.sub 12 12 (by decide)).weaken
  clear hrs hts hps hr ht hp hstk
  have hrs'' := Hide.mk hrs'
  have hts'' := Hide.mk hts'
  generalize hfin : run embedded_pairing_core_arch_armv6_m_fpbase_384_montgomery_reduce s 3567 = s'
  rw [run_fpbase_384_montgomery_reduce s hpc, State.eta s] at hfin
  simp only [Code.fpbase_384_montgomery_reduce, runL_append, hst, h0, h1, h2, h3, hB] at hfin
  generalize hst1 : runL [Instr.movHi .r1 .r8, Instr.movHi .r2 .r9] _ = st1 at hfin
  generalize hst2 : runL Code.montgomeryreduce384 st1 = st2 at hfin
  clear hrs'
  t1m_sym [Code.saveRegs, Code.copy24, Code.copy6] at hst1
  subst hst1
  obtain ⟨y0, y2, y3, y4, y5, y6, y7, y8, n1, z1, c1, v1, m2, M, mc, e2, f2, hM, hmc, w2⟩ := montgomeryreduce384_run' hst2 rfl rfl hP hT24 hdp
    (by dsimp only; rw [limbs32_congr s.mem _ pp.toNat 12 (fun i hi => by simp (disch := (clear * - hi hps'; omega)) only [setMem_ne])]; exact hinv)
  subst e2
  simp only [] at f2 w2 hfin
  rw [limbs32_congr s.mem _ pp.toNat 12 (fun i hi => by simp (disch := (clear * - hi hps'; omega)) only [setMem_ne])] at w2
  have eT : ∀ mm : Nat → Word, (∀ i, i < 24 → mm (B.toNat + 4 * i) = s.mem (pt.toNat + 4 * i)) → limbs32 mm B.toNat 24 = limbs32 s.mem pt.toNat 24 := by
    intro mm h; unfold limbs32; apply List.map_congr_left; intro i hi; rw [h i (by simpa using hi)]
  rw [eT _ (fun i hi => by
    have hc : i = 0 ∨ i = 1 ∨ i = 2 ∨ i = 3 ∨ i = 4 ∨ i = 5 ∨ i = 6 ∨ i = 7 ∨ i = 8 ∨ i = 9 ∨ i = 10 ∨ i = 11 ∨ i = 12 ∨ i = 13 ∨ i = 14 ∨ i = 15 ∨ i = 16 ∨ i = 17 ∨ i = 18 ∨ i = 19 ∨ i = 20 ∨ i = 21 ∨ i = 22 ∨ i = 23 := by clear * - hi; omega
    rcases hc with rfl | rfl | rfl | rfl | rfl | rfl | rfl | rfl | rfl | rfl | rfl | rfl | rfl | rfl | rfl | rfl | rfl | rfl | rfl | rfl | rfl | rfl | rfl | rfl <;> simp (disch := (clear * -; omega)) only [Nat.reduceMul, Nat.add_zero, setMem_eq, setMem_ne])] at w2
  rw [← e384] at hT h2P
  obtain ⟨hR2, hRM⟩ := mont_finish _ _ _ _ _ w2 hM hT h2P hmc
  obtain ⟨hlt, hmod⟩ := reduce_finish _ _ _ _ hR2 hRM
  have hPP : limbs32 m2 pp.toNat 12 = limbs32 s.mem pp.toNat 12 := limbs32_congr _ _ _ _ (fun i hi => by
    rw [f2 _ (by clear * - hi hdp; omega)]; simp (disch := (clear * - hi hps'; omega)) only [setMem_ne])
  clear w2 hRM hR2
  clear hts''
  have fm2 : ∀ k, ¬(B.toNat ≤ k ∧ k < B.toNat + 96) → m2 k = _ := f2
  have sv96 : m2 (B.toNat + 96) = s.r8 := by
    rw [f2 _ (by clear * -; omega)]; simp (disch := (clear * -; omega)) only [setMem_eq, setMem_ne]
  have sv100 : m2 (B.toNat + 100) = s.r9 := by
    rw [f2 _ (by clear * -; omega)]; simp (disch := (clear * -; omega)) only [setMem_eq, setMem_ne]
  have sv104 : m2 (B.toNat + 104) = s.r10 := by
    rw [f2 _ (by clear * -; omega)]; simp (disch := (clear * -; omega)) only [setMem_eq, setMem_ne]
  have sv108 : m2 (B.toNat + 108) = s.r11 := by
    rw [f2 _ (by clear * -; omega)]; simp (disch := (clear * -; omega)) only [setMem_eq, setMem_ne]
  have sv112 : m2 (B.toNat + 112) = s.r4 := by
    rw [f2 _ (by clear * -; omega)]; simp (disch := (clear * -; omega)) only [setMem_eq, setMem_ne]
  have sv116 : m2 (B.toNat + 116) = s.r5 := by
    rw [f2 _ (by clear * -; omega)]; simp (disch := (clear * -; omega)) only [setMem_eq, setMem_ne]
  have sv120 : m2 (B.toNat + 120) = s.r6 := by
    rw [f2 _ (by clear * -; omega)]; simp (disch := (clear * -; omega)) only [setMem_eq, setMem_ne]
  have sv124 : m2 (B.toNat + 124) = s.r7 := by
    rw [f2 _ (by clear * -; omega)]; simp (disch := (clear * -; omega)) only [setMem_eq, setMem_ne]
  have sv128 : m2 (B.toNat + 128) = s.lr := by
    rw [f2 _ (by clear * -; omega)]; simp (disch := (clear * -; omega)) only [setMem_eq, setMem_ne]
  t1m_sym [Code.montFinal, Code.restoreRegs, exec_bl_reduce_mk, writeList_words_ne, hPP, sv96, sv100, sv104, sv108, sv112, sv116, sv120, sv124, sv128, hlr] at hfin
  subst hfin
  have hrv : reduceVal (val (2 ^ 32) (limbs32 m2 (B.toNat + 48) 12)) (val (2 ^ 32) (limbs32 s.mem pp.toNat 12)) < (2 ^ 32) ^ 12 :=
    Nat.lt_trans hlt (limbs32_lt12 _ _)
  refine ⟨⟨rfl, rfl, hB.symm, rfl, rfl, rfl, rfl, rfl, rfl, rfl, rfl⟩, ?_, ?_, ?_, ?_⟩
  · simp only []
    rw [val_limbs32_writeList_words _ _ _ hrv]; exact hlt
  · simp only []
    rw [val_limbs32_writeList_words _ _ _ hrv]; exact hmod
  · intro k hk1 hk2
    simp only []
    rw [writeList_words_ne _ _ _ _ (by clear * - hk1; omega)]
    by_cases hk3 : B.toNat ≤ k ∧ k < B.toNat + 96
    · exfalso; clear * - hk2 hk3 hsp; omega
    · rw [f2 _ hk3]
      simp (disch := (clear * - hk2 hk3 hsp; omega)) only [setMem_ne]
  · simp only []
    rw [show s.sp.toNat - 132 = B.toNat by clear * - hsp; omega]


end Jedi.Thumb1
