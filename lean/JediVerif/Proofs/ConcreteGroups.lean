/-
Transport of the abstract-group scheme theorems (C11–C14, C16) to the concrete BLS12-381 groups and pairing.

1. `Tors b p` — the p-torsion points of the Spec curve y² = x³ + b (the Spec's own predicates `Pt.isOnCurve`,
   `Pt.smul p · = .inf`) — is an `AddCommGroup` whose operations ARE `Pt.add`, `Pt.neg`, `.inf`, `Pt.smul` (transported from
   Mathlib's group of points through `toPoint`, Proofs/CurveGroup.lean).  `G1c = Tors g1B r`, `G2c = Tors g2B r`, both of
   exponent r; `GTc = {a : Fq12 // a ^ r = 1}` is a `CommGroup` under the Spec's `*`, `⁻¹`, `^`.
2. the operation records the judge uses (`Driver.g1Ops`, `Driver.g2Ops`: `Pt.add`, `Pt.neg`, `.inf`, Jacobian `Pt.smulFast`)
   restricted to the groups (`g1OpsC`, `g2OpsC`) are `Wk.Lawful`.
3. the textbook pairing `ateSpec` maps G1c × G2c into GTc (C01c) — `eC`; it is `Wk.Bilinear` under the single named
   hypothesis `HBilinearFull` (additivity in each argument on the r-torsion); the `smul` forms (`C01.HBilinear`) are derived.
4. section `Hom`: every model function of Impl/WkdibeImpl.lean commutes with a homomorphism of operation records; with
   `Subtype.val : G1c → G1Pt` this identifies what the judge computes on RAW points with the image of the computation over the
   groups (section `Raw`), so that the theorems of C11–C14 can be stated about the raw computation (Properties/C11b…C14b).
-/
import JediVerif.Proofs.OrderR
import JediVerif.Proofs.GtCapstone
import JediVerif.Proofs.WkdibeProofs
import JediVerif.Properties.C01c
import JediVerif.Driver.Judge4

set_option linter.unusedSectionVars false
namespace Jedi
open WeierstrassCurve

section Tors
variable {K : Type} [Field K] [DecidableEq K] {b : K}

/-- membership in the p-torsion of y² = x³ + b (Spec predicates). -/
def InTors (b : K) (p : Nat) (P : Pt K) : Prop := Pt.isOnCurve b P = true ∧ Pt.smul p P = .inf

theorem Pt.smul_add_distrib' (hc : CurveHyp b) {P Q : Pt K} (hP : Pt.isOnCurve b P = true)
    (hQ : Pt.isOnCurve b Q = true) (n : Nat) :
    Pt.smul n (Pt.add P Q) = Pt.add (Pt.smul n P) (Pt.smul n Q) := by
  have hPQ := Pt.add_isOnCurve hc.two hP hQ
  have hnP := Pt.smul_isOnCurve hc.two hP n
  have hnQ := Pt.smul_isOnCurve hc.two hQ n
  refine toPoint_injective hc (hP := Pt.smul_isOnCurve hc.two hPQ n)
    (hQ := Pt.add_isOnCurve hc.two hnP hnQ) ?_
  rw [toPoint_smul hc hPQ, toPoint_add hc hP hQ, toPoint_add hc hnP hnQ, toPoint_smul hc hP,
    toPoint_smul hc hQ, nsmul_add]

theorem InTors.inf (b : K) (p : Nat) : InTors b p (Pt.inf : Pt K) := ⟨rfl, Pt.smul_inf' p⟩

theorem InTors.add (hc : CurveHyp b) {p : Nat} {P Q : Pt K} (hP : InTors b p P) (hQ : InTors b p Q) :
    InTors b p (Pt.add P Q) :=
  ⟨Pt.add_isOnCurve hc.two hP.1 hQ.1, by
    rw [Pt.smul_add_distrib' hc hP.1 hQ.1, hP.2, hQ.2]; rfl⟩

theorem InTors.neg (hc : CurveHyp b) {p : Nat} {P : Pt K} (hP : InTors b p P) : InTors b p (Pt.neg P) :=
  ⟨Pt.neg_isOnCurve hP.1, by rw [Pt.smul_neg' hc hP.1, hP.2]; rfl⟩

theorem InTors.smul (hc : CurveHyp b) {p : Nat} {P : Pt K} (hP : InTors b p P) (n : Nat) :
    InTors b p (Pt.smul n P) :=
  ⟨Pt.smul_isOnCurve hc.two hP.1 n, by
    rw [← Pt.smul_mul' hc hP.1, Nat.mul_comm, Pt.smul_mul' hc hP.1, hP.2, Pt.smul_inf']⟩

theorem InTors.smulFast (hc : CurveHyp b) {p : Nat} {P : Pt K} (hP : InTors b p P) (n : Nat) :
    InTors b p (Pt.smulFast n P) := by
  rw [smulFast_eq' hc.two hP.1]; exact hP.smul hc n

/-- the p-torsion points of the Spec curve, as a type. -/
abbrev Tors (b : K) (p : Nat) : Type := {P : Pt K // InTors b p P}

namespace Tors
variable {p : Nat}

theorem ext {a c : Tors b p} (h : a.1 = c.1) : a = c := Subtype.ext h

/-- into Mathlib's point group. -/
def toPt (hc : CurveHyp b) (a : Tors b p) : (W b).Point := toPoint hc a.1 a.2.1

theorem toPt_injective (hc : CurveHyp b) : Function.Injective (toPt hc : Tors b p → (W b).Point) :=
  fun _ _ h => Subtype.ext (toPoint_injective hc h)

/-- the abelian group structure of the p-torsion, transported from Mathlib's group of points: the operations ARE the Spec's
`Pt.add`, `Pt.neg`, `.inf`, `Pt.smul`. -/
@[reducible] def addCommGroup (hc : CurveHyp b) (p : Nat) : AddCommGroup (Tors b p) :=
  letI : Zero (Tors b p) := ⟨⟨.inf, InTors.inf b p⟩⟩
  letI : Add (Tors b p) := ⟨fun a c => ⟨Pt.add a.1 c.1, a.2.add hc c.2⟩⟩
  letI : Neg (Tors b p) := ⟨fun a => ⟨Pt.neg a.1, a.2.neg hc⟩⟩
  letI : Sub (Tors b p) := ⟨fun a c => ⟨Pt.add a.1 (Pt.neg c.1), a.2.add hc (c.2.neg hc)⟩⟩
  letI : SMul ℕ (Tors b p) := ⟨fun n a => ⟨Pt.smul n a.1, a.2.smul hc n⟩⟩
  letI : SMul ℤ (Tors b p) := ⟨fun z a =>
    match z with
    | .ofNat n => ⟨Pt.smul n a.1, a.2.smul hc n⟩
    | .negSucc n => ⟨Pt.neg (Pt.smul (n + 1) a.1), (a.2.smul hc (n + 1)).neg hc⟩⟩
  Function.Injective.addCommGroup (toPt hc) (toPt_injective hc) rfl
    (fun a c => toPoint_add hc a.2.1 c.2.1 _)
    (fun a => toPoint_neg hc a.2.1 _)
    (fun a c => by
      show toPoint hc (Pt.add a.1 (Pt.neg c.1)) _ = _
      rw [toPoint_add hc a.2.1 (Pt.neg_isOnCurve c.2.1), toPoint_neg hc c.2.1, sub_eq_add_neg]; rfl)
    (fun a n => toPoint_smul hc a.2.1 n _)
    (fun a z => by
      cases z with
      | ofNat n =>
        show toPoint hc (Pt.smul n a.1) _ = _
        rw [toPoint_smul hc a.2.1]; exact (natCast_zsmul _ n).symm
      | negSucc n =>
        show toPoint hc (Pt.neg (Pt.smul (n + 1) a.1)) _ = _
        rw [toPoint_neg hc (Pt.smul_isOnCurve hc.two a.2.1 (n + 1)), toPoint_smul hc a.2.1, negSucc_zsmul]; rfl)

end Tors
end Tors

/-! ## the concrete groups of BLS12-381 -/
section Concrete
open Jedi.Wk Jedi.GtCapstone

/-- G1: the points of y² = x³ + 4 over Fq killed by r (the Spec's own predicates). -/
abbrev G1c : Type := Tors g1B r
/-- G2: the points of the twist y² = x³ + 4(1+u) over Fq2 killed by r. -/
abbrev G2c : Type := Tors g2B r

instance : AddCommGroup G1c := Tors.addCommGroup curveHyp_g1 r
instance : AddCommGroup G2c := Tors.addCommGroup curveHyp_g2 r

/-- the operations of the groups are the Spec's operations on the underlying points (all by `rfl`). -/
theorem G1c.add_val (a c : G1c) : (a + c).1 = Pt.add a.1 c.1 := rfl
theorem G1c.neg_val (a : G1c) : (-a).1 = Pt.neg a.1 := rfl
theorem G1c.zero_val : (0 : G1c).1 = Pt.inf := rfl
theorem G1c.nsmul_val (n : Nat) (a : G1c) : (n • a).1 = Pt.smul n a.1 := rfl
theorem G1c.sub_val (a c : G1c) : (a - c).1 = Pt.add a.1 (Pt.neg c.1) := rfl
theorem G2c.add_val (a c : G2c) : (a + c).1 = Pt.add a.1 c.1 := rfl
theorem G2c.neg_val (a : G2c) : (-a).1 = Pt.neg a.1 := rfl
theorem G2c.zero_val : (0 : G2c).1 = Pt.inf := rfl
theorem G2c.nsmul_val (n : Nat) (a : G2c) : (n • a).1 = Pt.smul n a.1 := rfl
theorem G2c.sub_val (a c : G2c) : (a - c).1 = Pt.add a.1 (Pt.neg c.1) := rfl

theorem G1c.ext {a c : G1c} (h : a.1 = c.1) : a = c := Subtype.ext h
theorem G2c.ext {a c : G2c} (h : a.1 = c.1) : a = c := Subtype.ext h

/-- both groups have exponent r. -/
theorem G1c.expR : ExpR G1c := fun x => G1c.ext x.2.2
theorem G2c.expR : ExpR G2c := fun x => G2c.ext x.2.2

/-- the operation records the judge uses (`Driver.g1Ops`, `Driver.g2Ops`: affine chord-and-tangent addition, Jacobian
double-and-add `Pt.smulFast`), on raw points … -/
example : Driver.g1Ops = { add := Pt.add, neg := Pt.neg, zero := .inf, smul := Pt.smulFast } := rfl
example : Driver.g2Ops = { add := Pt.add, neg := Pt.neg, zero := .inf, smul := Pt.smulFast } := rfl

/-- … and restricted to the groups. -/
def g1OpsC : GroupOps G1c :=
  { add := fun a c => ⟨Pt.add a.1 c.1, a.2.add curveHyp_g1 c.2⟩, neg := fun a => ⟨Pt.neg a.1, a.2.neg curveHyp_g1⟩,
    zero := ⟨.inf, InTors.inf _ _⟩, smul := fun n a => ⟨Pt.smulFast n a.1, a.2.smulFast curveHyp_g1 n⟩ }
def g2OpsC : GroupOps G2c :=
  { add := fun a c => ⟨Pt.add a.1 c.1, a.2.add curveHyp_g2 c.2⟩, neg := fun a => ⟨Pt.neg a.1, a.2.neg curveHyp_g2⟩,
    zero := ⟨.inf, InTors.inf _ _⟩, smul := fun n a => ⟨Pt.smulFast n a.1, a.2.smulFast curveHyp_g2 n⟩ }

theorem g1OpsC_lawful : Lawful g1OpsC :=
  ⟨fun _ _ => rfl, fun _ => rfl, rfl, fun n a => G1c.ext (smulFast_eq' curveHyp_g1.two a.2.1 n)⟩
theorem g2OpsC_lawful : Lawful g2OpsC :=
  ⟨fun _ _ => rfl, fun _ => rfl, rfl, fun n a => G2c.ext (smulFast_eq' curveHyp_g2.two a.2.1 n)⟩

/-! ### GT -/

/-- GT: the r-th roots of unity of Fq12. -/
abbrev GTc : Type := {a : Fq12 // a ^ r = 1}

theorem GTc.ext {a c : GTc} (h : a.1 = c.1) : a = c := Subtype.ext h

instance : Mul GTc := ⟨fun a c => ⟨a.1 * c.1, IsGT.mul a.2 c.2⟩⟩
instance : One GTc := ⟨⟨1, isGT_one⟩⟩
instance : Inv GTc := ⟨fun a => ⟨a.1⁻¹, by rw [inv_pow, a.2, inv_one]⟩⟩
instance : Pow GTc Nat := ⟨fun a n => ⟨a.1 ^ n, IsGT.pow a.2 n⟩⟩

theorem GTc.mul_val (a c : GTc) : (a * c).1 = a.1 * c.1 := rfl
theorem GTc.one_val : (1 : GTc).1 = 1 := rfl
theorem GTc.inv_val (a : GTc) : (a⁻¹).1 = a.1⁻¹ := rfl
theorem GTc.pow_val (a : GTc) (n : Nat) : (a ^ n).1 = a.1 ^ n := rfl

instance : CommGroup GTc where
  npow n a := a ^ n
  npow_zero a := GTc.ext (pow_zero a.1)
  npow_succ n a := GTc.ext (pow_succ a.1 n)
  mul_assoc a c d := GTc.ext (mul_assoc a.1 c.1 d.1)
  one_mul a := GTc.ext (one_mul a.1)
  mul_one a := GTc.ext (mul_one a.1)
  mul_comm a c := GTc.ext (mul_comm a.1 c.1)
  inv_mul_cancel a := by
    have h0 : a.1 ≠ 0 := IsGT.ne_zero a.2
    have h : a.1⁻¹ * a.1 = 1 := by rw [inv_mul_cancel₀ h0]
    exact GTc.ext h

theorem GTc.npow_val (a : GTc) (n : Nat) : (a ^ n).1 = npow a.1 n := (npow_eq_pow a.1 n).symm
theorem GTc.pow_r (a : GTc) : a ^ r = 1 := GTc.ext a.2

/-! ### the pairing on the groups -/

theorem ateSpec_inf_left (Q : G2Pt) : ateSpec .inf Q = 1 := rfl
theorem ateSpec_inf_right (P : G1Pt) : ateSpec P .inf = 1 := by cases P <;> rfl

/-- the textbook pairing of a point of G1 and a point of G2 is an r-th root of unity (C01c). -/
theorem ateSpec_pow_r {P : G1Pt} {Q : G2Pt} (hP : InTors g1B r P) (hQ : InTors g2B r Q) : ateSpec P Q ^ r = 1 := by
  cases P with
  | inf => rw [ateSpec_inf_left]; exact one_pow r
  | aff x y =>
    cases Q with
    | inf => rw [ateSpec_inf_right]; exact one_pow r
    | aff x' y' => exact C01.textbook_pow_r ⟨x, y, false⟩ ⟨x', y', false⟩ (fun _ => hP) (fun _ => hQ)

/-- the concrete pairing G1c × G2c → GTc: the Spec's `ateSpec` on the underlying points. -/
def eC (a : G1c) (c : G2c) : GTc := ⟨ateSpec a.1 c.1, ateSpec_pow_r a.2 c.2⟩

theorem eC_val (a : G1c) (c : G2c) : (eC a c).1 = ateSpec a.1 c.1 := rfl

/-- **H-bilinear, full form**: the textbook function is additive in each argument on the r-torsion groups.  This is the ONLY
pairing fact assumed anywhere below (a hypothesis, never an axiom). -/
structure HBilinearFull : Prop where
  add_left : ∀ (P P' : G1Pt) (Q : G2Pt), InTors g1B r P → InTors g1B r P' → InTors g2B r Q →
    ateSpec (Pt.add P P') Q = ateSpec P Q * ateSpec P' Q
  add_right : ∀ (P : G1Pt) (Q Q' : G2Pt), InTors g1B r P → InTors g2B r Q → InTors g2B r Q' →
    ateSpec P (Pt.add Q Q') = ateSpec P Q * ateSpec P Q'

/-- under `HBilinearFull` the concrete pairing is `Bilinear` in the sense of the scheme theorems. -/
theorem eC_bilinear (H : HBilinearFull) : Bilinear eC :=
  ⟨fun a c d => GTc.ext (H.add_left a.1 c.1 d.1 a.2 c.2 d.2), fun a c d => GTc.ext (H.add_right a.1 c.1 d.1 a.2 c.2 d.2)⟩

/-- the `smul` forms (the named hypothesis `C01.HBilinear` of C01c) are DERIVED from additivity. -/
theorem HBilinearFull.toHBilinear (H : HBilinearFull) : C01.HBilinear where
  smul_left a P Q hP hPr hQ hQr := by
    have h := (eC_bilinear H).nsmul_left a (⟨P, hP, hPr⟩ : G1c) (⟨Q, hQ, hQr⟩ : G2c)
    exact congrArg Subtype.val h
  smul_right b P Q hP hPr hQ hQr := by
    have h := (eC_bilinear H).nsmul_right b (⟨P, hP, hPr⟩ : G1c) (⟨Q, hQ, hQr⟩ : G2c)
    exact congrArg Subtype.val h

/-- conversely, the `smul` forms give additivity as soon as the two groups are cyclic (generated by the published
generators; true for BLS12-381, a point-counting fact not available here — kept as explicit hypotheses). -/
theorem HBilinearFull.of_cyclic (H : C01.HBilinear)
    (c1 : ∀ P : G1Pt, InTors g1B r P → ∃ k : Nat, P = Pt.smul k g1Gen)
    (c2 : ∀ Q : G2Pt, InTors g2B r Q → ∃ k : Nat, Q = Pt.smul k g2Gen) : HBilinearFull where
  add_left P P' Q hP hP' hQ := by
    obtain ⟨k, rfl⟩ := c1 P hP
    obtain ⟨k', rfl⟩ := c1 P' hP'
    rw [← Pt.smul_add' curveHyp_g1 g1Gen_isOnCurve, H.smul_left _ _ _ g1Gen_isOnCurve g1Gen_smul_r hQ.1 hQ.2,
      H.smul_left _ _ _ g1Gen_isOnCurve g1Gen_smul_r hQ.1 hQ.2, H.smul_left _ _ _ g1Gen_isOnCurve g1Gen_smul_r hQ.1 hQ.2,
      pow_add]
  add_right P Q Q' hP hQ hQ' := by
    obtain ⟨k, rfl⟩ := c2 Q hQ
    obtain ⟨k', rfl⟩ := c2 Q' hQ'
    rw [← Pt.smul_add' curveHyp_g2 g2Gen_isOnCurve, H.smul_right _ _ _ hP.1 hP.2 g2Gen_isOnCurve g2Gen_smul_r,
      H.smul_right _ _ _ hP.1 hP.2 g2Gen_isOnCurve g2Gen_smul_r, H.smul_right _ _ _ hP.1 hP.2 g2Gen_isOnCurve g2Gen_smul_r,
      pow_add]

/-! ### non-vacuity: the published generators are elements -/
def g1GenC : G1c := ⟨g1Gen, g1Gen_isOnCurve, g1Gen_smul_r⟩
def g2GenC : G2c := ⟨g2Gen, g2Gen_isOnCurve, g2Gen_smul_r⟩
theorem g1GenC_ne_zero : g1GenC ≠ 0 := fun h => by have := congrArg Subtype.val h; cases this
theorem g2GenC_ne_zero : g2GenC ≠ 0 := fun h => by have := congrArg Subtype.val h; cases this

/-- the implementation model of the pairing (Impl/Miller.lean, tied to pairing.cpp by the judge) computes `eC` on any
C++-style representatives of group elements (C01c). -/
theorem impl_pairing_eq_eC (a : G1c) (c : G2c) (P : Aff Fq) (Q : Aff Fq2) (hP : P.toPt = a.1) (hQ : Q.toPt = c.1) :
    Impl.pairing P Q = (eC a c).1 := by
  rw [eC_val, ← hP, ← hQ]
  refine C01.pairing_is_optimal_ate P Q fun hq => ?_
  have e : Q.toPt = .aff Q.x Q.y := by simp [Aff.toPt, hq]
  rw [← e, hQ]; exact c.2

example : (eC g1GenC g2GenC).1 = ateSpec g1Gen g2Gen := eC_val g1GenC g2GenC
example : r • g1GenC = 0 := G1c.expR g1GenC
example (n m : Nat) : (n • g1GenC + m • g1GenC).1 = Pt.add (Pt.smul n g1Gen) (Pt.smul m g1Gen) := rfl

end Concrete
end Jedi
namespace Jedi.Wk

/-! ## Homomorphic images of the model functions -/
section Hom
variable {G G' : Type}

/-- `f` carries the operations of `o` to those of `o'`. -/
structure OpsHom (o : GroupOps G) (o' : GroupOps G') (f : G → G') : Prop where
  add : ∀ a b, f (o.add a b) = o'.add (f a) (f b)
  neg : ∀ a, f (o.neg a) = o'.neg (f a)
  zero : f o.zero = o'.zero
  smul : ∀ (n : Nat) a, f (o.smul n a) = o'.smul n (f a)

variable {G1 G1' G2 G2' GT GT' : Type}

def mapB (f1 : G1 → G1') (b : List (Nat × G1)) : List (Nat × G1') := b.map fun p => (p.1, f1 p.2)

@[simp] theorem mapB_nil (f1 : G1 → G1') : mapB f1 [] = [] := rfl
@[simp] theorem mapB_cons (f1 : G1 → G1') (i : Nat) (x : G1) (b : List (Nat × G1)) :
    mapB f1 ((i, x) :: b) = (i, f1 x) :: mapB f1 b := rfl
@[simp] theorem mapB_reverse (f1 : G1 → G1') (b : List (Nat × G1)) : mapB f1 b.reverse = (mapB f1 b).reverse := by
  simp [mapB]
@[simp] theorem mapB_length (f1 : G1 → G1') (b : List (Nat × G1)) : (mapB f1 b).length = b.length := by
  simp [mapB]

def Params.map (f1 : G1 → G1') (f2 : G2 → G2') (fT : GT → GT') (pp : Params G1 G2 GT) : Params G1' G2' GT' :=
  { g := f2 pp.g, g1 := f2 pp.g1, g2 := f1 pp.g2, g3 := f1 pp.g3, pairing := fT pp.pairing, hsig := f1 pp.hsig,
    signatures := pp.signatures, h := pp.h.map f1 }

def SecretKey.map (f1 : G1 → G1') (f2 : G2 → G2') (sk : SecretKey G1 G2) : SecretKey G1' G2' :=
  { a0 := f1 sk.a0, a1 := f2 sk.a1, signatures := sk.signatures, bsig := f1 sk.bsig, b := mapB f1 sk.b }

variable {o1 : GroupOps G1} {o1' : GroupOps G1'} {o2 : GroupOps G2} {o2' : GroupOps G2'}
variable {f1 : G1 → G1'} {f2 : G2 → G2'} {fT : GT → GT'}

theorem getD_map_zero (h1 : OpsHom o1 o1' f1) (H : List G1) (i : Nat) :
    (H.map f1).getD i o1'.zero = f1 (H.getD i o1.zero) := by
  simp [List.getD, List.getElem?_map, ← h1.zero]

theorem keygenLoop_map (h1 : OpsHom o1 o1' f1) (rr : Nat) (om : Bool) :
    ∀ (H : List G1) (i : Nat) (attrs : List Attr) (a0 : G1) (b : List (Nat × G1)),
      keygenLoop o1' rr om i (H.map f1) attrs (f1 a0) (mapB f1 b)
        = (f1 (keygenLoop o1 rr om i H attrs a0 b).1, mapB f1 (keygenLoop o1 rr om i H attrs a0 b).2) := by
  intro H
  induction H with
  | nil => intro i attrs a0 b; simp [keygenLoop]
  | cons hi hs ih =>
    intro i attrs a0 b
    cases attrs with
    | nil =>
      simp only [List.map_cons, keygenLoop]
      split
      · rw [← ih, mapB_cons, h1.smul]
      · rw [← ih]
    | cons a rest =>
      simp only [List.map_cons, keygenLoop]
      split
      · rw [← ih]; split <;> simp [h1.add, h1.smul]
      · split
        · rw [← ih, mapB_cons, h1.smul]
        · rw [← ih]

theorem keygen_map (h1 : OpsHom o1 o1' f1) (h2 : OpsHom o2 o2' f2) (pp : Params G1 G2 GT) (g2alpha : G1)
    (al : AttrList) (rr : Nat) :
    keygen o1' o2' (pp.map f1 f2 fT) (f1 g2alpha) al rr = (keygen o1 o2 pp g2alpha al rr).map f1 f2 := by
  have h := keygenLoop_map h1 rr al.omitAll pp.h 0 al.attrs pp.g3 []
  simp only [keygen, Params.map, SecretKey.map, mapB_nil] at h ⊢
  rw [h]
  simp only [h1.add, h1.smul, h2.smul, h1.zero, apply_ite f1]
  rfl

theorem ndKeygenLoop_map (h1 : OpsHom o1 o1' f1) (om : Bool) :
    ∀ (H : List G1) (i : Nat) (attrs : List Attr) (a0 : G1) (b : List (Nat × G1)),
      ndKeygenLoop o1' om i (H.map f1) attrs (f1 a0) (mapB f1 b)
        = (f1 (ndKeygenLoop o1 om i H attrs a0 b).1, mapB f1 (ndKeygenLoop o1 om i H attrs a0 b).2) := by
  intro H
  induction H with
  | nil => intro i attrs a0 b; simp [ndKeygenLoop]
  | cons hi hs ih =>
    intro i attrs a0 b
    cases attrs with
    | nil =>
      simp only [List.map_cons, ndKeygenLoop]
      split
      · rw [← ih, mapB_cons]
      · rw [← ih]
    | cons a rest =>
      simp only [List.map_cons, ndKeygenLoop]
      split
      · rw [← ih]; split <;> simp [h1.add, h1.smul]
      · split
        · rw [← ih, mapB_cons]
        · rw [← ih]

theorem ndKeygen_map (h1 : OpsHom o1 o1' f1) (pp : Params G1 G2 GT) (g2alpha : G1) (al : AttrList) :
    ndKeygen o1' (pp.map f1 f2 fT) (f1 g2alpha) al = (ndKeygen o1 pp g2alpha al).map f1 f2 := by
  have h := ndKeygenLoop_map h1 al.omitAll pp.h 0 al.attrs pp.g3 []
  simp only [ndKeygen, Params.map, SecretKey.map, mapB_nil] at h ⊢
  rw [h]
  simp only [h1.add, h1.zero, apply_ite f1]
  rfl

theorem qualifyLoop_map (h1 : OpsHom o1 o1' f1) (t : Nat) (om : Bool) :
    ∀ (H : List G1) (i : Nat) (attrs : List Attr) (skb : List (Nat × G1)) (product a0 : G1) (b : List (Nat × G1)),
      qualifyLoop o1' t om i (H.map f1) attrs (mapB f1 skb) (f1 product) (f1 a0) (mapB f1 b)
        = (f1 (qualifyLoop o1 t om i H attrs skb product a0 b).1,
           f1 (qualifyLoop o1 t om i H attrs skb product a0 b).2.1,
           mapB f1 (qualifyLoop o1 t om i H attrs skb product a0 b).2.2) := by
  intro H
  induction H with
  | nil => intro i attrs skb product a0 b; simp [qualifyLoop]
  | cons hi hs ih =>
    intro i attrs skb product a0 b
    cases attrs with
    | nil =>
      cases skb with
      | nil => simp only [List.map_cons, mapB_nil, qualifyLoop]; rw [← ih]; rfl
      | cons p skb' =>
        obtain ⟨j, bx⟩ := p
        simp only [List.map_cons, mapB_cons, qualifyLoop]
        split
        · split
          · rw [← ih, mapB_cons, h1.add, h1.smul]
          · rw [← ih]
        · rw [← ih, mapB_cons]
    | cons a rest =>
      cases skb with
      | nil =>
        simp only [List.map_cons, mapB_nil, qualifyLoop]
        split
        · split
          · rw [← ih, h1.add, h1.smul]; rfl
          · simp only [Bool.false_eq_true, if_false]; rw [← ih]; rfl
        · rw [← ih]; rfl
      | cons p skb' =>
        obtain ⟨j, bx⟩ := p
        simp only [List.map_cons, mapB_cons, qualifyLoop]
        split
        · split
          · split
            · rw [← ih, h1.add, h1.smul, h1.add, h1.smul]
            · rw [← ih, h1.add, h1.smul, mapB_cons]
          · split
            · simp only [List.drop_succ_cons, List.drop_zero]; rw [← ih]
            · rw [← ih, mapB_cons]
        · split
          · split
            · rw [← ih, mapB_cons, h1.add, h1.smul]
            · rw [← ih]
          · rw [← ih, mapB_cons]

theorem qualifykey_map (h1 : OpsHom o1 o1' f1) (h2 : OpsHom o2 o2' f2) (pp : Params G1 G2 GT)
    (sk : SecretKey G1 G2) (al : AttrList) (t : Nat) :
    qualifykey o1' o2' (pp.map f1 f2 fT) (sk.map f1 f2) al t = (qualifykey o1 o2 pp sk al t).map f1 f2 := by
  have h := qualifyLoop_map h1 t al.omitAll pp.h 0 al.attrs sk.b pp.g3 sk.a0 []
  simp only [qualifykey, Params.map, SecretKey.map, mapB_nil] at h ⊢
  rw [h]
  simp only [h1.add, h1.smul, h2.add, h2.smul, h1.zero, apply_ite f1]
  rfl

theorem ndQualifyLoop_map (h1 : OpsHom o1 o1' f1) (om : Bool) :
    ∀ (fuel i : Nat) (attrs : List Attr) (skb : List (Nat × G1)) (a0 : G1) (b : List (Nat × G1)),
      ndQualifyLoop o1' om fuel i attrs (mapB f1 skb) (f1 a0) (mapB f1 b)
        = (f1 (ndQualifyLoop o1 om fuel i attrs skb a0 b).1, mapB f1 (ndQualifyLoop o1 om fuel i attrs skb a0 b).2) := by
  intro fuel
  induction fuel with
  | zero => intro i attrs skb a0 b; simp [ndQualifyLoop]
  | succ fuel ih =>
    intro i attrs skb a0 b
    cases skb with
    | nil => simp [ndQualifyLoop]
    | cons p skb' =>
      obtain ⟨j, bx⟩ := p
      cases attrs with
      | nil =>
        simp only [mapB_cons, ndQualifyLoop]
        split
        · split
          · rw [← ih, mapB_cons]
          · rw [← ih]
        · rw [← ih, mapB_cons]
      | cons a rest =>
        simp only [mapB_cons, ndQualifyLoop]
        split
        · split
          · rw [← ih]; split <;> simp [h1.add, h1.smul]
          · rw [← ih, mapB_cons]
        · split
          · split
            · rw [← ih, mapB_cons]
            · rw [← ih]
          · rw [← ih, mapB_cons]

theorem ndQualifykey_map (h1 : OpsHom o1 o1' f1) (l : Nat) (sk : SecretKey G1 G2) (al : AttrList) :
    ndQualifykey o1' l (sk.map f1 f2) al = (ndQualifykey o1 l sk al).map f1 f2 := by
  have h := ndQualifyLoop_map h1 al.omitAll l 0 al.attrs sk.b sk.a0 []
  simp only [ndQualifykey, SecretKey.map, mapB_nil] at h ⊢
  rw [h]
  simp only [h1.zero, apply_ite f1]
  rfl

theorem adjustNdLoop_map (h1 : OpsHom o1 o1' f1) (tom : Bool) :
    ∀ (ps : List (Nat × G1)) (from_ to_ : List Attr) (a0 : G1) (b : List (Nat × G1)),
      adjustNdLoop o1' tom (mapB f1 ps) from_ to_ (f1 a0) (mapB f1 b)
        = (f1 (adjustNdLoop o1 tom ps from_ to_ a0 b).1, mapB f1 (adjustNdLoop o1 tom ps from_ to_ a0 b).2) := by
  intro ps
  induction ps with
  | nil => intro from_ to_ a0 b; simp [adjustNdLoop]
  | cons p ps ih =>
    intro from_ to_ a0 b
    obtain ⟨idx, hexp⟩ := p
    simp only [mapB_cons, adjustNdLoop]
    rw [← ih]
    congr 1
    · split <;> simp only [apply_ite f1, h1.add, h1.smul]
    · simp only [apply_ite (mapB f1), mapB_cons]

theorem adjustNondelegable_map (h1 : OpsHom o1 o1' f1) (sk parent : SecretKey G1 G2) (from_ to_ : AttrList) :
    adjustNondelegable o1' (sk.map f1 f2) (parent.map f1 f2) from_ to_
      = (adjustNondelegable o1 sk parent from_ to_).map f1 f2 := by
  have h := adjustNdLoop_map h1 to_.omitAll parent.b from_.attrs to_.attrs sk.a0 []
  simp only [adjustNondelegable, SecretKey.map, mapB_nil] at h ⊢
  rw [h]

theorem foldl_hom {α : Type} (g : G1 → α → G1) (g' : G1' → α → G1') (hg : ∀ acc x, f1 (g acc x) = g' (f1 acc) x) :
    ∀ (l : List α) (init : G1), f1 (l.foldl g init) = l.foldl g' (f1 init) := by
  intro l
  induction l with
  | nil => intro init; rfl
  | cons x l ih => intro init; simp only [List.foldl_cons]; rw [ih, hg]

theorem listProduct_map (h1 : OpsHom o1 o1' f1) (pp : Params G1 G2 GT) (al : AttrList) :
    listProduct o1' (pp.map f1 f2 fT) al = f1 (listProduct o1 pp al) := by
  unfold listProduct
  rw [foldl_hom (f1 := f1) _ (fun acc a => o1'.add acc (o1'.smul a.id ((pp.map f1 f2 fT).h.getD a.idx o1'.zero)))]
  · rfl
  · intro acc a
    rw [h1.add, h1.smul]
    simp only [Params.map, getD_map_zero h1]

theorem precompute_map (h1 : OpsHom o1 o1' f1) (pp : Params G1 G2 GT) (al : AttrList) :
    precompute o1' (pp.map f1 f2 fT) al = f1 (precompute o1 pp al) := listProduct_map h1 pp al

theorem patternProduct_map (h1 : OpsHom o1 o1' f1) (pp : Params G1 G2 GT) (π : List Slot) :
    patternProduct o1' (pp.map f1 f2 fT) π = f1 (patternProduct o1 pp π) := by
  unfold patternProduct
  rw [foldl_hom (f1 := f1) _ (fun acc i => match π.getD i .free with
    | .fixed v => o1'.add acc (o1'.smul v ((pp.map f1 f2 fT).h.getD i o1'.zero))
    | _ => acc)]
  · rfl
  · intro acc i
    cases hπ : π.getD i Slot.free <;> simp only [h1.add, h1.smul, Params.map, getD_map_zero h1]

theorem canon_map (h1 : OpsHom o1 o1' f1) (h2 : OpsHom o2 o2' f2) (pp : Params G1 G2 GT) (g2alpha : G1)
    (π : List Slot) (ρ : Nat) :
    canon o1' o2' (pp.map f1 f2 fT) (f1 g2alpha) π ρ = (canon o1 o2 pp g2alpha π ρ).map f1 f2 := by
  simp only [canon, SecretKey.map, patternProduct_map h1, h1.add, h1.smul, h2.smul, apply_ite f1, h1.zero, mapB,
    List.map_filterMap]
  congr 1
  apply List.filterMap_congr
  intro i _
  cases hπ : π.getD i Slot.free <;> simp only [Params.map, getD_map_zero h1, h1.smul, Option.map_some, Option.map_none]

theorem adjustPreLoop_map (h1 : OpsHom o1 o1' f1) (H : List G1) :
    ∀ (fuel : Nat) (fs ts : List Attr) (acc : G1),
      adjustPreLoop o1' (H.map f1) fuel fs ts (f1 acc) = f1 (adjustPreLoop o1 H fuel fs ts acc) := by
  intro fuel
  induction fuel with
  | zero => intro fs ts acc; simp [adjustPreLoop]
  | succ fuel ih =>
    intro fs ts acc
    cases fs with
    | nil =>
      cases ts with
      | nil => simp [adjustPreLoop]
      | cons t ts => simp only [adjustPreLoop]; rw [← ih, h1.add, h1.smul, getD_map_zero h1]
    | cons f fs =>
      cases ts with
      | nil => simp only [adjustPreLoop]; rw [← ih, h1.add, h1.smul, getD_map_zero h1]
      | cons t ts =>
        simp only [adjustPreLoop]
        split
        · split
          · rw [← ih]
          · rw [← ih, h1.add, h1.smul, getD_map_zero h1]
        · split
          · rw [← ih, h1.add, h1.smul, getD_map_zero h1]
          · rw [← ih, h1.add, h1.smul, getD_map_zero h1]

theorem adjustPrecomputed_map (h1 : OpsHom o1 o1' f1) (pp : Params G1 G2 GT) (pre : G1) (from_ to_ : AttrList) :
    adjustPrecomputed o1' (pp.map f1 f2 fT) (f1 pre) from_ to_ = f1 (adjustPrecomputed o1 pp pre from_ to_) :=
  adjustPreLoop_map h1 pp.h _ _ _ _

theorem resamplekey_map (h1 : OpsHom o1 o1' f1) (h2 : OpsHom o2 o2' f2) (pp : Params G1 G2 GT) (pre : G1)
    (sk : SecretKey G1 G2) (further : Bool) (t : Nat) :
    resamplekey o1' o2' (pp.map f1 f2 fT) (f1 pre) (sk.map f1 f2) further t
      = (resamplekey o1 o2 pp pre sk further t).map f1 f2 := by
  simp only [resamplekey, SecretKey.map, Params.map, h1.add, h1.smul, h2.add, h2.smul, apply_ite f1, h1.zero,
    mapB, List.map_map, getD_map_zero h1]
  congr 1
  cases further <;> simp [Function.comp_def, h1.add, h1.smul]

theorem signLoop_map (h1 : OpsHom o1 o1' f1) :
    ∀ (bs : List (Nat × G1)) (attrs : List Attr) (a0 : G1),
      signLoop o1' (mapB f1 bs) attrs (f1 a0) = f1 (signLoop o1 bs attrs a0) := by
  intro bs
  induction bs with
  | nil => intro attrs a0; simp [signLoop]
  | cons p bs ih =>
    intro attrs a0
    obtain ⟨idx, bx⟩ := p
    simp only [mapB_cons, signLoop]
    split
    · rfl
    · split
      · rw [← ih, h1.add, h1.smul]
      · rw [← ih]

theorem signPrecomputed_map (h1 : OpsHom o1 o1' f1) (h2 : OpsHom o2 o2' f2) (pp : Params G1 G2 GT)
    (sk : SecretKey G1 G2) (attrs : Option AttrList) (pre : G1) (msg s : Nat) :
    signPrecomputed o1' o2' (pp.map f1 f2 fT) (sk.map f1 f2) attrs (f1 pre) msg s
      = (f1 (signPrecomputed o1 o2 pp sk attrs pre msg s).1, f2 (signPrecomputed o1 o2 pp sk attrs pre msg s).2) := by
  cases attrs with
  | none => simp only [signPrecomputed, SecretKey.map, Params.map, h1.add, h1.smul, h2.add, h2.smul]
  | some al =>
    simp only [signPrecomputed, SecretKey.map, Params.map, h2.add, h2.smul]
    rw [← signLoop_map h1]
    simp only [h1.add, h1.smul]

def KeyState.map (f1 : G1 → G1') (f2 : G2 → G2') (st : KeyState G1 G2) : KeyState G1' G2' :=
  ⟨st.sk.map f1 f2, st.π, st.ρ⟩

@[simp] theorem KeyState.map_π (st : KeyState G1 G2) : (st.map f1 f2).π = st.π := rfl
@[simp] theorem KeyState.map_ρ (st : KeyState G1 G2) : (st.map f1 f2).ρ = st.ρ := rfl
@[simp] theorem KeyState.map_sk (st : KeyState G1 G2) : (st.map f1 f2).sk = st.sk.map f1 f2 := rfl
@[simp] theorem Params.map_h_length (pp : Params G1 G2 GT) : (pp.map f1 f2 fT).h.length = pp.h.length := by
  simp [Params.map]

theorem Start.run_map (h1 : OpsHom o1 o1' f1) (h2 : OpsHom o2 o2' f2) (pp : Params G1 G2 GT) (g2alpha : G1)
    (l : Nat) (s : Start) :
    s.run o1' o2' (pp.map f1 f2 fT) (f1 g2alpha) l = (s.run o1 o2 pp g2alpha l).map f1 f2 := by
  cases s with
  | keygen al ρ => simp only [Start.run, KeyState.map, keygen_map h1 h2]
  | ndKeygen al => simp only [Start.run, KeyState.map, ndKeygen_map h1]

theorem Step.run_map (h1 : OpsHom o1 o1' f1) (h2 : OpsHom o2 o2' f2) (pp : Params G1 G2 GT)
    (st : KeyState G1 G2) (s : Step) :
    s.run o1' o2' (pp.map f1 f2 fT) (st.map f1 f2) = (s.run o1 o2 pp st).map f1 f2 := by
  cases s with
  | qualify al t => simp only [Step.run, KeyState.map, qualifykey_map h1 h2]
  | ndQualify al => simp only [Step.run, KeyState.map, ndQualifykey_map h1]
  | ndAdjust f t => simp only [Step.run, KeyState.map, ndQualifykey_map h1, adjustNondelegable_map h1]
  | resample al further t => simp only [Step.run, KeyState.map, precompute_map h1, resamplekey_map h1 h2]

theorem runSteps_map (h1 : OpsHom o1 o1' f1) (h2 : OpsHom o2 o2' f2) (pp : Params G1 G2 GT) :
    ∀ (steps : List Step) (st : KeyState G1 G2),
      runSteps o1' o2' (pp.map f1 f2 fT) (st.map f1 f2) steps = (runSteps o1 o2 pp st steps).map f1 f2 := by
  intro steps
  induction steps with
  | nil => intro st; rfl
  | cons s ss ih => intro st; simp only [runSteps]; rw [Step.run_map h1 h2, ih]

end Hom
end Jedi.Wk

/-! ## From the groups back to raw points: what the judge computes

The judge runs the model functions over RAW points (`G1Pt`, `G2Pt`, `Fq12`) with the records `Driver.g1Ops`,
`Driver.g2Ops`, `ateSpec`, `npow`, `⁻¹` of Fq12.  `Subtype.val` is a homomorphism from the restricted records to the
raw ones, so every model function commutes with it (section `Hom`); raw parameters whose components lie in the groups
are the image of parameters over the groups (`ParamsIn.lift`). -/
namespace Jedi
open Jedi.Wk Jedi.GtCapstone
section Raw

theorem g1_val_hom : OpsHom g1OpsC Driver.g1Ops Subtype.val := ⟨fun _ _ => rfl, fun _ => rfl, rfl, fun _ _ => rfl⟩
theorem g2_val_hom : OpsHom g2OpsC Driver.g2Ops Subtype.val := ⟨fun _ _ => rfl, fun _ => rfl, rfl, fun _ _ => rfl⟩

abbrev RawParams := Params G1Pt G2Pt Fq12
abbrev RawKey := SecretKey G1Pt G2Pt

/-- the group elements of the public parameters chosen by `setup` lie in the groups. -/
structure GensIn (pp : RawParams) : Prop where
  g : InTors g2B r pp.g
  g2 : InTors g1B r pp.g2
  g3 : InTors g1B r pp.g3
  hsig : InTors g1B r pp.hsig
  h : ∀ x ∈ pp.h, InTors g1B r x

/-- all components of the public parameters lie in the groups. -/
structure ParamsIn (pp : RawParams) : Prop extends GensIn pp where
  g1 : InTors g2B r pp.g1
  pairing : pp.pairing ^ r = 1

/-- the relations `setup` establishes, with the operations the judge uses. -/
structure SetupOkRaw (pp : RawParams) (g2alpha : G1Pt) (α : Nat) : Prop where
  g1 : pp.g1 = Pt.smulFast α pp.g
  msk : g2alpha = Pt.smulFast α pp.g2
  pairing : pp.pairing = ateSpec pp.g2 pp.g1

theorem ParamsIn.of_setup {pp : RawParams} {g2alpha : G1Pt} {α : Nat} (hg : GensIn pp)
    (hs : SetupOkRaw pp g2alpha α) : ParamsIn pp :=
  have h1 : InTors g2B r pp.g1 := by rw [hs.g1]; exact hg.g.smulFast curveHyp_g2 α
  { toGensIn := hg, g1 := h1, pairing := by rw [hs.pairing]; exact ateSpec_pow_r hg.g2 h1 }

theorem SetupOkRaw.msk_in {pp : RawParams} {g2alpha : G1Pt} {α : Nat} (hg : GensIn pp)
    (hs : SetupOkRaw pp g2alpha α) : InTors g1B r g2alpha := by
  rw [hs.msk]; exact hg.g2.smulFast curveHyp_g1 α

/-- raw parameters in the groups, as parameters over the groups. -/
def ParamsIn.lift {pp : RawParams} (hin : ParamsIn pp) : Params G1c G2c GTc :=
  { g := ⟨pp.g, hin.g⟩, g1 := ⟨pp.g1, hin.g1⟩, g2 := ⟨pp.g2, hin.g2⟩, g3 := ⟨pp.g3, hin.g3⟩,
    pairing := ⟨pp.pairing, hin.pairing⟩, hsig := ⟨pp.hsig, hin.hsig⟩, signatures := pp.signatures,
    h := pp.h.pmap (fun x hx => (⟨x, hx⟩ : G1c)) hin.h }

theorem ParamsIn.lift_map {pp : RawParams} (hin : ParamsIn pp) :
    hin.lift.map Subtype.val Subtype.val Subtype.val = pp := by
  cases pp
  simp only [ParamsIn.lift, Params.map, List.map_pmap, List.pmap_eq_map, List.map_id']

theorem ParamsIn.lift_h_length {pp : RawParams} (hin : ParamsIn pp) : hin.lift.h.length = pp.h.length := by
  simp [ParamsIn.lift]

theorem ParamsIn.lift_signatures {pp : RawParams} (hin : ParamsIn pp) : hin.lift.signatures = pp.signatures := rfl

/-- membership of a key. -/
structure KeyIn (sk : RawKey) : Prop where
  a0 : InTors g1B r sk.a0
  a1 : InTors g2B r sk.a1
  bsig : InTors g1B r sk.bsig
  b : ∀ p ∈ sk.b, InTors g1B r p.2

theorem keyIn_map (sk : SecretKey G1c G2c) : KeyIn (sk.map Subtype.val Subtype.val) :=
  ⟨sk.a0.2, sk.a1.2, sk.bsig.2, by
    intro p hp
    simp only [SecretKey.map, mapB, List.mem_map] at hp
    obtain ⟨q, _, rfl⟩ := hp
    exact q.2.2⟩

/-! ### the model functions on raw points are the images of the model functions over the groups -/

variable {pp : RawParams} (hin : ParamsIn pp)

theorem keygen_val (g2alpha : G1c) (al : AttrList) (ρ : Nat) :
    keygen Driver.g1Ops Driver.g2Ops pp g2alpha.1 al ρ
      = (keygen g1OpsC g2OpsC hin.lift g2alpha al ρ).map Subtype.val Subtype.val := by
  rw [← keygen_map (fT := Subtype.val) g1_val_hom g2_val_hom, hin.lift_map]

theorem ndKeygen_val (g2alpha : G1c) (al : AttrList) :
    ndKeygen Driver.g1Ops pp g2alpha.1 al
      = (ndKeygen g1OpsC hin.lift g2alpha al).map Subtype.val (Subtype.val : G2c → G2Pt) := by
  rw [← ndKeygen_map (fT := Subtype.val) g1_val_hom, hin.lift_map]

theorem canon_val (g2alpha : G1c) (π : List Slot) (ρ : Nat) :
    canon Driver.g1Ops Driver.g2Ops pp g2alpha.1 π ρ
      = (canon g1OpsC g2OpsC hin.lift g2alpha π ρ).map Subtype.val Subtype.val := by
  rw [← canon_map (fT := Subtype.val) g1_val_hom g2_val_hom, hin.lift_map]

theorem precompute_val (al : AttrList) :
    precompute Driver.g1Ops pp al = (precompute g1OpsC hin.lift al).1 := by
  rw [← precompute_map (f2 := (Subtype.val : G2c → G2Pt)) (fT := (Subtype.val : GTc → Fq12)) g1_val_hom, hin.lift_map]

theorem listProduct_val (al : AttrList) :
    listProduct Driver.g1Ops pp al = (listProduct g1OpsC hin.lift al).1 := precompute_val hin al

theorem patternProduct_val (π : List Slot) :
    patternProduct Driver.g1Ops pp π = (patternProduct g1OpsC hin.lift π).1 := by
  rw [← patternProduct_map (f2 := (Subtype.val : G2c → G2Pt)) (fT := (Subtype.val : GTc → Fq12)) g1_val_hom,
    hin.lift_map]

theorem start_run_val (g2alpha : G1c) (l : Nat) (s : Start) :
    s.run Driver.g1Ops Driver.g2Ops pp g2alpha.1 l
      = (s.run g1OpsC g2OpsC hin.lift g2alpha l).map Subtype.val Subtype.val := by
  rw [← Start.run_map (fT := Subtype.val) g1_val_hom g2_val_hom, hin.lift_map]

theorem runSteps_val (st : KeyState G1c G2c) (steps : List Step) :
    runSteps Driver.g1Ops Driver.g2Ops pp (st.map Subtype.val Subtype.val) steps
      = (runSteps g1OpsC g2OpsC hin.lift st steps).map Subtype.val Subtype.val := by
  rw [← runSteps_map (fT := Subtype.val) g1_val_hom g2_val_hom, hin.lift_map]

theorem qualifykey_val (sk : SecretKey G1c G2c) (al : AttrList) (t : Nat) :
    qualifykey Driver.g1Ops Driver.g2Ops pp (sk.map Subtype.val Subtype.val) al t
      = (qualifykey g1OpsC g2OpsC hin.lift sk al t).map Subtype.val Subtype.val := by
  rw [← qualifykey_map (fT := Subtype.val) g1_val_hom g2_val_hom, hin.lift_map]

theorem ndQualifykey_val (l : Nat) (sk : SecretKey G1c G2c) (al : AttrList) :
    ndQualifykey Driver.g1Ops l (sk.map Subtype.val Subtype.val) al
      = (ndQualifykey g1OpsC l sk al).map Subtype.val Subtype.val :=
  ndQualifykey_map g1_val_hom l sk al

theorem adjustNondelegable_val (sk parent : SecretKey G1c G2c) (from_ to_ : AttrList) :
    adjustNondelegable Driver.g1Ops (sk.map Subtype.val Subtype.val) (parent.map Subtype.val Subtype.val) from_ to_
      = (adjustNondelegable g1OpsC sk parent from_ to_).map Subtype.val Subtype.val :=
  adjustNondelegable_map g1_val_hom sk parent from_ to_

theorem resamplekey_val (pre : G1c) (sk : SecretKey G1c G2c) (further : Bool) (t : Nat) :
    resamplekey Driver.g1Ops Driver.g2Ops pp pre.1 (sk.map Subtype.val Subtype.val) further t
      = (resamplekey g1OpsC g2OpsC hin.lift pre sk further t).map Subtype.val Subtype.val := by
  rw [← resamplekey_map (fT := Subtype.val) g1_val_hom g2_val_hom, hin.lift_map]

theorem adjustPrecomputed_val (pre : G1c) (from_ to_ : AttrList) :
    adjustPrecomputed Driver.g1Ops pp pre.1 from_ to_ = (adjustPrecomputed g1OpsC hin.lift pre from_ to_).1 := by
  rw [← adjustPrecomputed_map (f2 := (Subtype.val : G2c → G2Pt)) (fT := (Subtype.val : GTc → Fq12)) g1_val_hom,
    hin.lift_map]

theorem signPrecomputed_val (sk : SecretKey G1c G2c) (attrs : Option AttrList) (pre : G1c) (msg s : Nat) :
    signPrecomputed Driver.g1Ops Driver.g2Ops pp (sk.map Subtype.val Subtype.val) attrs pre.1 msg s
      = ((signPrecomputed g1OpsC g2OpsC hin.lift sk attrs pre msg s).1.1,
         (signPrecomputed g1OpsC g2OpsC hin.lift sk attrs pre msg s).2.1) := by
  rw [← signPrecomputed_map (fT := Subtype.val) g1_val_hom g2_val_hom, hin.lift_map]

/-- every raw key with components in the groups is the image of a key over the groups. -/
def KeyIn.lift {sk : RawKey} (hk : KeyIn sk) : SecretKey G1c G2c :=
  { a0 := ⟨sk.a0, hk.a0⟩, a1 := ⟨sk.a1, hk.a1⟩, signatures := sk.signatures, bsig := ⟨sk.bsig, hk.bsig⟩,
    b := sk.b.pmap (fun p hp => (p.1, (⟨p.2, hp⟩ : G1c))) hk.b }

theorem KeyIn.lift_map {sk : RawKey} (hk : KeyIn sk) : hk.lift.map Subtype.val Subtype.val = sk := by
  cases sk
  simp only [KeyIn.lift, SecretKey.map, mapB, List.map_pmap, List.pmap_eq_map, List.map_id']

/-- the whole history. -/
theorem history_val (g2alpha : G1c) (s : Start) (steps : List Step) :
    runSteps Driver.g1Ops Driver.g2Ops pp (s.run Driver.g1Ops Driver.g2Ops pp g2alpha.1 pp.h.length) steps
      = (runSteps g1OpsC g2OpsC hin.lift (s.run g1OpsC g2OpsC hin.lift g2alpha hin.lift.h.length) steps).map
          Subtype.val Subtype.val := by
  rw [start_run_val hin, runSteps_val hin, hin.lift_h_length]

/-! ### encryption, decryption, verification as the judge computes them -/

abbrev RawCiphertext := Ciphertext G1Pt G2Pt Fq12

/-- `wk_encrypt` of the judge: a = e(g2,g1)^s · m with the Spec's square-and-multiply `npow`, b = s·g, c = s·prod with
the Jacobian `Pt.smulFast`. -/
def encryptRaw (pp : RawParams) (m : Fq12) (prod : G1Pt) (s : Nat) : RawCiphertext :=
  { a := npow pp.pairing s * m, b := Pt.smulFast s pp.g, c := Pt.smulFast s prod }

/-- `wk_decrypt` of the judge (`slow`): a · e(c, a1) · e(a0, b)⁻¹. -/
def decryptRaw (ct : RawCiphertext) (sk : RawKey) : Fq12 := ct.a * ateSpec ct.c sk.a1 * (ateSpec sk.a0 ct.b)⁻¹

/-- `wk_decryptm` of the judge: a · e(g2^α, b)⁻¹. -/
def decryptMasterRaw (ct : RawCiphertext) (g2alpha : G1Pt) : Fq12 := ct.a * (ateSpec g2alpha ct.b)⁻¹

/-- the defining equation of `verify` as the judge evaluates it. -/
def verifyRaw (pp : RawParams) (prod : G1Pt) (sig : G1Pt × G2Pt) (msg : Nat) : Prop :=
  ateSpec sig.1 pp.g = pp.pairing * ateSpec (Pt.add prod (Pt.smulFast msg pp.hsig)) sig.2

def _root_.Jedi.Wk.Ciphertext.val (ct : Ciphertext G1c G2c GTc) : RawCiphertext := ⟨ct.a.1, ct.b.1, ct.c.1⟩

theorem encrypt_val (m : GTc) (prod : G1c) (s : Nat) :
    (encrypt hin.lift m prod s).val = encryptRaw pp m.1 prod.1 s := by
  simp only [Ciphertext.val, encrypt, encryptRaw, ParamsIn.lift, GTc.mul_val, GTc.npow_val, G2c.nsmul_val, G1c.nsmul_val,
    smulFast_eq' curveHyp_g2.two hin.g.1, smulFast_eq' curveHyp_g1.two prod.2.1]

theorem decrypt_val (ct : Ciphertext G1c G2c GTc) (sk : SecretKey G1c G2c) :
    (decrypt eC ct sk).1 = decryptRaw ct.val (sk.map Subtype.val Subtype.val) := rfl

theorem decryptMaster_val (ct : Ciphertext G1c G2c GTc) (g2alpha : G1c) :
    (decryptMaster eC ct g2alpha).1 = decryptMasterRaw ct.val g2alpha.1 := rfl

theorem setupOk_lift {g2alpha : G1Pt} {α : Nat} (hs : SetupOkRaw pp g2alpha α) (hm : InTors g1B r g2alpha) :
    SetupOk eC hin.lift (⟨g2alpha, hm⟩ : G1c) α :=
  ⟨G2c.ext (by rw [G2c.nsmul_val]; show pp.g1 = Pt.smul α pp.g; rw [hs.g1, smulFast_eq' curveHyp_g2.two hin.g.1]),
   G1c.ext (by rw [G1c.nsmul_val]; show g2alpha = Pt.smul α pp.g2; rw [hs.msk, smulFast_eq' curveHyp_g1.two hin.g2.1]),
   GTc.ext hs.pairing⟩

/-- the message is a common factor: it need not lie in GT. -/
theorem decryptRaw_msg (pp : RawParams) (m : Fq12) (prod : G1Pt) (s : Nat) (sk : RawKey) :
    decryptRaw (encryptRaw pp m prod s) sk = m * decryptRaw (encryptRaw pp 1 prod s) sk := by
  simp only [decryptRaw, encryptRaw]; ring

theorem decryptMasterRaw_msg (pp : RawParams) (m : Fq12) (prod : G1Pt) (s : Nat) (g2alpha : G1Pt) :
    decryptMasterRaw (encryptRaw pp m prod s) g2alpha = m * decryptMasterRaw (encryptRaw pp 1 prod s) g2alpha := by
  simp only [decryptMasterRaw, encryptRaw]; ring

end Raw
end Jedi
