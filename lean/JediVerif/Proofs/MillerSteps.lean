/-
C01, the mathematical core: the generated Miller steps (`Gen.miller_doubling_step`, `Gen.miller_addition_step`,
from /repo/src/bls12_381/pairing.cpp) compute (a) the Jacobian doubling / mixed addition of the running point and
(b) line coefficients whose sparse Fq12 element (`Impl.lineEl`, what `ell` multiplies the accumulator with) is the
textbook tangent / chord line of Spec/Pairing.lean up to an explicit factor κ.

Closed forms (any commutative ring R, T = (X, Y, Z) over Q2 R, Q = (x₂, y₂)):

  doubling:  (a, b, c) = (4 Y Z³, −6 X² Z², 6 X³ − 4 Y²)
             T' = (9X⁴ − 8XY², 3X²(4XY² − X') − 8Y⁴, 2YZ)            [dbl-2009-l, = Proj2.multiply2 for Z ≠ 0]
  addition:  H = x₂Z² − X, r = 2(y₂Z³ − Y), Z' = 2ZH
             (a, b, c) = (2 Z', −2 r, 2 (r x₂ − y₂ Z')) = (4ZH, −4(y₂Z³ − Y), 4(X Z y₂ − Y x₂))
             T' = (r² − 4H³ − 8XH², r(4XH² − X') − 8YH³, 2ZH)        [madd-2007-bl, = Proj2.addA generic branch]
  lineEl (a,b,c) (xP,yP) = c + b·xP·w² + a·yP·w³     (w² = v; sparse in the slots 1, w², w³)

Relation to the Spec's line  ℓ(P) = yP − λ xP w⁻¹ + (λ x_T − y_T) w⁻³  (`lineEval`), with (x_T, y_T) = (X/Z², Y/Z³):

  doubling, Z ≠ 0, Y ≠ 0:   lineEl = (4 Y Z³) · w³ · ℓ_{T,T}(P)          λ = 3x²/2y          κ = a·w³
  doubling, Z ≠ 0, Y = 0:   lineEl = (−6 X² Z²) · w² · (xP − x_T w⁻²)     vertical line        κ = b·w², T' = ∞
  doubling, Z = 0:          lineEl = 6X³ − 4Y² ∈ Fq2,  T' = ∞             (Spec: line 1, ∞)
  addition, Z ≠ 0, x_T ≠ x₂: lineEl = (4 Z H) · w³ · ℓ_{T,Q}(P)           λ = (y₂−y_T)/(x₂−x_T) κ = a·w³
  addition, Z ≠ 0, x_T = x₂: lineEl = (−2 r) · w² · (xP − x₂ w⁻²), T' = ∞  vertical line; r = 0 (lineEl = 0) iff T = Q:
                             the C++ addition step does NOT handle T = Q (it returns ∞ and the zero line)
  addition, Z = 0:          lineEl = (4Y) · w² · (xP − x₂ w⁻²), T' = ∞     (Spec: line 1, T' = Q) — the C++ stays at ∞

No curve equation is needed for any of these.  κ is a nonzero element of Fq2 times w³ or w²; both are killed by the
final exponentiation ((q⁶−1) sends Fq2·w^k to ±1, and (q²+1) is even).

The field structure on `Q2 K` is the hypothesis `hnr` (−1 is not a square in K), exactly as in CurveProofs.lean;
statements mention only the Spec's own operations.
-/
import JediVerif.Proofs.MillerProduct
import JediVerif.Proofs.CurveProofs
import JediVerif.Spec.Pairing
import Mathlib.Tactic.Ring
import Mathlib.Tactic.FieldSimp
import Mathlib.Tactic.LinearCombination
import Mathlib.Algebra.Field.Basic
import Mathlib.Tactic.NormNum.Basic
import Mathlib.Algebra.Field.Rat
import Mathlib.Algebra.Order.Ring.Rat
import Mathlib.Algebra.Order.Ring.Unbundled.Basic

set_option linter.unusedSectionVars false
set_option linter.unusedVariables false
set_option linter.unnecessarySeqFocus false
namespace Jedi
open Jedi.Gen Jedi.Impl

/-! ### The Spec's line functions, generically in the coefficient type
(`Spec/Pairing.lean` fixes `Fq`; these are the same bodies, and `lineEval_eq`… are `rfl`). -/
section GenericSpec
variable {F : Type} [Add F] [Sub F] [Mul F] [Neg F] [Zero F] [One F] [Inv F]

/-- w⁻¹ in `Q12 F` (Spec inverse). -/
def wInvG : Q12 F := (Q12.w : Q12 F)⁻¹

/-- `lineEval` over any coefficient type. -/
def lineEvalG (lam xA yA : Q2 F) (xP yP : F) : Q12 F :=
  let w1 : Q12 F := wInvG
  let w3 := w1 * w1 * w1
  Q12.ofBase yP - Q12.ofQ2 lam * Q12.ofBase xP * w1 + Q12.ofQ2 (lam * xA - yA) * w3

/-- `vertEval` over any coefficient type. -/
def vertEvalG (xA : Q2 F) (xP : F) : Q12 F :=
  Q12.ofBase xP - Q12.ofQ2 xA * (wInvG * wInvG)

/-- `millerLine` over any coefficient type. -/
def millerLineG [DecidableEq F] (T S : Pt (Q2 F)) (xP yP : F) : Q12 F × Pt (Q2 F) :=
  match T, S with
  | .aff x1 y1, .aff x2 y2 =>
    if x1 = x2 then
      if y1 = -y2 then (vertEvalG x1 xP, .inf)
      else
        let lam := Pt.tangentSlope x1 y1
        (lineEvalG lam x1 y1 xP yP, Pt.add T S)
    else
      let lam := Pt.chordSlope x1 y1 x2 y2
      (lineEvalG lam x1 y1 xP yP, Pt.add T S)
  | _, _ => (1, Pt.add T S)

end GenericSpec

theorem wInv_eq : wInv = (wInvG : Q12 Fq) := rfl
theorem lineEval_eq (lam xA yA : Fq2) (xP yP : Fq) : lineEval lam xA yA xP yP = lineEvalG lam xA yA xP yP := rfl
theorem vertEval_eq (xA : Fq2) (xP : Fq) : vertEval xA xP = vertEvalG xA xP := rfl
theorem millerLine_eq (T S : G2Pt) (xP yP : Fq) : millerLine T S xP yP = millerLineG T S xP yP := by
  cases T <;> cases S <;> rfl

/-! ### Closed forms of the generated steps over any commutative ring -/
section Closed
variable {R : Type} [CommRing R]

theorem dbl_step_coeffs (T : Jac (Q2 R)) :
    (miller_doubling_step T).1 =
      ⟨4 * T.y * T.z ^ 3, -(6 * T.x ^ 2 * T.z ^ 2), 6 * T.x ^ 3 - 4 * T.y ^ 2⟩ := by
  simp only [miller_doubling_step, tower_spec]
  congr 1 <;> ring

theorem dbl_step_jac (T : Jac (Q2 R)) :
    (miller_doubling_step T).2 =
      ⟨9 * T.x ^ 4 - 8 * T.x * T.y ^ 2,
       3 * T.x ^ 2 * (4 * T.x * T.y ^ 2 - (9 * T.x ^ 4 - 8 * T.x * T.y ^ 2)) - 8 * T.y ^ 4,
       2 * T.y * T.z⟩ := by
  simp only [miller_doubling_step, tower_spec]
  congr 1 <;> ring

theorem add_step_coeffs (T : Jac (Q2 R)) (Q : Aff (Q2 R)) :
    (miller_addition_step T Q).1 =
      ⟨4 * T.z * (Q.x * T.z ^ 2 - T.x), -(4 * (Q.y * T.z ^ 3 - T.y)),
        4 * (T.x * T.z * Q.y - T.y * Q.x)⟩ := by
  simp only [miller_addition_step, tower_spec]
  congr 1 <;> ring

theorem add_step_jac (T : Jac (Q2 R)) (Q : Aff (Q2 R)) :
    (miller_addition_step T Q).2 =
      (let H := Q.x * T.z ^ 2 - T.x
       let r := 2 * (Q.y * T.z ^ 3 - T.y)
       let X3 := r ^ 2 - 4 * H ^ 3 - 8 * T.x * H ^ 2
       ⟨X3, r * (4 * T.x * H ^ 2 - X3) - 8 * T.y * H ^ 3, 2 * T.z * H⟩) := by
  simp only [miller_addition_step, tower_spec]
  congr 1 <;> ring

end Closed

/-! ### The embedding Fq2 → Fq12, the generator w, and the sparse line element -/
section Q12Alg
variable {R : Type} [CommRing R]

@[simp] theorem Q6.ofQ2_c0 (x : Q2 R) : (Q6.ofQ2 x).c0 = x := rfl
@[simp] theorem Q6.ofQ2_c1 (x : Q2 R) : (Q6.ofQ2 x).c1 = 0 := rfl
@[simp] theorem Q6.ofQ2_c2 (x : Q2 R) : (Q6.ofQ2 x).c2 = 0 := rfl
@[simp] theorem Q12.ofQ2_c0 (x : Q2 R) : (Q12.ofQ2 x).c0 = Q6.ofQ2 x := rfl
@[simp] theorem Q12.ofQ2_c1 (x : Q2 R) : (Q12.ofQ2 x).c1 = 0 := rfl
@[simp] theorem Q12.w_c0 : (Q12.w : Q12 R).c0 = 0 := rfl
@[simp] theorem Q12.w_c1 : (Q12.w : Q12 R).c1 = 1 := rfl
@[simp] theorem Q2.ofBase_c0 (x : R) : (Q2.ofBase x).c0 = x := rfl
@[simp] theorem Q2.ofBase_c1 (x : R) : (Q2.ofBase x).c1 = 0 := rfl

theorem Q12.ofBase_eq (x : R) : Q12.ofBase x = Q12.ofQ2 (Q2.ofBase x) := rfl

theorem Q12.ofQ2_add (x y : Q2 R) : Q12.ofQ2 (x + y) = Q12.ofQ2 x + Q12.ofQ2 y := by ext <;> simp
theorem Q12.ofQ2_mul (x y : Q2 R) : Q12.ofQ2 (x * y) = Q12.ofQ2 x * Q12.ofQ2 y := by ext <;> simp
theorem Q12.ofQ2_sub (x y : Q2 R) : Q12.ofQ2 (x - y) = Q12.ofQ2 x - Q12.ofQ2 y := by ext <;> simp
theorem Q12.ofQ2_neg (x : Q2 R) : Q12.ofQ2 (-x) = -Q12.ofQ2 x := by ext <;> simp
theorem Q12.ofQ2_one : Q12.ofQ2 (1 : Q2 R) = 1 := by ext <;> simp
theorem Q12.ofQ2_zero : Q12.ofQ2 (0 : Q2 R) = 0 := by ext <;> simp
theorem Q12.ofQ2_injective {x y : Q2 R} (h : Q12.ofQ2 x = Q12.ofQ2 y) : x = y := by
  have := congrArg (fun z : Q12 R => z.c0.c0) h
  simpa using this

/-- w² = v. -/
theorem Q12.w_sq : (Q12.w : Q12 R) ^ 2 = ⟨Q6.v, 0⟩ := by
  simp only [pow_succ, pow_zero, one_mul]
  ext <;> simp

/-- w⁶ = ξ = 1 + u. -/
theorem Q12.w_pow_six : (Q12.w : Q12 R) ^ 6 = Q12.ofQ2 Q2.xi := by
  simp only [pow_succ, pow_zero, one_mul]
  ext <;> simp

/-- **the element `ell` multiplies by**, written in the basis 1, w², w³ of its three slots:
`lineEl (a,b,c) (xP,yP) = c + b·xP·w² + a·yP·w³`. -/
theorem lineEl_eq (c : MT R) (P : Aff R) :
    lineEl c P = Q12.ofQ2 c.c + Q12.ofQ2 c.b * Q12.ofBase P.x * Q12.w ^ 2
      + Q12.ofQ2 c.a * Q12.ofBase P.y * Q12.w ^ 3 := by
  simp only [pow_succ, pow_zero, one_mul, Q12.ofBase_eq]
  ext <;> simp [lineEl]

end Q12Alg

/-! ### w⁻¹ and the scaled Spec lines (field of characteristic ≠ 2) -/
section WInv
variable {K : Type} [Field K]

theorem Q2.inv_c0 (a : Q2 K) : (a⁻¹).c0 = a.c0 * (a.c0 * a.c0 + a.c1 * a.c1)⁻¹ := rfl
theorem Q2.inv_c1 (a : Q2 K) : (a⁻¹).c1 = -(a.c1 * (a.c0 * a.c0 + a.c1 * a.c1)⁻¹) := rfl
theorem Q2.mk00 : (⟨0, 0⟩ : Q2 K) = 0 := rfl

/-- the Spec's w⁻¹ (computed by the generic `Q12.inv`) is ξ⁻¹ v² w with ξ⁻¹ = (1 − u)/2. -/
theorem wInvG_closed : (wInvG : Q12 K) = ⟨0, ⟨0, 0, ⟨(1 + 1)⁻¹, -(1 + 1)⁻¹⟩⟩⟩ := by
  show Q12.inv (Q12.w : Q12 K) = _
  simp only [Q12.inv, Q12.w]
  show (⟨0 * Q6.inv _, -(1 * Q6.inv _)⟩ : Q12 K) = _
  ext <;> simp [Q6.inv, Q6.mulV, Q2.mulXi, Q2.mk00, Q2.inv_c0, Q2.inv_c1]

theorem wInvG_mul_w (h2 : (2 : K) ≠ 0) : (wInvG : Q12 K) * Q12.w = 1 := by
  have h2' : (1 + 1 : K) ≠ 0 := by rwa [one_add_one_eq_two]
  rw [wInvG_closed]
  ext <;> simp <;> field_simp

/-- κ'·w³·ℓ(P) cleared of w⁻¹: the three slots 1, w², w³. -/
theorem lineEvalG_scale (h2 : (2 : K) ≠ 0) (k lam x y : Q2 K) (xP yP : K) :
    Q12.ofQ2 k * Q12.w ^ 3 * lineEvalG lam x y xP yP =
      Q12.ofQ2 (k * (lam * x - y)) + Q12.ofQ2 (-(k * lam)) * Q12.ofBase xP * Q12.w ^ 2
        + Q12.ofQ2 k * Q12.ofBase yP * Q12.w ^ 3 := by
  have hW := wInvG_mul_w h2
  simp only [lineEvalG, Q12.ofQ2_mul, Q12.ofQ2_neg]
  generalize (wInvG : Q12 K) = W at hW ⊢
  linear_combination
    (-(Q12.ofQ2 k * Q12.ofQ2 lam * Q12.ofBase xP * Q12.w ^ 2)
      + Q12.ofQ2 k * Q12.ofQ2 (lam * x - y) * (Q12.w ^ 2 * W ^ 2 + Q12.w * W + 1)) * hW

/-- κ'·w²·(vertical line) cleared of w⁻²: the two slots 1, w². -/
theorem vertEvalG_scale (h2 : (2 : K) ≠ 0) (k x : Q2 K) (xP : K) :
    Q12.ofQ2 k * Q12.w ^ 2 * vertEvalG x xP =
      Q12.ofQ2 (-(k * x)) + Q12.ofQ2 k * Q12.ofBase xP * Q12.w ^ 2 := by
  have hW := wInvG_mul_w h2
  simp only [vertEvalG, Q12.ofQ2_mul, Q12.ofQ2_neg]
  generalize (wInvG : Q12 K) = W at hW ⊢
  linear_combination (-(Q12.ofQ2 k * Q12.ofQ2 x * (Q12.w * W + 1))) * hW

end WInv

/-! ### Slopes and intercepts: the coefficient identities over an arbitrary field -/
section Slopes
variable {L : Type} [Field L]

/-- tangent at (X/Z², Y/Z³): 4YZ³·λ = 6X²Z² and 4YZ³·(λ x − y) = 6X³ − 4Y². -/
theorem tangent_coeffs (h2 : (2 : L) ≠ 0) {X Y Z : L} (hz : Z ≠ 0) (hy : Y ≠ 0) :
    let x := X * (Z⁻¹ * Z⁻¹)
    let y := Y * (Z⁻¹ * Z⁻¹ * Z⁻¹)
    4 * Y * Z ^ 3 * Pt.tangentSlope x y = 6 * X ^ 2 * Z ^ 2 ∧
    4 * Y * Z ^ 3 * (Pt.tangentSlope x y * x - y) = 6 * X ^ 3 - 4 * Y ^ 2 := by
  intro x y
  have e : y + y = 2 * Y / Z ^ 3 := by simp only [y]; field_simp; ring
  have hne : 2 * Y / Z ^ 3 ≠ 0 := div_ne_zero (mul_ne_zero h2 hy) (pow_ne_zero _ hz)
  simp only [Pt.tangentSlope, e]
  simp only [x, y]
  constructor
  · field_simp; ring
  · field_simp; ring

/-- chord through (X/Z², Y/Z³) and (x₂, y₂), H = x₂Z² − X ≠ 0:
4ZH·λ = 4(y₂Z³ − Y) and 4ZH·(λ x − y) = 4(X Z y₂ − Y x₂). -/
theorem chord_coeffs {X Y Z x2 y2 : L} (hz : Z ≠ 0) (hH : x2 * Z ^ 2 - X ≠ 0) :
    let x := X * (Z⁻¹ * Z⁻¹)
    let y := Y * (Z⁻¹ * Z⁻¹ * Z⁻¹)
    4 * Z * (x2 * Z ^ 2 - X) * Pt.chordSlope x y x2 y2 = 4 * (y2 * Z ^ 3 - Y) ∧
    4 * Z * (x2 * Z ^ 2 - X) * (Pt.chordSlope x y x2 y2 * x - y) = 4 * (X * Z * y2 - Y * x2) := by
  intro x y
  have e : x2 - x = (x2 * Z ^ 2 - X) / Z ^ 2 := by simp only [x]; field_simp
  simp only [Pt.chordSlope, e, inv_div]
  generalize hHd : x2 * Z ^ 2 - X = H at hH ⊢
  have hX : X = x2 * Z ^ 2 - H := by rw [← hHd]; ring
  simp only [x, y, hX]
  constructor
  · field_simp
  · field_simp; ring

end Slopes

/-! ### The running point: the steps are the generated Jacobian doubling / mixed addition -/
section PointsRing
variable {R : Type} [CommRing R] [DecidableEq R]

/-- for Z ≠ 0 the doubling step's point is literally `Proj2.multiply2` (curve.hpp, dbl-2009-l);
for Z = 0 `multiply2` copies its input while the step recomputes — both have Z' = 0. -/
theorem dbl_step_eq_multiply2 (T : Jac (Q2 R)) (hz : T.z ≠ 0) :
    (miller_doubling_step T).2 = Proj2.multiply2 T := by
  rw [Proj2.multiply2_eq, dbl_step_jac]
  simp only [Proj.multiply2, decide_eq_true_eq, if_neg hz]
  congr 1 <;> ring

/-- outside the branches `addA` special-cases (Q = ∞, T = ∞, T = Q), the addition step's point is literally
`Proj2.addA` (curve.hpp, madd-2007-bl). -/
theorem add_step_eq_addA (T : Jac (Q2 R)) (Q : Aff (Q2 R)) (hQ : Q.infinity = false) (hz : T.z ≠ 0)
    (hne : ¬ (T.x = Q.x * (T.z * T.z) ∧ T.y = Q.y * T.z * (T.z * T.z))) :
    (miller_addition_step T Q).2 = Proj2.addA T Q := by
  rw [Proj2.addA_eq, add_step_jac]
  simp only [Proj.addA, hQ, decide_eq_true_eq, if_neg hz, Bool.and_eq_true, if_neg hne,
    Bool.false_eq_true, if_false]
  congr 1 <;> ring

omit [DecidableEq R] in
theorem dbl_step_z (T : Jac (Q2 R)) : (miller_doubling_step T).2.z = 2 * T.y * T.z := by
  rw [dbl_step_jac]

omit [DecidableEq R] in
theorem add_step_z (T : Jac (Q2 R)) (Q : Aff (Q2 R)) :
    (miller_addition_step T Q).2.z = 2 * T.z * (Q.x * T.z ^ 2 - T.x) := by
  rw [add_step_jac]

omit [DecidableEq R] in
/-- the addition step's line always passes through Q: c = −b·x₂ − a·y₂, i.e.
`lineEl = a·(yP w³ − y₂) + b·(xP w² − x₂)` — for every input. -/
theorem add_step_line_through_Q (T : Jac (Q2 R)) (Q : Aff (Q2 R)) (P : Aff R) :
    lineEl (miller_addition_step T Q).1 P =
      Q12.ofQ2 (miller_addition_step T Q).1.a * (Q12.ofBase P.y * Q12.w ^ 3 - Q12.ofQ2 Q.y)
      + Q12.ofQ2 (miller_addition_step T Q).1.b * (Q12.ofBase P.x * Q12.w ^ 2 - Q12.ofQ2 Q.x) := by
  have hc : (miller_addition_step T Q).1.c =
      -((miller_addition_step T Q).1.b * Q.x) - (miller_addition_step T Q).1.a * Q.y := by
    rw [add_step_coeffs]; ring
  rw [lineEl_eq, hc, Q12.ofQ2_sub, Q12.ofQ2_neg, Q12.ofQ2_mul, Q12.ofQ2_mul]
  ring

omit [DecidableEq R] in
/-- doubling with Z = 0 (running point already ∞): the line element is the constant 6X³ − 4Y² of Fq2
(the Spec multiplies by 1); the point stays ∞. -/
theorem dbl_step_line_z0 (T : Jac (Q2 R)) (hz : T.z = 0) (P : Aff R) :
    lineEl (miller_doubling_step T).1 P = Q12.ofQ2 (miller_doubling_step T).1.c ∧
      (miller_doubling_step T).2.z = 0 := by
  constructor
  · rw [lineEl_eq, dbl_step_coeffs, hz]
    have e1 : (4 * T.y * (0 : Q2 R) ^ 3) = 0 := by ring
    have e2 : -(6 * T.x ^ 2 * (0 : Q2 R) ^ 2) = 0 := by ring
    simp only [e1, e2, Q12.ofQ2_zero]; ring
  · rw [dbl_step_z, hz]; ring

omit [DecidableEq R] in
/-- the addition step's coefficients when T = Q as points (X = x₂Z², Y = y₂Z³): all zero.
The C++ `miller_addition_step` does not treat T = Q (no detour to doubling as in `Proj2.addA`): it yields
the zero line and Z' = 0. -/
theorem add_step_same_point (T : Jac (Q2 R)) (Q : Aff (Q2 R)) (hx : T.x = Q.x * T.z ^ 2)
    (hy : T.y = Q.y * T.z ^ 3) (P : Aff R) :
    (miller_addition_step T Q).1 = ⟨0, 0, 0⟩ ∧ lineEl (miller_addition_step T Q).1 P = 0 ∧
      (miller_addition_step T Q).2.z = 0 := by
  have hc : (miller_addition_step T Q).1 = ⟨0, 0, 0⟩ := by
    rw [add_step_coeffs, hx, hy]; congr 1 <;> ring
  refine ⟨hc, ?_, ?_⟩
  · rw [hc, lineEl_eq]; simp only [Q12.ofQ2_zero]; ring
  · rw [add_step_z, hx]; ring

end PointsRing

/-! ### The factors κ -/
section Kappa
variable {R : Type} [CommRing R] [DecidableEq R]

/-- the factor by which the doubling step's line element differs from the Spec's `millerLine T T`:
`a·w³` (tangent), `b·w²` (vertical, Y = 0), `c` (T = ∞), with (a,b,c) the step's own coefficients. -/
def dblKappa (T : Jac (Q2 R)) : Q12 R :=
  if T.z = 0 then Q12.ofQ2 (miller_doubling_step T).1.c
  else if T.y = 0 then Q12.ofQ2 (miller_doubling_step T).1.b * Q12.w ^ 2
  else Q12.ofQ2 (miller_doubling_step T).1.a * Q12.w ^ 3

/-- the factor of the addition step: `a·w³` (chord), `b·w²` (vertical, x_T = x₂). -/
def addKappa (T : Jac (Q2 R)) (Q : Aff (Q2 R)) : Q12 R :=
  if T.x = Q.x * (T.z * T.z) then Q12.ofQ2 (miller_addition_step T Q).1.b * Q12.w ^ 2
  else Q12.ofQ2 (miller_addition_step T Q).1.a * Q12.w ^ 3

omit [DecidableEq R] in
theorem Q12.conj_ofQ2 (k : Q2 R) : Q12.conj (Q12.ofQ2 k) = Q12.ofQ2 k := by
  ext <;> simp [Q12.conj]

omit [DecidableEq R] in
theorem Q12.conj_w : Q12.conj (Q12.w : Q12 R) = -Q12.w := by
  ext <;> simp [Q12.conj]

omit [DecidableEq R] in
/-- factors `k·w³` (k ∈ Fq2) are anti-invariant under the conjugation f ↦ f^(q⁶): conj(κ)/κ = −1. -/
theorem kappa3_conj (k : Q2 R) :
    Q12.conj (Q12.ofQ2 k * Q12.w ^ 3) = -(Q12.ofQ2 k * Q12.w ^ 3) := by
  simp only [pow_succ, pow_zero, one_mul]
  ext <;> simp [Q12.conj]

omit [DecidableEq R] in
/-- factors `k·w²` (k ∈ Fq2) lie in Fq6: invariant under conjugation, conj(κ)/κ = 1. -/
theorem kappa2_conj (k : Q2 R) :
    Q12.conj (Q12.ofQ2 k * Q12.w ^ 2) = Q12.ofQ2 k * Q12.w ^ 2 := by
  simp only [pow_succ, pow_zero, one_mul]
  ext <;> simp [Q12.conj]

end Kappa

/-! ### Main theorems: `Q2 K` a field (hypothesis `hnr`), characteristic ≠ 2 -/
section Main
variable {K : Type} [Field K] [DecidableEq K]

/-- reading `Pt.ofJac T = (x, y)`: Z ≠ 0 and the Spec's own expressions X·Z⁻², Y·Z⁻³. -/
theorem ofJac_aff_iff {T : Jac (Q2 K)} {x y : Q2 K} :
    Pt.ofJac T = .aff x y ↔
      T.z ≠ 0 ∧ x = T.x * (T.z⁻¹ * T.z⁻¹) ∧ y = T.y * (T.z⁻¹ * T.z⁻¹ * T.z⁻¹) := by
  unfold Pt.ofJac
  split
  · rename_i h; simp [h]
  · rename_i h
    simp only [Pt.aff.injEq, ne_eq, h, not_false_eq_true, true_and]
    constructor
    · rintro ⟨rfl, rfl⟩; exact ⟨rfl, rfl⟩
    · rintro ⟨rfl, rfl⟩; exact ⟨rfl, rfl⟩

section GenericField
variable {L : Type} [Field L] [DecidableEq L]

omit [DecidableEq L] in
theorem aff_x_eq_iff {X Z x2 : L} (hz : Z ≠ 0) : X * (Z⁻¹ * Z⁻¹) = x2 ↔ x2 * Z ^ 2 - X = 0 := by
  constructor
  · intro h; rw [← h]; field_simp; ring
  · intro h
    have : X = x2 * Z ^ 2 := by linear_combination -h
    rw [this]; field_simp

omit [DecidableEq L] in
theorem aff_y_eq_iff {Y Z y2 : L} (hz : Z ≠ 0) :
    Y * (Z⁻¹ * Z⁻¹ * Z⁻¹) = y2 ↔ Y = y2 * Z ^ 3 := by
  constructor
  · intro h; rw [← h]; field_simp
  · intro h; rw [h]; field_simp

omit [DecidableEq L] in
theorem aff_y_eq_neg_iff {Y Z y2 : L} (hz : Z ≠ 0) :
    Y * (Z⁻¹ * Z⁻¹ * Z⁻¹) = -y2 ↔ Y = -(y2 * Z ^ 3) := by
  constructor
  · intro h
    have : y2 = -(Y * (Z⁻¹ * Z⁻¹ * Z⁻¹)) := by rw [h]; ring
    rw [this]; field_simp
  · intro h; rw [h]; field_simp

theorem chord_point_aux (h2 : (2 : L) ≠ 0) {H Y Z x2 y2 : L} (hz : Z ≠ 0) (hH : H ≠ 0) :
    Pt.ofJac (⟨(2 * (y2 * Z ^ 3 - Y)) ^ 2 - 4 * H ^ 3 - 8 * (x2 * Z ^ 2 - H) * H ^ 2,
        2 * (y2 * Z ^ 3 - Y) * (4 * (x2 * Z ^ 2 - H) * H ^ 2 -
          ((2 * (y2 * Z ^ 3 - Y)) ^ 2 - 4 * H ^ 3 - 8 * (x2 * Z ^ 2 - H) * H ^ 2)) - 8 * Y * H ^ 3,
        2 * Z * H⟩ : Jac L) =
      Pt.aff
        (Pt.chordSlope ((x2 * Z ^ 2 - H) * (Z⁻¹ * Z⁻¹)) (Y * (Z⁻¹ * Z⁻¹ * Z⁻¹)) x2 y2 *
            Pt.chordSlope ((x2 * Z ^ 2 - H) * (Z⁻¹ * Z⁻¹)) (Y * (Z⁻¹ * Z⁻¹ * Z⁻¹)) x2 y2
          - (x2 * Z ^ 2 - H) * (Z⁻¹ * Z⁻¹) - x2)
        (Pt.chordSlope ((x2 * Z ^ 2 - H) * (Z⁻¹ * Z⁻¹)) (Y * (Z⁻¹ * Z⁻¹ * Z⁻¹)) x2 y2 *
            ((x2 * Z ^ 2 - H) * (Z⁻¹ * Z⁻¹) -
              (Pt.chordSlope ((x2 * Z ^ 2 - H) * (Z⁻¹ * Z⁻¹)) (Y * (Z⁻¹ * Z⁻¹ * Z⁻¹)) x2 y2 *
                  Pt.chordSlope ((x2 * Z ^ 2 - H) * (Z⁻¹ * Z⁻¹)) (Y * (Z⁻¹ * Z⁻¹ * Z⁻¹)) x2 y2
                - (x2 * Z ^ 2 - H) * (Z⁻¹ * Z⁻¹) - x2))
          - Y * (Z⁻¹ * Z⁻¹ * Z⁻¹)) := by
  have hz3 : (2 * Z * H : L) ≠ 0 := mul_ne_zero (mul_ne_zero h2 hz) hH
  rw [Pt.ofJac_zne (by simpa using hz3)]
  have e : x2 - (x2 * Z ^ 2 - H) * (Z⁻¹ * Z⁻¹) = H / Z ^ 2 := by field_simp; ring
  have hl : Pt.chordSlope ((x2 * Z ^ 2 - H) * (Z⁻¹ * Z⁻¹)) (Y * (Z⁻¹ * Z⁻¹ * Z⁻¹)) x2 y2 =
      (y2 * Z ^ 3 - Y) / (Z * H) := by
    simp only [Pt.chordSlope, e, inv_div]
    field_simp
  rw [hl]
  congr 1
  · field_simp; ring
  · field_simp; ring

/-- madd-2007-bl output = the affine chord formulas; no curve equation needed (H ≠ 0). -/
theorem chord_point (h2 : (2 : L) ≠ 0) {X Y Z x2 y2 : L} (hz : Z ≠ 0) (hH : x2 * Z ^ 2 - X ≠ 0) :
    let x := X * (Z⁻¹ * Z⁻¹)
    let y := Y * (Z⁻¹ * Z⁻¹ * Z⁻¹)
    let l := Pt.chordSlope x y x2 y2
    let H := x2 * Z ^ 2 - X
    let r := 2 * (y2 * Z ^ 3 - Y)
    let X3 := r ^ 2 - 4 * H ^ 3 - 8 * X * H ^ 2
    Pt.ofJac (⟨X3, r * (4 * X * H ^ 2 - X3) - 8 * Y * H ^ 3, 2 * Z * H⟩ : Jac L) =
      Pt.aff (l * l - x - x2) (l * (x - (l * l - x - x2)) - y) := by
  intro x y l H r X3
  have hX : X = x2 * Z ^ 2 - H := by simp only [H]; ring
  have := chord_point_aux h2 (Y := Y) (x2 := x2) (y2 := y2) hz hH
  simp only [l, x, y, X3, r]
  rw [← hX] at this
  exact this

end GenericField

variable (hnr : ∀ x y : K, x * x + y * y = 0 → x = 0 ∧ y = 0) (h2 : (2 : K) ≠ 0)
include hnr h2

/-- **1. `dbl_step_point`** — for EVERY triple T (Z = 0 and Y = 0 included, no curve equation):
the doubling step's point represents 2·T. -/
theorem dbl_step_point (T : Jac (Q2 K)) :
    Pt.ofJac (miller_doubling_step T).2 = Pt.dbl (Pt.ofJac T) := by
  by_cases hz : T.z = 0
  · let _ := Q2.instField hnr
    have hz' : (miller_doubling_step T).2.z = 0 := by rw [dbl_step_z, hz]; ring
    rw [Pt.ofJac_z0 hz', Pt.ofJac_z0 hz]; rfl
  · rw [dbl_step_eq_multiply2 T hz]; exact fq2_dbl_correct' hnr h2 T

theorem dbl_step_point_add (T : Jac (Q2 K)) :
    Pt.ofJac (miller_doubling_step T).2 = Pt.add (Pt.ofJac T) (Pt.ofJac T) := by
  let _ := Q2.instField hnr
  rw [dbl_step_point hnr h2, Pt.add_self]

/-- **2. `dbl_step_line`** — T = (X,Y,Z) with affine image (x, y) (so Z ≠ 0) and Y ≠ 0:
`lineEl (a,b,c) P = a · w³ · ℓ_{T,T}(P)`, ℓ the Spec's tangent line at (x, y); a = 4YZ³ (`dbl_step_coeffs`). -/
theorem dbl_step_line {T : Jac (Q2 K)} {x y : Q2 K} (hT : Pt.ofJac T = .aff x y) (hy : T.y ≠ 0)
    (P : Aff K) :
    lineEl (miller_doubling_step T).1 P =
      Q12.ofQ2 (miller_doubling_step T).1.a * Q12.w ^ 3 *
        lineEvalG (Pt.tangentSlope x y) x y P.x P.y := by
  let _ := Q2.instField hnr
  obtain ⟨hz, rfl, rfl⟩ := ofJac_aff_iff.mp hT
  obtain ⟨e1, e2⟩ := tangent_coeffs (Q2.two_ne_zero hnr h2) hz hy
  rw [lineEvalG_scale h2, lineEl_eq, dbl_step_coeffs]
  simp only
  rw [e2, e1]

/-- **2, the case Y = 0** (2-torsion point, 2T = ∞): the line element is the vertical line through T,
`lineEl (a,b,c) P = b · w² · (xP − x w⁻²)` with b = −6X²Z², and the new point has Z' = 0. -/
theorem dbl_step_line_y0 {T : Jac (Q2 K)} {x y : Q2 K} (hT : Pt.ofJac T = .aff x y) (hy : T.y = 0)
    (P : Aff K) :
    lineEl (miller_doubling_step T).1 P =
        Q12.ofQ2 (miller_doubling_step T).1.b * Q12.w ^ 2 * vertEvalG x P.x ∧
      (miller_doubling_step T).2.z = 0 := by
  let _ := Q2.instField hnr
  obtain ⟨hz, rfl, rfl⟩ := ofJac_aff_iff.mp hT
  constructor
  · rw [vertEvalG_scale h2, lineEl_eq, dbl_step_coeffs]
    simp only
    have e1 : 4 * T.y * T.z ^ 3 = 0 := by rw [hy]; ring
    have e2 : 6 * T.x ^ 3 - 4 * T.y ^ 2 = -(-(6 * T.x ^ 2 * T.z ^ 2) * (T.x * (T.z⁻¹ * T.z⁻¹))) := by
      rw [hy]; field_simp; ring
    rw [e1, e2, Q12.ofQ2_zero]; ring
  · rw [dbl_step_z, hy]; ring

/-- **3. `add_step_point`** — T with affine image (x, y), x ≠ x₂ (T ≠ ±Q): the addition step's point represents
T + Q (chord law of the Spec); no curve equation needed. -/
theorem add_step_point {T : Jac (Q2 K)} {x y : Q2 K} (Q : Aff (Q2 K)) (hT : Pt.ofJac T = .aff x y)
    (hx : x ≠ Q.x) :
    Pt.ofJac (miller_addition_step T Q).2 = Pt.add (.aff x y) (.aff Q.x Q.y) := by
  let _ := Q2.instField hnr
  obtain ⟨hz, rfl, rfl⟩ := ofJac_aff_iff.mp hT
  have hH : Q.x * T.z ^ 2 - T.x ≠ 0 := fun h => hx ((aff_x_eq_iff hz).mpr h)
  rw [add_step_jac]
  simp only [Pt.add, if_neg hx]
  exact chord_point (Q2.two_ne_zero hnr h2) hz hH

/-- **3, the case x = x₂** (T = ±Q): Z' = 0.  This is T + Q when T = −Q; it is wrong when T = Q
(see `add_step_same_point`). -/
theorem add_step_point_vert {T : Jac (Q2 K)} {x y : Q2 K} (Q : Aff (Q2 K))
    (hT : Pt.ofJac T = .aff x y) (hx : x = Q.x) :
    Pt.ofJac (miller_addition_step T Q).2 = Pt.inf := by
  let _ := Q2.instField hnr
  obtain ⟨hz, rfl, rfl⟩ := ofJac_aff_iff.mp hT
  have hH : Q.x * T.z ^ 2 - T.x = 0 := (aff_x_eq_iff hz).mp hx
  apply Pt.ofJac_z0
  rw [add_step_z, hH]; ring

/-- **3, the case Z = 0** (running point ∞): the step stays at ∞ (Z' = 0), whereas ∞ + Q = Q in the group.
Unreachable from a point of prime order r > |x|. -/
theorem add_step_point_z0 (T : Jac (Q2 K)) (Q : Aff (Q2 K)) (hz : T.z = 0) :
    Pt.ofJac (miller_addition_step T Q).2 = Pt.inf := by
  let _ := Q2.instField hnr
  apply Pt.ofJac_z0
  rw [add_step_z, hz]; ring

/-- **3. `add_step_line`** — T with affine image (x, y), x ≠ x₂:
`lineEl (a,b,c) P = a · w³ · ℓ_{T,Q}(P)`, ℓ the Spec's chord through ψ(T) (slope through Q);
a = 4Z(x₂Z² − X) (`add_step_coeffs`). -/
theorem add_step_line {T : Jac (Q2 K)} {x y : Q2 K} (Q : Aff (Q2 K)) (hT : Pt.ofJac T = .aff x y)
    (hx : x ≠ Q.x) (P : Aff K) :
    lineEl (miller_addition_step T Q).1 P =
      Q12.ofQ2 (miller_addition_step T Q).1.a * Q12.w ^ 3 *
        lineEvalG (Pt.chordSlope x y Q.x Q.y) x y P.x P.y := by
  let _ := Q2.instField hnr
  obtain ⟨hz, rfl, rfl⟩ := ofJac_aff_iff.mp hT
  have hH : Q.x * T.z ^ 2 - T.x ≠ 0 := fun h => hx ((aff_x_eq_iff hz).mpr h)
  obtain ⟨e1, e2⟩ := chord_coeffs (y2 := Q.y) (Y := T.y) hz hH
  rw [lineEvalG_scale h2, lineEl_eq, add_step_coeffs]
  simp only
  rw [e2, e1]

/-- **3, the case x = x₂**: the line element is the vertical line through Q (and T),
`lineEl (a,b,c) P = b · w² · (xP − x₂ w⁻²)`, b = −4(y₂Z³ − Y) (= −8 y₂ Z³ when T = −Q; = 0 when T = Q). -/
theorem add_step_line_vert {T : Jac (Q2 K)} {x y : Q2 K} (Q : Aff (Q2 K))
    (hT : Pt.ofJac T = .aff x y) (hx : x = Q.x) (P : Aff K) :
    lineEl (miller_addition_step T Q).1 P =
      Q12.ofQ2 (miller_addition_step T Q).1.b * Q12.w ^ 2 * vertEvalG x P.x := by
  let _ := Q2.instField hnr
  obtain ⟨hz, rfl, rfl⟩ := ofJac_aff_iff.mp hT
  have hH : Q.x * T.z ^ 2 - T.x = 0 := (aff_x_eq_iff hz).mp hx
  have ha : (miller_addition_step T Q).1.a = 0 := by
    rw [add_step_coeffs]; simp only; rw [hH]; ring
  rw [add_step_line_through_Q, ha, vertEvalG_scale h2, hx, Q12.ofQ2_zero, Q12.ofQ2_neg, Q12.ofQ2_mul]
  ring

/-- **3, the case Z = 0**: the line element is b · w² · (vertical line through Q) with b = 4Y, although the
Spec's step from ∞ multiplies by 1. -/
theorem add_step_line_z0 (T : Jac (Q2 K)) (Q : Aff (Q2 K)) (hz : T.z = 0) (P : Aff K) :
    lineEl (miller_addition_step T Q).1 P =
      Q12.ofQ2 (miller_addition_step T Q).1.b * Q12.w ^ 2 * vertEvalG Q.x P.x := by
  have ha : (miller_addition_step T Q).1.a = 0 := by
    rw [add_step_coeffs]; simp only; rw [hz]; ring
  rw [add_step_line_through_Q, ha, vertEvalG_scale h2, Q12.ofQ2_zero, Q12.ofQ2_neg, Q12.ofQ2_mul]
  ring

/-! ### The steps against the Spec's `millerLine` (line value and new point together) -/

/-- **doubling step = `millerLine T T` up to κ, for EVERY triple T** (Z = 0, Y = 0 included; no curve equation):
line element = `dblKappa T` · (Spec line value), and the new point is the Spec's new point. -/
theorem dbl_step_millerLine (T : Jac (Q2 K)) (P : Aff K) :
    lineEl (miller_doubling_step T).1 P =
        dblKappa T * (millerLineG (Pt.ofJac T) (Pt.ofJac T) P.x P.y).1 ∧
      Pt.ofJac (miller_doubling_step T).2 = (millerLineG (Pt.ofJac T) (Pt.ofJac T) P.x P.y).2 := by
  let _ := Q2.instField hnr
  by_cases hz : T.z = 0
  · have hT : Pt.ofJac T = Pt.inf := Pt.ofJac_z0 hz
    have hm : millerLineG (Pt.inf : Pt (Q2 K)) Pt.inf P.x P.y = (1, Pt.inf) := rfl
    rw [hT, hm]
    refine ⟨?_, ?_⟩
    · simp only [dblKappa, if_pos hz, mul_one]
      exact (dbl_step_line_z0 T hz P).1
    · exact Pt.ofJac_z0 (dbl_step_line_z0 T hz P).2
  · have hT : Pt.ofJac T = Pt.aff (T.x * (T.z⁻¹ * T.z⁻¹)) (T.y * (T.z⁻¹ * T.z⁻¹ * T.z⁻¹)) :=
      ofJac_aff_iff.mpr ⟨hz, rfl, rfl⟩
    have hyy : T.y * (T.z⁻¹ * T.z⁻¹ * T.z⁻¹) = -(T.y * (T.z⁻¹ * T.z⁻¹ * T.z⁻¹)) ↔ T.y = 0 := by
      constructor
      · intro h
        by_contra hy
        have hne : T.y * (T.z⁻¹ * T.z⁻¹ * T.z⁻¹) ≠ 0 :=
          mul_ne_zero hy (mul_ne_zero (mul_ne_zero (inv_ne_zero hz) (inv_ne_zero hz)) (inv_ne_zero hz))
        exact two_y_ne (Q2.two_ne_zero hnr h2) hne h
      · intro h; rw [h]; ring
    by_cases hy : T.y = 0
    · have hm : millerLineG (Pt.ofJac T) (Pt.ofJac T) P.x P.y =
          (vertEvalG (T.x * (T.z⁻¹ * T.z⁻¹)) P.x, Pt.inf) := by
        rw [hT]; simp only [millerLineG, if_true, if_pos (hyy.mpr hy)]
      rw [hm]
      obtain ⟨e1, e2⟩ := dbl_step_line_y0 hnr h2 hT hy P
      refine ⟨?_, Pt.ofJac_z0 e2⟩
      simp only [dblKappa, if_neg hz, if_pos hy]
      exact e1
    · have hm : millerLineG (Pt.ofJac T) (Pt.ofJac T) P.x P.y =
          (lineEvalG (Pt.tangentSlope (T.x * (T.z⁻¹ * T.z⁻¹)) (T.y * (T.z⁻¹ * T.z⁻¹ * T.z⁻¹)))
              (T.x * (T.z⁻¹ * T.z⁻¹)) (T.y * (T.z⁻¹ * T.z⁻¹ * T.z⁻¹)) P.x P.y,
            Pt.add (Pt.ofJac T) (Pt.ofJac T)) := by
        rw [hT]; simp only [millerLineG, if_true, if_neg (fun h => hy (hyy.mp h))]
      rw [hm]
      refine ⟨?_, dbl_step_point_add hnr h2 T⟩
      simp only [dblKappa, if_neg hz, if_neg hy]
      exact dbl_step_line hnr h2 hT hy P

/-- **addition step = `millerLine T Q` up to κ**, for T with affine image (x, y) and T ≠ Q in the sense
`x = x₂ → y = −y₂` (on a curve y² = x³ + b this is exactly T ≠ Q, see `same_x_on_curve`). -/
theorem add_step_millerLine {T : Jac (Q2 K)} {x y : Q2 K} (Q : Aff (Q2 K))
    (hT : Pt.ofJac T = .aff x y) (hTQ : x = Q.x → y = -Q.y) (P : Aff K) :
    lineEl (miller_addition_step T Q).1 P =
        addKappa T Q * (millerLineG (.aff x y) (.aff Q.x Q.y) P.x P.y).1 ∧
      Pt.ofJac (miller_addition_step T Q).2 = (millerLineG (.aff x y) (.aff Q.x Q.y) P.x P.y).2 := by
  let _ := Q2.instField hnr
  obtain ⟨hz, hxd, hyd⟩ := ofJac_aff_iff.mp hT
  have hxiff : x = Q.x ↔ T.x = Q.x * (T.z * T.z) := by
    rw [hxd, aff_x_eq_iff hz]
    constructor
    · intro h; linear_combination -h
    · intro h; linear_combination -h
  by_cases hx : x = Q.x
  · have hm : millerLineG (.aff x y) (.aff Q.x Q.y) P.x P.y = (vertEvalG x P.x, Pt.inf) := by
      simp only [millerLineG, if_pos hx, if_pos (hTQ hx)]
    rw [hm]
    refine ⟨?_, add_step_point_vert hnr h2 Q hT hx⟩
    simp only [addKappa, if_pos (hxiff.mp hx)]
    exact add_step_line_vert hnr h2 Q hT hx P
  · have hm : millerLineG (.aff x y) (.aff Q.x Q.y) P.x P.y =
        (lineEvalG (Pt.chordSlope x y Q.x Q.y) x y P.x P.y, Pt.add (.aff x y) (.aff Q.x Q.y)) := by
      simp only [millerLineG, if_neg hx]
    rw [hm]
    refine ⟨?_, add_step_point hnr h2 Q hT hx⟩
    simp only [addKappa, if_neg (fun h => hx (hxiff.mpr h))]
    exact add_step_line hnr h2 Q hT hx P

omit h2 in
/-- on y² = x³ + b two points with the same x are equal or opposite. -/
theorem same_x_on_curve {b x y x2 y2 : Q2 K} (h1 : y * y = x * x * x + b)
    (h2' : y2 * y2 = x2 * x2 * x2 + b) (hx : x = x2) : y = y2 ∨ y = -y2 := by
  let _ := Q2.instField hnr
  have : (y - y2) * (y + y2) = 0 := by rw [hx] at h1; linear_combination h1 - h2'
  rcases mul_eq_zero.mp this with h | h
  · left; linear_combination h
  · right; linear_combination h

/-! ### κ is a unit of the form k·w^j, k ∈ Fq2 nonzero -/

omit [DecidableEq K] in
theorem kappa_unit {k : Q2 K} (hk : k ≠ 0) (j : Nat) :
    (Q12.ofQ2 k * Q12.w ^ j) * (Q12.ofQ2 k⁻¹ * wInvG ^ j) = 1 := by
  let _ := Q2.instField hnr
  have hW := wInvG_mul_w h2
  have hk' : Q12.ofQ2 k * Q12.ofQ2 k⁻¹ = 1 := by
    rw [← Q12.ofQ2_mul, mul_inv_cancel₀ hk, Q12.ofQ2_one]
  calc (Q12.ofQ2 k * Q12.w ^ j) * (Q12.ofQ2 k⁻¹ * wInvG ^ j)
      = (Q12.ofQ2 k * Q12.ofQ2 k⁻¹) * (wInvG * Q12.w) ^ j := by rw [mul_pow]; ring
    _ = 1 := by rw [hk', hW, one_pow, one_mul]

theorem dbl_a_ne_zero {T : Jac (Q2 K)} (hz : T.z ≠ 0) (hy : T.y ≠ 0) :
    (miller_doubling_step T).1.a ≠ 0 := by
  let _ := Q2.instField hnr
  have h2' := Q2.two_ne_zero hnr h2
  rw [dbl_step_coeffs]; simp only
  have : (4 : Q2 K) = 2 * 2 := by norm_num
  rw [this]
  exact mul_ne_zero (mul_ne_zero (mul_ne_zero h2' h2') hy) (pow_ne_zero _ hz)

theorem add_a_ne_zero {T : Jac (Q2 K)} {Q : Aff (Q2 K)} (hz : T.z ≠ 0)
    (hH : T.x ≠ Q.x * (T.z * T.z)) : (miller_addition_step T Q).1.a ≠ 0 := by
  let _ := Q2.instField hnr
  have h2' := Q2.two_ne_zero hnr h2
  rw [add_step_coeffs]; simp only
  have : (4 : Q2 K) = 2 * 2 := by norm_num
  rw [this]
  refine mul_ne_zero (mul_ne_zero (mul_ne_zero h2' h2') hz) ?_
  intro h; exact hH (by linear_combination -h)

/-- vertical case of the addition step, T = −Q (Y = −y₂Z³): b = −8 y₂ Z³, nonzero iff y₂ ≠ 0. -/
theorem add_b_vert {T : Jac (Q2 K)} {Q : Aff (Q2 K)} (hy : T.y = -(Q.y * T.z ^ 3)) :
    (miller_addition_step T Q).1.b = -(8 * Q.y * T.z ^ 3) := by
  rw [add_step_coeffs]; simp only; rw [hy]; ring

end Main

/-! ### Non-vacuity: Gaussian rationals `Q2 ℚ`, curve y² = x³ + (1 + u), T = (u, 1) represented as (4u : 8 : 2),
P = (3, 5) (the line identities need no curve equation for P) -/
section NonVacuity

private theorem hnrQ : ∀ x y : ℚ, x * x + y * y = 0 → x = 0 ∧ y = 0 :=
  fun _ _ h => mul_self_add_mul_self_eq_zero.mp h
private def T0 : Jac (Q2 ℚ) := ⟨⟨0, 4⟩, ⟨8, 0⟩, ⟨2, 0⟩⟩
private def Q0 : Aff (Q2 ℚ) := ⟨⟨0, 1⟩, ⟨1, 0⟩, false⟩
private def P0 : Aff ℚ := ⟨3, 5, false⟩

example : Pt.isOnCurve (⟨1, 1⟩ : Q2 ℚ) (Pt.ofJac T0) = true := by decide +kernel
example : Pt.ofJac T0 = Pt.aff ⟨0, 1⟩ ⟨1, 0⟩ := by decide +kernel
/-- the tangent-line theorem fires, and both sides are a nonzero element of `Q12 ℚ` -/
example : lineEl (miller_doubling_step T0).1 P0 =
    Q12.ofQ2 (miller_doubling_step T0).1.a * Q12.w ^ 3 *
      lineEvalG (Pt.tangentSlope (⟨0, 1⟩ : Q2 ℚ) ⟨1, 0⟩) ⟨0, 1⟩ ⟨1, 0⟩ 3 5 :=
  dbl_step_line hnrQ (by norm_num) (T := T0) (by decide +kernel) (by decide +kernel) P0
example : lineEl (miller_doubling_step T0).1 P0 ≠ 0 := by decide +kernel
example : (miller_doubling_step T0).1.a = (⟨256, 0⟩ : Q2 ℚ) := by decide +kernel
example : Pt.ofJac (miller_doubling_step T0).2 = Pt.dbl (Pt.ofJac T0) := dbl_step_point hnrQ (by norm_num) T0
example : Pt.ofJac (miller_doubling_step T0).2 ≠ Pt.inf := by decide +kernel
/-- chord: running point 2T (as the doubling step left it, Z = 32), Q = T = (u, 1); x(2T) ≠ x(Q) -/
example : Pt.ofJac (miller_doubling_step T0).2 = Pt.aff ⟨9 / 4, -2⟩ ⟨19 / 8, -9 / 2⟩ := by decide +kernel
example : lineEl (miller_addition_step (miller_doubling_step T0).2 Q0).1 P0 =
    Q12.ofQ2 (miller_addition_step (miller_doubling_step T0).2 Q0).1.a * Q12.w ^ 3 *
      lineEvalG (Pt.chordSlope (⟨9 / 4, -2⟩ : Q2 ℚ) ⟨19 / 8, -9 / 2⟩ Q0.x Q0.y) ⟨9 / 4, -2⟩ ⟨19 / 8, -9 / 2⟩ 3 5 :=
  add_step_line hnrQ (by norm_num) Q0 (by decide +kernel) (by decide +kernel) P0
example : lineEl (miller_addition_step (miller_doubling_step T0).2 Q0).1 P0 ≠ 0 := by decide +kernel
example : Pt.ofJac (miller_addition_step (miller_doubling_step T0).2 Q0).2 =
    Pt.add (Pt.aff ⟨9 / 4, -2⟩ ⟨19 / 8, -9 / 2⟩) (Pt.aff Q0.x Q0.y) :=
  add_step_point hnrQ (by norm_num) Q0 (by decide +kernel) (by decide +kernel)
example : Pt.ofJac (miller_addition_step (miller_doubling_step T0).2 Q0).2 ≠ Pt.inf := by decide +kernel
/-- the exceptional behaviours are real: T = Q gives the zero line and Z' = 0; T = −Q gives the vertical line -/
example : lineEl (miller_addition_step T0 Q0).1 P0 = 0 ∧ (miller_addition_step T0 Q0).2.z = 0 := by
  decide +kernel
example : lineEl (miller_addition_step T0 ⟨⟨0, 1⟩, ⟨-1, 0⟩, false⟩).1 P0 =
    Q12.ofQ2 (miller_addition_step T0 ⟨⟨0, 1⟩, ⟨-1, 0⟩, false⟩).1.b * Q12.w ^ 2 * vertEvalG ⟨0, 1⟩ 3 :=
  add_step_line_vert hnrQ (by norm_num) _ (T := T0) (y := ⟨1, 0⟩) (by decide +kernel) rfl P0
example : lineEl (miller_addition_step T0 ⟨⟨0, 1⟩, ⟨-1, 0⟩, false⟩).1 P0 ≠ 0 := by decide +kernel
/-- Y = 0 (a 2-torsion point of y² = x³ + 1): vertical line, 2T = ∞ -/
example : lineEl (miller_doubling_step (⟨⟨-4, 0⟩, ⟨0, 0⟩, ⟨2, 0⟩⟩ : Jac (Q2 ℚ))).1 P0 ≠ 0 ∧
    (miller_doubling_step (⟨⟨-4, 0⟩, ⟨0, 0⟩, ⟨2, 0⟩⟩ : Jac (Q2 ℚ))).2.z = 0 := by decide +kernel

end NonVacuity

end Jedi
