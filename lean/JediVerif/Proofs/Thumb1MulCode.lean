/-
The instruction lists of the five large ARMv6-M routines of /repo/src/core/arch/armv6_m/multiply.s, rebuilt by functions that
mirror the macros of the source (`multiply32part1`, …, `multiplyloopiteration`, `montgomeryreduceloopiteration`,
`square768part1/2/3`), and the check (by evaluation, `decide +kernel` on closed lists) that they ARE the programs of
`JediVerif/Gen/AsmV6M.lean` regenerated from the sources.  Theorems are proved about the macro functions once and
instantiated; nothing here is trusted: if the assembly changes, the `code_*` theorems fail.
-/
import JediVerif.Proofs.Thumb1MulInfra
namespace Jedi.Thumb1.Code
open Jedi.Thumb1

/-! the macros of multiply.s as functions producing instruction lists -/
def part1 (a1 a2 s : Reg) : List Instr :=
  [.uxth .r5 a1, .uxth .r6 a2, .lsrsImm .r4 a1 16, .lsrsImm s a2 16, .movLo .r7 .r6,
   .alu .muls .r6 .r5, .alu .muls .r5 s, .alu .muls s .r4, .alu .muls .r4 .r7,
   .addsReg .r4 .r4 .r5, .alu .eors .r5 .r5, .alu .adcs .r5 .r5]
def part2 : List Instr := [.lslsImm .r5 .r5 16]
def part3 (s : Reg) : List Instr :=
  [.alu .adcs s .r5, .lslsImm .r5 .r4 16, .lsrsImm .r4 .r4 16, .addsReg .r6 .r6 .r5, .alu .adcs s .r4]
def multiply32 (a1 a2 s : Reg) : List Instr := part1 a1 a2 s ++ part2 ++ part3 s
def mulcarry32 (a1 a2 s c : Reg) : List Instr := part1 a1 a2 s ++ part2 ++ [.addsReg .r6 .r6 c] ++ part3 s
def muladd32 (a1 a2 : Reg) (off : Nat) (s : Reg) : List Instr :=
  part1 a1 a2 s ++ part2 ++ [.ldrImm .r7 .sp off, .addsReg .r6 .r6 .r7] ++ part3 s
def muladdcarry32 (a1 a2 : Reg) (off : Nat) (s c : Reg) : List Instr :=
  part1 a1 a2 s ++ [.lslsImm .r5 .r5 15, .addsReg .r6 .r6 c, .alu .adcs .r5 .r5, .ldrImm .r7 .sp off, .addsReg .r6 .r6 .r7] ++ part3 s

/-! data / carry registers alternate along a row: cell `j` puts its high word in `r3` if `j` is even (`…B`), in `r0` if odd (`…A`) -/

/-- one cell of multiplication row 0 (`A`: odd column, high word to `r0`, carry from `r3`; `B`: even column, the other way round):
`mov r4, r10; ldr d, [r2, #jo]; mulcarry32 r4, d, d, c; str r6, [sp, #jo]` -/
def mulCell0A (jo : Nat) : List Instr :=
  [.movHi .r4 .r10, .ldrImm .r0 .r2 jo] ++ mulcarry32 .r4 .r0 .r0 .r3 ++ [.strImm .r6 .sp jo]
def mulCell0B (jo : Nat) : List Instr :=
  [.movHi .r4 .r10, .ldrImm .r3 .r2 jo] ++ mulcarry32 .r4 .r3 .r3 .r0 ++ [.strImm .r6 .sp jo]
/-- one cell of a multiplication row `i ≥ 1`: `mov r4, r10; ldr d, [r2, #jo]; muladdcarry32 r4, d, off, d, c; str r6, [sp, #off]` -/
def mulCellA (jo off : Nat) : List Instr :=
  [.movHi .r4 .r10, .ldrImm .r0 .r2 jo] ++ muladdcarry32 .r4 .r0 off .r0 .r3 ++ [.strImm .r6 .sp off]
def mulCellB (jo off : Nat) : List Instr :=
  [.movHi .r4 .r10, .ldrImm .r3 .r2 jo] ++ muladdcarry32 .r4 .r3 off .r3 .r0 ++ [.strImm .r6 .sp off]

def mulRow0 : List Instr :=
  [.ldrImm .r4 .r1 0, .movHi .r10 .r4, .ldrImm .r3 .r2 0] ++ multiply32 .r4 .r3 .r3 ++ [.strImm .r6 .sp 0]
  ++ mulCell0A 4 ++ mulCell0B 8 ++ mulCell0A 12 ++ mulCell0B 16 ++ mulCell0A 20 ++ mulCell0B 24 ++ mulCell0A 28 ++ mulCell0B 32
  ++ mulCell0A 36 ++ mulCell0B 40 ++ mulCell0A 44 ++ [.strImm .r0 .sp 48]
/-- `multiplyloopiteration i` with `io = 4 i` -/
def mulRow (io : Nat) : List Instr :=
  [.ldrImm .r4 .r1 io, .movHi .r10 .r4, .ldrImm .r3 .r2 0] ++ muladd32 .r4 .r3 io .r3 ++ [.strImm .r6 .sp io]
  ++ mulCellA 4 (io + 4) ++ mulCellB 8 (io + 8) ++ mulCellA 12 (io + 12) ++ mulCellB 16 (io + 16) ++ mulCellA 20 (io + 20) ++ mulCellB 24 (io + 24) ++ mulCellA 28 (io + 28) ++ mulCellB 32 (io + 32) ++ mulCellA 36 (io + 36) ++ mulCellB 40 (io + 40) ++ mulCellA 44 (io + 44) ++ [.strImm .r0 .sp (io + 48)]
def multiply768 : List Instr :=
  mulRow0 ++ mulRow 4 ++ mulRow 8 ++ mulRow 12 ++ mulRow 16 ++ mulRow 20 ++ mulRow 24 ++ mulRow 28 ++ mulRow 32 ++ mulRow 36 ++ mulRow 40 ++ mulRow 44

def copy6 (src dst : Reg) : List Instr :=
  [.ldm src [.r2, .r3, .r4, .r5, .r6, .r7], .stm dst [.r2, .r3, .r4, .r5, .r6, .r7]]
def copy24 (src dst : Reg) : List Instr := copy6 src dst ++ copy6 src dst ++ copy6 src dst ++ copy6 src dst

def saveRegs (lr : Bool) : List Instr :=
  [.push [.r4, .r5, .r6, .r7] lr, .movHi .r4 .r8, .movHi .r5 .r9, .movHi .r6 .r10, .movHi .r7 .r11, .push [.r4, .r5, .r6, .r7] false]
def restoreRegs (pc : Bool) : List Instr :=
  [.pop [.r4, .r5, .r6, .r7] false, .movHi .r11 .r7, .movHi .r10 .r6, .movHi .r9 .r5, .movHi .r8 .r4, .pop [.r4, .r5, .r6, .r7] pc]

def bigint_768_multiply : List Instr :=
  saveRegs true ++ [.movHi .r8 .r3, .ldrImm .r4 .sp 36, .movHi .r9 .r4, .movHi .r11 .r0, .decSp 96]
  ++ multiply768 ++ [.movHi .r0 .r11, .movHi .r1 .sp] ++ copy24 .r1 .r0 ++ [.incSp 96] ++ restoreRegs true

/-! Montgomery reduction -/
def montCellA (jo off : Nat) : List Instr :=
  [.ldrImm .r0 .r1 jo] ++ muladdcarry32 .r2 .r0 off .r0 .r3 ++ [.strImm .r6 .sp off]
def montCellB (jo off : Nat) : List Instr :=
  [.ldrImm .r3 .r1 jo] ++ muladdcarry32 .r2 .r3 off .r3 .r0 ++ [.strImm .r6 .sp off]
/-- `montgomeryreduceloopiterationraw i` with `io = 4 i` -/
def montRowRaw (io : Nat) : List Instr :=
  [.ldrImm .r3 .r1 0] ++ muladd32 .r2 .r3 io .r3 ++ montCellA 4 (io + 4) ++ montCellB 8 (io + 8) ++ montCellA 12 (io + 12) ++ montCellB 16 (io + 16) ++ montCellA 20 (io + 20) ++ montCellB 24 (io + 24) ++ montCellA 28 (io + 28) ++ montCellB 32 (io + 32) ++ montCellA 36 (io + 36) ++ montCellB 40 (io + 40) ++ montCellA 44 (io + 44)
def montRow0 : List Instr :=
  [.ldrImm .r3 .sp 0, .alu .muls .r2 .r3] ++ montRowRaw 0
  ++ [.ldrImm .r3 .sp 48, .addsReg .r0 .r0 .r3, .strImm .r0 .sp 48, .alu .adcs .r3 .r3, .movHi .r8 .r3]
def montRow (io : Nat) : List Instr :=
  [.movHi .r2 .r9, .ldrImm .r3 .sp io, .alu .muls .r2 .r3] ++ montRowRaw io
  ++ [.movHi .r3 .r8, .lsrsImm .r3 .r3 1, .ldrImm .r3 .sp (io + 48), .alu .adcs .r0 .r3, .strImm .r0 .sp (io + 48), .alu .adcs .r3 .r3, .movHi .r8 .r3]
def montRow11 : List Instr :=
  [.movHi .r2 .r9, .ldrImm .r3 .sp 44, .alu .muls .r2 .r3] ++ montRowRaw 44
  ++ [.movHi .r3 .r8, .lsrsImm .r3 .r3 1, .ldrImm .r3 .sp 92, .alu .adcs .r0 .r3, .strImm .r0 .sp 92]
def montgomeryreduce384 : List Instr :=
  montRow0 ++ montRow 4 ++ montRow 8 ++ montRow 12 ++ montRow 16 ++ montRow 20 ++ montRow 24 ++ montRow 28 ++ montRow 32 ++ montRow 36 ++ montRow 40 ++ montRow11
def montFinal : List Instr :=
  [.movHi .r0 .r11, .movLo .r2 .r1, .addSpImm .r1 48, .bl .fpbase_384_reduce, .incSp 96] ++ restoreRegs true

def fpbase_384_montgomery_reduce : List Instr :=
  saveRegs true ++ [.movHi .r8 .r2, .movHi .r9 .r3, .movHi .r11 .r0, .decSp 96, .movHi .r0 .sp] ++ copy24 .r1 .r0
  ++ [.movHi .r1 .r8, .movHi .r2 .r9] ++ montgomeryreduce384 ++ montFinal

def fpbase_384_multiply : List Instr :=
  saveRegs true ++ [.movHi .r8 .r3, .movHi .r11 .r0, .decSp 96] ++ multiply768
  ++ [.movHi .r1 .r8, .ldrImm .r2 .sp 132, .movHi .r9 .r2] ++ montgomeryreduce384 ++ montFinal

/-! squaring -/
def sqpart1 (a s : Reg) : List Instr :=
  [.uxth .r6 a, .lsrsImm s a 16, .movLo .r4 .r6, .alu .muls .r6 .r6, .alu .muls .r4 s, .alu .muls s s,
   .addsReg .r4 .r4 .r4, .alu .eors .r5 .r5, .alu .adcs .r5 .r5]
def squareadd32 (a : Reg) (off : Nat) (s : Reg) : List Instr :=
  sqpart1 a s ++ part2 ++ [.ldrImm .r7 .sp off, .addsReg .r6 .r6 .r7] ++ part3 s
def squareaddcarry32 (a : Reg) (off : Nat) (s c : Reg) : List Instr :=
  sqpart1 a s ++ [.lslsImm .r5 .r5 15, .addsReg .r6 .r6 c, .alu .adcs .r5 .r5, .ldrImm .r7 .sp off, .addsReg .r6 .r6 .r7] ++ part3 s

/-- first cell of a triangle row: `ldr r3, [r1, #0]; muladd32 r2, r3, off, r3; str r6, [sp, #off]` -/
def sqFirst (off : Nat) : List Instr :=
  [.ldrImm .r3 .r1 0] ++ muladd32 .r2 .r3 off .r3 ++ [.strImm .r6 .sp off]
/-- last cell of a triangle row (the word at `off` has not been written yet): `ldr d, [r1, #jo]; mulcarry32 r2, d, d, c; str r6, [sp, #off]` -/
def sqLastA (jo off : Nat) : List Instr :=
  [.ldrImm .r0 .r1 jo] ++ mulcarry32 .r2 .r0 .r0 .r3 ++ [.strImm .r6 .sp off]
def sqLastB (jo off : Nat) : List Instr :=
  [.ldrImm .r3 .r1 jo] ++ mulcarry32 .r2 .r3 .r3 .r0 ++ [.strImm .r6 .sp off]
/-! row `i` of the triangle (`i = 2..11`): `tmp[i .. 2i] := a[i]·a[0..i) + tmp[i .. 2i−2]`; the middle cells are those of a Montgomery row -/
def sqRow2 : List Instr :=
  [.ldrImm .r2 .r1 8] ++ sqFirst 8 ++ sqLastA 4 12 ++ [.strImm .r0 .sp 16]
def sqRow3 : List Instr :=
  [.ldrImm .r2 .r1 12] ++ sqFirst 12 ++ montCellA 4 16 ++ sqLastB 8 20 ++ [.strImm .r3 .sp 24]
def sqRow4 : List Instr :=
  [.ldrImm .r2 .r1 16] ++ sqFirst 16 ++ montCellA 4 20 ++ montCellB 8 24 ++ sqLastA 12 28 ++ [.strImm .r0 .sp 32]
def sqRow5 : List Instr :=
  [.ldrImm .r2 .r1 20] ++ sqFirst 20 ++ montCellA 4 24 ++ montCellB 8 28 ++ montCellA 12 32 ++ sqLastB 16 36 ++ [.strImm .r3 .sp 40]
def sqRow6 : List Instr :=
  [.ldrImm .r2 .r1 24] ++ sqFirst 24 ++ montCellA 4 28 ++ montCellB 8 32 ++ montCellA 12 36 ++ montCellB 16 40 ++ sqLastA 20 44 ++ [.strImm .r0 .sp 48]
def sqRow7 : List Instr :=
  [.ldrImm .r2 .r1 28] ++ sqFirst 28 ++ montCellA 4 32 ++ montCellB 8 36 ++ montCellA 12 40 ++ montCellB 16 44 ++ montCellA 20 48 ++ sqLastB 24 52 ++ [.strImm .r3 .sp 56]
def sqRow8 : List Instr :=
  [.ldrImm .r2 .r1 32] ++ sqFirst 32 ++ montCellA 4 36 ++ montCellB 8 40 ++ montCellA 12 44 ++ montCellB 16 48 ++ montCellA 20 52 ++ montCellB 24 56 ++ sqLastA 28 60 ++ [.strImm .r0 .sp 64]
def sqRow9 : List Instr :=
  [.ldrImm .r2 .r1 36] ++ sqFirst 36 ++ montCellA 4 40 ++ montCellB 8 44 ++ montCellA 12 48 ++ montCellB 16 52 ++ montCellA 20 56 ++ montCellB 24 60 ++ montCellA 28 64 ++ sqLastB 32 68 ++ [.strImm .r3 .sp 72]
def sqRow10 : List Instr :=
  [.ldrImm .r2 .r1 40] ++ sqFirst 40 ++ montCellA 4 44 ++ montCellB 8 48 ++ montCellA 12 52 ++ montCellB 16 56 ++ montCellA 20 60 ++ montCellB 24 64 ++ montCellA 28 68 ++ montCellB 32 72 ++ sqLastA 36 76 ++ [.strImm .r0 .sp 80]
def sqRow11 : List Instr :=
  [.ldrImm .r2 .r1 44] ++ sqFirst 44 ++ montCellA 4 48 ++ montCellB 8 52 ++ montCellA 12 56 ++ montCellB 16 60 ++ montCellA 20 64 ++ montCellB 24 68 ++ montCellA 28 72 ++ montCellB 32 76 ++ montCellA 36 80 ++ sqLastB 40 84 ++ [.strImm .r3 .sp 88]
def sqRow1 : List Instr :=
  [.ldrImm .r2 .r1 4, .ldrImm .r3 .r1 0] ++ multiply32 .r2 .r3 .r3 ++ [.strImm .r6 .sp 4, .strImm .r3 .sp 8]
def square768part1 : List Instr :=
  sqRow1 ++ sqRow2 ++ sqRow3 ++ sqRow4 ++ sqRow5 ++ sqRow6 ++ sqRow7 ++ sqRow8 ++ sqRow9 ++ sqRow10 ++ sqRow11
def adc6 : List Instr := [.alu .adcs .r2 .r2, .alu .adcs .r3 .r3, .alu .adcs .r4 .r4, .alu .adcs .r5 .r5, .alu .adcs .r6 .r6, .alu .adcs .r7 .r7]
def square768part2 : List Instr :=
  [.addSpImm .r0 4, .movHi .r1 .sp, .ldm .r0 [.r3, .r4, .r5, .r6, .r7], .alu .eors .r2 .r2, .addsReg .r3 .r3 .r3,
   .alu .adcs .r4 .r4, .alu .adcs .r5 .r5, .alu .adcs .r6 .r6, .alu .adcs .r7 .r7, .stm .r1 [.r2, .r3, .r4, .r5, .r6, .r7]]
  ++ [.ldm .r0 [.r2, .r3, .r4, .r5, .r6, .r7]] ++ adc6 ++ [.stm .r1 [.r2, .r3, .r4, .r5, .r6, .r7]]
  ++ [.ldm .r0 [.r2, .r3, .r4, .r5, .r6, .r7]] ++ adc6 ++ [.stm .r1 [.r2, .r3, .r4, .r5, .r6, .r7]]
  ++ [.ldm .r0 [.r2, .r3, .r4, .r5, .r6], .alu .adcs .r2 .r2, .alu .adcs .r3 .r3, .alu .adcs .r4 .r4, .alu .adcs .r5 .r5, .alu .adcs .r6 .r6,
      .alu .eors .r7 .r7, .alu .adcs .r7 .r7, .stm .r1 [.r2, .r3, .r4, .r5, .r6, .r7]]
def sqDiagTail (io : Nat) : List Instr :=
  [.strImm .r6 .sp io, .ldrImm .r6 .sp (io + 4), .addsReg .r6 .r6 .r2, .strImm .r6 .sp (io + 4), .alu .eors .r0 .r0, .alu .adcs .r0 .r0]
/-- `squarediagonaliteration i` with `ao = 4i`, `io = 8i` -/
def sqDiag (ao io : Nat) : List Instr :=
  [.ldrImm .r2 .r1 ao] ++ squareaddcarry32 .r2 io .r2 .r0 ++ sqDiagTail io
def sqDiag0 : List Instr := [.ldrImm .r2 .r1 0] ++ squareadd32 .r2 0 .r2 ++ sqDiagTail 0
def square768part3 : List Instr :=
  sqDiag0 ++ sqDiag 4 8 ++ sqDiag 8 16 ++ sqDiag 12 24 ++ sqDiag 16 32 ++ sqDiag 20 40 ++ sqDiag 24 48 ++ sqDiag 28 56 ++ sqDiag 32 64
  ++ sqDiag 36 72 ++ sqDiag 40 80 ++ sqDiag 44 88

def bigint_768_square : List Instr :=
  [.push [.r4, .r5, .r6, .r7] false, .movHi .r4 .r8, .movHi .r5 .r9, .movHi .r6 .r10, .movHi .r7 .r11, .push [.r4, .r5, .r6, .r7] false,
   .movHi .r8 .r0, .movHi .r9 .r1, .decSp 96]
  ++ square768part1 ++ square768part2 ++ [.movHi .r1 .r9] ++ square768part3
  ++ [.movHi .r0 .r8, .movHi .r1 .sp] ++ copy24 .r1 .r0 ++ [.incSp 96] ++ restoreRegs false ++ [.bx .lr]

def fpbase_384_square : List Instr :=
  saveRegs true ++ [.movHi .r8 .r2, .movHi .r9 .r3, .movHi .r10 .r1, .movHi .r11 .r0, .decSp 96]
  ++ square768part1 ++ square768part2 ++ [.movHi .r1 .r10] ++ square768part3
  ++ [.movHi .r1 .r8, .movHi .r2 .r9] ++ montgomeryreduce384 ++ montFinal

end Jedi.Thumb1.Code

namespace Jedi.Thumb1
open Jedi.Gen.AsmV6M
set_option maxRecDepth 100000 in
theorem code_bigint_768_multiply : embedded_pairing_core_arch_armv6_m_bigint_768_multiply.toList = Code.bigint_768_multiply := by
  have h : embedded_pairing_core_arch_armv6_m_bigint_768_multiply.toList = embedded_pairing_core_arch_armv6_m_bigint_768_multiply_chunk0.toList ++ embedded_pairing_core_arch_armv6_m_bigint_768_multiply_chunk1.toList ++ embedded_pairing_core_arch_armv6_m_bigint_768_multiply_chunk2.toList ++ embedded_pairing_core_arch_armv6_m_bigint_768_multiply_chunk3.toList ++ embedded_pairing_core_arch_armv6_m_bigint_768_multiply_chunk4.toList ++ embedded_pairing_core_arch_armv6_m_bigint_768_multiply_chunk5.toList ++ embedded_pairing_core_arch_armv6_m_bigint_768_multiply_chunk6.toList ++ embedded_pairing_core_arch_armv6_m_bigint_768_multiply_chunk7.toList ++ embedded_pairing_core_arch_armv6_m_bigint_768_multiply_chunk8.toList ++ embedded_pairing_core_arch_armv6_m_bigint_768_multiply_chunk9.toList ++ embedded_pairing_core_arch_armv6_m_bigint_768_multiply_chunk10.toList ++ embedded_pairing_core_arch_armv6_m_bigint_768_multiply_chunk11.toList ++ embedded_pairing_core_arch_armv6_m_bigint_768_multiply_chunk12.toList ++ embedded_pairing_core_arch_armv6_m_bigint_768_multiply_chunk13.toList ++ embedded_pairing_core_arch_armv6_m_bigint_768_multiply_chunk14.toList ++ embedded_pairing_core_arch_armv6_m_bigint_768_multiply_chunk15.toList ++ embedded_pairing_core_arch_armv6_m_bigint_768_multiply_chunk16.toList ++ embedded_pairing_core_arch_armv6_m_bigint_768_multiply_chunk17.toList := by
    simp only [embedded_pairing_core_arch_armv6_m_bigint_768_multiply, Array.toList_append]
  rw [h]
  decide +kernel
set_option maxRecDepth 100000 in
theorem code_bigint_768_square : embedded_pairing_core_arch_armv6_m_bigint_768_square.toList = Code.bigint_768_square := by
  have h : embedded_pairing_core_arch_armv6_m_bigint_768_square.toList = embedded_pairing_core_arch_armv6_m_bigint_768_square_chunk0.toList ++ embedded_pairing_core_arch_armv6_m_bigint_768_square_chunk1.toList ++ embedded_pairing_core_arch_armv6_m_bigint_768_square_chunk2.toList ++ embedded_pairing_core_arch_armv6_m_bigint_768_square_chunk3.toList ++ embedded_pairing_core_arch_armv6_m_bigint_768_square_chunk4.toList ++ embedded_pairing_core_arch_armv6_m_bigint_768_square_chunk5.toList ++ embedded_pairing_core_arch_armv6_m_bigint_768_square_chunk6.toList ++ embedded_pairing_core_arch_armv6_m_bigint_768_square_chunk7.toList ++ embedded_pairing_core_arch_armv6_m_bigint_768_square_chunk8.toList ++ embedded_pairing_core_arch_armv6_m_bigint_768_square_chunk9.toList := by
    simp only [embedded_pairing_core_arch_armv6_m_bigint_768_square, Array.toList_append]
  rw [h]
  decide +kernel
set_option maxRecDepth 100000 in
theorem code_fpbase_384_montgomery_reduce : embedded_pairing_core_arch_armv6_m_fpbase_384_montgomery_reduce.toList = Code.fpbase_384_montgomery_reduce := by
  have h : embedded_pairing_core_arch_armv6_m_fpbase_384_montgomery_reduce.toList = embedded_pairing_core_arch_armv6_m_fpbase_384_montgomery_reduce_chunk0.toList ++ embedded_pairing_core_arch_armv6_m_fpbase_384_montgomery_reduce_chunk1.toList ++ embedded_pairing_core_arch_armv6_m_fpbase_384_montgomery_reduce_chunk2.toList ++ embedded_pairing_core_arch_armv6_m_fpbase_384_montgomery_reduce_chunk3.toList ++ embedded_pairing_core_arch_armv6_m_fpbase_384_montgomery_reduce_chunk4.toList ++ embedded_pairing_core_arch_armv6_m_fpbase_384_montgomery_reduce_chunk5.toList ++ embedded_pairing_core_arch_armv6_m_fpbase_384_montgomery_reduce_chunk6.toList ++ embedded_pairing_core_arch_armv6_m_fpbase_384_montgomery_reduce_chunk7.toList ++ embedded_pairing_core_arch_armv6_m_fpbase_384_montgomery_reduce_chunk8.toList ++ embedded_pairing_core_arch_armv6_m_fpbase_384_montgomery_reduce_chunk9.toList ++ embedded_pairing_core_arch_armv6_m_fpbase_384_montgomery_reduce_chunk10.toList ++ embedded_pairing_core_arch_armv6_m_fpbase_384_montgomery_reduce_chunk11.toList ++ embedded_pairing_core_arch_armv6_m_fpbase_384_montgomery_reduce_chunk12.toList ++ embedded_pairing_core_arch_armv6_m_fpbase_384_montgomery_reduce_chunk13.toList ++ embedded_pairing_core_arch_armv6_m_fpbase_384_montgomery_reduce_chunk14.toList ++ embedded_pairing_core_arch_armv6_m_fpbase_384_montgomery_reduce_chunk15.toList ++ embedded_pairing_core_arch_armv6_m_fpbase_384_montgomery_reduce_chunk16.toList ++ embedded_pairing_core_arch_armv6_m_fpbase_384_montgomery_reduce_chunk17.toList := by
    simp only [embedded_pairing_core_arch_armv6_m_fpbase_384_montgomery_reduce, Array.toList_append]
  rw [h]
  decide +kernel
set_option maxRecDepth 100000 in
theorem code_fpbase_384_multiply : embedded_pairing_core_arch_armv6_m_fpbase_384_multiply.toList = Code.fpbase_384_multiply := by
  have h : embedded_pairing_core_arch_armv6_m_fpbase_384_multiply.toList = embedded_pairing_core_arch_armv6_m_fpbase_384_multiply_chunk0.toList ++ embedded_pairing_core_arch_armv6_m_fpbase_384_multiply_chunk1.toList ++ embedded_pairing_core_arch_armv6_m_fpbase_384_multiply_chunk2.toList ++ embedded_pairing_core_arch_armv6_m_fpbase_384_multiply_chunk3.toList ++ embedded_pairing_core_arch_armv6_m_fpbase_384_multiply_chunk4.toList ++ embedded_pairing_core_arch_armv6_m_fpbase_384_multiply_chunk5.toList ++ embedded_pairing_core_arch_armv6_m_fpbase_384_multiply_chunk6.toList ++ embedded_pairing_core_arch_armv6_m_fpbase_384_multiply_chunk7.toList ++ embedded_pairing_core_arch_armv6_m_fpbase_384_multiply_chunk8.toList ++ embedded_pairing_core_arch_armv6_m_fpbase_384_multiply_chunk9.toList ++ embedded_pairing_core_arch_armv6_m_fpbase_384_multiply_chunk10.toList ++ embedded_pairing_core_arch_armv6_m_fpbase_384_multiply_chunk11.toList ++ embedded_pairing_core_arch_armv6_m_fpbase_384_multiply_chunk12.toList ++ embedded_pairing_core_arch_armv6_m_fpbase_384_multiply_chunk13.toList ++ embedded_pairing_core_arch_armv6_m_fpbase_384_multiply_chunk14.toList ++ embedded_pairing_core_arch_armv6_m_fpbase_384_multiply_chunk15.toList ++ embedded_pairing_core_arch_armv6_m_fpbase_384_multiply_chunk16.toList ++ embedded_pairing_core_arch_armv6_m_fpbase_384_multiply_chunk17.toList ++ embedded_pairing_core_arch_armv6_m_fpbase_384_multiply_chunk18.toList ++ embedded_pairing_core_arch_armv6_m_fpbase_384_multiply_chunk19.toList ++ embedded_pairing_core_arch_armv6_m_fpbase_384_multiply_chunk20.toList ++ embedded_pairing_core_arch_armv6_m_fpbase_384_multiply_chunk21.toList ++ embedded_pairing_core_arch_armv6_m_fpbase_384_multiply_chunk22.toList ++ embedded_pairing_core_arch_armv6_m_fpbase_384_multiply_chunk23.toList ++ embedded_pairing_core_arch_armv6_m_fpbase_384_multiply_chunk24.toList ++ embedded_pairing_core_arch_armv6_m_fpbase_384_multiply_chunk25.toList ++ embedded_pairing_core_arch_armv6_m_fpbase_384_multiply_chunk26.toList ++ embedded_pairing_core_arch_armv6_m_fpbase_384_multiply_chunk27.toList ++ embedded_pairing_core_arch_armv6_m_fpbase_384_multiply_chunk28.toList ++ embedded_pairing_core_arch_armv6_m_fpbase_384_multiply_chunk29.toList ++ embedded_pairing_core_arch_armv6_m_fpbase_384_multiply_chunk30.toList ++ embedded_pairing_core_arch_armv6_m_fpbase_384_multiply_chunk31.toList ++ embedded_pairing_core_arch_armv6_m_fpbase_384_multiply_chunk32.toList ++ embedded_pairing_core_arch_armv6_m_fpbase_384_multiply_chunk33.toList ++ embedded_pairing_core_arch_armv6_m_fpbase_384_multiply_chunk34.toList ++ embedded_pairing_core_arch_armv6_m_fpbase_384_multiply_chunk35.toList := by
    simp only [embedded_pairing_core_arch_armv6_m_fpbase_384_multiply, Array.toList_append]
  rw [h]
  decide +kernel
set_option maxRecDepth 100000 in
theorem code_fpbase_384_square : embedded_pairing_core_arch_armv6_m_fpbase_384_square.toList = Code.fpbase_384_square := by
  have h : embedded_pairing_core_arch_armv6_m_fpbase_384_square.toList = embedded_pairing_core_arch_armv6_m_fpbase_384_square_chunk0.toList ++ embedded_pairing_core_arch_armv6_m_fpbase_384_square_chunk1.toList ++ embedded_pairing_core_arch_armv6_m_fpbase_384_square_chunk2.toList ++ embedded_pairing_core_arch_armv6_m_fpbase_384_square_chunk3.toList ++ embedded_pairing_core_arch_armv6_m_fpbase_384_square_chunk4.toList ++ embedded_pairing_core_arch_armv6_m_fpbase_384_square_chunk5.toList ++ embedded_pairing_core_arch_armv6_m_fpbase_384_square_chunk6.toList ++ embedded_pairing_core_arch_armv6_m_fpbase_384_square_chunk7.toList ++ embedded_pairing_core_arch_armv6_m_fpbase_384_square_chunk8.toList ++ embedded_pairing_core_arch_armv6_m_fpbase_384_square_chunk9.toList ++ embedded_pairing_core_arch_armv6_m_fpbase_384_square_chunk10.toList ++ embedded_pairing_core_arch_armv6_m_fpbase_384_square_chunk11.toList ++ embedded_pairing_core_arch_armv6_m_fpbase_384_square_chunk12.toList ++ embedded_pairing_core_arch_armv6_m_fpbase_384_square_chunk13.toList ++ embedded_pairing_core_arch_armv6_m_fpbase_384_square_chunk14.toList ++ embedded_pairing_core_arch_armv6_m_fpbase_384_square_chunk15.toList ++ embedded_pairing_core_arch_armv6_m_fpbase_384_square_chunk16.toList ++ embedded_pairing_core_arch_armv6_m_fpbase_384_square_chunk17.toList ++ embedded_pairing_core_arch_armv6_m_fpbase_384_square_chunk18.toList ++ embedded_pairing_core_arch_armv6_m_fpbase_384_square_chunk19.toList ++ embedded_pairing_core_arch_armv6_m_fpbase_384_square_chunk20.toList ++ embedded_pairing_core_arch_armv6_m_fpbase_384_square_chunk21.toList ++ embedded_pairing_core_arch_armv6_m_fpbase_384_square_chunk22.toList ++ embedded_pairing_core_arch_armv6_m_fpbase_384_square_chunk23.toList ++ embedded_pairing_core_arch_armv6_m_fpbase_384_square_chunk24.toList ++ embedded_pairing_core_arch_armv6_m_fpbase_384_square_chunk25.toList ++ embedded_pairing_core_arch_armv6_m_fpbase_384_square_chunk26.toList ++ embedded_pairing_core_arch_armv6_m_fpbase_384_square_chunk27.toList := by
    simp only [embedded_pairing_core_arch_armv6_m_fpbase_384_square, Array.toList_append]
  rw [h]
  decide +kernel
set_option maxRecDepth 100000 in
theorem size_bigint_768_multiply : embedded_pairing_core_arch_armv6_m_bigint_768_multiply.size = 3593 := by
  rw [← Array.length_toList, code_bigint_768_multiply]; decide +kernel
/-- running the generated program for its length = running the rebuilt instruction list -/
theorem run_bigint_768_multiply (s : State) (hpc : s.pc = 0) : run embedded_pairing_core_arch_armv6_m_bigint_768_multiply s 3593 = runL Code.bigint_768_multiply s := by
  rw [← size_bigint_768_multiply, run_eq_runL_toList _ _ hpc, code_bigint_768_multiply]
set_option maxRecDepth 100000 in
theorem size_bigint_768_square : embedded_pairing_core_arch_armv6_m_bigint_768_square.size = 1925 := by
  rw [← Array.length_toList, code_bigint_768_square]; decide +kernel
/-- running the generated program for its length = running the rebuilt instruction list -/
theorem run_bigint_768_square (s : State) (hpc : s.pc = 0) : run embedded_pairing_core_arch_armv6_m_bigint_768_square s 1925 = runL Code.bigint_768_square s := by
  rw [← size_bigint_768_square, run_eq_runL_toList _ _ hpc, code_bigint_768_square]
set_option maxRecDepth 100000 in
theorem size_fpbase_384_montgomery_reduce : embedded_pairing_core_arch_armv6_m_fpbase_384_montgomery_reduce.size = 3567 := by
  rw [← Array.length_toList, code_fpbase_384_montgomery_reduce]; decide +kernel
/-- running the generated program for its length = running the rebuilt instruction list -/
theorem run_fpbase_384_montgomery_reduce (s : State) (hpc : s.pc = 0) : run embedded_pairing_core_arch_armv6_m_fpbase_384_montgomery_reduce s 3567 = runL Code.fpbase_384_montgomery_reduce s := by
  rw [← size_fpbase_384_montgomery_reduce, run_eq_runL_toList _ _ hpc, code_fpbase_384_montgomery_reduce]
set_option maxRecDepth 100000 in
theorem size_fpbase_384_multiply : embedded_pairing_core_arch_armv6_m_fpbase_384_multiply.size = 7123 := by
  rw [← Array.length_toList, code_fpbase_384_multiply]; decide +kernel
/-- running the generated program for its length = running the rebuilt instruction list -/
theorem run_fpbase_384_multiply (s : State) (hpc : s.pc = 0) : run embedded_pairing_core_arch_armv6_m_fpbase_384_multiply s 7123 = runL Code.fpbase_384_multiply s := by
  rw [← size_fpbase_384_multiply, run_eq_runL_toList _ _ hpc, code_fpbase_384_multiply]
set_option maxRecDepth 100000 in
theorem size_fpbase_384_square : embedded_pairing_core_arch_armv6_m_fpbase_384_square.size = 5457 := by
  rw [← Array.length_toList, code_fpbase_384_square]; decide +kernel
/-- running the generated program for its length = running the rebuilt instruction list -/
theorem run_fpbase_384_square (s : State) (hpc : s.pc = 0) : run embedded_pairing_core_arch_armv6_m_fpbase_384_square s 5457 = runL Code.fpbase_384_square s := by
  rw [← size_fpbase_384_square, run_eq_runL_toList _ _ hpc, code_fpbase_384_square]
end Jedi.Thumb1
