/-
Points of prime order on y² = x³ + b, through the group structure of Proofs/CurveGroup.lean:

* for `P ≠ ∞` with `[p]P = ∞`, p prime:  `[m]P = ∞ ↔ p ∣ m`,  `[m]P = [n]P ↔ m ≡ n (mod p)`,
  `[m]P = −P ↔ m + 1 ≡ 0 (mod p)`, and if p is odd `P` is not 2-torsion (y ≠ 0);
* the Miller loop of the Spec never meets an exceptional case (`noExc` of Proofs/MillerRefine.lean, hence `addOK`) when it
  runs from a point Q of prime order p over a bit list with `2^(len+1) ≤ p`: the running point is `[m]Q` with m the number
  formed by the bits consumed so far (leading 1), `0 < m, 2m, 2m ± 1 < p`;
* instances for BLS12-381: `noExc_of_G2` (Q of order r on the twist, 63 loop bits of |x|) and `y_ne_zero_of_G1`.
-/
import JediVerif.Proofs.CurveGroup
import JediVerif.Proofs.MillerRefine
import JediVerif.Proofs.FqTower
import JediVerif.Proofs.Primes
import Mathlib.GroupTheory.OrderOfElement
import Mathlib.Data.Nat.ModEq

set_option linter.unusedSectionVars false
set_option linter.unusedVariables false
namespace Jedi

/-! ### multiples of a point of prime order -/
section Order
variable {K : Type} [Field K] [DecidableEq K] {b : K} (hc : CurveHyp b) {p : Nat} (hp : p.Prime)
  {P : Pt K} (hP : Pt.isOnCurve b P = true) (hne : P ≠ Pt.inf) (hord : Pt.smul p P = Pt.inf)
include hc hp hP hne hord

/-- the Mathlib point of `P` has additive order exactly `p`. -/
theorem addOrderOf_toPoint : addOrderOf (toPoint hc P hP) = p := by
  have : Fact p.Prime := ⟨hp⟩
  refine addOrderOf_eq_prime ?_ ?_
  · rw [← toPoint_smul hc hP p (Pt.smul_isOnCurve hc.two hP p)]
    exact (toPoint_eq_zero_iff hc _).mpr hord
  · rw [Ne, toPoint_eq_zero_iff]; exact hne

theorem smul_eq_inf_iff (m : Nat) : Pt.smul m P = Pt.inf ↔ p ∣ m := by
  rw [← toPoint_eq_zero_iff hc (Pt.smul_isOnCurve hc.two hP m), toPoint_smul hc hP,
    ← addOrderOf_dvd_iff_nsmul_eq_zero, addOrderOf_toPoint hc hp hP hne hord]

theorem smul_eq_smul_iff (m n : Nat) : Pt.smul m P = Pt.smul n P ↔ m ≡ n [MOD p] := by
  have hm := Pt.smul_isOnCurve hc.two hP m
  have hn := Pt.smul_isOnCurve hc.two hP n
  rw [← addOrderOf_toPoint hc hp hP hne hord, ← nsmul_eq_nsmul_iff_modEq,
    ← toPoint_smul hc hP m hm, ← toPoint_smul hc hP n hn]
  exact ⟨fun h => toPoint_congr hc h hm hn, fun h => toPoint_injective hc h⟩

theorem smul_eq_neg_iff (m : Nat) : Pt.smul m P = Pt.neg P ↔ m + 1 ≡ 0 [MOD p] := by
  have hm := Pt.smul_isOnCurve hc.two hP m
  have hn := Pt.neg_isOnCurve hP
  rw [Nat.modEq_zero_iff_dvd, ← smul_eq_inf_iff hc hp hP hne hord (m + 1), Pt.smul_succ' hc hP m]
  constructor
  · intro h; rw [h, Pt.neg_add_self' hc hP]
  · intro h
    refine toPoint_injective hc (hP := hm) (hQ := hn) ?_
    have h' := (toPoint_eq_zero_iff hc (Pt.add_isOnCurve hc.two hm hP)).mpr h
    rw [toPoint_add hc hm hP] at h'
    rw [toPoint_neg hc hP]
    exact eq_neg_of_add_eq_zero_left h'

/-- a point of odd prime order is not 2-torsion. -/
theorem y_ne_zero_of_order (hodd : p ≠ 2) {x y : K} (e : P = Pt.aff x y) : y ≠ 0 := by
  intro hy
  subst e
  have hd : Pt.smul 2 (Pt.aff x y) = Pt.inf := by
    rw [Pt.smul_two' hc hP]
    simp [Pt.dbl, hy]
  have := (smul_eq_inf_iff hc hp hP hne hord 2).mp hd
  exact hodd ((Nat.prime_dvd_prime_iff_eq hp Nat.prime_two).mp this)

/-- `[m]P ≠ ∞` for `0 < m < p`. -/
theorem smul_ne_inf {m : Nat} (h0 : 0 < m) (hlt : m < p) : Pt.smul m P ≠ Pt.inf := by
  rw [Ne, smul_eq_inf_iff hc hp hP hne hord]
  exact Nat.not_dvd_of_pos_of_lt h0 hlt

end Order

/-! ### the exception predicate of the Miller loop, over any coefficient type -/
section NoExcG
variable {L : Type} [Add L] [Sub L] [Mul L] [Neg L] [Zero L] [One L] [Inv L] [DecidableEq L]

/-- `noExc` of Proofs/MillerRefine.lean with the coefficient type `Q2 F` replaced by an arbitrary `L`. -/
def noExcG (xq yq : L) : List Bool → Pt L → Bool
  | [], _ => true
  | b :: bs, T =>
    (match T with
      | .aff _ y => decide (y ≠ -y)
      | .inf => false) &&
    (if b then
      (match Pt.add T T with
        | .aff x2 _ => decide (x2 ≠ xq)
        | .inf => false) && noExcG xq yq bs (Pt.add (Pt.add T T) (.aff xq yq))
    else noExcG xq yq bs (Pt.add T T))

end NoExcG

theorem noExc_eq_noExcG {F : Type} [Add F] [Sub F] [Mul F] [Neg F] [Zero F] [One F] [Inv F]
    [DecidableEq F] (xq yq : Q2 F) : ∀ (bits : List Bool) (T : Pt (Q2 F)),
    noExc xq yq bits T = noExcG xq yq bits T := by
  intro bits
  induction bits with
  | nil => intro T; rfl
  | cons b bs ih =>
    intro T
    cases b with
    | false =>
      simp only [noExc, noExcG, Bool.false_eq_true, if_false]
      rw [ih]
      cases T <;> rfl
    | true =>
      simp only [noExc, noExcG, if_true]
      rw [ih]
      generalize Pt.add T T = T2
      cases T <;> cases T2 <;> rfl

section NoExc
variable {L : Type} [Field L] [DecidableEq L] {b : L} (hc : CurveHyp b) {p : Nat} (hp : p.Prime)
  {xq yq : L} (hQ : Pt.isOnCurve b (Pt.aff xq yq) = true)
  (hord : Pt.smul p (Pt.aff xq yq) = Pt.inf)
include hc hp hQ hord

/-- the invariant: from the running point `[m]Q`, `1 ≤ m`, with `(m+1)·2^(remaining bits) ≤ p`, nothing exceptional
happens. -/
theorem noExcG_smul : ∀ (bits : List Bool) (m : Nat), 1 ≤ m → (m + 1) * 2 ^ bits.length ≤ p →
    noExcG xq yq bits (Pt.smul m (Pt.aff xq yq)) = true := by
  have hne : (Pt.aff xq yq : Pt L) ≠ Pt.inf := fun h => by cases h
  intro bits
  induction bits with
  | nil => intro m _ _; rfl
  | cons bit bs ih =>
    intro m hm hbound
    have hb2 : 2 * m + 2 ≤ p := by
      have h1 : 1 ≤ 2 ^ bs.length := Nat.one_le_two_pow
      have : (m + 1) * 2 ^ (bs.length + 1) = (2 * m + 2) * 2 ^ bs.length := by ring
      rw [List.length_cons, this] at hbound
      calc 2 * m + 2 = (2 * m + 2) * 1 := by ring
        _ ≤ (2 * m + 2) * 2 ^ bs.length := Nat.mul_le_mul_left _ h1
        _ ≤ p := hbound
    have hT := Pt.smul_isOnCurve hc.two hQ m
    -- the doubled point is [2m]Q ≠ ∞
    have hdbl : Pt.add (Pt.smul m (Pt.aff xq yq)) (Pt.smul m (Pt.aff xq yq)) =
        Pt.smul (2 * m) (Pt.aff xq yq) := by
      rw [two_mul, Pt.smul_add' hc hQ]
    have h2m : Pt.smul (2 * m) (Pt.aff xq yq) ≠ Pt.inf :=
      smul_ne_inf hc hp hQ hne hord (by omega) (by omega)
    have h2on := Pt.smul_isOnCurve hc.two hQ (2 * m)
    -- first conjunct: T finite, not 2-torsion
    have c1 : (match Pt.smul m (Pt.aff xq yq) with
        | .aff _ y => decide (y ≠ -y)
        | .inf => false) = true := by
      rw [← hdbl] at h2m
      generalize Pt.smul m (Pt.aff xq yq) = T at h2m
      cases T with
      | inf => exact absurd rfl h2m
      | aff x y =>
        simp only [decide_eq_true_eq]
        intro hy
        apply h2m
        simp [Pt.add, ← hy]
    cases bit with
    | false =>
      simp only [noExcG, Bool.false_eq_true, if_false, Bool.and_eq_true]
      refine ⟨c1, ?_⟩
      rw [hdbl]
      refine ih (2 * m) (by omega) ?_
      have : (m + 1) * 2 ^ (bs.length + 1) = (2 * m + 2) * 2 ^ bs.length := by ring
      rw [List.length_cons, this] at hbound
      exact le_trans (Nat.mul_le_mul_right _ (by omega)) hbound
    | true =>
      simp only [noExcG, if_true, Bool.and_eq_true]
      refine ⟨c1, ?_, ?_⟩
      · rw [hdbl]
        cases hT2 : Pt.smul (2 * m) (Pt.aff xq yq) with
        | inf => exact absurd hT2 h2m
        | aff x2 y2 =>
          simp only [decide_eq_true_eq]
          intro hx
          subst hx
          rw [hT2] at h2on
          have e1 := (Pt.isOnCurve_aff b x2 y2).mp h2on
          have e2 := (Pt.isOnCurve_aff b x2 yq).mp hQ
          have : (y2 - yq) * (y2 + yq) = 0 := by linear_combination e1 - e2
          rcases mul_eq_zero.mp this with h' | h'
          · -- [2m]Q = Q
            have hy : y2 = yq := sub_eq_zero.mp h'
            subst hy
            have h1 : Pt.smul (2 * m) (Pt.aff x2 y2) = Pt.smul 1 (Pt.aff x2 y2) := by
              rw [hT2, Pt.smul_one' hc hQ]
            have := (smul_eq_smul_iff hc hp hQ hne hord (2 * m) 1).mp h1
            have hd : p ∣ 2 * m - 1 := (Nat.modEq_iff_dvd' (by omega)).mp this.symm
            exact Nat.not_dvd_of_pos_of_lt (by omega) (by omega) hd
          · -- [2m]Q = −Q
            have hy : y2 = -yq := eq_neg_of_add_eq_zero_left h'
            have h1 : Pt.smul (2 * m) (Pt.aff x2 yq) = Pt.neg (Pt.aff x2 yq) := by
              rw [hT2, hy]; rfl
            have := (smul_eq_neg_iff hc hp hQ hne hord (2 * m)).mp h1
            have hd : p ∣ 2 * m + 1 := (Nat.modEq_zero_iff_dvd).mp this
            exact Nat.not_dvd_of_pos_of_lt (by omega) (by omega) hd
      · rw [hdbl, ← Pt.smul_succ' hc hQ]
        refine ih (2 * m + 1) (by omega) ?_
        have : (m + 1) * 2 ^ (bs.length + 1) = (2 * m + 1 + 1) * 2 ^ bs.length := by ring
        rw [List.length_cons, this] at hbound
        exact hbound

/-- **no exceptional case from a point of prime order** `p ≥ 2^(len+1)`. -/
theorem noExcG_of_order (bits : List Bool) (hbits : 2 ^ (bits.length + 1) ≤ p) :
    noExcG xq yq bits (Pt.aff xq yq) = true := by
  have := noExcG_smul hc hp hQ hord bits 1 le_rfl (by rw [pow_succ] at hbits; omega)
  rwa [Pt.smul_one' hc hQ] at this

end NoExc

/-! ### the coefficient field `Q2 K` (the Spec's own operations) -/
section OverQ2
variable {K : Type} [Field K] [DecidableEq K]
variable (hnr : ∀ x y : K, x * x + y * y = 0 → x = 0 ∧ y = 0) (h2 : (2 : K) ≠ 0) (h3 : (3 : K) ≠ 0)
include hnr h2 h3

omit [DecidableEq K] h2 in
theorem Q2.three_ne_zero : letI := Q2.instField hnr; (3 : Q2 K) ≠ 0 := by
  let _ := Q2.instField hnr
  intro h
  have h' : ((1 : Q2 K) + 1 + 1).c0 = (0 : Q2 K).c0 := by
    rw [one_add_one_eq_two, two_add_one_eq_three, h]
  simp at h'
  exact h3 (by rw [← two_add_one_eq_three, ← one_add_one_eq_two]; exact h')

/-- nonsingularity hypotheses for a twist curve y² = x³ + b' over `Q2 K`. -/
theorem Q2.curveHyp {b' : Q2 K} (hb : b' ≠ 0) : letI := Q2.instField hnr; CurveHyp b' :=
  letI := Q2.instField hnr
  ⟨Q2.two_ne_zero hnr h2, Q2.three_ne_zero hnr h3, hb⟩

/-- **the Spec's Miller loop from a point Q of prime order p on a twist curve y² = x³ + b' over `Q2 K` meets no
exceptional case** over any bit list with `2^(len+1) ≤ p` (b' arbitrary ≠ 0; Q = (xq, yq) is finite by construction). -/
theorem noExc_of_order {b' : Q2 K} (hb : b' ≠ 0) {p : Nat} (hp : p.Prime) {xq yq : Q2 K}
    (hon : Pt.isOnCurve b' (Pt.aff xq yq) = true) (hord : Pt.smul p (Pt.aff xq yq) = Pt.inf)
    (bits : List Bool) (hbits : 2 ^ (bits.length + 1) ≤ p) :
    noExc xq yq bits (Pt.aff xq yq) = true := by
  let _ := Q2.instField hnr
  rw [noExc_eq_noExcG]
  exact noExcG_of_order (Q2.curveHyp hnr h2 h3 hb) hp hon hord bits hbits

/-- the form asked for by the Miller-loop refinement: `2^(len+2) < p`. -/
theorem noExc_of_order' {b' : Q2 K} (hb : b' ≠ 0) {p : Nat} (hp : p.Prime) {xq yq : Q2 K}
    (hon : Pt.isOnCurve b' (Pt.aff xq yq) = true) (hord : Pt.smul p (Pt.aff xq yq) = Pt.inf)
    (bits : List Bool) (hbits : 2 ^ (bits.length + 2) < p) :
    noExc xq yq bits (Pt.aff xq yq) = true :=
  noExc_of_order hnr h2 h3 hb hp hon hord bits (by rw [pow_succ] at hbits; omega)

theorem addOK_of_order {b' : Q2 K} (hb : b' ≠ 0) {p : Nat} (hp : p.Prime) {xq yq : Q2 K}
    (hon : Pt.isOnCurve b' (Pt.aff xq yq) = true) (hord : Pt.smul p (Pt.aff xq yq) = Pt.inf)
    (bits : List Bool) (hbits : 2 ^ (bits.length + 1) ≤ p) :
    addOK xq yq bits (Pt.aff xq yq) = true :=
  noExc_addOK _ _ _ _ (noExc_of_order hnr h2 h3 hb hp hon hord bits hbits)

end OverQ2

/-! ### BLS12-381 -/
section Concrete

theorem fq_three_ne_zero : (3 : Fq) ≠ 0 := by decide +kernel
theorem g1B_ne_zero : g1B ≠ 0 := by decide +kernel
theorem g2B_ne_zero : g2B ≠ 0 := by decide +kernel
theorem bitsBelowTop_blsX_length : (bitsBelowTop blsX).length = 63 := by decide +kernel
theorem two_pow_65_lt_r : 2 ^ 65 < r := by decide
theorem r_ne_two : r ≠ 2 := by decide

theorem curveHyp_g1 : CurveHyp g1B := ⟨fq_two_ne_zero, fq_three_ne_zero, g1B_ne_zero⟩
theorem curveHyp_g2 : CurveHyp g2B := Q2.curveHyp Fq.hnr fq_two_ne_zero fq_three_ne_zero g2B_ne_zero

/-- **a point Q ∈ G2 (on the twist, of order r) runs through the Spec's Miller loop over the 63 bits of |x| without any
exceptional case.** -/
theorem noExc_of_G2 (Q : Aff Fq2) (hinf : Q.infinity = false)
    (hon : Pt.isOnCurve g2B (.aff Q.x Q.y) = true) (hr : Pt.smul r (.aff Q.x Q.y) = .inf) :
    noExc Q.x Q.y (bitsBelowTop blsX) (.aff Q.x Q.y) = true :=
  noExc_of_order' Fq.hnr fq_two_ne_zero fq_three_ne_zero g2B_ne_zero r_prime hon hr _
    (by rw [bitsBelowTop_blsX_length]; exact two_pow_65_lt_r)

theorem addOK_of_G2 (Q : Aff Fq2) (hinf : Q.infinity = false)
    (hon : Pt.isOnCurve g2B (.aff Q.x Q.y) = true) (hr : Pt.smul r (.aff Q.x Q.y) = .inf) :
    addOK Q.x Q.y (bitsBelowTop blsX) (.aff Q.x Q.y) = true :=
  noExc_addOK _ _ _ _ (noExc_of_G2 Q hinf hon hr)

/-- **a finite point of G1 (order r, odd) has y ≠ 0.** -/
theorem y_ne_zero_of_G1 (P : Aff Fq) (hinf : P.infinity = false)
    (hon : Pt.isOnCurve g1B (.aff P.x P.y) = true) (hr : Pt.smul r (.aff P.x P.y) = .inf) :
    P.y ≠ 0 :=
  y_ne_zero_of_order curveHyp_g1 r_prime hon (fun h => by cases h) hr r_ne_two rfl

/-- the same for G2. -/
theorem y_ne_zero_of_G2 (Q : Aff Fq2) (hinf : Q.infinity = false)
    (hon : Pt.isOnCurve g2B (.aff Q.x Q.y) = true) (hr : Pt.smul r (.aff Q.x Q.y) = .inf) :
    Q.y ≠ 0 :=
  y_ne_zero_of_order curveHyp_g2 r_prime hon (fun h => by cases h) hr r_ne_two rfl

end Concrete

/-! ### non-vacuity: the published generators satisfy the hypotheses (on the curve, order r; `Pt.smul r` is evaluated through
the Jacobian `smulFast`, equal to `Pt.smul` on curve points by `smulFast_eq'`) -/
section NonVacuity
theorem g1Gen_isOnCurve : Pt.isOnCurve g1B g1Gen = true := by decide +kernel
theorem g2Gen_isOnCurve : Pt.isOnCurve g2B g2Gen = true := by decide +kernel
theorem g1Gen_smul_r : Pt.smul r g1Gen = .inf := by
  rw [← smulFast_eq' curveHyp_g1.two g1Gen_isOnCurve]; decide +kernel
theorem g2Gen_smul_r : Pt.smul r g2Gen = .inf := by
  rw [← smulFast_eq' curveHyp_g2.two g2Gen_isOnCurve]; decide +kernel

theorem noExc_of_G2_pt {x y : Fq2} (hon : Pt.isOnCurve g2B (.aff x y) = true)
    (hr : Pt.smul r (.aff x y) = .inf) : noExc x y (bitsBelowTop blsX) (.aff x y) = true :=
  noExc_of_G2 ⟨x, y, false⟩ rfl hon hr

/-- the generator of G2 runs through the loop without exception (by the theorem, not by evaluation). -/
example : ∃ x y : Fq2, g2Gen = .aff x y ∧ noExc x y (bitsBelowTop blsX) (.aff x y) = true :=
  ⟨_, _, rfl, noExc_of_G2_pt g2Gen_isOnCurve g2Gen_smul_r⟩
example : ∃ x y : Fq, g1Gen = .aff x y ∧ y ≠ 0 :=
  ⟨_, _, rfl, y_ne_zero_of_G1 ⟨_, _, false⟩ rfl g1Gen_isOnCurve g1Gen_smul_r⟩
/-- [m]G = [n]G ↔ m ≡ n (mod r) for the G1 generator. -/
example (m n : Nat) : Pt.smul m g1Gen = Pt.smul n g1Gen ↔ m ≡ n [MOD r] :=
  smul_eq_smul_iff curveHyp_g1 r_prime g1Gen_isOnCurve (fun h => by cases h) g1Gen_smul_r m n
end NonVacuity

end Jedi
