/-
The fused routines `embedded_pairing_core_arch_armv6_m_fpbase_384_multiply` and `…_fpbase_384_square` of
/repo/src/core/arch/armv6_m/multiply.s: the product (resp. square) is built in the 24-word buffer on the stack, reduced in place by
`montgomeryreduce384`, and the upper half is handed to the C++ `fpbase_384_reduce`.  Compositions of `multiply768_run`,
`square768part1/2/3_run`, `montgomeryreduce384_run` and the final step.

Statements and proof scripts are written by an authoring script; nothing depends on it.
-/
import JediVerif.Proofs.Thumb1MulMont

set_option linter.unusedSimpArgs false
set_option linter.unusedVariables false
set_option exponentiation.threshold 800

namespace Jedi.Thumb1
open Jedi.Impl (val WF val_cons val_nil val_lt val_inj val_append)
open Jedi.X86 (Hide Hide.mk Hide.out)
open Jedi.Gen.AsmV6M

set_option maxHeartbeats 1600000 in
/-- `void fpbase_384_multiply(res, a, b, p, inv)` (`inv` is the fifth argument: the word at the entry SP): `res < P` and
`res · 2^384 ≡ a · b (mod P)`; `res` may overlap `a`, `b` in any way. -/
theorem fpbase_384_multiply_run (s : State) (pr pa pb pp inv : Word)
    (hst : s.status = .running) (hpc : s.pc = 0) (h0 : s.r0 = pr) (h1 : s.r1 = pa) (h2 : s.r2 = pb) (h3 : s.r3 = pp) (hlr : s.lr.toNat % 2 = 1)
    (h4 : s.mem s.sp.toNat = inv) (hcw : s.readable s.sp.toNat = true)
    (hr : Buf s pr 12 true) (ha : Buf s pa 12 false) (hb : Buf s pb 12 false) (hp : Buf s pp 12 false)
    (hstk : Stack s 33) (hrs : OffStack s 33 pr 12) (has : OffStack s 33 pa 12) (hbs : OffStack s 33 pb 12) (hps : OffStack s 33 pp 12)
    (hinv : (inv.toNat * val (2 ^ 32) (limbs32 s.mem pp.toNat 12) + 1) % 2 ^ 32 = 0)
    (hAB : val (2 ^ 32) (limbs32 s.mem pa.toNat 12) * val (2 ^ 32) (limbs32 s.mem pb.toNat 12) < val (2 ^ 32) (limbs32 s.mem pp.toNat 12) * 2 ^ 384)
    (h2P : 2 * val (2 ^ 32) (limbs32 s.mem pp.toNat 12) ≤ 2 ^ 384) :
    ∃ s', run embedded_pairing_core_arch_armv6_m_fpbase_384_multiply s 7123 = s' ∧ Returned s s' ∧
      val (2 ^ 32) (limbs32 s'.mem pr.toNat 12) < val (2 ^ 32) (limbs32 s.mem pp.toNat 12) ∧
      (val (2 ^ 32) (limbs32 s'.mem pr.toNat 12) * 2 ^ 384) % val (2 ^ 32) (limbs32 s.mem pp.toNat 12) = (val (2 ^ 32) (limbs32 s.mem pa.toNat 12) * val (2 ^ 32) (limbs32 s.mem pb.toNat 12)) % val (2 ^ 32) (limbs32 s.mem pp.toNat 12) ∧
      (∀ k, ¬(pr.toNat ≤ k ∧ k < pr.toNat + 48) → ¬(s.sp.toNat - 132 ≤ k ∧ k < s.sp.toNat) → s'.mem k = s.mem k) ∧
      s'.callSpMisaligned = (s.callSpMisaligned || (s.sp.toNat - 132) % 8 != 0) := by
  refine ⟨_, rfl, ?_⟩
  have e384 : ((2 : ℕ) ^ 32) ^ 12 = 2 ^ 384 := by rw [← pow_mul]
  obtain ⟨B, hB, hBlt, hsp⟩ := hstk.base (by decide)
  have hS := hstk.span B.toNat hsp
  have k_lt0 : B.toNat < 2 ^ 32 := hS.lt_0 (by decide)
  have k_al0 : (B.toNat) % 4 = 0 := hS.aligned
  have k_rd0 : s.readable (B.toNat) = true := hS.rd_0 (by decide)
  have k_wr0 : s.writable (B.toNat) = true := hS.wr_0 (by decide)
  have k_lt1 : B.toNat + 4 < 2 ^ 32 := hS.lt_k 4 (by decide)
  have k_al1 : (B.toNat + 4) % 4 = 0 := hS.al_k 4 (by decide)
  have k_rd1 : s.readable (B.toNat + 4) = true := hS.rd_k 4 (by decide) (by decide)
  have k_wr1 : s.writable (B.toNat + 4) = true := hS.wr_k 4 (by decide) (by decide)
  have k_lt2 : B.toNat + 8 < 2 ^ 32 := hS.lt_k 8 (by decide)
  have k_al2 : (B.toNat + 8) % 4 = 0 := hS.al_k 8 (by decide)
  have k_rd2 : s.readable (B.toNat + 8) = true := hS.rd_k 8 (by decide) (by decide)
  have k_wr2 : s.writable (B.toNat + 8) = true := hS.wr_k 8 (by decide) (by decide)
  have k_lt3 : B.toNat + 12 < 2 ^ 32 := hS.lt_k 12 (by decide)
  have k_al3 : (B.toNat + 12) % 4 = 0 := hS.al_k 12 (by decide)
  have k_rd3 : s.readable (B.toNat + 12) = true := hS.rd_k 12 (by decide) (by decide)
  have k_wr3 : s.writable (B.toNat + 12) = true := hS.wr_k 12 (by decide) (by decide)
  have k_lt4 : B.toNat + 16 < 2 ^ 32 := hS.lt_k 16 (by decide)
  have k_al4 : (B.toNat + 16) % 4 = 0 := hS.al_k 16 (by decide)
  have k_rd4 : s.readable (B.toNat + 16) = true := hS.rd_k 16 (by decide) (by decide)
  have k_wr4 : s.writable (B.toNat + 16) = true := hS.wr_k 16 (by decide) (by decide)
  have k_lt5 : B.toNat + 20 < 2 ^ 32 := hS.lt_k 20 (by decide)
  have k_al5 : (B.toNat + 20) % 4 = 0 := hS.al_k 20 (by decide)
  have k_rd5 : s.readable (B.toNat + 20) = true := hS.rd_k 20 (by decide) (by decide)
  have k_wr5 : s.writable (B.toNat + 20) = true := hS.wr_k 20 (by decide) (by decide)
  have k_lt6 : B.toNat + 24 < 2 ^ 32 := hS.lt_k 24 (by decide)
  have k_al6 : (B.toNat + 24) % 4 = 0 := hS.al_k 24 (by decide)
  have k_rd6 : s.readable (B.toNat + 24) = true := hS.rd_k 24 (by decide) (by decide)
  have k_wr6 : s.writable (B.toNat + 24) = true := hS.wr_k 24 (by decide) (by decide)
  have k_lt7 : B.toNat + 28 < 2 ^ 32 := hS.lt_k 28 (by decide)
  have k_al7 : (B.toNat + 28) % 4 = 0 := hS.al_k 28 (by decide)
  have k_rd7 : s.readable (B.toNat + 28) = true := hS.rd_k 28 (by decide) (by decide)
  have k_wr7 : s.writable (B.toNat + 28) = true := hS.wr_k 28 (by decide) (by decide)
  have k_lt8 : B.toNat + 32 < 2 ^ 32 := hS.lt_k 32 (by decide)
  have k_al8 : (B.toNat + 32) % 4 = 0 := hS.al_k 32 (by decide)
  have k_rd8 : s.readable (B.toNat + 32) = true := hS.rd_k 32 (by decide) (by decide)
  have k_wr8 : s.writable (B.toNat + 32) = true := hS.wr_k 32 (by decide) (by decide)
  have k_lt9 : B.toNat + 36 < 2 ^ 32 := hS.lt_k 36 (by decide)
  have k_al9 : (B.toNat + 36) % 4 = 0 := hS.al_k 36 (by decide)
  have k_rd9 : s.readable (B.toNat + 36) = true := hS.rd_k 36 (by decide) (by decide)
  have k_wr9 : s.writable (B.toNat + 36) = true := hS.wr_k 36 (by decide) (by decide)
  have k_lt10 : B.toNat + 40 < 2 ^ 32 := hS.lt_k 40 (by decide)
  have k_al10 : (B.toNat + 40) % 4 = 0 := hS.al_k 40 (by decide)
  have k_rd10 : s.readable (B.toNat + 40) = true := hS.rd_k 40 (by decide) (by decide)
  have k_wr10 : s.writable (B.toNat + 40) = true := hS.wr_k 40 (by decide) (by decide)
  have k_lt11 : B.toNat + 44 < 2 ^ 32 := hS.lt_k 44 (by decide)
  have k_al11 : (B.toNat + 44) % 4 = 0 := hS.al_k 44 (by decide)
  have k_rd11 : s.readable (B.toNat + 44) = true := hS.rd_k 44 (by decide) (by decide)
  have k_wr11 : s.writable (B.toNat + 44) = true := hS.wr_k 44 (by decide) (by decide)
  have k_lt12 : B.toNat + 48 < 2 ^ 32 := hS.lt_k 48 (by decide)
  have k_al12 : (B.toNat + 48) % 4 = 0 := hS.al_k 48 (by decide)
  have k_rd12 : s.readable (B.toNat + 48) = true := hS.rd_k 48 (by decide) (by decide)
  have k_wr12 : s.writable (B.toNat + 48) = true := hS.wr_k 48 (by decide) (by decide)
  have k_lt13 : B.toNat + 52 < 2 ^ 32 := hS.lt_k 52 (by decide)
  have k_al13 : (B.toNat + 52) % 4 = 0 := hS.al_k 52 (by decide)
  have k_rd13 : s.readable (B.toNat + 52) = true := hS.rd_k 52 (by decide) (by decide)
  have k_wr13 : s.writable (B.toNat + 52) = true := hS.wr_k 52 (by decide) (by decide)
  have k_lt14 : B.toNat + 56 < 2 ^ 32 := hS.lt_k 56 (by decide)
  have k_al14 : (B.toNat + 56) % 4 = 0 := hS.al_k 56 (by decide)
  have k_rd14 : s.readable (B.toNat + 56) = true := hS.rd_k 56 (by decide) (by decide)
  have k_wr14 : s.writable (B.toNat + 56) = true := hS.wr_k 56 (by decide) (by decide)
  have k_lt15 : B.toNat + 60 < 2 ^ 32 := hS.lt_k 60 (by decide)
  have k_al15 : (B.toNat + 60) % 4 = 0 := hS.al_k 60 (by decide)
  have k_rd15 : s.readable (B.toNat + 60) = true := hS.rd_k 60 (by decide) (by decide)
  have k_wr15 : s.writable (B.toNat + 60) = true := hS.wr_k 60 (by decide) (by decide)
  have k_lt16 : B.toNat + 64 < 2 ^ 32 := hS.lt_k 64 (by decide)
  have k_al16 : (B.toNat + 64) % 4 = 0 := hS.al_k 64 (by decide)
  have k_rd16 : s.readable (B.toNat + 64) = true := hS.rd_k 64 (by decide) (by decide)
  have k_wr16 : s.writable (B.toNat + 64) = true := hS.wr_k 64 (by decide) (by decide)
  have k_lt17 : B.toNat + 68 < 2 ^ 32 := hS.lt_k 68 (by decide)
  have k_al17 : (B.toNat + 68) % 4 = 0 := hS.al_k 68 (by decide)
  have k_rd17 : s.readable (B.toNat + 68) = true := hS.rd_k 68 (by decide) (by decide)
  have k_wr17 : s.writable (B.toNat + 68) = true := hS.wr_k 68 (by decide) (by decide)
  have k_lt18 : B.toNat + 72 < 2 ^ 32 := hS.lt_k 72 (by decide)
  have k_al18 : (B.toNat + 72) % 4 = 0 := hS.al_k 72 (by decide)
  have k_rd18 : s.readable (B.toNat + 72) = true := hS.rd_k 72 (by decide) (by decide)
  have k_wr18 : s.writable (B.toNat + 72) = true := hS.wr_k 72 (by decide) (by decide)
  have k_lt19 : B.toNat + 76 < 2 ^ 32 := hS.lt_k 76 (by decide)
  have k_al19 : (B.toNat + 76) % 4 = 0 := hS.al_k 76 (by decide)
  have k_rd19 : s.readable (B.toNat + 76) = true := hS.rd_k 76 (by decide) (by decide)
  have k_wr19 : s.writable (B.toNat + 76) = true := hS.wr_k 76 (by decide) (by decide)
  have k_lt20 : B.toNat + 80 < 2 ^ 32 := hS.lt_k 80 (by decide)
  have k_al20 : (B.toNat + 80) % 4 = 0 := hS.al_k 80 (by decide)
  have k_rd20 : s.readable (B.toNat + 80) = true := hS.rd_k 80 (by decide) (by decide)
  have k_wr20 : s.writable (B.toNat + 80) = true := hS.wr_k 80 (by decide) (by decide)
  have k_lt21 : B.toNat + 84 < 2 ^ 32 := hS.lt_k 84 (by decide)
  have k_al21 : (B.toNat + 84) % 4 = 0 := hS.al_k 84 (by decide)
  have k_rd21 : s.readable (B.toNat + 84) = true := hS.rd_k 84 (by decide) (by decide)
  have k_wr21 : s.writable (B.toNat + 84) = true := hS.wr_k 84 (by decide) (by decide)
  have k_lt22 : B.toNat + 88 < 2 ^ 32 := hS.lt_k 88 (by decide)
  have k_al22 : (B.toNat + 88) % 4 = 0 := hS.al_k 88 (by decide)
  have k_rd22 : s.readable (B.toNat + 88) = true := hS.rd_k 88 (by decide) (by decide)
  have k_wr22 : s.writable (B.toNat + 88) = true := hS.wr_k 88 (by decide) (by decide)
  have k_lt23 : B.toNat + 92 < 2 ^ 32 := hS.lt_k 92 (by decide)
  have k_al23 : (B.toNat + 92) % 4 = 0 := hS.al_k 92 (by decide)
  have k_rd23 : s.readable (B.toNat + 92) = true := hS.rd_k 92 (by decide) (by decide)
  have k_wr23 : s.writable (B.toNat + 92) = true := hS.wr_k 92 (by decide) (by decide)
  have k_lt24 : B.toNat + 96 < 2 ^ 32 := hS.lt_k 96 (by decide)
  have k_al24 : (B.toNat + 96) % 4 = 0 := hS.al_k 96 (by decide)
  have k_rd24 : s.readable (B.toNat + 96) = true := hS.rd_k 96 (by decide) (by decide)
  have k_wr24 : s.writable (B.toNat + 96) = true := hS.wr_k 96 (by decide) (by decide)
  have k_lt25 : B.toNat + 100 < 2 ^ 32 := hS.lt_k 100 (by decide)
  have k_al25 : (B.toNat + 100) % 4 = 0 := hS.al_k 100 (by decide)
  have k_rd25 : s.readable (B.toNat + 100) = true := hS.rd_k 100 (by decide) (by decide)
  have k_wr25 : s.writable (B.toNat + 100) = true := hS.wr_k 100 (by decide) (by decide)
  have k_lt26 : B.toNat + 104 < 2 ^ 32 := hS.lt_k 104 (by decide)
  have k_al26 : (B.toNat + 104) % 4 = 0 := hS.al_k 104 (by decide)
  have k_rd26 : s.readable (B.toNat + 104) = true := hS.rd_k 104 (by decide) (by decide)
  have k_wr26 : s.writable (B.toNat + 104) = true := hS.wr_k 104 (by decide) (by decide)
  have k_lt27 : B.toNat + 108 < 2 ^ 32 := hS.lt_k 108 (by decide)
  have k_al27 : (B.toNat + 108) % 4 = 0 := hS.al_k 108 (by decide)
  have k_rd27 : s.readable (B.toNat + 108) = true := hS.rd_k 108 (by decide) (by decide)
  have k_wr27 : s.writable (B.toNat + 108) = true := hS.wr_k 108 (by decide) (by decide)
  have k_lt28 : B.toNat + 112 < 2 ^ 32 := hS.lt_k 112 (by decide)
  have k_al28 : (B.toNat + 112) % 4 = 0 := hS.al_k 112 (by decide)
  have k_rd28 : s.readable (B.toNat + 112) = true := hS.rd_k 112 (by decide) (by decide)
  have k_wr28 : s.writable (B.toNat + 112) = true := hS.wr_k 112 (by decide) (by decide)
  have k_lt29 : B.toNat + 116 < 2 ^ 32 := hS.lt_k 116 (by decide)
  have k_al29 : (B.toNat + 116) % 4 = 0 := hS.al_k 116 (by decide)
  have k_rd29 : s.readable (B.toNat + 116) = true := hS.rd_k 116 (by decide) (by decide)
  have k_wr29 : s.writable (B.toNat + 116) = true := hS.wr_k 116 (by decide) (by decide)
  have k_lt30 : B.toNat + 120 < 2 ^ 32 := hS.lt_k 120 (by decide)
  have k_al30 : (B.toNat + 120) % 4 = 0 := hS.al_k 120 (by decide)
  have k_rd30 : s.readable (B.toNat + 120) = true := hS.rd_k 120 (by decide) (by decide)
  have k_wr30 : s.writable (B.toNat + 120) = true := hS.wr_k 120 (by decide) (by decide)
  have k_lt31 : B.toNat + 124 < 2 ^ 32 := hS.lt_k 124 (by decide)
  have k_al31 : (B.toNat + 124) % 4 = 0 := hS.al_k 124 (by decide)
  have k_rd31 : s.readable (B.toNat + 124) = true := hS.rd_k 124 (by decide) (by decide)
  have k_wr31 : s.writable (B.toNat + 124) = true := hS.wr_k 124 (by decide) (by decide)
  have k_lt32 : B.toNat + 128 < 2 ^ 32 := hS.lt_k 128 (by decide)
  have k_al32 : (B.toNat + 128) % 4 = 0 := hS.al_k 128 (by decide)
  have k_rd32 : s.readable (B.toNat + 128) = true := hS.rd_k 128 (by decide) (by decide)
  have k_wr32 : s.writable (B.toNat + 128) = true := hS.wr_k 128 (by decide) (by decide)
  have hR := hr.span
  have hA := ha.span
  have hBb := hb.span
  have hP := hp.span
  have c_lt : B.toNat + 132 < 2 ^ 32 := hBlt
  have c_al : (B.toNat + 132) % 4 = 0 := by have h4 := hstk.aligned; clear * - h4 hsp; omega
  have c_rd : s.readable (B.toNat + 132) = true := by rw [← hsp]; exact hcw
  have c_v : s.mem (B.toNat + 132) = inv := by rw [← hsp]; exact h4
  simp only [OffStack] at hrs has hbs hps
  have hrs' : pr.toNat + 48 ≤ B.toNat ∨ B.toNat + 132 ≤ pr.toNat := by clear * - hrs hsp; omega
  have has' : pa.toNat + 48 ≤ B.toNat ∨ B.toNat + 132 ≤ pa.toNat := by clear * - has hsp; omega
  have hbs' : pb.toNat + 48 ≤ B.toNat ∨ B.toNat + 132 ≤ pb.toNat := by clear * - hbs hsp; omega
  have hps' : pp.toNat + 48 ≤ B.toNat ∨ B.toNat + 132 ≤ pp.toNat := by clear * - hps hsp; omega
  have hdp : pp.toNat + 48 ≤ B.toNat ∨ B.toNat + 96 ≤ pp.toNat := by clear * - hps'; omega
  have hT24 : Span s.readable s.writable B.toNat 24 true := hS.sub 0 24 (by decide)
  have hT48 : Span s.readable s.writable (B + BitVec.ofNat 32 48).toNat 12 false := by
    rw [add_lit_toNat _ _ (by clear * - hBlt; omega)]; exact (hS.sub 12 12 (by decide)).weaken
  clear hrs has hbs hps hr ha hb hp hstk hcw h4
  have hrs'' := Hide.mk hrs'
  generalize hfin : run embedded_pairing_core_arch_armv6_m_fpbase_384_multiply s 7123 = s'
  rw [run_fpbase_384_multiply s hpc, State.eta s] at hfin
  simp only [Code.fpbase_384_multiply, runL_append, hst, h0, h1, h2, h3, hB] at hfin
  generalize hst1 : runL [Instr.movHi .r8 .r3, Instr.movHi .r11 .r0, Instr.decSp 96] (runL (Code.saveRegs true) _) = st1 at hfin
  generalize hst2 : runL Code.multiply768 st1 = st2 at hfin
  generalize hst3 : runL [Instr.movHi .r1 .r8, Instr.ldrImm .r2 .sp 132, Instr.movHi .r9 .r2] st2 = st3 at hfin
  generalize hst4 : runL Code.montgomeryreduce384 st3 = st4 at hfin
  clear hrs'
  t1m_sym [Code.saveRegs] at hst1
  subst hst1
  obtain ⟨x0, x3, x4, x5, x6, x7, x10, n1, z1, c1, v1, mX, e2, f2, w2⟩ := multiply768_run' hst2 rfl hA hBb hT24
    (by show pa.toNat + 48 ≤ B.toNat ∨ B.toNat + 96 ≤ pa.toNat; clear * - has'; omega) (by show pb.toNat + 48 ≤ B.toNat ∨ B.toNat + 96 ≤ pb.toNat; clear * - hbs'; omega)
  subst e2
  simp only [] at f2 w2 hst3
  rw [limbs32_congr s.mem _ pa.toNat 12 (fun i hi => by simp (disch := (clear * - hi has'; omega)) only [setMem_ne]),
    limbs32_congr s.mem _ pb.toNat 12 (fun i hi => by simp (disch := (clear * - hi hbs'; omega)) only [setMem_ne])] at w2
  have frX : ∀ k, ¬(B.toNat ≤ k ∧ k < B.toNat + 132) → mX k = s.mem k := by
    intro k hk; rw [f2 _ (by clear * - hk; omega)]; simp (disch := (clear * - hk; omega)) only [setMem_ne]
  have svX96 : mX (B.toNat + 96) = s.r8 := by
    rw [f2 _ (by clear * -; omega)]; simp (disch := (clear * -; omega)) only [setMem_eq, setMem_ne]
  have svX100 : mX (B.toNat + 100) = s.r9 := by
    rw [f2 _ (by clear * -; omega)]; simp (disch := (clear * -; omega)) only [setMem_eq, setMem_ne]
  have svX104 : mX (B.toNat + 104) = s.r10 := by
    rw [f2 _ (by clear * -; omega)]; simp (disch := (clear * -; omega)) only [setMem_eq, setMem_ne]
  have svX108 : mX (B.toNat + 108) = s.r11 := by
    rw [f2 _ (by clear * -; omega)]; simp (disch := (clear * -; omega)) only [setMem_eq, setMem_ne]
  have svX112 : mX (B.toNat + 112) = s.r4 := by
    rw [f2 _ (by clear * -; omega)]; simp (disch := (clear * -; omega)) only [setMem_eq, setMem_ne]
  have svX116 : mX (B.toNat + 116) = s.r5 := by
    rw [f2 _ (by clear * -; omega)]; simp (disch := (clear * -; omega)) only [setMem_eq, setMem_ne]
  have svX120 : mX (B.toNat + 120) = s.r6 := by
    rw [f2 _ (by clear * -; omega)]; simp (disch := (clear * -; omega)) only [setMem_eq, setMem_ne]
  have svX124 : mX (B.toNat + 124) = s.r7 := by
    rw [f2 _ (by clear * -; omega)]; simp (disch := (clear * -; omega)) only [setMem_eq, setMem_ne]
  have svX128 : mX (B.toNat + 128) = s.lr := by
    rw [f2 _ (by clear * -; omega)]; simp (disch := (clear * -; omega)) only [setMem_eq, setMem_ne]
  have hinvw : mX (B.toNat + 132) = inv := by rw [frX _ (by clear * -; omega)]; exact c_v
  have ePX : limbs32 mX pp.toNat 12 = limbs32 s.mem pp.toNat 12 := limbs32_congr _ _ _ _ (fun i hi => frX _ (by clear * - hi hps'; omega))
  clear f2
  t1m_sym [hinvw] at hst3
  subst hst3
  have hTv : val (2 ^ 32) (limbs32 s.mem pa.toNat 12) * val (2 ^ 32) (limbs32 s.mem pb.toNat 12) < val (2 ^ 32) (limbs32 s.mem pp.toNat 12) * (2 ^ 32) ^ 12 := by rw [e384]; exact hAB
  rw [← e384] at h2P
  obtain ⟨y0, y2, y3, y4, y5, y6, y7, y8, nM, zM, cM, vM, mY, M, mc, eM, fM, hM, hmc, wM⟩ := montgomeryreduce384_run' hst4 rfl rfl hP hT24 hdp
    (by dsimp only; rw [ePX]; exact hinv)
  subst eM
  simp only [] at fM wM hfin
  rw [ePX, w2] at wM
  obtain ⟨hR2, hRM⟩ := mont_finish _ _ _ _ _ wM hM hTv h2P hmc
  obtain ⟨hlt, hmod⟩ := reduce_finish _ _ _ _ hR2 hRM
  have hPP : limbs32 mY pp.toNat 12 = limbs32 s.mem pp.toNat 12 := by
    rw [← ePX]; exact limbs32_congr _ _ _ _ (fun i hi => fM _ (by clear * - hi hdp; omega))
  clear wM hRM hR2
  have sv96 : mY (B.toNat + 96) = s.r8 := by rw [fM _ (by clear * -; omega)]; exact svX96
  have sv100 : mY (B.toNat + 100) = s.r9 := by rw [fM _ (by clear * -; omega)]; exact svX100
  have sv104 : mY (B.toNat + 104) = s.r10 := by rw [fM _ (by clear * -; omega)]; exact svX104
  have sv108 : mY (B.toNat + 108) = s.r11 := by rw [fM _ (by clear * -; omega)]; exact svX108
  have sv112 : mY (B.toNat + 112) = s.r4 := by rw [fM _ (by clear * -; omega)]; exact svX112
  have sv116 : mY (B.toNat + 116) = s.r5 := by rw [fM _ (by clear * -; omega)]; exact svX116
  have sv120 : mY (B.toNat + 120) = s.r6 := by rw [fM _ (by clear * -; omega)]; exact svX120
  have sv124 : mY (B.toNat + 124) = s.r7 := by rw [fM _ (by clear * -; omega)]; exact svX124
  have sv128 : mY (B.toNat + 128) = s.lr := by rw [fM _ (by clear * -; omega)]; exact svX128
  t1m_sym [Code.montFinal, Code.restoreRegs, exec_bl_reduce_mk, writeList_words_ne, hPP, sv96, sv100, sv104, sv108, sv112, sv116, sv120, sv124, sv128, hlr] at hfin
  subst hfin
  have hrv : reduceVal (val (2 ^ 32) (limbs32 mY (B.toNat + 48) 12)) (val (2 ^ 32) (limbs32 s.mem pp.toNat 12)) < (2 ^ 32) ^ 12 :=
    Nat.lt_trans hlt (limbs32_lt12 _ _)
  refine ⟨⟨rfl, rfl, hB.symm, rfl, rfl, rfl, rfl, rfl, rfl, rfl, rfl⟩, ?_, ?_, ?_, ?_⟩
  · simp only []
    rw [val_limbs32_writeList_words _ _ _ hrv]; exact hlt
  · simp only []
    rw [val_limbs32_writeList_words _ _ _ hrv]; exact hmod
  · intro k hk1 hk2
    simp only []
    rw [writeList_words_ne _ _ _ _ (by clear * - hk1; omega)]
    by_cases hk3 : B.toNat ≤ k ∧ k < B.toNat + 96
    · exfalso; clear * - hk2 hk3 hsp; omega
    · rw [fM _ hk3]; exact frX k (by clear * - hk2 hsp; omega)
  · simp only []
    rw [show s.sp.toNat - 132 = B.toNat by clear * - hsp; omega]

set_option maxHeartbeats 1600000 in
/-- `void fpbase_384_square(res, a, p, inv)`: `res < P` and `res · 2^384 ≡ a² (mod P)`; `res` may overlap `a` in any way. -/
theorem fpbase_384_square_run (s : State) (pr pa pp inv : Word)
    (hst : s.status = .running) (hpc : s.pc = 0) (h0 : s.r0 = pr) (h1 : s.r1 = pa) (h2 : s.r2 = pp) (h3 : s.r3 = inv) (hlr : s.lr.toNat % 2 = 1)
    (hr : Buf s pr 12 true) (ha : Buf s pa 12 false) (hp : Buf s pp 12 false)
    (hstk : Stack s 33) (hrs : OffStack s 33 pr 12) (has : OffStack s 33 pa 12) (hps : OffStack s 33 pp 12)
    (hinv : (inv.toNat * val (2 ^ 32) (limbs32 s.mem pp.toNat 12) + 1) % 2 ^ 32 = 0)
    (hAB : val (2 ^ 32) (limbs32 s.mem pa.toNat 12) * val (2 ^ 32) (limbs32 s.mem pa.toNat 12) < val (2 ^ 32) (limbs32 s.mem pp.toNat 12) * 2 ^ 384)
    (h2P : 2 * val (2 ^ 32) (limbs32 s.mem pp.toNat 12) ≤ 2 ^ 384) :
    ∃ s', run embedded_pairing_core_arch_armv6_m_fpbase_384_square s 5457 = s' ∧ Returned s s' ∧
      val (2 ^ 32) (limbs32 s'.mem pr.toNat 12) < val (2 ^ 32) (limbs32 s.mem pp.toNat 12) ∧
      (val (2 ^ 32) (limbs32 s'.mem pr.toNat 12) * 2 ^ 384) % val (2 ^ 32) (limbs32 s.mem pp.toNat 12) = (val (2 ^ 32) (limbs32 s.mem pa.toNat 12) * val (2 ^ 32) (limbs32 s.mem pa.toNat 12)) % val (2 ^ 32) (limbs32 s.mem pp.toNat 12) ∧
      (∀ k, ¬(pr.toNat ≤ k ∧ k < pr.toNat + 48) → ¬(s.sp.toNat - 132 ≤ k ∧ k < s.sp.toNat) → s'.mem k = s.mem k) ∧
      s'.callSpMisaligned = (s.callSpMisaligned || (s.sp.toNat - 132) % 8 != 0) := by
  refine ⟨_, rfl, ?_⟩
  have e384 : ((2 : ℕ) ^ 32) ^ 12 = 2 ^ 384 := by rw [← pow_mul]
  obtain ⟨B, hB, hBlt, hsp⟩ := hstk.base (by decide)
  have hS := hstk.span B.toNat hsp
  have k_lt0 : B.toNat < 2 ^ 32 := hS.lt_0 (by decide)
  have k_al0 : (B.toNat) % 4 = 0 := hS.aligned
  have k_rd0 : s.readable (B.toNat) = true := hS.rd_0 (by decide)
  have k_wr0 : s.writable (B.toNat) = true := hS.wr_0 (by decide)
  have k_lt1 : B.toNat + 4 < 2 ^ 32 := hS.lt_k 4 (by decide)
  have k_al1 : (B.toNat + 4) % 4 = 0 := hS.al_k 4 (by decide)
  have k_rd1 : s.readable (B.toNat + 4) = true := hS.rd_k 4 (by decide) (by decide)
  have k_wr1 : s.writable (B.toNat + 4) = true := hS.wr_k 4 (by decide) (by decide)
  have k_lt2 : B.toNat + 8 < 2 ^ 32 := hS.lt_k 8 (by decide)
  have k_al2 : (B.toNat + 8) % 4 = 0 := hS.al_k 8 (by decide)
  have k_rd2 : s.readable (B.toNat + 8) = true := hS.rd_k 8 (by decide) (by decide)
  have k_wr2 : s.writable (B.toNat + 8) = true := hS.wr_k 8 (by decide) (by decide)
  have k_lt3 : B.toNat + 12 < 2 ^ 32 := hS.lt_k 12 (by decide)
  have k_al3 : (B.toNat + 12) % 4 = 0 := hS.al_k 12 (by decide)
  have k_rd3 : s.readable (B.toNat + 12) = true := hS.rd_k 12 (by decide) (by decide)
  have k_wr3 : s.writable (B.toNat + 12) = true := hS.wr_k 12 (by decide) (by decide)
  have k_lt4 : B.toNat + 16 < 2 ^ 32 := hS.lt_k 16 (by decide)
  have k_al4 : (B.toNat + 16) % 4 = 0 := hS.al_k 16 (by decide)
  have k_rd4 : s.readable (B.toNat + 16) = true := hS.rd_k 16 (by decide) (by decide)
  have k_wr4 : s.writable (B.toNat + 16) = true := hS.wr_k 16 (by decide) (by decide)
  have k_lt5 : B.toNat + 20 < 2 ^ 32 := hS.lt_k 20 (by decide)
  have k_al5 : (B.toNat + 20) % 4 = 0 := hS.al_k 20 (by decide)
  have k_rd5 : s.readable (B.toNat + 20) = true := hS.rd_k 20 (by decide) (by decide)
  have k_wr5 : s.writable (B.toNat + 20) = true := hS.wr_k 20 (by decide) (by decide)
  have k_lt6 : B.toNat + 24 < 2 ^ 32 := hS.lt_k 24 (by decide)
  have k_al6 : (B.toNat + 24) % 4 = 0 := hS.al_k 24 (by decide)
  have k_rd6 : s.readable (B.toNat + 24) = true := hS.rd_k 24 (by decide) (by decide)
  have k_wr6 : s.writable (B.toNat + 24) = true := hS.wr_k 24 (by decide) (by decide)
  have k_lt7 : B.toNat + 28 < 2 ^ 32 := hS.lt_k 28 (by decide)
  have k_al7 : (B.toNat + 28) % 4 = 0 := hS.al_k 28 (by decide)
  have k_rd7 : s.readable (B.toNat + 28) = true := hS.rd_k 28 (by decide) (by decide)
  have k_wr7 : s.writable (B.toNat + 28) = true := hS.wr_k 28 (by decide) (by decide)
  have k_lt8 : B.toNat + 32 < 2 ^ 32 := hS.lt_k 32 (by decide)
  have k_al8 : (B.toNat + 32) % 4 = 0 := hS.al_k 32 (by decide)
  have k_rd8 : s.readable (B.toNat + 32) = true := hS.rd_k 32 (by decide) (by decide)
  have k_wr8 : s.writable (B.toNat + 32) = true := hS.wr_k 32 (by decide) (by decide)
  have k_lt9 : B.toNat + 36 < 2 ^ 32 := hS.lt_k 36 (by decide)
  have k_al9 : (B.toNat + 36) % 4 = 0 := hS.al_k 36 (by decide)
  have k_rd9 : s.readable (B.toNat + 36) = true := hS.rd_k 36 (by decide) (by decide)
  have k_wr9 : s.writable (B.toNat + 36) = true := hS.wr_k 36 (by decide) (by decide)
  have k_lt10 : B.toNat + 40 < 2 ^ 32 := hS.lt_k 40 (by decide)
  have k_al10 : (B.toNat + 40) % 4 = 0 := hS.al_k 40 (by decide)
  have k_rd10 : s.readable (B.toNat + 40) = true := hS.rd_k 40 (by decide) (by decide)
  have k_wr10 : s.writable (B.toNat + 40) = true := hS.wr_k 40 (by decide) (by decide)
  have k_lt11 : B.toNat + 44 < 2 ^ 32 := hS.lt_k 44 (by decide)
  have k_al11 : (B.toNat + 44) % 4 = 0 := hS.al_k 44 (by decide)
  have k_rd11 : s.readable (B.toNat + 44) = true := hS.rd_k 44 (by decide) (by decide)
  have k_wr11 : s.writable (B.toNat + 44) = true := hS.wr_k 44 (by decide) (by decide)
  have k_lt12 : B.toNat + 48 < 2 ^ 32 := hS.lt_k 48 (by decide)
  have k_al12 : (B.toNat + 48) % 4 = 0 := hS.al_k 48 (by decide)
  have k_rd12 : s.readable (B.toNat + 48) = true := hS.rd_k 48 (by decide) (by decide)
  have k_wr12 : s.writable (B.toNat + 48) = true := hS.wr_k 48 (by decide) (by decide)
  have k_lt13 : B.toNat + 52 < 2 ^ 32 := hS.lt_k 52 (by decide)
  have k_al13 : (B.toNat + 52) % 4 = 0 := hS.al_k 52 (by decide)
  have k_rd13 : s.readable (B.toNat + 52) = true := hS.rd_k 52 (by decide) (by decide)
  have k_wr13 : s.writable (B.toNat + 52) = true := hS.wr_k 52 (by decide) (by decide)
  have k_lt14 : B.toNat + 56 < 2 ^ 32 := hS.lt_k 56 (by decide)
  have k_al14 : (B.toNat + 56) % 4 = 0 := hS.al_k 56 (by decide)
  have k_rd14 : s.readable (B.toNat + 56) = true := hS.rd_k 56 (by decide) (by decide)
  have k_wr14 : s.writable (B.toNat + 56) = true := hS.wr_k 56 (by decide) (by decide)
  have k_lt15 : B.toNat + 60 < 2 ^ 32 := hS.lt_k 60 (by decide)
  have k_al15 : (B.toNat + 60) % 4 = 0 := hS.al_k 60 (by decide)
  have k_rd15 : s.readable (B.toNat + 60) = true := hS.rd_k 60 (by decide) (by decide)
  have k_wr15 : s.writable (B.toNat + 60) = true := hS.wr_k 60 (by decide) (by decide)
  have k_lt16 : B.toNat + 64 < 2 ^ 32 := hS.lt_k 64 (by decide)
  have k_al16 : (B.toNat + 64) % 4 = 0 := hS.al_k 64 (by decide)
  have k_rd16 : s.readable (B.toNat + 64) = true := hS.rd_k 64 (by decide) (by decide)
  have k_wr16 : s.writable (B.toNat + 64) = true := hS.wr_k 64 (by decide) (by decide)
  have k_lt17 : B.toNat + 68 < 2 ^ 32 := hS.lt_k 68 (by decide)
  have k_al17 : (B.toNat + 68) % 4 = 0 := hS.al_k 68 (by decide)
  have k_rd17 : s.readable (B.toNat + 68) = true := hS.rd_k 68 (by decide) (by decide)
  have k_wr17 : s.writable (B.toNat + 68) = true := hS.wr_k 68 (by decide) (by decide)
  have k_lt18 : B.toNat + 72 < 2 ^ 32 := hS.lt_k 72 (by decide)
  have k_al18 : (B.toNat + 72) % 4 = 0 := hS.al_k 72 (by decide)
  have k_rd18 : s.readable (B.toNat + 72) = true := hS.rd_k 72 (by decide) (by decide)
  have k_wr18 : s.writable (B.toNat + 72) = true := hS.wr_k 72 (by decide) (by decide)
  have k_lt19 : B.toNat + 76 < 2 ^ 32 := hS.lt_k 76 (by decide)
  have k_al19 : (B.toNat + 76) % 4 = 0 := hS.al_k 76 (by decide)
  have k_rd19 : s.readable (B.toNat + 76) = true := hS.rd_k 76 (by decide) (by decide)
  have k_wr19 : s.writable (B.toNat + 76) = true := hS.wr_k 76 (by decide) (by decide)
  have k_lt20 : B.toNat + 80 < 2 ^ 32 := hS.lt_k 80 (by decide)
  have k_al20 : (B.toNat + 80) % 4 = 0 := hS.al_k 80 (by decide)
  have k_rd20 : s.readable (B.toNat + 80) = true := hS.rd_k 80 (by decide) (by decide)
  have k_wr20 : s.writable (B.toNat + 80) = true := hS.wr_k 80 (by decide) (by decide)
  have k_lt21 : B.toNat + 84 < 2 ^ 32 := hS.lt_k 84 (by decide)
  have k_al21 : (B.toNat + 84) % 4 = 0 := hS.al_k 84 (by decide)
  have k_rd21 : s.readable (B.toNat + 84) = true := hS.rd_k 84 (by decide) (by decide)
  have k_wr21 : s.writable (B.toNat + 84) = true := hS.wr_k 84 (by decide) (by decide)
  have k_lt22 : B.toNat + 88 < 2 ^ 32 := hS.lt_k 88 (by decide)
  have k_al22 : (B.toNat + 88) % 4 = 0 := hS.al_k 88 (by decide)
  have k_rd22 : s.readable (B.toNat + 88) = true := hS.rd_k 88 (by decide) (by decide)
  have k_wr22 : s.writable (B.toNat + 88) = true := hS.wr_k 88 (by decide) (by decide)
  have k_lt23 : B.toNat + 92 < 2 ^ 32 := hS.lt_k 92 (by decide)
  have k_al23 : (B.toNat + 92) % 4 = 0 := hS.al_k 92 (by decide)
  have k_rd23 : s.readable (B.toNat + 92) = true := hS.rd_k 92 (by decide) (by decide)
  have k_wr23 : s.writable (B.toNat + 92) = true := hS.wr_k 92 (by decide) (by decide)
  have k_lt24 : B.toNat + 96 < 2 ^ 32 := hS.lt_k 96 (by decide)
  have k_al24 : (B.toNat + 96) % 4 = 0 := hS.al_k 96 (by decide)
  have k_rd24 : s.readable (B.toNat + 96) = true := hS.rd_k 96 (by decide) (by decide)
  have k_wr24 : s.writable (B.toNat + 96) = true := hS.wr_k 96 (by decide) (by decide)
  have k_lt25 : B.toNat + 100 < 2 ^ 32 := hS.lt_k 100 (by decide)
  have k_al25 : (B.toNat + 100) % 4 = 0 := hS.al_k 100 (by decide)
  have k_rd25 : s.readable (B.toNat + 100) = true := hS.rd_k 100 (by decide) (by decide)
  have k_wr25 : s.writable (B.toNat + 100) = true := hS.wr_k 100 (by decide) (by decide)
  have k_lt26 : B.toNat + 104 < 2 ^ 32 := hS.lt_k 104 (by decide)
  have k_al26 : (B.toNat + 104) % 4 = 0 := hS.al_k 104 (by decide)
  have k_rd26 : s.readable (B.toNat + 104) = true := hS.rd_k 104 (by decide) (by decide)
  have k_wr26 : s.writable (B.toNat + 104) = true := hS.wr_k 104 (by decide) (by decide)
  have k_lt27 : B.toNat + 108 < 2 ^ 32 := hS.lt_k 108 (by decide)
  have k_al27 : (B.toNat + 108) % 4 = 0 := hS.al_k 108 (by decide)
  have k_rd27 : s.readable (B.toNat + 108) = true := hS.rd_k 108 (by decide) (by decide)
  have k_wr27 : s.writable (B.toNat + 108) = true := hS.wr_k 108 (by decide) (by decide)
  have k_lt28 : B.toNat + 112 < 2 ^ 32 := hS.lt_k 112 (by decide)
  have k_al28 : (B.toNat + 112) % 4 = 0 := hS.al_k 112 (by decide)
  have k_rd28 : s.readable (B.toNat + 112) = true := hS.rd_k 112 (by decide) (by decide)
  have k_wr28 : s.writable (B.toNat + 112) = true := hS.wr_k 112 (by decide) (by decide)
  have k_lt29 : B.toNat + 116 < 2 ^ 32 := hS.lt_k 116 (by decide)
  have k_al29 : (B.toNat + 116) % 4 = 0 := hS.al_k 116 (by decide)
  have k_rd29 : s.readable (B.toNat + 116) = true := hS.rd_k 116 (by decide) (by decide)
  have k_wr29 : s.writable (B.toNat + 116) = true := hS.wr_k 116 (by decide) (by decide)
  have k_lt30 : B.toNat + 120 < 2 ^ 32 := hS.lt_k 120 (by decide)
  have k_al30 : (B.toNat + 120) % 4 = 0 := hS.al_k 120 (by decide)
  have k_rd30 : s.readable (B.toNat + 120) = true := hS.rd_k 120 (by decide) (by decide)
  have k_wr30 : s.writable (B.toNat + 120) = true := hS.wr_k 120 (by decide) (by decide)
  have k_lt31 : B.toNat + 124 < 2 ^ 32 := hS.lt_k 124 (by decide)
  have k_al31 : (B.toNat + 124) % 4 = 0 := hS.al_k 124 (by decide)
  have k_rd31 : s.readable (B.toNat + 124) = true := hS.rd_k 124 (by decide) (by decide)
  have k_wr31 : s.writable (B.toNat + 124) = true := hS.wr_k 124 (by decide) (by decide)
  have k_lt32 : B.toNat + 128 < 2 ^ 32 := hS.lt_k 128 (by decide)
  have k_al32 : (B.toNat + 128) % 4 = 0 := hS.al_k 128 (by decide)
  have k_rd32 : s.readable (B.toNat + 128) = true := hS.rd_k 128 (by decide) (by decide)
  have k_wr32 : s.writable (B.toNat + 128) = true := hS.wr_k 128 (by decide) (by decide)
  have hR := hr.span
  have hA := ha.span
  have hP := hp.span
  simp only [OffStack] at hrs has hps
  have hrs' : pr.toNat + 48 ≤ B.toNat ∨ B.toNat + 132 ≤ pr.toNat := by clear * - hrs hsp; omega
  have has' : pa.toNat + 48 ≤ B.toNat ∨ B.toNat + 132 ≤ pa.toNat := by clear * - has hsp; omega
  have hps' : pp.toNat + 48 ≤ B.toNat ∨ B.toNat + 132 ≤ pp.toNat := by clear * - hps hsp; omega
  have hda : pa.toNat + 48 ≤ B.toNat ∨ B.toNat + 96 ≤ pa.toNat := by clear * - has'; omega
  have hdp : pp.toNat + 48 ≤ B.toNat ∨ B.toNat + 96 ≤ pp.toNat := by clear * - hps'; omega
  have hT24 : Span s.readable s.writable B.toNat 24 true := hS.sub 0 24 (by decide)
  have hT48 : Span s.readable s.writable (B + BitVec.ofNat 32 48).toNat 12 false := by
    rw [add_lit_toNat _ _ (by clear * - hBlt; omega)]; exact (hS.sub 12 12 (by decide)).weaken
  clear hrs has hps hr ha hp hstk
  have hrs'' := Hide.mk hrs'
  generalize hfin : run embedded_pairing_core_arch_armv6_m_fpbase_384_square s 5457 = s'
  rw [run_fpbase_384_square s hpc, State.eta s] at hfin
  simp only [Code.fpbase_384_square, runL_append, hst, h0, h1, h2, h3, hB] at hfin
  generalize hst1 : runL [Instr.movHi .r8 .r2, Instr.movHi .r9 .r3, Instr.movHi .r10 .r1, Instr.movHi .r11 .r0, Instr.decSp 96] (runL (Code.saveRegs true) _) = st1 at hfin
  generalize hst2 : runL Code.square768part1 st1 = st2 at hfin
  generalize hst3 : runL Code.square768part2 st2 = st3 at hfin
  generalize hst4 : runL [Instr.movHi .r1 .r10] st3 = st4 at hfin
  generalize hst5 : runL Code.square768part3 st4 = st5 at hfin
  generalize hst6 : runL [Instr.movHi .r1 .r8, Instr.movHi .r2 .r9] st5 = st6 at hfin
  generalize hst7 : runL Code.montgomeryreduce384 st6 = st7 at hfin
  clear hrs'
  t1m_sym [Code.saveRegs] at hst1
  subst hst1
  obtain ⟨a0, a2, a3, a4, a5, a6, a7, n1, z1, c1, v1, m1, e1, f1, w1⟩ := square768part1_run' hst2 rfl hA hT24 hda
  subst e1
  simp only [] at f1 w1 hst3
  obtain ⟨u0, u1, u2, u3, u4, u5, u6, u7, n2, z2, c2, v2, m2, e2, f2, w2⟩ := sqPart2_run' hst3 rfl hT24
  subst e2
  simp only [] at f2 w2 hst4
  t1m_sym [] at hst4
  subst hst4
  obtain ⟨g0, g2, g4, g5, g6, g7, n3, z3, c3, v3, mX, e3, f3, b3, w3⟩ := square768part3_run' hst5 rfl hA hT24 hda
  subst e3
  simp only [] at f3 w3 hst6
  rw [limbs32_congr s.mem _ pa.toNat 12 (fun i hi => by simp (disch := (clear * - hi has'; omega)) only [setMem_ne])] at w1
  rw [limbs32_congr s.mem m2 pa.toNat 12 (fun i hi => by rw [f2 _ (by clear * - hi hda; omega), f1 _ (by clear * - hi hda; omega)]; simp (disch := (clear * - hi has'; omega)) only [setMem_ne])] at w3
  have eTX := square_nocarry _ _ _ (square_finish _ _ _ _ _ _ w1 w2 w3 (limbs32_lt12 _ _)) (limbs32_lt12 _ _)
  have frX : ∀ k, ¬(B.toNat ≤ k ∧ k < B.toNat + 132) → mX k = s.mem k := by
    intro k hk; rw [f3 _ (by clear * - hk; omega), f2 _ (by clear * - hk; omega), f1 _ (by clear * - hk; omega)]; simp (disch := (clear * - hk; omega)) only [setMem_ne]
  have svX96 : mX (B.toNat + 96) = s.r8 := by
    rw [f3 _ (by clear * -; omega), f2 _ (by clear * -; omega), f1 _ (by clear * -; omega)]; simp (disch := (clear * -; omega)) only [setMem_eq, setMem_ne]
  have svX100 : mX (B.toNat + 100) = s.r9 := by
    rw [f3 _ (by clear * -; omega), f2 _ (by clear * -; omega), f1 _ (by clear * -; omega)]; simp (disch := (clear * -; omega)) only [setMem_eq, setMem_ne]
  have svX104 : mX (B.toNat + 104) = s.r10 := by
    rw [f3 _ (by clear * -; omega), f2 _ (by clear * -; omega), f1 _ (by clear * -; omega)]; simp (disch := (clear * -; omega)) only [setMem_eq, setMem_ne]
  have svX108 : mX (B.toNat + 108) = s.r11 := by
    rw [f3 _ (by clear * -; omega), f2 _ (by clear * -; omega), f1 _ (by clear * -; omega)]; simp (disch := (clear * -; omega)) only [setMem_eq, setMem_ne]
  have svX112 : mX (B.toNat + 112) = s.r4 := by
    rw [f3 _ (by clear * -; omega), f2 _ (by clear * -; omega), f1 _ (by clear * -; omega)]; simp (disch := (clear * -; omega)) only [setMem_eq, setMem_ne]
  have svX116 : mX (B.toNat + 116) = s.r5 := by
    rw [f3 _ (by clear * -; omega), f2 _ (by clear * -; omega), f1 _ (by clear * -; omega)]; simp (disch := (clear * -; omega)) only [setMem_eq, setMem_ne]
  have svX120 : mX (B.toNat + 120) = s.r6 := by
    rw [f3 _ (by clear * -; omega), f2 _ (by clear * -; omega), f1 _ (by clear * -; omega)]; simp (disch := (clear * -; omega)) only [setMem_eq, setMem_ne]
  have svX124 : mX (B.toNat + 124) = s.r7 := by
    rw [f3 _ (by clear * -; omega), f2 _ (by clear * -; omega), f1 _ (by clear * -; omega)]; simp (disch := (clear * -; omega)) only [setMem_eq, setMem_ne]
  have svX128 : mX (B.toNat + 128) = s.lr := by
    rw [f3 _ (by clear * -; omega), f2 _ (by clear * -; omega), f1 _ (by clear * -; omega)]; simp (disch := (clear * -; omega)) only [setMem_eq, setMem_ne]
  have ePX : limbs32 mX pp.toNat 12 = limbs32 s.mem pp.toNat 12 := limbs32_congr _ _ _ _ (fun i hi => frX _ (by clear * - hi hps'; omega))
  clear f1 f2 f3 w1 w2 w3
  t1m_sym [] at hst6
  subst hst6
  have hTv : val (2 ^ 32) (limbs32 s.mem pa.toNat 12) * val (2 ^ 32) (limbs32 s.mem pa.toNat 12) < val (2 ^ 32) (limbs32 s.mem pp.toNat 12) * (2 ^ 32) ^ 12 := by rw [e384]; exact hAB
  rw [← e384] at h2P
  obtain ⟨y0, y2, y3, y4, y5, y6, y7, y8, nM, zM, cM, vM, mY, M, mc, eM, fM, hM, hmc, wM⟩ := montgomeryreduce384_run' hst7 rfl rfl hP hT24 hdp
    (by dsimp only; rw [ePX]; exact hinv)
  subst eM
  simp only [] at fM wM hfin
  rw [ePX, eTX] at wM
  obtain ⟨hR2, hRM⟩ := mont_finish _ _ _ _ _ wM hM hTv h2P hmc
  obtain ⟨hlt, hmod⟩ := reduce_finish _ _ _ _ hR2 hRM
  have hPP : limbs32 mY pp.toNat 12 = limbs32 s.mem pp.toNat 12 := by
    rw [← ePX]; exact limbs32_congr _ _ _ _ (fun i hi => fM _ (by clear * - hi hdp; omega))
  clear wM hRM hR2
  have sv96 : mY (B.toNat + 96) = s.r8 := by rw [fM _ (by clear * -; omega)]; exact svX96
  have sv100 : mY (B.toNat + 100) = s.r9 := by rw [fM _ (by clear * -; omega)]; exact svX100
  have sv104 : mY (B.toNat + 104) = s.r10 := by rw [fM _ (by clear * -; omega)]; exact svX104
  have sv108 : mY (B.toNat + 108) = s.r11 := by rw [fM _ (by clear * -; omega)]; exact svX108
  have sv112 : mY (B.toNat + 112) = s.r4 := by rw [fM _ (by clear * -; omega)]; exact svX112
  have sv116 : mY (B.toNat + 116) = s.r5 := by rw [fM _ (by clear * -; omega)]; exact svX116
  have sv120 : mY (B.toNat + 120) = s.r6 := by rw [fM _ (by clear * -; omega)]; exact svX120
  have sv124 : mY (B.toNat + 124) = s.r7 := by rw [fM _ (by clear * -; omega)]; exact svX124
  have sv128 : mY (B.toNat + 128) = s.lr := by rw [fM _ (by clear * -; omega)]; exact svX128
  t1m_sym [Code.montFinal, Code.restoreRegs, exec_bl_reduce_mk, writeList_words_ne, hPP, sv96, sv100, sv104, sv108, sv112, sv116, sv120, sv124, sv128, hlr] at hfin
  subst hfin
  have hrv : reduceVal (val (2 ^ 32) (limbs32 mY (B.toNat + 48) 12)) (val (2 ^ 32) (limbs32 s.mem pp.toNat 12)) < (2 ^ 32) ^ 12 :=
    Nat.lt_trans hlt (limbs32_lt12 _ _)
  refine ⟨⟨rfl, rfl, hB.symm, rfl, rfl, rfl, rfl, rfl, rfl, rfl, rfl⟩, ?_, ?_, ?_, ?_⟩
  · simp only []
    rw [val_limbs32_writeList_words _ _ _ hrv]; exact hlt
  · simp only []
    rw [val_limbs32_writeList_words _ _ _ hrv]; exact hmod
  · intro k hk1 hk2
    simp only []
    rw [writeList_words_ne _ _ _ _ (by clear * - hk1; omega)]
    by_cases hk3 : B.toNat ≤ k ∧ k < B.toNat + 96
    · exfalso; clear * - hk2 hk3 hsp; omega
    · rw [fM _ hk3]; exact frX k (by clear * - hk2 hsp; omega)
  · simp only []
    rw [show s.sp.toNat - 132 = B.toNat by clear * - hsp; omega]

end Jedi.Thumb1
