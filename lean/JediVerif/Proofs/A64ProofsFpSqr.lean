/-
The fused `fpbase_384_square` of /repo/src/core/arch/aarch64/multiply.s (as regenerated into
`JediVerif/Gen/AsmA64.lean`, executed by the machine model of `JediVerif/Impl/A64.lean`): the full product in registers
(macro equations of `A64ProofsMul.lean`), the six Montgomery rounds and the twelve endings of the final comparison
(lemmas of `A64ProofsMont.lean`).  For every entry state satisfying AAPCS64, `inv·P ≡ −1 (mod 2^64)`, `2P ≤ 2^384` and
product `< P·2^384` the six result limbs are `< P` and `≡ product·2^{-384} (mod P)`.  `p` and `inv` are parked on the
stack during the multiplication.  All loads precede all stores: `res` may overlap the operands and `p` in any way.
This file: the twelve endings and the final theorem; the pieces of the common prefix and the arithmetic lemmas are in
`A64ProofsFpSqrParts.lean`.
-/
import JediVerif.Proofs.A64ProofsFpSqrParts

set_option linter.unusedSimpArgs false

namespace Jedi.A64
open Lean Meta Simp
open Jedi.Impl (val WF val_cons val_nil val_lt val_inj)
open Jedi.X86 (limbs limbs_six limbs_twelve limbs_length limbs_WF Hide Hide.mk Hide.out ea_toNat)
open Jedi.Gen.AsmA64

/-! ## the twelve endings -/

set_option maxHeartbeats 1600000 in
theorem fpsqr_tail_hi5 (s : State) (pr pa pp inv : Word)
    (hr : Buf s pr 6 true) (ha : Buf s pa 6 false) (hp : Buf s pp 6 false)
    (hstk : Stack s 5) (hrs : OffStack s 5 pr 6) (has : OffStack s 5 pa 6) (hps : OffStack s 5 pp 6) {p0 p1 p2 p3 p4 p5 l271 l295 : Word} {t168 t201 t234 t267 t270 t279 t284 t289 t293 t294 t299 t300 t302 t320 t321 t322 t323 t324 t325 : ArithRes}
    (ht303 : t303 = addWithCarry t302.val (~~~p5) true) (ht320 : t320 = addWithCarry t279.val (~~~p0) true)
    (ht321 : t321 = addWithCarry t284.val (~~~p1) t320.c) (ht322 : t322 = addWithCarry t289.val (~~~p2) t321.c)
    (ht323 : t323 = addWithCarry t294.val (~~~p3) t322.c) (ht324 : t324 = addWithCarry t299.val (~~~p4) t323.c)
    (ht325 : t325 = addWithCarry t302.val (~~~p5) t324.c) (hb304 : (t303.c && !t303.z) = true) :
    run embedded_pairing_core_arch_aarch64_fpbase_384_square ({ x0 := pr, x1 := t270.val, x2 := l271, x3 := inv, x4 := p0, x5 := p1, x6 := p2, x7 := p3, x8 := s.x8, x9 := t168.val, x10 := t201.val, x11 := t234.val, x12 := t267.val, x13 := t300.val, x14 := t279.val, x15 := t284.val, x16 := s.x16, x17 := s.x17, x18 := s.x18, x19 := t289.val, x20 := t294.val, x21 := t299.val, x22 := t302.val, x23 := p4, x24 := p5, x25 := t293.val, x26 := l295, x27 := s.x27, x28 := s.x28, x29 := s.x29, x30 := s.x30, sp := s.sp - 16#64 - 16#64 - 16#64 - 16#64, nf := some t302.n, zf := some t302.z, cf := some t302.c, vf := some t302.v, mem := setMem (setMem (setMem (setMem (setMem (setMem (setMem (setMem (setMem (setMem (s.mem) (s.sp.toNat - 16) s.x19) (s.sp.toNat - 16 + 8) s.x20) (s.sp.toNat - 16 - 16) s.x21) (s.sp.toNat - 16 - 16 + 8) s.x22) (s.sp.toNat - 16 - 16 - 16) s.x23) (s.sp.toNat - 16 - 16 - 16 + 8) s.x24) (s.sp.toNat - 16 - 16 - 16 - 16) s.x25) (s.sp.toNat - 16 - 16 - 16 - 16 + 8) s.x26) (s.sp.toNat - 16 - 16 - 16 - 16 - 16) pp) (s.sp.toNat - 16 - 16 - 16 - 16 - 16 + 8) inv, readable := s.readable, writable := s.writable, pc := 303, status := .running } : State) 16
      = ({ x0 := pr + 48#64, x1 := t270.val, x2 := l271, x3 := inv, x4 := p0, x5 := p1, x6 := p2, x7 := p3, x8 := s.x8, x9 := t168.val, x10 := t201.val, x11 := t234.val, x12 := t267.val, x13 := t300.val, x14 := t320.val, x15 := t321.val, x16 := s.x16, x17 := s.x17, x18 := s.x18, x19 := s.x19, x20 := s.x20, x21 := s.x21, x22 := s.x22, x23 := s.x23, x24 := s.x24, x25 := s.x25, x26 := s.x26, x27 := s.x27, x28 := s.x28, x29 := s.x29, x30 := s.x30, sp := s.sp, nf := some t325.n, zf := some t325.z, cf := some t325.c, vf := some t325.v, mem := setMem (setMem (setMem (setMem (setMem (setMem (setMem (setMem (setMem (setMem (setMem (setMem (setMem (setMem (setMem (setMem (s.mem) (s.sp.toNat - 16) s.x19) (s.sp.toNat - 16 + 8) s.x20) (s.sp.toNat - 16 - 16) s.x21) (s.sp.toNat - 16 - 16 + 8) s.x22) (s.sp.toNat - 16 - 16 - 16) s.x23) (s.sp.toNat - 16 - 16 - 16 + 8) s.x24) (s.sp.toNat - 16 - 16 - 16 - 16) s.x25) (s.sp.toNat - 16 - 16 - 16 - 16 + 8) s.x26) (s.sp.toNat - 16 - 16 - 16 - 16 - 16) pp) (s.sp.toNat - 16 - 16 - 16 - 16 - 16 + 8) inv) pr.toNat t320.val) (pr.toNat + 8) t321.val) (pr.toNat + 16) t322.val) (pr.toNat + 24) t323.val) (pr.toNat + 32) t324.val) (pr.toNat + 40) t325.val, readable := s.readable, writable := s.writable, pc := s.x30.toNat, status := .halted } : State) := by
  obtain ⟨ra0, ra1, ra2, ra3, ra4, ra5⟩ := ha.r6
  obtain ⟨⟨alra0, alra1, alra2, alra3, alra4, alra5⟩, fra1, fra2, fra3, fra4, fra5⟩ := ha.addr6
  obtain ⟨rp0, rp1, rp2, rp3, rp4, rp5⟩ := hp.r6
  obtain ⟨⟨alrp0, alrp1, alrp2, alrp3, alrp4, alrp5⟩, frp1, frp2, frp3, frp4, frp5⟩ := hp.addr6
  obtain ⟨rr0, rr1, rr2, rr3, rr4, rr5⟩ := hr.r6
  obtain ⟨wr0, wr1, wr2, wr3, wr4, wr5⟩ := hr.w6
  obtain ⟨⟨alrr0, alrr1, alrr2, alrr3, alrr4, alrr5⟩, frr1, frr2, frr3, frr4, frr5⟩ := hr.addr6
  have als0 := hstk.aligned
  obtain ⟨room1, als1, alq1a, alq1b, sr1a, sr1b, sw1a, sw1b⟩ := hstk.f1 (by omega)
  obtain ⟨room2, als2, alq2a, alq2b, sr2a, sr2b, sw2a, sw2b⟩ := hstk.f2 (by omega)
  obtain ⟨room3, als3, alq3a, alq3b, sr3a, sr3b, sw3a, sw3b⟩ := hstk.f3 (by omega)
  obtain ⟨room4, als4, alq4a, alq4b, sr4a, sr4b, sw4a, sw4b⟩ := hstk.f4 (by omega)
  obtain ⟨room5, als5, alq5a, alq5b, sr5a, sr5b, sw5a, sw5b⟩ := hstk.f5 (by omega)
  replace hrs := Hide.mk (And.intro room5 hrs); replace has := Hide.mk (And.intro room5 has)
  replace hps := Hide.mk (And.intro room5 hps)
  simp only [OffStack] at hrs has hps
  clear ha hp hr hstk
  a64_sym [← ht303, ← ht320, ← ht321, ← ht322, ← ht323, ← ht324, ← ht325, hb304]

set_option maxHeartbeats 1600000 in
set_option exponentiation.threshold 800 in
theorem fpsqr_end_hi5 (s : State) (pr pa pp inv : Word) {p0 p1 p2 p3 p4 p5 l271 l295 : Word} {t168 t201 t234 t267 t270 t279 t284 t289 t293 t294 t299 t300 t302 t320 t321 t322 t323 t324 t325 : ArithRes} {T U : Nat}
    (hr : Buf s pr 6 true) (ha : Buf s pa 6 false) (hp : Buf s pp 6 false)
    (hstk : Stack s 5) (hrs : OffStack s 5 pr 6) (has : OffStack s 5 pa 6) (hps : OffStack s 5 pp 6)
    (ht303 : t303 = addWithCarry t302.val (~~~p5) true) (ht320 : t320 = addWithCarry t279.val (~~~p0) true)
    (ht321 : t321 = addWithCarry t284.val (~~~p1) t320.c) (ht322 : t322 = addWithCarry t289.val (~~~p2) t321.c)
    (ht323 : t323 = addWithCarry t294.val (~~~p3) t322.c) (ht324 : t324 = addWithCarry t299.val (~~~p4) t323.c)
    (ht325 : t325 = addWithCarry t302.val (~~~p5) t324.c) (hb304 : (t303.c && !t303.z) = true)
    (hR2 : val (2 ^ 64) [t279.val.toNat, t284.val.toNat, t289.val.toNat, t294.val.toNat, t299.val.toNat, t302.val.toNat] < 2 * val (2 ^ 64) [p0.toNat, p1.toNat, p2.toNat, p3.toNat, p4.toNat, p5.toNat])
    (hRe : 2 ^ 384 * val (2 ^ 64) [t279.val.toNat, t284.val.toNat, t289.val.toNat, t294.val.toNat, t299.val.toNat, t302.val.toNat] = T + U * val (2 ^ 64) [p0.toNat, p1.toNat, p2.toNat, p3.toNat, p4.toNat, p5.toNat]) :
    ∃ s', run embedded_pairing_core_arch_aarch64_fpbase_384_square ({ x0 := pr, x1 := t270.val, x2 := l271, x3 := inv, x4 := p0, x5 := p1, x6 := p2, x7 := p3, x8 := s.x8, x9 := t168.val, x10 := t201.val, x11 := t234.val, x12 := t267.val, x13 := t300.val, x14 := t279.val, x15 := t284.val, x16 := s.x16, x17 := s.x17, x18 := s.x18, x19 := t289.val, x20 := t294.val, x21 := t299.val, x22 := t302.val, x23 := p4, x24 := p5, x25 := t293.val, x26 := l295, x27 := s.x27, x28 := s.x28, x29 := s.x29, x30 := s.x30, sp := s.sp - 16#64 - 16#64 - 16#64 - 16#64, nf := some t302.n, zf := some t302.z, cf := some t302.c, vf := some t302.v, mem := setMem (setMem (setMem (setMem (setMem (setMem (setMem (setMem (setMem (setMem (s.mem) (s.sp.toNat - 16) s.x19) (s.sp.toNat - 16 + 8) s.x20) (s.sp.toNat - 16 - 16) s.x21) (s.sp.toNat - 16 - 16 + 8) s.x22) (s.sp.toNat - 16 - 16 - 16) s.x23) (s.sp.toNat - 16 - 16 - 16 + 8) s.x24) (s.sp.toNat - 16 - 16 - 16 - 16) s.x25) (s.sp.toNat - 16 - 16 - 16 - 16 + 8) s.x26) (s.sp.toNat - 16 - 16 - 16 - 16 - 16) pp) (s.sp.toNat - 16 - 16 - 16 - 16 - 16 + 8) inv, readable := s.readable, writable := s.writable, pc := 303, status := .running } : State) 16 = s' ∧ Returned s s' ∧
      val (2 ^ 64) [(s'.mem pr.toNat).toNat, (s'.mem (pr.toNat + 8)).toNat, (s'.mem (pr.toNat + 16)).toNat, (s'.mem (pr.toNat + 24)).toNat, (s'.mem (pr.toNat + 32)).toNat, (s'.mem (pr.toNat + 40)).toNat] < val (2 ^ 64) [p0.toNat, p1.toNat, p2.toNat, p3.toNat, p4.toNat, p5.toNat] ∧
      (val (2 ^ 64) [(s'.mem pr.toNat).toNat, (s'.mem (pr.toNat + 8)).toNat, (s'.mem (pr.toNat + 16)).toNat, (s'.mem (pr.toNat + 24)).toNat, (s'.mem (pr.toNat + 32)).toNat, (s'.mem (pr.toNat + 40)).toNat] * 2 ^ 384) % val (2 ^ 64) [p0.toNat, p1.toNat, p2.toNat, p3.toNat, p4.toNat, p5.toNat] = T % val (2 ^ 64) [p0.toNat, p1.toNat, p2.toNat, p3.toNat, p4.toNat, p5.toNat] ∧
      (∀ k, ¬(pr.toNat ≤ k ∧ k < pr.toNat + 48) → ¬(s.sp.toNat - 80 ≤ k ∧ k < s.sp.toNat) → s'.mem k = s.mem k) := by
  have ir0 := (t279.val).isLt; have ip0 := (p0).isLt
  have ir1 := (t284.val).isLt; have ip1 := (p1).isLt
  have ir2 := (t289.val).isLt; have ip2 := (p2).isLt
  have ir3 := (t294.val).isLt; have ip3 := (p3).isLt
  have ir4 := (t299.val).isLt; have ip4 := (p4).isLt
  have ir5 := (t302.val).isLt; have ip5 := (p5).isLt
  have c5 := cmp_hi ht303 hb304
  have hle : val (2 ^ 64) [p0.toNat, p1.toNat, p2.toNat, p3.toNat, p4.toNat, p5.toNat] ≤ val (2 ^ 64) [t279.val.toNat, t284.val.toNat, t289.val.toNat, t294.val.toNat, t299.val.toNat, t302.val.toNat] := by
    simp only [val_cons, val_nil]
    clear * - c5 ir0 ip0 ir1 ip1 ir2 ip2 ir3 ip3 ir4 ip4 ir5 ip5
    omega
  have hs := sub6_val ht320 ht321 ht322 ht323 ht324 ht325
  simp only [Bool.not_true, Bool.toNat_false, Nat.add_zero] at hs
  have hres := X86.mont_result hR2 hRe (Or.inr (sub_no_borrow hs hle (X86.val6_lt t320.val t321.val t322.val t323.val t324.val t325.val)))
  have hq := fpsqr_tail_hi5 s pr pa pp inv hr ha hp hstk hrs has hps (t168 := t168) (t201 := t201) (t234 := t234) (t267 := t267) (t270 := t270) (t279 := t279) (t284 := t284) (t289 := t289) (t293 := t293) (t294 := t294) (t299 := t299) (t300 := t300) (t302 := t302) (t320 := t320) (t321 := t321) (t322 := t322) (t323 := t323) (t324 := t324) (t325 := t325) (p0 := p0) (p1 := p1) (p2 := p2) (p3 := p3) (p4 := p4) (p5 := p5) (l271 := l271) (l295 := l295) ht303 ht320 ht321 ht322 ht323 ht324 ht325 hb304
  obtain ⟨rr0, rr1, rr2, rr3, rr4, rr5⟩ := hr.r6
  obtain ⟨⟨alrr0, alrr1, alrr2, alrr3, alrr4, alrr5⟩, frr1, frr2, frr3, frr4, frr5⟩ := hr.addr6
  have room5 := (hstk.f5 (by omega)).1
  replace hrs := Hide.mk (And.intro room5 hrs)
  simp only [OffStack] at hrs
  refine ⟨_, hq, ⟨rfl, rfl, rfl, rfl, rfl, rfl, rfl, rfl, rfl, rfl, rfl, rfl, rfl, rfl, rfl⟩, ?_, ?_, ?_⟩
  · simp only; a64_mem; exact hres.1
  · simp only; a64_mem; exact hres.2
  · intro k hk1 hk2
    simp (disch := (clear * - hk1 hk2 room5; omega)) only [setMem_ne]

set_option maxHeartbeats 1600000 in
theorem fpsqr_tail_lo5 (s : State) (pr pa pp inv : Word)
    (hr : Buf s pr 6 true) (ha : Buf s pa 6 false) (hp : Buf s pp 6 false)
    (hstk : Stack s 5) (hrs : OffStack s 5 pr 6) (has : OffStack s 5 pa 6) (hps : OffStack s 5 pp 6) {p0 p1 p2 p3 p4 p5 l271 l295 : Word} {t168 t201 t234 t267 t270 t279 t284 t289 t293 t294 t299 t300 t302 t303 : ArithRes}
    (ht303 : t303 = addWithCarry t302.val (~~~p5) true) (hb304 : (t303.c && !t303.z) = false) (hb305 : (!t303.c) = true) :
    run embedded_pairing_core_arch_aarch64_fpbase_384_square ({ x0 := pr, x1 := t270.val, x2 := l271, x3 := inv, x4 := p0, x5 := p1, x6 := p2, x7 := p3, x8 := s.x8, x9 := t168.val, x10 := t201.val, x11 := t234.val, x12 := t267.val, x13 := t300.val, x14 := t279.val, x15 := t284.val, x16 := s.x16, x17 := s.x17, x18 := s.x18, x19 := t289.val, x20 := t294.val, x21 := t299.val, x22 := t302.val, x23 := p4, x24 := p5, x25 := t293.val, x26 := l295, x27 := s.x27, x28 := s.x28, x29 := s.x29, x30 := s.x30, sp := s.sp - 16#64 - 16#64 - 16#64 - 16#64, nf := some t302.n, zf := some t302.z, cf := some t302.c, vf := some t302.v, mem := setMem (setMem (setMem (setMem (setMem (setMem (setMem (setMem (setMem (setMem (s.mem) (s.sp.toNat - 16) s.x19) (s.sp.toNat - 16 + 8) s.x20) (s.sp.toNat - 16 - 16) s.x21) (s.sp.toNat - 16 - 16 + 8) s.x22) (s.sp.toNat - 16 - 16 - 16) s.x23) (s.sp.toNat - 16 - 16 - 16 + 8) s.x24) (s.sp.toNat - 16 - 16 - 16 - 16) s.x25) (s.sp.toNat - 16 - 16 - 16 - 16 + 8) s.x26) (s.sp.toNat - 16 - 16 - 16 - 16 - 16) pp) (s.sp.toNat - 16 - 16 - 16 - 16 - 16 + 8) inv, readable := s.readable, writable := s.writable, pc := 303, status := .running } : State) 11
      = ({ x0 := pr + 48#64, x1 := t270.val, x2 := l271, x3 := inv, x4 := p0, x5 := p1, x6 := p2, x7 := p3, x8 := s.x8, x9 := t168.val, x10 := t201.val, x11 := t234.val, x12 := t267.val, x13 := t300.val, x14 := t279.val, x15 := t284.val, x16 := s.x16, x17 := s.x17, x18 := s.x18, x19 := s.x19, x20 := s.x20, x21 := s.x21, x22 := s.x22, x23 := s.x23, x24 := s.x24, x25 := s.x25, x26 := s.x26, x27 := s.x27, x28 := s.x28, x29 := s.x29, x30 := s.x30, sp := s.sp, nf := some t303.n, zf := some t303.z, cf := some t303.c, vf := some t303.v, mem := setMem (setMem (setMem (setMem (setMem (setMem (setMem (setMem (setMem (setMem (setMem (setMem (setMem (setMem (setMem (setMem (s.mem) (s.sp.toNat - 16) s.x19) (s.sp.toNat - 16 + 8) s.x20) (s.sp.toNat - 16 - 16) s.x21) (s.sp.toNat - 16 - 16 + 8) s.x22) (s.sp.toNat - 16 - 16 - 16) s.x23) (s.sp.toNat - 16 - 16 - 16 + 8) s.x24) (s.sp.toNat - 16 - 16 - 16 - 16) s.x25) (s.sp.toNat - 16 - 16 - 16 - 16 + 8) s.x26) (s.sp.toNat - 16 - 16 - 16 - 16 - 16) pp) (s.sp.toNat - 16 - 16 - 16 - 16 - 16 + 8) inv) pr.toNat t279.val) (pr.toNat + 8) t284.val) (pr.toNat + 16) t289.val) (pr.toNat + 24) t294.val) (pr.toNat + 32) t299.val) (pr.toNat + 40) t302.val, readable := s.readable, writable := s.writable, pc := s.x30.toNat, status := .halted } : State) := by
  obtain ⟨ra0, ra1, ra2, ra3, ra4, ra5⟩ := ha.r6
  obtain ⟨⟨alra0, alra1, alra2, alra3, alra4, alra5⟩, fra1, fra2, fra3, fra4, fra5⟩ := ha.addr6
  obtain ⟨rp0, rp1, rp2, rp3, rp4, rp5⟩ := hp.r6
  obtain ⟨⟨alrp0, alrp1, alrp2, alrp3, alrp4, alrp5⟩, frp1, frp2, frp3, frp4, frp5⟩ := hp.addr6
  obtain ⟨rr0, rr1, rr2, rr3, rr4, rr5⟩ := hr.r6
  obtain ⟨wr0, wr1, wr2, wr3, wr4, wr5⟩ := hr.w6
  obtain ⟨⟨alrr0, alrr1, alrr2, alrr3, alrr4, alrr5⟩, frr1, frr2, frr3, frr4, frr5⟩ := hr.addr6
  have als0 := hstk.aligned
  obtain ⟨room1, als1, alq1a, alq1b, sr1a, sr1b, sw1a, sw1b⟩ := hstk.f1 (by omega)
  obtain ⟨room2, als2, alq2a, alq2b, sr2a, sr2b, sw2a, sw2b⟩ := hstk.f2 (by omega)
  obtain ⟨room3, als3, alq3a, alq3b, sr3a, sr3b, sw3a, sw3b⟩ := hstk.f3 (by omega)
  obtain ⟨room4, als4, alq4a, alq4b, sr4a, sr4b, sw4a, sw4b⟩ := hstk.f4 (by omega)
  obtain ⟨room5, als5, alq5a, alq5b, sr5a, sr5b, sw5a, sw5b⟩ := hstk.f5 (by omega)
  replace hrs := Hide.mk (And.intro room5 hrs); replace has := Hide.mk (And.intro room5 has)
  replace hps := Hide.mk (And.intro room5 hps)
  simp only [OffStack] at hrs has hps
  clear ha hp hr hstk
  a64_sym [← ht303, hb304, hb305]

set_option maxHeartbeats 1600000 in
set_option exponentiation.threshold 800 in
theorem fpsqr_end_lo5 (s : State) (pr pa pp inv : Word) {p0 p1 p2 p3 p4 p5 l271 l295 : Word} {t168 t201 t234 t267 t270 t279 t284 t289 t293 t294 t299 t300 t302 t303 : ArithRes} {T U : Nat}
    (hr : Buf s pr 6 true) (ha : Buf s pa 6 false) (hp : Buf s pp 6 false)
    (hstk : Stack s 5) (hrs : OffStack s 5 pr 6) (has : OffStack s 5 pa 6) (hps : OffStack s 5 pp 6)
    (ht303 : t303 = addWithCarry t302.val (~~~p5) true) (hb304 : (t303.c && !t303.z) = false) (hb305 : (!t303.c) = true)
    (hR2 : val (2 ^ 64) [t279.val.toNat, t284.val.toNat, t289.val.toNat, t294.val.toNat, t299.val.toNat, t302.val.toNat] < 2 * val (2 ^ 64) [p0.toNat, p1.toNat, p2.toNat, p3.toNat, p4.toNat, p5.toNat])
    (hRe : 2 ^ 384 * val (2 ^ 64) [t279.val.toNat, t284.val.toNat, t289.val.toNat, t294.val.toNat, t299.val.toNat, t302.val.toNat] = T + U * val (2 ^ 64) [p0.toNat, p1.toNat, p2.toNat, p3.toNat, p4.toNat, p5.toNat]) :
    ∃ s', run embedded_pairing_core_arch_aarch64_fpbase_384_square ({ x0 := pr, x1 := t270.val, x2 := l271, x3 := inv, x4 := p0, x5 := p1, x6 := p2, x7 := p3, x8 := s.x8, x9 := t168.val, x10 := t201.val, x11 := t234.val, x12 := t267.val, x13 := t300.val, x14 := t279.val, x15 := t284.val, x16 := s.x16, x17 := s.x17, x18 := s.x18, x19 := t289.val, x20 := t294.val, x21 := t299.val, x22 := t302.val, x23 := p4, x24 := p5, x25 := t293.val, x26 := l295, x27 := s.x27, x28 := s.x28, x29 := s.x29, x30 := s.x30, sp := s.sp - 16#64 - 16#64 - 16#64 - 16#64, nf := some t302.n, zf := some t302.z, cf := some t302.c, vf := some t302.v, mem := setMem (setMem (setMem (setMem (setMem (setMem (setMem (setMem (setMem (setMem (s.mem) (s.sp.toNat - 16) s.x19) (s.sp.toNat - 16 + 8) s.x20) (s.sp.toNat - 16 - 16) s.x21) (s.sp.toNat - 16 - 16 + 8) s.x22) (s.sp.toNat - 16 - 16 - 16) s.x23) (s.sp.toNat - 16 - 16 - 16 + 8) s.x24) (s.sp.toNat - 16 - 16 - 16 - 16) s.x25) (s.sp.toNat - 16 - 16 - 16 - 16 + 8) s.x26) (s.sp.toNat - 16 - 16 - 16 - 16 - 16) pp) (s.sp.toNat - 16 - 16 - 16 - 16 - 16 + 8) inv, readable := s.readable, writable := s.writable, pc := 303, status := .running } : State) 11 = s' ∧ Returned s s' ∧
      val (2 ^ 64) [(s'.mem pr.toNat).toNat, (s'.mem (pr.toNat + 8)).toNat, (s'.mem (pr.toNat + 16)).toNat, (s'.mem (pr.toNat + 24)).toNat, (s'.mem (pr.toNat + 32)).toNat, (s'.mem (pr.toNat + 40)).toNat] < val (2 ^ 64) [p0.toNat, p1.toNat, p2.toNat, p3.toNat, p4.toNat, p5.toNat] ∧
      (val (2 ^ 64) [(s'.mem pr.toNat).toNat, (s'.mem (pr.toNat + 8)).toNat, (s'.mem (pr.toNat + 16)).toNat, (s'.mem (pr.toNat + 24)).toNat, (s'.mem (pr.toNat + 32)).toNat, (s'.mem (pr.toNat + 40)).toNat] * 2 ^ 384) % val (2 ^ 64) [p0.toNat, p1.toNat, p2.toNat, p3.toNat, p4.toNat, p5.toNat] = T % val (2 ^ 64) [p0.toNat, p1.toNat, p2.toNat, p3.toNat, p4.toNat, p5.toNat] ∧
      (∀ k, ¬(pr.toNat ≤ k ∧ k < pr.toNat + 48) → ¬(s.sp.toNat - 80 ≤ k ∧ k < s.sp.toNat) → s'.mem k = s.mem k) := by
  have ir0 := (t279.val).isLt; have ip0 := (p0).isLt
  have ir1 := (t284.val).isLt; have ip1 := (p1).isLt
  have ir2 := (t289.val).isLt; have ip2 := (p2).isLt
  have ir3 := (t294.val).isLt; have ip3 := (p3).isLt
  have ir4 := (t299.val).isLt; have ip4 := (p4).isLt
  have ir5 := (t302.val).isLt; have ip5 := (p5).isLt
  have c5 := cmp_lo ht303 hb305
  have hlt : val (2 ^ 64) [t279.val.toNat, t284.val.toNat, t289.val.toNat, t294.val.toNat, t299.val.toNat, t302.val.toNat] < val (2 ^ 64) [p0.toNat, p1.toNat, p2.toNat, p3.toNat, p4.toNat, p5.toNat] := by
    simp only [val_cons, val_nil]
    clear * - c5 ir0 ip0 ir1 ip1 ir2 ip2 ir3 ip3 ir4 ip4 ir5 ip5
    omega
  have hres := X86.mont_result hR2 hRe (Or.inl ⟨rfl, hlt⟩)
  have hq := fpsqr_tail_lo5 s pr pa pp inv hr ha hp hstk hrs has hps (t168 := t168) (t201 := t201) (t234 := t234) (t267 := t267) (t270 := t270) (t279 := t279) (t284 := t284) (t289 := t289) (t293 := t293) (t294 := t294) (t299 := t299) (t300 := t300) (t302 := t302) (t303 := t303) (p0 := p0) (p1 := p1) (p2 := p2) (p3 := p3) (p4 := p4) (p5 := p5) (l271 := l271) (l295 := l295) ht303 hb304 hb305
  obtain ⟨rr0, rr1, rr2, rr3, rr4, rr5⟩ := hr.r6
  obtain ⟨⟨alrr0, alrr1, alrr2, alrr3, alrr4, alrr5⟩, frr1, frr2, frr3, frr4, frr5⟩ := hr.addr6
  have room5 := (hstk.f5 (by omega)).1
  replace hrs := Hide.mk (And.intro room5 hrs)
  simp only [OffStack] at hrs
  refine ⟨_, hq, ⟨rfl, rfl, rfl, rfl, rfl, rfl, rfl, rfl, rfl, rfl, rfl, rfl, rfl, rfl, rfl⟩, ?_, ?_, ?_⟩
  · simp only; a64_mem; exact hres.1
  · simp only; a64_mem; exact hres.2
  · intro k hk1 hk2
    simp (disch := (clear * - hk1 hk2 room5; omega)) only [setMem_ne]

set_option maxHeartbeats 1600000 in
theorem fpsqr_tail_hi4 (s : State) (pr pa pp inv : Word)
    (hr : Buf s pr 6 true) (ha : Buf s pa 6 false) (hp : Buf s pp 6 false)
    (hstk : Stack s 5) (hrs : OffStack s 5 pr 6) (has : OffStack s 5 pa 6) (hps : OffStack s 5 pp 6) {p0 p1 p2 p3 p4 p5 l271 l295 : Word} {t168 t201 t234 t267 t270 t279 t284 t289 t293 t294 t299 t300 t302 t320 t321 t322 t323 t324 t325 : ArithRes}
    (ht303 : t303 = addWithCarry t302.val (~~~p5) true) (ht306 : t306 = addWithCarry t299.val (~~~p4) true)
    (ht320 : t320 = addWithCarry t279.val (~~~p0) true) (ht321 : t321 = addWithCarry t284.val (~~~p1) t320.c)
    (ht322 : t322 = addWithCarry t289.val (~~~p2) t321.c) (ht323 : t323 = addWithCarry t294.val (~~~p3) t322.c)
    (ht324 : t324 = addWithCarry t299.val (~~~p4) t323.c) (ht325 : t325 = addWithCarry t302.val (~~~p5) t324.c)
    (hb304 : (t303.c && !t303.z) = false) (hb305 : (!t303.c) = false) (hb307 : (t306.c && !t306.z) = true) :
    run embedded_pairing_core_arch_aarch64_fpbase_384_square ({ x0 := pr, x1 := t270.val, x2 := l271, x3 := inv, x4 := p0, x5 := p1, x6 := p2, x7 := p3, x8 := s.x8, x9 := t168.val, x10 := t201.val, x11 := t234.val, x12 := t267.val, x13 := t300.val, x14 := t279.val, x15 := t284.val, x16 := s.x16, x17 := s.x17, x18 := s.x18, x19 := t289.val, x20 := t294.val, x21 := t299.val, x22 := t302.val, x23 := p4, x24 := p5, x25 := t293.val, x26 := l295, x27 := s.x27, x28 := s.x28, x29 := s.x29, x30 := s.x30, sp := s.sp - 16#64 - 16#64 - 16#64 - 16#64, nf := some t302.n, zf := some t302.z, cf := some t302.c, vf := some t302.v, mem := setMem (setMem (setMem (setMem (setMem (setMem (setMem (setMem (setMem (setMem (s.mem) (s.sp.toNat - 16) s.x19) (s.sp.toNat - 16 + 8) s.x20) (s.sp.toNat - 16 - 16) s.x21) (s.sp.toNat - 16 - 16 + 8) s.x22) (s.sp.toNat - 16 - 16 - 16) s.x23) (s.sp.toNat - 16 - 16 - 16 + 8) s.x24) (s.sp.toNat - 16 - 16 - 16 - 16) s.x25) (s.sp.toNat - 16 - 16 - 16 - 16 + 8) s.x26) (s.sp.toNat - 16 - 16 - 16 - 16 - 16) pp) (s.sp.toNat - 16 - 16 - 16 - 16 - 16 + 8) inv, readable := s.readable, writable := s.writable, pc := 303, status := .running } : State) 19
      = ({ x0 := pr + 48#64, x1 := t270.val, x2 := l271, x3 := inv, x4 := p0, x5 := p1, x6 := p2, x7 := p3, x8 := s.x8, x9 := t168.val, x10 := t201.val, x11 := t234.val, x12 := t267.val, x13 := t300.val, x14 := t320.val, x15 := t321.val, x16 := s.x16, x17 := s.x17, x18 := s.x18, x19 := s.x19, x20 := s.x20, x21 := s.x21, x22 := s.x22, x23 := s.x23, x24 := s.x24, x25 := s.x25, x26 := s.x26, x27 := s.x27, x28 := s.x28, x29 := s.x29, x30 := s.x30, sp := s.sp, nf := some t325.n, zf := some t325.z, cf := some t325.c, vf := some t325.v, mem := setMem (setMem (setMem (setMem (setMem (setMem (setMem (setMem (setMem (setMem (setMem (setMem (setMem (setMem (setMem (setMem (s.mem) (s.sp.toNat - 16) s.x19) (s.sp.toNat - 16 + 8) s.x20) (s.sp.toNat - 16 - 16) s.x21) (s.sp.toNat - 16 - 16 + 8) s.x22) (s.sp.toNat - 16 - 16 - 16) s.x23) (s.sp.toNat - 16 - 16 - 16 + 8) s.x24) (s.sp.toNat - 16 - 16 - 16 - 16) s.x25) (s.sp.toNat - 16 - 16 - 16 - 16 + 8) s.x26) (s.sp.toNat - 16 - 16 - 16 - 16 - 16) pp) (s.sp.toNat - 16 - 16 - 16 - 16 - 16 + 8) inv) pr.toNat t320.val) (pr.toNat + 8) t321.val) (pr.toNat + 16) t322.val) (pr.toNat + 24) t323.val) (pr.toNat + 32) t324.val) (pr.toNat + 40) t325.val, readable := s.readable, writable := s.writable, pc := s.x30.toNat, status := .halted } : State) := by
  obtain ⟨ra0, ra1, ra2, ra3, ra4, ra5⟩ := ha.r6
  obtain ⟨⟨alra0, alra1, alra2, alra3, alra4, alra5⟩, fra1, fra2, fra3, fra4, fra5⟩ := ha.addr6
  obtain ⟨rp0, rp1, rp2, rp3, rp4, rp5⟩ := hp.r6
  obtain ⟨⟨alrp0, alrp1, alrp2, alrp3, alrp4, alrp5⟩, frp1, frp2, frp3, frp4, frp5⟩ := hp.addr6
  obtain ⟨rr0, rr1, rr2, rr3, rr4, rr5⟩ := hr.r6
  obtain ⟨wr0, wr1, wr2, wr3, wr4, wr5⟩ := hr.w6
  obtain ⟨⟨alrr0, alrr1, alrr2, alrr3, alrr4, alrr5⟩, frr1, frr2, frr3, frr4, frr5⟩ := hr.addr6
  have als0 := hstk.aligned
  obtain ⟨room1, als1, alq1a, alq1b, sr1a, sr1b, sw1a, sw1b⟩ := hstk.f1 (by omega)
  obtain ⟨room2, als2, alq2a, alq2b, sr2a, sr2b, sw2a, sw2b⟩ := hstk.f2 (by omega)
  obtain ⟨room3, als3, alq3a, alq3b, sr3a, sr3b, sw3a, sw3b⟩ := hstk.f3 (by omega)
  obtain ⟨room4, als4, alq4a, alq4b, sr4a, sr4b, sw4a, sw4b⟩ := hstk.f4 (by omega)
  obtain ⟨room5, als5, alq5a, alq5b, sr5a, sr5b, sw5a, sw5b⟩ := hstk.f5 (by omega)
  replace hrs := Hide.mk (And.intro room5 hrs); replace has := Hide.mk (And.intro room5 has)
  replace hps := Hide.mk (And.intro room5 hps)
  simp only [OffStack] at hrs has hps
  clear ha hp hr hstk
  a64_sym [← ht303, ← ht306, ← ht320, ← ht321, ← ht322, ← ht323, ← ht324, ← ht325, hb304, hb305, hb307]

set_option maxHeartbeats 1600000 in
set_option exponentiation.threshold 800 in
theorem fpsqr_end_hi4 (s : State) (pr pa pp inv : Word) {p0 p1 p2 p3 p4 p5 l271 l295 : Word} {t168 t201 t234 t267 t270 t279 t284 t289 t293 t294 t299 t300 t302 t320 t321 t322 t323 t324 t325 : ArithRes} {T U : Nat}
    (hr : Buf s pr 6 true) (ha : Buf s pa 6 false) (hp : Buf s pp 6 false)
    (hstk : Stack s 5) (hrs : OffStack s 5 pr 6) (has : OffStack s 5 pa 6) (hps : OffStack s 5 pp 6)
    (ht303 : t303 = addWithCarry t302.val (~~~p5) true) (ht306 : t306 = addWithCarry t299.val (~~~p4) true)
    (ht320 : t320 = addWithCarry t279.val (~~~p0) true) (ht321 : t321 = addWithCarry t284.val (~~~p1) t320.c)
    (ht322 : t322 = addWithCarry t289.val (~~~p2) t321.c) (ht323 : t323 = addWithCarry t294.val (~~~p3) t322.c)
    (ht324 : t324 = addWithCarry t299.val (~~~p4) t323.c) (ht325 : t325 = addWithCarry t302.val (~~~p5) t324.c)
    (hb304 : (t303.c && !t303.z) = false) (hb305 : (!t303.c) = false) (hb307 : (t306.c && !t306.z) = true)
    (hR2 : val (2 ^ 64) [t279.val.toNat, t284.val.toNat, t289.val.toNat, t294.val.toNat, t299.val.toNat, t302.val.toNat] < 2 * val (2 ^ 64) [p0.toNat, p1.toNat, p2.toNat, p3.toNat, p4.toNat, p5.toNat])
    (hRe : 2 ^ 384 * val (2 ^ 64) [t279.val.toNat, t284.val.toNat, t289.val.toNat, t294.val.toNat, t299.val.toNat, t302.val.toNat] = T + U * val (2 ^ 64) [p0.toNat, p1.toNat, p2.toNat, p3.toNat, p4.toNat, p5.toNat]) :
    ∃ s', run embedded_pairing_core_arch_aarch64_fpbase_384_square ({ x0 := pr, x1 := t270.val, x2 := l271, x3 := inv, x4 := p0, x5 := p1, x6 := p2, x7 := p3, x8 := s.x8, x9 := t168.val, x10 := t201.val, x11 := t234.val, x12 := t267.val, x13 := t300.val, x14 := t279.val, x15 := t284.val, x16 := s.x16, x17 := s.x17, x18 := s.x18, x19 := t289.val, x20 := t294.val, x21 := t299.val, x22 := t302.val, x23 := p4, x24 := p5, x25 := t293.val, x26 := l295, x27 := s.x27, x28 := s.x28, x29 := s.x29, x30 := s.x30, sp := s.sp - 16#64 - 16#64 - 16#64 - 16#64, nf := some t302.n, zf := some t302.z, cf := some t302.c, vf := some t302.v, mem := setMem (setMem (setMem (setMem (setMem (setMem (setMem (setMem (setMem (setMem (s.mem) (s.sp.toNat - 16) s.x19) (s.sp.toNat - 16 + 8) s.x20) (s.sp.toNat - 16 - 16) s.x21) (s.sp.toNat - 16 - 16 + 8) s.x22) (s.sp.toNat - 16 - 16 - 16) s.x23) (s.sp.toNat - 16 - 16 - 16 + 8) s.x24) (s.sp.toNat - 16 - 16 - 16 - 16) s.x25) (s.sp.toNat - 16 - 16 - 16 - 16 + 8) s.x26) (s.sp.toNat - 16 - 16 - 16 - 16 - 16) pp) (s.sp.toNat - 16 - 16 - 16 - 16 - 16 + 8) inv, readable := s.readable, writable := s.writable, pc := 303, status := .running } : State) 19 = s' ∧ Returned s s' ∧
      val (2 ^ 64) [(s'.mem pr.toNat).toNat, (s'.mem (pr.toNat + 8)).toNat, (s'.mem (pr.toNat + 16)).toNat, (s'.mem (pr.toNat + 24)).toNat, (s'.mem (pr.toNat + 32)).toNat, (s'.mem (pr.toNat + 40)).toNat] < val (2 ^ 64) [p0.toNat, p1.toNat, p2.toNat, p3.toNat, p4.toNat, p5.toNat] ∧
      (val (2 ^ 64) [(s'.mem pr.toNat).toNat, (s'.mem (pr.toNat + 8)).toNat, (s'.mem (pr.toNat + 16)).toNat, (s'.mem (pr.toNat + 24)).toNat, (s'.mem (pr.toNat + 32)).toNat, (s'.mem (pr.toNat + 40)).toNat] * 2 ^ 384) % val (2 ^ 64) [p0.toNat, p1.toNat, p2.toNat, p3.toNat, p4.toNat, p5.toNat] = T % val (2 ^ 64) [p0.toNat, p1.toNat, p2.toNat, p3.toNat, p4.toNat, p5.toNat] ∧
      (∀ k, ¬(pr.toNat ≤ k ∧ k < pr.toNat + 48) → ¬(s.sp.toNat - 80 ≤ k ∧ k < s.sp.toNat) → s'.mem k = s.mem k) := by
  have ir0 := (t279.val).isLt; have ip0 := (p0).isLt
  have ir1 := (t284.val).isLt; have ip1 := (p1).isLt
  have ir2 := (t289.val).isLt; have ip2 := (p2).isLt
  have ir3 := (t294.val).isLt; have ip3 := (p3).isLt
  have ir4 := (t299.val).isLt; have ip4 := (p4).isLt
  have ir5 := (t302.val).isLt; have ip5 := (p5).isLt
  have c5 := cmp_eq ht303 hb304 hb305
  have c4 := cmp_hi ht306 hb307
  have hle : val (2 ^ 64) [p0.toNat, p1.toNat, p2.toNat, p3.toNat, p4.toNat, p5.toNat] ≤ val (2 ^ 64) [t279.val.toNat, t284.val.toNat, t289.val.toNat, t294.val.toNat, t299.val.toNat, t302.val.toNat] := by
    simp only [val_cons, val_nil]
    clear * - c5 c4 ir0 ip0 ir1 ip1 ir2 ip2 ir3 ip3 ir4 ip4 ir5 ip5
    omega
  have hs := sub6_val ht320 ht321 ht322 ht323 ht324 ht325
  simp only [Bool.not_true, Bool.toNat_false, Nat.add_zero] at hs
  have hres := X86.mont_result hR2 hRe (Or.inr (sub_no_borrow hs hle (X86.val6_lt t320.val t321.val t322.val t323.val t324.val t325.val)))
  have hq := fpsqr_tail_hi4 s pr pa pp inv hr ha hp hstk hrs has hps (t168 := t168) (t201 := t201) (t234 := t234) (t267 := t267) (t270 := t270) (t279 := t279) (t284 := t284) (t289 := t289) (t293 := t293) (t294 := t294) (t299 := t299) (t300 := t300) (t302 := t302) (t320 := t320) (t321 := t321) (t322 := t322) (t323 := t323) (t324 := t324) (t325 := t325) (p0 := p0) (p1 := p1) (p2 := p2) (p3 := p3) (p4 := p4) (p5 := p5) (l271 := l271) (l295 := l295) ht303 ht306 ht320 ht321 ht322 ht323 ht324 ht325 hb304 hb305 hb307
  obtain ⟨rr0, rr1, rr2, rr3, rr4, rr5⟩ := hr.r6
  obtain ⟨⟨alrr0, alrr1, alrr2, alrr3, alrr4, alrr5⟩, frr1, frr2, frr3, frr4, frr5⟩ := hr.addr6
  have room5 := (hstk.f5 (by omega)).1
  replace hrs := Hide.mk (And.intro room5 hrs)
  simp only [OffStack] at hrs
  refine ⟨_, hq, ⟨rfl, rfl, rfl, rfl, rfl, rfl, rfl, rfl, rfl, rfl, rfl, rfl, rfl, rfl, rfl⟩, ?_, ?_, ?_⟩
  · simp only; a64_mem; exact hres.1
  · simp only; a64_mem; exact hres.2
  · intro k hk1 hk2
    simp (disch := (clear * - hk1 hk2 room5; omega)) only [setMem_ne]

set_option maxHeartbeats 1600000 in
theorem fpsqr_tail_lo4 (s : State) (pr pa pp inv : Word)
    (hr : Buf s pr 6 true) (ha : Buf s pa 6 false) (hp : Buf s pp 6 false)
    (hstk : Stack s 5) (hrs : OffStack s 5 pr 6) (has : OffStack s 5 pa 6) (hps : OffStack s 5 pp 6) {p0 p1 p2 p3 p4 p5 l271 l295 : Word} {t168 t201 t234 t267 t270 t279 t284 t289 t293 t294 t299 t300 t302 t306 : ArithRes}
    (ht303 : t303 = addWithCarry t302.val (~~~p5) true) (ht306 : t306 = addWithCarry t299.val (~~~p4) true)
    (hb304 : (t303.c && !t303.z) = false) (hb305 : (!t303.c) = false) (hb307 : (t306.c && !t306.z) = false)
    (hb308 : (!t306.c) = true) :
    run embedded_pairing_core_arch_aarch64_fpbase_384_square ({ x0 := pr, x1 := t270.val, x2 := l271, x3 := inv, x4 := p0, x5 := p1, x6 := p2, x7 := p3, x8 := s.x8, x9 := t168.val, x10 := t201.val, x11 := t234.val, x12 := t267.val, x13 := t300.val, x14 := t279.val, x15 := t284.val, x16 := s.x16, x17 := s.x17, x18 := s.x18, x19 := t289.val, x20 := t294.val, x21 := t299.val, x22 := t302.val, x23 := p4, x24 := p5, x25 := t293.val, x26 := l295, x27 := s.x27, x28 := s.x28, x29 := s.x29, x30 := s.x30, sp := s.sp - 16#64 - 16#64 - 16#64 - 16#64, nf := some t302.n, zf := some t302.z, cf := some t302.c, vf := some t302.v, mem := setMem (setMem (setMem (setMem (setMem (setMem (setMem (setMem (setMem (setMem (s.mem) (s.sp.toNat - 16) s.x19) (s.sp.toNat - 16 + 8) s.x20) (s.sp.toNat - 16 - 16) s.x21) (s.sp.toNat - 16 - 16 + 8) s.x22) (s.sp.toNat - 16 - 16 - 16) s.x23) (s.sp.toNat - 16 - 16 - 16 + 8) s.x24) (s.sp.toNat - 16 - 16 - 16 - 16) s.x25) (s.sp.toNat - 16 - 16 - 16 - 16 + 8) s.x26) (s.sp.toNat - 16 - 16 - 16 - 16 - 16) pp) (s.sp.toNat - 16 - 16 - 16 - 16 - 16 + 8) inv, readable := s.readable, writable := s.writable, pc := 303, status := .running } : State) 14
      = ({ x0 := pr + 48#64, x1 := t270.val, x2 := l271, x3 := inv, x4 := p0, x5 := p1, x6 := p2, x7 := p3, x8 := s.x8, x9 := t168.val, x10 := t201.val, x11 := t234.val, x12 := t267.val, x13 := t300.val, x14 := t279.val, x15 := t284.val, x16 := s.x16, x17 := s.x17, x18 := s.x18, x19 := s.x19, x20 := s.x20, x21 := s.x21, x22 := s.x22, x23 := s.x23, x24 := s.x24, x25 := s.x25, x26 := s.x26, x27 := s.x27, x28 := s.x28, x29 := s.x29, x30 := s.x30, sp := s.sp, nf := some t306.n, zf := some t306.z, cf := some t306.c, vf := some t306.v, mem := setMem (setMem (setMem (setMem (setMem (setMem (setMem (setMem (setMem (setMem (setMem (setMem (setMem (setMem (setMem (setMem (s.mem) (s.sp.toNat - 16) s.x19) (s.sp.toNat - 16 + 8) s.x20) (s.sp.toNat - 16 - 16) s.x21) (s.sp.toNat - 16 - 16 + 8) s.x22) (s.sp.toNat - 16 - 16 - 16) s.x23) (s.sp.toNat - 16 - 16 - 16 + 8) s.x24) (s.sp.toNat - 16 - 16 - 16 - 16) s.x25) (s.sp.toNat - 16 - 16 - 16 - 16 + 8) s.x26) (s.sp.toNat - 16 - 16 - 16 - 16 - 16) pp) (s.sp.toNat - 16 - 16 - 16 - 16 - 16 + 8) inv) pr.toNat t279.val) (pr.toNat + 8) t284.val) (pr.toNat + 16) t289.val) (pr.toNat + 24) t294.val) (pr.toNat + 32) t299.val) (pr.toNat + 40) t302.val, readable := s.readable, writable := s.writable, pc := s.x30.toNat, status := .halted } : State) := by
  obtain ⟨ra0, ra1, ra2, ra3, ra4, ra5⟩ := ha.r6
  obtain ⟨⟨alra0, alra1, alra2, alra3, alra4, alra5⟩, fra1, fra2, fra3, fra4, fra5⟩ := ha.addr6
  obtain ⟨rp0, rp1, rp2, rp3, rp4, rp5⟩ := hp.r6
  obtain ⟨⟨alrp0, alrp1, alrp2, alrp3, alrp4, alrp5⟩, frp1, frp2, frp3, frp4, frp5⟩ := hp.addr6
  obtain ⟨rr0, rr1, rr2, rr3, rr4, rr5⟩ := hr.r6
  obtain ⟨wr0, wr1, wr2, wr3, wr4, wr5⟩ := hr.w6
  obtain ⟨⟨alrr0, alrr1, alrr2, alrr3, alrr4, alrr5⟩, frr1, frr2, frr3, frr4, frr5⟩ := hr.addr6
  have als0 := hstk.aligned
  obtain ⟨room1, als1, alq1a, alq1b, sr1a, sr1b, sw1a, sw1b⟩ := hstk.f1 (by omega)
  obtain ⟨room2, als2, alq2a, alq2b, sr2a, sr2b, sw2a, sw2b⟩ := hstk.f2 (by omega)
  obtain ⟨room3, als3, alq3a, alq3b, sr3a, sr3b, sw3a, sw3b⟩ := hstk.f3 (by omega)
  obtain ⟨room4, als4, alq4a, alq4b, sr4a, sr4b, sw4a, sw4b⟩ := hstk.f4 (by omega)
  obtain ⟨room5, als5, alq5a, alq5b, sr5a, sr5b, sw5a, sw5b⟩ := hstk.f5 (by omega)
  replace hrs := Hide.mk (And.intro room5 hrs); replace has := Hide.mk (And.intro room5 has)
  replace hps := Hide.mk (And.intro room5 hps)
  simp only [OffStack] at hrs has hps
  clear ha hp hr hstk
  a64_sym [← ht303, ← ht306, hb304, hb305, hb307, hb308]

set_option maxHeartbeats 1600000 in
set_option exponentiation.threshold 800 in
theorem fpsqr_end_lo4 (s : State) (pr pa pp inv : Word) {p0 p1 p2 p3 p4 p5 l271 l295 : Word} {t168 t201 t234 t267 t270 t279 t284 t289 t293 t294 t299 t300 t302 t306 : ArithRes} {T U : Nat}
    (hr : Buf s pr 6 true) (ha : Buf s pa 6 false) (hp : Buf s pp 6 false)
    (hstk : Stack s 5) (hrs : OffStack s 5 pr 6) (has : OffStack s 5 pa 6) (hps : OffStack s 5 pp 6)
    (ht303 : t303 = addWithCarry t302.val (~~~p5) true) (ht306 : t306 = addWithCarry t299.val (~~~p4) true)
    (hb304 : (t303.c && !t303.z) = false) (hb305 : (!t303.c) = false) (hb307 : (t306.c && !t306.z) = false)
    (hb308 : (!t306.c) = true)
    (hR2 : val (2 ^ 64) [t279.val.toNat, t284.val.toNat, t289.val.toNat, t294.val.toNat, t299.val.toNat, t302.val.toNat] < 2 * val (2 ^ 64) [p0.toNat, p1.toNat, p2.toNat, p3.toNat, p4.toNat, p5.toNat])
    (hRe : 2 ^ 384 * val (2 ^ 64) [t279.val.toNat, t284.val.toNat, t289.val.toNat, t294.val.toNat, t299.val.toNat, t302.val.toNat] = T + U * val (2 ^ 64) [p0.toNat, p1.toNat, p2.toNat, p3.toNat, p4.toNat, p5.toNat]) :
    ∃ s', run embedded_pairing_core_arch_aarch64_fpbase_384_square ({ x0 := pr, x1 := t270.val, x2 := l271, x3 := inv, x4 := p0, x5 := p1, x6 := p2, x7 := p3, x8 := s.x8, x9 := t168.val, x10 := t201.val, x11 := t234.val, x12 := t267.val, x13 := t300.val, x14 := t279.val, x15 := t284.val, x16 := s.x16, x17 := s.x17, x18 := s.x18, x19 := t289.val, x20 := t294.val, x21 := t299.val, x22 := t302.val, x23 := p4, x24 := p5, x25 := t293.val, x26 := l295, x27 := s.x27, x28 := s.x28, x29 := s.x29, x30 := s.x30, sp := s.sp - 16#64 - 16#64 - 16#64 - 16#64, nf := some t302.n, zf := some t302.z, cf := some t302.c, vf := some t302.v, mem := setMem (setMem (setMem (setMem (setMem (setMem (setMem (setMem (setMem (setMem (s.mem) (s.sp.toNat - 16) s.x19) (s.sp.toNat - 16 + 8) s.x20) (s.sp.toNat - 16 - 16) s.x21) (s.sp.toNat - 16 - 16 + 8) s.x22) (s.sp.toNat - 16 - 16 - 16) s.x23) (s.sp.toNat - 16 - 16 - 16 + 8) s.x24) (s.sp.toNat - 16 - 16 - 16 - 16) s.x25) (s.sp.toNat - 16 - 16 - 16 - 16 + 8) s.x26) (s.sp.toNat - 16 - 16 - 16 - 16 - 16) pp) (s.sp.toNat - 16 - 16 - 16 - 16 - 16 + 8) inv, readable := s.readable, writable := s.writable, pc := 303, status := .running } : State) 14 = s' ∧ Returned s s' ∧
      val (2 ^ 64) [(s'.mem pr.toNat).toNat, (s'.mem (pr.toNat + 8)).toNat, (s'.mem (pr.toNat + 16)).toNat, (s'.mem (pr.toNat + 24)).toNat, (s'.mem (pr.toNat + 32)).toNat, (s'.mem (pr.toNat + 40)).toNat] < val (2 ^ 64) [p0.toNat, p1.toNat, p2.toNat, p3.toNat, p4.toNat, p5.toNat] ∧
      (val (2 ^ 64) [(s'.mem pr.toNat).toNat, (s'.mem (pr.toNat + 8)).toNat, (s'.mem (pr.toNat + 16)).toNat, (s'.mem (pr.toNat + 24)).toNat, (s'.mem (pr.toNat + 32)).toNat, (s'.mem (pr.toNat + 40)).toNat] * 2 ^ 384) % val (2 ^ 64) [p0.toNat, p1.toNat, p2.toNat, p3.toNat, p4.toNat, p5.toNat] = T % val (2 ^ 64) [p0.toNat, p1.toNat, p2.toNat, p3.toNat, p4.toNat, p5.toNat] ∧
      (∀ k, ¬(pr.toNat ≤ k ∧ k < pr.toNat + 48) → ¬(s.sp.toNat - 80 ≤ k ∧ k < s.sp.toNat) → s'.mem k = s.mem k) := by
  have ir0 := (t279.val).isLt; have ip0 := (p0).isLt
  have ir1 := (t284.val).isLt; have ip1 := (p1).isLt
  have ir2 := (t289.val).isLt; have ip2 := (p2).isLt
  have ir3 := (t294.val).isLt; have ip3 := (p3).isLt
  have ir4 := (t299.val).isLt; have ip4 := (p4).isLt
  have ir5 := (t302.val).isLt; have ip5 := (p5).isLt
  have c5 := cmp_eq ht303 hb304 hb305
  have c4 := cmp_lo ht306 hb308
  have hlt : val (2 ^ 64) [t279.val.toNat, t284.val.toNat, t289.val.toNat, t294.val.toNat, t299.val.toNat, t302.val.toNat] < val (2 ^ 64) [p0.toNat, p1.toNat, p2.toNat, p3.toNat, p4.toNat, p5.toNat] := by
    simp only [val_cons, val_nil]
    clear * - c5 c4 ir0 ip0 ir1 ip1 ir2 ip2 ir3 ip3 ir4 ip4 ir5 ip5
    omega
  have hres := X86.mont_result hR2 hRe (Or.inl ⟨rfl, hlt⟩)
  have hq := fpsqr_tail_lo4 s pr pa pp inv hr ha hp hstk hrs has hps (t168 := t168) (t201 := t201) (t234 := t234) (t267 := t267) (t270 := t270) (t279 := t279) (t284 := t284) (t289 := t289) (t293 := t293) (t294 := t294) (t299 := t299) (t300 := t300) (t302 := t302) (t306 := t306) (p0 := p0) (p1 := p1) (p2 := p2) (p3 := p3) (p4 := p4) (p5 := p5) (l271 := l271) (l295 := l295) ht303 ht306 hb304 hb305 hb307 hb308
  obtain ⟨rr0, rr1, rr2, rr3, rr4, rr5⟩ := hr.r6
  obtain ⟨⟨alrr0, alrr1, alrr2, alrr3, alrr4, alrr5⟩, frr1, frr2, frr3, frr4, frr5⟩ := hr.addr6
  have room5 := (hstk.f5 (by omega)).1
  replace hrs := Hide.mk (And.intro room5 hrs)
  simp only [OffStack] at hrs
  refine ⟨_, hq, ⟨rfl, rfl, rfl, rfl, rfl, rfl, rfl, rfl, rfl, rfl, rfl, rfl, rfl, rfl, rfl⟩, ?_, ?_, ?_⟩
  · simp only; a64_mem; exact hres.1
  · simp only; a64_mem; exact hres.2
  · intro k hk1 hk2
    simp (disch := (clear * - hk1 hk2 room5; omega)) only [setMem_ne]

set_option maxHeartbeats 1600000 in
theorem fpsqr_tail_hi3 (s : State) (pr pa pp inv : Word)
    (hr : Buf s pr 6 true) (ha : Buf s pa 6 false) (hp : Buf s pp 6 false)
    (hstk : Stack s 5) (hrs : OffStack s 5 pr 6) (has : OffStack s 5 pa 6) (hps : OffStack s 5 pp 6) {p0 p1 p2 p3 p4 p5 l271 l295 : Word} {t168 t201 t234 t267 t270 t279 t284 t289 t293 t294 t299 t300 t302 t320 t321 t322 t323 t324 t325 : ArithRes}
    (ht303 : t303 = addWithCarry t302.val (~~~p5) true) (ht306 : t306 = addWithCarry t299.val (~~~p4) true)
    (ht309 : t309 = addWithCarry t294.val (~~~p3) true) (ht320 : t320 = addWithCarry t279.val (~~~p0) true)
    (ht321 : t321 = addWithCarry t284.val (~~~p1) t320.c) (ht322 : t322 = addWithCarry t289.val (~~~p2) t321.c)
    (ht323 : t323 = addWithCarry t294.val (~~~p3) t322.c) (ht324 : t324 = addWithCarry t299.val (~~~p4) t323.c)
    (ht325 : t325 = addWithCarry t302.val (~~~p5) t324.c) (hb304 : (t303.c && !t303.z) = false)
    (hb305 : (!t303.c) = false) (hb307 : (t306.c && !t306.z) = false) (hb308 : (!t306.c) = false)
    (hb310 : (t309.c && !t309.z) = true) :
    run embedded_pairing_core_arch_aarch64_fpbase_384_square ({ x0 := pr, x1 := t270.val, x2 := l271, x3 := inv, x4 := p0, x5 := p1, x6 := p2, x7 := p3, x8 := s.x8, x9 := t168.val, x10 := t201.val, x11 := t234.val, x12 := t267.val, x13 := t300.val, x14 := t279.val, x15 := t284.val, x16 := s.x16, x17 := s.x17, x18 := s.x18, x19 := t289.val, x20 := t294.val, x21 := t299.val, x22 := t302.val, x23 := p4, x24 := p5, x25 := t293.val, x26 := l295, x27 := s.x27, x28 := s.x28, x29 := s.x29, x30 := s.x30, sp := s.sp - 16#64 - 16#64 - 16#64 - 16#64, nf := some t302.n, zf := some t302.z, cf := some t302.c, vf := some t302.v, mem := setMem (setMem (setMem (setMem (setMem (setMem (setMem (setMem (setMem (setMem (s.mem) (s.sp.toNat - 16) s.x19) (s.sp.toNat - 16 + 8) s.x20) (s.sp.toNat - 16 - 16) s.x21) (s.sp.toNat - 16 - 16 + 8) s.x22) (s.sp.toNat - 16 - 16 - 16) s.x23) (s.sp.toNat - 16 - 16 - 16 + 8) s.x24) (s.sp.toNat - 16 - 16 - 16 - 16) s.x25) (s.sp.toNat - 16 - 16 - 16 - 16 + 8) s.x26) (s.sp.toNat - 16 - 16 - 16 - 16 - 16) pp) (s.sp.toNat - 16 - 16 - 16 - 16 - 16 + 8) inv, readable := s.readable, writable := s.writable, pc := 303, status := .running } : State) 22
      = ({ x0 := pr + 48#64, x1 := t270.val, x2 := l271, x3 := inv, x4 := p0, x5 := p1, x6 := p2, x7 := p3, x8 := s.x8, x9 := t168.val, x10 := t201.val, x11 := t234.val, x12 := t267.val, x13 := t300.val, x14 := t320.val, x15 := t321.val, x16 := s.x16, x17 := s.x17, x18 := s.x18, x19 := s.x19, x20 := s.x20, x21 := s.x21, x22 := s.x22, x23 := s.x23, x24 := s.x24, x25 := s.x25, x26 := s.x26, x27 := s.x27, x28 := s.x28, x29 := s.x29, x30 := s.x30, sp := s.sp, nf := some t325.n, zf := some t325.z, cf := some t325.c, vf := some t325.v, mem := setMem (setMem (setMem (setMem (setMem (setMem (setMem (setMem (setMem (setMem (setMem (setMem (setMem (setMem (setMem (setMem (s.mem) (s.sp.toNat - 16) s.x19) (s.sp.toNat - 16 + 8) s.x20) (s.sp.toNat - 16 - 16) s.x21) (s.sp.toNat - 16 - 16 + 8) s.x22) (s.sp.toNat - 16 - 16 - 16) s.x23) (s.sp.toNat - 16 - 16 - 16 + 8) s.x24) (s.sp.toNat - 16 - 16 - 16 - 16) s.x25) (s.sp.toNat - 16 - 16 - 16 - 16 + 8) s.x26) (s.sp.toNat - 16 - 16 - 16 - 16 - 16) pp) (s.sp.toNat - 16 - 16 - 16 - 16 - 16 + 8) inv) pr.toNat t320.val) (pr.toNat + 8) t321.val) (pr.toNat + 16) t322.val) (pr.toNat + 24) t323.val) (pr.toNat + 32) t324.val) (pr.toNat + 40) t325.val, readable := s.readable, writable := s.writable, pc := s.x30.toNat, status := .halted } : State) := by
  obtain ⟨ra0, ra1, ra2, ra3, ra4, ra5⟩ := ha.r6
  obtain ⟨⟨alra0, alra1, alra2, alra3, alra4, alra5⟩, fra1, fra2, fra3, fra4, fra5⟩ := ha.addr6
  obtain ⟨rp0, rp1, rp2, rp3, rp4, rp5⟩ := hp.r6
  obtain ⟨⟨alrp0, alrp1, alrp2, alrp3, alrp4, alrp5⟩, frp1, frp2, frp3, frp4, frp5⟩ := hp.addr6
  obtain ⟨rr0, rr1, rr2, rr3, rr4, rr5⟩ := hr.r6
  obtain ⟨wr0, wr1, wr2, wr3, wr4, wr5⟩ := hr.w6
  obtain ⟨⟨alrr0, alrr1, alrr2, alrr3, alrr4, alrr5⟩, frr1, frr2, frr3, frr4, frr5⟩ := hr.addr6
  have als0 := hstk.aligned
  obtain ⟨room1, als1, alq1a, alq1b, sr1a, sr1b, sw1a, sw1b⟩ := hstk.f1 (by omega)
  obtain ⟨room2, als2, alq2a, alq2b, sr2a, sr2b, sw2a, sw2b⟩ := hstk.f2 (by omega)
  obtain ⟨room3, als3, alq3a, alq3b, sr3a, sr3b, sw3a, sw3b⟩ := hstk.f3 (by omega)
  obtain ⟨room4, als4, alq4a, alq4b, sr4a, sr4b, sw4a, sw4b⟩ := hstk.f4 (by omega)
  obtain ⟨room5, als5, alq5a, alq5b, sr5a, sr5b, sw5a, sw5b⟩ := hstk.f5 (by omega)
  replace hrs := Hide.mk (And.intro room5 hrs); replace has := Hide.mk (And.intro room5 has)
  replace hps := Hide.mk (And.intro room5 hps)
  simp only [OffStack] at hrs has hps
  clear ha hp hr hstk
  a64_sym [← ht303, ← ht306, ← ht309, ← ht320, ← ht321, ← ht322, ← ht323, ← ht324, ← ht325, hb304, hb305, hb307, hb308, hb310]

set_option maxHeartbeats 1600000 in
set_option exponentiation.threshold 800 in
theorem fpsqr_end_hi3 (s : State) (pr pa pp inv : Word) {p0 p1 p2 p3 p4 p5 l271 l295 : Word} {t168 t201 t234 t267 t270 t279 t284 t289 t293 t294 t299 t300 t302 t320 t321 t322 t323 t324 t325 : ArithRes} {T U : Nat}
    (hr : Buf s pr 6 true) (ha : Buf s pa 6 false) (hp : Buf s pp 6 false)
    (hstk : Stack s 5) (hrs : OffStack s 5 pr 6) (has : OffStack s 5 pa 6) (hps : OffStack s 5 pp 6)
    (ht303 : t303 = addWithCarry t302.val (~~~p5) true) (ht306 : t306 = addWithCarry t299.val (~~~p4) true)
    (ht309 : t309 = addWithCarry t294.val (~~~p3) true) (ht320 : t320 = addWithCarry t279.val (~~~p0) true)
    (ht321 : t321 = addWithCarry t284.val (~~~p1) t320.c) (ht322 : t322 = addWithCarry t289.val (~~~p2) t321.c)
    (ht323 : t323 = addWithCarry t294.val (~~~p3) t322.c) (ht324 : t324 = addWithCarry t299.val (~~~p4) t323.c)
    (ht325 : t325 = addWithCarry t302.val (~~~p5) t324.c) (hb304 : (t303.c && !t303.z) = false)
    (hb305 : (!t303.c) = false) (hb307 : (t306.c && !t306.z) = false) (hb308 : (!t306.c) = false)
    (hb310 : (t309.c && !t309.z) = true)
    (hR2 : val (2 ^ 64) [t279.val.toNat, t284.val.toNat, t289.val.toNat, t294.val.toNat, t299.val.toNat, t302.val.toNat] < 2 * val (2 ^ 64) [p0.toNat, p1.toNat, p2.toNat, p3.toNat, p4.toNat, p5.toNat])
    (hRe : 2 ^ 384 * val (2 ^ 64) [t279.val.toNat, t284.val.toNat, t289.val.toNat, t294.val.toNat, t299.val.toNat, t302.val.toNat] = T + U * val (2 ^ 64) [p0.toNat, p1.toNat, p2.toNat, p3.toNat, p4.toNat, p5.toNat]) :
    ∃ s', run embedded_pairing_core_arch_aarch64_fpbase_384_square ({ x0 := pr, x1 := t270.val, x2 := l271, x3 := inv, x4 := p0, x5 := p1, x6 := p2, x7 := p3, x8 := s.x8, x9 := t168.val, x10 := t201.val, x11 := t234.val, x12 := t267.val, x13 := t300.val, x14 := t279.val, x15 := t284.val, x16 := s.x16, x17 := s.x17, x18 := s.x18, x19 := t289.val, x20 := t294.val, x21 := t299.val, x22 := t302.val, x23 := p4, x24 := p5, x25 := t293.val, x26 := l295, x27 := s.x27, x28 := s.x28, x29 := s.x29, x30 := s.x30, sp := s.sp - 16#64 - 16#64 - 16#64 - 16#64, nf := some t302.n, zf := some t302.z, cf := some t302.c, vf := some t302.v, mem := setMem (setMem (setMem (setMem (setMem (setMem (setMem (setMem (setMem (setMem (s.mem) (s.sp.toNat - 16) s.x19) (s.sp.toNat - 16 + 8) s.x20) (s.sp.toNat - 16 - 16) s.x21) (s.sp.toNat - 16 - 16 + 8) s.x22) (s.sp.toNat - 16 - 16 - 16) s.x23) (s.sp.toNat - 16 - 16 - 16 + 8) s.x24) (s.sp.toNat - 16 - 16 - 16 - 16) s.x25) (s.sp.toNat - 16 - 16 - 16 - 16 + 8) s.x26) (s.sp.toNat - 16 - 16 - 16 - 16 - 16) pp) (s.sp.toNat - 16 - 16 - 16 - 16 - 16 + 8) inv, readable := s.readable, writable := s.writable, pc := 303, status := .running } : State) 22 = s' ∧ Returned s s' ∧
      val (2 ^ 64) [(s'.mem pr.toNat).toNat, (s'.mem (pr.toNat + 8)).toNat, (s'.mem (pr.toNat + 16)).toNat, (s'.mem (pr.toNat + 24)).toNat, (s'.mem (pr.toNat + 32)).toNat, (s'.mem (pr.toNat + 40)).toNat] < val (2 ^ 64) [p0.toNat, p1.toNat, p2.toNat, p3.toNat, p4.toNat, p5.toNat] ∧
      (val (2 ^ 64) [(s'.mem pr.toNat).toNat, (s'.mem (pr.toNat + 8)).toNat, (s'.mem (pr.toNat + 16)).toNat, (s'.mem (pr.toNat + 24)).toNat, (s'.mem (pr.toNat + 32)).toNat, (s'.mem (pr.toNat + 40)).toNat] * 2 ^ 384) % val (2 ^ 64) [p0.toNat, p1.toNat, p2.toNat, p3.toNat, p4.toNat, p5.toNat] = T % val (2 ^ 64) [p0.toNat, p1.toNat, p2.toNat, p3.toNat, p4.toNat, p5.toNat] ∧
      (∀ k, ¬(pr.toNat ≤ k ∧ k < pr.toNat + 48) → ¬(s.sp.toNat - 80 ≤ k ∧ k < s.sp.toNat) → s'.mem k = s.mem k) := by
  have ir0 := (t279.val).isLt; have ip0 := (p0).isLt
  have ir1 := (t284.val).isLt; have ip1 := (p1).isLt
  have ir2 := (t289.val).isLt; have ip2 := (p2).isLt
  have ir3 := (t294.val).isLt; have ip3 := (p3).isLt
  have ir4 := (t299.val).isLt; have ip4 := (p4).isLt
  have ir5 := (t302.val).isLt; have ip5 := (p5).isLt
  have c5 := cmp_eq ht303 hb304 hb305
  have c4 := cmp_eq ht306 hb307 hb308
  have c3 := cmp_hi ht309 hb310
  have hle : val (2 ^ 64) [p0.toNat, p1.toNat, p2.toNat, p3.toNat, p4.toNat, p5.toNat] ≤ val (2 ^ 64) [t279.val.toNat, t284.val.toNat, t289.val.toNat, t294.val.toNat, t299.val.toNat, t302.val.toNat] := by
    simp only [val_cons, val_nil]
    clear * - c5 c4 c3 ir0 ip0 ir1 ip1 ir2 ip2 ir3 ip3 ir4 ip4 ir5 ip5
    omega
  have hs := sub6_val ht320 ht321 ht322 ht323 ht324 ht325
  simp only [Bool.not_true, Bool.toNat_false, Nat.add_zero] at hs
  have hres := X86.mont_result hR2 hRe (Or.inr (sub_no_borrow hs hle (X86.val6_lt t320.val t321.val t322.val t323.val t324.val t325.val)))
  have hq := fpsqr_tail_hi3 s pr pa pp inv hr ha hp hstk hrs has hps (t168 := t168) (t201 := t201) (t234 := t234) (t267 := t267) (t270 := t270) (t279 := t279) (t284 := t284) (t289 := t289) (t293 := t293) (t294 := t294) (t299 := t299) (t300 := t300) (t302 := t302) (t320 := t320) (t321 := t321) (t322 := t322) (t323 := t323) (t324 := t324) (t325 := t325) (p0 := p0) (p1 := p1) (p2 := p2) (p3 := p3) (p4 := p4) (p5 := p5) (l271 := l271) (l295 := l295) ht303 ht306 ht309 ht320 ht321 ht322 ht323 ht324 ht325 hb304 hb305 hb307 hb308 hb310
  obtain ⟨rr0, rr1, rr2, rr3, rr4, rr5⟩ := hr.r6
  obtain ⟨⟨alrr0, alrr1, alrr2, alrr3, alrr4, alrr5⟩, frr1, frr2, frr3, frr4, frr5⟩ := hr.addr6
  have room5 := (hstk.f5 (by omega)).1
  replace hrs := Hide.mk (And.intro room5 hrs)
  simp only [OffStack] at hrs
  refine ⟨_, hq, ⟨rfl, rfl, rfl, rfl, rfl, rfl, rfl, rfl, rfl, rfl, rfl, rfl, rfl, rfl, rfl⟩, ?_, ?_, ?_⟩
  · simp only; a64_mem; exact hres.1
  · simp only; a64_mem; exact hres.2
  · intro k hk1 hk2
    simp (disch := (clear * - hk1 hk2 room5; omega)) only [setMem_ne]

set_option maxHeartbeats 1600000 in
theorem fpsqr_tail_lo3 (s : State) (pr pa pp inv : Word)
    (hr : Buf s pr 6 true) (ha : Buf s pa 6 false) (hp : Buf s pp 6 false)
    (hstk : Stack s 5) (hrs : OffStack s 5 pr 6) (has : OffStack s 5 pa 6) (hps : OffStack s 5 pp 6) {p0 p1 p2 p3 p4 p5 l271 l295 : Word} {t168 t201 t234 t267 t270 t279 t284 t289 t293 t294 t299 t300 t302 t309 : ArithRes}
    (ht303 : t303 = addWithCarry t302.val (~~~p5) true) (ht306 : t306 = addWithCarry t299.val (~~~p4) true)
    (ht309 : t309 = addWithCarry t294.val (~~~p3) true) (hb304 : (t303.c && !t303.z) = false) (hb305 : (!t303.c) = false)
    (hb307 : (t306.c && !t306.z) = false) (hb308 : (!t306.c) = false) (hb310 : (t309.c && !t309.z) = false)
    (hb311 : (!t309.c) = true) :
    run embedded_pairing_core_arch_aarch64_fpbase_384_square ({ x0 := pr, x1 := t270.val, x2 := l271, x3 := inv, x4 := p0, x5 := p1, x6 := p2, x7 := p3, x8 := s.x8, x9 := t168.val, x10 := t201.val, x11 := t234.val, x12 := t267.val, x13 := t300.val, x14 := t279.val, x15 := t284.val, x16 := s.x16, x17 := s.x17, x18 := s.x18, x19 := t289.val, x20 := t294.val, x21 := t299.val, x22 := t302.val, x23 := p4, x24 := p5, x25 := t293.val, x26 := l295, x27 := s.x27, x28 := s.x28, x29 := s.x29, x30 := s.x30, sp := s.sp - 16#64 - 16#64 - 16#64 - 16#64, nf := some t302.n, zf := some t302.z, cf := some t302.c, vf := some t302.v, mem := setMem (setMem (setMem (setMem (setMem (setMem (setMem (setMem (setMem (setMem (s.mem) (s.sp.toNat - 16) s.x19) (s.sp.toNat - 16 + 8) s.x20) (s.sp.toNat - 16 - 16) s.x21) (s.sp.toNat - 16 - 16 + 8) s.x22) (s.sp.toNat - 16 - 16 - 16) s.x23) (s.sp.toNat - 16 - 16 - 16 + 8) s.x24) (s.sp.toNat - 16 - 16 - 16 - 16) s.x25) (s.sp.toNat - 16 - 16 - 16 - 16 + 8) s.x26) (s.sp.toNat - 16 - 16 - 16 - 16 - 16) pp) (s.sp.toNat - 16 - 16 - 16 - 16 - 16 + 8) inv, readable := s.readable, writable := s.writable, pc := 303, status := .running } : State) 17
      = ({ x0 := pr + 48#64, x1 := t270.val, x2 := l271, x3 := inv, x4 := p0, x5 := p1, x6 := p2, x7 := p3, x8 := s.x8, x9 := t168.val, x10 := t201.val, x11 := t234.val, x12 := t267.val, x13 := t300.val, x14 := t279.val, x15 := t284.val, x16 := s.x16, x17 := s.x17, x18 := s.x18, x19 := s.x19, x20 := s.x20, x21 := s.x21, x22 := s.x22, x23 := s.x23, x24 := s.x24, x25 := s.x25, x26 := s.x26, x27 := s.x27, x28 := s.x28, x29 := s.x29, x30 := s.x30, sp := s.sp, nf := some t309.n, zf := some t309.z, cf := some t309.c, vf := some t309.v, mem := setMem (setMem (setMem (setMem (setMem (setMem (setMem (setMem (setMem (setMem (setMem (setMem (setMem (setMem (setMem (setMem (s.mem) (s.sp.toNat - 16) s.x19) (s.sp.toNat - 16 + 8) s.x20) (s.sp.toNat - 16 - 16) s.x21) (s.sp.toNat - 16 - 16 + 8) s.x22) (s.sp.toNat - 16 - 16 - 16) s.x23) (s.sp.toNat - 16 - 16 - 16 + 8) s.x24) (s.sp.toNat - 16 - 16 - 16 - 16) s.x25) (s.sp.toNat - 16 - 16 - 16 - 16 + 8) s.x26) (s.sp.toNat - 16 - 16 - 16 - 16 - 16) pp) (s.sp.toNat - 16 - 16 - 16 - 16 - 16 + 8) inv) pr.toNat t279.val) (pr.toNat + 8) t284.val) (pr.toNat + 16) t289.val) (pr.toNat + 24) t294.val) (pr.toNat + 32) t299.val) (pr.toNat + 40) t302.val, readable := s.readable, writable := s.writable, pc := s.x30.toNat, status := .halted } : State) := by
  obtain ⟨ra0, ra1, ra2, ra3, ra4, ra5⟩ := ha.r6
  obtain ⟨⟨alra0, alra1, alra2, alra3, alra4, alra5⟩, fra1, fra2, fra3, fra4, fra5⟩ := ha.addr6
  obtain ⟨rp0, rp1, rp2, rp3, rp4, rp5⟩ := hp.r6
  obtain ⟨⟨alrp0, alrp1, alrp2, alrp3, alrp4, alrp5⟩, frp1, frp2, frp3, frp4, frp5⟩ := hp.addr6
  obtain ⟨rr0, rr1, rr2, rr3, rr4, rr5⟩ := hr.r6
  obtain ⟨wr0, wr1, wr2, wr3, wr4, wr5⟩ := hr.w6
  obtain ⟨⟨alrr0, alrr1, alrr2, alrr3, alrr4, alrr5⟩, frr1, frr2, frr3, frr4, frr5⟩ := hr.addr6
  have als0 := hstk.aligned
  obtain ⟨room1, als1, alq1a, alq1b, sr1a, sr1b, sw1a, sw1b⟩ := hstk.f1 (by omega)
  obtain ⟨room2, als2, alq2a, alq2b, sr2a, sr2b, sw2a, sw2b⟩ := hstk.f2 (by omega)
  obtain ⟨room3, als3, alq3a, alq3b, sr3a, sr3b, sw3a, sw3b⟩ := hstk.f3 (by omega)
  obtain ⟨room4, als4, alq4a, alq4b, sr4a, sr4b, sw4a, sw4b⟩ := hstk.f4 (by omega)
  obtain ⟨room5, als5, alq5a, alq5b, sr5a, sr5b, sw5a, sw5b⟩ := hstk.f5 (by omega)
  replace hrs := Hide.mk (And.intro room5 hrs); replace has := Hide.mk (And.intro room5 has)
  replace hps := Hide.mk (And.intro room5 hps)
  simp only [OffStack] at hrs has hps
  clear ha hp hr hstk
  a64_sym [← ht303, ← ht306, ← ht309, hb304, hb305, hb307, hb308, hb310, hb311]

set_option maxHeartbeats 1600000 in
set_option exponentiation.threshold 800 in
theorem fpsqr_end_lo3 (s : State) (pr pa pp inv : Word) {p0 p1 p2 p3 p4 p5 l271 l295 : Word} {t168 t201 t234 t267 t270 t279 t284 t289 t293 t294 t299 t300 t302 t309 : ArithRes} {T U : Nat}
    (hr : Buf s pr 6 true) (ha : Buf s pa 6 false) (hp : Buf s pp 6 false)
    (hstk : Stack s 5) (hrs : OffStack s 5 pr 6) (has : OffStack s 5 pa 6) (hps : OffStack s 5 pp 6)
    (ht303 : t303 = addWithCarry t302.val (~~~p5) true) (ht306 : t306 = addWithCarry t299.val (~~~p4) true)
    (ht309 : t309 = addWithCarry t294.val (~~~p3) true) (hb304 : (t303.c && !t303.z) = false) (hb305 : (!t303.c) = false)
    (hb307 : (t306.c && !t306.z) = false) (hb308 : (!t306.c) = false) (hb310 : (t309.c && !t309.z) = false)
    (hb311 : (!t309.c) = true)
    (hR2 : val (2 ^ 64) [t279.val.toNat, t284.val.toNat, t289.val.toNat, t294.val.toNat, t299.val.toNat, t302.val.toNat] < 2 * val (2 ^ 64) [p0.toNat, p1.toNat, p2.toNat, p3.toNat, p4.toNat, p5.toNat])
    (hRe : 2 ^ 384 * val (2 ^ 64) [t279.val.toNat, t284.val.toNat, t289.val.toNat, t294.val.toNat, t299.val.toNat, t302.val.toNat] = T + U * val (2 ^ 64) [p0.toNat, p1.toNat, p2.toNat, p3.toNat, p4.toNat, p5.toNat]) :
    ∃ s', run embedded_pairing_core_arch_aarch64_fpbase_384_square ({ x0 := pr, x1 := t270.val, x2 := l271, x3 := inv, x4 := p0, x5 := p1, x6 := p2, x7 := p3, x8 := s.x8, x9 := t168.val, x10 := t201.val, x11 := t234.val, x12 := t267.val, x13 := t300.val, x14 := t279.val, x15 := t284.val, x16 := s.x16, x17 := s.x17, x18 := s.x18, x19 := t289.val, x20 := t294.val, x21 := t299.val, x22 := t302.val, x23 := p4, x24 := p5, x25 := t293.val, x26 := l295, x27 := s.x27, x28 := s.x28, x29 := s.x29, x30 := s.x30, sp := s.sp - 16#64 - 16#64 - 16#64 - 16#64, nf := some t302.n, zf := some t302.z, cf := some t302.c, vf := some t302.v, mem := setMem (setMem (setMem (setMem (setMem (setMem (setMem (setMem (setMem (setMem (s.mem) (s.sp.toNat - 16) s.x19) (s.sp.toNat - 16 + 8) s.x20) (s.sp.toNat - 16 - 16) s.x21) (s.sp.toNat - 16 - 16 + 8) s.x22) (s.sp.toNat - 16 - 16 - 16) s.x23) (s.sp.toNat - 16 - 16 - 16 + 8) s.x24) (s.sp.toNat - 16 - 16 - 16 - 16) s.x25) (s.sp.toNat - 16 - 16 - 16 - 16 + 8) s.x26) (s.sp.toNat - 16 - 16 - 16 - 16 - 16) pp) (s.sp.toNat - 16 - 16 - 16 - 16 - 16 + 8) inv, readable := s.readable, writable := s.writable, pc := 303, status := .running } : State) 17 = s' ∧ Returned s s' ∧
      val (2 ^ 64) [(s'.mem pr.toNat).toNat, (s'.mem (pr.toNat + 8)).toNat, (s'.mem (pr.toNat + 16)).toNat, (s'.mem (pr.toNat + 24)).toNat, (s'.mem (pr.toNat + 32)).toNat, (s'.mem (pr.toNat + 40)).toNat] < val (2 ^ 64) [p0.toNat, p1.toNat, p2.toNat, p3.toNat, p4.toNat, p5.toNat] ∧
      (val (2 ^ 64) [(s'.mem pr.toNat).toNat, (s'.mem (pr.toNat + 8)).toNat, (s'.mem (pr.toNat + 16)).toNat, (s'.mem (pr.toNat + 24)).toNat, (s'.mem (pr.toNat + 32)).toNat, (s'.mem (pr.toNat + 40)).toNat] * 2 ^ 384) % val (2 ^ 64) [p0.toNat, p1.toNat, p2.toNat, p3.toNat, p4.toNat, p5.toNat] = T % val (2 ^ 64) [p0.toNat, p1.toNat, p2.toNat, p3.toNat, p4.toNat, p5.toNat] ∧
      (∀ k, ¬(pr.toNat ≤ k ∧ k < pr.toNat + 48) → ¬(s.sp.toNat - 80 ≤ k ∧ k < s.sp.toNat) → s'.mem k = s.mem k) := by
  have ir0 := (t279.val).isLt; have ip0 := (p0).isLt
  have ir1 := (t284.val).isLt; have ip1 := (p1).isLt
  have ir2 := (t289.val).isLt; have ip2 := (p2).isLt
  have ir3 := (t294.val).isLt; have ip3 := (p3).isLt
  have ir4 := (t299.val).isLt; have ip4 := (p4).isLt
  have ir5 := (t302.val).isLt; have ip5 := (p5).isLt
  have c5 := cmp_eq ht303 hb304 hb305
  have c4 := cmp_eq ht306 hb307 hb308
  have c3 := cmp_lo ht309 hb311
  have hlt : val (2 ^ 64) [t279.val.toNat, t284.val.toNat, t289.val.toNat, t294.val.toNat, t299.val.toNat, t302.val.toNat] < val (2 ^ 64) [p0.toNat, p1.toNat, p2.toNat, p3.toNat, p4.toNat, p5.toNat] := by
    simp only [val_cons, val_nil]
    clear * - c5 c4 c3 ir0 ip0 ir1 ip1 ir2 ip2 ir3 ip3 ir4 ip4 ir5 ip5
    omega
  have hres := X86.mont_result hR2 hRe (Or.inl ⟨rfl, hlt⟩)
  have hq := fpsqr_tail_lo3 s pr pa pp inv hr ha hp hstk hrs has hps (t168 := t168) (t201 := t201) (t234 := t234) (t267 := t267) (t270 := t270) (t279 := t279) (t284 := t284) (t289 := t289) (t293 := t293) (t294 := t294) (t299 := t299) (t300 := t300) (t302 := t302) (t309 := t309) (p0 := p0) (p1 := p1) (p2 := p2) (p3 := p3) (p4 := p4) (p5 := p5) (l271 := l271) (l295 := l295) ht303 ht306 ht309 hb304 hb305 hb307 hb308 hb310 hb311
  obtain ⟨rr0, rr1, rr2, rr3, rr4, rr5⟩ := hr.r6
  obtain ⟨⟨alrr0, alrr1, alrr2, alrr3, alrr4, alrr5⟩, frr1, frr2, frr3, frr4, frr5⟩ := hr.addr6
  have room5 := (hstk.f5 (by omega)).1
  replace hrs := Hide.mk (And.intro room5 hrs)
  simp only [OffStack] at hrs
  refine ⟨_, hq, ⟨rfl, rfl, rfl, rfl, rfl, rfl, rfl, rfl, rfl, rfl, rfl, rfl, rfl, rfl, rfl⟩, ?_, ?_, ?_⟩
  · simp only; a64_mem; exact hres.1
  · simp only; a64_mem; exact hres.2
  · intro k hk1 hk2
    simp (disch := (clear * - hk1 hk2 room5; omega)) only [setMem_ne]

set_option maxHeartbeats 1600000 in
theorem fpsqr_tail_hi2 (s : State) (pr pa pp inv : Word)
    (hr : Buf s pr 6 true) (ha : Buf s pa 6 false) (hp : Buf s pp 6 false)
    (hstk : Stack s 5) (hrs : OffStack s 5 pr 6) (has : OffStack s 5 pa 6) (hps : OffStack s 5 pp 6) {p0 p1 p2 p3 p4 p5 l271 l295 : Word} {t168 t201 t234 t267 t270 t279 t284 t289 t293 t294 t299 t300 t302 t320 t321 t322 t323 t324 t325 : ArithRes}
    (ht303 : t303 = addWithCarry t302.val (~~~p5) true) (ht306 : t306 = addWithCarry t299.val (~~~p4) true)
    (ht309 : t309 = addWithCarry t294.val (~~~p3) true) (ht312 : t312 = addWithCarry t289.val (~~~p2) true)
    (ht320 : t320 = addWithCarry t279.val (~~~p0) true) (ht321 : t321 = addWithCarry t284.val (~~~p1) t320.c)
    (ht322 : t322 = addWithCarry t289.val (~~~p2) t321.c) (ht323 : t323 = addWithCarry t294.val (~~~p3) t322.c)
    (ht324 : t324 = addWithCarry t299.val (~~~p4) t323.c) (ht325 : t325 = addWithCarry t302.val (~~~p5) t324.c)
    (hb304 : (t303.c && !t303.z) = false) (hb305 : (!t303.c) = false) (hb307 : (t306.c && !t306.z) = false)
    (hb308 : (!t306.c) = false) (hb310 : (t309.c && !t309.z) = false) (hb311 : (!t309.c) = false)
    (hb313 : (t312.c && !t312.z) = true) :
    run embedded_pairing_core_arch_aarch64_fpbase_384_square ({ x0 := pr, x1 := t270.val, x2 := l271, x3 := inv, x4 := p0, x5 := p1, x6 := p2, x7 := p3, x8 := s.x8, x9 := t168.val, x10 := t201.val, x11 := t234.val, x12 := t267.val, x13 := t300.val, x14 := t279.val, x15 := t284.val, x16 := s.x16, x17 := s.x17, x18 := s.x18, x19 := t289.val, x20 := t294.val, x21 := t299.val, x22 := t302.val, x23 := p4, x24 := p5, x25 := t293.val, x26 := l295, x27 := s.x27, x28 := s.x28, x29 := s.x29, x30 := s.x30, sp := s.sp - 16#64 - 16#64 - 16#64 - 16#64, nf := some t302.n, zf := some t302.z, cf := some t302.c, vf := some t302.v, mem := setMem (setMem (setMem (setMem (setMem (setMem (setMem (setMem (setMem (setMem (s.mem) (s.sp.toNat - 16) s.x19) (s.sp.toNat - 16 + 8) s.x20) (s.sp.toNat - 16 - 16) s.x21) (s.sp.toNat - 16 - 16 + 8) s.x22) (s.sp.toNat - 16 - 16 - 16) s.x23) (s.sp.toNat - 16 - 16 - 16 + 8) s.x24) (s.sp.toNat - 16 - 16 - 16 - 16) s.x25) (s.sp.toNat - 16 - 16 - 16 - 16 + 8) s.x26) (s.sp.toNat - 16 - 16 - 16 - 16 - 16) pp) (s.sp.toNat - 16 - 16 - 16 - 16 - 16 + 8) inv, readable := s.readable, writable := s.writable, pc := 303, status := .running } : State) 25
      = ({ x0 := pr + 48#64, x1 := t270.val, x2 := l271, x3 := inv, x4 := p0, x5 := p1, x6 := p2, x7 := p3, x8 := s.x8, x9 := t168.val, x10 := t201.val, x11 := t234.val, x12 := t267.val, x13 := t300.val, x14 := t320.val, x15 := t321.val, x16 := s.x16, x17 := s.x17, x18 := s.x18, x19 := s.x19, x20 := s.x20, x21 := s.x21, x22 := s.x22, x23 := s.x23, x24 := s.x24, x25 := s.x25, x26 := s.x26, x27 := s.x27, x28 := s.x28, x29 := s.x29, x30 := s.x30, sp := s.sp, nf := some t325.n, zf := some t325.z, cf := some t325.c, vf := some t325.v, mem := setMem (setMem (setMem (setMem (setMem (setMem (setMem (setMem (setMem (setMem (setMem (setMem (setMem (setMem (setMem (setMem (s.mem) (s.sp.toNat - 16) s.x19) (s.sp.toNat - 16 + 8) s.x20) (s.sp.toNat - 16 - 16) s.x21) (s.sp.toNat - 16 - 16 + 8) s.x22) (s.sp.toNat - 16 - 16 - 16) s.x23) (s.sp.toNat - 16 - 16 - 16 + 8) s.x24) (s.sp.toNat - 16 - 16 - 16 - 16) s.x25) (s.sp.toNat - 16 - 16 - 16 - 16 + 8) s.x26) (s.sp.toNat - 16 - 16 - 16 - 16 - 16) pp) (s.sp.toNat - 16 - 16 - 16 - 16 - 16 + 8) inv) pr.toNat t320.val) (pr.toNat + 8) t321.val) (pr.toNat + 16) t322.val) (pr.toNat + 24) t323.val) (pr.toNat + 32) t324.val) (pr.toNat + 40) t325.val, readable := s.readable, writable := s.writable, pc := s.x30.toNat, status := .halted } : State) := by
  obtain ⟨ra0, ra1, ra2, ra3, ra4, ra5⟩ := ha.r6
  obtain ⟨⟨alra0, alra1, alra2, alra3, alra4, alra5⟩, fra1, fra2, fra3, fra4, fra5⟩ := ha.addr6
  obtain ⟨rp0, rp1, rp2, rp3, rp4, rp5⟩ := hp.r6
  obtain ⟨⟨alrp0, alrp1, alrp2, alrp3, alrp4, alrp5⟩, frp1, frp2, frp3, frp4, frp5⟩ := hp.addr6
  obtain ⟨rr0, rr1, rr2, rr3, rr4, rr5⟩ := hr.r6
  obtain ⟨wr0, wr1, wr2, wr3, wr4, wr5⟩ := hr.w6
  obtain ⟨⟨alrr0, alrr1, alrr2, alrr3, alrr4, alrr5⟩, frr1, frr2, frr3, frr4, frr5⟩ := hr.addr6
  have als0 := hstk.aligned
  obtain ⟨room1, als1, alq1a, alq1b, sr1a, sr1b, sw1a, sw1b⟩ := hstk.f1 (by omega)
  obtain ⟨room2, als2, alq2a, alq2b, sr2a, sr2b, sw2a, sw2b⟩ := hstk.f2 (by omega)
  obtain ⟨room3, als3, alq3a, alq3b, sr3a, sr3b, sw3a, sw3b⟩ := hstk.f3 (by omega)
  obtain ⟨room4, als4, alq4a, alq4b, sr4a, sr4b, sw4a, sw4b⟩ := hstk.f4 (by omega)
  obtain ⟨room5, als5, alq5a, alq5b, sr5a, sr5b, sw5a, sw5b⟩ := hstk.f5 (by omega)
  replace hrs := Hide.mk (And.intro room5 hrs); replace has := Hide.mk (And.intro room5 has)
  replace hps := Hide.mk (And.intro room5 hps)
  simp only [OffStack] at hrs has hps
  clear ha hp hr hstk
  a64_sym [← ht303, ← ht306, ← ht309, ← ht312, ← ht320, ← ht321, ← ht322, ← ht323, ← ht324, ← ht325, hb304, hb305, hb307, hb308, hb310, hb311, hb313]

set_option maxHeartbeats 1600000 in
set_option exponentiation.threshold 800 in
theorem fpsqr_end_hi2 (s : State) (pr pa pp inv : Word) {p0 p1 p2 p3 p4 p5 l271 l295 : Word} {t168 t201 t234 t267 t270 t279 t284 t289 t293 t294 t299 t300 t302 t320 t321 t322 t323 t324 t325 : ArithRes} {T U : Nat}
    (hr : Buf s pr 6 true) (ha : Buf s pa 6 false) (hp : Buf s pp 6 false)
    (hstk : Stack s 5) (hrs : OffStack s 5 pr 6) (has : OffStack s 5 pa 6) (hps : OffStack s 5 pp 6)
    (ht303 : t303 = addWithCarry t302.val (~~~p5) true) (ht306 : t306 = addWithCarry t299.val (~~~p4) true)
    (ht309 : t309 = addWithCarry t294.val (~~~p3) true) (ht312 : t312 = addWithCarry t289.val (~~~p2) true)
    (ht320 : t320 = addWithCarry t279.val (~~~p0) true) (ht321 : t321 = addWithCarry t284.val (~~~p1) t320.c)
    (ht322 : t322 = addWithCarry t289.val (~~~p2) t321.c) (ht323 : t323 = addWithCarry t294.val (~~~p3) t322.c)
    (ht324 : t324 = addWithCarry t299.val (~~~p4) t323.c) (ht325 : t325 = addWithCarry t302.val (~~~p5) t324.c)
    (hb304 : (t303.c && !t303.z) = false) (hb305 : (!t303.c) = false) (hb307 : (t306.c && !t306.z) = false)
    (hb308 : (!t306.c) = false) (hb310 : (t309.c && !t309.z) = false) (hb311 : (!t309.c) = false)
    (hb313 : (t312.c && !t312.z) = true)
    (hR2 : val (2 ^ 64) [t279.val.toNat, t284.val.toNat, t289.val.toNat, t294.val.toNat, t299.val.toNat, t302.val.toNat] < 2 * val (2 ^ 64) [p0.toNat, p1.toNat, p2.toNat, p3.toNat, p4.toNat, p5.toNat])
    (hRe : 2 ^ 384 * val (2 ^ 64) [t279.val.toNat, t284.val.toNat, t289.val.toNat, t294.val.toNat, t299.val.toNat, t302.val.toNat] = T + U * val (2 ^ 64) [p0.toNat, p1.toNat, p2.toNat, p3.toNat, p4.toNat, p5.toNat]) :
    ∃ s', run embedded_pairing_core_arch_aarch64_fpbase_384_square ({ x0 := pr, x1 := t270.val, x2 := l271, x3 := inv, x4 := p0, x5 := p1, x6 := p2, x7 := p3, x8 := s.x8, x9 := t168.val, x10 := t201.val, x11 := t234.val, x12 := t267.val, x13 := t300.val, x14 := t279.val, x15 := t284.val, x16 := s.x16, x17 := s.x17, x18 := s.x18, x19 := t289.val, x20 := t294.val, x21 := t299.val, x22 := t302.val, x23 := p4, x24 := p5, x25 := t293.val, x26 := l295, x27 := s.x27, x28 := s.x28, x29 := s.x29, x30 := s.x30, sp := s.sp - 16#64 - 16#64 - 16#64 - 16#64, nf := some t302.n, zf := some t302.z, cf := some t302.c, vf := some t302.v, mem := setMem (setMem (setMem (setMem (setMem (setMem (setMem (setMem (setMem (setMem (s.mem) (s.sp.toNat - 16) s.x19) (s.sp.toNat - 16 + 8) s.x20) (s.sp.toNat - 16 - 16) s.x21) (s.sp.toNat - 16 - 16 + 8) s.x22) (s.sp.toNat - 16 - 16 - 16) s.x23) (s.sp.toNat - 16 - 16 - 16 + 8) s.x24) (s.sp.toNat - 16 - 16 - 16 - 16) s.x25) (s.sp.toNat - 16 - 16 - 16 - 16 + 8) s.x26) (s.sp.toNat - 16 - 16 - 16 - 16 - 16) pp) (s.sp.toNat - 16 - 16 - 16 - 16 - 16 + 8) inv, readable := s.readable, writable := s.writable, pc := 303, status := .running } : State) 25 = s' ∧ Returned s s' ∧
      val (2 ^ 64) [(s'.mem pr.toNat).toNat, (s'.mem (pr.toNat + 8)).toNat, (s'.mem (pr.toNat + 16)).toNat, (s'.mem (pr.toNat + 24)).toNat, (s'.mem (pr.toNat + 32)).toNat, (s'.mem (pr.toNat + 40)).toNat] < val (2 ^ 64) [p0.toNat, p1.toNat, p2.toNat, p3.toNat, p4.toNat, p5.toNat] ∧
      (val (2 ^ 64) [(s'.mem pr.toNat).toNat, (s'.mem (pr.toNat + 8)).toNat, (s'.mem (pr.toNat + 16)).toNat, (s'.mem (pr.toNat + 24)).toNat, (s'.mem (pr.toNat + 32)).toNat, (s'.mem (pr.toNat + 40)).toNat] * 2 ^ 384) % val (2 ^ 64) [p0.toNat, p1.toNat, p2.toNat, p3.toNat, p4.toNat, p5.toNat] = T % val (2 ^ 64) [p0.toNat, p1.toNat, p2.toNat, p3.toNat, p4.toNat, p5.toNat] ∧
      (∀ k, ¬(pr.toNat ≤ k ∧ k < pr.toNat + 48) → ¬(s.sp.toNat - 80 ≤ k ∧ k < s.sp.toNat) → s'.mem k = s.mem k) := by
  have ir0 := (t279.val).isLt; have ip0 := (p0).isLt
  have ir1 := (t284.val).isLt; have ip1 := (p1).isLt
  have ir2 := (t289.val).isLt; have ip2 := (p2).isLt
  have ir3 := (t294.val).isLt; have ip3 := (p3).isLt
  have ir4 := (t299.val).isLt; have ip4 := (p4).isLt
  have ir5 := (t302.val).isLt; have ip5 := (p5).isLt
  have c5 := cmp_eq ht303 hb304 hb305
  have c4 := cmp_eq ht306 hb307 hb308
  have c3 := cmp_eq ht309 hb310 hb311
  have c2 := cmp_hi ht312 hb313
  have hle : val (2 ^ 64) [p0.toNat, p1.toNat, p2.toNat, p3.toNat, p4.toNat, p5.toNat] ≤ val (2 ^ 64) [t279.val.toNat, t284.val.toNat, t289.val.toNat, t294.val.toNat, t299.val.toNat, t302.val.toNat] := by
    simp only [val_cons, val_nil]
    clear * - c5 c4 c3 c2 ir0 ip0 ir1 ip1 ir2 ip2 ir3 ip3 ir4 ip4 ir5 ip5
    omega
  have hs := sub6_val ht320 ht321 ht322 ht323 ht324 ht325
  simp only [Bool.not_true, Bool.toNat_false, Nat.add_zero] at hs
  have hres := X86.mont_result hR2 hRe (Or.inr (sub_no_borrow hs hle (X86.val6_lt t320.val t321.val t322.val t323.val t324.val t325.val)))
  have hq := fpsqr_tail_hi2 s pr pa pp inv hr ha hp hstk hrs has hps (t168 := t168) (t201 := t201) (t234 := t234) (t267 := t267) (t270 := t270) (t279 := t279) (t284 := t284) (t289 := t289) (t293 := t293) (t294 := t294) (t299 := t299) (t300 := t300) (t302 := t302) (t320 := t320) (t321 := t321) (t322 := t322) (t323 := t323) (t324 := t324) (t325 := t325) (p0 := p0) (p1 := p1) (p2 := p2) (p3 := p3) (p4 := p4) (p5 := p5) (l271 := l271) (l295 := l295) ht303 ht306 ht309 ht312 ht320 ht321 ht322 ht323 ht324 ht325 hb304 hb305 hb307 hb308 hb310 hb311 hb313
  obtain ⟨rr0, rr1, rr2, rr3, rr4, rr5⟩ := hr.r6
  obtain ⟨⟨alrr0, alrr1, alrr2, alrr3, alrr4, alrr5⟩, frr1, frr2, frr3, frr4, frr5⟩ := hr.addr6
  have room5 := (hstk.f5 (by omega)).1
  replace hrs := Hide.mk (And.intro room5 hrs)
  simp only [OffStack] at hrs
  refine ⟨_, hq, ⟨rfl, rfl, rfl, rfl, rfl, rfl, rfl, rfl, rfl, rfl, rfl, rfl, rfl, rfl, rfl⟩, ?_, ?_, ?_⟩
  · simp only; a64_mem; exact hres.1
  · simp only; a64_mem; exact hres.2
  · intro k hk1 hk2
    simp (disch := (clear * - hk1 hk2 room5; omega)) only [setMem_ne]

set_option maxHeartbeats 1600000 in
theorem fpsqr_tail_lo2 (s : State) (pr pa pp inv : Word)
    (hr : Buf s pr 6 true) (ha : Buf s pa 6 false) (hp : Buf s pp 6 false)
    (hstk : Stack s 5) (hrs : OffStack s 5 pr 6) (has : OffStack s 5 pa 6) (hps : OffStack s 5 pp 6) {p0 p1 p2 p3 p4 p5 l271 l295 : Word} {t168 t201 t234 t267 t270 t279 t284 t289 t293 t294 t299 t300 t302 t312 : ArithRes}
    (ht303 : t303 = addWithCarry t302.val (~~~p5) true) (ht306 : t306 = addWithCarry t299.val (~~~p4) true)
    (ht309 : t309 = addWithCarry t294.val (~~~p3) true) (ht312 : t312 = addWithCarry t289.val (~~~p2) true)
    (hb304 : (t303.c && !t303.z) = false) (hb305 : (!t303.c) = false) (hb307 : (t306.c && !t306.z) = false)
    (hb308 : (!t306.c) = false) (hb310 : (t309.c && !t309.z) = false) (hb311 : (!t309.c) = false)
    (hb313 : (t312.c && !t312.z) = false) (hb314 : (!t312.c) = true) :
    run embedded_pairing_core_arch_aarch64_fpbase_384_square ({ x0 := pr, x1 := t270.val, x2 := l271, x3 := inv, x4 := p0, x5 := p1, x6 := p2, x7 := p3, x8 := s.x8, x9 := t168.val, x10 := t201.val, x11 := t234.val, x12 := t267.val, x13 := t300.val, x14 := t279.val, x15 := t284.val, x16 := s.x16, x17 := s.x17, x18 := s.x18, x19 := t289.val, x20 := t294.val, x21 := t299.val, x22 := t302.val, x23 := p4, x24 := p5, x25 := t293.val, x26 := l295, x27 := s.x27, x28 := s.x28, x29 := s.x29, x30 := s.x30, sp := s.sp - 16#64 - 16#64 - 16#64 - 16#64, nf := some t302.n, zf := some t302.z, cf := some t302.c, vf := some t302.v, mem := setMem (setMem (setMem (setMem (setMem (setMem (setMem (setMem (setMem (setMem (s.mem) (s.sp.toNat - 16) s.x19) (s.sp.toNat - 16 + 8) s.x20) (s.sp.toNat - 16 - 16) s.x21) (s.sp.toNat - 16 - 16 + 8) s.x22) (s.sp.toNat - 16 - 16 - 16) s.x23) (s.sp.toNat - 16 - 16 - 16 + 8) s.x24) (s.sp.toNat - 16 - 16 - 16 - 16) s.x25) (s.sp.toNat - 16 - 16 - 16 - 16 + 8) s.x26) (s.sp.toNat - 16 - 16 - 16 - 16 - 16) pp) (s.sp.toNat - 16 - 16 - 16 - 16 - 16 + 8) inv, readable := s.readable, writable := s.writable, pc := 303, status := .running } : State) 20
      = ({ x0 := pr + 48#64, x1 := t270.val, x2 := l271, x3 := inv, x4 := p0, x5 := p1, x6 := p2, x7 := p3, x8 := s.x8, x9 := t168.val, x10 := t201.val, x11 := t234.val, x12 := t267.val, x13 := t300.val, x14 := t279.val, x15 := t284.val, x16 := s.x16, x17 := s.x17, x18 := s.x18, x19 := s.x19, x20 := s.x20, x21 := s.x21, x22 := s.x22, x23 := s.x23, x24 := s.x24, x25 := s.x25, x26 := s.x26, x27 := s.x27, x28 := s.x28, x29 := s.x29, x30 := s.x30, sp := s.sp, nf := some t312.n, zf := some t312.z, cf := some t312.c, vf := some t312.v, mem := setMem (setMem (setMem (setMem (setMem (setMem (setMem (setMem (setMem (setMem (setMem (setMem (setMem (setMem (setMem (setMem (s.mem) (s.sp.toNat - 16) s.x19) (s.sp.toNat - 16 + 8) s.x20) (s.sp.toNat - 16 - 16) s.x21) (s.sp.toNat - 16 - 16 + 8) s.x22) (s.sp.toNat - 16 - 16 - 16) s.x23) (s.sp.toNat - 16 - 16 - 16 + 8) s.x24) (s.sp.toNat - 16 - 16 - 16 - 16) s.x25) (s.sp.toNat - 16 - 16 - 16 - 16 + 8) s.x26) (s.sp.toNat - 16 - 16 - 16 - 16 - 16) pp) (s.sp.toNat - 16 - 16 - 16 - 16 - 16 + 8) inv) pr.toNat t279.val) (pr.toNat + 8) t284.val) (pr.toNat + 16) t289.val) (pr.toNat + 24) t294.val) (pr.toNat + 32) t299.val) (pr.toNat + 40) t302.val, readable := s.readable, writable := s.writable, pc := s.x30.toNat, status := .halted } : State) := by
  obtain ⟨ra0, ra1, ra2, ra3, ra4, ra5⟩ := ha.r6
  obtain ⟨⟨alra0, alra1, alra2, alra3, alra4, alra5⟩, fra1, fra2, fra3, fra4, fra5⟩ := ha.addr6
  obtain ⟨rp0, rp1, rp2, rp3, rp4, rp5⟩ := hp.r6
  obtain ⟨⟨alrp0, alrp1, alrp2, alrp3, alrp4, alrp5⟩, frp1, frp2, frp3, frp4, frp5⟩ := hp.addr6
  obtain ⟨rr0, rr1, rr2, rr3, rr4, rr5⟩ := hr.r6
  obtain ⟨wr0, wr1, wr2, wr3, wr4, wr5⟩ := hr.w6
  obtain ⟨⟨alrr0, alrr1, alrr2, alrr3, alrr4, alrr5⟩, frr1, frr2, frr3, frr4, frr5⟩ := hr.addr6
  have als0 := hstk.aligned
  obtain ⟨room1, als1, alq1a, alq1b, sr1a, sr1b, sw1a, sw1b⟩ := hstk.f1 (by omega)
  obtain ⟨room2, als2, alq2a, alq2b, sr2a, sr2b, sw2a, sw2b⟩ := hstk.f2 (by omega)
  obtain ⟨room3, als3, alq3a, alq3b, sr3a, sr3b, sw3a, sw3b⟩ := hstk.f3 (by omega)
  obtain ⟨room4, als4, alq4a, alq4b, sr4a, sr4b, sw4a, sw4b⟩ := hstk.f4 (by omega)
  obtain ⟨room5, als5, alq5a, alq5b, sr5a, sr5b, sw5a, sw5b⟩ := hstk.f5 (by omega)
  replace hrs := Hide.mk (And.intro room5 hrs); replace has := Hide.mk (And.intro room5 has)
  replace hps := Hide.mk (And.intro room5 hps)
  simp only [OffStack] at hrs has hps
  clear ha hp hr hstk
  a64_sym [← ht303, ← ht306, ← ht309, ← ht312, hb304, hb305, hb307, hb308, hb310, hb311, hb313, hb314]

set_option maxHeartbeats 1600000 in
set_option exponentiation.threshold 800 in
theorem fpsqr_end_lo2 (s : State) (pr pa pp inv : Word) {p0 p1 p2 p3 p4 p5 l271 l295 : Word} {t168 t201 t234 t267 t270 t279 t284 t289 t293 t294 t299 t300 t302 t312 : ArithRes} {T U : Nat}
    (hr : Buf s pr 6 true) (ha : Buf s pa 6 false) (hp : Buf s pp 6 false)
    (hstk : Stack s 5) (hrs : OffStack s 5 pr 6) (has : OffStack s 5 pa 6) (hps : OffStack s 5 pp 6)
    (ht303 : t303 = addWithCarry t302.val (~~~p5) true) (ht306 : t306 = addWithCarry t299.val (~~~p4) true)
    (ht309 : t309 = addWithCarry t294.val (~~~p3) true) (ht312 : t312 = addWithCarry t289.val (~~~p2) true)
    (hb304 : (t303.c && !t303.z) = false) (hb305 : (!t303.c) = false) (hb307 : (t306.c && !t306.z) = false)
    (hb308 : (!t306.c) = false) (hb310 : (t309.c && !t309.z) = false) (hb311 : (!t309.c) = false)
    (hb313 : (t312.c && !t312.z) = false) (hb314 : (!t312.c) = true)
    (hR2 : val (2 ^ 64) [t279.val.toNat, t284.val.toNat, t289.val.toNat, t294.val.toNat, t299.val.toNat, t302.val.toNat] < 2 * val (2 ^ 64) [p0.toNat, p1.toNat, p2.toNat, p3.toNat, p4.toNat, p5.toNat])
    (hRe : 2 ^ 384 * val (2 ^ 64) [t279.val.toNat, t284.val.toNat, t289.val.toNat, t294.val.toNat, t299.val.toNat, t302.val.toNat] = T + U * val (2 ^ 64) [p0.toNat, p1.toNat, p2.toNat, p3.toNat, p4.toNat, p5.toNat]) :
    ∃ s', run embedded_pairing_core_arch_aarch64_fpbase_384_square ({ x0 := pr, x1 := t270.val, x2 := l271, x3 := inv, x4 := p0, x5 := p1, x6 := p2, x7 := p3, x8 := s.x8, x9 := t168.val, x10 := t201.val, x11 := t234.val, x12 := t267.val, x13 := t300.val, x14 := t279.val, x15 := t284.val, x16 := s.x16, x17 := s.x17, x18 := s.x18, x19 := t289.val, x20 := t294.val, x21 := t299.val, x22 := t302.val, x23 := p4, x24 := p5, x25 := t293.val, x26 := l295, x27 := s.x27, x28 := s.x28, x29 := s.x29, x30 := s.x30, sp := s.sp - 16#64 - 16#64 - 16#64 - 16#64, nf := some t302.n, zf := some t302.z, cf := some t302.c, vf := some t302.v, mem := setMem (setMem (setMem (setMem (setMem (setMem (setMem (setMem (setMem (setMem (s.mem) (s.sp.toNat - 16) s.x19) (s.sp.toNat - 16 + 8) s.x20) (s.sp.toNat - 16 - 16) s.x21) (s.sp.toNat - 16 - 16 + 8) s.x22) (s.sp.toNat - 16 - 16 - 16) s.x23) (s.sp.toNat - 16 - 16 - 16 + 8) s.x24) (s.sp.toNat - 16 - 16 - 16 - 16) s.x25) (s.sp.toNat - 16 - 16 - 16 - 16 + 8) s.x26) (s.sp.toNat - 16 - 16 - 16 - 16 - 16) pp) (s.sp.toNat - 16 - 16 - 16 - 16 - 16 + 8) inv, readable := s.readable, writable := s.writable, pc := 303, status := .running } : State) 20 = s' ∧ Returned s s' ∧
      val (2 ^ 64) [(s'.mem pr.toNat).toNat, (s'.mem (pr.toNat + 8)).toNat, (s'.mem (pr.toNat + 16)).toNat, (s'.mem (pr.toNat + 24)).toNat, (s'.mem (pr.toNat + 32)).toNat, (s'.mem (pr.toNat + 40)).toNat] < val (2 ^ 64) [p0.toNat, p1.toNat, p2.toNat, p3.toNat, p4.toNat, p5.toNat] ∧
      (val (2 ^ 64) [(s'.mem pr.toNat).toNat, (s'.mem (pr.toNat + 8)).toNat, (s'.mem (pr.toNat + 16)).toNat, (s'.mem (pr.toNat + 24)).toNat, (s'.mem (pr.toNat + 32)).toNat, (s'.mem (pr.toNat + 40)).toNat] * 2 ^ 384) % val (2 ^ 64) [p0.toNat, p1.toNat, p2.toNat, p3.toNat, p4.toNat, p5.toNat] = T % val (2 ^ 64) [p0.toNat, p1.toNat, p2.toNat, p3.toNat, p4.toNat, p5.toNat] ∧
      (∀ k, ¬(pr.toNat ≤ k ∧ k < pr.toNat + 48) → ¬(s.sp.toNat - 80 ≤ k ∧ k < s.sp.toNat) → s'.mem k = s.mem k) := by
  have ir0 := (t279.val).isLt; have ip0 := (p0).isLt
  have ir1 := (t284.val).isLt; have ip1 := (p1).isLt
  have ir2 := (t289.val).isLt; have ip2 := (p2).isLt
  have ir3 := (t294.val).isLt; have ip3 := (p3).isLt
  have ir4 := (t299.val).isLt; have ip4 := (p4).isLt
  have ir5 := (t302.val).isLt; have ip5 := (p5).isLt
  have c5 := cmp_eq ht303 hb304 hb305
  have c4 := cmp_eq ht306 hb307 hb308
  have c3 := cmp_eq ht309 hb310 hb311
  have c2 := cmp_lo ht312 hb314
  have hlt : val (2 ^ 64) [t279.val.toNat, t284.val.toNat, t289.val.toNat, t294.val.toNat, t299.val.toNat, t302.val.toNat] < val (2 ^ 64) [p0.toNat, p1.toNat, p2.toNat, p3.toNat, p4.toNat, p5.toNat] := by
    simp only [val_cons, val_nil]
    clear * - c5 c4 c3 c2 ir0 ip0 ir1 ip1 ir2 ip2 ir3 ip3 ir4 ip4 ir5 ip5
    omega
  have hres := X86.mont_result hR2 hRe (Or.inl ⟨rfl, hlt⟩)
  have hq := fpsqr_tail_lo2 s pr pa pp inv hr ha hp hstk hrs has hps (t168 := t168) (t201 := t201) (t234 := t234) (t267 := t267) (t270 := t270) (t279 := t279) (t284 := t284) (t289 := t289) (t293 := t293) (t294 := t294) (t299 := t299) (t300 := t300) (t302 := t302) (t312 := t312) (p0 := p0) (p1 := p1) (p2 := p2) (p3 := p3) (p4 := p4) (p5 := p5) (l271 := l271) (l295 := l295) ht303 ht306 ht309 ht312 hb304 hb305 hb307 hb308 hb310 hb311 hb313 hb314
  obtain ⟨rr0, rr1, rr2, rr3, rr4, rr5⟩ := hr.r6
  obtain ⟨⟨alrr0, alrr1, alrr2, alrr3, alrr4, alrr5⟩, frr1, frr2, frr3, frr4, frr5⟩ := hr.addr6
  have room5 := (hstk.f5 (by omega)).1
  replace hrs := Hide.mk (And.intro room5 hrs)
  simp only [OffStack] at hrs
  refine ⟨_, hq, ⟨rfl, rfl, rfl, rfl, rfl, rfl, rfl, rfl, rfl, rfl, rfl, rfl, rfl, rfl, rfl⟩, ?_, ?_, ?_⟩
  · simp only; a64_mem; exact hres.1
  · simp only; a64_mem; exact hres.2
  · intro k hk1 hk2
    simp (disch := (clear * - hk1 hk2 room5; omega)) only [setMem_ne]

set_option maxHeartbeats 1600000 in
theorem fpsqr_tail_hi1 (s : State) (pr pa pp inv : Word)
    (hr : Buf s pr 6 true) (ha : Buf s pa 6 false) (hp : Buf s pp 6 false)
    (hstk : Stack s 5) (hrs : OffStack s 5 pr 6) (has : OffStack s 5 pa 6) (hps : OffStack s 5 pp 6) {p0 p1 p2 p3 p4 p5 l271 l295 : Word} {t168 t201 t234 t267 t270 t279 t284 t289 t293 t294 t299 t300 t302 t320 t321 t322 t323 t324 t325 : ArithRes}
    (ht303 : t303 = addWithCarry t302.val (~~~p5) true) (ht306 : t306 = addWithCarry t299.val (~~~p4) true)
    (ht309 : t309 = addWithCarry t294.val (~~~p3) true) (ht312 : t312 = addWithCarry t289.val (~~~p2) true)
    (ht315 : t315 = addWithCarry t284.val (~~~p1) true) (ht320 : t320 = addWithCarry t279.val (~~~p0) true)
    (ht321 : t321 = addWithCarry t284.val (~~~p1) t320.c) (ht322 : t322 = addWithCarry t289.val (~~~p2) t321.c)
    (ht323 : t323 = addWithCarry t294.val (~~~p3) t322.c) (ht324 : t324 = addWithCarry t299.val (~~~p4) t323.c)
    (ht325 : t325 = addWithCarry t302.val (~~~p5) t324.c) (hb304 : (t303.c && !t303.z) = false)
    (hb305 : (!t303.c) = false) (hb307 : (t306.c && !t306.z) = false) (hb308 : (!t306.c) = false)
    (hb310 : (t309.c && !t309.z) = false) (hb311 : (!t309.c) = false) (hb313 : (t312.c && !t312.z) = false)
    (hb314 : (!t312.c) = false) (hb316 : (t315.c && !t315.z) = true) :
    run embedded_pairing_core_arch_aarch64_fpbase_384_square ({ x0 := pr, x1 := t270.val, x2 := l271, x3 := inv, x4 := p0, x5 := p1, x6 := p2, x7 := p3, x8 := s.x8, x9 := t168.val, x10 := t201.val, x11 := t234.val, x12 := t267.val, x13 := t300.val, x14 := t279.val, x15 := t284.val, x16 := s.x16, x17 := s.x17, x18 := s.x18, x19 := t289.val, x20 := t294.val, x21 := t299.val, x22 := t302.val, x23 := p4, x24 := p5, x25 := t293.val, x26 := l295, x27 := s.x27, x28 := s.x28, x29 := s.x29, x30 := s.x30, sp := s.sp - 16#64 - 16#64 - 16#64 - 16#64, nf := some t302.n, zf := some t302.z, cf := some t302.c, vf := some t302.v, mem := setMem (setMem (setMem (setMem (setMem (setMem (setMem (setMem (setMem (setMem (s.mem) (s.sp.toNat - 16) s.x19) (s.sp.toNat - 16 + 8) s.x20) (s.sp.toNat - 16 - 16) s.x21) (s.sp.toNat - 16 - 16 + 8) s.x22) (s.sp.toNat - 16 - 16 - 16) s.x23) (s.sp.toNat - 16 - 16 - 16 + 8) s.x24) (s.sp.toNat - 16 - 16 - 16 - 16) s.x25) (s.sp.toNat - 16 - 16 - 16 - 16 + 8) s.x26) (s.sp.toNat - 16 - 16 - 16 - 16 - 16) pp) (s.sp.toNat - 16 - 16 - 16 - 16 - 16 + 8) inv, readable := s.readable, writable := s.writable, pc := 303, status := .running } : State) 28
      = ({ x0 := pr + 48#64, x1 := t270.val, x2 := l271, x3 := inv, x4 := p0, x5 := p1, x6 := p2, x7 := p3, x8 := s.x8, x9 := t168.val, x10 := t201.val, x11 := t234.val, x12 := t267.val, x13 := t300.val, x14 := t320.val, x15 := t321.val, x16 := s.x16, x17 := s.x17, x18 := s.x18, x19 := s.x19, x20 := s.x20, x21 := s.x21, x22 := s.x22, x23 := s.x23, x24 := s.x24, x25 := s.x25, x26 := s.x26, x27 := s.x27, x28 := s.x28, x29 := s.x29, x30 := s.x30, sp := s.sp, nf := some t325.n, zf := some t325.z, cf := some t325.c, vf := some t325.v, mem := setMem (setMem (setMem (setMem (setMem (setMem (setMem (setMem (setMem (setMem (setMem (setMem (setMem (setMem (setMem (setMem (s.mem) (s.sp.toNat - 16) s.x19) (s.sp.toNat - 16 + 8) s.x20) (s.sp.toNat - 16 - 16) s.x21) (s.sp.toNat - 16 - 16 + 8) s.x22) (s.sp.toNat - 16 - 16 - 16) s.x23) (s.sp.toNat - 16 - 16 - 16 + 8) s.x24) (s.sp.toNat - 16 - 16 - 16 - 16) s.x25) (s.sp.toNat - 16 - 16 - 16 - 16 + 8) s.x26) (s.sp.toNat - 16 - 16 - 16 - 16 - 16) pp) (s.sp.toNat - 16 - 16 - 16 - 16 - 16 + 8) inv) pr.toNat t320.val) (pr.toNat + 8) t321.val) (pr.toNat + 16) t322.val) (pr.toNat + 24) t323.val) (pr.toNat + 32) t324.val) (pr.toNat + 40) t325.val, readable := s.readable, writable := s.writable, pc := s.x30.toNat, status := .halted } : State) := by
  obtain ⟨ra0, ra1, ra2, ra3, ra4, ra5⟩ := ha.r6
  obtain ⟨⟨alra0, alra1, alra2, alra3, alra4, alra5⟩, fra1, fra2, fra3, fra4, fra5⟩ := ha.addr6
  obtain ⟨rp0, rp1, rp2, rp3, rp4, rp5⟩ := hp.r6
  obtain ⟨⟨alrp0, alrp1, alrp2, alrp3, alrp4, alrp5⟩, frp1, frp2, frp3, frp4, frp5⟩ := hp.addr6
  obtain ⟨rr0, rr1, rr2, rr3, rr4, rr5⟩ := hr.r6
  obtain ⟨wr0, wr1, wr2, wr3, wr4, wr5⟩ := hr.w6
  obtain ⟨⟨alrr0, alrr1, alrr2, alrr3, alrr4, alrr5⟩, frr1, frr2, frr3, frr4, frr5⟩ := hr.addr6
  have als0 := hstk.aligned
  obtain ⟨room1, als1, alq1a, alq1b, sr1a, sr1b, sw1a, sw1b⟩ := hstk.f1 (by omega)
  obtain ⟨room2, als2, alq2a, alq2b, sr2a, sr2b, sw2a, sw2b⟩ := hstk.f2 (by omega)
  obtain ⟨room3, als3, alq3a, alq3b, sr3a, sr3b, sw3a, sw3b⟩ := hstk.f3 (by omega)
  obtain ⟨room4, als4, alq4a, alq4b, sr4a, sr4b, sw4a, sw4b⟩ := hstk.f4 (by omega)
  obtain ⟨room5, als5, alq5a, alq5b, sr5a, sr5b, sw5a, sw5b⟩ := hstk.f5 (by omega)
  replace hrs := Hide.mk (And.intro room5 hrs); replace has := Hide.mk (And.intro room5 has)
  replace hps := Hide.mk (And.intro room5 hps)
  simp only [OffStack] at hrs has hps
  clear ha hp hr hstk
  a64_sym [← ht303, ← ht306, ← ht309, ← ht312, ← ht315, ← ht320, ← ht321, ← ht322, ← ht323, ← ht324, ← ht325, hb304, hb305, hb307, hb308, hb310, hb311, hb313, hb314, hb316]

set_option maxHeartbeats 1600000 in
set_option exponentiation.threshold 800 in
theorem fpsqr_end_hi1 (s : State) (pr pa pp inv : Word) {p0 p1 p2 p3 p4 p5 l271 l295 : Word} {t168 t201 t234 t267 t270 t279 t284 t289 t293 t294 t299 t300 t302 t320 t321 t322 t323 t324 t325 : ArithRes} {T U : Nat}
    (hr : Buf s pr 6 true) (ha : Buf s pa 6 false) (hp : Buf s pp 6 false)
    (hstk : Stack s 5) (hrs : OffStack s 5 pr 6) (has : OffStack s 5 pa 6) (hps : OffStack s 5 pp 6)
    (ht303 : t303 = addWithCarry t302.val (~~~p5) true) (ht306 : t306 = addWithCarry t299.val (~~~p4) true)
    (ht309 : t309 = addWithCarry t294.val (~~~p3) true) (ht312 : t312 = addWithCarry t289.val (~~~p2) true)
    (ht315 : t315 = addWithCarry t284.val (~~~p1) true) (ht320 : t320 = addWithCarry t279.val (~~~p0) true)
    (ht321 : t321 = addWithCarry t284.val (~~~p1) t320.c) (ht322 : t322 = addWithCarry t289.val (~~~p2) t321.c)
    (ht323 : t323 = addWithCarry t294.val (~~~p3) t322.c) (ht324 : t324 = addWithCarry t299.val (~~~p4) t323.c)
    (ht325 : t325 = addWithCarry t302.val (~~~p5) t324.c) (hb304 : (t303.c && !t303.z) = false)
    (hb305 : (!t303.c) = false) (hb307 : (t306.c && !t306.z) = false) (hb308 : (!t306.c) = false)
    (hb310 : (t309.c && !t309.z) = false) (hb311 : (!t309.c) = false) (hb313 : (t312.c && !t312.z) = false)
    (hb314 : (!t312.c) = false) (hb316 : (t315.c && !t315.z) = true)
    (hR2 : val (2 ^ 64) [t279.val.toNat, t284.val.toNat, t289.val.toNat, t294.val.toNat, t299.val.toNat, t302.val.toNat] < 2 * val (2 ^ 64) [p0.toNat, p1.toNat, p2.toNat, p3.toNat, p4.toNat, p5.toNat])
    (hRe : 2 ^ 384 * val (2 ^ 64) [t279.val.toNat, t284.val.toNat, t289.val.toNat, t294.val.toNat, t299.val.toNat, t302.val.toNat] = T + U * val (2 ^ 64) [p0.toNat, p1.toNat, p2.toNat, p3.toNat, p4.toNat, p5.toNat]) :
    ∃ s', run embedded_pairing_core_arch_aarch64_fpbase_384_square ({ x0 := pr, x1 := t270.val, x2 := l271, x3 := inv, x4 := p0, x5 := p1, x6 := p2, x7 := p3, x8 := s.x8, x9 := t168.val, x10 := t201.val, x11 := t234.val, x12 := t267.val, x13 := t300.val, x14 := t279.val, x15 := t284.val, x16 := s.x16, x17 := s.x17, x18 := s.x18, x19 := t289.val, x20 := t294.val, x21 := t299.val, x22 := t302.val, x23 := p4, x24 := p5, x25 := t293.val, x26 := l295, x27 := s.x27, x28 := s.x28, x29 := s.x29, x30 := s.x30, sp := s.sp - 16#64 - 16#64 - 16#64 - 16#64, nf := some t302.n, zf := some t302.z, cf := some t302.c, vf := some t302.v, mem := setMem (setMem (setMem (setMem (setMem (setMem (setMem (setMem (setMem (setMem (s.mem) (s.sp.toNat - 16) s.x19) (s.sp.toNat - 16 + 8) s.x20) (s.sp.toNat - 16 - 16) s.x21) (s.sp.toNat - 16 - 16 + 8) s.x22) (s.sp.toNat - 16 - 16 - 16) s.x23) (s.sp.toNat - 16 - 16 - 16 + 8) s.x24) (s.sp.toNat - 16 - 16 - 16 - 16) s.x25) (s.sp.toNat - 16 - 16 - 16 - 16 + 8) s.x26) (s.sp.toNat - 16 - 16 - 16 - 16 - 16) pp) (s.sp.toNat - 16 - 16 - 16 - 16 - 16 + 8) inv, readable := s.readable, writable := s.writable, pc := 303, status := .running } : State) 28 = s' ∧ Returned s s' ∧
      val (2 ^ 64) [(s'.mem pr.toNat).toNat, (s'.mem (pr.toNat + 8)).toNat, (s'.mem (pr.toNat + 16)).toNat, (s'.mem (pr.toNat + 24)).toNat, (s'.mem (pr.toNat + 32)).toNat, (s'.mem (pr.toNat + 40)).toNat] < val (2 ^ 64) [p0.toNat, p1.toNat, p2.toNat, p3.toNat, p4.toNat, p5.toNat] ∧
      (val (2 ^ 64) [(s'.mem pr.toNat).toNat, (s'.mem (pr.toNat + 8)).toNat, (s'.mem (pr.toNat + 16)).toNat, (s'.mem (pr.toNat + 24)).toNat, (s'.mem (pr.toNat + 32)).toNat, (s'.mem (pr.toNat + 40)).toNat] * 2 ^ 384) % val (2 ^ 64) [p0.toNat, p1.toNat, p2.toNat, p3.toNat, p4.toNat, p5.toNat] = T % val (2 ^ 64) [p0.toNat, p1.toNat, p2.toNat, p3.toNat, p4.toNat, p5.toNat] ∧
      (∀ k, ¬(pr.toNat ≤ k ∧ k < pr.toNat + 48) → ¬(s.sp.toNat - 80 ≤ k ∧ k < s.sp.toNat) → s'.mem k = s.mem k) := by
  have ir0 := (t279.val).isLt; have ip0 := (p0).isLt
  have ir1 := (t284.val).isLt; have ip1 := (p1).isLt
  have ir2 := (t289.val).isLt; have ip2 := (p2).isLt
  have ir3 := (t294.val).isLt; have ip3 := (p3).isLt
  have ir4 := (t299.val).isLt; have ip4 := (p4).isLt
  have ir5 := (t302.val).isLt; have ip5 := (p5).isLt
  have c5 := cmp_eq ht303 hb304 hb305
  have c4 := cmp_eq ht306 hb307 hb308
  have c3 := cmp_eq ht309 hb310 hb311
  have c2 := cmp_eq ht312 hb313 hb314
  have c1 := cmp_hi ht315 hb316
  have hle : val (2 ^ 64) [p0.toNat, p1.toNat, p2.toNat, p3.toNat, p4.toNat, p5.toNat] ≤ val (2 ^ 64) [t279.val.toNat, t284.val.toNat, t289.val.toNat, t294.val.toNat, t299.val.toNat, t302.val.toNat] := by
    simp only [val_cons, val_nil]
    clear * - c5 c4 c3 c2 c1 ir0 ip0 ir1 ip1 ir2 ip2 ir3 ip3 ir4 ip4 ir5 ip5
    omega
  have hs := sub6_val ht320 ht321 ht322 ht323 ht324 ht325
  simp only [Bool.not_true, Bool.toNat_false, Nat.add_zero] at hs
  have hres := X86.mont_result hR2 hRe (Or.inr (sub_no_borrow hs hle (X86.val6_lt t320.val t321.val t322.val t323.val t324.val t325.val)))
  have hq := fpsqr_tail_hi1 s pr pa pp inv hr ha hp hstk hrs has hps (t168 := t168) (t201 := t201) (t234 := t234) (t267 := t267) (t270 := t270) (t279 := t279) (t284 := t284) (t289 := t289) (t293 := t293) (t294 := t294) (t299 := t299) (t300 := t300) (t302 := t302) (t320 := t320) (t321 := t321) (t322 := t322) (t323 := t323) (t324 := t324) (t325 := t325) (p0 := p0) (p1 := p1) (p2 := p2) (p3 := p3) (p4 := p4) (p5 := p5) (l271 := l271) (l295 := l295) ht303 ht306 ht309 ht312 ht315 ht320 ht321 ht322 ht323 ht324 ht325 hb304 hb305 hb307 hb308 hb310 hb311 hb313 hb314 hb316
  obtain ⟨rr0, rr1, rr2, rr3, rr4, rr5⟩ := hr.r6
  obtain ⟨⟨alrr0, alrr1, alrr2, alrr3, alrr4, alrr5⟩, frr1, frr2, frr3, frr4, frr5⟩ := hr.addr6
  have room5 := (hstk.f5 (by omega)).1
  replace hrs := Hide.mk (And.intro room5 hrs)
  simp only [OffStack] at hrs
  refine ⟨_, hq, ⟨rfl, rfl, rfl, rfl, rfl, rfl, rfl, rfl, rfl, rfl, rfl, rfl, rfl, rfl, rfl⟩, ?_, ?_, ?_⟩
  · simp only; a64_mem; exact hres.1
  · simp only; a64_mem; exact hres.2
  · intro k hk1 hk2
    simp (disch := (clear * - hk1 hk2 room5; omega)) only [setMem_ne]

set_option maxHeartbeats 1600000 in
theorem fpsqr_tail_lo1 (s : State) (pr pa pp inv : Word)
    (hr : Buf s pr 6 true) (ha : Buf s pa 6 false) (hp : Buf s pp 6 false)
    (hstk : Stack s 5) (hrs : OffStack s 5 pr 6) (has : OffStack s 5 pa 6) (hps : OffStack s 5 pp 6) {p0 p1 p2 p3 p4 p5 l271 l295 : Word} {t168 t201 t234 t267 t270 t279 t284 t289 t293 t294 t299 t300 t302 t315 : ArithRes}
    (ht303 : t303 = addWithCarry t302.val (~~~p5) true) (ht306 : t306 = addWithCarry t299.val (~~~p4) true)
    (ht309 : t309 = addWithCarry t294.val (~~~p3) true) (ht312 : t312 = addWithCarry t289.val (~~~p2) true)
    (ht315 : t315 = addWithCarry t284.val (~~~p1) true) (hb304 : (t303.c && !t303.z) = false) (hb305 : (!t303.c) = false)
    (hb307 : (t306.c && !t306.z) = false) (hb308 : (!t306.c) = false) (hb310 : (t309.c && !t309.z) = false)
    (hb311 : (!t309.c) = false) (hb313 : (t312.c && !t312.z) = false) (hb314 : (!t312.c) = false)
    (hb316 : (t315.c && !t315.z) = false) (hb317 : (!t315.c) = true) :
    run embedded_pairing_core_arch_aarch64_fpbase_384_square ({ x0 := pr, x1 := t270.val, x2 := l271, x3 := inv, x4 := p0, x5 := p1, x6 := p2, x7 := p3, x8 := s.x8, x9 := t168.val, x10 := t201.val, x11 := t234.val, x12 := t267.val, x13 := t300.val, x14 := t279.val, x15 := t284.val, x16 := s.x16, x17 := s.x17, x18 := s.x18, x19 := t289.val, x20 := t294.val, x21 := t299.val, x22 := t302.val, x23 := p4, x24 := p5, x25 := t293.val, x26 := l295, x27 := s.x27, x28 := s.x28, x29 := s.x29, x30 := s.x30, sp := s.sp - 16#64 - 16#64 - 16#64 - 16#64, nf := some t302.n, zf := some t302.z, cf := some t302.c, vf := some t302.v, mem := setMem (setMem (setMem (setMem (setMem (setMem (setMem (setMem (setMem (setMem (s.mem) (s.sp.toNat - 16) s.x19) (s.sp.toNat - 16 + 8) s.x20) (s.sp.toNat - 16 - 16) s.x21) (s.sp.toNat - 16 - 16 + 8) s.x22) (s.sp.toNat - 16 - 16 - 16) s.x23) (s.sp.toNat - 16 - 16 - 16 + 8) s.x24) (s.sp.toNat - 16 - 16 - 16 - 16) s.x25) (s.sp.toNat - 16 - 16 - 16 - 16 + 8) s.x26) (s.sp.toNat - 16 - 16 - 16 - 16 - 16) pp) (s.sp.toNat - 16 - 16 - 16 - 16 - 16 + 8) inv, readable := s.readable, writable := s.writable, pc := 303, status := .running } : State) 23
      = ({ x0 := pr + 48#64, x1 := t270.val, x2 := l271, x3 := inv, x4 := p0, x5 := p1, x6 := p2, x7 := p3, x8 := s.x8, x9 := t168.val, x10 := t201.val, x11 := t234.val, x12 := t267.val, x13 := t300.val, x14 := t279.val, x15 := t284.val, x16 := s.x16, x17 := s.x17, x18 := s.x18, x19 := s.x19, x20 := s.x20, x21 := s.x21, x22 := s.x22, x23 := s.x23, x24 := s.x24, x25 := s.x25, x26 := s.x26, x27 := s.x27, x28 := s.x28, x29 := s.x29, x30 := s.x30, sp := s.sp, nf := some t315.n, zf := some t315.z, cf := some t315.c, vf := some t315.v, mem := setMem (setMem (setMem (setMem (setMem (setMem (setMem (setMem (setMem (setMem (setMem (setMem (setMem (setMem (setMem (setMem (s.mem) (s.sp.toNat - 16) s.x19) (s.sp.toNat - 16 + 8) s.x20) (s.sp.toNat - 16 - 16) s.x21) (s.sp.toNat - 16 - 16 + 8) s.x22) (s.sp.toNat - 16 - 16 - 16) s.x23) (s.sp.toNat - 16 - 16 - 16 + 8) s.x24) (s.sp.toNat - 16 - 16 - 16 - 16) s.x25) (s.sp.toNat - 16 - 16 - 16 - 16 + 8) s.x26) (s.sp.toNat - 16 - 16 - 16 - 16 - 16) pp) (s.sp.toNat - 16 - 16 - 16 - 16 - 16 + 8) inv) pr.toNat t279.val) (pr.toNat + 8) t284.val) (pr.toNat + 16) t289.val) (pr.toNat + 24) t294.val) (pr.toNat + 32) t299.val) (pr.toNat + 40) t302.val, readable := s.readable, writable := s.writable, pc := s.x30.toNat, status := .halted } : State) := by
  obtain ⟨ra0, ra1, ra2, ra3, ra4, ra5⟩ := ha.r6
  obtain ⟨⟨alra0, alra1, alra2, alra3, alra4, alra5⟩, fra1, fra2, fra3, fra4, fra5⟩ := ha.addr6
  obtain ⟨rp0, rp1, rp2, rp3, rp4, rp5⟩ := hp.r6
  obtain ⟨⟨alrp0, alrp1, alrp2, alrp3, alrp4, alrp5⟩, frp1, frp2, frp3, frp4, frp5⟩ := hp.addr6
  obtain ⟨rr0, rr1, rr2, rr3, rr4, rr5⟩ := hr.r6
  obtain ⟨wr0, wr1, wr2, wr3, wr4, wr5⟩ := hr.w6
  obtain ⟨⟨alrr0, alrr1, alrr2, alrr3, alrr4, alrr5⟩, frr1, frr2, frr3, frr4, frr5⟩ := hr.addr6
  have als0 := hstk.aligned
  obtain ⟨room1, als1, alq1a, alq1b, sr1a, sr1b, sw1a, sw1b⟩ := hstk.f1 (by omega)
  obtain ⟨room2, als2, alq2a, alq2b, sr2a, sr2b, sw2a, sw2b⟩ := hstk.f2 (by omega)
  obtain ⟨room3, als3, alq3a, alq3b, sr3a, sr3b, sw3a, sw3b⟩ := hstk.f3 (by omega)
  obtain ⟨room4, als4, alq4a, alq4b, sr4a, sr4b, sw4a, sw4b⟩ := hstk.f4 (by omega)
  obtain ⟨room5, als5, alq5a, alq5b, sr5a, sr5b, sw5a, sw5b⟩ := hstk.f5 (by omega)
  replace hrs := Hide.mk (And.intro room5 hrs); replace has := Hide.mk (And.intro room5 has)
  replace hps := Hide.mk (And.intro room5 hps)
  simp only [OffStack] at hrs has hps
  clear ha hp hr hstk
  a64_sym [← ht303, ← ht306, ← ht309, ← ht312, ← ht315, hb304, hb305, hb307, hb308, hb310, hb311, hb313, hb314, hb316, hb317]

set_option maxHeartbeats 1600000 in
set_option exponentiation.threshold 800 in
theorem fpsqr_end_lo1 (s : State) (pr pa pp inv : Word) {p0 p1 p2 p3 p4 p5 l271 l295 : Word} {t168 t201 t234 t267 t270 t279 t284 t289 t293 t294 t299 t300 t302 t315 : ArithRes} {T U : Nat}
    (hr : Buf s pr 6 true) (ha : Buf s pa 6 false) (hp : Buf s pp 6 false)
    (hstk : Stack s 5) (hrs : OffStack s 5 pr 6) (has : OffStack s 5 pa 6) (hps : OffStack s 5 pp 6)
    (ht303 : t303 = addWithCarry t302.val (~~~p5) true) (ht306 : t306 = addWithCarry t299.val (~~~p4) true)
    (ht309 : t309 = addWithCarry t294.val (~~~p3) true) (ht312 : t312 = addWithCarry t289.val (~~~p2) true)
    (ht315 : t315 = addWithCarry t284.val (~~~p1) true) (hb304 : (t303.c && !t303.z) = false) (hb305 : (!t303.c) = false)
    (hb307 : (t306.c && !t306.z) = false) (hb308 : (!t306.c) = false) (hb310 : (t309.c && !t309.z) = false)
    (hb311 : (!t309.c) = false) (hb313 : (t312.c && !t312.z) = false) (hb314 : (!t312.c) = false)
    (hb316 : (t315.c && !t315.z) = false) (hb317 : (!t315.c) = true)
    (hR2 : val (2 ^ 64) [t279.val.toNat, t284.val.toNat, t289.val.toNat, t294.val.toNat, t299.val.toNat, t302.val.toNat] < 2 * val (2 ^ 64) [p0.toNat, p1.toNat, p2.toNat, p3.toNat, p4.toNat, p5.toNat])
    (hRe : 2 ^ 384 * val (2 ^ 64) [t279.val.toNat, t284.val.toNat, t289.val.toNat, t294.val.toNat, t299.val.toNat, t302.val.toNat] = T + U * val (2 ^ 64) [p0.toNat, p1.toNat, p2.toNat, p3.toNat, p4.toNat, p5.toNat]) :
    ∃ s', run embedded_pairing_core_arch_aarch64_fpbase_384_square ({ x0 := pr, x1 := t270.val, x2 := l271, x3 := inv, x4 := p0, x5 := p1, x6 := p2, x7 := p3, x8 := s.x8, x9 := t168.val, x10 := t201.val, x11 := t234.val, x12 := t267.val, x13 := t300.val, x14 := t279.val, x15 := t284.val, x16 := s.x16, x17 := s.x17, x18 := s.x18, x19 := t289.val, x20 := t294.val, x21 := t299.val, x22 := t302.val, x23 := p4, x24 := p5, x25 := t293.val, x26 := l295, x27 := s.x27, x28 := s.x28, x29 := s.x29, x30 := s.x30, sp := s.sp - 16#64 - 16#64 - 16#64 - 16#64, nf := some t302.n, zf := some t302.z, cf := some t302.c, vf := some t302.v, mem := setMem (setMem (setMem (setMem (setMem (setMem (setMem (setMem (setMem (setMem (s.mem) (s.sp.toNat - 16) s.x19) (s.sp.toNat - 16 + 8) s.x20) (s.sp.toNat - 16 - 16) s.x21) (s.sp.toNat - 16 - 16 + 8) s.x22) (s.sp.toNat - 16 - 16 - 16) s.x23) (s.sp.toNat - 16 - 16 - 16 + 8) s.x24) (s.sp.toNat - 16 - 16 - 16 - 16) s.x25) (s.sp.toNat - 16 - 16 - 16 - 16 + 8) s.x26) (s.sp.toNat - 16 - 16 - 16 - 16 - 16) pp) (s.sp.toNat - 16 - 16 - 16 - 16 - 16 + 8) inv, readable := s.readable, writable := s.writable, pc := 303, status := .running } : State) 23 = s' ∧ Returned s s' ∧
      val (2 ^ 64) [(s'.mem pr.toNat).toNat, (s'.mem (pr.toNat + 8)).toNat, (s'.mem (pr.toNat + 16)).toNat, (s'.mem (pr.toNat + 24)).toNat, (s'.mem (pr.toNat + 32)).toNat, (s'.mem (pr.toNat + 40)).toNat] < val (2 ^ 64) [p0.toNat, p1.toNat, p2.toNat, p3.toNat, p4.toNat, p5.toNat] ∧
      (val (2 ^ 64) [(s'.mem pr.toNat).toNat, (s'.mem (pr.toNat + 8)).toNat, (s'.mem (pr.toNat + 16)).toNat, (s'.mem (pr.toNat + 24)).toNat, (s'.mem (pr.toNat + 32)).toNat, (s'.mem (pr.toNat + 40)).toNat] * 2 ^ 384) % val (2 ^ 64) [p0.toNat, p1.toNat, p2.toNat, p3.toNat, p4.toNat, p5.toNat] = T % val (2 ^ 64) [p0.toNat, p1.toNat, p2.toNat, p3.toNat, p4.toNat, p5.toNat] ∧
      (∀ k, ¬(pr.toNat ≤ k ∧ k < pr.toNat + 48) → ¬(s.sp.toNat - 80 ≤ k ∧ k < s.sp.toNat) → s'.mem k = s.mem k) := by
  have ir0 := (t279.val).isLt; have ip0 := (p0).isLt
  have ir1 := (t284.val).isLt; have ip1 := (p1).isLt
  have ir2 := (t289.val).isLt; have ip2 := (p2).isLt
  have ir3 := (t294.val).isLt; have ip3 := (p3).isLt
  have ir4 := (t299.val).isLt; have ip4 := (p4).isLt
  have ir5 := (t302.val).isLt; have ip5 := (p5).isLt
  have c5 := cmp_eq ht303 hb304 hb305
  have c4 := cmp_eq ht306 hb307 hb308
  have c3 := cmp_eq ht309 hb310 hb311
  have c2 := cmp_eq ht312 hb313 hb314
  have c1 := cmp_lo ht315 hb317
  have hlt : val (2 ^ 64) [t279.val.toNat, t284.val.toNat, t289.val.toNat, t294.val.toNat, t299.val.toNat, t302.val.toNat] < val (2 ^ 64) [p0.toNat, p1.toNat, p2.toNat, p3.toNat, p4.toNat, p5.toNat] := by
    simp only [val_cons, val_nil]
    clear * - c5 c4 c3 c2 c1 ir0 ip0 ir1 ip1 ir2 ip2 ir3 ip3 ir4 ip4 ir5 ip5
    omega
  have hres := X86.mont_result hR2 hRe (Or.inl ⟨rfl, hlt⟩)
  have hq := fpsqr_tail_lo1 s pr pa pp inv hr ha hp hstk hrs has hps (t168 := t168) (t201 := t201) (t234 := t234) (t267 := t267) (t270 := t270) (t279 := t279) (t284 := t284) (t289 := t289) (t293 := t293) (t294 := t294) (t299 := t299) (t300 := t300) (t302 := t302) (t315 := t315) (p0 := p0) (p1 := p1) (p2 := p2) (p3 := p3) (p4 := p4) (p5 := p5) (l271 := l271) (l295 := l295) ht303 ht306 ht309 ht312 ht315 hb304 hb305 hb307 hb308 hb310 hb311 hb313 hb314 hb316 hb317
  obtain ⟨rr0, rr1, rr2, rr3, rr4, rr5⟩ := hr.r6
  obtain ⟨⟨alrr0, alrr1, alrr2, alrr3, alrr4, alrr5⟩, frr1, frr2, frr3, frr4, frr5⟩ := hr.addr6
  have room5 := (hstk.f5 (by omega)).1
  replace hrs := Hide.mk (And.intro room5 hrs)
  simp only [OffStack] at hrs
  refine ⟨_, hq, ⟨rfl, rfl, rfl, rfl, rfl, rfl, rfl, rfl, rfl, rfl, rfl, rfl, rfl, rfl, rfl⟩, ?_, ?_, ?_⟩
  · simp only; a64_mem; exact hres.1
  · simp only; a64_mem; exact hres.2
  · intro k hk1 hk2
    simp (disch := (clear * - hk1 hk2 room5; omega)) only [setMem_ne]

set_option maxHeartbeats 1600000 in
theorem fpsqr_tail_lo0 (s : State) (pr pa pp inv : Word)
    (hr : Buf s pr 6 true) (ha : Buf s pa 6 false) (hp : Buf s pp 6 false)
    (hstk : Stack s 5) (hrs : OffStack s 5 pr 6) (has : OffStack s 5 pa 6) (hps : OffStack s 5 pp 6) {p0 p1 p2 p3 p4 p5 l271 l295 : Word} {t168 t201 t234 t267 t270 t279 t284 t289 t293 t294 t299 t300 t302 t318 : ArithRes}
    (ht303 : t303 = addWithCarry t302.val (~~~p5) true) (ht306 : t306 = addWithCarry t299.val (~~~p4) true)
    (ht309 : t309 = addWithCarry t294.val (~~~p3) true) (ht312 : t312 = addWithCarry t289.val (~~~p2) true)
    (ht315 : t315 = addWithCarry t284.val (~~~p1) true) (ht318 : t318 = addWithCarry t279.val (~~~p0) true)
    (hb304 : (t303.c && !t303.z) = false) (hb305 : (!t303.c) = false) (hb307 : (t306.c && !t306.z) = false)
    (hb308 : (!t306.c) = false) (hb310 : (t309.c && !t309.z) = false) (hb311 : (!t309.c) = false)
    (hb313 : (t312.c && !t312.z) = false) (hb314 : (!t312.c) = false) (hb316 : (t315.c && !t315.z) = false)
    (hb317 : (!t315.c) = false) (hb319 : (!t318.c) = true) :
    run embedded_pairing_core_arch_aarch64_fpbase_384_square ({ x0 := pr, x1 := t270.val, x2 := l271, x3 := inv, x4 := p0, x5 := p1, x6 := p2, x7 := p3, x8 := s.x8, x9 := t168.val, x10 := t201.val, x11 := t234.val, x12 := t267.val, x13 := t300.val, x14 := t279.val, x15 := t284.val, x16 := s.x16, x17 := s.x17, x18 := s.x18, x19 := t289.val, x20 := t294.val, x21 := t299.val, x22 := t302.val, x23 := p4, x24 := p5, x25 := t293.val, x26 := l295, x27 := s.x27, x28 := s.x28, x29 := s.x29, x30 := s.x30, sp := s.sp - 16#64 - 16#64 - 16#64 - 16#64, nf := some t302.n, zf := some t302.z, cf := some t302.c, vf := some t302.v, mem := setMem (setMem (setMem (setMem (setMem (setMem (setMem (setMem (setMem (setMem (s.mem) (s.sp.toNat - 16) s.x19) (s.sp.toNat - 16 + 8) s.x20) (s.sp.toNat - 16 - 16) s.x21) (s.sp.toNat - 16 - 16 + 8) s.x22) (s.sp.toNat - 16 - 16 - 16) s.x23) (s.sp.toNat - 16 - 16 - 16 + 8) s.x24) (s.sp.toNat - 16 - 16 - 16 - 16) s.x25) (s.sp.toNat - 16 - 16 - 16 - 16 + 8) s.x26) (s.sp.toNat - 16 - 16 - 16 - 16 - 16) pp) (s.sp.toNat - 16 - 16 - 16 - 16 - 16 + 8) inv, readable := s.readable, writable := s.writable, pc := 303, status := .running } : State) 25
      = ({ x0 := pr + 48#64, x1 := t270.val, x2 := l271, x3 := inv, x4 := p0, x5 := p1, x6 := p2, x7 := p3, x8 := s.x8, x9 := t168.val, x10 := t201.val, x11 := t234.val, x12 := t267.val, x13 := t300.val, x14 := t279.val, x15 := t284.val, x16 := s.x16, x17 := s.x17, x18 := s.x18, x19 := s.x19, x20 := s.x20, x21 := s.x21, x22 := s.x22, x23 := s.x23, x24 := s.x24, x25 := s.x25, x26 := s.x26, x27 := s.x27, x28 := s.x28, x29 := s.x29, x30 := s.x30, sp := s.sp, nf := some t318.n, zf := some t318.z, cf := some t318.c, vf := some t318.v, mem := setMem (setMem (setMem (setMem (setMem (setMem (setMem (setMem (setMem (setMem (setMem (setMem (setMem (setMem (setMem (setMem (s.mem) (s.sp.toNat - 16) s.x19) (s.sp.toNat - 16 + 8) s.x20) (s.sp.toNat - 16 - 16) s.x21) (s.sp.toNat - 16 - 16 + 8) s.x22) (s.sp.toNat - 16 - 16 - 16) s.x23) (s.sp.toNat - 16 - 16 - 16 + 8) s.x24) (s.sp.toNat - 16 - 16 - 16 - 16) s.x25) (s.sp.toNat - 16 - 16 - 16 - 16 + 8) s.x26) (s.sp.toNat - 16 - 16 - 16 - 16 - 16) pp) (s.sp.toNat - 16 - 16 - 16 - 16 - 16 + 8) inv) pr.toNat t279.val) (pr.toNat + 8) t284.val) (pr.toNat + 16) t289.val) (pr.toNat + 24) t294.val) (pr.toNat + 32) t299.val) (pr.toNat + 40) t302.val, readable := s.readable, writable := s.writable, pc := s.x30.toNat, status := .halted } : State) := by
  obtain ⟨ra0, ra1, ra2, ra3, ra4, ra5⟩ := ha.r6
  obtain ⟨⟨alra0, alra1, alra2, alra3, alra4, alra5⟩, fra1, fra2, fra3, fra4, fra5⟩ := ha.addr6
  obtain ⟨rp0, rp1, rp2, rp3, rp4, rp5⟩ := hp.r6
  obtain ⟨⟨alrp0, alrp1, alrp2, alrp3, alrp4, alrp5⟩, frp1, frp2, frp3, frp4, frp5⟩ := hp.addr6
  obtain ⟨rr0, rr1, rr2, rr3, rr4, rr5⟩ := hr.r6
  obtain ⟨wr0, wr1, wr2, wr3, wr4, wr5⟩ := hr.w6
  obtain ⟨⟨alrr0, alrr1, alrr2, alrr3, alrr4, alrr5⟩, frr1, frr2, frr3, frr4, frr5⟩ := hr.addr6
  have als0 := hstk.aligned
  obtain ⟨room1, als1, alq1a, alq1b, sr1a, sr1b, sw1a, sw1b⟩ := hstk.f1 (by omega)
  obtain ⟨room2, als2, alq2a, alq2b, sr2a, sr2b, sw2a, sw2b⟩ := hstk.f2 (by omega)
  obtain ⟨room3, als3, alq3a, alq3b, sr3a, sr3b, sw3a, sw3b⟩ := hstk.f3 (by omega)
  obtain ⟨room4, als4, alq4a, alq4b, sr4a, sr4b, sw4a, sw4b⟩ := hstk.f4 (by omega)
  obtain ⟨room5, als5, alq5a, alq5b, sr5a, sr5b, sw5a, sw5b⟩ := hstk.f5 (by omega)
  replace hrs := Hide.mk (And.intro room5 hrs); replace has := Hide.mk (And.intro room5 has)
  replace hps := Hide.mk (And.intro room5 hps)
  simp only [OffStack] at hrs has hps
  clear ha hp hr hstk
  a64_sym [← ht303, ← ht306, ← ht309, ← ht312, ← ht315, ← ht318, hb304, hb305, hb307, hb308, hb310, hb311, hb313, hb314, hb316, hb317, hb319]

set_option maxHeartbeats 1600000 in
set_option exponentiation.threshold 800 in
theorem fpsqr_end_lo0 (s : State) (pr pa pp inv : Word) {p0 p1 p2 p3 p4 p5 l271 l295 : Word} {t168 t201 t234 t267 t270 t279 t284 t289 t293 t294 t299 t300 t302 t318 : ArithRes} {T U : Nat}
    (hr : Buf s pr 6 true) (ha : Buf s pa 6 false) (hp : Buf s pp 6 false)
    (hstk : Stack s 5) (hrs : OffStack s 5 pr 6) (has : OffStack s 5 pa 6) (hps : OffStack s 5 pp 6)
    (ht303 : t303 = addWithCarry t302.val (~~~p5) true) (ht306 : t306 = addWithCarry t299.val (~~~p4) true)
    (ht309 : t309 = addWithCarry t294.val (~~~p3) true) (ht312 : t312 = addWithCarry t289.val (~~~p2) true)
    (ht315 : t315 = addWithCarry t284.val (~~~p1) true) (ht318 : t318 = addWithCarry t279.val (~~~p0) true)
    (hb304 : (t303.c && !t303.z) = false) (hb305 : (!t303.c) = false) (hb307 : (t306.c && !t306.z) = false)
    (hb308 : (!t306.c) = false) (hb310 : (t309.c && !t309.z) = false) (hb311 : (!t309.c) = false)
    (hb313 : (t312.c && !t312.z) = false) (hb314 : (!t312.c) = false) (hb316 : (t315.c && !t315.z) = false)
    (hb317 : (!t315.c) = false) (hb319 : (!t318.c) = true)
    (hR2 : val (2 ^ 64) [t279.val.toNat, t284.val.toNat, t289.val.toNat, t294.val.toNat, t299.val.toNat, t302.val.toNat] < 2 * val (2 ^ 64) [p0.toNat, p1.toNat, p2.toNat, p3.toNat, p4.toNat, p5.toNat])
    (hRe : 2 ^ 384 * val (2 ^ 64) [t279.val.toNat, t284.val.toNat, t289.val.toNat, t294.val.toNat, t299.val.toNat, t302.val.toNat] = T + U * val (2 ^ 64) [p0.toNat, p1.toNat, p2.toNat, p3.toNat, p4.toNat, p5.toNat]) :
    ∃ s', run embedded_pairing_core_arch_aarch64_fpbase_384_square ({ x0 := pr, x1 := t270.val, x2 := l271, x3 := inv, x4 := p0, x5 := p1, x6 := p2, x7 := p3, x8 := s.x8, x9 := t168.val, x10 := t201.val, x11 := t234.val, x12 := t267.val, x13 := t300.val, x14 := t279.val, x15 := t284.val, x16 := s.x16, x17 := s.x17, x18 := s.x18, x19 := t289.val, x20 := t294.val, x21 := t299.val, x22 := t302.val, x23 := p4, x24 := p5, x25 := t293.val, x26 := l295, x27 := s.x27, x28 := s.x28, x29 := s.x29, x30 := s.x30, sp := s.sp - 16#64 - 16#64 - 16#64 - 16#64, nf := some t302.n, zf := some t302.z, cf := some t302.c, vf := some t302.v, mem := setMem (setMem (setMem (setMem (setMem (setMem (setMem (setMem (setMem (setMem (s.mem) (s.sp.toNat - 16) s.x19) (s.sp.toNat - 16 + 8) s.x20) (s.sp.toNat - 16 - 16) s.x21) (s.sp.toNat - 16 - 16 + 8) s.x22) (s.sp.toNat - 16 - 16 - 16) s.x23) (s.sp.toNat - 16 - 16 - 16 + 8) s.x24) (s.sp.toNat - 16 - 16 - 16 - 16) s.x25) (s.sp.toNat - 16 - 16 - 16 - 16 + 8) s.x26) (s.sp.toNat - 16 - 16 - 16 - 16 - 16) pp) (s.sp.toNat - 16 - 16 - 16 - 16 - 16 + 8) inv, readable := s.readable, writable := s.writable, pc := 303, status := .running } : State) 25 = s' ∧ Returned s s' ∧
      val (2 ^ 64) [(s'.mem pr.toNat).toNat, (s'.mem (pr.toNat + 8)).toNat, (s'.mem (pr.toNat + 16)).toNat, (s'.mem (pr.toNat + 24)).toNat, (s'.mem (pr.toNat + 32)).toNat, (s'.mem (pr.toNat + 40)).toNat] < val (2 ^ 64) [p0.toNat, p1.toNat, p2.toNat, p3.toNat, p4.toNat, p5.toNat] ∧
      (val (2 ^ 64) [(s'.mem pr.toNat).toNat, (s'.mem (pr.toNat + 8)).toNat, (s'.mem (pr.toNat + 16)).toNat, (s'.mem (pr.toNat + 24)).toNat, (s'.mem (pr.toNat + 32)).toNat, (s'.mem (pr.toNat + 40)).toNat] * 2 ^ 384) % val (2 ^ 64) [p0.toNat, p1.toNat, p2.toNat, p3.toNat, p4.toNat, p5.toNat] = T % val (2 ^ 64) [p0.toNat, p1.toNat, p2.toNat, p3.toNat, p4.toNat, p5.toNat] ∧
      (∀ k, ¬(pr.toNat ≤ k ∧ k < pr.toNat + 48) → ¬(s.sp.toNat - 80 ≤ k ∧ k < s.sp.toNat) → s'.mem k = s.mem k) := by
  have ir0 := (t279.val).isLt; have ip0 := (p0).isLt
  have ir1 := (t284.val).isLt; have ip1 := (p1).isLt
  have ir2 := (t289.val).isLt; have ip2 := (p2).isLt
  have ir3 := (t294.val).isLt; have ip3 := (p3).isLt
  have ir4 := (t299.val).isLt; have ip4 := (p4).isLt
  have ir5 := (t302.val).isLt; have ip5 := (p5).isLt
  have c5 := cmp_eq ht303 hb304 hb305
  have c4 := cmp_eq ht306 hb307 hb308
  have c3 := cmp_eq ht309 hb310 hb311
  have c2 := cmp_eq ht312 hb313 hb314
  have c1 := cmp_eq ht315 hb316 hb317
  have c0 := cmp_lo ht318 hb319
  have hlt : val (2 ^ 64) [t279.val.toNat, t284.val.toNat, t289.val.toNat, t294.val.toNat, t299.val.toNat, t302.val.toNat] < val (2 ^ 64) [p0.toNat, p1.toNat, p2.toNat, p3.toNat, p4.toNat, p5.toNat] := by
    simp only [val_cons, val_nil]
    clear * - c5 c4 c3 c2 c1 c0 ir0 ip0 ir1 ip1 ir2 ip2 ir3 ip3 ir4 ip4 ir5 ip5
    omega
  have hres := X86.mont_result hR2 hRe (Or.inl ⟨rfl, hlt⟩)
  have hq := fpsqr_tail_lo0 s pr pa pp inv hr ha hp hstk hrs has hps (t168 := t168) (t201 := t201) (t234 := t234) (t267 := t267) (t270 := t270) (t279 := t279) (t284 := t284) (t289 := t289) (t293 := t293) (t294 := t294) (t299 := t299) (t300 := t300) (t302 := t302) (t318 := t318) (p0 := p0) (p1 := p1) (p2 := p2) (p3 := p3) (p4 := p4) (p5 := p5) (l271 := l271) (l295 := l295) ht303 ht306 ht309 ht312 ht315 ht318 hb304 hb305 hb307 hb308 hb310 hb311 hb313 hb314 hb316 hb317 hb319
  obtain ⟨rr0, rr1, rr2, rr3, rr4, rr5⟩ := hr.r6
  obtain ⟨⟨alrr0, alrr1, alrr2, alrr3, alrr4, alrr5⟩, frr1, frr2, frr3, frr4, frr5⟩ := hr.addr6
  have room5 := (hstk.f5 (by omega)).1
  replace hrs := Hide.mk (And.intro room5 hrs)
  simp only [OffStack] at hrs
  refine ⟨_, hq, ⟨rfl, rfl, rfl, rfl, rfl, rfl, rfl, rfl, rfl, rfl, rfl, rfl, rfl, rfl, rfl⟩, ?_, ?_, ?_⟩
  · simp only; a64_mem; exact hres.1
  · simp only; a64_mem; exact hres.2
  · intro k hk1 hk2
    simp (disch := (clear * - hk1 hk2 room5; omega)) only [setMem_ne]

set_option maxHeartbeats 1600000 in
theorem fpsqr_tail_hs0 (s : State) (pr pa pp inv : Word)
    (hr : Buf s pr 6 true) (ha : Buf s pa 6 false) (hp : Buf s pp 6 false)
    (hstk : Stack s 5) (hrs : OffStack s 5 pr 6) (has : OffStack s 5 pa 6) (hps : OffStack s 5 pp 6) {p0 p1 p2 p3 p4 p5 l271 l295 : Word} {t168 t201 t234 t267 t270 t279 t284 t289 t293 t294 t299 t300 t302 t318 t321e t322e t323e t324e t325e : ArithRes}
    (ht303 : t303 = addWithCarry t302.val (~~~p5) true) (ht306 : t306 = addWithCarry t299.val (~~~p4) true)
    (ht309 : t309 = addWithCarry t294.val (~~~p3) true) (ht312 : t312 = addWithCarry t289.val (~~~p2) true)
    (ht315 : t315 = addWithCarry t284.val (~~~p1) true) (ht318 : t318 = addWithCarry t279.val (~~~p0) true)
    (ht321e : t321e = addWithCarry t284.val (~~~p1) t318.c) (ht322e : t322e = addWithCarry t289.val (~~~p2) t321e.c)
    (ht323e : t323e = addWithCarry t294.val (~~~p3) t322e.c) (ht324e : t324e = addWithCarry t299.val (~~~p4) t323e.c)
    (ht325e : t325e = addWithCarry t302.val (~~~p5) t324e.c) (hb304 : (t303.c && !t303.z) = false)
    (hb305 : (!t303.c) = false) (hb307 : (t306.c && !t306.z) = false) (hb308 : (!t306.c) = false)
    (hb310 : (t309.c && !t309.z) = false) (hb311 : (!t309.c) = false) (hb313 : (t312.c && !t312.z) = false)
    (hb314 : (!t312.c) = false) (hb316 : (t315.c && !t315.z) = false) (hb317 : (!t315.c) = false)
    (hb319 : (!t318.c) = false) :
    run embedded_pairing_core_arch_aarch64_fpbase_384_square ({ x0 := pr, x1 := t270.val, x2 := l271, x3 := inv, x4 := p0, x5 := p1, x6 := p2, x7 := p3, x8 := s.x8, x9 := t168.val, x10 := t201.val, x11 := t234.val, x12 := t267.val, x13 := t300.val, x14 := t279.val, x15 := t284.val, x16 := s.x16, x17 := s.x17, x18 := s.x18, x19 := t289.val, x20 := t294.val, x21 := t299.val, x22 := t302.val, x23 := p4, x24 := p5, x25 := t293.val, x26 := l295, x27 := s.x27, x28 := s.x28, x29 := s.x29, x30 := s.x30, sp := s.sp - 16#64 - 16#64 - 16#64 - 16#64, nf := some t302.n, zf := some t302.z, cf := some t302.c, vf := some t302.v, mem := setMem (setMem (setMem (setMem (setMem (setMem (setMem (setMem (setMem (setMem (s.mem) (s.sp.toNat - 16) s.x19) (s.sp.toNat - 16 + 8) s.x20) (s.sp.toNat - 16 - 16) s.x21) (s.sp.toNat - 16 - 16 + 8) s.x22) (s.sp.toNat - 16 - 16 - 16) s.x23) (s.sp.toNat - 16 - 16 - 16 + 8) s.x24) (s.sp.toNat - 16 - 16 - 16 - 16) s.x25) (s.sp.toNat - 16 - 16 - 16 - 16 + 8) s.x26) (s.sp.toNat - 16 - 16 - 16 - 16 - 16) pp) (s.sp.toNat - 16 - 16 - 16 - 16 - 16 + 8) inv, readable := s.readable, writable := s.writable, pc := 303, status := .running } : State) 31
      = ({ x0 := pr + 48#64, x1 := t270.val, x2 := l271, x3 := inv, x4 := p0, x5 := p1, x6 := p2, x7 := p3, x8 := s.x8, x9 := t168.val, x10 := t201.val, x11 := t234.val, x12 := t267.val, x13 := t300.val, x14 := t318.val, x15 := t321e.val, x16 := s.x16, x17 := s.x17, x18 := s.x18, x19 := s.x19, x20 := s.x20, x21 := s.x21, x22 := s.x22, x23 := s.x23, x24 := s.x24, x25 := s.x25, x26 := s.x26, x27 := s.x27, x28 := s.x28, x29 := s.x29, x30 := s.x30, sp := s.sp, nf := some t325e.n, zf := some t325e.z, cf := some t325e.c, vf := some t325e.v, mem := setMem (setMem (setMem (setMem (setMem (setMem (setMem (setMem (setMem (setMem (setMem (setMem (setMem (setMem (setMem (setMem (s.mem) (s.sp.toNat - 16) s.x19) (s.sp.toNat - 16 + 8) s.x20) (s.sp.toNat - 16 - 16) s.x21) (s.sp.toNat - 16 - 16 + 8) s.x22) (s.sp.toNat - 16 - 16 - 16) s.x23) (s.sp.toNat - 16 - 16 - 16 + 8) s.x24) (s.sp.toNat - 16 - 16 - 16 - 16) s.x25) (s.sp.toNat - 16 - 16 - 16 - 16 + 8) s.x26) (s.sp.toNat - 16 - 16 - 16 - 16 - 16) pp) (s.sp.toNat - 16 - 16 - 16 - 16 - 16 + 8) inv) pr.toNat t318.val) (pr.toNat + 8) t321e.val) (pr.toNat + 16) t322e.val) (pr.toNat + 24) t323e.val) (pr.toNat + 32) t324e.val) (pr.toNat + 40) t325e.val, readable := s.readable, writable := s.writable, pc := s.x30.toNat, status := .halted } : State) := by
  obtain ⟨ra0, ra1, ra2, ra3, ra4, ra5⟩ := ha.r6
  obtain ⟨⟨alra0, alra1, alra2, alra3, alra4, alra5⟩, fra1, fra2, fra3, fra4, fra5⟩ := ha.addr6
  obtain ⟨rp0, rp1, rp2, rp3, rp4, rp5⟩ := hp.r6
  obtain ⟨⟨alrp0, alrp1, alrp2, alrp3, alrp4, alrp5⟩, frp1, frp2, frp3, frp4, frp5⟩ := hp.addr6
  obtain ⟨rr0, rr1, rr2, rr3, rr4, rr5⟩ := hr.r6
  obtain ⟨wr0, wr1, wr2, wr3, wr4, wr5⟩ := hr.w6
  obtain ⟨⟨alrr0, alrr1, alrr2, alrr3, alrr4, alrr5⟩, frr1, frr2, frr3, frr4, frr5⟩ := hr.addr6
  have als0 := hstk.aligned
  obtain ⟨room1, als1, alq1a, alq1b, sr1a, sr1b, sw1a, sw1b⟩ := hstk.f1 (by omega)
  obtain ⟨room2, als2, alq2a, alq2b, sr2a, sr2b, sw2a, sw2b⟩ := hstk.f2 (by omega)
  obtain ⟨room3, als3, alq3a, alq3b, sr3a, sr3b, sw3a, sw3b⟩ := hstk.f3 (by omega)
  obtain ⟨room4, als4, alq4a, alq4b, sr4a, sr4b, sw4a, sw4b⟩ := hstk.f4 (by omega)
  obtain ⟨room5, als5, alq5a, alq5b, sr5a, sr5b, sw5a, sw5b⟩ := hstk.f5 (by omega)
  replace hrs := Hide.mk (And.intro room5 hrs); replace has := Hide.mk (And.intro room5 has)
  replace hps := Hide.mk (And.intro room5 hps)
  simp only [OffStack] at hrs has hps
  clear ha hp hr hstk
  a64_sym [← ht303, ← ht306, ← ht309, ← ht312, ← ht315, ← ht318, ← ht321e, ← ht322e, ← ht323e, ← ht324e, ← ht325e, hb304, hb305, hb307, hb308, hb310, hb311, hb313, hb314, hb316, hb317, hb319]

set_option maxHeartbeats 1600000 in
set_option exponentiation.threshold 800 in
theorem fpsqr_end_hs0 (s : State) (pr pa pp inv : Word) {p0 p1 p2 p3 p4 p5 l271 l295 : Word} {t168 t201 t234 t267 t270 t279 t284 t289 t293 t294 t299 t300 t302 t318 t321e t322e t323e t324e t325e : ArithRes} {T U : Nat}
    (hr : Buf s pr 6 true) (ha : Buf s pa 6 false) (hp : Buf s pp 6 false)
    (hstk : Stack s 5) (hrs : OffStack s 5 pr 6) (has : OffStack s 5 pa 6) (hps : OffStack s 5 pp 6)
    (ht303 : t303 = addWithCarry t302.val (~~~p5) true) (ht306 : t306 = addWithCarry t299.val (~~~p4) true)
    (ht309 : t309 = addWithCarry t294.val (~~~p3) true) (ht312 : t312 = addWithCarry t289.val (~~~p2) true)
    (ht315 : t315 = addWithCarry t284.val (~~~p1) true) (ht318 : t318 = addWithCarry t279.val (~~~p0) true)
    (ht321e : t321e = addWithCarry t284.val (~~~p1) t318.c) (ht322e : t322e = addWithCarry t289.val (~~~p2) t321e.c)
    (ht323e : t323e = addWithCarry t294.val (~~~p3) t322e.c) (ht324e : t324e = addWithCarry t299.val (~~~p4) t323e.c)
    (ht325e : t325e = addWithCarry t302.val (~~~p5) t324e.c) (hb304 : (t303.c && !t303.z) = false)
    (hb305 : (!t303.c) = false) (hb307 : (t306.c && !t306.z) = false) (hb308 : (!t306.c) = false)
    (hb310 : (t309.c && !t309.z) = false) (hb311 : (!t309.c) = false) (hb313 : (t312.c && !t312.z) = false)
    (hb314 : (!t312.c) = false) (hb316 : (t315.c && !t315.z) = false) (hb317 : (!t315.c) = false)
    (hb319 : (!t318.c) = false)
    (hR2 : val (2 ^ 64) [t279.val.toNat, t284.val.toNat, t289.val.toNat, t294.val.toNat, t299.val.toNat, t302.val.toNat] < 2 * val (2 ^ 64) [p0.toNat, p1.toNat, p2.toNat, p3.toNat, p4.toNat, p5.toNat])
    (hRe : 2 ^ 384 * val (2 ^ 64) [t279.val.toNat, t284.val.toNat, t289.val.toNat, t294.val.toNat, t299.val.toNat, t302.val.toNat] = T + U * val (2 ^ 64) [p0.toNat, p1.toNat, p2.toNat, p3.toNat, p4.toNat, p5.toNat]) :
    ∃ s', run embedded_pairing_core_arch_aarch64_fpbase_384_square ({ x0 := pr, x1 := t270.val, x2 := l271, x3 := inv, x4 := p0, x5 := p1, x6 := p2, x7 := p3, x8 := s.x8, x9 := t168.val, x10 := t201.val, x11 := t234.val, x12 := t267.val, x13 := t300.val, x14 := t279.val, x15 := t284.val, x16 := s.x16, x17 := s.x17, x18 := s.x18, x19 := t289.val, x20 := t294.val, x21 := t299.val, x22 := t302.val, x23 := p4, x24 := p5, x25 := t293.val, x26 := l295, x27 := s.x27, x28 := s.x28, x29 := s.x29, x30 := s.x30, sp := s.sp - 16#64 - 16#64 - 16#64 - 16#64, nf := some t302.n, zf := some t302.z, cf := some t302.c, vf := some t302.v, mem := setMem (setMem (setMem (setMem (setMem (setMem (setMem (setMem (setMem (setMem (s.mem) (s.sp.toNat - 16) s.x19) (s.sp.toNat - 16 + 8) s.x20) (s.sp.toNat - 16 - 16) s.x21) (s.sp.toNat - 16 - 16 + 8) s.x22) (s.sp.toNat - 16 - 16 - 16) s.x23) (s.sp.toNat - 16 - 16 - 16 + 8) s.x24) (s.sp.toNat - 16 - 16 - 16 - 16) s.x25) (s.sp.toNat - 16 - 16 - 16 - 16 + 8) s.x26) (s.sp.toNat - 16 - 16 - 16 - 16 - 16) pp) (s.sp.toNat - 16 - 16 - 16 - 16 - 16 + 8) inv, readable := s.readable, writable := s.writable, pc := 303, status := .running } : State) 31 = s' ∧ Returned s s' ∧
      val (2 ^ 64) [(s'.mem pr.toNat).toNat, (s'.mem (pr.toNat + 8)).toNat, (s'.mem (pr.toNat + 16)).toNat, (s'.mem (pr.toNat + 24)).toNat, (s'.mem (pr.toNat + 32)).toNat, (s'.mem (pr.toNat + 40)).toNat] < val (2 ^ 64) [p0.toNat, p1.toNat, p2.toNat, p3.toNat, p4.toNat, p5.toNat] ∧
      (val (2 ^ 64) [(s'.mem pr.toNat).toNat, (s'.mem (pr.toNat + 8)).toNat, (s'.mem (pr.toNat + 16)).toNat, (s'.mem (pr.toNat + 24)).toNat, (s'.mem (pr.toNat + 32)).toNat, (s'.mem (pr.toNat + 40)).toNat] * 2 ^ 384) % val (2 ^ 64) [p0.toNat, p1.toNat, p2.toNat, p3.toNat, p4.toNat, p5.toNat] = T % val (2 ^ 64) [p0.toNat, p1.toNat, p2.toNat, p3.toNat, p4.toNat, p5.toNat] ∧
      (∀ k, ¬(pr.toNat ≤ k ∧ k < pr.toNat + 48) → ¬(s.sp.toNat - 80 ≤ k ∧ k < s.sp.toNat) → s'.mem k = s.mem k) := by
  have ir0 := (t279.val).isLt; have ip0 := (p0).isLt
  have ir1 := (t284.val).isLt; have ip1 := (p1).isLt
  have ir2 := (t289.val).isLt; have ip2 := (p2).isLt
  have ir3 := (t294.val).isLt; have ip3 := (p3).isLt
  have ir4 := (t299.val).isLt; have ip4 := (p4).isLt
  have ir5 := (t302.val).isLt; have ip5 := (p5).isLt
  have c5 := cmp_eq ht303 hb304 hb305
  have c4 := cmp_eq ht306 hb307 hb308
  have c3 := cmp_eq ht309 hb310 hb311
  have c2 := cmp_eq ht312 hb313 hb314
  have c1 := cmp_eq ht315 hb316 hb317
  have c0 := cmp_hs ht318 hb319
  have hle : val (2 ^ 64) [p0.toNat, p1.toNat, p2.toNat, p3.toNat, p4.toNat, p5.toNat] ≤ val (2 ^ 64) [t279.val.toNat, t284.val.toNat, t289.val.toNat, t294.val.toNat, t299.val.toNat, t302.val.toNat] := by
    simp only [val_cons, val_nil]
    clear * - c5 c4 c3 c2 c1 c0 ir0 ip0 ir1 ip1 ir2 ip2 ir3 ip3 ir4 ip4 ir5 ip5
    omega
  have hs := sub6_val ht318 ht321e ht322e ht323e ht324e ht325e
  simp only [Bool.not_true, Bool.toNat_false, Nat.add_zero] at hs
  have hres := X86.mont_result hR2 hRe (Or.inr (sub_no_borrow hs hle (X86.val6_lt t318.val t321e.val t322e.val t323e.val t324e.val t325e.val)))
  have hq := fpsqr_tail_hs0 s pr pa pp inv hr ha hp hstk hrs has hps (t168 := t168) (t201 := t201) (t234 := t234) (t267 := t267) (t270 := t270) (t279 := t279) (t284 := t284) (t289 := t289) (t293 := t293) (t294 := t294) (t299 := t299) (t300 := t300) (t302 := t302) (t318 := t318) (t321e := t321e) (t322e := t322e) (t323e := t323e) (t324e := t324e) (t325e := t325e) (p0 := p0) (p1 := p1) (p2 := p2) (p3 := p3) (p4 := p4) (p5 := p5) (l271 := l271) (l295 := l295) ht303 ht306 ht309 ht312 ht315 ht318 ht321e ht322e ht323e ht324e ht325e hb304 hb305 hb307 hb308 hb310 hb311 hb313 hb314 hb316 hb317 hb319
  obtain ⟨rr0, rr1, rr2, rr3, rr4, rr5⟩ := hr.r6
  obtain ⟨⟨alrr0, alrr1, alrr2, alrr3, alrr4, alrr5⟩, frr1, frr2, frr3, frr4, frr5⟩ := hr.addr6
  have room5 := (hstk.f5 (by omega)).1
  replace hrs := Hide.mk (And.intro room5 hrs)
  simp only [OffStack] at hrs
  refine ⟨_, hq, ⟨rfl, rfl, rfl, rfl, rfl, rfl, rfl, rfl, rfl, rfl, rfl, rfl, rfl, rfl, rfl⟩, ?_, ?_, ?_⟩
  · simp only; a64_mem; exact hres.1
  · simp only; a64_mem; exact hres.2
  · intro k hk1 hk2
    simp (disch := (clear * - hk1 hk2 room5; omega)) only [setMem_ne]


set_option maxHeartbeats 1600000 in
set_option exponentiation.threshold 800 in
/-- `void fpbase_384_square(res, a, p, inv)` (square768 fused with montgomeryreduce384): `res < P` and
`res · 2^384 ≡ a² (mod P)` -/
theorem fpbase_384_square_run (s : State) (pr pa pp inv : Word)
    (hst : s.status = .running) (hpc : s.pc = 0) (h0 : s.x0 = pr) (h1 : s.x1 = pa) (h2 : s.x2 = pp) (h3 : s.x3 = inv)
    (hr : Buf s pr 6 true) (ha : Buf s pa 6 false) (hp : Buf s pp 6 false)
    (hstk : Stack s 5) (hrs : OffStack s 5 pr 6) (has : OffStack s 5 pa 6) (hps : OffStack s 5 pp 6)
    (hinv : (inv.toNat * val (2 ^ 64) (limbs s.mem pp.toNat 6) + 1) % 2 ^ 64 = 0)
    (hAB : val (2 ^ 64) (limbs s.mem pa.toNat 6) * val (2 ^ 64) (limbs s.mem pa.toNat 6) < val (2 ^ 64) (limbs s.mem pp.toNat 6) * 2 ^ 384)
    (h2P : 2 * val (2 ^ 64) (limbs s.mem pp.toNat 6) ≤ 2 ^ 384) :
    ∃ s', run embedded_pairing_core_arch_aarch64_fpbase_384_square s 334 = s' ∧ Returned s s' ∧
      val (2 ^ 64) (limbs s'.mem pr.toNat 6) < val (2 ^ 64) (limbs s.mem pp.toNat 6) ∧
      (val (2 ^ 64) (limbs s'.mem pr.toNat 6) * 2 ^ 384) % val (2 ^ 64) (limbs s.mem pp.toNat 6)
        = (val (2 ^ 64) (limbs s.mem pa.toNat 6) * val (2 ^ 64) (limbs s.mem pa.toNat 6)) % val (2 ^ 64) (limbs s.mem pp.toNat 6) ∧
      (∀ k, ¬(pr.toNat ≤ k ∧ k < pr.toNat + 48) → ¬(s.sp.toNat - 80 ≤ k ∧ k < s.sp.toNat) → s'.mem k = s.mem k) := by
  simp only [limbs_six, limbs_twelve, Nat.add_zero] at hinv hAB h2P ⊢
  obtain ⟨a0, ha0⟩ : ∃ x, x = s.mem pa.toNat := ⟨_, rfl⟩
  obtain ⟨a1, ha1⟩ : ∃ x, x = s.mem (pa.toNat + 8) := ⟨_, rfl⟩
  obtain ⟨a2, ha2⟩ : ∃ x, x = s.mem (pa.toNat + 16) := ⟨_, rfl⟩
  obtain ⟨a3, ha3⟩ : ∃ x, x = s.mem (pa.toNat + 24) := ⟨_, rfl⟩
  obtain ⟨a4, ha4⟩ : ∃ x, x = s.mem (pa.toNat + 32) := ⟨_, rfl⟩
  obtain ⟨a5, ha5⟩ : ∃ x, x = s.mem (pa.toNat + 40) := ⟨_, rfl⟩
  obtain ⟨p0, hp0⟩ : ∃ x, x = s.mem pp.toNat := ⟨_, rfl⟩
  obtain ⟨p1, hp1⟩ : ∃ x, x = s.mem (pp.toNat + 8) := ⟨_, rfl⟩
  obtain ⟨p2, hp2⟩ : ∃ x, x = s.mem (pp.toNat + 16) := ⟨_, rfl⟩
  obtain ⟨p3, hp3⟩ : ∃ x, x = s.mem (pp.toNat + 24) := ⟨_, rfl⟩
  obtain ⟨p4, hp4⟩ : ∃ x, x = s.mem (pp.toNat + 32) := ⟨_, rfl⟩
  obtain ⟨p5, hp5⟩ : ∃ x, x = s.mem (pp.toNat + 40) := ⟨_, rfl⟩
  simp only [← ha0, ← ha1, ← ha2, ← ha3, ← ha4, ← ha5, ← hp0, ← hp1, ← hp2, ← hp3, ← hp4, ← hp5] at hinv hAB h2P ⊢
  obtain ⟨t8, ht8⟩ : ∃ x, x = addWithCarry (0 : Word) (0 : Word) false := ⟨_, rfl⟩
  obtain ⟨h9, hh9⟩ : ∃ x, x = mulHi a1 a0 := ⟨_, rfl⟩
  obtain ⟨l10, hl10⟩ : ∃ x, x = mulLo a1 a0 := ⟨_, rfl⟩
  obtain ⟨l11, hl11⟩ : ∃ x, x = mulLo a2 a0 := ⟨_, rfl⟩
  obtain ⟨h12, hh12⟩ : ∃ x, x = mulHi a2 a0 := ⟨_, rfl⟩
  obtain ⟨t13, ht13⟩ : ∃ x, x = addWithCarry h9 l11 false := ⟨_, rfl⟩
  obtain ⟨l14, hl14⟩ : ∃ x, x = mulLo a2 a1 := ⟨_, rfl⟩
  obtain ⟨h15, hh15⟩ : ∃ x, x = mulHi a2 a1 := ⟨_, rfl⟩
  obtain ⟨t16, ht16⟩ : ∃ x, x = addWithCarry l14 h12 t13.c := ⟨_, rfl⟩
  obtain ⟨t17, ht17⟩ : ∃ x, x = addWithCarry h15 (0 : Word) t16.c := ⟨_, rfl⟩
  obtain ⟨l18, hl18⟩ : ∃ x, x = mulLo a3 a0 := ⟨_, rfl⟩
  obtain ⟨h19, hh19⟩ : ∃ x, x = mulHi a3 a0 := ⟨_, rfl⟩
  obtain ⟨t20, ht20⟩ : ∃ x, x = addWithCarry t16.val l18 false := ⟨_, rfl⟩
  obtain ⟨l21, hl21⟩ : ∃ x, x = mulLo a3 a1 := ⟨_, rfl⟩
  obtain ⟨h22, hh22⟩ : ∃ x, x = mulHi a3 a1 := ⟨_, rfl⟩
  obtain ⟨t23, ht23⟩ : ∃ x, x = addWithCarry t17.val l21 t20.c := ⟨_, rfl⟩
  obtain ⟨t24, ht24⟩ : ∃ x, x = addWithCarry h22 (0 : Word) t23.c := ⟨_, rfl⟩
  obtain ⟨t25, ht25⟩ : ∃ x, x = addWithCarry t23.val h19 false := ⟨_, rfl⟩
  obtain ⟨l26, hl26⟩ : ∃ x, x = mulLo a3 a2 := ⟨_, rfl⟩
  obtain ⟨h27, hh27⟩ : ∃ x, x = mulHi a3 a2 := ⟨_, rfl⟩
  obtain ⟨t28, ht28⟩ : ∃ x, x = addWithCarry l26 t24.val t25.c := ⟨_, rfl⟩
  obtain ⟨t29, ht29⟩ : ∃ x, x = addWithCarry h27 (0 : Word) t28.c := ⟨_, rfl⟩
  obtain ⟨l30, hl30⟩ : ∃ x, x = mulLo a4 a0 := ⟨_, rfl⟩
  obtain ⟨h31, hh31⟩ : ∃ x, x = mulHi a4 a0 := ⟨_, rfl⟩
  obtain ⟨t32, ht32⟩ : ∃ x, x = addWithCarry t25.val l30 false := ⟨_, rfl⟩
  obtain ⟨l33, hl33⟩ : ∃ x, x = mulLo a4 a1 := ⟨_, rfl⟩
  obtain ⟨h34, hh34⟩ : ∃ x, x = mulHi a4 a1 := ⟨_, rfl⟩
  obtain ⟨t35, ht35⟩ : ∃ x, x = addWithCarry t28.val l33 t32.c := ⟨_, rfl⟩
  obtain ⟨t36, ht36⟩ : ∃ x, x = addWithCarry h34 (0 : Word) t35.c := ⟨_, rfl⟩
  obtain ⟨t37, ht37⟩ : ∃ x, x = addWithCarry t35.val h31 false := ⟨_, rfl⟩
  obtain ⟨l38, hl38⟩ : ∃ x, x = mulLo a4 a2 := ⟨_, rfl⟩
  obtain ⟨h39, hh39⟩ : ∃ x, x = mulHi a4 a2 := ⟨_, rfl⟩
  obtain ⟨t40, ht40⟩ : ∃ x, x = addWithCarry t29.val l38 t37.c := ⟨_, rfl⟩
  obtain ⟨t41, ht41⟩ : ∃ x, x = addWithCarry h39 (0 : Word) t40.c := ⟨_, rfl⟩
  obtain ⟨t42, ht42⟩ : ∃ x, x = addWithCarry t40.val t36.val false := ⟨_, rfl⟩
  obtain ⟨l43, hl43⟩ : ∃ x, x = mulLo a4 a3 := ⟨_, rfl⟩
  obtain ⟨h44, hh44⟩ : ∃ x, x = mulHi a4 a3 := ⟨_, rfl⟩
  obtain ⟨t45, ht45⟩ : ∃ x, x = addWithCarry l43 t41.val t42.c := ⟨_, rfl⟩
  obtain ⟨t46, ht46⟩ : ∃ x, x = addWithCarry h44 (0 : Word) t45.c := ⟨_, rfl⟩
  obtain ⟨l47, hl47⟩ : ∃ x, x = mulLo a5 a0 := ⟨_, rfl⟩
  obtain ⟨h48, hh48⟩ : ∃ x, x = mulHi a5 a0 := ⟨_, rfl⟩
  obtain ⟨t49, ht49⟩ : ∃ x, x = addWithCarry t37.val l47 false := ⟨_, rfl⟩
  obtain ⟨l50, hl50⟩ : ∃ x, x = mulLo a5 a1 := ⟨_, rfl⟩
  obtain ⟨h51, hh51⟩ : ∃ x, x = mulHi a5 a1 := ⟨_, rfl⟩
  obtain ⟨t52, ht52⟩ : ∃ x, x = addWithCarry t42.val l50 t49.c := ⟨_, rfl⟩
  obtain ⟨t53, ht53⟩ : ∃ x, x = addWithCarry h51 (0 : Word) t52.c := ⟨_, rfl⟩
  obtain ⟨t54, ht54⟩ : ∃ x, x = addWithCarry t52.val h48 false := ⟨_, rfl⟩
  obtain ⟨l55, hl55⟩ : ∃ x, x = mulLo a5 a2 := ⟨_, rfl⟩
  obtain ⟨h56, hh56⟩ : ∃ x, x = mulHi a5 a2 := ⟨_, rfl⟩
  obtain ⟨t57, ht57⟩ : ∃ x, x = addWithCarry t45.val l55 t54.c := ⟨_, rfl⟩
  obtain ⟨t58, ht58⟩ : ∃ x, x = addWithCarry h56 (0 : Word) t57.c := ⟨_, rfl⟩
  obtain ⟨t59, ht59⟩ : ∃ x, x = addWithCarry t57.val t53.val false := ⟨_, rfl⟩
  obtain ⟨l60, hl60⟩ : ∃ x, x = mulLo a5 a3 := ⟨_, rfl⟩
  obtain ⟨h61, hh61⟩ : ∃ x, x = mulHi a5 a3 := ⟨_, rfl⟩
  obtain ⟨t62, ht62⟩ : ∃ x, x = addWithCarry t46.val l60 t59.c := ⟨_, rfl⟩
  obtain ⟨t63, ht63⟩ : ∃ x, x = addWithCarry h61 (0 : Word) t62.c := ⟨_, rfl⟩
  obtain ⟨t64, ht64⟩ : ∃ x, x = addWithCarry t62.val t58.val false := ⟨_, rfl⟩
  obtain ⟨l65, hl65⟩ : ∃ x, x = mulLo a5 a4 := ⟨_, rfl⟩
  obtain ⟨h66, hh66⟩ : ∃ x, x = mulHi a5 a4 := ⟨_, rfl⟩
  obtain ⟨t67, ht67⟩ : ∃ x, x = addWithCarry l65 t63.val t64.c := ⟨_, rfl⟩
  obtain ⟨t68, ht68⟩ : ∃ x, x = addWithCarry h66 (0 : Word) t67.c := ⟨_, rfl⟩
  obtain ⟨t70, ht70⟩ : ∃ x, x = addWithCarry l10 l10 false := ⟨_, rfl⟩
  obtain ⟨t71, ht71⟩ : ∃ x, x = addWithCarry t13.val t13.val t70.c := ⟨_, rfl⟩
  obtain ⟨t72, ht72⟩ : ∃ x, x = addWithCarry t20.val t20.val t71.c := ⟨_, rfl⟩
  obtain ⟨t73, ht73⟩ : ∃ x, x = addWithCarry t32.val t32.val t72.c := ⟨_, rfl⟩
  obtain ⟨t74, ht74⟩ : ∃ x, x = addWithCarry t49.val t49.val t73.c := ⟨_, rfl⟩
  obtain ⟨t75, ht75⟩ : ∃ x, x = addWithCarry t54.val t54.val t74.c := ⟨_, rfl⟩
  obtain ⟨t76, ht76⟩ : ∃ x, x = addWithCarry t59.val t59.val t75.c := ⟨_, rfl⟩
  obtain ⟨t77, ht77⟩ : ∃ x, x = addWithCarry t64.val t64.val t76.c := ⟨_, rfl⟩
  obtain ⟨t78, ht78⟩ : ∃ x, x = addWithCarry t67.val t67.val t77.c := ⟨_, rfl⟩
  obtain ⟨t79, ht79⟩ : ∃ x, x = addWithCarry t68.val t68.val t78.c := ⟨_, rfl⟩
  obtain ⟨t80, ht80⟩ : ∃ x, x = addWithCarry (0 : Word) (0 : Word) t79.c := ⟨_, rfl⟩
  obtain ⟨l81, hl81⟩ : ∃ x, x = mulLo a0 a0 := ⟨_, rfl⟩
  obtain ⟨h82, hh82⟩ : ∃ x, x = mulHi a0 a0 := ⟨_, rfl⟩
  obtain ⟨t83, ht83⟩ : ∃ x, x = addWithCarry t70.val h82 false := ⟨_, rfl⟩
  obtain ⟨l84, hl84⟩ : ∃ x, x = mulLo a1 a1 := ⟨_, rfl⟩
  obtain ⟨h85, hh85⟩ : ∃ x, x = mulHi a1 a1 := ⟨_, rfl⟩
  obtain ⟨t86, ht86⟩ : ∃ x, x = addWithCarry t71.val l84 t83.c := ⟨_, rfl⟩
  obtain ⟨t87, ht87⟩ : ∃ x, x = addWithCarry t72.val h85 t86.c := ⟨_, rfl⟩
  obtain ⟨l88, hl88⟩ : ∃ x, x = mulLo a2 a2 := ⟨_, rfl⟩
  obtain ⟨h89, hh89⟩ : ∃ x, x = mulHi a2 a2 := ⟨_, rfl⟩
  obtain ⟨t90, ht90⟩ : ∃ x, x = addWithCarry t73.val l88 t87.c := ⟨_, rfl⟩
  obtain ⟨t91, ht91⟩ : ∃ x, x = addWithCarry t74.val h89 t90.c := ⟨_, rfl⟩
  obtain ⟨l92, hl92⟩ : ∃ x, x = mulLo a3 a3 := ⟨_, rfl⟩
  obtain ⟨h93, hh93⟩ : ∃ x, x = mulHi a3 a3 := ⟨_, rfl⟩
  obtain ⟨t94, ht94⟩ : ∃ x, x = addWithCarry t75.val l92 t91.c := ⟨_, rfl⟩
  obtain ⟨t95, ht95⟩ : ∃ x, x = addWithCarry t76.val h93 t94.c := ⟨_, rfl⟩
  obtain ⟨l96, hl96⟩ : ∃ x, x = mulLo a4 a4 := ⟨_, rfl⟩
  obtain ⟨h97, hh97⟩ : ∃ x, x = mulHi a4 a4 := ⟨_, rfl⟩
  obtain ⟨t98, ht98⟩ : ∃ x, x = addWithCarry t77.val l96 t95.c := ⟨_, rfl⟩
  obtain ⟨t99, ht99⟩ : ∃ x, x = addWithCarry t78.val h97 t98.c := ⟨_, rfl⟩
  obtain ⟨l100, hl100⟩ : ∃ x, x = mulLo a5 a5 := ⟨_, rfl⟩
  obtain ⟨h101, hh101⟩ : ∃ x, x = mulHi a5 a5 := ⟨_, rfl⟩
  obtain ⟨t102, ht102⟩ : ∃ x, x = addWithCarry t79.val l100 t99.c := ⟨_, rfl⟩
  obtain ⟨t103, ht103⟩ : ∃ x, x = addWithCarry t80.val h101 t102.c := ⟨_, rfl⟩
  obtain ⟨l108, hl108⟩ : ∃ x, x = mulLo l81 inv := ⟨_, rfl⟩
  obtain ⟨l109, hl109⟩ : ∃ x, x = mulLo l108 p0 := ⟨_, rfl⟩
  obtain ⟨h110, hh110⟩ : ∃ x, x = mulHi l108 p0 := ⟨_, rfl⟩
  obtain ⟨t111, ht111⟩ : ∃ x, x = addWithCarry l81 l109 false := ⟨_, rfl⟩
  obtain ⟨l112, hl112⟩ : ∃ x, x = mulLo l108 p1 := ⟨_, rfl⟩
  obtain ⟨h113, hh113⟩ : ∃ x, x = mulHi l108 p1 := ⟨_, rfl⟩
  obtain ⟨t114, ht114⟩ : ∃ x, x = addWithCarry t83.val l112 t111.c := ⟨_, rfl⟩
  obtain ⟨t115, ht115⟩ : ∃ x, x = addWithCarry h113 (0 : Word) t114.c := ⟨_, rfl⟩
  obtain ⟨t116, ht116⟩ : ∃ x, x = addWithCarry t114.val h110 false := ⟨_, rfl⟩
  obtain ⟨l117, hl117⟩ : ∃ x, x = mulLo l108 p2 := ⟨_, rfl⟩
  obtain ⟨h118, hh118⟩ : ∃ x, x = mulHi l108 p2 := ⟨_, rfl⟩
  obtain ⟨t119, ht119⟩ : ∃ x, x = addWithCarry t86.val l117 t116.c := ⟨_, rfl⟩
  obtain ⟨t120, ht120⟩ : ∃ x, x = addWithCarry h118 (0 : Word) t119.c := ⟨_, rfl⟩
  obtain ⟨t121, ht121⟩ : ∃ x, x = addWithCarry t119.val t115.val false := ⟨_, rfl⟩
  obtain ⟨l122, hl122⟩ : ∃ x, x = mulLo l108 p3 := ⟨_, rfl⟩
  obtain ⟨h123, hh123⟩ : ∃ x, x = mulHi l108 p3 := ⟨_, rfl⟩
  obtain ⟨t124, ht124⟩ : ∃ x, x = addWithCarry t87.val l122 t121.c := ⟨_, rfl⟩
  obtain ⟨t125, ht125⟩ : ∃ x, x = addWithCarry h123 (0 : Word) t124.c := ⟨_, rfl⟩
  obtain ⟨t126, ht126⟩ : ∃ x, x = addWithCarry t124.val t120.val false := ⟨_, rfl⟩
  obtain ⟨l127, hl127⟩ : ∃ x, x = mulLo l108 p4 := ⟨_, rfl⟩
  obtain ⟨h128, hh128⟩ : ∃ x, x = mulHi l108 p4 := ⟨_, rfl⟩
  obtain ⟨t129, ht129⟩ : ∃ x, x = addWithCarry t90.val l127 t126.c := ⟨_, rfl⟩
  obtain ⟨t130, ht130⟩ : ∃ x, x = addWithCarry h128 (0 : Word) t129.c := ⟨_, rfl⟩
  obtain ⟨t131, ht131⟩ : ∃ x, x = addWithCarry t129.val t125.val false := ⟨_, rfl⟩
  obtain ⟨l132, hl132⟩ : ∃ x, x = mulLo l108 p5 := ⟨_, rfl⟩
  obtain ⟨h133, hh133⟩ : ∃ x, x = mulHi l108 p5 := ⟨_, rfl⟩
  obtain ⟨t134, ht134⟩ : ∃ x, x = addWithCarry t91.val l132 t131.c := ⟨_, rfl⟩
  obtain ⟨t135, ht135⟩ : ∃ x, x = addWithCarry h133 (0 : Word) t134.c := ⟨_, rfl⟩
  obtain ⟨t136, ht136⟩ : ∃ x, x = addWithCarry t134.val t130.val false := ⟨_, rfl⟩
  obtain ⟨t137, ht137⟩ : ∃ x, x = addWithCarry t94.val t135.val t136.c := ⟨_, rfl⟩
  obtain ⟨t138, ht138⟩ : ∃ x, x = addWithCarry (0 : Word) (0 : Word) t137.c := ⟨_, rfl⟩
  obtain ⟨l139, hl139⟩ : ∃ x, x = mulLo t116.val inv := ⟨_, rfl⟩
  obtain ⟨l140, hl140⟩ : ∃ x, x = mulLo l139 p0 := ⟨_, rfl⟩
  obtain ⟨h141, hh141⟩ : ∃ x, x = mulHi l139 p0 := ⟨_, rfl⟩
  obtain ⟨t142, ht142⟩ : ∃ x, x = addWithCarry t116.val l140 false := ⟨_, rfl⟩
  obtain ⟨l143, hl143⟩ : ∃ x, x = mulLo l139 p1 := ⟨_, rfl⟩
  obtain ⟨h144, hh144⟩ : ∃ x, x = mulHi l139 p1 := ⟨_, rfl⟩
  obtain ⟨t145, ht145⟩ : ∃ x, x = addWithCarry t121.val l143 t142.c := ⟨_, rfl⟩
  obtain ⟨t146, ht146⟩ : ∃ x, x = addWithCarry h144 (0 : Word) t145.c := ⟨_, rfl⟩
  obtain ⟨t147, ht147⟩ : ∃ x, x = addWithCarry t145.val h141 false := ⟨_, rfl⟩
  obtain ⟨l148, hl148⟩ : ∃ x, x = mulLo l139 p2 := ⟨_, rfl⟩
  obtain ⟨h149, hh149⟩ : ∃ x, x = mulHi l139 p2 := ⟨_, rfl⟩
  obtain ⟨t150, ht150⟩ : ∃ x, x = addWithCarry t126.val l148 t147.c := ⟨_, rfl⟩
  obtain ⟨t151, ht151⟩ : ∃ x, x = addWithCarry h149 (0 : Word) t150.c := ⟨_, rfl⟩
  obtain ⟨t152, ht152⟩ : ∃ x, x = addWithCarry t150.val t146.val false := ⟨_, rfl⟩
  obtain ⟨l153, hl153⟩ : ∃ x, x = mulLo l139 p3 := ⟨_, rfl⟩
  obtain ⟨h154, hh154⟩ : ∃ x, x = mulHi l139 p3 := ⟨_, rfl⟩
  obtain ⟨t155, ht155⟩ : ∃ x, x = addWithCarry t131.val l153 t152.c := ⟨_, rfl⟩
  obtain ⟨t156, ht156⟩ : ∃ x, x = addWithCarry h154 (0 : Word) t155.c := ⟨_, rfl⟩
  obtain ⟨t157, ht157⟩ : ∃ x, x = addWithCarry t155.val t151.val false := ⟨_, rfl⟩
  obtain ⟨l158, hl158⟩ : ∃ x, x = mulLo l139 p4 := ⟨_, rfl⟩
  obtain ⟨h159, hh159⟩ : ∃ x, x = mulHi l139 p4 := ⟨_, rfl⟩
  obtain ⟨t160, ht160⟩ : ∃ x, x = addWithCarry t136.val l158 t157.c := ⟨_, rfl⟩
  obtain ⟨t161, ht161⟩ : ∃ x, x = addWithCarry h159 (0 : Word) t160.c := ⟨_, rfl⟩
  obtain ⟨t162, ht162⟩ : ∃ x, x = addWithCarry t160.val t156.val false := ⟨_, rfl⟩
  obtain ⟨l163, hl163⟩ : ∃ x, x = mulLo l139 p5 := ⟨_, rfl⟩
  obtain ⟨h164, hh164⟩ : ∃ x, x = mulHi l139 p5 := ⟨_, rfl⟩
  obtain ⟨t165, ht165⟩ : ∃ x, x = addWithCarry t137.val l163 t162.c := ⟨_, rfl⟩
  obtain ⟨t166, ht166⟩ : ∃ x, x = addWithCarry h164 (0 : Word) t165.c := ⟨_, rfl⟩
  obtain ⟨t167, ht167⟩ : ∃ x, x = addWithCarry t165.val t161.val false := ⟨_, rfl⟩
  obtain ⟨t168, ht168⟩ : ∃ x, x = addWithCarry t166.val (0 : Word) t167.c := ⟨_, rfl⟩
  obtain ⟨t169, ht169⟩ : ∃ x, x = addWithCarry t138.val (~~~1#64) true := ⟨_, rfl⟩
  obtain ⟨t170, ht170⟩ : ∃ x, x = addWithCarry t95.val t168.val t169.c := ⟨_, rfl⟩
  obtain ⟨t171, ht171⟩ : ∃ x, x = addWithCarry (0 : Word) (0 : Word) t170.c := ⟨_, rfl⟩
  obtain ⟨l172, hl172⟩ : ∃ x, x = mulLo t147.val inv := ⟨_, rfl⟩
  obtain ⟨l173, hl173⟩ : ∃ x, x = mulLo l172 p0 := ⟨_, rfl⟩
  obtain ⟨h174, hh174⟩ : ∃ x, x = mulHi l172 p0 := ⟨_, rfl⟩
  obtain ⟨t175, ht175⟩ : ∃ x, x = addWithCarry t147.val l173 false := ⟨_, rfl⟩
  obtain ⟨l176, hl176⟩ : ∃ x, x = mulLo l172 p1 := ⟨_, rfl⟩
  obtain ⟨h177, hh177⟩ : ∃ x, x = mulHi l172 p1 := ⟨_, rfl⟩
  obtain ⟨t178, ht178⟩ : ∃ x, x = addWithCarry t152.val l176 t175.c := ⟨_, rfl⟩
  obtain ⟨t179, ht179⟩ : ∃ x, x = addWithCarry h177 (0 : Word) t178.c := ⟨_, rfl⟩
  obtain ⟨t180, ht180⟩ : ∃ x, x = addWithCarry t178.val h174 false := ⟨_, rfl⟩
  obtain ⟨l181, hl181⟩ : ∃ x, x = mulLo l172 p2 := ⟨_, rfl⟩
  obtain ⟨h182, hh182⟩ : ∃ x, x = mulHi l172 p2 := ⟨_, rfl⟩
  obtain ⟨t183, ht183⟩ : ∃ x, x = addWithCarry t157.val l181 t180.c := ⟨_, rfl⟩
  obtain ⟨t184, ht184⟩ : ∃ x, x = addWithCarry h182 (0 : Word) t183.c := ⟨_, rfl⟩
  obtain ⟨t185, ht185⟩ : ∃ x, x = addWithCarry t183.val t179.val false := ⟨_, rfl⟩
  obtain ⟨l186, hl186⟩ : ∃ x, x = mulLo l172 p3 := ⟨_, rfl⟩
  obtain ⟨h187, hh187⟩ : ∃ x, x = mulHi l172 p3 := ⟨_, rfl⟩
  obtain ⟨t188, ht188⟩ : ∃ x, x = addWithCarry t162.val l186 t185.c := ⟨_, rfl⟩
  obtain ⟨t189, ht189⟩ : ∃ x, x = addWithCarry h187 (0 : Word) t188.c := ⟨_, rfl⟩
  obtain ⟨t190, ht190⟩ : ∃ x, x = addWithCarry t188.val t184.val false := ⟨_, rfl⟩
  obtain ⟨l191, hl191⟩ : ∃ x, x = mulLo l172 p4 := ⟨_, rfl⟩
  obtain ⟨h192, hh192⟩ : ∃ x, x = mulHi l172 p4 := ⟨_, rfl⟩
  obtain ⟨t193, ht193⟩ : ∃ x, x = addWithCarry t167.val l191 t190.c := ⟨_, rfl⟩
  obtain ⟨t194, ht194⟩ : ∃ x, x = addWithCarry h192 (0 : Word) t193.c := ⟨_, rfl⟩
  obtain ⟨t195, ht195⟩ : ∃ x, x = addWithCarry t193.val t189.val false := ⟨_, rfl⟩
  obtain ⟨l196, hl196⟩ : ∃ x, x = mulLo l172 p5 := ⟨_, rfl⟩
  obtain ⟨h197, hh197⟩ : ∃ x, x = mulHi l172 p5 := ⟨_, rfl⟩
  obtain ⟨t198, ht198⟩ : ∃ x, x = addWithCarry t170.val l196 t195.c := ⟨_, rfl⟩
  obtain ⟨t199, ht199⟩ : ∃ x, x = addWithCarry h197 (0 : Word) t198.c := ⟨_, rfl⟩
  obtain ⟨t200, ht200⟩ : ∃ x, x = addWithCarry t198.val t194.val false := ⟨_, rfl⟩
  obtain ⟨t201, ht201⟩ : ∃ x, x = addWithCarry t199.val (0 : Word) t200.c := ⟨_, rfl⟩
  obtain ⟨t202, ht202⟩ : ∃ x, x = addWithCarry t171.val (~~~1#64) true := ⟨_, rfl⟩
  obtain ⟨t203, ht203⟩ : ∃ x, x = addWithCarry t98.val t201.val t202.c := ⟨_, rfl⟩
  obtain ⟨t204, ht204⟩ : ∃ x, x = addWithCarry (0 : Word) (0 : Word) t203.c := ⟨_, rfl⟩
  obtain ⟨l205, hl205⟩ : ∃ x, x = mulLo t180.val inv := ⟨_, rfl⟩
  obtain ⟨l206, hl206⟩ : ∃ x, x = mulLo l205 p0 := ⟨_, rfl⟩
  obtain ⟨h207, hh207⟩ : ∃ x, x = mulHi l205 p0 := ⟨_, rfl⟩
  obtain ⟨t208, ht208⟩ : ∃ x, x = addWithCarry t180.val l206 false := ⟨_, rfl⟩
  obtain ⟨l209, hl209⟩ : ∃ x, x = mulLo l205 p1 := ⟨_, rfl⟩
  obtain ⟨h210, hh210⟩ : ∃ x, x = mulHi l205 p1 := ⟨_, rfl⟩
  obtain ⟨t211, ht211⟩ : ∃ x, x = addWithCarry t185.val l209 t208.c := ⟨_, rfl⟩
  obtain ⟨t212, ht212⟩ : ∃ x, x = addWithCarry h210 (0 : Word) t211.c := ⟨_, rfl⟩
  obtain ⟨t213, ht213⟩ : ∃ x, x = addWithCarry t211.val h207 false := ⟨_, rfl⟩
  obtain ⟨l214, hl214⟩ : ∃ x, x = mulLo l205 p2 := ⟨_, rfl⟩
  obtain ⟨h215, hh215⟩ : ∃ x, x = mulHi l205 p2 := ⟨_, rfl⟩
  obtain ⟨t216, ht216⟩ : ∃ x, x = addWithCarry t190.val l214 t213.c := ⟨_, rfl⟩
  obtain ⟨t217, ht217⟩ : ∃ x, x = addWithCarry h215 (0 : Word) t216.c := ⟨_, rfl⟩
  obtain ⟨t218, ht218⟩ : ∃ x, x = addWithCarry t216.val t212.val false := ⟨_, rfl⟩
  obtain ⟨l219, hl219⟩ : ∃ x, x = mulLo l205 p3 := ⟨_, rfl⟩
  obtain ⟨h220, hh220⟩ : ∃ x, x = mulHi l205 p3 := ⟨_, rfl⟩
  obtain ⟨t221, ht221⟩ : ∃ x, x = addWithCarry t195.val l219 t218.c := ⟨_, rfl⟩
  obtain ⟨t222, ht222⟩ : ∃ x, x = addWithCarry h220 (0 : Word) t221.c := ⟨_, rfl⟩
  obtain ⟨t223, ht223⟩ : ∃ x, x = addWithCarry t221.val t217.val false := ⟨_, rfl⟩
  obtain ⟨l224, hl224⟩ : ∃ x, x = mulLo l205 p4 := ⟨_, rfl⟩
  obtain ⟨h225, hh225⟩ : ∃ x, x = mulHi l205 p4 := ⟨_, rfl⟩
  obtain ⟨t226, ht226⟩ : ∃ x, x = addWithCarry t200.val l224 t223.c := ⟨_, rfl⟩
  obtain ⟨t227, ht227⟩ : ∃ x, x = addWithCarry h225 (0 : Word) t226.c := ⟨_, rfl⟩
  obtain ⟨t228, ht228⟩ : ∃ x, x = addWithCarry t226.val t222.val false := ⟨_, rfl⟩
  obtain ⟨l229, hl229⟩ : ∃ x, x = mulLo l205 p5 := ⟨_, rfl⟩
  obtain ⟨h230, hh230⟩ : ∃ x, x = mulHi l205 p5 := ⟨_, rfl⟩
  obtain ⟨t231, ht231⟩ : ∃ x, x = addWithCarry t203.val l229 t228.c := ⟨_, rfl⟩
  obtain ⟨t232, ht232⟩ : ∃ x, x = addWithCarry h230 (0 : Word) t231.c := ⟨_, rfl⟩
  obtain ⟨t233, ht233⟩ : ∃ x, x = addWithCarry t231.val t227.val false := ⟨_, rfl⟩
  obtain ⟨t234, ht234⟩ : ∃ x, x = addWithCarry t232.val (0 : Word) t233.c := ⟨_, rfl⟩
  obtain ⟨t235, ht235⟩ : ∃ x, x = addWithCarry t204.val (~~~1#64) true := ⟨_, rfl⟩
  obtain ⟨t236, ht236⟩ : ∃ x, x = addWithCarry t99.val t234.val t235.c := ⟨_, rfl⟩
  obtain ⟨t237, ht237⟩ : ∃ x, x = addWithCarry (0 : Word) (0 : Word) t236.c := ⟨_, rfl⟩
  obtain ⟨l238, hl238⟩ : ∃ x, x = mulLo t213.val inv := ⟨_, rfl⟩
  obtain ⟨l239, hl239⟩ : ∃ x, x = mulLo l238 p0 := ⟨_, rfl⟩
  obtain ⟨h240, hh240⟩ : ∃ x, x = mulHi l238 p0 := ⟨_, rfl⟩
  obtain ⟨t241, ht241⟩ : ∃ x, x = addWithCarry t213.val l239 false := ⟨_, rfl⟩
  obtain ⟨l242, hl242⟩ : ∃ x, x = mulLo l238 p1 := ⟨_, rfl⟩
  obtain ⟨h243, hh243⟩ : ∃ x, x = mulHi l238 p1 := ⟨_, rfl⟩
  obtain ⟨t244, ht244⟩ : ∃ x, x = addWithCarry t218.val l242 t241.c := ⟨_, rfl⟩
  obtain ⟨t245, ht245⟩ : ∃ x, x = addWithCarry h243 (0 : Word) t244.c := ⟨_, rfl⟩
  obtain ⟨t246, ht246⟩ : ∃ x, x = addWithCarry t244.val h240 false := ⟨_, rfl⟩
  obtain ⟨l247, hl247⟩ : ∃ x, x = mulLo l238 p2 := ⟨_, rfl⟩
  obtain ⟨h248, hh248⟩ : ∃ x, x = mulHi l238 p2 := ⟨_, rfl⟩
  obtain ⟨t249, ht249⟩ : ∃ x, x = addWithCarry t223.val l247 t246.c := ⟨_, rfl⟩
  obtain ⟨t250, ht250⟩ : ∃ x, x = addWithCarry h248 (0 : Word) t249.c := ⟨_, rfl⟩
  obtain ⟨t251, ht251⟩ : ∃ x, x = addWithCarry t249.val t245.val false := ⟨_, rfl⟩
  obtain ⟨l252, hl252⟩ : ∃ x, x = mulLo l238 p3 := ⟨_, rfl⟩
  obtain ⟨h253, hh253⟩ : ∃ x, x = mulHi l238 p3 := ⟨_, rfl⟩
  obtain ⟨t254, ht254⟩ : ∃ x, x = addWithCarry t228.val l252 t251.c := ⟨_, rfl⟩
  obtain ⟨t255, ht255⟩ : ∃ x, x = addWithCarry h253 (0 : Word) t254.c := ⟨_, rfl⟩
  obtain ⟨t256, ht256⟩ : ∃ x, x = addWithCarry t254.val t250.val false := ⟨_, rfl⟩
  obtain ⟨l257, hl257⟩ : ∃ x, x = mulLo l238 p4 := ⟨_, rfl⟩
  obtain ⟨h258, hh258⟩ : ∃ x, x = mulHi l238 p4 := ⟨_, rfl⟩
  obtain ⟨t259, ht259⟩ : ∃ x, x = addWithCarry t233.val l257 t256.c := ⟨_, rfl⟩
  obtain ⟨t260, ht260⟩ : ∃ x, x = addWithCarry h258 (0 : Word) t259.c := ⟨_, rfl⟩
  obtain ⟨t261, ht261⟩ : ∃ x, x = addWithCarry t259.val t255.val false := ⟨_, rfl⟩
  obtain ⟨l262, hl262⟩ : ∃ x, x = mulLo l238 p5 := ⟨_, rfl⟩
  obtain ⟨h263, hh263⟩ : ∃ x, x = mulHi l238 p5 := ⟨_, rfl⟩
  obtain ⟨t264, ht264⟩ : ∃ x, x = addWithCarry t236.val l262 t261.c := ⟨_, rfl⟩
  obtain ⟨t265, ht265⟩ : ∃ x, x = addWithCarry h263 (0 : Word) t264.c := ⟨_, rfl⟩
  obtain ⟨t266, ht266⟩ : ∃ x, x = addWithCarry t264.val t260.val false := ⟨_, rfl⟩
  obtain ⟨t267, ht267⟩ : ∃ x, x = addWithCarry t265.val (0 : Word) t266.c := ⟨_, rfl⟩
  obtain ⟨t268, ht268⟩ : ∃ x, x = addWithCarry t237.val (~~~1#64) true := ⟨_, rfl⟩
  obtain ⟨t269, ht269⟩ : ∃ x, x = addWithCarry t102.val t267.val t268.c := ⟨_, rfl⟩
  obtain ⟨t270, ht270⟩ : ∃ x, x = addWithCarry (0 : Word) (0 : Word) t269.c := ⟨_, rfl⟩
  obtain ⟨l271, hl271⟩ : ∃ x, x = mulLo t246.val inv := ⟨_, rfl⟩
  obtain ⟨l272, hl272⟩ : ∃ x, x = mulLo l271 p0 := ⟨_, rfl⟩
  obtain ⟨h273, hh273⟩ : ∃ x, x = mulHi l271 p0 := ⟨_, rfl⟩
  obtain ⟨t274, ht274⟩ : ∃ x, x = addWithCarry t246.val l272 false := ⟨_, rfl⟩
  obtain ⟨l275, hl275⟩ : ∃ x, x = mulLo l271 p1 := ⟨_, rfl⟩
  obtain ⟨h276, hh276⟩ : ∃ x, x = mulHi l271 p1 := ⟨_, rfl⟩
  obtain ⟨t277, ht277⟩ : ∃ x, x = addWithCarry t251.val l275 t274.c := ⟨_, rfl⟩
  obtain ⟨t278, ht278⟩ : ∃ x, x = addWithCarry h276 (0 : Word) t277.c := ⟨_, rfl⟩
  obtain ⟨t279, ht279⟩ : ∃ x, x = addWithCarry t277.val h273 false := ⟨_, rfl⟩
  obtain ⟨l280, hl280⟩ : ∃ x, x = mulLo l271 p2 := ⟨_, rfl⟩
  obtain ⟨h281, hh281⟩ : ∃ x, x = mulHi l271 p2 := ⟨_, rfl⟩
  obtain ⟨t282, ht282⟩ : ∃ x, x = addWithCarry t256.val l280 t279.c := ⟨_, rfl⟩
  obtain ⟨t283, ht283⟩ : ∃ x, x = addWithCarry h281 (0 : Word) t282.c := ⟨_, rfl⟩
  obtain ⟨t284, ht284⟩ : ∃ x, x = addWithCarry t282.val t278.val false := ⟨_, rfl⟩
  obtain ⟨l285, hl285⟩ : ∃ x, x = mulLo l271 p3 := ⟨_, rfl⟩
  obtain ⟨h286, hh286⟩ : ∃ x, x = mulHi l271 p3 := ⟨_, rfl⟩
  obtain ⟨t287, ht287⟩ : ∃ x, x = addWithCarry t261.val l285 t284.c := ⟨_, rfl⟩
  obtain ⟨t288, ht288⟩ : ∃ x, x = addWithCarry h286 (0 : Word) t287.c := ⟨_, rfl⟩
  obtain ⟨t289, ht289⟩ : ∃ x, x = addWithCarry t287.val t283.val false := ⟨_, rfl⟩
  obtain ⟨l290, hl290⟩ : ∃ x, x = mulLo l271 p4 := ⟨_, rfl⟩
  obtain ⟨h291, hh291⟩ : ∃ x, x = mulHi l271 p4 := ⟨_, rfl⟩
  obtain ⟨t292, ht292⟩ : ∃ x, x = addWithCarry t266.val l290 t289.c := ⟨_, rfl⟩
  obtain ⟨t293, ht293⟩ : ∃ x, x = addWithCarry h291 (0 : Word) t292.c := ⟨_, rfl⟩
  obtain ⟨t294, ht294⟩ : ∃ x, x = addWithCarry t292.val t288.val false := ⟨_, rfl⟩
  obtain ⟨l295, hl295⟩ : ∃ x, x = mulLo l271 p5 := ⟨_, rfl⟩
  obtain ⟨h296, hh296⟩ : ∃ x, x = mulHi l271 p5 := ⟨_, rfl⟩
  obtain ⟨t297, ht297⟩ : ∃ x, x = addWithCarry t269.val l295 t294.c := ⟨_, rfl⟩
  obtain ⟨t298, ht298⟩ : ∃ x, x = addWithCarry h296 (0 : Word) t297.c := ⟨_, rfl⟩
  obtain ⟨t299, ht299⟩ : ∃ x, x = addWithCarry t297.val t293.val false := ⟨_, rfl⟩
  obtain ⟨t300, ht300⟩ : ∃ x, x = addWithCarry t298.val (0 : Word) t299.c := ⟨_, rfl⟩
  obtain ⟨t301, ht301⟩ : ∃ x, x = addWithCarry t270.val (~~~1#64) true := ⟨_, rfl⟩
  obtain ⟨t302, ht302⟩ : ∃ x, x = addWithCarry t103.val t300.val t301.c := ⟨_, rfl⟩
  obtain ⟨t303, ht303⟩ : ∃ x, x = addWithCarry t302.val (~~~p5) true := ⟨_, rfl⟩
  obtain ⟨t320, ht320⟩ : ∃ x, x = addWithCarry t279.val (~~~p0) true := ⟨_, rfl⟩
  obtain ⟨t321, ht321⟩ : ∃ x, x = addWithCarry t284.val (~~~p1) t320.c := ⟨_, rfl⟩
  obtain ⟨t322, ht322⟩ : ∃ x, x = addWithCarry t289.val (~~~p2) t321.c := ⟨_, rfl⟩
  obtain ⟨t323, ht323⟩ : ∃ x, x = addWithCarry t294.val (~~~p3) t322.c := ⟨_, rfl⟩
  obtain ⟨t324, ht324⟩ : ∃ x, x = addWithCarry t299.val (~~~p4) t323.c := ⟨_, rfl⟩
  obtain ⟨t325, ht325⟩ : ∃ x, x = addWithCarry t302.val (~~~p5) t324.c := ⟨_, rfl⟩
  obtain ⟨t306, ht306⟩ : ∃ x, x = addWithCarry t299.val (~~~p4) true := ⟨_, rfl⟩
  obtain ⟨t309, ht309⟩ : ∃ x, x = addWithCarry t294.val (~~~p3) true := ⟨_, rfl⟩
  obtain ⟨t312, ht312⟩ : ∃ x, x = addWithCarry t289.val (~~~p2) true := ⟨_, rfl⟩
  obtain ⟨t315, ht315⟩ : ∃ x, x = addWithCarry t284.val (~~~p1) true := ⟨_, rfl⟩
  obtain ⟨t318, ht318⟩ : ∃ x, x = addWithCarry t279.val (~~~p0) true := ⟨_, rfl⟩
  obtain ⟨t321e, ht321e⟩ : ∃ x, x = addWithCarry t284.val (~~~p1) t318.c := ⟨_, rfl⟩
  obtain ⟨t322e, ht322e⟩ : ∃ x, x = addWithCarry t289.val (~~~p2) t321e.c := ⟨_, rfl⟩
  obtain ⟨t323e, ht323e⟩ : ∃ x, x = addWithCarry t294.val (~~~p3) t322e.c := ⟨_, rfl⟩
  obtain ⟨t324e, ht324e⟩ : ∃ x, x = addWithCarry t299.val (~~~p4) t323e.c := ⟨_, rfl⟩
  obtain ⟨t325e, ht325e⟩ : ∃ x, x = addWithCarry t302.val (~~~p5) t324e.c := ⟨_, rfl⟩
  have hq0 := fpsqr_part0 s pr pa pp inv hr ha hp hstk hrs has hps hst hpc h0 h1 h2 h3 (t13 := t13) (t16 := t16) (t17 := t17) (t20 := t20) (t23 := t23) (t24 := t24) (t25 := t25) (t28 := t28) (t29 := t29) (a0 := a0) (a1 := a1) (a2 := a2) (a3 := a3) (a4 := a4) (a5 := a5) (h9 := h9) (h12 := h12) (h15 := h15) (h19 := h19) (h22 := h22) (h27 := h27) (l10 := l10) (l11 := l11) (l14 := l14) (l18 := l18) (l21 := l21) (l26 := l26) ha0 ha1 ha2 ha3 ha4 ha5 ht8 hh9 hl10 hl11 hh12 ht13 hl14 hh15 ht16 ht17 hl18 hh19 ht20 hl21 hh22 ht23 ht24 ht25 hl26 hh27 ht28 ht29
  have hq1 := fpsqr_part1 s pr pa pp inv hr ha hp hstk hrs has hps (t13 := t13) (t20 := t20) (t24 := t24) (t25 := t25) (t28 := t28) (t29 := t29) (t32 := t32) (t35 := t35) (t36 := t36) (t37 := t37) (t40 := t40) (t41 := t41) (t42 := t42) (t45 := t45) (t46 := t46) (t49 := t49) (t52 := t52) (t53 := t53) (t54 := t54) (t57 := t57) (t58 := t58) (t59 := t59) (t62 := t62) (t63 := t63) (t64 := t64) (t67 := t67) (t68 := t68) (a0 := a0) (a1 := a1) (a2 := a2) (a3 := a3) (a4 := a4) (a5 := a5) (h31 := h31) (h34 := h34) (h39 := h39) (h44 := h44) (h48 := h48) (h51 := h51) (h56 := h56) (h61 := h61) (h66 := h66) (l10 := l10) (l21 := l21) (l30 := l30) (l33 := l33) (l38 := l38) (l43 := l43) (l47 := l47) (l50 := l50) (l55 := l55) (l60 := l60) (l65 := l65) hl30 hh31 ht32 hl33 hh34 ht35 ht36 ht37 hl38 hh39 ht40 ht41 ht42 hl43 hh44 ht45 ht46 hl47 hh48 ht49 hl50 hh51 ht52 ht53 ht54 hl55 hh56 ht57 ht58 ht59 hl60 hh61 ht62 ht63 ht64 hl65 hh66 ht67 ht68
  have hq2 := fpsqr_part2 s pr pa pp inv hr ha hp hstk hrs has hps (t13 := t13) (t20 := t20) (t32 := t32) (t49 := t49) (t54 := t54) (t59 := t59) (t63 := t63) (t64 := t64) (t67 := t67) (t68 := t68) (t70 := t70) (t71 := t71) (t72 := t72) (t73 := t73) (t74 := t74) (t75 := t75) (t76 := t76) (t77 := t77) (t78 := t78) (t79 := t79) (t80 := t80) (t83 := t83) (t86 := t86) (t87 := t87) (t90 := t90) (t91 := t91) (t94 := t94) (t95 := t95) (t98 := t98) (t99 := t99) (t102 := t102) (t103 := t103) (a0 := a0) (a1 := a1) (a2 := a2) (a3 := a3) (a4 := a4) (a5 := a5) (h82 := h82) (h85 := h85) (h89 := h89) (h93 := h93) (h97 := h97) (l10 := l10) (l60 := l60) (l81 := l81) (l84 := l84) (l88 := l88) (l92 := l92) (l96 := l96) (h101 := h101) (l100 := l100) ht70 ht71 ht72 ht73 ht74 ht75 ht76 ht77 ht78 ht79 ht80 hl81 hh82 ht83 hl84 hh85 ht86 ht87 hl88 hh89 ht90 ht91 hl92 hh93 ht94 ht95 hl96 hh97 ht98 ht99 hl100 hh101 ht102 ht103
  have hq3 := fpsqr_part3 s pr pa pp inv hr ha hp hstk hrs has hps (t83 := t83) (t86 := t86) (t87 := t87) (t90 := t90) (t91 := t91) (t94 := t94) (t95 := t95) (t98 := t98) (t99 := t99) (t102 := t102) (t103 := t103) (t111 := t111) (t114 := t114) (t115 := t115) (t116 := t116) (t119 := t119) (t120 := t120) (t121 := t121) (t124 := t124) (t125 := t125) (t126 := t126) (t129 := t129) (t130 := t130) (t131 := t131) (t134 := t134) (t135 := t135) (t136 := t136) (t137 := t137) (t138 := t138) (a2 := a2) (a3 := a3) (a4 := a4) (a5 := a5) (p0 := p0) (p1 := p1) (p2 := p2) (p3 := p3) (p4 := p4) (p5 := p5) (l81 := l81) (h101 := h101) (h110 := h110) (h113 := h113) (h118 := h118) (h123 := h123) (h128 := h128) (h133 := h133) (l100 := l100) (l108 := l108) (l109 := l109) (l112 := l112) (l117 := l117) (l122 := l122) (l127 := l127) (l132 := l132) hp0 hp1 hp2 hp3 hp4 hp5 hl108 hl109 hh110 ht111 hl112 hh113 ht114 ht115 ht116 hl117 hh118 ht119 ht120 ht121 hl122 hh123 ht124 ht125 ht126 hl127 hh128 ht129 ht130 ht131 hl132 hh133 ht134 ht135 ht136 ht137 ht138
  have hq4 := fpsqr_part4 s pr pa pp inv hr ha hp hstk hrs has hps (t95 := t95) (t98 := t98) (t99 := t99) (t102 := t102) (t103 := t103) (t116 := t116) (t121 := t121) (t126 := t126) (t130 := t130) (t131 := t131) (t136 := t136) (t137 := t137) (t138 := t138) (t142 := t142) (t145 := t145) (t146 := t146) (t147 := t147) (t150 := t150) (t151 := t151) (t152 := t152) (t155 := t155) (t156 := t156) (t157 := t157) (t160 := t160) (t161 := t161) (t162 := t162) (t165 := t165) (t166 := t166) (t167 := t167) (t168 := t168) (t169 := t169) (t170 := t170) (t171 := t171) (p0 := p0) (p1 := p1) (p2 := p2) (p3 := p3) (p4 := p4) (p5 := p5) (h141 := h141) (h144 := h144) (h149 := h149) (h154 := h154) (h159 := h159) (h164 := h164) (l108 := l108) (l132 := l132) (l139 := l139) (l140 := l140) (l143 := l143) (l148 := l148) (l153 := l153) (l158 := l158) (l163 := l163) hl139 hl140 hh141 ht142 hl143 hh144 ht145 ht146 ht147 hl148 hh149 ht150 ht151 ht152 hl153 hh154 ht155 ht156 ht157 hl158 hh159 ht160 ht161 ht162 hl163 hh164 ht165 ht166 ht167 ht168 ht169 ht170 ht171
  have hq5 := fpsqr_part5 s pr pa pp inv hr ha hp hstk hrs has hps (t98 := t98) (t99 := t99) (t102 := t102) (t103 := t103) (t147 := t147) (t152 := t152) (t157 := t157) (t161 := t161) (t162 := t162) (t167 := t167) (t168 := t168) (t170 := t170) (t171 := t171) (t175 := t175) (t178 := t178) (t179 := t179) (t180 := t180) (t183 := t183) (t184 := t184) (t185 := t185) (t188 := t188) (t189 := t189) (t190 := t190) (t193 := t193) (t194 := t194) (t195 := t195) (t198 := t198) (t199 := t199) (t200 := t200) (t201 := t201) (t202 := t202) (t203 := t203) (t204 := t204) (p0 := p0) (p1 := p1) (p2 := p2) (p3 := p3) (p4 := p4) (p5 := p5) (h174 := h174) (h177 := h177) (h182 := h182) (h187 := h187) (h192 := h192) (h197 := h197) (l139 := l139) (l163 := l163) (l172 := l172) (l173 := l173) (l176 := l176) (l181 := l181) (l186 := l186) (l191 := l191) (l196 := l196) hl172 hl173 hh174 ht175 hl176 hh177 ht178 ht179 ht180 hl181 hh182 ht183 ht184 ht185 hl186 hh187 ht188 ht189 ht190 hl191 hh192 ht193 ht194 ht195 hl196 hh197 ht198 ht199 ht200 ht201 ht202 ht203 ht204
  have hq6 := fpsqr_part6 s pr pa pp inv hr ha hp hstk hrs has hps (t99 := t99) (t102 := t102) (t103 := t103) (t168 := t168) (t180 := t180) (t185 := t185) (t190 := t190) (t194 := t194) (t195 := t195) (t200 := t200) (t201 := t201) (t203 := t203) (t204 := t204) (t208 := t208) (t211 := t211) (t212 := t212) (t213 := t213) (t216 := t216) (t217 := t217) (t218 := t218) (t221 := t221) (t222 := t222) (t223 := t223) (t226 := t226) (t227 := t227) (t228 := t228) (t231 := t231) (t232 := t232) (t233 := t233) (t234 := t234) (t235 := t235) (t236 := t236) (t237 := t237) (p0 := p0) (p1 := p1) (p2 := p2) (p3 := p3) (p4 := p4) (p5 := p5) (h207 := h207) (h210 := h210) (h215 := h215) (h220 := h220) (h225 := h225) (h230 := h230) (l172 := l172) (l196 := l196) (l205 := l205) (l206 := l206) (l209 := l209) (l214 := l214) (l219 := l219) (l224 := l224) (l229 := l229) hl205 hl206 hh207 ht208 hl209 hh210 ht211 ht212 ht213 hl214 hh215 ht216 ht217 ht218 hl219 hh220 ht221 ht222 ht223 hl224 hh225 ht226 ht227 ht228 hl229 hh230 ht231 ht232 ht233 ht234 ht235 ht236 ht237
  have hq7 := fpsqr_part7 s pr pa pp inv hr ha hp hstk hrs has hps (t102 := t102) (t103 := t103) (t168 := t168) (t201 := t201) (t213 := t213) (t218 := t218) (t223 := t223) (t227 := t227) (t228 := t228) (t233 := t233) (t234 := t234) (t236 := t236) (t237 := t237) (t241 := t241) (t244 := t244) (t245 := t245) (t246 := t246) (t249 := t249) (t250 := t250) (t251 := t251) (t254 := t254) (t255 := t255) (t256 := t256) (t259 := t259) (t260 := t260) (t261 := t261) (t264 := t264) (t265 := t265) (t266 := t266) (t267 := t267) (t268 := t268) (t269 := t269) (t270 := t270) (p0 := p0) (p1 := p1) (p2 := p2) (p3 := p3) (p4 := p4) (p5 := p5) (h240 := h240) (h243 := h243) (h248 := h248) (h253 := h253) (h258 := h258) (h263 := h263) (l205 := l205) (l229 := l229) (l238 := l238) (l239 := l239) (l242 := l242) (l247 := l247) (l252 := l252) (l257 := l257) (l262 := l262) hl238 hl239 hh240 ht241 hl242 hh243 ht244 ht245 ht246 hl247 hh248 ht249 ht250 ht251 hl252 hh253 ht254 ht255 ht256 hl257 hh258 ht259 ht260 ht261 hl262 hh263 ht264 ht265 ht266 ht267 ht268 ht269 ht270
  have hq8 := fpsqr_part8 s pr pa pp inv hr ha hp hstk hrs has hps (t103 := t103) (t168 := t168) (t201 := t201) (t234 := t234) (t246 := t246) (t251 := t251) (t256 := t256) (t260 := t260) (t261 := t261) (t266 := t266) (t267 := t267) (t269 := t269) (t270 := t270) (t274 := t274) (t277 := t277) (t278 := t278) (t279 := t279) (t282 := t282) (t283 := t283) (t284 := t284) (t287 := t287) (t288 := t288) (t289 := t289) (t292 := t292) (t293 := t293) (t294 := t294) (t297 := t297) (t298 := t298) (t299 := t299) (t300 := t300) (t301 := t301) (t302 := t302) (p0 := p0) (p1 := p1) (p2 := p2) (p3 := p3) (p4 := p4) (p5 := p5) (h273 := h273) (h276 := h276) (h281 := h281) (h286 := h286) (h291 := h291) (h296 := h296) (l238 := l238) (l262 := l262) (l271 := l271) (l272 := l272) (l275 := l275) (l280 := l280) (l285 := l285) (l290 := l290) (l295 := l295) hl271 hl272 hh273 ht274 hl275 hh276 ht277 ht278 ht279 hl280 hh281 ht282 ht283 ht284 hl285 hh286 ht287 ht288 ht289 hl290 hh291 ht292 ht293 ht294 hl295 hh296 ht297 ht298 ht299 ht300 ht301 ht302
  have hpre : run embedded_pairing_core_arch_aarch64_fpbase_384_square s 303 = _ := show run embedded_pairing_core_arch_aarch64_fpbase_384_square s (30 + (39 + (35 + (35 + (33 + (33 + (33 + (33 + (32))))))))) = _ from run_chain hq0 (run_chain hq1 (run_chain hq2 (run_chain hq3 (run_chain hq4 (run_chain hq5 (run_chain hq6 (run_chain hq7 (hq8))))))))
  clear hq0 hq1 hq2 hq3 hq4 hq5 hq6 hq7 hq8
  have hprod := fpsqr_prod (t13 := t13) (t16 := t16) (t17 := t17) (t20 := t20) (t23 := t23) (t24 := t24) (t25 := t25) (t28 := t28) (t29 := t29) (t32 := t32) (t35 := t35) (t36 := t36) (t37 := t37) (t40 := t40) (t41 := t41) (t42 := t42) (t45 := t45) (t46 := t46) (t49 := t49) (t52 := t52) (t53 := t53) (t54 := t54) (t57 := t57) (t58 := t58) (t59 := t59) (t62 := t62) (t63 := t63) (t64 := t64) (t67 := t67) (t68 := t68) (t70 := t70) (t71 := t71) (t72 := t72) (t73 := t73) (t74 := t74) (t75 := t75) (t76 := t76) (t77 := t77) (t78 := t78) (t79 := t79) (t80 := t80) (t83 := t83) (t86 := t86) (t87 := t87) (t90 := t90) (t91 := t91) (t94 := t94) (t95 := t95) (t98 := t98) (t99 := t99) (t102 := t102) (t103 := t103) (a0 := a0) (a1 := a1) (a2 := a2) (a3 := a3) (a4 := a4) (a5 := a5) (h9 := h9) (h12 := h12) (h15 := h15) (h19 := h19) (h22 := h22) (h27 := h27) (h31 := h31) (h34 := h34) (h39 := h39) (h44 := h44) (h48 := h48) (h51 := h51) (h56 := h56) (h61 := h61) (h66 := h66) (h82 := h82) (h85 := h85) (h89 := h89) (h93 := h93) (h97 := h97) (l10 := l10) (l11 := l11) (l14 := l14) (l18 := l18) (l21 := l21) (l26 := l26) (l30 := l30) (l33 := l33) (l38 := l38) (l43 := l43) (l47 := l47) (l50 := l50) (l55 := l55) (l60 := l60) (l65 := l65) (l81 := l81) (l84 := l84) (l88 := l88) (l92 := l92) (l96 := l96) (h101 := h101) (l100 := l100) hh9 hl10 hl11 hh12 ht13 hl14 hh15 ht16 ht17 hl18 hh19 ht20 hl21 hh22 ht23 ht24 ht25 hl26 hh27 ht28 ht29 hl30 hh31 ht32 hl33 hh34 ht35 ht36 ht37 hl38 hh39 ht40 ht41 ht42 hl43 hh44 ht45 ht46 hl47 hh48 ht49 hl50 hh51 ht52 ht53 ht54 hl55 hh56 ht57 ht58 ht59 hl60 hh61 ht62 ht63 ht64 hl65 hh66 ht67 ht68 ht70 ht71 ht72 ht73 ht74 ht75 ht76 ht77 ht78 ht79 ht80 hl81 hh82 ht83 hl84 hh85 ht86 ht87 hl88 hh89 ht90 ht91 hl92 hh93 ht94 ht95 hl96 hh97 ht98 ht99 hl100 hh101 ht102 ht103
  obtain ⟨hR2, hRe⟩ := fpsqr_mont (t83 := t83) (t86 := t86) (t87 := t87) (t90 := t90) (t91 := t91) (t94 := t94) (t95 := t95) (t98 := t98) (t99 := t99) (t102 := t102) (t103 := t103) (t111 := t111) (t114 := t114) (t115 := t115) (t116 := t116) (t119 := t119) (t120 := t120) (t121 := t121) (t124 := t124) (t125 := t125) (t126 := t126) (t129 := t129) (t130 := t130) (t131 := t131) (t134 := t134) (t135 := t135) (t136 := t136) (t137 := t137) (t138 := t138) (t142 := t142) (t145 := t145) (t146 := t146) (t147 := t147) (t150 := t150) (t151 := t151) (t152 := t152) (t155 := t155) (t156 := t156) (t157 := t157) (t160 := t160) (t161 := t161) (t162 := t162) (t165 := t165) (t166 := t166) (t167 := t167) (t168 := t168) (t169 := t169) (t170 := t170) (t171 := t171) (t175 := t175) (t178 := t178) (t179 := t179) (t180 := t180) (t183 := t183) (t184 := t184) (t185 := t185) (t188 := t188) (t189 := t189) (t190 := t190) (t193 := t193) (t194 := t194) (t195 := t195) (t198 := t198) (t199 := t199) (t200 := t200) (t201 := t201) (t202 := t202) (t203 := t203) (t204 := t204) (t208 := t208) (t211 := t211) (t212 := t212) (t213 := t213) (t216 := t216) (t217 := t217) (t218 := t218) (t221 := t221) (t222 := t222) (t223 := t223) (t226 := t226) (t227 := t227) (t228 := t228) (t231 := t231) (t232 := t232) (t233 := t233) (t234 := t234) (t235 := t235) (t236 := t236) (t237 := t237) (t241 := t241) (t244 := t244) (t245 := t245) (t246 := t246) (t249 := t249) (t250 := t250) (t251 := t251) (t254 := t254) (t255 := t255) (t256 := t256) (t259 := t259) (t260 := t260) (t261 := t261) (t264 := t264) (t265 := t265) (t266 := t266) (t267 := t267) (t268 := t268) (t269 := t269) (t270 := t270) (t274 := t274) (t277 := t277) (t278 := t278) (t279 := t279) (t282 := t282) (t283 := t283) (t284 := t284) (t287 := t287) (t288 := t288) (t289 := t289) (t292 := t292) (t293 := t293) (t294 := t294) (t297 := t297) (t298 := t298) (t299 := t299) (t300 := t300) (t301 := t301) (t302 := t302) (p0 := p0) (p1 := p1) (p2 := p2) (p3 := p3) (p4 := p4) (p5 := p5) (inv := inv) (l81 := l81) (h110 := h110) (h113 := h113) (h118 := h118) (h123 := h123) (h128 := h128) (h133 := h133) (h141 := h141) (h144 := h144) (h149 := h149) (h154 := h154) (h159 := h159) (h164 := h164) (h174 := h174) (h177 := h177) (h182 := h182) (h187 := h187) (h192 := h192) (h197 := h197) (h207 := h207) (h210 := h210) (h215 := h215) (h220 := h220) (h225 := h225) (h230 := h230) (h240 := h240) (h243 := h243) (h248 := h248) (h253 := h253) (h258 := h258) (h263 := h263) (h273 := h273) (h276 := h276) (h281 := h281) (h286 := h286) (h291 := h291) (h296 := h296) (l108 := l108) (l109 := l109) (l112 := l112) (l117 := l117) (l122 := l122) (l127 := l127) (l132 := l132) (l139 := l139) (l140 := l140) (l143 := l143) (l148 := l148) (l153 := l153) (l158 := l158) (l163 := l163) (l172 := l172) (l173 := l173) (l176 := l176) (l181 := l181) (l186 := l186) (l191 := l191) (l196 := l196) (l205 := l205) (l206 := l206) (l209 := l209) (l214 := l214) (l219 := l219) (l224 := l224) (l229 := l229) (l238 := l238) (l239 := l239) (l242 := l242) (l247 := l247) (l252 := l252) (l257 := l257) (l262 := l262) (l271 := l271) (l272 := l272) (l275 := l275) (l280 := l280) (l285 := l285) (l290 := l290) (l295 := l295) hl108 hl109 hh110 ht111 hl112 hh113 ht114 ht115 ht116 hl117 hh118 ht119 ht120 ht121 hl122 hh123 ht124 ht125 ht126 hl127 hh128 ht129 ht130 ht131 hl132 hh133 ht134 ht135 ht136 ht137 ht138 hl139 hl140 hh141 ht142 hl143 hh144 ht145 ht146 ht147 hl148 hh149 ht150 ht151 ht152 hl153 hh154 ht155 ht156 ht157 hl158 hh159 ht160 ht161 ht162 hl163 hh164 ht165 ht166 ht167 ht168 ht169 ht170 ht171 hl172 hl173 hh174 ht175 hl176 hh177 ht178 ht179 ht180 hl181 hh182 ht183 ht184 ht185 hl186 hh187 ht188 ht189 ht190 hl191 hh192 ht193 ht194 ht195 hl196 hh197 ht198 ht199 ht200 ht201 ht202 ht203 ht204 hl205 hl206 hh207 ht208 hl209 hh210 ht211 ht212 ht213 hl214 hh215 ht216 ht217 ht218 hl219 hh220 ht221 ht222 ht223 hl224 hh225 ht226 ht227 ht228 hl229 hh230 ht231 ht232 ht233 ht234 ht235 ht236 ht237 hl238 hl239 hh240 ht241 hl242 hh243 ht244 ht245 ht246 hl247 hh248 ht249 ht250 ht251 hl252 hh253 ht254 ht255 ht256 hl257 hh258 ht259 ht260 ht261 hl262 hh263 ht264 ht265 ht266 ht267 ht268 ht269 ht270 hl271 hl272 hh273 ht274 hl275 hh276 ht277 ht278 ht279 hl280 hh281 ht282 ht283 ht284 hl285 hh286 ht287 ht288 ht289 hl290 hh291 ht292 ht293 ht294 hl295 hh296 ht297 ht298 ht299 ht300 ht301 ht302 hinv (by rw [hprod]; exact hAB) h2P
  rw [hprod] at hRe
  cases hb304 : (t303.c && !t303.z) with
  | true =>
    obtain ⟨s', e1, e2, e3, e4, e5⟩ := fpsqr_end_hi5 s pr pa pp inv hr ha hp hstk hrs has hps (t168 := t168) (t201 := t201) (t234 := t234) (t267 := t267) (t270 := t270) (t279 := t279) (t284 := t284) (t289 := t289) (t293 := t293) (t294 := t294) (t299 := t299) (t300 := t300) (t302 := t302) (t320 := t320) (t321 := t321) (t322 := t322) (t323 := t323) (t324 := t324) (t325 := t325) (p0 := p0) (p1 := p1) (p2 := p2) (p3 := p3) (p4 := p4) (p5 := p5) (l271 := l271) (l295 := l295) ht303 ht320 ht321 ht322 ht323 ht324 ht325 hb304 hR2 hRe
    exact ⟨s', run_fuel (run_chain hpre e1) e2.halted 334 (by decide), e2, e3, e4, e5⟩
  | false =>
    cases hb305 : (!t303.c) with
    | true =>
      obtain ⟨s', e1, e2, e3, e4, e5⟩ := fpsqr_end_lo5 s pr pa pp inv hr ha hp hstk hrs has hps (t168 := t168) (t201 := t201) (t234 := t234) (t267 := t267) (t270 := t270) (t279 := t279) (t284 := t284) (t289 := t289) (t293 := t293) (t294 := t294) (t299 := t299) (t300 := t300) (t302 := t302) (t303 := t303) (p0 := p0) (p1 := p1) (p2 := p2) (p3 := p3) (p4 := p4) (p5 := p5) (l271 := l271) (l295 := l295) ht303 hb304 hb305 hR2 hRe
      exact ⟨s', run_fuel (run_chain hpre e1) e2.halted 334 (by decide), e2, e3, e4, e5⟩
    | false =>
      cases hb307 : (t306.c && !t306.z) with
      | true =>
        obtain ⟨s', e1, e2, e3, e4, e5⟩ := fpsqr_end_hi4 s pr pa pp inv hr ha hp hstk hrs has hps (t168 := t168) (t201 := t201) (t234 := t234) (t267 := t267) (t270 := t270) (t279 := t279) (t284 := t284) (t289 := t289) (t293 := t293) (t294 := t294) (t299 := t299) (t300 := t300) (t302 := t302) (t320 := t320) (t321 := t321) (t322 := t322) (t323 := t323) (t324 := t324) (t325 := t325) (p0 := p0) (p1 := p1) (p2 := p2) (p3 := p3) (p4 := p4) (p5 := p5) (l271 := l271) (l295 := l295) ht303 ht306 ht320 ht321 ht322 ht323 ht324 ht325 hb304 hb305 hb307 hR2 hRe
        exact ⟨s', run_fuel (run_chain hpre e1) e2.halted 334 (by decide), e2, e3, e4, e5⟩
      | false =>
        cases hb308 : (!t306.c) with
        | true =>
          obtain ⟨s', e1, e2, e3, e4, e5⟩ := fpsqr_end_lo4 s pr pa pp inv hr ha hp hstk hrs has hps (t168 := t168) (t201 := t201) (t234 := t234) (t267 := t267) (t270 := t270) (t279 := t279) (t284 := t284) (t289 := t289) (t293 := t293) (t294 := t294) (t299 := t299) (t300 := t300) (t302 := t302) (t306 := t306) (p0 := p0) (p1 := p1) (p2 := p2) (p3 := p3) (p4 := p4) (p5 := p5) (l271 := l271) (l295 := l295) ht303 ht306 hb304 hb305 hb307 hb308 hR2 hRe
          exact ⟨s', run_fuel (run_chain hpre e1) e2.halted 334 (by decide), e2, e3, e4, e5⟩
        | false =>
          cases hb310 : (t309.c && !t309.z) with
          | true =>
            obtain ⟨s', e1, e2, e3, e4, e5⟩ := fpsqr_end_hi3 s pr pa pp inv hr ha hp hstk hrs has hps (t168 := t168) (t201 := t201) (t234 := t234) (t267 := t267) (t270 := t270) (t279 := t279) (t284 := t284) (t289 := t289) (t293 := t293) (t294 := t294) (t299 := t299) (t300 := t300) (t302 := t302) (t320 := t320) (t321 := t321) (t322 := t322) (t323 := t323) (t324 := t324) (t325 := t325) (p0 := p0) (p1 := p1) (p2 := p2) (p3 := p3) (p4 := p4) (p5 := p5) (l271 := l271) (l295 := l295) ht303 ht306 ht309 ht320 ht321 ht322 ht323 ht324 ht325 hb304 hb305 hb307 hb308 hb310 hR2 hRe
            exact ⟨s', run_fuel (run_chain hpre e1) e2.halted 334 (by decide), e2, e3, e4, e5⟩
          | false =>
            cases hb311 : (!t309.c) with
            | true =>
              obtain ⟨s', e1, e2, e3, e4, e5⟩ := fpsqr_end_lo3 s pr pa pp inv hr ha hp hstk hrs has hps (t168 := t168) (t201 := t201) (t234 := t234) (t267 := t267) (t270 := t270) (t279 := t279) (t284 := t284) (t289 := t289) (t293 := t293) (t294 := t294) (t299 := t299) (t300 := t300) (t302 := t302) (t309 := t309) (p0 := p0) (p1 := p1) (p2 := p2) (p3 := p3) (p4 := p4) (p5 := p5) (l271 := l271) (l295 := l295) ht303 ht306 ht309 hb304 hb305 hb307 hb308 hb310 hb311 hR2 hRe
              exact ⟨s', run_fuel (run_chain hpre e1) e2.halted 334 (by decide), e2, e3, e4, e5⟩
            | false =>
              cases hb313 : (t312.c && !t312.z) with
              | true =>
                obtain ⟨s', e1, e2, e3, e4, e5⟩ := fpsqr_end_hi2 s pr pa pp inv hr ha hp hstk hrs has hps (t168 := t168) (t201 := t201) (t234 := t234) (t267 := t267) (t270 := t270) (t279 := t279) (t284 := t284) (t289 := t289) (t293 := t293) (t294 := t294) (t299 := t299) (t300 := t300) (t302 := t302) (t320 := t320) (t321 := t321) (t322 := t322) (t323 := t323) (t324 := t324) (t325 := t325) (p0 := p0) (p1 := p1) (p2 := p2) (p3 := p3) (p4 := p4) (p5 := p5) (l271 := l271) (l295 := l295) ht303 ht306 ht309 ht312 ht320 ht321 ht322 ht323 ht324 ht325 hb304 hb305 hb307 hb308 hb310 hb311 hb313 hR2 hRe
                exact ⟨s', run_fuel (run_chain hpre e1) e2.halted 334 (by decide), e2, e3, e4, e5⟩
              | false =>
                cases hb314 : (!t312.c) with
                | true =>
                  obtain ⟨s', e1, e2, e3, e4, e5⟩ := fpsqr_end_lo2 s pr pa pp inv hr ha hp hstk hrs has hps (t168 := t168) (t201 := t201) (t234 := t234) (t267 := t267) (t270 := t270) (t279 := t279) (t284 := t284) (t289 := t289) (t293 := t293) (t294 := t294) (t299 := t299) (t300 := t300) (t302 := t302) (t312 := t312) (p0 := p0) (p1 := p1) (p2 := p2) (p3 := p3) (p4 := p4) (p5 := p5) (l271 := l271) (l295 := l295) ht303 ht306 ht309 ht312 hb304 hb305 hb307 hb308 hb310 hb311 hb313 hb314 hR2 hRe
                  exact ⟨s', run_fuel (run_chain hpre e1) e2.halted 334 (by decide), e2, e3, e4, e5⟩
                | false =>
                  cases hb316 : (t315.c && !t315.z) with
                  | true =>
                    obtain ⟨s', e1, e2, e3, e4, e5⟩ := fpsqr_end_hi1 s pr pa pp inv hr ha hp hstk hrs has hps (t168 := t168) (t201 := t201) (t234 := t234) (t267 := t267) (t270 := t270) (t279 := t279) (t284 := t284) (t289 := t289) (t293 := t293) (t294 := t294) (t299 := t299) (t300 := t300) (t302 := t302) (t320 := t320) (t321 := t321) (t322 := t322) (t323 := t323) (t324 := t324) (t325 := t325) (p0 := p0) (p1 := p1) (p2 := p2) (p3 := p3) (p4 := p4) (p5 := p5) (l271 := l271) (l295 := l295) ht303 ht306 ht309 ht312 ht315 ht320 ht321 ht322 ht323 ht324 ht325 hb304 hb305 hb307 hb308 hb310 hb311 hb313 hb314 hb316 hR2 hRe
                    exact ⟨s', run_fuel (run_chain hpre e1) e2.halted 334 (by decide), e2, e3, e4, e5⟩
                  | false =>
                    cases hb317 : (!t315.c) with
                    | true =>
                      obtain ⟨s', e1, e2, e3, e4, e5⟩ := fpsqr_end_lo1 s pr pa pp inv hr ha hp hstk hrs has hps (t168 := t168) (t201 := t201) (t234 := t234) (t267 := t267) (t270 := t270) (t279 := t279) (t284 := t284) (t289 := t289) (t293 := t293) (t294 := t294) (t299 := t299) (t300 := t300) (t302 := t302) (t315 := t315) (p0 := p0) (p1 := p1) (p2 := p2) (p3 := p3) (p4 := p4) (p5 := p5) (l271 := l271) (l295 := l295) ht303 ht306 ht309 ht312 ht315 hb304 hb305 hb307 hb308 hb310 hb311 hb313 hb314 hb316 hb317 hR2 hRe
                      exact ⟨s', run_fuel (run_chain hpre e1) e2.halted 334 (by decide), e2, e3, e4, e5⟩
                    | false =>
                      cases hb319 : (!t318.c) with
                      | true =>
                        obtain ⟨s', e1, e2, e3, e4, e5⟩ := fpsqr_end_lo0 s pr pa pp inv hr ha hp hstk hrs has hps (t168 := t168) (t201 := t201) (t234 := t234) (t267 := t267) (t270 := t270) (t279 := t279) (t284 := t284) (t289 := t289) (t293 := t293) (t294 := t294) (t299 := t299) (t300 := t300) (t302 := t302) (t318 := t318) (p0 := p0) (p1 := p1) (p2 := p2) (p3 := p3) (p4 := p4) (p5 := p5) (l271 := l271) (l295 := l295) ht303 ht306 ht309 ht312 ht315 ht318 hb304 hb305 hb307 hb308 hb310 hb311 hb313 hb314 hb316 hb317 hb319 hR2 hRe
                        exact ⟨s', run_fuel (run_chain hpre e1) e2.halted 334 (by decide), e2, e3, e4, e5⟩
                      | false =>
                        obtain ⟨s', e1, e2, e3, e4, e5⟩ := fpsqr_end_hs0 s pr pa pp inv hr ha hp hstk hrs has hps (t168 := t168) (t201 := t201) (t234 := t234) (t267 := t267) (t270 := t270) (t279 := t279) (t284 := t284) (t289 := t289) (t293 := t293) (t294 := t294) (t299 := t299) (t300 := t300) (t302 := t302) (t318 := t318) (t321e := t321e) (t322e := t322e) (t323e := t323e) (t324e := t324e) (t325e := t325e) (p0 := p0) (p1 := p1) (p2 := p2) (p3 := p3) (p4 := p4) (p5 := p5) (l271 := l271) (l295 := l295) ht303 ht306 ht309 ht312 ht315 ht318 ht321e ht322e ht323e ht324e ht325e hb304 hb305 hb307 hb308 hb310 hb311 hb313 hb314 hb316 hb317 hb319 hR2 hRe
                        exact ⟨s', run_fuel (run_chain hpre e1) e2.halted 334 (by decide), e2, e3, e4, e5⟩

end Jedi.A64
