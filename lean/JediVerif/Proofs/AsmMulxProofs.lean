/-
`bmi2_adx_bigint_768_multiply` (/repo/src/core/arch/x86_64/multiply_bmi2_adx.s: `mulx` with the two
independent carry chains of `adcx` (CF) and `adox` (OF)): for every entry state satisfying the calling
convention the twelve result limbs are `a · b`.  Same method as `AsmMulProofs.lean` (symbolic execution
in pieces over named intermediates); the arithmetic is one lemma per row of the schoolbook grid
(`adx_row0`, `adx_row`), which also proves that both chains end with carry 0 — the next row relies on it.
-/
import JediVerif.Proofs.AsmMulProofs

set_option linter.unusedSimpArgs false

namespace Jedi.X86
open Jedi.Impl (val WF val_cons val_nil val_lt val_inj)

/-! ## one row of the `mulx`/`adcx`/`adox` schoolbook grid

The low words of the six products go down the OF chain (`adox`: low word + previous high word), the
results down the CF chain (`adcx`: accumulator + that sum); the two closing `adcx`/`adox` with the zero
register fold both chains into the top word.  Neither of them can carry out (the row total is below
`2^448`), so the next row starts with CF = OF = 0 — which is part of what the row lemma says. -/

section adx
variable {a b0 b1 b2 b3 b4 b5 l0 l1 l2 l3 l4 l5 h0 h1 h2 h3 h4 h5 : Word}

set_option maxHeartbeats 1000000 in
set_option exponentiation.threshold 800 in
/-- first row: `a·b` for a one-word `a`, seven words -/
theorem adx_row0 {t1 t2 t3 t4 t5 v w : ArithRes}
    (hl0 : l0 = mulLo a b0) (hh0 : h0 = mulHi a b0) (hl1 : l1 = mulLo a b1) (hh1 : h1 = mulHi a b1)
    (hl2 : l2 = mulLo a b2) (hh2 : h2 = mulHi a b2) (hl3 : l3 = mulLo a b3) (hh3 : h3 = mulHi a b3)
    (hl4 : l4 = mulLo a b4) (hh4 : h4 = mulHi a b4) (hl5 : l5 = mulLo a b5) (hh5 : h5 = mulHi a b5)
    (ht1 : t1 = addc .q l1 h0 false) (ht2 : t2 = addc .q l2 h1 t1.cf) (ht3 : t3 = addc .q l3 h2 t2.cf)
    (ht4 : t4 = addc .q l4 h3 t3.cf) (ht5 : t5 = addc .q l5 h4 t4.cf)
    (hv : v = addc .q h5 (0#64) t5.cf) (hw : w = addc .q v.val (0#64) false) :
    val (2 ^ 64) [l0.toNat, t1.val.toNat, t2.val.toNat, t3.val.toNat, t4.val.toNat, t5.val.toNat, w.val.toNat]
      = a.toNat * val (2 ^ 64) [b0.toNat, b1.toNat, b2.toNat, b3.toNat, b4.toNat, b5.toNat] ∧
    v.cf = false ∧ w.cf = false := by
  have m0 := mul_spec a b0; rw [← hl0, ← hh0] at m0
  have m1 := mul_spec a b1; rw [← hl1, ← hh1] at m1
  have m2 := mul_spec a b2; rw [← hl2, ← hh2] at m2
  have m3 := mul_spec a b3; rw [← hl3, ← hh3] at m3
  have m4 := mul_spec a b4; rw [← hl4, ← hh4] at m4
  have m5 := mul_spec a b5; rw [← hl5, ← hh5] at m5
  have e1 := addc_spec l1 h0 false; rw [← ht1] at e1
  have e2 := addc_spec l2 h1 t1.cf; rw [← ht2] at e2
  have e3 := addc_spec l3 h2 t2.cf; rw [← ht3] at e3
  have e4 := addc_spec l4 h3 t3.cf; rw [← ht4] at e4
  have e5 := addc_spec l5 h4 t4.cf; rw [← ht5] at e5
  have ev := addc_spec h5 (0#64) t5.cf; rw [← hv] at ev
  have ew := addc_spec v.val (0#64) false; rw [← hw] at ew
  simp only [Bool.toNat_false, BitVec.toNat_ofNat, Nat.zero_mod, Nat.add_zero] at e1 ev ew
  have E : val (2 ^ 64) [l0.toNat, t1.val.toNat, t2.val.toNat, t3.val.toNat, t4.val.toNat, t5.val.toNat, w.val.toNat]
        + 2 ^ 448 * (v.cf.toNat + w.cf.toNat)
      = a.toNat * val (2 ^ 64) [b0.toNat, b1.toNat, b2.toNat, b3.toNat, b4.toNat, b5.toNat] := by
    simp only [val_cons, val_nil]
    linear_combination m0 + 2 ^ 64 * m1 + 2 ^ 128 * m2 + 2 ^ 192 * m3 + 2 ^ 256 * m4 + 2 ^ 320 * m5
      + 2 ^ 64 * e1 + 2 ^ 128 * e2 + 2 ^ 192 * e3 + 2 ^ 256 * e4 + 2 ^ 320 * e5 + 2 ^ 384 * ev + 2 ^ 384 * ew
  have hB := val6_lt b0 b1 b2 b3 b4 b5
  have hP : a.toNat * val (2 ^ 64) [b0.toNat, b1.toNat, b2.toNat, b3.toNat, b4.toNat, b5.toNat]
      ≤ (2 ^ 64 - 1) * (2 ^ 384 - 1) := Nat.mul_le_mul (by have := a.isLt; omega) (by omega)
  have hcv := Bool.toNat_le v.cf; have hcw := Bool.toNat_le w.cf
  have hz : v.cf.toNat + w.cf.toNat = 0 := by
    generalize a.toNat * val (2 ^ 64) [b0.toNat, b1.toNat, b2.toNat, b3.toNat, b4.toNat, b5.toNat] = P at *
    generalize val (2 ^ 64) [l0.toNat, t1.val.toNat, t2.val.toNat, t3.val.toNat, t4.val.toNat, t5.val.toNat,
      w.val.toNat] = R at *
    omega
  refine ⟨by rw [← E, hz]; rfl, ?_, ?_⟩
  · cases h : v.cf
    · rfl
    · rw [h] at hz; simp at hz
  · cases h : w.cf
    · rfl
    · rw [h] at hz; simp at hz

set_option maxHeartbeats 1000000 in
set_option exponentiation.threshold 800 in
/-- later rows: `d + a·b`, seven words, entered with CF = OF = 0 -/
theorem adx_row {d0 d1 d2 d3 d4 d5 : Word} {c o : Bool} {t s1 s2 s3 s4 s5 u1 u2 u3 u4 u5 v w : ArithRes}
    (hl0 : l0 = mulLo a b0) (hh0 : h0 = mulHi a b0) (hl1 : l1 = mulLo a b1) (hh1 : h1 = mulHi a b1)
    (hl2 : l2 = mulLo a b2) (hh2 : h2 = mulHi a b2) (hl3 : l3 = mulLo a b3) (hh3 : h3 = mulHi a b3)
    (hl4 : l4 = mulLo a b4) (hh4 : h4 = mulHi a b4) (hl5 : l5 = mulLo a b5) (hh5 : h5 = mulHi a b5)
    (ht : t = addc .q d0 l0 c)
    (hs1 : s1 = addc .q l1 h0 o) (hu1 : u1 = addc .q d1 s1.val t.cf)
    (hs2 : s2 = addc .q l2 h1 s1.cf) (hu2 : u2 = addc .q d2 s2.val u1.cf)
    (hs3 : s3 = addc .q l3 h2 s2.cf) (hu3 : u3 = addc .q d3 s3.val u2.cf)
    (hs4 : s4 = addc .q l4 h3 s3.cf) (hu4 : u4 = addc .q d4 s4.val u3.cf)
    (hs5 : s5 = addc .q l5 h4 s4.cf) (hu5 : u5 = addc .q d5 s5.val u4.cf)
    (hv : v = addc .q h5 (0#64) u5.cf) (hw : w = addc .q v.val (0#64) s5.cf)
    (hc : c = false) (ho : o = false) :
    val (2 ^ 64) [t.val.toNat, u1.val.toNat, u2.val.toNat, u3.val.toNat, u4.val.toNat, u5.val.toNat, w.val.toNat]
      = val (2 ^ 64) [d0.toNat, d1.toNat, d2.toNat, d3.toNat, d4.toNat, d5.toNat]
        + a.toNat * val (2 ^ 64) [b0.toNat, b1.toNat, b2.toNat, b3.toNat, b4.toNat, b5.toNat] ∧
    v.cf = false ∧ w.cf = false := by
  subst hc ho
  have m0 := mul_spec a b0; rw [← hl0, ← hh0] at m0
  have m1 := mul_spec a b1; rw [← hl1, ← hh1] at m1
  have m2 := mul_spec a b2; rw [← hl2, ← hh2] at m2
  have m3 := mul_spec a b3; rw [← hl3, ← hh3] at m3
  have m4 := mul_spec a b4; rw [← hl4, ← hh4] at m4
  have m5 := mul_spec a b5; rw [← hl5, ← hh5] at m5
  have et := addc_spec d0 l0 false; rw [← ht] at et
  have es1 := addc_spec l1 h0 false; rw [← hs1] at es1
  have es2 := addc_spec l2 h1 s1.cf; rw [← hs2] at es2
  have es3 := addc_spec l3 h2 s2.cf; rw [← hs3] at es3
  have es4 := addc_spec l4 h3 s3.cf; rw [← hs4] at es4
  have es5 := addc_spec l5 h4 s4.cf; rw [← hs5] at es5
  have eu1 := addc_spec d1 s1.val t.cf; rw [← hu1] at eu1
  have eu2 := addc_spec d2 s2.val u1.cf; rw [← hu2] at eu2
  have eu3 := addc_spec d3 s3.val u2.cf; rw [← hu3] at eu3
  have eu4 := addc_spec d4 s4.val u3.cf; rw [← hu4] at eu4
  have eu5 := addc_spec d5 s5.val u4.cf; rw [← hu5] at eu5
  have ev := addc_spec h5 (0#64) u5.cf; rw [← hv] at ev
  have ew := addc_spec v.val (0#64) s5.cf; rw [← hw] at ew
  simp only [Bool.toNat_false, BitVec.toNat_ofNat, Nat.zero_mod, Nat.add_zero] at et es1 ev ew
  have E : val (2 ^ 64) [t.val.toNat, u1.val.toNat, u2.val.toNat, u3.val.toNat, u4.val.toNat, u5.val.toNat,
          w.val.toNat] + 2 ^ 448 * (v.cf.toNat + w.cf.toNat)
      = val (2 ^ 64) [d0.toNat, d1.toNat, d2.toNat, d3.toNat, d4.toNat, d5.toNat]
        + a.toNat * val (2 ^ 64) [b0.toNat, b1.toNat, b2.toNat, b3.toNat, b4.toNat, b5.toNat] := by
    simp only [val_cons, val_nil]
    linear_combination m0 + 2 ^ 64 * m1 + 2 ^ 128 * m2 + 2 ^ 192 * m3 + 2 ^ 256 * m4 + 2 ^ 320 * m5
      + et + 2 ^ 64 * es1 + 2 ^ 128 * es2 + 2 ^ 192 * es3 + 2 ^ 256 * es4 + 2 ^ 320 * es5
      + 2 ^ 64 * eu1 + 2 ^ 128 * eu2 + 2 ^ 192 * eu3 + 2 ^ 256 * eu4 + 2 ^ 320 * eu5 + 2 ^ 384 * ev + 2 ^ 384 * ew
  have hB := val6_lt b0 b1 b2 b3 b4 b5
  have hD := val6_lt d0 d1 d2 d3 d4 d5
  have hP : a.toNat * val (2 ^ 64) [b0.toNat, b1.toNat, b2.toNat, b3.toNat, b4.toNat, b5.toNat]
      ≤ (2 ^ 64 - 1) * (2 ^ 384 - 1) := Nat.mul_le_mul (by have := a.isLt; omega) (by omega)
  have hcv := Bool.toNat_le v.cf; have hcw := Bool.toNat_le w.cf
  have hz : v.cf.toNat + w.cf.toNat = 0 := by
    generalize a.toNat * val (2 ^ 64) [b0.toNat, b1.toNat, b2.toNat, b3.toNat, b4.toNat, b5.toNat] = P at *
    generalize val (2 ^ 64) [d0.toNat, d1.toNat, d2.toNat, d3.toNat, d4.toNat, d5.toNat] = D at *
    generalize val (2 ^ 64) [t.val.toNat, u1.val.toNat, u2.val.toNat, u3.val.toNat, u4.val.toNat, u5.val.toNat,
      w.val.toNat] = R at *
    omega
  refine ⟨by rw [← E, hz]; rfl, ?_, ?_⟩
  · cases h : v.cf
    · rfl
    · rw [h] at hz; simp at hz
  · cases h : w.cf
    · rfl
    · rw [h] at hz; simp at hz

end adx

open Jedi.Gen.AsmX86

/-! ## symbolic execution, cut into pieces -/

set_option maxHeartbeats 1600000 in
theorem mulx768_part0 (s : State) (pr pa pb : Word)
    (hr : Buf s pr 12 true) (ha : Buf s pa 6 false) (hb : Buf s pb 6 false)
    (hra : X86.Disjoint pr 12 pa 6) (hrb : X86.Disjoint pr 12 pb 6)
    (hstk : Stack s 4) (hrs : OffStack s 4 pr 12) (has : OffStack s 4 pa 6) (hbs : OffStack s 4 pb 6) {a0 b0 b1 b2 b3 b4 b5 m7h m7l m9h m9l m11h m11l m13h m13l m15h m15l m17h m17l : Word} {t10 t12 t14 t16 t18 t19 t20 : ArithRes}
    (hst : s.status = .running) (hpc : s.pc = 0) (hdi : s.rdi = pr) (hsi : s.rsi = pa) (hdx : s.rdx = pb) (ha0 : a0 = s.mem (pa.toNat + 0)) (hb0 : b0 = s.mem (pb.toNat + 0)) (hb1 : b1 = s.mem (pb.toNat + 8))
    (hb2 : b2 = s.mem (pb.toNat + 16)) (hb3 : b3 = s.mem (pb.toNat + 24)) (hb4 : b4 = s.mem (pb.toNat + 32))
    (hb5 : b5 = s.mem (pb.toNat + 40)) (hm7l : m7l = mulLo a0 b0) (hm7h : m7h = mulHi a0 b0) (hm9l : m9l = mulLo a0 b1)
    (hm9h : m9h = mulHi a0 b1) (ht10 : t10 = addc .q m9l m7h false) (hm11l : m11l = mulLo a0 b2)
    (hm11h : m11h = mulHi a0 b2) (ht12 : t12 = addc .q m11l m9h t10.cf) (hm13l : m13l = mulLo a0 b3)
    (hm13h : m13h = mulHi a0 b3) (ht14 : t14 = addc .q m13l m11h t12.cf) (hm15l : m15l = mulLo a0 b4)
    (hm15h : m15h = mulHi a0 b4) (ht16 : t16 = addc .q m15l m13h t14.cf) (hm17l : m17l = mulLo a0 b5)
    (hm17h : m17h = mulHi a0 b5) (ht18 : t18 = addc .q m17l m15h t16.cf) (ht19 : t19 = addc .q m17h (0#64) t18.cf)
    (ht20 : t20 = addc .q t19.val (0#64) false) :
    run embedded_pairing_core_arch_x86_64_bmi2_adx_bigint_768_multiply s 21
      = ({ rax := m7l, rcx := pb, rdx := a0, rbx := (0#64), rsp := s.rsp - 8 - 8 - 8 - 8, rbp := s.rbp, rsi := pa, rdi := pr, r8 := m15h, r9 := t10.val, r10 := t12.val, r11 := t14.val, r12 := t16.val, r13 := t18.val, r14 := t20.val, r15 := s.r15, cf := some t19.cf, zf := some ((0#64) == 0), sf := some (msb .q (0#64)), of := some t20.cf, mem := setMem (setMem (setMem (setMem (setMem (s.mem) (s.rsp.toNat - 8) s.rbx) (s.rsp.toNat - 8 - 8) s.r12) (s.rsp.toNat - 8 - 8 - 8) s.r13) (s.rsp.toNat - 8 - 8 - 8 - 8) s.r14) (pr.toNat + 0) m7l, readable := s.readable, writable := s.writable, cpuidFn := s.cpuidFn, pc := 21, status := .running } : State) := by
  obtain ⟨ra0, ra1, ra2, ra3, ra4, ra5⟩ := ha.r6
  obtain ⟨⟨alra0, alra1, alra2, alra3, alra4, alra5⟩, fra0, fra1, fra2, fra3, fra4, fra5⟩ := ha.addr6
  obtain ⟨rb0, rb1, rb2, rb3, rb4, rb5⟩ := hb.r6
  obtain ⟨⟨alrb0, alrb1, alrb2, alrb3, alrb4, alrb5⟩, frb0, frb1, frb2, frb3, frb4, frb5⟩ := hb.addr6
  obtain ⟨rr0, rr1, rr2, rr3, rr4, rr5, rr6, rr7, rr8, rr9, rr10, rr11⟩ := hr.r12
  obtain ⟨wr0, wr1, wr2, wr3, wr4, wr5, wr6, wr7, wr8, wr9, wr10, wr11⟩ := hr.w12
  obtain ⟨⟨alrr0, alrr1, alrr2, alrr3, alrr4, alrr5, alrr6, alrr7, alrr8, alrr9, alrr10, alrr11⟩, frr0, frr1, frr2, frr3, frr4, frr5, frr6, frr7, frr8, frr9, frr10, frr11⟩ := hr.addr12
  obtain ⟨als0, rs0⟩ := hstk.f0
  obtain ⟨room1, als1, sr1, sw1⟩ := hstk.f1 (by omega)
  obtain ⟨room2, als2, sr2, sw2⟩ := hstk.f2 (by omega)
  obtain ⟨room3, als3, sr3, sw3⟩ := hstk.f3 (by omega)
  obtain ⟨room4, als4, sr4, sw4⟩ := hstk.f4 (by omega)
  replace hra := Hide.mk hra; replace hrb := Hide.mk hrb; replace hrs := Hide.mk hrs
  replace has := Hide.mk has; replace hbs := Hide.mk hbs
  simp only [X86.Disjoint, OffStack] at hra hrb hrs has hbs
  clear ha hb hr hstk
  rw [State.eta s]
  x86_sym [hst, hpc, hdi, hsi, hdx, sub8x3_toNat, sub8x4_toNat, mulLo_fold, mulHi_fold, logic, BitVec.xor_self, ← ha0, ← hb0, ← hb1, ← hb2, ← hb3, ← hb4, ← hb5, ← hm7l, ← hm7h, ← hm9l, ← hm9h, ← ht10, ← hm11l, ← hm11h, ← ht12, ← hm13l, ← hm13h, ← ht14, ← hm15l, ← hm15h, ← ht16, ← hm17l, ← hm17h, ← ht18, ← ht19, ← ht20]

set_option maxHeartbeats 1600000 in
theorem mulx768_part1 (s : State) (pr pa pb : Word)
    (hr : Buf s pr 12 true) (ha : Buf s pa 6 false) (hb : Buf s pb 6 false)
    (hra : X86.Disjoint pr 12 pa 6) (hrb : X86.Disjoint pr 12 pb 6)
    (hstk : Stack s 4) (hrs : OffStack s 4 pr 12) (has : OffStack s 4 pa 6) (hbs : OffStack s 4 pb 6) {a0 a1 b0 b1 b2 b3 b4 b5 m7l m15h m22h m22l m25h m25l m28h m28l m31h m31l m34h m34l m37h m37l : Word} {t10 t12 t14 t16 t18 t19 t20 t23 t26 t27 t29 t30 t32 t33 t35 t36 t38 t39 t40 t41 : ArithRes}
    (ha1 : a1 = s.mem (pa.toNat + 8)) (hb0 : b0 = s.mem (pb.toNat + 0)) (hb1 : b1 = s.mem (pb.toNat + 8))
    (hb2 : b2 = s.mem (pb.toNat + 16)) (hb3 : b3 = s.mem (pb.toNat + 24)) (hb4 : b4 = s.mem (pb.toNat + 32))
    (hb5 : b5 = s.mem (pb.toNat + 40)) (hm22l : m22l = mulLo a1 b0) (hm22h : m22h = mulHi a1 b0)
    (ht23 : t23 = addc .q t10.val m22l t19.cf) (hm25l : m25l = mulLo a1 b1) (hm25h : m25h = mulHi a1 b1)
    (ht26 : t26 = addc .q m25l m22h t20.cf) (ht27 : t27 = addc .q t12.val t26.val t23.cf) (hm28l : m28l = mulLo a1 b2)
    (hm28h : m28h = mulHi a1 b2) (ht29 : t29 = addc .q m28l m25h t26.cf) (ht30 : t30 = addc .q t14.val t29.val t27.cf)
    (hm31l : m31l = mulLo a1 b3) (hm31h : m31h = mulHi a1 b3) (ht32 : t32 = addc .q m31l m28h t29.cf)
    (ht33 : t33 = addc .q t16.val t32.val t30.cf) (hm34l : m34l = mulLo a1 b4) (hm34h : m34h = mulHi a1 b4)
    (ht35 : t35 = addc .q m34l m31h t32.cf) (ht36 : t36 = addc .q t18.val t35.val t33.cf) (hm37l : m37l = mulLo a1 b5)
    (hm37h : m37h = mulHi a1 b5) (ht38 : t38 = addc .q m37l m34h t35.cf) (ht39 : t39 = addc .q t20.val t38.val t36.cf)
    (ht40 : t40 = addc .q m37h (0#64) t39.cf) (ht41 : t41 = addc .q t40.val (0#64) t38.cf) :
    run embedded_pairing_core_arch_x86_64_bmi2_adx_bigint_768_multiply ({ rax := m7l, rcx := pb, rdx := a0, rbx := (0#64), rsp := s.rsp - 8 - 8 - 8 - 8, rbp := s.rbp, rsi := pa, rdi := pr, r8 := m15h, r9 := t10.val, r10 := t12.val, r11 := t14.val, r12 := t16.val, r13 := t18.val, r14 := t20.val, r15 := s.r15, cf := some t19.cf, zf := some ((0#64) == 0), sf := some (msb .q (0#64)), of := some t20.cf, mem := setMem (setMem (setMem (setMem (setMem (s.mem) (s.rsp.toNat - 8) s.rbx) (s.rsp.toNat - 8 - 8) s.r12) (s.rsp.toNat - 8 - 8 - 8) s.r13) (s.rsp.toNat - 8 - 8 - 8 - 8) s.r14) (pr.toNat + 0) m7l, readable := s.readable, writable := s.writable, cpuidFn := s.cpuidFn, pc := 21, status := .running } : State) 21
      = ({ rax := t38.val, rcx := pb, rdx := a1, rbx := (0#64), rsp := s.rsp - 8 - 8 - 8 - 8, rbp := s.rbp, rsi := pa, rdi := pr, r8 := m34h, r9 := t41.val, r10 := t27.val, r11 := t30.val, r12 := t33.val, r13 := t36.val, r14 := t39.val, r15 := s.r15, cf := some t40.cf, zf := some ((0#64) == 0), sf := some (msb .q (0#64)), of := some t41.cf, mem := setMem (setMem (setMem (setMem (setMem (setMem (s.mem) (s.rsp.toNat - 8) s.rbx) (s.rsp.toNat - 8 - 8) s.r12) (s.rsp.toNat - 8 - 8 - 8) s.r13) (s.rsp.toNat - 8 - 8 - 8 - 8) s.r14) (pr.toNat + 0) m7l) (pr.toNat + 8) t23.val, readable := s.readable, writable := s.writable, cpuidFn := s.cpuidFn, pc := 42, status := .running } : State) := by
  obtain ⟨ra0, ra1, ra2, ra3, ra4, ra5⟩ := ha.r6
  obtain ⟨⟨alra0, alra1, alra2, alra3, alra4, alra5⟩, fra0, fra1, fra2, fra3, fra4, fra5⟩ := ha.addr6
  obtain ⟨rb0, rb1, rb2, rb3, rb4, rb5⟩ := hb.r6
  obtain ⟨⟨alrb0, alrb1, alrb2, alrb3, alrb4, alrb5⟩, frb0, frb1, frb2, frb3, frb4, frb5⟩ := hb.addr6
  obtain ⟨rr0, rr1, rr2, rr3, rr4, rr5, rr6, rr7, rr8, rr9, rr10, rr11⟩ := hr.r12
  obtain ⟨wr0, wr1, wr2, wr3, wr4, wr5, wr6, wr7, wr8, wr9, wr10, wr11⟩ := hr.w12
  obtain ⟨⟨alrr0, alrr1, alrr2, alrr3, alrr4, alrr5, alrr6, alrr7, alrr8, alrr9, alrr10, alrr11⟩, frr0, frr1, frr2, frr3, frr4, frr5, frr6, frr7, frr8, frr9, frr10, frr11⟩ := hr.addr12
  obtain ⟨als0, rs0⟩ := hstk.f0
  obtain ⟨room1, als1, sr1, sw1⟩ := hstk.f1 (by omega)
  obtain ⟨room2, als2, sr2, sw2⟩ := hstk.f2 (by omega)
  obtain ⟨room3, als3, sr3, sw3⟩ := hstk.f3 (by omega)
  obtain ⟨room4, als4, sr4, sw4⟩ := hstk.f4 (by omega)
  replace hra := Hide.mk hra; replace hrb := Hide.mk hrb; replace hrs := Hide.mk hrs
  replace has := Hide.mk has; replace hbs := Hide.mk hbs
  simp only [X86.Disjoint, OffStack] at hra hrb hrs has hbs
  clear ha hb hr hstk
  x86_sym [sub8x3_toNat, sub8x4_toNat, mulLo_fold, mulHi_fold, logic, BitVec.xor_self, ← ha1, ← hb0, ← hb1, ← hb2, ← hb3, ← hb4, ← hb5, ← hm22l, ← hm22h, ← ht23, ← hm25l, ← hm25h, ← ht26, ← ht27, ← hm28l, ← hm28h, ← ht29, ← ht30, ← hm31l, ← hm31h, ← ht32, ← ht33, ← hm34l, ← hm34h, ← ht35, ← ht36, ← hm37l, ← hm37h, ← ht38, ← ht39, ← ht40, ← ht41]

set_option maxHeartbeats 1600000 in
theorem mulx768_part2 (s : State) (pr pa pb : Word)
    (hr : Buf s pr 12 true) (ha : Buf s pa 6 false) (hb : Buf s pb 6 false)
    (hra : X86.Disjoint pr 12 pa 6) (hrb : X86.Disjoint pr 12 pb 6)
    (hstk : Stack s 4) (hrs : OffStack s 4 pr 12) (has : OffStack s 4 pa 6) (hbs : OffStack s 4 pb 6) {a1 a2 b0 b1 b2 b3 b4 b5 m7l m34h m43h m43l m46h m46l m49h m49l m52h m52l m55h m55l m58h m58l : Word} {t23 t27 t30 t33 t36 t38 t39 t40 t41 t44 t47 t48 t50 t51 t53 t54 t56 t57 t59 t60 t61 t62 : ArithRes}
    (ha2 : a2 = s.mem (pa.toNat + 16)) (hb0 : b0 = s.mem (pb.toNat + 0)) (hb1 : b1 = s.mem (pb.toNat + 8))
    (hb2 : b2 = s.mem (pb.toNat + 16)) (hb3 : b3 = s.mem (pb.toNat + 24)) (hb4 : b4 = s.mem (pb.toNat + 32))
    (hb5 : b5 = s.mem (pb.toNat + 40)) (hm43l : m43l = mulLo a2 b0) (hm43h : m43h = mulHi a2 b0)
    (ht44 : t44 = addc .q t27.val m43l t40.cf) (hm46l : m46l = mulLo a2 b1) (hm46h : m46h = mulHi a2 b1)
    (ht47 : t47 = addc .q m46l m43h t41.cf) (ht48 : t48 = addc .q t30.val t47.val t44.cf) (hm49l : m49l = mulLo a2 b2)
    (hm49h : m49h = mulHi a2 b2) (ht50 : t50 = addc .q m49l m46h t47.cf) (ht51 : t51 = addc .q t33.val t50.val t48.cf)
    (hm52l : m52l = mulLo a2 b3) (hm52h : m52h = mulHi a2 b3) (ht53 : t53 = addc .q m52l m49h t50.cf)
    (ht54 : t54 = addc .q t36.val t53.val t51.cf) (hm55l : m55l = mulLo a2 b4) (hm55h : m55h = mulHi a2 b4)
    (ht56 : t56 = addc .q m55l m52h t53.cf) (ht57 : t57 = addc .q t39.val t56.val t54.cf) (hm58l : m58l = mulLo a2 b5)
    (hm58h : m58h = mulHi a2 b5) (ht59 : t59 = addc .q m58l m55h t56.cf) (ht60 : t60 = addc .q t41.val t59.val t57.cf)
    (ht61 : t61 = addc .q m58h (0#64) t60.cf) (ht62 : t62 = addc .q t61.val (0#64) t59.cf) :
    run embedded_pairing_core_arch_x86_64_bmi2_adx_bigint_768_multiply ({ rax := t38.val, rcx := pb, rdx := a1, rbx := (0#64), rsp := s.rsp - 8 - 8 - 8 - 8, rbp := s.rbp, rsi := pa, rdi := pr, r8 := m34h, r9 := t41.val, r10 := t27.val, r11 := t30.val, r12 := t33.val, r13 := t36.val, r14 := t39.val, r15 := s.r15, cf := some t40.cf, zf := some ((0#64) == 0), sf := some (msb .q (0#64)), of := some t41.cf, mem := setMem (setMem (setMem (setMem (setMem (setMem (s.mem) (s.rsp.toNat - 8) s.rbx) (s.rsp.toNat - 8 - 8) s.r12) (s.rsp.toNat - 8 - 8 - 8) s.r13) (s.rsp.toNat - 8 - 8 - 8 - 8) s.r14) (pr.toNat + 0) m7l) (pr.toNat + 8) t23.val, readable := s.readable, writable := s.writable, cpuidFn := s.cpuidFn, pc := 42, status := .running } : State) 21
      = ({ rax := t59.val, rcx := pb, rdx := a2, rbx := (0#64), rsp := s.rsp - 8 - 8 - 8 - 8, rbp := s.rbp, rsi := pa, rdi := pr, r8 := m55h, r9 := t60.val, r10 := t62.val, r11 := t48.val, r12 := t51.val, r13 := t54.val, r14 := t57.val, r15 := s.r15, cf := some t61.cf, zf := some ((0#64) == 0), sf := some (msb .q (0#64)), of := some t62.cf, mem := setMem (setMem (setMem (setMem (setMem (setMem (setMem (s.mem) (s.rsp.toNat - 8) s.rbx) (s.rsp.toNat - 8 - 8) s.r12) (s.rsp.toNat - 8 - 8 - 8) s.r13) (s.rsp.toNat - 8 - 8 - 8 - 8) s.r14) (pr.toNat + 0) m7l) (pr.toNat + 8) t23.val) (pr.toNat + 16) t44.val, readable := s.readable, writable := s.writable, cpuidFn := s.cpuidFn, pc := 63, status := .running } : State) := by
  obtain ⟨ra0, ra1, ra2, ra3, ra4, ra5⟩ := ha.r6
  obtain ⟨⟨alra0, alra1, alra2, alra3, alra4, alra5⟩, fra0, fra1, fra2, fra3, fra4, fra5⟩ := ha.addr6
  obtain ⟨rb0, rb1, rb2, rb3, rb4, rb5⟩ := hb.r6
  obtain ⟨⟨alrb0, alrb1, alrb2, alrb3, alrb4, alrb5⟩, frb0, frb1, frb2, frb3, frb4, frb5⟩ := hb.addr6
  obtain ⟨rr0, rr1, rr2, rr3, rr4, rr5, rr6, rr7, rr8, rr9, rr10, rr11⟩ := hr.r12
  obtain ⟨wr0, wr1, wr2, wr3, wr4, wr5, wr6, wr7, wr8, wr9, wr10, wr11⟩ := hr.w12
  obtain ⟨⟨alrr0, alrr1, alrr2, alrr3, alrr4, alrr5, alrr6, alrr7, alrr8, alrr9, alrr10, alrr11⟩, frr0, frr1, frr2, frr3, frr4, frr5, frr6, frr7, frr8, frr9, frr10, frr11⟩ := hr.addr12
  obtain ⟨als0, rs0⟩ := hstk.f0
  obtain ⟨room1, als1, sr1, sw1⟩ := hstk.f1 (by omega)
  obtain ⟨room2, als2, sr2, sw2⟩ := hstk.f2 (by omega)
  obtain ⟨room3, als3, sr3, sw3⟩ := hstk.f3 (by omega)
  obtain ⟨room4, als4, sr4, sw4⟩ := hstk.f4 (by omega)
  replace hra := Hide.mk hra; replace hrb := Hide.mk hrb; replace hrs := Hide.mk hrs
  replace has := Hide.mk has; replace hbs := Hide.mk hbs
  simp only [X86.Disjoint, OffStack] at hra hrb hrs has hbs
  clear ha hb hr hstk
  x86_sym [sub8x3_toNat, sub8x4_toNat, mulLo_fold, mulHi_fold, logic, BitVec.xor_self, ← ha2, ← hb0, ← hb1, ← hb2, ← hb3, ← hb4, ← hb5, ← hm43l, ← hm43h, ← ht44, ← hm46l, ← hm46h, ← ht47, ← ht48, ← hm49l, ← hm49h, ← ht50, ← ht51, ← hm52l, ← hm52h, ← ht53, ← ht54, ← hm55l, ← hm55h, ← ht56, ← ht57, ← hm58l, ← hm58h, ← ht59, ← ht60, ← ht61, ← ht62]

set_option maxHeartbeats 1600000 in
theorem mulx768_part3 (s : State) (pr pa pb : Word)
    (hr : Buf s pr 12 true) (ha : Buf s pa 6 false) (hb : Buf s pb 6 false)
    (hra : X86.Disjoint pr 12 pa 6) (hrb : X86.Disjoint pr 12 pb 6)
    (hstk : Stack s 4) (hrs : OffStack s 4 pr 12) (has : OffStack s 4 pa 6) (hbs : OffStack s 4 pb 6) {a2 a3 b0 b1 b2 b3 b4 b5 m7l m55h m64h m64l m67h m67l m70h m70l m73h m73l m76h m76l m79h m79l : Word} {t23 t44 t48 t51 t54 t57 t59 t60 t61 t62 t65 t68 t69 t71 t72 t74 t75 t77 t78 t80 t81 t82 t83 : ArithRes}
    (ha3 : a3 = s.mem (pa.toNat + 24)) (hb0 : b0 = s.mem (pb.toNat + 0)) (hb1 : b1 = s.mem (pb.toNat + 8))
    (hb2 : b2 = s.mem (pb.toNat + 16)) (hb3 : b3 = s.mem (pb.toNat + 24)) (hb4 : b4 = s.mem (pb.toNat + 32))
    (hb5 : b5 = s.mem (pb.toNat + 40)) (hm64l : m64l = mulLo a3 b0) (hm64h : m64h = mulHi a3 b0)
    (ht65 : t65 = addc .q t48.val m64l t61.cf) (hm67l : m67l = mulLo a3 b1) (hm67h : m67h = mulHi a3 b1)
    (ht68 : t68 = addc .q m67l m64h t62.cf) (ht69 : t69 = addc .q t51.val t68.val t65.cf) (hm70l : m70l = mulLo a3 b2)
    (hm70h : m70h = mulHi a3 b2) (ht71 : t71 = addc .q m70l m67h t68.cf) (ht72 : t72 = addc .q t54.val t71.val t69.cf)
    (hm73l : m73l = mulLo a3 b3) (hm73h : m73h = mulHi a3 b3) (ht74 : t74 = addc .q m73l m70h t71.cf)
    (ht75 : t75 = addc .q t57.val t74.val t72.cf) (hm76l : m76l = mulLo a3 b4) (hm76h : m76h = mulHi a3 b4)
    (ht77 : t77 = addc .q m76l m73h t74.cf) (ht78 : t78 = addc .q t60.val t77.val t75.cf) (hm79l : m79l = mulLo a3 b5)
    (hm79h : m79h = mulHi a3 b5) (ht80 : t80 = addc .q m79l m76h t77.cf) (ht81 : t81 = addc .q t62.val t80.val t78.cf)
    (ht82 : t82 = addc .q m79h (0#64) t81.cf) (ht83 : t83 = addc .q t82.val (0#64) t80.cf) :
    run embedded_pairing_core_arch_x86_64_bmi2_adx_bigint_768_multiply ({ rax := t59.val, rcx := pb, rdx := a2, rbx := (0#64), rsp := s.rsp - 8 - 8 - 8 - 8, rbp := s.rbp, rsi := pa, rdi := pr, r8 := m55h, r9 := t60.val, r10 := t62.val, r11 := t48.val, r12 := t51.val, r13 := t54.val, r14 := t57.val, r15 := s.r15, cf := some t61.cf, zf := some ((0#64) == 0), sf := some (msb .q (0#64)), of := some t62.cf, mem := setMem (setMem (setMem (setMem (setMem (setMem (setMem (s.mem) (s.rsp.toNat - 8) s.rbx) (s.rsp.toNat - 8 - 8) s.r12) (s.rsp.toNat - 8 - 8 - 8) s.r13) (s.rsp.toNat - 8 - 8 - 8 - 8) s.r14) (pr.toNat + 0) m7l) (pr.toNat + 8) t23.val) (pr.toNat + 16) t44.val, readable := s.readable, writable := s.writable, cpuidFn := s.cpuidFn, pc := 63, status := .running } : State) 21
      = ({ rax := t80.val, rcx := pb, rdx := a3, rbx := (0#64), rsp := s.rsp - 8 - 8 - 8 - 8, rbp := s.rbp, rsi := pa, rdi := pr, r8 := m76h, r9 := t78.val, r10 := t81.val, r11 := t83.val, r12 := t69.val, r13 := t72.val, r14 := t75.val, r15 := s.r15, cf := some t82.cf, zf := some ((0#64) == 0), sf := some (msb .q (0#64)), of := some t83.cf, mem := setMem (setMem (setMem (setMem (setMem (setMem (setMem (setMem (s.mem) (s.rsp.toNat - 8) s.rbx) (s.rsp.toNat - 8 - 8) s.r12) (s.rsp.toNat - 8 - 8 - 8) s.r13) (s.rsp.toNat - 8 - 8 - 8 - 8) s.r14) (pr.toNat + 0) m7l) (pr.toNat + 8) t23.val) (pr.toNat + 16) t44.val) (pr.toNat + 24) t65.val, readable := s.readable, writable := s.writable, cpuidFn := s.cpuidFn, pc := 84, status := .running } : State) := by
  obtain ⟨ra0, ra1, ra2, ra3, ra4, ra5⟩ := ha.r6
  obtain ⟨⟨alra0, alra1, alra2, alra3, alra4, alra5⟩, fra0, fra1, fra2, fra3, fra4, fra5⟩ := ha.addr6
  obtain ⟨rb0, rb1, rb2, rb3, rb4, rb5⟩ := hb.r6
  obtain ⟨⟨alrb0, alrb1, alrb2, alrb3, alrb4, alrb5⟩, frb0, frb1, frb2, frb3, frb4, frb5⟩ := hb.addr6
  obtain ⟨rr0, rr1, rr2, rr3, rr4, rr5, rr6, rr7, rr8, rr9, rr10, rr11⟩ := hr.r12
  obtain ⟨wr0, wr1, wr2, wr3, wr4, wr5, wr6, wr7, wr8, wr9, wr10, wr11⟩ := hr.w12
  obtain ⟨⟨alrr0, alrr1, alrr2, alrr3, alrr4, alrr5, alrr6, alrr7, alrr8, alrr9, alrr10, alrr11⟩, frr0, frr1, frr2, frr3, frr4, frr5, frr6, frr7, frr8, frr9, frr10, frr11⟩ := hr.addr12
  obtain ⟨als0, rs0⟩ := hstk.f0
  obtain ⟨room1, als1, sr1, sw1⟩ := hstk.f1 (by omega)
  obtain ⟨room2, als2, sr2, sw2⟩ := hstk.f2 (by omega)
  obtain ⟨room3, als3, sr3, sw3⟩ := hstk.f3 (by omega)
  obtain ⟨room4, als4, sr4, sw4⟩ := hstk.f4 (by omega)
  replace hra := Hide.mk hra; replace hrb := Hide.mk hrb; replace hrs := Hide.mk hrs
  replace has := Hide.mk has; replace hbs := Hide.mk hbs
  simp only [X86.Disjoint, OffStack] at hra hrb hrs has hbs
  clear ha hb hr hstk
  x86_sym [sub8x3_toNat, sub8x4_toNat, mulLo_fold, mulHi_fold, logic, BitVec.xor_self, ← ha3, ← hb0, ← hb1, ← hb2, ← hb3, ← hb4, ← hb5, ← hm64l, ← hm64h, ← ht65, ← hm67l, ← hm67h, ← ht68, ← ht69, ← hm70l, ← hm70h, ← ht71, ← ht72, ← hm73l, ← hm73h, ← ht74, ← ht75, ← hm76l, ← hm76h, ← ht77, ← ht78, ← hm79l, ← hm79h, ← ht80, ← ht81, ← ht82, ← ht83]

set_option maxHeartbeats 1600000 in
theorem mulx768_part4 (s : State) (pr pa pb : Word)
    (hr : Buf s pr 12 true) (ha : Buf s pa 6 false) (hb : Buf s pb 6 false)
    (hra : X86.Disjoint pr 12 pa 6) (hrb : X86.Disjoint pr 12 pb 6)
    (hstk : Stack s 4) (hrs : OffStack s 4 pr 12) (has : OffStack s 4 pa 6) (hbs : OffStack s 4 pb 6) {a3 a4 b0 b1 b2 b3 b4 b5 m7l m76h m85h m85l m88h m88l m91h m91l m94h m94l m97h m97l m100h m100l : Word} {t23 t44 t65 t69 t72 t75 t78 t80 t81 t82 t83 t86 t89 t90 t92 t93 t95 t96 t98 t99 t101 t102 t103 t104 : ArithRes}
    (ha4 : a4 = s.mem (pa.toNat + 32)) (hb0 : b0 = s.mem (pb.toNat + 0)) (hb1 : b1 = s.mem (pb.toNat + 8))
    (hb2 : b2 = s.mem (pb.toNat + 16)) (hb3 : b3 = s.mem (pb.toNat + 24)) (hb4 : b4 = s.mem (pb.toNat + 32))
    (hb5 : b5 = s.mem (pb.toNat + 40)) (hm85l : m85l = mulLo a4 b0) (hm85h : m85h = mulHi a4 b0)
    (ht86 : t86 = addc .q t69.val m85l t82.cf) (hm88l : m88l = mulLo a4 b1) (hm88h : m88h = mulHi a4 b1)
    (ht89 : t89 = addc .q m88l m85h t83.cf) (ht90 : t90 = addc .q t72.val t89.val t86.cf) (hm91l : m91l = mulLo a4 b2)
    (hm91h : m91h = mulHi a4 b2) (ht92 : t92 = addc .q m91l m88h t89.cf) (ht93 : t93 = addc .q t75.val t92.val t90.cf)
    (hm94l : m94l = mulLo a4 b3) (hm94h : m94h = mulHi a4 b3) (ht95 : t95 = addc .q m94l m91h t92.cf)
    (ht96 : t96 = addc .q t78.val t95.val t93.cf) (hm97l : m97l = mulLo a4 b4) (hm97h : m97h = mulHi a4 b4)
    (ht98 : t98 = addc .q m97l m94h t95.cf) (ht99 : t99 = addc .q t81.val t98.val t96.cf) (hm100l : m100l = mulLo a4 b5)
    (hm100h : m100h = mulHi a4 b5) (ht101 : t101 = addc .q m100l m97h t98.cf)
    (ht102 : t102 = addc .q t83.val t101.val t99.cf) (ht103 : t103 = addc .q m100h (0#64) t102.cf)
    (ht104 : t104 = addc .q t103.val (0#64) t101.cf) :
    run embedded_pairing_core_arch_x86_64_bmi2_adx_bigint_768_multiply ({ rax := t80.val, rcx := pb, rdx := a3, rbx := (0#64), rsp := s.rsp - 8 - 8 - 8 - 8, rbp := s.rbp, rsi := pa, rdi := pr, r8 := m76h, r9 := t78.val, r10 := t81.val, r11 := t83.val, r12 := t69.val, r13 := t72.val, r14 := t75.val, r15 := s.r15, cf := some t82.cf, zf := some ((0#64) == 0), sf := some (msb .q (0#64)), of := some t83.cf, mem := setMem (setMem (setMem (setMem (setMem (setMem (setMem (setMem (s.mem) (s.rsp.toNat - 8) s.rbx) (s.rsp.toNat - 8 - 8) s.r12) (s.rsp.toNat - 8 - 8 - 8) s.r13) (s.rsp.toNat - 8 - 8 - 8 - 8) s.r14) (pr.toNat + 0) m7l) (pr.toNat + 8) t23.val) (pr.toNat + 16) t44.val) (pr.toNat + 24) t65.val, readable := s.readable, writable := s.writable, cpuidFn := s.cpuidFn, pc := 84, status := .running } : State) 21
      = ({ rax := t101.val, rcx := pb, rdx := a4, rbx := (0#64), rsp := s.rsp - 8 - 8 - 8 - 8, rbp := s.rbp, rsi := pa, rdi := pr, r8 := m97h, r9 := t96.val, r10 := t99.val, r11 := t102.val, r12 := t104.val, r13 := t90.val, r14 := t93.val, r15 := s.r15, cf := some t103.cf, zf := some ((0#64) == 0), sf := some (msb .q (0#64)), of := some t104.cf, mem := setMem (setMem (setMem (setMem (setMem (setMem (setMem (setMem (setMem (s.mem) (s.rsp.toNat - 8) s.rbx) (s.rsp.toNat - 8 - 8) s.r12) (s.rsp.toNat - 8 - 8 - 8) s.r13) (s.rsp.toNat - 8 - 8 - 8 - 8) s.r14) (pr.toNat + 0) m7l) (pr.toNat + 8) t23.val) (pr.toNat + 16) t44.val) (pr.toNat + 24) t65.val) (pr.toNat + 32) t86.val, readable := s.readable, writable := s.writable, cpuidFn := s.cpuidFn, pc := 105, status := .running } : State) := by
  obtain ⟨ra0, ra1, ra2, ra3, ra4, ra5⟩ := ha.r6
  obtain ⟨⟨alra0, alra1, alra2, alra3, alra4, alra5⟩, fra0, fra1, fra2, fra3, fra4, fra5⟩ := ha.addr6
  obtain ⟨rb0, rb1, rb2, rb3, rb4, rb5⟩ := hb.r6
  obtain ⟨⟨alrb0, alrb1, alrb2, alrb3, alrb4, alrb5⟩, frb0, frb1, frb2, frb3, frb4, frb5⟩ := hb.addr6
  obtain ⟨rr0, rr1, rr2, rr3, rr4, rr5, rr6, rr7, rr8, rr9, rr10, rr11⟩ := hr.r12
  obtain ⟨wr0, wr1, wr2, wr3, wr4, wr5, wr6, wr7, wr8, wr9, wr10, wr11⟩ := hr.w12
  obtain ⟨⟨alrr0, alrr1, alrr2, alrr3, alrr4, alrr5, alrr6, alrr7, alrr8, alrr9, alrr10, alrr11⟩, frr0, frr1, frr2, frr3, frr4, frr5, frr6, frr7, frr8, frr9, frr10, frr11⟩ := hr.addr12
  obtain ⟨als0, rs0⟩ := hstk.f0
  obtain ⟨room1, als1, sr1, sw1⟩ := hstk.f1 (by omega)
  obtain ⟨room2, als2, sr2, sw2⟩ := hstk.f2 (by omega)
  obtain ⟨room3, als3, sr3, sw3⟩ := hstk.f3 (by omega)
  obtain ⟨room4, als4, sr4, sw4⟩ := hstk.f4 (by omega)
  replace hra := Hide.mk hra; replace hrb := Hide.mk hrb; replace hrs := Hide.mk hrs
  replace has := Hide.mk has; replace hbs := Hide.mk hbs
  simp only [X86.Disjoint, OffStack] at hra hrb hrs has hbs
  clear ha hb hr hstk
  x86_sym [sub8x3_toNat, sub8x4_toNat, mulLo_fold, mulHi_fold, logic, BitVec.xor_self, ← ha4, ← hb0, ← hb1, ← hb2, ← hb3, ← hb4, ← hb5, ← hm85l, ← hm85h, ← ht86, ← hm88l, ← hm88h, ← ht89, ← ht90, ← hm91l, ← hm91h, ← ht92, ← ht93, ← hm94l, ← hm94h, ← ht95, ← ht96, ← hm97l, ← hm97h, ← ht98, ← ht99, ← hm100l, ← hm100h, ← ht101, ← ht102, ← ht103, ← ht104]

set_option maxHeartbeats 1600000 in
theorem mulx768_part5 (s : State) (pr pa pb : Word)
    (hr : Buf s pr 12 true) (ha : Buf s pa 6 false) (hb : Buf s pb 6 false)
    (hra : X86.Disjoint pr 12 pa 6) (hrb : X86.Disjoint pr 12 pb 6)
    (hstk : Stack s 4) (hrs : OffStack s 4 pr 12) (has : OffStack s 4 pa 6) (hbs : OffStack s 4 pb 6) {a4 a5 b0 b1 b2 b3 b4 b5 m7l m97h m106h m106l m109h m109l m112h m112l m115h m115l m118h m118l m121h m121l : Word} {t23 t44 t65 t86 t90 t93 t96 t99 t101 t102 t103 t104 t107 t110 t111 t113 t114 t116 t117 t119 t120 t122 t123 t124 t125 : ArithRes}
    (ha5 : a5 = s.mem (pa.toNat + 40)) (hb0 : b0 = s.mem (pb.toNat + 0)) (hb1 : b1 = s.mem (pb.toNat + 8))
    (hb2 : b2 = s.mem (pb.toNat + 16)) (hb3 : b3 = s.mem (pb.toNat + 24)) (hb4 : b4 = s.mem (pb.toNat + 32))
    (hb5 : b5 = s.mem (pb.toNat + 40)) (hm106l : m106l = mulLo a5 b0) (hm106h : m106h = mulHi a5 b0)
    (ht107 : t107 = addc .q t90.val m106l t103.cf) (hm109l : m109l = mulLo a5 b1) (hm109h : m109h = mulHi a5 b1)
    (ht110 : t110 = addc .q m109l m106h t104.cf) (ht111 : t111 = addc .q t93.val t110.val t107.cf)
    (hm112l : m112l = mulLo a5 b2) (hm112h : m112h = mulHi a5 b2) (ht113 : t113 = addc .q m112l m109h t110.cf)
    (ht114 : t114 = addc .q t96.val t113.val t111.cf) (hm115l : m115l = mulLo a5 b3) (hm115h : m115h = mulHi a5 b3)
    (ht116 : t116 = addc .q m115l m112h t113.cf) (ht117 : t117 = addc .q t99.val t116.val t114.cf)
    (hm118l : m118l = mulLo a5 b4) (hm118h : m118h = mulHi a5 b4) (ht119 : t119 = addc .q m118l m115h t116.cf)
    (ht120 : t120 = addc .q t102.val t119.val t117.cf) (hm121l : m121l = mulLo a5 b5) (hm121h : m121h = mulHi a5 b5)
    (ht122 : t122 = addc .q m121l m118h t119.cf) (ht123 : t123 = addc .q t104.val t122.val t120.cf)
    (ht124 : t124 = addc .q m121h (0#64) t123.cf) (ht125 : t125 = addc .q t124.val (0#64) t122.cf) :
    run embedded_pairing_core_arch_x86_64_bmi2_adx_bigint_768_multiply ({ rax := t101.val, rcx := pb, rdx := a4, rbx := (0#64), rsp := s.rsp - 8 - 8 - 8 - 8, rbp := s.rbp, rsi := pa, rdi := pr, r8 := m97h, r9 := t96.val, r10 := t99.val, r11 := t102.val, r12 := t104.val, r13 := t90.val, r14 := t93.val, r15 := s.r15, cf := some t103.cf, zf := some ((0#64) == 0), sf := some (msb .q (0#64)), of := some t104.cf, mem := setMem (setMem (setMem (setMem (setMem (setMem (setMem (setMem (setMem (s.mem) (s.rsp.toNat - 8) s.rbx) (s.rsp.toNat - 8 - 8) s.r12) (s.rsp.toNat - 8 - 8 - 8) s.r13) (s.rsp.toNat - 8 - 8 - 8 - 8) s.r14) (pr.toNat + 0) m7l) (pr.toNat + 8) t23.val) (pr.toNat + 16) t44.val) (pr.toNat + 24) t65.val) (pr.toNat + 32) t86.val, readable := s.readable, writable := s.writable, cpuidFn := s.cpuidFn, pc := 105, status := .running } : State) 21
      = ({ rax := t122.val, rcx := pb, rdx := a5, rbx := (0#64), rsp := s.rsp - 8 - 8 - 8 - 8, rbp := s.rbp, rsi := pa, rdi := pr, r8 := m118h, r9 := t114.val, r10 := t117.val, r11 := t120.val, r12 := t123.val, r13 := t125.val, r14 := t111.val, r15 := s.r15, cf := some t124.cf, zf := some ((0#64) == 0), sf := some (msb .q (0#64)), of := some t125.cf, mem := setMem (setMem (setMem (setMem (setMem (setMem (setMem (setMem (setMem (setMem (s.mem) (s.rsp.toNat - 8) s.rbx) (s.rsp.toNat - 8 - 8) s.r12) (s.rsp.toNat - 8 - 8 - 8) s.r13) (s.rsp.toNat - 8 - 8 - 8 - 8) s.r14) (pr.toNat + 0) m7l) (pr.toNat + 8) t23.val) (pr.toNat + 16) t44.val) (pr.toNat + 24) t65.val) (pr.toNat + 32) t86.val) (pr.toNat + 40) t107.val, readable := s.readable, writable := s.writable, cpuidFn := s.cpuidFn, pc := 126, status := .running } : State) := by
  obtain ⟨ra0, ra1, ra2, ra3, ra4, ra5⟩ := ha.r6
  obtain ⟨⟨alra0, alra1, alra2, alra3, alra4, alra5⟩, fra0, fra1, fra2, fra3, fra4, fra5⟩ := ha.addr6
  obtain ⟨rb0, rb1, rb2, rb3, rb4, rb5⟩ := hb.r6
  obtain ⟨⟨alrb0, alrb1, alrb2, alrb3, alrb4, alrb5⟩, frb0, frb1, frb2, frb3, frb4, frb5⟩ := hb.addr6
  obtain ⟨rr0, rr1, rr2, rr3, rr4, rr5, rr6, rr7, rr8, rr9, rr10, rr11⟩ := hr.r12
  obtain ⟨wr0, wr1, wr2, wr3, wr4, wr5, wr6, wr7, wr8, wr9, wr10, wr11⟩ := hr.w12
  obtain ⟨⟨alrr0, alrr1, alrr2, alrr3, alrr4, alrr5, alrr6, alrr7, alrr8, alrr9, alrr10, alrr11⟩, frr0, frr1, frr2, frr3, frr4, frr5, frr6, frr7, frr8, frr9, frr10, frr11⟩ := hr.addr12
  obtain ⟨als0, rs0⟩ := hstk.f0
  obtain ⟨room1, als1, sr1, sw1⟩ := hstk.f1 (by omega)
  obtain ⟨room2, als2, sr2, sw2⟩ := hstk.f2 (by omega)
  obtain ⟨room3, als3, sr3, sw3⟩ := hstk.f3 (by omega)
  obtain ⟨room4, als4, sr4, sw4⟩ := hstk.f4 (by omega)
  replace hra := Hide.mk hra; replace hrb := Hide.mk hrb; replace hrs := Hide.mk hrs
  replace has := Hide.mk has; replace hbs := Hide.mk hbs
  simp only [X86.Disjoint, OffStack] at hra hrb hrs has hbs
  clear ha hb hr hstk
  x86_sym [sub8x3_toNat, sub8x4_toNat, mulLo_fold, mulHi_fold, logic, BitVec.xor_self, ← ha5, ← hb0, ← hb1, ← hb2, ← hb3, ← hb4, ← hb5, ← hm106l, ← hm106h, ← ht107, ← hm109l, ← hm109h, ← ht110, ← ht111, ← hm112l, ← hm112h, ← ht113, ← ht114, ← hm115l, ← hm115h, ← ht116, ← ht117, ← hm118l, ← hm118h, ← ht119, ← ht120, ← hm121l, ← hm121h, ← ht122, ← ht123, ← ht124, ← ht125]

set_option maxHeartbeats 1600000 in
theorem mulx768_part6 (s : State) (pr pa pb : Word)
    (hr : Buf s pr 12 true) (ha : Buf s pa 6 false) (hb : Buf s pb 6 false)
    (hra : X86.Disjoint pr 12 pa 6) (hrb : X86.Disjoint pr 12 pb 6)
    (hstk : Stack s 4) (hrs : OffStack s 4 pr 12) (has : OffStack s 4 pa 6) (hbs : OffStack s 4 pb 6) {a5 m7l m118h : Word} {t23 t44 t65 t86 t107 t111 t114 t117 t120 t122 t123 t124 t125 : ArithRes}
     :
    run embedded_pairing_core_arch_x86_64_bmi2_adx_bigint_768_multiply ({ rax := t122.val, rcx := pb, rdx := a5, rbx := (0#64), rsp := s.rsp - 8 - 8 - 8 - 8, rbp := s.rbp, rsi := pa, rdi := pr, r8 := m118h, r9 := t114.val, r10 := t117.val, r11 := t120.val, r12 := t123.val, r13 := t125.val, r14 := t111.val, r15 := s.r15, cf := some t124.cf, zf := some ((0#64) == 0), sf := some (msb .q (0#64)), of := some t125.cf, mem := setMem (setMem (setMem (setMem (setMem (setMem (setMem (setMem (setMem (setMem (s.mem) (s.rsp.toNat - 8) s.rbx) (s.rsp.toNat - 8 - 8) s.r12) (s.rsp.toNat - 8 - 8 - 8) s.r13) (s.rsp.toNat - 8 - 8 - 8 - 8) s.r14) (pr.toNat + 0) m7l) (pr.toNat + 8) t23.val) (pr.toNat + 16) t44.val) (pr.toNat + 24) t65.val) (pr.toNat + 32) t86.val) (pr.toNat + 40) t107.val, readable := s.readable, writable := s.writable, cpuidFn := s.cpuidFn, pc := 126, status := .running } : State) 11
      = ({ rax := t122.val, rcx := pb, rdx := a5, rbx := s.rbx, rsp := s.rsp + 8, rbp := s.rbp, rsi := pa, rdi := pr, r8 := m118h, r9 := t114.val, r10 := t117.val, r11 := t120.val, r12 := s.r12, r13 := s.r13, r14 := s.r14, r15 := s.r15, cf := some t124.cf, zf := some ((0#64) == 0), sf := some (msb .q (0#64)), of := some t125.cf, mem := setMem (setMem (setMem (setMem (setMem (setMem (setMem (setMem (setMem (setMem (setMem (setMem (setMem (setMem (setMem (setMem (s.mem) (s.rsp.toNat - 8) s.rbx) (s.rsp.toNat - 8 - 8) s.r12) (s.rsp.toNat - 8 - 8 - 8) s.r13) (s.rsp.toNat - 8 - 8 - 8 - 8) s.r14) (pr.toNat + 0) m7l) (pr.toNat + 8) t23.val) (pr.toNat + 16) t44.val) (pr.toNat + 24) t65.val) (pr.toNat + 32) t86.val) (pr.toNat + 40) t107.val) (pr.toNat + 48) t111.val) (pr.toNat + 56) t114.val) (pr.toNat + 64) t117.val) (pr.toNat + 72) t120.val) (pr.toNat + 80) t123.val) (pr.toNat + 88) t125.val, readable := s.readable, writable := s.writable, cpuidFn := s.cpuidFn, pc := (s.mem s.rsp.toNat).toNat, status := .halted } : State) := by
  obtain ⟨ra0, ra1, ra2, ra3, ra4, ra5⟩ := ha.r6
  obtain ⟨⟨alra0, alra1, alra2, alra3, alra4, alra5⟩, fra0, fra1, fra2, fra3, fra4, fra5⟩ := ha.addr6
  obtain ⟨rb0, rb1, rb2, rb3, rb4, rb5⟩ := hb.r6
  obtain ⟨⟨alrb0, alrb1, alrb2, alrb3, alrb4, alrb5⟩, frb0, frb1, frb2, frb3, frb4, frb5⟩ := hb.addr6
  obtain ⟨rr0, rr1, rr2, rr3, rr4, rr5, rr6, rr7, rr8, rr9, rr10, rr11⟩ := hr.r12
  obtain ⟨wr0, wr1, wr2, wr3, wr4, wr5, wr6, wr7, wr8, wr9, wr10, wr11⟩ := hr.w12
  obtain ⟨⟨alrr0, alrr1, alrr2, alrr3, alrr4, alrr5, alrr6, alrr7, alrr8, alrr9, alrr10, alrr11⟩, frr0, frr1, frr2, frr3, frr4, frr5, frr6, frr7, frr8, frr9, frr10, frr11⟩ := hr.addr12
  obtain ⟨als0, rs0⟩ := hstk.f0
  obtain ⟨room1, als1, sr1, sw1⟩ := hstk.f1 (by omega)
  obtain ⟨room2, als2, sr2, sw2⟩ := hstk.f2 (by omega)
  obtain ⟨room3, als3, sr3, sw3⟩ := hstk.f3 (by omega)
  obtain ⟨room4, als4, sr4, sw4⟩ := hstk.f4 (by omega)
  replace hra := Hide.mk hra; replace hrb := Hide.mk hrb; replace hrs := Hide.mk hrs
  replace has := Hide.mk has; replace hbs := Hide.mk hbs
  simp only [X86.Disjoint, OffStack] at hra hrb hrs has hbs
  clear ha hb hr hstk
  x86_sym [sub8x3_toNat, sub8x4_toNat, mulLo_fold, mulHi_fold, logic, BitVec.xor_self]


set_option maxHeartbeats 1600000 in
set_option exponentiation.threshold 800 in
/-- `void bmi2_adx_bigint_768_multiply(res, a, b)`: the twelve limbs of `res` are `a · b` -/
theorem bmi2_adx_bigint_768_multiply_run (s : State) (pr pa pb : Word)
    (hst : s.status = .running) (hpc : s.pc = 0) (hdi : s.rdi = pr) (hsi : s.rsi = pa) (hdx : s.rdx = pb)
    (hr : Buf s pr 12 true) (ha : Buf s pa 6 false) (hb : Buf s pb 6 false)
    (hra : X86.Disjoint pr 12 pa 6) (hrb : X86.Disjoint pr 12 pb 6)
    (hstk : Stack s 4) (hrs : OffStack s 4 pr 12) (has : OffStack s 4 pa 6) (hbs : OffStack s 4 pb 6) :
    ∃ s', run embedded_pairing_core_arch_x86_64_bmi2_adx_bigint_768_multiply s 137 = s' ∧ Returned s s' ∧
      val (2 ^ 64) (limbs s'.mem pr.toNat 12)
        = val (2 ^ 64) (limbs s.mem pa.toNat 6) * val (2 ^ 64) (limbs s.mem pb.toNat 6) ∧
      (∀ k, ¬(pr.toNat ≤ k ∧ k < pr.toNat + 96) → ¬(s.rsp.toNat - 32 ≤ k ∧ k < s.rsp.toNat) → s'.mem k = s.mem k) := by
  refine ⟨_, rfl, ?_⟩
  simp only [limbs_six, limbs_twelve]
  obtain ⟨a0, ha0⟩ : ∃ x, x = s.mem (pa.toNat + 0) := ⟨_, rfl⟩
  obtain ⟨a1, ha1⟩ : ∃ x, x = s.mem (pa.toNat + 8) := ⟨_, rfl⟩
  obtain ⟨a2, ha2⟩ : ∃ x, x = s.mem (pa.toNat + 16) := ⟨_, rfl⟩
  obtain ⟨a3, ha3⟩ : ∃ x, x = s.mem (pa.toNat + 24) := ⟨_, rfl⟩
  obtain ⟨a4, ha4⟩ : ∃ x, x = s.mem (pa.toNat + 32) := ⟨_, rfl⟩
  obtain ⟨a5, ha5⟩ : ∃ x, x = s.mem (pa.toNat + 40) := ⟨_, rfl⟩
  obtain ⟨b0, hb0⟩ : ∃ x, x = s.mem (pb.toNat + 0) := ⟨_, rfl⟩
  obtain ⟨b1, hb1⟩ : ∃ x, x = s.mem (pb.toNat + 8) := ⟨_, rfl⟩
  obtain ⟨b2, hb2⟩ : ∃ x, x = s.mem (pb.toNat + 16) := ⟨_, rfl⟩
  obtain ⟨b3, hb3⟩ : ∃ x, x = s.mem (pb.toNat + 24) := ⟨_, rfl⟩
  obtain ⟨b4, hb4⟩ : ∃ x, x = s.mem (pb.toNat + 32) := ⟨_, rfl⟩
  obtain ⟨b5, hb5⟩ : ∃ x, x = s.mem (pb.toNat + 40) := ⟨_, rfl⟩
  simp only [← ha0, ← ha1, ← ha2, ← ha3, ← ha4, ← ha5, ← hb0, ← hb1, ← hb2, ← hb3, ← hb4, ← hb5]
  obtain ⟨m7l, hm7l⟩ : ∃ x, x = mulLo a0 b0 := ⟨_, rfl⟩
  obtain ⟨m7h, hm7h⟩ : ∃ x, x = mulHi a0 b0 := ⟨_, rfl⟩
  obtain ⟨m9l, hm9l⟩ : ∃ x, x = mulLo a0 b1 := ⟨_, rfl⟩
  obtain ⟨m9h, hm9h⟩ : ∃ x, x = mulHi a0 b1 := ⟨_, rfl⟩
  obtain ⟨t10, ht10⟩ : ∃ x, x = addc .q m9l m7h false := ⟨_, rfl⟩
  obtain ⟨m11l, hm11l⟩ : ∃ x, x = mulLo a0 b2 := ⟨_, rfl⟩
  obtain ⟨m11h, hm11h⟩ : ∃ x, x = mulHi a0 b2 := ⟨_, rfl⟩
  obtain ⟨t12, ht12⟩ : ∃ x, x = addc .q m11l m9h t10.cf := ⟨_, rfl⟩
  obtain ⟨m13l, hm13l⟩ : ∃ x, x = mulLo a0 b3 := ⟨_, rfl⟩
  obtain ⟨m13h, hm13h⟩ : ∃ x, x = mulHi a0 b3 := ⟨_, rfl⟩
  obtain ⟨t14, ht14⟩ : ∃ x, x = addc .q m13l m11h t12.cf := ⟨_, rfl⟩
  obtain ⟨m15l, hm15l⟩ : ∃ x, x = mulLo a0 b4 := ⟨_, rfl⟩
  obtain ⟨m15h, hm15h⟩ : ∃ x, x = mulHi a0 b4 := ⟨_, rfl⟩
  obtain ⟨t16, ht16⟩ : ∃ x, x = addc .q m15l m13h t14.cf := ⟨_, rfl⟩
  obtain ⟨m17l, hm17l⟩ : ∃ x, x = mulLo a0 b5 := ⟨_, rfl⟩
  obtain ⟨m17h, hm17h⟩ : ∃ x, x = mulHi a0 b5 := ⟨_, rfl⟩
  obtain ⟨t18, ht18⟩ : ∃ x, x = addc .q m17l m15h t16.cf := ⟨_, rfl⟩
  obtain ⟨t19, ht19⟩ : ∃ x, x = addc .q m17h (0#64) t18.cf := ⟨_, rfl⟩
  obtain ⟨t20, ht20⟩ : ∃ x, x = addc .q t19.val (0#64) false := ⟨_, rfl⟩
  obtain ⟨m22l, hm22l⟩ : ∃ x, x = mulLo a1 b0 := ⟨_, rfl⟩
  obtain ⟨m22h, hm22h⟩ : ∃ x, x = mulHi a1 b0 := ⟨_, rfl⟩
  obtain ⟨t23, ht23⟩ : ∃ x, x = addc .q t10.val m22l t19.cf := ⟨_, rfl⟩
  obtain ⟨m25l, hm25l⟩ : ∃ x, x = mulLo a1 b1 := ⟨_, rfl⟩
  obtain ⟨m25h, hm25h⟩ : ∃ x, x = mulHi a1 b1 := ⟨_, rfl⟩
  obtain ⟨t26, ht26⟩ : ∃ x, x = addc .q m25l m22h t20.cf := ⟨_, rfl⟩
  obtain ⟨t27, ht27⟩ : ∃ x, x = addc .q t12.val t26.val t23.cf := ⟨_, rfl⟩
  obtain ⟨m28l, hm28l⟩ : ∃ x, x = mulLo a1 b2 := ⟨_, rfl⟩
  obtain ⟨m28h, hm28h⟩ : ∃ x, x = mulHi a1 b2 := ⟨_, rfl⟩
  obtain ⟨t29, ht29⟩ : ∃ x, x = addc .q m28l m25h t26.cf := ⟨_, rfl⟩
  obtain ⟨t30, ht30⟩ : ∃ x, x = addc .q t14.val t29.val t27.cf := ⟨_, rfl⟩
  obtain ⟨m31l, hm31l⟩ : ∃ x, x = mulLo a1 b3 := ⟨_, rfl⟩
  obtain ⟨m31h, hm31h⟩ : ∃ x, x = mulHi a1 b3 := ⟨_, rfl⟩
  obtain ⟨t32, ht32⟩ : ∃ x, x = addc .q m31l m28h t29.cf := ⟨_, rfl⟩
  obtain ⟨t33, ht33⟩ : ∃ x, x = addc .q t16.val t32.val t30.cf := ⟨_, rfl⟩
  obtain ⟨m34l, hm34l⟩ : ∃ x, x = mulLo a1 b4 := ⟨_, rfl⟩
  obtain ⟨m34h, hm34h⟩ : ∃ x, x = mulHi a1 b4 := ⟨_, rfl⟩
  obtain ⟨t35, ht35⟩ : ∃ x, x = addc .q m34l m31h t32.cf := ⟨_, rfl⟩
  obtain ⟨t36, ht36⟩ : ∃ x, x = addc .q t18.val t35.val t33.cf := ⟨_, rfl⟩
  obtain ⟨m37l, hm37l⟩ : ∃ x, x = mulLo a1 b5 := ⟨_, rfl⟩
  obtain ⟨m37h, hm37h⟩ : ∃ x, x = mulHi a1 b5 := ⟨_, rfl⟩
  obtain ⟨t38, ht38⟩ : ∃ x, x = addc .q m37l m34h t35.cf := ⟨_, rfl⟩
  obtain ⟨t39, ht39⟩ : ∃ x, x = addc .q t20.val t38.val t36.cf := ⟨_, rfl⟩
  obtain ⟨t40, ht40⟩ : ∃ x, x = addc .q m37h (0#64) t39.cf := ⟨_, rfl⟩
  obtain ⟨t41, ht41⟩ : ∃ x, x = addc .q t40.val (0#64) t38.cf := ⟨_, rfl⟩
  obtain ⟨m43l, hm43l⟩ : ∃ x, x = mulLo a2 b0 := ⟨_, rfl⟩
  obtain ⟨m43h, hm43h⟩ : ∃ x, x = mulHi a2 b0 := ⟨_, rfl⟩
  obtain ⟨t44, ht44⟩ : ∃ x, x = addc .q t27.val m43l t40.cf := ⟨_, rfl⟩
  obtain ⟨m46l, hm46l⟩ : ∃ x, x = mulLo a2 b1 := ⟨_, rfl⟩
  obtain ⟨m46h, hm46h⟩ : ∃ x, x = mulHi a2 b1 := ⟨_, rfl⟩
  obtain ⟨t47, ht47⟩ : ∃ x, x = addc .q m46l m43h t41.cf := ⟨_, rfl⟩
  obtain ⟨t48, ht48⟩ : ∃ x, x = addc .q t30.val t47.val t44.cf := ⟨_, rfl⟩
  obtain ⟨m49l, hm49l⟩ : ∃ x, x = mulLo a2 b2 := ⟨_, rfl⟩
  obtain ⟨m49h, hm49h⟩ : ∃ x, x = mulHi a2 b2 := ⟨_, rfl⟩
  obtain ⟨t50, ht50⟩ : ∃ x, x = addc .q m49l m46h t47.cf := ⟨_, rfl⟩
  obtain ⟨t51, ht51⟩ : ∃ x, x = addc .q t33.val t50.val t48.cf := ⟨_, rfl⟩
  obtain ⟨m52l, hm52l⟩ : ∃ x, x = mulLo a2 b3 := ⟨_, rfl⟩
  obtain ⟨m52h, hm52h⟩ : ∃ x, x = mulHi a2 b3 := ⟨_, rfl⟩
  obtain ⟨t53, ht53⟩ : ∃ x, x = addc .q m52l m49h t50.cf := ⟨_, rfl⟩
  obtain ⟨t54, ht54⟩ : ∃ x, x = addc .q t36.val t53.val t51.cf := ⟨_, rfl⟩
  obtain ⟨m55l, hm55l⟩ : ∃ x, x = mulLo a2 b4 := ⟨_, rfl⟩
  obtain ⟨m55h, hm55h⟩ : ∃ x, x = mulHi a2 b4 := ⟨_, rfl⟩
  obtain ⟨t56, ht56⟩ : ∃ x, x = addc .q m55l m52h t53.cf := ⟨_, rfl⟩
  obtain ⟨t57, ht57⟩ : ∃ x, x = addc .q t39.val t56.val t54.cf := ⟨_, rfl⟩
  obtain ⟨m58l, hm58l⟩ : ∃ x, x = mulLo a2 b5 := ⟨_, rfl⟩
  obtain ⟨m58h, hm58h⟩ : ∃ x, x = mulHi a2 b5 := ⟨_, rfl⟩
  obtain ⟨t59, ht59⟩ : ∃ x, x = addc .q m58l m55h t56.cf := ⟨_, rfl⟩
  obtain ⟨t60, ht60⟩ : ∃ x, x = addc .q t41.val t59.val t57.cf := ⟨_, rfl⟩
  obtain ⟨t61, ht61⟩ : ∃ x, x = addc .q m58h (0#64) t60.cf := ⟨_, rfl⟩
  obtain ⟨t62, ht62⟩ : ∃ x, x = addc .q t61.val (0#64) t59.cf := ⟨_, rfl⟩
  obtain ⟨m64l, hm64l⟩ : ∃ x, x = mulLo a3 b0 := ⟨_, rfl⟩
  obtain ⟨m64h, hm64h⟩ : ∃ x, x = mulHi a3 b0 := ⟨_, rfl⟩
  obtain ⟨t65, ht65⟩ : ∃ x, x = addc .q t48.val m64l t61.cf := ⟨_, rfl⟩
  obtain ⟨m67l, hm67l⟩ : ∃ x, x = mulLo a3 b1 := ⟨_, rfl⟩
  obtain ⟨m67h, hm67h⟩ : ∃ x, x = mulHi a3 b1 := ⟨_, rfl⟩
  obtain ⟨t68, ht68⟩ : ∃ x, x = addc .q m67l m64h t62.cf := ⟨_, rfl⟩
  obtain ⟨t69, ht69⟩ : ∃ x, x = addc .q t51.val t68.val t65.cf := ⟨_, rfl⟩
  obtain ⟨m70l, hm70l⟩ : ∃ x, x = mulLo a3 b2 := ⟨_, rfl⟩
  obtain ⟨m70h, hm70h⟩ : ∃ x, x = mulHi a3 b2 := ⟨_, rfl⟩
  obtain ⟨t71, ht71⟩ : ∃ x, x = addc .q m70l m67h t68.cf := ⟨_, rfl⟩
  obtain ⟨t72, ht72⟩ : ∃ x, x = addc .q t54.val t71.val t69.cf := ⟨_, rfl⟩
  obtain ⟨m73l, hm73l⟩ : ∃ x, x = mulLo a3 b3 := ⟨_, rfl⟩
  obtain ⟨m73h, hm73h⟩ : ∃ x, x = mulHi a3 b3 := ⟨_, rfl⟩
  obtain ⟨t74, ht74⟩ : ∃ x, x = addc .q m73l m70h t71.cf := ⟨_, rfl⟩
  obtain ⟨t75, ht75⟩ : ∃ x, x = addc .q t57.val t74.val t72.cf := ⟨_, rfl⟩
  obtain ⟨m76l, hm76l⟩ : ∃ x, x = mulLo a3 b4 := ⟨_, rfl⟩
  obtain ⟨m76h, hm76h⟩ : ∃ x, x = mulHi a3 b4 := ⟨_, rfl⟩
  obtain ⟨t77, ht77⟩ : ∃ x, x = addc .q m76l m73h t74.cf := ⟨_, rfl⟩
  obtain ⟨t78, ht78⟩ : ∃ x, x = addc .q t60.val t77.val t75.cf := ⟨_, rfl⟩
  obtain ⟨m79l, hm79l⟩ : ∃ x, x = mulLo a3 b5 := ⟨_, rfl⟩
  obtain ⟨m79h, hm79h⟩ : ∃ x, x = mulHi a3 b5 := ⟨_, rfl⟩
  obtain ⟨t80, ht80⟩ : ∃ x, x = addc .q m79l m76h t77.cf := ⟨_, rfl⟩
  obtain ⟨t81, ht81⟩ : ∃ x, x = addc .q t62.val t80.val t78.cf := ⟨_, rfl⟩
  obtain ⟨t82, ht82⟩ : ∃ x, x = addc .q m79h (0#64) t81.cf := ⟨_, rfl⟩
  obtain ⟨t83, ht83⟩ : ∃ x, x = addc .q t82.val (0#64) t80.cf := ⟨_, rfl⟩
  obtain ⟨m85l, hm85l⟩ : ∃ x, x = mulLo a4 b0 := ⟨_, rfl⟩
  obtain ⟨m85h, hm85h⟩ : ∃ x, x = mulHi a4 b0 := ⟨_, rfl⟩
  obtain ⟨t86, ht86⟩ : ∃ x, x = addc .q t69.val m85l t82.cf := ⟨_, rfl⟩
  obtain ⟨m88l, hm88l⟩ : ∃ x, x = mulLo a4 b1 := ⟨_, rfl⟩
  obtain ⟨m88h, hm88h⟩ : ∃ x, x = mulHi a4 b1 := ⟨_, rfl⟩
  obtain ⟨t89, ht89⟩ : ∃ x, x = addc .q m88l m85h t83.cf := ⟨_, rfl⟩
  obtain ⟨t90, ht90⟩ : ∃ x, x = addc .q t72.val t89.val t86.cf := ⟨_, rfl⟩
  obtain ⟨m91l, hm91l⟩ : ∃ x, x = mulLo a4 b2 := ⟨_, rfl⟩
  obtain ⟨m91h, hm91h⟩ : ∃ x, x = mulHi a4 b2 := ⟨_, rfl⟩
  obtain ⟨t92, ht92⟩ : ∃ x, x = addc .q m91l m88h t89.cf := ⟨_, rfl⟩
  obtain ⟨t93, ht93⟩ : ∃ x, x = addc .q t75.val t92.val t90.cf := ⟨_, rfl⟩
  obtain ⟨m94l, hm94l⟩ : ∃ x, x = mulLo a4 b3 := ⟨_, rfl⟩
  obtain ⟨m94h, hm94h⟩ : ∃ x, x = mulHi a4 b3 := ⟨_, rfl⟩
  obtain ⟨t95, ht95⟩ : ∃ x, x = addc .q m94l m91h t92.cf := ⟨_, rfl⟩
  obtain ⟨t96, ht96⟩ : ∃ x, x = addc .q t78.val t95.val t93.cf := ⟨_, rfl⟩
  obtain ⟨m97l, hm97l⟩ : ∃ x, x = mulLo a4 b4 := ⟨_, rfl⟩
  obtain ⟨m97h, hm97h⟩ : ∃ x, x = mulHi a4 b4 := ⟨_, rfl⟩
  obtain ⟨t98, ht98⟩ : ∃ x, x = addc .q m97l m94h t95.cf := ⟨_, rfl⟩
  obtain ⟨t99, ht99⟩ : ∃ x, x = addc .q t81.val t98.val t96.cf := ⟨_, rfl⟩
  obtain ⟨m100l, hm100l⟩ : ∃ x, x = mulLo a4 b5 := ⟨_, rfl⟩
  obtain ⟨m100h, hm100h⟩ : ∃ x, x = mulHi a4 b5 := ⟨_, rfl⟩
  obtain ⟨t101, ht101⟩ : ∃ x, x = addc .q m100l m97h t98.cf := ⟨_, rfl⟩
  obtain ⟨t102, ht102⟩ : ∃ x, x = addc .q t83.val t101.val t99.cf := ⟨_, rfl⟩
  obtain ⟨t103, ht103⟩ : ∃ x, x = addc .q m100h (0#64) t102.cf := ⟨_, rfl⟩
  obtain ⟨t104, ht104⟩ : ∃ x, x = addc .q t103.val (0#64) t101.cf := ⟨_, rfl⟩
  obtain ⟨m106l, hm106l⟩ : ∃ x, x = mulLo a5 b0 := ⟨_, rfl⟩
  obtain ⟨m106h, hm106h⟩ : ∃ x, x = mulHi a5 b0 := ⟨_, rfl⟩
  obtain ⟨t107, ht107⟩ : ∃ x, x = addc .q t90.val m106l t103.cf := ⟨_, rfl⟩
  obtain ⟨m109l, hm109l⟩ : ∃ x, x = mulLo a5 b1 := ⟨_, rfl⟩
  obtain ⟨m109h, hm109h⟩ : ∃ x, x = mulHi a5 b1 := ⟨_, rfl⟩
  obtain ⟨t110, ht110⟩ : ∃ x, x = addc .q m109l m106h t104.cf := ⟨_, rfl⟩
  obtain ⟨t111, ht111⟩ : ∃ x, x = addc .q t93.val t110.val t107.cf := ⟨_, rfl⟩
  obtain ⟨m112l, hm112l⟩ : ∃ x, x = mulLo a5 b2 := ⟨_, rfl⟩
  obtain ⟨m112h, hm112h⟩ : ∃ x, x = mulHi a5 b2 := ⟨_, rfl⟩
  obtain ⟨t113, ht113⟩ : ∃ x, x = addc .q m112l m109h t110.cf := ⟨_, rfl⟩
  obtain ⟨t114, ht114⟩ : ∃ x, x = addc .q t96.val t113.val t111.cf := ⟨_, rfl⟩
  obtain ⟨m115l, hm115l⟩ : ∃ x, x = mulLo a5 b3 := ⟨_, rfl⟩
  obtain ⟨m115h, hm115h⟩ : ∃ x, x = mulHi a5 b3 := ⟨_, rfl⟩
  obtain ⟨t116, ht116⟩ : ∃ x, x = addc .q m115l m112h t113.cf := ⟨_, rfl⟩
  obtain ⟨t117, ht117⟩ : ∃ x, x = addc .q t99.val t116.val t114.cf := ⟨_, rfl⟩
  obtain ⟨m118l, hm118l⟩ : ∃ x, x = mulLo a5 b4 := ⟨_, rfl⟩
  obtain ⟨m118h, hm118h⟩ : ∃ x, x = mulHi a5 b4 := ⟨_, rfl⟩
  obtain ⟨t119, ht119⟩ : ∃ x, x = addc .q m118l m115h t116.cf := ⟨_, rfl⟩
  obtain ⟨t120, ht120⟩ : ∃ x, x = addc .q t102.val t119.val t117.cf := ⟨_, rfl⟩
  obtain ⟨m121l, hm121l⟩ : ∃ x, x = mulLo a5 b5 := ⟨_, rfl⟩
  obtain ⟨m121h, hm121h⟩ : ∃ x, x = mulHi a5 b5 := ⟨_, rfl⟩
  obtain ⟨t122, ht122⟩ : ∃ x, x = addc .q m121l m118h t119.cf := ⟨_, rfl⟩
  obtain ⟨t123, ht123⟩ : ∃ x, x = addc .q t104.val t122.val t120.cf := ⟨_, rfl⟩
  obtain ⟨t124, ht124⟩ : ∃ x, x = addc .q m121h (0#64) t123.cf := ⟨_, rfl⟩
  obtain ⟨t125, ht125⟩ : ∃ x, x = addc .q t124.val (0#64) t122.cf := ⟨_, rfl⟩
  have hq0 := mulx768_part0 s pr pa pb hr ha hb hra hrb hstk hrs has hbs hst hpc hdi hsi hdx (t10 := t10) (t12 := t12) (t14 := t14) (t16 := t16) (t18 := t18) (t19 := t19) (t20 := t20) (a0 := a0) (b0 := b0) (b1 := b1) (b2 := b2) (b3 := b3) (b4 := b4) (b5 := b5) (m7h := m7h) (m7l := m7l) (m9h := m9h) (m9l := m9l) (m11h := m11h) (m11l := m11l) (m13h := m13h) (m13l := m13l) (m15h := m15h) (m15l := m15l) (m17h := m17h) (m17l := m17l) ha0 hb0 hb1 hb2 hb3 hb4 hb5 hm7l hm7h hm9l hm9h ht10 hm11l hm11h ht12 hm13l hm13h ht14 hm15l hm15h ht16 hm17l hm17h ht18 ht19 ht20
  have hq1 := mulx768_part1 s pr pa pb hr ha hb hra hrb hstk hrs has hbs (t10 := t10) (t12 := t12) (t14 := t14) (t16 := t16) (t18 := t18) (t19 := t19) (t20 := t20) (t23 := t23) (t26 := t26) (t27 := t27) (t29 := t29) (t30 := t30) (t32 := t32) (t33 := t33) (t35 := t35) (t36 := t36) (t38 := t38) (t39 := t39) (t40 := t40) (t41 := t41) (a0 := a0) (a1 := a1) (b0 := b0) (b1 := b1) (b2 := b2) (b3 := b3) (b4 := b4) (b5 := b5) (m7l := m7l) (m15h := m15h) (m22h := m22h) (m22l := m22l) (m25h := m25h) (m25l := m25l) (m28h := m28h) (m28l := m28l) (m31h := m31h) (m31l := m31l) (m34h := m34h) (m34l := m34l) (m37h := m37h) (m37l := m37l) ha1 hb0 hb1 hb2 hb3 hb4 hb5 hm22l hm22h ht23 hm25l hm25h ht26 ht27 hm28l hm28h ht29 ht30 hm31l hm31h ht32 ht33 hm34l hm34h ht35 ht36 hm37l hm37h ht38 ht39 ht40 ht41
  have hq2 := mulx768_part2 s pr pa pb hr ha hb hra hrb hstk hrs has hbs (t23 := t23) (t27 := t27) (t30 := t30) (t33 := t33) (t36 := t36) (t38 := t38) (t39 := t39) (t40 := t40) (t41 := t41) (t44 := t44) (t47 := t47) (t48 := t48) (t50 := t50) (t51 := t51) (t53 := t53) (t54 := t54) (t56 := t56) (t57 := t57) (t59 := t59) (t60 := t60) (t61 := t61) (t62 := t62) (a1 := a1) (a2 := a2) (b0 := b0) (b1 := b1) (b2 := b2) (b3 := b3) (b4 := b4) (b5 := b5) (m7l := m7l) (m34h := m34h) (m43h := m43h) (m43l := m43l) (m46h := m46h) (m46l := m46l) (m49h := m49h) (m49l := m49l) (m52h := m52h) (m52l := m52l) (m55h := m55h) (m55l := m55l) (m58h := m58h) (m58l := m58l) ha2 hb0 hb1 hb2 hb3 hb4 hb5 hm43l hm43h ht44 hm46l hm46h ht47 ht48 hm49l hm49h ht50 ht51 hm52l hm52h ht53 ht54 hm55l hm55h ht56 ht57 hm58l hm58h ht59 ht60 ht61 ht62
  have hq3 := mulx768_part3 s pr pa pb hr ha hb hra hrb hstk hrs has hbs (t23 := t23) (t44 := t44) (t48 := t48) (t51 := t51) (t54 := t54) (t57 := t57) (t59 := t59) (t60 := t60) (t61 := t61) (t62 := t62) (t65 := t65) (t68 := t68) (t69 := t69) (t71 := t71) (t72 := t72) (t74 := t74) (t75 := t75) (t77 := t77) (t78 := t78) (t80 := t80) (t81 := t81) (t82 := t82) (t83 := t83) (a2 := a2) (a3 := a3) (b0 := b0) (b1 := b1) (b2 := b2) (b3 := b3) (b4 := b4) (b5 := b5) (m7l := m7l) (m55h := m55h) (m64h := m64h) (m64l := m64l) (m67h := m67h) (m67l := m67l) (m70h := m70h) (m70l := m70l) (m73h := m73h) (m73l := m73l) (m76h := m76h) (m76l := m76l) (m79h := m79h) (m79l := m79l) ha3 hb0 hb1 hb2 hb3 hb4 hb5 hm64l hm64h ht65 hm67l hm67h ht68 ht69 hm70l hm70h ht71 ht72 hm73l hm73h ht74 ht75 hm76l hm76h ht77 ht78 hm79l hm79h ht80 ht81 ht82 ht83
  have hq4 := mulx768_part4 s pr pa pb hr ha hb hra hrb hstk hrs has hbs (t23 := t23) (t44 := t44) (t65 := t65) (t69 := t69) (t72 := t72) (t75 := t75) (t78 := t78) (t80 := t80) (t81 := t81) (t82 := t82) (t83 := t83) (t86 := t86) (t89 := t89) (t90 := t90) (t92 := t92) (t93 := t93) (t95 := t95) (t96 := t96) (t98 := t98) (t99 := t99) (t101 := t101) (t102 := t102) (t103 := t103) (t104 := t104) (a3 := a3) (a4 := a4) (b0 := b0) (b1 := b1) (b2 := b2) (b3 := b3) (b4 := b4) (b5 := b5) (m7l := m7l) (m76h := m76h) (m85h := m85h) (m85l := m85l) (m88h := m88h) (m88l := m88l) (m91h := m91h) (m91l := m91l) (m94h := m94h) (m94l := m94l) (m97h := m97h) (m97l := m97l) (m100h := m100h) (m100l := m100l) ha4 hb0 hb1 hb2 hb3 hb4 hb5 hm85l hm85h ht86 hm88l hm88h ht89 ht90 hm91l hm91h ht92 ht93 hm94l hm94h ht95 ht96 hm97l hm97h ht98 ht99 hm100l hm100h ht101 ht102 ht103 ht104
  have hq5 := mulx768_part5 s pr pa pb hr ha hb hra hrb hstk hrs has hbs (t23 := t23) (t44 := t44) (t65 := t65) (t86 := t86) (t90 := t90) (t93 := t93) (t96 := t96) (t99 := t99) (t101 := t101) (t102 := t102) (t103 := t103) (t104 := t104) (t107 := t107) (t110 := t110) (t111 := t111) (t113 := t113) (t114 := t114) (t116 := t116) (t117 := t117) (t119 := t119) (t120 := t120) (t122 := t122) (t123 := t123) (t124 := t124) (t125 := t125) (a4 := a4) (a5 := a5) (b0 := b0) (b1 := b1) (b2 := b2) (b3 := b3) (b4 := b4) (b5 := b5) (m7l := m7l) (m97h := m97h) (m106h := m106h) (m106l := m106l) (m109h := m109h) (m109l := m109l) (m112h := m112h) (m112l := m112l) (m115h := m115h) (m115l := m115l) (m118h := m118h) (m118l := m118l) (m121h := m121h) (m121l := m121l) ha5 hb0 hb1 hb2 hb3 hb4 hb5 hm106l hm106h ht107 hm109l hm109h ht110 ht111 hm112l hm112h ht113 ht114 hm115l hm115h ht116 ht117 hm118l hm118h ht119 ht120 hm121l hm121h ht122 ht123 ht124 ht125
  have hq6 := mulx768_part6 s pr pa pb hr ha hb hra hrb hstk hrs has hbs (t23 := t23) (t44 := t44) (t65 := t65) (t86 := t86) (t107 := t107) (t111 := t111) (t114 := t114) (t117 := t117) (t120 := t120) (t122 := t122) (t123 := t123) (t124 := t124) (t125 := t125) (a5 := a5) (m7l := m7l) (m118h := m118h) 
  have hall : run embedded_pairing_core_arch_x86_64_bmi2_adx_bigint_768_multiply s 137 = _ := show run embedded_pairing_core_arch_x86_64_bmi2_adx_bigint_768_multiply s (21 + (21 + (21 + (21 + (21 + (21 + (11))))))) = _ from run_chain hq0 (run_chain hq1 (run_chain hq2 (run_chain hq3 (run_chain hq4 (run_chain hq5 (hq6))))))
  rw [hall]
  obtain ⟨room1, -⟩ := hstk.f1 (by omega)
  obtain ⟨room4, -⟩ := hstk.f4 (by omega)
  replace hrs := Hide.mk hrs
  simp only [OffStack] at hrs
  clear hq0 hq1 hq2 hq3 hq4 hq5 hq6 hall
  refine ⟨⟨rfl, ?_, ?_, ?_, rfl, ?_, ?_, ?_, rfl⟩, ?_, ?_⟩
  · simp only
  · simp only
  · simp only
  · simp only
  · simp only
  · simp only
  · x86_mem
    obtain ⟨E0, c0, o0⟩ := adx_row0 hm7l hm7h hm9l hm9h hm11l hm11h hm13l hm13h hm15l hm15h hm17l hm17h ht10 ht12 ht14 ht16 ht18 ht19 ht20
    obtain ⟨E1, c1, o1⟩ := adx_row hm22l hm22h hm25l hm25h hm28l hm28h hm31l hm31h hm34l hm34h hm37l hm37h ht23 ht26 ht27 ht29 ht30 ht32 ht33 ht35 ht36 ht38 ht39 ht40 ht41 c0 o0
    obtain ⟨E2, c2, o2⟩ := adx_row hm43l hm43h hm46l hm46h hm49l hm49h hm52l hm52h hm55l hm55h hm58l hm58h ht44 ht47 ht48 ht50 ht51 ht53 ht54 ht56 ht57 ht59 ht60 ht61 ht62 c1 o1
    obtain ⟨E3, c3, o3⟩ := adx_row hm64l hm64h hm67l hm67h hm70l hm70h hm73l hm73h hm76l hm76h hm79l hm79h ht65 ht68 ht69 ht71 ht72 ht74 ht75 ht77 ht78 ht80 ht81 ht82 ht83 c2 o2
    obtain ⟨E4, c4, o4⟩ := adx_row hm85l hm85h hm88l hm88h hm91l hm91h hm94l hm94h hm97l hm97h hm100l hm100h ht86 ht89 ht90 ht92 ht93 ht95 ht96 ht98 ht99 ht101 ht102 ht103 ht104 c3 o3
    obtain ⟨E5, c5, o5⟩ := adx_row hm106l hm106h hm109l hm109h hm112l hm112h hm115l hm115h hm118l hm118h hm121l hm121h ht107 ht110 ht111 ht113 ht114 ht116 ht117 ht119 ht120 ht122 ht123 ht124 ht125 c4 o4
    simp only [val_cons, val_nil] at E0 E1 E2 E3 E4 E5 ⊢
    linear_combination E0 + 2 ^ 64 * E1 + 2 ^ 128 * E2 + 2 ^ 192 * E3 + 2 ^ 256 * E4 + 2 ^ 320 * E5
  · intro k hk1 hk2
    simp (disch := (clear * - hk1 hk2 room1 room4; omega)) only [setMem_ne]

end Jedi.X86
