/-
Proofs about the LQ-IBE marshalling models of `Impl/Marshal.lean` (last section: `lqMarshal*`, `lqUnmarshal*`,
`lq*Len` — src/lqibe/marshal.cpp, include/lqibe/api.hpp), the definitions the judge executes on the `lq_m` / `lq_um` /
`lq_msk` lines (Driver/Judge6.lean):
  * lengths = the C++ `marshalledLength` constants;
  * round trips `unmarshal (marshal x ++ rest) = some x` in both wire forms, for any decoder record that decodes the
    object's own elements (in particular every `Decoders.Good` record on objects made of valid elements);
  * the repaired validating unmarshal (`checkedDecoders`) accepts exactly the marshaller's range (on valid objects) and
    returns the preimage; so do the judge's `canonicalDecoders`;
  * master keys: `memcpy` in both directions — a bijection between 32-byte strings and scalars below 2²⁵⁶.
Property-level restatements: `Properties/C15c.lean`.
-/
import JediVerif.Proofs.EncodeProofs
import JediVerif.Proofs.FpUtilsProofs

namespace Jedi.Impl
open Jedi

/-! ## little-endian byte strings (the `memcpy` image of a `BigInt`) -/

theorem toBytesLE_eq_reverse (w v : Nat) : toBytesLE w v = (toBytesBE w v).reverse := by
  rw [← toBytesLE_reverse, List.reverse_reverse]

theorem ofBytesLE_eq (bs : List UInt8) : ofBytesLE bs = ofBytesBE bs.reverse := by
  rw [← ofBytesLE_reverse, List.reverse_reverse]

theorem ofBytesLE_toBytesLE (w v : Nat) : ofBytesLE (toBytesLE w v) = v % 256 ^ w := by
  rw [toBytesLE_eq_reverse, ofBytesLE_reverse, ofBytesBE_toBytesBE]

theorem toBytesLE_ofBytesLE (bs : List UInt8) : toBytesLE bs.length (ofBytesLE bs) = bs := by
  rw [toBytesLE_eq_reverse, ofBytesLE_eq]
  have := toBytesBE_ofBytesBE bs.reverse
  rw [List.length_reverse] at this
  rw [this, List.reverse_reverse]

/-! ## lengths: the bytes written are `marshalledLength<compressed>` -/

theorem lqMarshalParams_length (comp : Bool) (pp : LParams) : (lqMarshalParams comp pp).length = lqParamsLen comp := by
  unfold lqMarshalParams lqParamsLen
  rw [List.length_append, encG2_length, encG2_length]; omega
theorem lqMarshalId_length (comp : Bool) (q : G1Pt) : (lqMarshalId comp q).length = lqIdLen comp := encG1_length comp q
theorem lqMarshalSk_length (comp : Bool) (sq : G1Pt) : (lqMarshalSk comp sq).length = lqSkLen comp := encG1_length comp sq
theorem lqMarshalCt_length (comp : Bool) (rp : G2Pt) : (lqMarshalCt comp rp).length = lqCtLen comp := encG2_length comp rp
theorem lqMarshalMsk_length (comp : Bool) (s : Nat) : (lqMarshalMsk comp s).length = lqMskLen comp :=
  toBytesLE_length 32 s

/-- the numbers: 192 | 384, 48 | 96, 32, 48 | 96, 96 | 192. -/
theorem lqLen_values :
    lqParamsLen true = 192 ∧ lqParamsLen false = 384 ∧ lqIdLen true = 48 ∧ lqIdLen false = 96 ∧
    lqMskLen true = 32 ∧ lqMskLen false = 32 ∧ lqSkLen true = 48 ∧ lqSkLen false = 96 ∧
    lqCtLen true = 96 ∧ lqCtLen false = 192 := by decide

/-! ## round trips (any decoder record; trailing bytes are not looked at) -/

section RoundTrip
variable (D : Decoders) (comp : Bool)

theorem lqUnmarshalParams_append (pp : LParams)
    (hp : D.dec2 comp (encG2 comp pp.p) = some pp.p) (hsp : D.dec2 comp (encG2 comp pp.sp) = some pp.sp)
    (rest : List UInt8) : lqUnmarshalParams D comp (lqMarshalParams comp pp ++ rest) = some pp := by
  unfold lqUnmarshalParams lqMarshalParams
  rw [List.append_assoc, readG2_append hp]
  simp only
  rw [readG2_append hsp]

theorem lqUnmarshalParams_lqMarshalParams (pp : LParams)
    (hp : D.dec2 comp (encG2 comp pp.p) = some pp.p) (hsp : D.dec2 comp (encG2 comp pp.sp) = some pp.sp) :
    lqUnmarshalParams D comp (lqMarshalParams comp pp) = some pp := by
  have := lqUnmarshalParams_append D comp pp hp hsp []
  rwa [List.append_nil] at this

theorem lqUnmarshalId_append (q : G1Pt) (h : D.dec1 comp (encG1 comp q) = some q) (rest : List UInt8) :
    lqUnmarshalId D comp (lqMarshalId comp q ++ rest) = some q := by
  unfold lqUnmarshalId lqMarshalId
  rw [readG1_append h]; rfl

theorem lqUnmarshalId_lqMarshalId (q : G1Pt) (h : D.dec1 comp (encG1 comp q) = some q) :
    lqUnmarshalId D comp (lqMarshalId comp q) = some q := by
  have := lqUnmarshalId_append D comp q h []
  rwa [List.append_nil] at this

theorem lqUnmarshalSk_append (sq : G1Pt) (h : D.dec1 comp (encG1 comp sq) = some sq) (rest : List UInt8) :
    lqUnmarshalSk D comp (lqMarshalSk comp sq ++ rest) = some sq := lqUnmarshalId_append D comp sq h rest

theorem lqUnmarshalSk_lqMarshalSk (sq : G1Pt) (h : D.dec1 comp (encG1 comp sq) = some sq) :
    lqUnmarshalSk D comp (lqMarshalSk comp sq) = some sq := lqUnmarshalId_lqMarshalId D comp sq h

theorem lqUnmarshalCt_append (rp : G2Pt) (h : D.dec2 comp (encG2 comp rp) = some rp) (rest : List UInt8) :
    lqUnmarshalCt D comp (lqMarshalCt comp rp ++ rest) = some rp := by
  unfold lqUnmarshalCt lqMarshalCt
  rw [readG2_append h]; rfl

theorem lqUnmarshalCt_lqMarshalCt (rp : G2Pt) (h : D.dec2 comp (encG2 comp rp) = some rp) :
    lqUnmarshalCt D comp (lqMarshalCt comp rp) = some rp := by
  have := lqUnmarshalCt_append D comp rp h []
  rwa [List.append_nil] at this

end RoundTrip

/-! ### master keys: `memcpy` there and back -/

theorem lqUnmarshalMsk_append (comp comp' : Bool) (s : Nat) (rest : List UInt8) :
    lqUnmarshalMsk comp' (lqMarshalMsk comp s ++ rest) = some (s % 2 ^ 256) := by
  unfold lqUnmarshalMsk lqMarshalMsk
  rw [takeN_append _ _ (toBytesLE_length 32 s)]
  simp only
  rw [ofBytesLE_toBytesLE]
  rfl

/-- the round trip for every value a `BigInt<256>` can hold (in particular for values ≥ r: nothing is reduced). -/
theorem lqUnmarshalMsk_lqMarshalMsk (comp comp' : Bool) {s : Nat} (h : s < 2 ^ 256) :
    lqUnmarshalMsk comp' (lqMarshalMsk comp s) = some s := by
  have := lqUnmarshalMsk_append comp comp' s []
  rwa [List.append_nil, Nat.mod_eq_of_lt h] at this

/-- `unmarshal` accepts every buffer of `marshalledLength` bytes (it `return`s `true` unconditionally) … -/
theorem lqUnmarshalMsk_isSome (comp : Bool) {bs : List UInt8} (h : lqMskLen comp ≤ bs.length) :
    (lqUnmarshalMsk comp bs).isSome = true := by
  unfold lqUnmarshalMsk takeN
  rw [if_neg (by unfold lqMskLen at h; omega)]
  rfl

/-- … and a 32-byte buffer is the image of exactly one scalar below 2²⁵⁶, the one `unmarshal` returns. -/
theorem lqUnmarshalMsk_iff (comp : Bool) (bs : List UInt8) (hl : bs.length = lqMskLen comp) (s : Nat) :
    lqUnmarshalMsk comp bs = some s ↔ (s < 2 ^ 256 ∧ lqMarshalMsk comp s = bs) := by
  have h32 : bs.length = 32 := hl
  have hu : lqUnmarshalMsk comp bs = some (ofBytesLE bs) := by
    unfold lqUnmarshalMsk takeN
    rw [if_neg (by omega)]
    simp only
    rw [← h32, List.take_length]
  constructor
  · intro h
    rw [hu] at h
    injection h with h
    subst h
    refine ⟨?_, ?_⟩
    · have := ofBytesLE_lt bs
      rw [h32] at this
      exact lt_of_lt_of_eq this (by norm_num)
    · unfold lqMarshalMsk
      rw [← h32, toBytesLE_ofBytesLE]
  · rintro ⟨hs, rfl⟩
    exact lqUnmarshalMsk_lqMarshalMsk comp comp hs

/-! ## objects made of valid elements, `Decoders.Good` records (library decoders with `checked` set or clear, the
repaired validating decode, the judge's decoders) -/

section Valid
variable {D : Decoders} (hD : D.Good) (comp : Bool)
include hD

/-- an LQ-IBE parameter object the validating unmarshal accepts: both elements on the twist, of order dividing r. -/
theorem lqUnmarshalParams_valid {pp : LParams} (hp : validG2 pp.p) (hsp : validG2 pp.sp) :
    lqUnmarshalParams D comp (lqMarshalParams comp pp) = some pp :=
  lqUnmarshalParams_lqMarshalParams D comp pp (hD.g2 comp _ hp) (hD.g2 comp _ hsp)
theorem lqUnmarshalId_valid {q : G1Pt} (h : validG1 q) : lqUnmarshalId D comp (lqMarshalId comp q) = some q :=
  lqUnmarshalId_lqMarshalId D comp q (hD.g1 comp _ h)
theorem lqUnmarshalSk_valid {sq : G1Pt} (h : validG1 sq) : lqUnmarshalSk D comp (lqMarshalSk comp sq) = some sq :=
  lqUnmarshalSk_lqMarshalSk D comp sq (hD.g1 comp _ h)
theorem lqUnmarshalCt_valid {rp : G2Pt} (h : validG2 rp) : lqUnmarshalCt D comp (lqMarshalCt comp rp) = some rp :=
  lqUnmarshalCt_lqMarshalCt D comp rp (hD.g2 comp _ h)

omit comp in
/-- the two wire forms carry the same object. -/
theorem lqUnmarshalParams_compressed_eq_uncompressed {pp : LParams} (hp : validG2 pp.p) (hsp : validG2 pp.sp) :
    lqUnmarshalParams D true (lqMarshalParams true pp) = lqUnmarshalParams D false (lqMarshalParams false pp) := by
  rw [lqUnmarshalParams_valid hD true hp hsp, lqUnmarshalParams_valid hD false hp hsp]

end Valid

/-- marshalling is injective on valid objects (each form). -/
theorem lqMarshalParams_injective (comp : Bool) {pp pp' : LParams} (hp : validG2 pp.p) (hsp : validG2 pp.sp)
    (hp' : validG2 pp'.p) (hsp' : validG2 pp'.sp) (h : lqMarshalParams comp pp = lqMarshalParams comp pp') : pp = pp' := by
  have h1 := lqUnmarshalParams_valid (checkedDecoders_good fun _ _ => 1) comp hp hsp
  rw [h, lqUnmarshalParams_valid (checkedDecoders_good fun _ _ => 1) comp hp' hsp'] at h1
  injection h1 with h1; exact h1.symm
theorem lqMarshalId_injective (comp : Bool) {q q' : G1Pt} (hq : validG1 q) (hq' : validG1 q')
    (h : lqMarshalId comp q = lqMarshalId comp q') : q = q' := by
  have h1 := lqUnmarshalId_valid (checkedDecoders_good fun _ _ => 1) comp hq
  rw [h, lqUnmarshalId_valid (checkedDecoders_good fun _ _ => 1) comp hq'] at h1
  injection h1 with h1; exact h1.symm
theorem lqMarshalCt_injective (comp : Bool) {p p' : G2Pt} (hp : validG2 p) (hp' : validG2 p')
    (h : lqMarshalCt comp p = lqMarshalCt comp p') : p = p' := by
  have h1 := lqUnmarshalCt_valid (checkedDecoders_good fun _ _ => 1) comp hp
  rw [h, lqUnmarshalCt_valid (checkedDecoders_good fun _ _ => 1) comp hp'] at h1
  injection h1 with h1; exact h1.symm
theorem lqMarshalMsk_injective (comp : Bool) {s s' : Nat} (hs : s < 2 ^ 256) (hs' : s' < 2 ^ 256)
    (h : lqMarshalMsk comp s = lqMarshalMsk comp s') : s = s' := by
  have h1 := lqUnmarshalMsk_lqMarshalMsk comp comp hs
  rw [h, lqUnmarshalMsk_lqMarshalMsk comp comp hs'] at h1
  injection h1 with h1; exact h1.symm

/-! ## the validating unmarshal accepts exactly the marshaller's range -/

section Checked
variable (pair : G1Pt → G2Pt → Fq12) (comp : Bool)

/-- prefix form (no assumption on the buffer): accepted iff the buffer STARTS with the marshalled image of an object
made of valid elements, which is then the object returned. -/
theorem lqUnmarshalParams_checked_iff_prefix (bs : List UInt8) (pp : LParams) :
    lqUnmarshalParams (checkedDecoders pair) comp bs = some pp ↔
      (validG2 pp.p ∧ validG2 pp.sp ∧ ∃ rest, bs = lqMarshalParams comp pp ++ rest) := by
  constructor
  · intro h
    unfold lqUnmarshalParams at h
    split at h
    · cases h
    · rename_i p r1 h1
      split at h
      · cases h
      · rename_i sp r2 h2
        injection h with h; subst h
        obtain ⟨v0, e0⟩ := readG2_checked_some h1
        obtain ⟨v1, e1⟩ := readG2_checked_some h2
        refine ⟨v0, v1, r2, ?_⟩
        rw [e0, e1]
        unfold lqMarshalParams
        rw [List.append_assoc]
  · rintro ⟨v0, v1, rest, rfl⟩
    exact lqUnmarshalParams_append _ comp pp ((checkedDecoders_good pair).g2 comp _ v0)
      ((checkedDecoders_good pair).g2 comp _ v1) rest

theorem lqUnmarshalParams_checked_iff (bs : List UInt8) (hl : bs.length = lqParamsLen comp) (pp : LParams) :
    lqUnmarshalParams (checkedDecoders pair) comp bs = some pp ↔
      (validG2 pp.p ∧ validG2 pp.sp ∧ lqMarshalParams comp pp = bs) := by
  rw [lqUnmarshalParams_checked_iff_prefix]
  constructor
  · rintro ⟨v0, v1, rest, e⟩
    refine ⟨v0, v1, ?_⟩
    have hr : rest = [] := by
      have := congrArg List.length e
      rw [List.length_append, lqMarshalParams_length, hl] at this
      exact List.eq_nil_of_length_eq_zero (by omega)
    rw [e, hr, List.append_nil]
  · rintro ⟨v0, v1, e⟩
    exact ⟨v0, v1, [], by rw [List.append_nil, e]⟩

theorem lqUnmarshalId_checked_iff_prefix (bs : List UInt8) (q : G1Pt) :
    lqUnmarshalId (checkedDecoders pair) comp bs = some q ↔ (validG1 q ∧ ∃ rest, bs = lqMarshalId comp q ++ rest) := by
  constructor
  · intro h
    unfold lqUnmarshalId at h
    cases hr : readG1 (checkedDecoders pair) comp bs with
    | none => rw [hr] at h; cases h
    | some pr =>
      obtain ⟨p, rest⟩ := pr
      rw [hr] at h
      injection h with h
      simp only at h; subst h
      obtain ⟨v, e⟩ := readG1_checked_some hr
      exact ⟨v, rest, e⟩
  · rintro ⟨v, rest, rfl⟩
    exact lqUnmarshalId_append _ comp q ((checkedDecoders_good pair).g1 comp _ v) rest

theorem lqUnmarshalId_checked_iff (bs : List UInt8) (hl : bs.length = lqIdLen comp) (q : G1Pt) :
    lqUnmarshalId (checkedDecoders pair) comp bs = some q ↔ (validG1 q ∧ lqMarshalId comp q = bs) := by
  rw [lqUnmarshalId_checked_iff_prefix]
  constructor
  · rintro ⟨v, rest, e⟩
    refine ⟨v, ?_⟩
    have hr : rest = [] := by
      have := congrArg List.length e
      rw [List.length_append, lqMarshalId_length, hl] at this
      exact List.eq_nil_of_length_eq_zero (by omega)
    rw [e, hr, List.append_nil]
  · rintro ⟨v, e⟩
    exact ⟨v, [], by rw [List.append_nil, e]⟩

theorem lqUnmarshalSk_checked_iff_prefix (bs : List UInt8) (sq : G1Pt) :
    lqUnmarshalSk (checkedDecoders pair) comp bs = some sq ↔ (validG1 sq ∧ ∃ rest, bs = lqMarshalSk comp sq ++ rest) :=
  lqUnmarshalId_checked_iff_prefix pair comp bs sq

theorem lqUnmarshalSk_checked_iff (bs : List UInt8) (hl : bs.length = lqSkLen comp) (sq : G1Pt) :
    lqUnmarshalSk (checkedDecoders pair) comp bs = some sq ↔ (validG1 sq ∧ lqMarshalSk comp sq = bs) :=
  lqUnmarshalId_checked_iff pair comp bs hl sq

theorem lqUnmarshalCt_checked_iff_prefix (bs : List UInt8) (rp : G2Pt) :
    lqUnmarshalCt (checkedDecoders pair) comp bs = some rp ↔ (validG2 rp ∧ ∃ rest, bs = lqMarshalCt comp rp ++ rest) := by
  constructor
  · intro h
    unfold lqUnmarshalCt at h
    cases hr : readG2 (checkedDecoders pair) comp bs with
    | none => rw [hr] at h; cases h
    | some pr =>
      obtain ⟨p, rest⟩ := pr
      rw [hr] at h
      injection h with h
      simp only at h; subst h
      obtain ⟨v, e⟩ := readG2_checked_some hr
      exact ⟨v, rest, e⟩
  · rintro ⟨v, rest, rfl⟩
    exact lqUnmarshalCt_append _ comp rp ((checkedDecoders_good pair).g2 comp _ v) rest

theorem lqUnmarshalCt_checked_iff (bs : List UInt8) (hl : bs.length = lqCtLen comp) (rp : G2Pt) :
    lqUnmarshalCt (checkedDecoders pair) comp bs = some rp ↔ (validG2 rp ∧ lqMarshalCt comp rp = bs) := by
  rw [lqUnmarshalCt_checked_iff_prefix]
  constructor
  · rintro ⟨v, rest, e⟩
    refine ⟨v, ?_⟩
    have hr : rest = [] := by
      have := congrArg List.length e
      rw [List.length_append, lqMarshalCt_length, hl] at this
      exact List.eq_nil_of_length_eq_zero (by omega)
    rw [e, hr, List.append_nil]
  · rintro ⟨v, e⟩
    exact ⟨v, [], by rw [List.append_nil, e]⟩

/-- rejection: a buffer of the right size is refused iff it is not the image of a valid object. -/
theorem lqUnmarshalParams_checked_none_iff (bs : List UInt8) (hl : bs.length = lqParamsLen comp) :
    lqUnmarshalParams (checkedDecoders pair) comp bs = none ↔
      ¬ ∃ pp : LParams, validG2 pp.p ∧ validG2 pp.sp ∧ lqMarshalParams comp pp = bs := by
  constructor
  · rintro h ⟨pp, hpp⟩
    rw [(lqUnmarshalParams_checked_iff pair comp bs hl pp).mpr hpp] at h; cases h
  · intro h
    cases hr : lqUnmarshalParams (checkedDecoders pair) comp bs with
    | none => rfl
    | some pp => exact absurd ⟨pp, (lqUnmarshalParams_checked_iff pair comp bs hl pp).mp hr⟩ h

theorem lqUnmarshalId_checked_none_iff (bs : List UInt8) (hl : bs.length = lqIdLen comp) :
    lqUnmarshalId (checkedDecoders pair) comp bs = none ↔ ¬ ∃ q : G1Pt, validG1 q ∧ lqMarshalId comp q = bs := by
  constructor
  · rintro h ⟨q, hq⟩
    rw [(lqUnmarshalId_checked_iff pair comp bs hl q).mpr hq] at h; cases h
  · intro h
    cases hr : lqUnmarshalId (checkedDecoders pair) comp bs with
    | none => rfl
    | some q => exact absurd ⟨q, (lqUnmarshalId_checked_iff pair comp bs hl q).mp hr⟩ h

theorem lqUnmarshalSk_checked_none_iff (bs : List UInt8) (hl : bs.length = lqSkLen comp) :
    lqUnmarshalSk (checkedDecoders pair) comp bs = none ↔ ¬ ∃ sq : G1Pt, validG1 sq ∧ lqMarshalSk comp sq = bs :=
  lqUnmarshalId_checked_none_iff pair comp bs hl

theorem lqUnmarshalCt_checked_none_iff (bs : List UInt8) (hl : bs.length = lqCtLen comp) :
    lqUnmarshalCt (checkedDecoders pair) comp bs = none ↔ ¬ ∃ rp : G2Pt, validG2 rp ∧ lqMarshalCt comp rp = bs := by
  constructor
  · rintro h ⟨q, hq⟩
    rw [(lqUnmarshalCt_checked_iff pair comp bs hl q).mpr hq] at h; cases h
  · intro h
    cases hr : lqUnmarshalCt (checkedDecoders pair) comp bs with
    | none => rfl
    | some q => exact absurd ⟨q, (lqUnmarshalCt_checked_iff pair comp bs hl q).mp hr⟩ h

end Checked

/-! ## whatever the validating unmarshal accepts, every `Good` record (e.g. the non-validating call) reads the same -/

theorem lqUnmarshalParams_of_checked {D : Decoders} (hD : D.Good) (pair) (comp : Bool) {bs : List UInt8} {pp : LParams}
    (h : lqUnmarshalParams (checkedDecoders pair) comp bs = some pp) : lqUnmarshalParams D comp bs = some pp := by
  obtain ⟨v0, v1, rest, rfl⟩ := (lqUnmarshalParams_checked_iff_prefix pair comp bs pp).mp h
  exact lqUnmarshalParams_append D comp pp (hD.g2 comp _ v0) (hD.g2 comp _ v1) rest
theorem lqUnmarshalId_of_checked {D : Decoders} (hD : D.Good) (pair) (comp : Bool) {bs : List UInt8} {q : G1Pt}
    (h : lqUnmarshalId (checkedDecoders pair) comp bs = some q) : lqUnmarshalId D comp bs = some q := by
  obtain ⟨v, rest, rfl⟩ := (lqUnmarshalId_checked_iff_prefix pair comp bs q).mp h
  exact lqUnmarshalId_append D comp q (hD.g1 comp _ v) rest
theorem lqUnmarshalSk_of_checked {D : Decoders} (hD : D.Good) (pair) (comp : Bool) {bs : List UInt8} {sq : G1Pt}
    (h : lqUnmarshalSk (checkedDecoders pair) comp bs = some sq) : lqUnmarshalSk D comp bs = some sq :=
  lqUnmarshalId_of_checked hD pair comp h
theorem lqUnmarshalCt_of_checked {D : Decoders} (hD : D.Good) (pair) (comp : Bool) {bs : List UInt8} {rp : G2Pt}
    (h : lqUnmarshalCt (checkedDecoders pair) comp bs = some rp) : lqUnmarshalCt D comp bs = some rp := by
  obtain ⟨v, rest, rfl⟩ := (lqUnmarshalCt_checked_iff_prefix pair comp bs rp).mp h
  exact lqUnmarshalCt_append D comp rp (hD.g2 comp _ v) rest

/-! ## what the judge executes (`canonicalDecoders`) is what the theorems are about (`checkedDecoders`) -/

section Judge
variable {D D' : Decoders}

theorem lqUnmarshalParams_congr (h : D.Agree D') (comp : Bool) (bs : List UInt8) :
    lqUnmarshalParams D comp bs = lqUnmarshalParams D' comp bs := by
  unfold lqUnmarshalParams
  simp only [h.g2]
theorem lqUnmarshalId_congr (h : D.Agree D') (comp : Bool) (bs : List UInt8) :
    lqUnmarshalId D comp bs = lqUnmarshalId D' comp bs := by
  unfold lqUnmarshalId
  rw [h.g1]
theorem lqUnmarshalSk_congr (h : D.Agree D') (comp : Bool) (bs : List UInt8) :
    lqUnmarshalSk D comp bs = lqUnmarshalSk D' comp bs := lqUnmarshalId_congr h comp bs
theorem lqUnmarshalCt_congr (h : D.Agree D') (comp : Bool) (bs : List UInt8) :
    lqUnmarshalCt D comp bs = lqUnmarshalCt D' comp bs := by
  unfold lqUnmarshalCt
  rw [h.g2]

theorem lqUnmarshalParams_canonicalDecoders (pair : G1Pt → G2Pt → Fq12) (comp : Bool) (bs : List UInt8) :
    lqUnmarshalParams (canonicalDecoders pair) comp bs = lqUnmarshalParams (checkedDecoders pair) comp bs :=
  lqUnmarshalParams_congr (canonicalDecoders_agree pair) comp bs
theorem lqUnmarshalId_canonicalDecoders (pair : G1Pt → G2Pt → Fq12) (comp : Bool) (bs : List UInt8) :
    lqUnmarshalId (canonicalDecoders pair) comp bs = lqUnmarshalId (checkedDecoders pair) comp bs :=
  lqUnmarshalId_congr (canonicalDecoders_agree pair) comp bs
theorem lqUnmarshalSk_canonicalDecoders (pair : G1Pt → G2Pt → Fq12) (comp : Bool) (bs : List UInt8) :
    lqUnmarshalSk (canonicalDecoders pair) comp bs = lqUnmarshalSk (checkedDecoders pair) comp bs :=
  lqUnmarshalSk_congr (canonicalDecoders_agree pair) comp bs
theorem lqUnmarshalCt_canonicalDecoders (pair : G1Pt → G2Pt → Fq12) (comp : Bool) (bs : List UInt8) :
    lqUnmarshalCt (canonicalDecoders pair) comp bs = lqUnmarshalCt (checkedDecoders pair) comp bs :=
  lqUnmarshalCt_congr (canonicalDecoders_agree pair) comp bs

end Judge

end Jedi.Impl
