/-
`bmi2_adx_bigint_768_square` (/repo/src/core/arch/x86_64/multiply_bmi2_adx.s): for every entry state
satisfying the calling convention the twelve result limbs are `a²`.

First the fifteen products below the diagonal with the CF (`adcx`) / OF (`adox`) chains; each row closes
its chains by adding the zero register into the high word of the last product, and the code then reuses
the flag as the carry-in of the next row at a lower word — sound only because that addition never carries
(`mulHi_adc_nocarry`, a high word is at most `2^64 − 2`).  Then, in one pass, the CF chain doubles the ten
words while the OF chain adds the six diagonal squares; the final carry out of the top word is zero
because `a² < 2^768` (`sqr_no_carry`).  Every `addc` contributes one equation, weighted by the limb it
belongs to; one `linear_combination` adds them up.
-/
import JediVerif.Proofs.AsmSqrProofs

set_option linter.unusedSimpArgs false
set_option exponentiation.threshold 800

namespace Jedi.X86
open Jedi.Impl (val WF val_cons val_nil val_lt val_inj)

/-- `adcx`/`adox`/`adc` of zero into the high word of a product cannot carry out (`hi ≤ 2^64 − 2`) -/
theorem mulHi_adc_nocarry {x y h : Word} {c : Bool} {t : ArithRes} (hh : h = mulHi x y) (ht : t = addc .q h (0#64) c) :
    t.cf = false := by
  have hm := mul_spec x y; rw [← hh] at hm
  have hb := mul_lt x y
  have e := addc_spec h (0#64) c; rw [← ht] at e
  have := Bool.toNat_le c; have := (mulLo x y).isLt; have := t.val.isLt
  simp only [BitVec.toNat_ofNat, Nat.zero_mod, Nat.add_zero] at e
  cases hc : t.cf
  · rfl
  · rw [hc] at e; simp only [Bool.toNat_true] at e
    generalize x.toNat * y.toNat = p at *
    omega

open Jedi.Gen.AsmX86

/-! ## symbolic execution, cut into pieces -/

set_option maxHeartbeats 1600000 in
theorem sqrx768_part0 (s : State) (pr pa : Word)
    (hr : Buf s pr 12 true) (ha : Buf s pa 6 false) (hra : X86.Disjoint pr 12 pa 6)
    (hstk : Stack s 6) (hrs : OffStack s 6 pr 12) (has : OffStack s 6 pa 6) {a0 a1 a2 a3 a4 m8h m8l m10h m10l m12h m12l m16h m16l m18h m18l m22h m22l m26h m26l : Word} {t11 t13 t14 t17 t19 t20 t21 t23 t24 t27 : ArithRes}
    (hst : s.status = .running) (hpc : s.pc = 0) (hdi : s.rdi = pr) (hsi : s.rsi = pa) (ha0 : a0 = s.mem (pa.toNat + 0)) (ha1 : a1 = s.mem (pa.toNat + 8)) (ha2 : a2 = s.mem (pa.toNat + 16))
    (ha3 : a3 = s.mem (pa.toNat + 24)) (ha4 : a4 = s.mem (pa.toNat + 32)) (hm8l : m8l = mulLo a1 a0)
    (hm8h : m8h = mulHi a1 a0) (hm10l : m10l = mulLo a2 a0) (hm10h : m10h = mulHi a2 a0)
    (ht11 : t11 = addc .q m8h m10l false) (hm12l : m12l = mulLo a2 a1) (hm12h : m12h = mulHi a2 a1)
    (ht13 : t13 = addc .q m12l m10h t11.cf) (ht14 : t14 = addc .q m12h (0#64) t13.cf) (hm16l : m16l = mulLo a3 a0)
    (hm16h : m16h = mulHi a3 a0) (ht17 : t17 = addc .q t13.val m16l t14.cf) (hm18l : m18l = mulLo a3 a1)
    (hm18h : m18h = mulHi a3 a1) (ht19 : t19 = addc .q m18l m16h false) (ht20 : t20 = addc .q t14.val t19.val t17.cf)
    (ht21 : t21 = addc .q m18h (0#64) t19.cf) (hm22l : m22l = mulLo a3 a2) (hm22h : m22h = mulHi a3 a2)
    (ht23 : t23 = addc .q m22l t21.val t20.cf) (ht24 : t24 = addc .q m22h (0#64) t23.cf) (hm26l : m26l = mulLo a4 a0)
    (hm26h : m26h = mulHi a4 a0) (ht27 : t27 = addc .q t20.val m26l t24.cf) :
    run embedded_pairing_core_arch_x86_64_bmi2_adx_bigint_768_square s 28
      = ({ rax := m26l, rcx := s.rcx, rdx := a4, rbx := (0#64), rsp := s.rsp - 8 - 8 - 8 - 8 - 8 - 8, rbp := s.rbp, rsi := pa, rdi := pr, r8 := m26h, r9 := t21.val, r10 := m8l, r11 := t11.val, r12 := t17.val, r13 := t27.val, r14 := t23.val, r15 := t24.val, cf := some t27.cf, zf := some ((0#64) == 0), sf := some (msb .q (0#64)), of := some t21.cf, mem := setMem (setMem (setMem (setMem (setMem (setMem (s.mem) (s.rsp.toNat - 8) s.rbp) (s.rsp.toNat - 8 - 8) s.rbx) (s.rsp.toNat - 8 - 8 - 8) s.r12) (s.rsp.toNat - 8 - 8 - 8 - 8) s.r13) (s.rsp.toNat - 8 - 8 - 8 - 8 - 8) s.r14) (s.rsp.toNat - 8 - 8 - 8 - 8 - 8 - 8) s.r15, readable := s.readable, writable := s.writable, cpuidFn := s.cpuidFn, pc := 28, status := .running } : State) := by
  obtain ⟨ra0, ra1, ra2, ra3, ra4, ra5⟩ := ha.r6
  obtain ⟨⟨alra0, alra1, alra2, alra3, alra4, alra5⟩, fra0, fra1, fra2, fra3, fra4, fra5⟩ := ha.addr6
  obtain ⟨rr0, rr1, rr2, rr3, rr4, rr5, rr6, rr7, rr8, rr9, rr10, rr11⟩ := hr.r12
  obtain ⟨wr0, wr1, wr2, wr3, wr4, wr5, wr6, wr7, wr8, wr9, wr10, wr11⟩ := hr.w12
  obtain ⟨⟨alrr0, alrr1, alrr2, alrr3, alrr4, alrr5, alrr6, alrr7, alrr8, alrr9, alrr10, alrr11⟩, frr0, frr1, frr2, frr3, frr4, frr5, frr6, frr7, frr8, frr9, frr10, frr11⟩ := hr.addr12
  obtain ⟨als0, rs0⟩ := hstk.f0
  obtain ⟨room1, als1, sr1, sw1⟩ := hstk.f1 (by omega)
  obtain ⟨room2, als2, sr2, sw2⟩ := hstk.f2 (by omega)
  obtain ⟨room3, als3, sr3, sw3⟩ := hstk.f3 (by omega)
  obtain ⟨room4, als4, sr4, sw4⟩ := hstk.f4 (by omega)
  obtain ⟨room5, als5, sr5, sw5⟩ := hstk.f5 (by omega)
  obtain ⟨room6, als6, sr6, sw6⟩ := hstk.f6 (by omega)
  replace hra := Hide.mk hra; replace hrs := Hide.mk hrs; replace has := Hide.mk has
  simp only [X86.Disjoint, OffStack] at hra hrs has
  clear ha hr hstk
  rw [State.eta s]
  x86_sym [hst, hpc, hdi, hsi, sub8x3_toNat, sub8x4_toNat, sub8x5_toNat, sub8x6_toNat, sub8x7_toNat, mulLo_fold, mulHi_fold, logic, BitVec.xor_self, ← ha0, ← ha1, ← ha2, ← ha3, ← ha4, ← hm8l, ← hm8h, ← hm10l, ← hm10h, ← ht11, ← hm12l, ← hm12h, ← ht13, ← ht14, ← hm16l, ← hm16h, ← ht17, ← hm18l, ← hm18h, ← ht19, ← ht20, ← ht21, ← hm22l, ← hm22h, ← ht23, ← ht24, ← hm26l, ← hm26h, ← ht27]

set_option maxHeartbeats 1600000 in
theorem sqrx768_part1 (s : State) (pr pa : Word)
    (hr : Buf s pr 12 true) (ha : Buf s pa 6 false) (hra : X86.Disjoint pr 12 pa 6)
    (hstk : Stack s 6) (hrs : OffStack s 6 pr 12) (has : OffStack s 6 pa 6) {a0 a1 a2 a3 a4 a5 m8l m26h m26l m28h m28l m31h m31l m35h m35l m39h m39l m41h m41l m44h m44l m47h m47l m51h m51l : Word} {t11 t17 t21 t23 t24 t27 t29 t30 t32 t33 t34 t36 t37 t40 t42 t43 t45 t46 t48 t49 t50 t52 t54 : ArithRes}
    (ha0 : a0 = s.mem (pa.toNat + 0)) (ha1 : a1 = s.mem (pa.toNat + 8)) (ha2 : a2 = s.mem (pa.toNat + 16))
    (ha3 : a3 = s.mem (pa.toNat + 24)) (ha4 : a4 = s.mem (pa.toNat + 32)) (ha5 : a5 = s.mem (pa.toNat + 40))
    (hm28l : m28l = mulLo a4 a1) (hm28h : m28h = mulHi a4 a1) (ht29 : t29 = addc .q m28l m26h t21.cf)
    (ht30 : t30 = addc .q t23.val t29.val t27.cf) (hm31l : m31l = mulLo a4 a2) (hm31h : m31h = mulHi a4 a2)
    (ht32 : t32 = addc .q m31l m28h t29.cf) (ht33 : t33 = addc .q t24.val t32.val t30.cf)
    (ht34 : t34 = addc .q m31h (0#64) t32.cf) (hm35l : m35l = mulLo a4 a3) (hm35h : m35h = mulHi a4 a3)
    (ht36 : t36 = addc .q m35l t34.val t33.cf) (ht37 : t37 = addc .q m35h (0#64) t36.cf) (hm39l : m39l = mulLo a5 a0)
    (hm39h : m39h = mulHi a5 a0) (ht40 : t40 = addc .q t30.val m39l t37.cf) (hm41l : m41l = mulLo a5 a1)
    (hm41h : m41h = mulHi a5 a1) (ht42 : t42 = addc .q m41l m39h t34.cf) (ht43 : t43 = addc .q t33.val t42.val t40.cf)
    (hm44l : m44l = mulLo a5 a2) (hm44h : m44h = mulHi a5 a2) (ht45 : t45 = addc .q m44l m41h t42.cf)
    (ht46 : t46 = addc .q t36.val t45.val t43.cf) (hm47l : m47l = mulLo a5 a3) (hm47h : m47h = mulHi a5 a3)
    (ht48 : t48 = addc .q m47l m44h t45.cf) (ht49 : t49 = addc .q t37.val t48.val t46.cf)
    (ht50 : t50 = addc .q m47h (0#64) t48.cf) (hm51l : m51l = mulLo a5 a4) (hm51h : m51h = mulHi a5 a4)
    (ht52 : t52 = addc .q m51l t50.val t49.cf) (ht54 : t54 = addc .q m51h (0#64) t52.cf) :
    run embedded_pairing_core_arch_x86_64_bmi2_adx_bigint_768_square ({ rax := m26l, rcx := s.rcx, rdx := a4, rbx := (0#64), rsp := s.rsp - 8 - 8 - 8 - 8 - 8 - 8, rbp := s.rbp, rsi := pa, rdi := pr, r8 := m26h, r9 := t21.val, r10 := m8l, r11 := t11.val, r12 := t17.val, r13 := t27.val, r14 := t23.val, r15 := t24.val, cf := some t27.cf, zf := some ((0#64) == 0), sf := some (msb .q (0#64)), of := some t21.cf, mem := setMem (setMem (setMem (setMem (setMem (setMem (s.mem) (s.rsp.toNat - 8) s.rbp) (s.rsp.toNat - 8 - 8) s.rbx) (s.rsp.toNat - 8 - 8 - 8) s.r12) (s.rsp.toNat - 8 - 8 - 8 - 8) s.r13) (s.rsp.toNat - 8 - 8 - 8 - 8 - 8) s.r14) (s.rsp.toNat - 8 - 8 - 8 - 8 - 8 - 8) s.r15, readable := s.readable, writable := s.writable, cpuidFn := s.cpuidFn, pc := 28, status := .running } : State) 28
      = ({ rax := t54.val, rcx := t46.val, rdx := (0#64), rbx := t52.val, rsp := s.rsp - 8 - 8 - 8 - 8 - 8 - 8, rbp := t49.val, rsi := pa, rdi := pr, r8 := m44h, r9 := (0#64), r10 := m8l, r11 := t11.val, r12 := t17.val, r13 := t27.val, r14 := t40.val, r15 := t43.val, cf := some false, zf := some ((0#64) == 0), sf := some (msb .q (0#64)), of := some false, mem := setMem (setMem (setMem (setMem (setMem (setMem (s.mem) (s.rsp.toNat - 8) s.rbp) (s.rsp.toNat - 8 - 8) s.rbx) (s.rsp.toNat - 8 - 8 - 8) s.r12) (s.rsp.toNat - 8 - 8 - 8 - 8) s.r13) (s.rsp.toNat - 8 - 8 - 8 - 8 - 8) s.r14) (s.rsp.toNat - 8 - 8 - 8 - 8 - 8 - 8) s.r15, readable := s.readable, writable := s.writable, cpuidFn := s.cpuidFn, pc := 56, status := .running } : State) := by
  obtain ⟨ra0, ra1, ra2, ra3, ra4, ra5⟩ := ha.r6
  obtain ⟨⟨alra0, alra1, alra2, alra3, alra4, alra5⟩, fra0, fra1, fra2, fra3, fra4, fra5⟩ := ha.addr6
  obtain ⟨rr0, rr1, rr2, rr3, rr4, rr5, rr6, rr7, rr8, rr9, rr10, rr11⟩ := hr.r12
  obtain ⟨wr0, wr1, wr2, wr3, wr4, wr5, wr6, wr7, wr8, wr9, wr10, wr11⟩ := hr.w12
  obtain ⟨⟨alrr0, alrr1, alrr2, alrr3, alrr4, alrr5, alrr6, alrr7, alrr8, alrr9, alrr10, alrr11⟩, frr0, frr1, frr2, frr3, frr4, frr5, frr6, frr7, frr8, frr9, frr10, frr11⟩ := hr.addr12
  obtain ⟨als0, rs0⟩ := hstk.f0
  obtain ⟨room1, als1, sr1, sw1⟩ := hstk.f1 (by omega)
  obtain ⟨room2, als2, sr2, sw2⟩ := hstk.f2 (by omega)
  obtain ⟨room3, als3, sr3, sw3⟩ := hstk.f3 (by omega)
  obtain ⟨room4, als4, sr4, sw4⟩ := hstk.f4 (by omega)
  obtain ⟨room5, als5, sr5, sw5⟩ := hstk.f5 (by omega)
  obtain ⟨room6, als6, sr6, sw6⟩ := hstk.f6 (by omega)
  replace hra := Hide.mk hra; replace hrs := Hide.mk hrs; replace has := Hide.mk has
  simp only [X86.Disjoint, OffStack] at hra hrs has
  clear ha hr hstk
  x86_sym [sub8x3_toNat, sub8x4_toNat, sub8x5_toNat, sub8x6_toNat, sub8x7_toNat, mulLo_fold, mulHi_fold, logic, BitVec.xor_self, ← ha0, ← ha1, ← ha2, ← ha3, ← ha4, ← ha5, ← hm28l, ← hm28h, ← ht29, ← ht30, ← hm31l, ← hm31h, ← ht32, ← ht33, ← ht34, ← hm35l, ← hm35h, ← ht36, ← ht37, ← hm39l, ← hm39h, ← ht40, ← hm41l, ← hm41h, ← ht42, ← ht43, ← hm44l, ← hm44h, ← ht45, ← ht46, ← hm47l, ← hm47h, ← ht48, ← ht49, ← ht50, ← hm51l, ← hm51h, ← ht52, ← ht54]

set_option maxHeartbeats 1600000 in
theorem sqrx768_part2 (s : State) (pr pa : Word)
    (hr : Buf s pr 12 true) (ha : Buf s pa 6 false) (hra : X86.Disjoint pr 12 pa 6)
    (hstk : Stack s 6) (hrs : OffStack s 6 pr 12) (has : OffStack s 6 pa 6) {a0 a1 a2 a3 m8l m44h m58h m58l m64h m64l m72h m72l m80h m80l : Word} {t11 t17 t27 t40 t43 t46 t49 t52 t54 t57 t60 t63 t65 t66 t68 t71 t73 t74 t76 t79 t81 t82 : ArithRes}
    (ha0 : a0 = s.mem (pa.toNat + 0)) (ha1 : a1 = s.mem (pa.toNat + 8)) (ha2 : a2 = s.mem (pa.toNat + 16))
    (ha3 : a3 = s.mem (pa.toNat + 24)) (ht57 : t57 = addc .q m8l m8l false) (hm58l : m58l = mulLo a0 a0)
    (hm58h : m58h = mulHi a0 a0) (ht60 : t60 = addc .q t57.val m58h false) (ht63 : t63 = addc .q t11.val t11.val t57.cf)
    (hm64l : m64l = mulLo a1 a1) (hm64h : m64h = mulHi a1 a1) (ht65 : t65 = addc .q t63.val m64l t60.cf)
    (ht66 : t66 = addc .q t17.val t17.val t63.cf) (ht68 : t68 = addc .q t66.val m64h t65.cf)
    (ht71 : t71 = addc .q t27.val t27.val t66.cf) (hm72l : m72l = mulLo a2 a2) (hm72h : m72h = mulHi a2 a2)
    (ht73 : t73 = addc .q t71.val m72l t68.cf) (ht74 : t74 = addc .q t40.val t40.val t71.cf)
    (ht76 : t76 = addc .q t74.val m72h t73.cf) (ht79 : t79 = addc .q t43.val t43.val t74.cf) (hm80l : m80l = mulLo a3 a3)
    (hm80h : m80h = mulHi a3 a3) (ht81 : t81 = addc .q t79.val m80l t76.cf) (ht82 : t82 = addc .q t46.val t46.val t79.cf) :
    run embedded_pairing_core_arch_x86_64_bmi2_adx_bigint_768_square ({ rax := t54.val, rcx := t46.val, rdx := (0#64), rbx := t52.val, rsp := s.rsp - 8 - 8 - 8 - 8 - 8 - 8, rbp := t49.val, rsi := pa, rdi := pr, r8 := m44h, r9 := (0#64), r10 := m8l, r11 := t11.val, r12 := t17.val, r13 := t27.val, r14 := t40.val, r15 := t43.val, cf := some false, zf := some ((0#64) == 0), sf := some (msb .q (0#64)), of := some false, mem := setMem (setMem (setMem (setMem (setMem (setMem (s.mem) (s.rsp.toNat - 8) s.rbp) (s.rsp.toNat - 8 - 8) s.rbx) (s.rsp.toNat - 8 - 8 - 8) s.r12) (s.rsp.toNat - 8 - 8 - 8 - 8) s.r13) (s.rsp.toNat - 8 - 8 - 8 - 8 - 8) s.r14) (s.rsp.toNat - 8 - 8 - 8 - 8 - 8 - 8) s.r15, readable := s.readable, writable := s.writable, cpuidFn := s.cpuidFn, pc := 56, status := .running } : State) 28
      = ({ rax := t54.val, rcx := t82.val, rdx := m80l, rbx := t52.val, rsp := s.rsp - 8 - 8 - 8 - 8 - 8 - 8, rbp := t49.val, rsi := pa, rdi := pr, r8 := m80h, r9 := (0#64), r10 := t60.val, r11 := t65.val, r12 := t68.val, r13 := t73.val, r14 := t76.val, r15 := t81.val, cf := some t82.cf, zf := some ((0#64) == 0), sf := some (msb .q (0#64)), of := some t81.cf, mem := setMem (setMem (setMem (setMem (setMem (setMem (setMem (setMem (setMem (setMem (setMem (setMem (setMem (s.mem) (s.rsp.toNat - 8) s.rbp) (s.rsp.toNat - 8 - 8) s.rbx) (s.rsp.toNat - 8 - 8 - 8) s.r12) (s.rsp.toNat - 8 - 8 - 8 - 8) s.r13) (s.rsp.toNat - 8 - 8 - 8 - 8 - 8) s.r14) (s.rsp.toNat - 8 - 8 - 8 - 8 - 8 - 8) s.r15) (pr.toNat + 0) m58l) (pr.toNat + 8) t60.val) (pr.toNat + 16) t65.val) (pr.toNat + 24) t68.val) (pr.toNat + 32) t73.val) (pr.toNat + 40) t76.val) (pr.toNat + 48) t81.val, readable := s.readable, writable := s.writable, cpuidFn := s.cpuidFn, pc := 84, status := .running } : State) := by
  obtain ⟨ra0, ra1, ra2, ra3, ra4, ra5⟩ := ha.r6
  obtain ⟨⟨alra0, alra1, alra2, alra3, alra4, alra5⟩, fra0, fra1, fra2, fra3, fra4, fra5⟩ := ha.addr6
  obtain ⟨rr0, rr1, rr2, rr3, rr4, rr5, rr6, rr7, rr8, rr9, rr10, rr11⟩ := hr.r12
  obtain ⟨wr0, wr1, wr2, wr3, wr4, wr5, wr6, wr7, wr8, wr9, wr10, wr11⟩ := hr.w12
  obtain ⟨⟨alrr0, alrr1, alrr2, alrr3, alrr4, alrr5, alrr6, alrr7, alrr8, alrr9, alrr10, alrr11⟩, frr0, frr1, frr2, frr3, frr4, frr5, frr6, frr7, frr8, frr9, frr10, frr11⟩ := hr.addr12
  obtain ⟨als0, rs0⟩ := hstk.f0
  obtain ⟨room1, als1, sr1, sw1⟩ := hstk.f1 (by omega)
  obtain ⟨room2, als2, sr2, sw2⟩ := hstk.f2 (by omega)
  obtain ⟨room3, als3, sr3, sw3⟩ := hstk.f3 (by omega)
  obtain ⟨room4, als4, sr4, sw4⟩ := hstk.f4 (by omega)
  obtain ⟨room5, als5, sr5, sw5⟩ := hstk.f5 (by omega)
  obtain ⟨room6, als6, sr6, sw6⟩ := hstk.f6 (by omega)
  replace hra := Hide.mk hra; replace hrs := Hide.mk hrs; replace has := Hide.mk has
  simp only [X86.Disjoint, OffStack] at hra hrs has
  clear ha hr hstk
  x86_sym [sub8x3_toNat, sub8x4_toNat, sub8x5_toNat, sub8x6_toNat, sub8x7_toNat, mulLo_fold, mulHi_fold, logic, BitVec.xor_self, ← ha0, ← ha1, ← ha2, ← ha3, ← ht57, ← hm58l, ← hm58h, ← ht60, ← ht63, ← hm64l, ← hm64h, ← ht65, ← ht66, ← ht68, ← ht71, ← hm72l, ← hm72h, ← ht73, ← ht74, ← ht76, ← ht79, ← hm80l, ← hm80h, ← ht81, ← ht82]

set_option maxHeartbeats 1600000 in
theorem sqrx768_part3 (s : State) (pr pa : Word)
    (hr : Buf s pr 12 true) (ha : Buf s pa 6 false) (hra : X86.Disjoint pr 12 pa 6)
    (hstk : Stack s 6) (hrs : OffStack s 6 pr 12) (has : OffStack s 6 pa 6) {a4 a5 m58l m80h m80l m88h m88l m96h m96l : Word} {t49 t52 t54 t60 t65 t68 t73 t76 t81 t82 t84 t87 t89 t90 t92 t95 t97 t98 t100 : ArithRes}
    (ha4 : a4 = s.mem (pa.toNat + 32)) (ha5 : a5 = s.mem (pa.toNat + 40)) (ht84 : t84 = addc .q t82.val m80h t81.cf)
    (ht87 : t87 = addc .q t49.val t49.val t82.cf) (hm88l : m88l = mulLo a4 a4) (hm88h : m88h = mulHi a4 a4)
    (ht89 : t89 = addc .q t87.val m88l t84.cf) (ht90 : t90 = addc .q t52.val t52.val t87.cf)
    (ht92 : t92 = addc .q t90.val m88h t89.cf) (ht95 : t95 = addc .q t54.val t54.val t90.cf) (hm96l : m96l = mulLo a5 a5)
    (hm96h : m96h = mulHi a5 a5) (ht97 : t97 = addc .q t95.val m96l t92.cf) (ht98 : t98 = addc .q (0#64) (0#64) t95.cf)
    (ht100 : t100 = addc .q t98.val m96h t97.cf) :
    run embedded_pairing_core_arch_x86_64_bmi2_adx_bigint_768_square ({ rax := t54.val, rcx := t82.val, rdx := m80l, rbx := t52.val, rsp := s.rsp - 8 - 8 - 8 - 8 - 8 - 8, rbp := t49.val, rsi := pa, rdi := pr, r8 := m80h, r9 := (0#64), r10 := t60.val, r11 := t65.val, r12 := t68.val, r13 := t73.val, r14 := t76.val, r15 := t81.val, cf := some t82.cf, zf := some ((0#64) == 0), sf := some (msb .q (0#64)), of := some t81.cf, mem := setMem (setMem (setMem (setMem (setMem (setMem (setMem (setMem (setMem (setMem (setMem (setMem (setMem (s.mem) (s.rsp.toNat - 8) s.rbp) (s.rsp.toNat - 8 - 8) s.rbx) (s.rsp.toNat - 8 - 8 - 8) s.r12) (s.rsp.toNat - 8 - 8 - 8 - 8) s.r13) (s.rsp.toNat - 8 - 8 - 8 - 8 - 8) s.r14) (s.rsp.toNat - 8 - 8 - 8 - 8 - 8 - 8) s.r15) (pr.toNat + 0) m58l) (pr.toNat + 8) t60.val) (pr.toNat + 16) t65.val) (pr.toNat + 24) t68.val) (pr.toNat + 32) t73.val) (pr.toNat + 40) t76.val) (pr.toNat + 48) t81.val, readable := s.readable, writable := s.writable, cpuidFn := s.cpuidFn, pc := 84, status := .running } : State) 25
      = ({ rax := t97.val, rcx := t84.val, rdx := m96l, rbx := s.rbx, rsp := s.rsp + 8, rbp := s.rbp, rsi := pa, rdi := pr, r8 := m96h, r9 := t100.val, r10 := t60.val, r11 := t65.val, r12 := s.r12, r13 := s.r13, r14 := s.r14, r15 := s.r15, cf := some t98.cf, zf := some ((0#64) == 0), sf := some (msb .q (0#64)), of := some t100.cf, mem := setMem (setMem (setMem (setMem (setMem (setMem (setMem (setMem (setMem (setMem (setMem (setMem (setMem (setMem (setMem (setMem (setMem (setMem (s.mem) (s.rsp.toNat - 8) s.rbp) (s.rsp.toNat - 8 - 8) s.rbx) (s.rsp.toNat - 8 - 8 - 8) s.r12) (s.rsp.toNat - 8 - 8 - 8 - 8) s.r13) (s.rsp.toNat - 8 - 8 - 8 - 8 - 8) s.r14) (s.rsp.toNat - 8 - 8 - 8 - 8 - 8 - 8) s.r15) (pr.toNat + 0) m58l) (pr.toNat + 8) t60.val) (pr.toNat + 16) t65.val) (pr.toNat + 24) t68.val) (pr.toNat + 32) t73.val) (pr.toNat + 40) t76.val) (pr.toNat + 48) t81.val) (pr.toNat + 56) t84.val) (pr.toNat + 64) t89.val) (pr.toNat + 72) t92.val) (pr.toNat + 80) t97.val) (pr.toNat + 88) t100.val, readable := s.readable, writable := s.writable, cpuidFn := s.cpuidFn, pc := (s.mem s.rsp.toNat).toNat, status := .halted } : State) := by
  obtain ⟨ra0, ra1, ra2, ra3, ra4, ra5⟩ := ha.r6
  obtain ⟨⟨alra0, alra1, alra2, alra3, alra4, alra5⟩, fra0, fra1, fra2, fra3, fra4, fra5⟩ := ha.addr6
  obtain ⟨rr0, rr1, rr2, rr3, rr4, rr5, rr6, rr7, rr8, rr9, rr10, rr11⟩ := hr.r12
  obtain ⟨wr0, wr1, wr2, wr3, wr4, wr5, wr6, wr7, wr8, wr9, wr10, wr11⟩ := hr.w12
  obtain ⟨⟨alrr0, alrr1, alrr2, alrr3, alrr4, alrr5, alrr6, alrr7, alrr8, alrr9, alrr10, alrr11⟩, frr0, frr1, frr2, frr3, frr4, frr5, frr6, frr7, frr8, frr9, frr10, frr11⟩ := hr.addr12
  obtain ⟨als0, rs0⟩ := hstk.f0
  obtain ⟨room1, als1, sr1, sw1⟩ := hstk.f1 (by omega)
  obtain ⟨room2, als2, sr2, sw2⟩ := hstk.f2 (by omega)
  obtain ⟨room3, als3, sr3, sw3⟩ := hstk.f3 (by omega)
  obtain ⟨room4, als4, sr4, sw4⟩ := hstk.f4 (by omega)
  obtain ⟨room5, als5, sr5, sw5⟩ := hstk.f5 (by omega)
  obtain ⟨room6, als6, sr6, sw6⟩ := hstk.f6 (by omega)
  replace hra := Hide.mk hra; replace hrs := Hide.mk hrs; replace has := Hide.mk has
  simp only [X86.Disjoint, OffStack] at hra hrs has
  clear ha hr hstk
  x86_sym [sub8x3_toNat, sub8x4_toNat, sub8x5_toNat, sub8x6_toNat, sub8x7_toNat, mulLo_fold, mulHi_fold, logic, BitVec.xor_self, ← ha4, ← ha5, ← ht84, ← ht87, ← hm88l, ← hm88h, ← ht89, ← ht90, ← ht92, ← ht95, ← hm96l, ← hm96h, ← ht97, ← ht98, ← ht100]


/-! ## the theorem -/

set_option maxHeartbeats 1600000 in
/-- `void bmi2_adx_bigint_768_square(res, a)`: the twelve limbs of `res` are `a²` -/
theorem bmi2_adx_bigint_768_square_run (s : State) (pr pa : Word)
    (hst : s.status = .running) (hpc : s.pc = 0) (hdi : s.rdi = pr) (hsi : s.rsi = pa)
    (hr : Buf s pr 12 true) (ha : Buf s pa 6 false) (hra : X86.Disjoint pr 12 pa 6)
    (hstk : Stack s 6) (hrs : OffStack s 6 pr 12) (has : OffStack s 6 pa 6) :
    ∃ s', run embedded_pairing_core_arch_x86_64_bmi2_adx_bigint_768_square s 109 = s' ∧ Returned s s' ∧
      val (2 ^ 64) (limbs s'.mem pr.toNat 12)
        = val (2 ^ 64) (limbs s.mem pa.toNat 6) * val (2 ^ 64) (limbs s.mem pa.toNat 6) ∧
      (∀ k, ¬(pr.toNat ≤ k ∧ k < pr.toNat + 96) → ¬(s.rsp.toNat - 48 ≤ k ∧ k < s.rsp.toNat) → s'.mem k = s.mem k) := by
  refine ⟨_, rfl, ?_⟩
  simp only [limbs_six, limbs_twelve]
  obtain ⟨a0, ha0⟩ : ∃ x, x = s.mem (pa.toNat + 0) := ⟨_, rfl⟩
  obtain ⟨a1, ha1⟩ : ∃ x, x = s.mem (pa.toNat + 8) := ⟨_, rfl⟩
  obtain ⟨a2, ha2⟩ : ∃ x, x = s.mem (pa.toNat + 16) := ⟨_, rfl⟩
  obtain ⟨a3, ha3⟩ : ∃ x, x = s.mem (pa.toNat + 24) := ⟨_, rfl⟩
  obtain ⟨a4, ha4⟩ : ∃ x, x = s.mem (pa.toNat + 32) := ⟨_, rfl⟩
  obtain ⟨a5, ha5⟩ : ∃ x, x = s.mem (pa.toNat + 40) := ⟨_, rfl⟩
  simp only [← ha0, ← ha1, ← ha2, ← ha3, ← ha4, ← ha5]
  obtain ⟨m8l, hm8l⟩ : ∃ x, x = mulLo a1 a0 := ⟨_, rfl⟩
  obtain ⟨m8h, hm8h⟩ : ∃ x, x = mulHi a1 a0 := ⟨_, rfl⟩
  obtain ⟨m10l, hm10l⟩ : ∃ x, x = mulLo a2 a0 := ⟨_, rfl⟩
  obtain ⟨m10h, hm10h⟩ : ∃ x, x = mulHi a2 a0 := ⟨_, rfl⟩
  obtain ⟨t11, ht11⟩ : ∃ x, x = addc .q m8h m10l false := ⟨_, rfl⟩
  obtain ⟨m12l, hm12l⟩ : ∃ x, x = mulLo a2 a1 := ⟨_, rfl⟩
  obtain ⟨m12h, hm12h⟩ : ∃ x, x = mulHi a2 a1 := ⟨_, rfl⟩
  obtain ⟨t13, ht13⟩ : ∃ x, x = addc .q m12l m10h t11.cf := ⟨_, rfl⟩
  obtain ⟨t14, ht14⟩ : ∃ x, x = addc .q m12h (0#64) t13.cf := ⟨_, rfl⟩
  obtain ⟨m16l, hm16l⟩ : ∃ x, x = mulLo a3 a0 := ⟨_, rfl⟩
  obtain ⟨m16h, hm16h⟩ : ∃ x, x = mulHi a3 a0 := ⟨_, rfl⟩
  obtain ⟨t17, ht17⟩ : ∃ x, x = addc .q t13.val m16l t14.cf := ⟨_, rfl⟩
  obtain ⟨m18l, hm18l⟩ : ∃ x, x = mulLo a3 a1 := ⟨_, rfl⟩
  obtain ⟨m18h, hm18h⟩ : ∃ x, x = mulHi a3 a1 := ⟨_, rfl⟩
  obtain ⟨t19, ht19⟩ : ∃ x, x = addc .q m18l m16h false := ⟨_, rfl⟩
  obtain ⟨t20, ht20⟩ : ∃ x, x = addc .q t14.val t19.val t17.cf := ⟨_, rfl⟩
  obtain ⟨t21, ht21⟩ : ∃ x, x = addc .q m18h (0#64) t19.cf := ⟨_, rfl⟩
  obtain ⟨m22l, hm22l⟩ : ∃ x, x = mulLo a3 a2 := ⟨_, rfl⟩
  obtain ⟨m22h, hm22h⟩ : ∃ x, x = mulHi a3 a2 := ⟨_, rfl⟩
  obtain ⟨t23, ht23⟩ : ∃ x, x = addc .q m22l t21.val t20.cf := ⟨_, rfl⟩
  obtain ⟨t24, ht24⟩ : ∃ x, x = addc .q m22h (0#64) t23.cf := ⟨_, rfl⟩
  obtain ⟨m26l, hm26l⟩ : ∃ x, x = mulLo a4 a0 := ⟨_, rfl⟩
  obtain ⟨m26h, hm26h⟩ : ∃ x, x = mulHi a4 a0 := ⟨_, rfl⟩
  obtain ⟨t27, ht27⟩ : ∃ x, x = addc .q t20.val m26l t24.cf := ⟨_, rfl⟩
  obtain ⟨m28l, hm28l⟩ : ∃ x, x = mulLo a4 a1 := ⟨_, rfl⟩
  obtain ⟨m28h, hm28h⟩ : ∃ x, x = mulHi a4 a1 := ⟨_, rfl⟩
  obtain ⟨t29, ht29⟩ : ∃ x, x = addc .q m28l m26h t21.cf := ⟨_, rfl⟩
  obtain ⟨t30, ht30⟩ : ∃ x, x = addc .q t23.val t29.val t27.cf := ⟨_, rfl⟩
  obtain ⟨m31l, hm31l⟩ : ∃ x, x = mulLo a4 a2 := ⟨_, rfl⟩
  obtain ⟨m31h, hm31h⟩ : ∃ x, x = mulHi a4 a2 := ⟨_, rfl⟩
  obtain ⟨t32, ht32⟩ : ∃ x, x = addc .q m31l m28h t29.cf := ⟨_, rfl⟩
  obtain ⟨t33, ht33⟩ : ∃ x, x = addc .q t24.val t32.val t30.cf := ⟨_, rfl⟩
  obtain ⟨t34, ht34⟩ : ∃ x, x = addc .q m31h (0#64) t32.cf := ⟨_, rfl⟩
  obtain ⟨m35l, hm35l⟩ : ∃ x, x = mulLo a4 a3 := ⟨_, rfl⟩
  obtain ⟨m35h, hm35h⟩ : ∃ x, x = mulHi a4 a3 := ⟨_, rfl⟩
  obtain ⟨t36, ht36⟩ : ∃ x, x = addc .q m35l t34.val t33.cf := ⟨_, rfl⟩
  obtain ⟨t37, ht37⟩ : ∃ x, x = addc .q m35h (0#64) t36.cf := ⟨_, rfl⟩
  obtain ⟨m39l, hm39l⟩ : ∃ x, x = mulLo a5 a0 := ⟨_, rfl⟩
  obtain ⟨m39h, hm39h⟩ : ∃ x, x = mulHi a5 a0 := ⟨_, rfl⟩
  obtain ⟨t40, ht40⟩ : ∃ x, x = addc .q t30.val m39l t37.cf := ⟨_, rfl⟩
  obtain ⟨m41l, hm41l⟩ : ∃ x, x = mulLo a5 a1 := ⟨_, rfl⟩
  obtain ⟨m41h, hm41h⟩ : ∃ x, x = mulHi a5 a1 := ⟨_, rfl⟩
  obtain ⟨t42, ht42⟩ : ∃ x, x = addc .q m41l m39h t34.cf := ⟨_, rfl⟩
  obtain ⟨t43, ht43⟩ : ∃ x, x = addc .q t33.val t42.val t40.cf := ⟨_, rfl⟩
  obtain ⟨m44l, hm44l⟩ : ∃ x, x = mulLo a5 a2 := ⟨_, rfl⟩
  obtain ⟨m44h, hm44h⟩ : ∃ x, x = mulHi a5 a2 := ⟨_, rfl⟩
  obtain ⟨t45, ht45⟩ : ∃ x, x = addc .q m44l m41h t42.cf := ⟨_, rfl⟩
  obtain ⟨t46, ht46⟩ : ∃ x, x = addc .q t36.val t45.val t43.cf := ⟨_, rfl⟩
  obtain ⟨m47l, hm47l⟩ : ∃ x, x = mulLo a5 a3 := ⟨_, rfl⟩
  obtain ⟨m47h, hm47h⟩ : ∃ x, x = mulHi a5 a3 := ⟨_, rfl⟩
  obtain ⟨t48, ht48⟩ : ∃ x, x = addc .q m47l m44h t45.cf := ⟨_, rfl⟩
  obtain ⟨t49, ht49⟩ : ∃ x, x = addc .q t37.val t48.val t46.cf := ⟨_, rfl⟩
  obtain ⟨t50, ht50⟩ : ∃ x, x = addc .q m47h (0#64) t48.cf := ⟨_, rfl⟩
  obtain ⟨m51l, hm51l⟩ : ∃ x, x = mulLo a5 a4 := ⟨_, rfl⟩
  obtain ⟨m51h, hm51h⟩ : ∃ x, x = mulHi a5 a4 := ⟨_, rfl⟩
  obtain ⟨t52, ht52⟩ : ∃ x, x = addc .q m51l t50.val t49.cf := ⟨_, rfl⟩
  obtain ⟨t54, ht54⟩ : ∃ x, x = addc .q m51h (0#64) t52.cf := ⟨_, rfl⟩
  obtain ⟨t57, ht57⟩ : ∃ x, x = addc .q m8l m8l false := ⟨_, rfl⟩
  obtain ⟨m58l, hm58l⟩ : ∃ x, x = mulLo a0 a0 := ⟨_, rfl⟩
  obtain ⟨m58h, hm58h⟩ : ∃ x, x = mulHi a0 a0 := ⟨_, rfl⟩
  obtain ⟨t60, ht60⟩ : ∃ x, x = addc .q t57.val m58h false := ⟨_, rfl⟩
  obtain ⟨t63, ht63⟩ : ∃ x, x = addc .q t11.val t11.val t57.cf := ⟨_, rfl⟩
  obtain ⟨m64l, hm64l⟩ : ∃ x, x = mulLo a1 a1 := ⟨_, rfl⟩
  obtain ⟨m64h, hm64h⟩ : ∃ x, x = mulHi a1 a1 := ⟨_, rfl⟩
  obtain ⟨t65, ht65⟩ : ∃ x, x = addc .q t63.val m64l t60.cf := ⟨_, rfl⟩
  obtain ⟨t66, ht66⟩ : ∃ x, x = addc .q t17.val t17.val t63.cf := ⟨_, rfl⟩
  obtain ⟨t68, ht68⟩ : ∃ x, x = addc .q t66.val m64h t65.cf := ⟨_, rfl⟩
  obtain ⟨t71, ht71⟩ : ∃ x, x = addc .q t27.val t27.val t66.cf := ⟨_, rfl⟩
  obtain ⟨m72l, hm72l⟩ : ∃ x, x = mulLo a2 a2 := ⟨_, rfl⟩
  obtain ⟨m72h, hm72h⟩ : ∃ x, x = mulHi a2 a2 := ⟨_, rfl⟩
  obtain ⟨t73, ht73⟩ : ∃ x, x = addc .q t71.val m72l t68.cf := ⟨_, rfl⟩
  obtain ⟨t74, ht74⟩ : ∃ x, x = addc .q t40.val t40.val t71.cf := ⟨_, rfl⟩
  obtain ⟨t76, ht76⟩ : ∃ x, x = addc .q t74.val m72h t73.cf := ⟨_, rfl⟩
  obtain ⟨t79, ht79⟩ : ∃ x, x = addc .q t43.val t43.val t74.cf := ⟨_, rfl⟩
  obtain ⟨m80l, hm80l⟩ : ∃ x, x = mulLo a3 a3 := ⟨_, rfl⟩
  obtain ⟨m80h, hm80h⟩ : ∃ x, x = mulHi a3 a3 := ⟨_, rfl⟩
  obtain ⟨t81, ht81⟩ : ∃ x, x = addc .q t79.val m80l t76.cf := ⟨_, rfl⟩
  obtain ⟨t82, ht82⟩ : ∃ x, x = addc .q t46.val t46.val t79.cf := ⟨_, rfl⟩
  obtain ⟨t84, ht84⟩ : ∃ x, x = addc .q t82.val m80h t81.cf := ⟨_, rfl⟩
  obtain ⟨t87, ht87⟩ : ∃ x, x = addc .q t49.val t49.val t82.cf := ⟨_, rfl⟩
  obtain ⟨m88l, hm88l⟩ : ∃ x, x = mulLo a4 a4 := ⟨_, rfl⟩
  obtain ⟨m88h, hm88h⟩ : ∃ x, x = mulHi a4 a4 := ⟨_, rfl⟩
  obtain ⟨t89, ht89⟩ : ∃ x, x = addc .q t87.val m88l t84.cf := ⟨_, rfl⟩
  obtain ⟨t90, ht90⟩ : ∃ x, x = addc .q t52.val t52.val t87.cf := ⟨_, rfl⟩
  obtain ⟨t92, ht92⟩ : ∃ x, x = addc .q t90.val m88h t89.cf := ⟨_, rfl⟩
  obtain ⟨t95, ht95⟩ : ∃ x, x = addc .q t54.val t54.val t90.cf := ⟨_, rfl⟩
  obtain ⟨m96l, hm96l⟩ : ∃ x, x = mulLo a5 a5 := ⟨_, rfl⟩
  obtain ⟨m96h, hm96h⟩ : ∃ x, x = mulHi a5 a5 := ⟨_, rfl⟩
  obtain ⟨t97, ht97⟩ : ∃ x, x = addc .q t95.val m96l t92.cf := ⟨_, rfl⟩
  obtain ⟨t98, ht98⟩ : ∃ x, x = addc .q (0#64) (0#64) t95.cf := ⟨_, rfl⟩
  obtain ⟨t100, ht100⟩ : ∃ x, x = addc .q t98.val m96h t97.cf := ⟨_, rfl⟩
  have hq0 := sqrx768_part0 s pr pa hr ha hra hstk hrs has hst hpc hdi hsi (t11 := t11) (t13 := t13) (t14 := t14) (t17 := t17) (t19 := t19) (t20 := t20) (t21 := t21) (t23 := t23) (t24 := t24) (t27 := t27) (a0 := a0) (a1 := a1) (a2 := a2) (a3 := a3) (a4 := a4) (m8h := m8h) (m8l := m8l) (m10h := m10h) (m10l := m10l) (m12h := m12h) (m12l := m12l) (m16h := m16h) (m16l := m16l) (m18h := m18h) (m18l := m18l) (m22h := m22h) (m22l := m22l) (m26h := m26h) (m26l := m26l) ha0 ha1 ha2 ha3 ha4 hm8l hm8h hm10l hm10h ht11 hm12l hm12h ht13 ht14 hm16l hm16h ht17 hm18l hm18h ht19 ht20 ht21 hm22l hm22h ht23 ht24 hm26l hm26h ht27
  have hq1 := sqrx768_part1 s pr pa hr ha hra hstk hrs has (t11 := t11) (t17 := t17) (t21 := t21) (t23 := t23) (t24 := t24) (t27 := t27) (t29 := t29) (t30 := t30) (t32 := t32) (t33 := t33) (t34 := t34) (t36 := t36) (t37 := t37) (t40 := t40) (t42 := t42) (t43 := t43) (t45 := t45) (t46 := t46) (t48 := t48) (t49 := t49) (t50 := t50) (t52 := t52) (t54 := t54) (a0 := a0) (a1 := a1) (a2 := a2) (a3 := a3) (a4 := a4) (a5 := a5) (m8l := m8l) (m26h := m26h) (m26l := m26l) (m28h := m28h) (m28l := m28l) (m31h := m31h) (m31l := m31l) (m35h := m35h) (m35l := m35l) (m39h := m39h) (m39l := m39l) (m41h := m41h) (m41l := m41l) (m44h := m44h) (m44l := m44l) (m47h := m47h) (m47l := m47l) (m51h := m51h) (m51l := m51l) ha0 ha1 ha2 ha3 ha4 ha5 hm28l hm28h ht29 ht30 hm31l hm31h ht32 ht33 ht34 hm35l hm35h ht36 ht37 hm39l hm39h ht40 hm41l hm41h ht42 ht43 hm44l hm44h ht45 ht46 hm47l hm47h ht48 ht49 ht50 hm51l hm51h ht52 ht54
  have hq2 := sqrx768_part2 s pr pa hr ha hra hstk hrs has (t11 := t11) (t17 := t17) (t27 := t27) (t40 := t40) (t43 := t43) (t46 := t46) (t49 := t49) (t52 := t52) (t54 := t54) (t57 := t57) (t60 := t60) (t63 := t63) (t65 := t65) (t66 := t66) (t68 := t68) (t71 := t71) (t73 := t73) (t74 := t74) (t76 := t76) (t79 := t79) (t81 := t81) (t82 := t82) (a0 := a0) (a1 := a1) (a2 := a2) (a3 := a3) (m8l := m8l) (m44h := m44h) (m58h := m58h) (m58l := m58l) (m64h := m64h) (m64l := m64l) (m72h := m72h) (m72l := m72l) (m80h := m80h) (m80l := m80l) ha0 ha1 ha2 ha3 ht57 hm58l hm58h ht60 ht63 hm64l hm64h ht65 ht66 ht68 ht71 hm72l hm72h ht73 ht74 ht76 ht79 hm80l hm80h ht81 ht82
  have hq3 := sqrx768_part3 s pr pa hr ha hra hstk hrs has (t49 := t49) (t52 := t52) (t54 := t54) (t60 := t60) (t65 := t65) (t68 := t68) (t73 := t73) (t76 := t76) (t81 := t81) (t82 := t82) (t84 := t84) (t87 := t87) (t89 := t89) (t90 := t90) (t92 := t92) (t95 := t95) (t97 := t97) (t98 := t98) (t100 := t100) (a4 := a4) (a5 := a5) (m58l := m58l) (m80h := m80h) (m80l := m80l) (m88h := m88h) (m88l := m88l) (m96h := m96h) (m96l := m96l) ha4 ha5 ht84 ht87 hm88l hm88h ht89 ht90 ht92 ht95 hm96l hm96h ht97 ht98 ht100
  have hall : run embedded_pairing_core_arch_x86_64_bmi2_adx_bigint_768_square s 109 = _ := show run embedded_pairing_core_arch_x86_64_bmi2_adx_bigint_768_square s (28 + (28 + (28 + (25)))) = _ from run_chain hq0 (run_chain hq1 (run_chain hq2 (hq3)))
  rw [hall]
  obtain ⟨room1, -⟩ := hstk.f1 (by omega)
  obtain ⟨room6, -⟩ := hstk.f6 (by omega)
  replace hrs := Hide.mk hrs
  simp only [OffStack] at hrs
  clear hq0 hq1 hq2 hq3 hall
  refine ⟨⟨rfl, ?_, ?_, ?_, ?_, ?_, ?_, ?_, ?_⟩, ?_, ?_⟩
  · rfl
  · rfl
  · rfl
  · rfl
  · rfl
  · rfl
  · rfl
  · rfl
  · x86_mem
    have em8 := mul_spec a1 a0; rw [← hm8l, ← hm8h] at em8
    have em10 := mul_spec a2 a0; rw [← hm10l, ← hm10h] at em10
    have e11 := addc_spec m8h m10l false; rw [← ht11] at e11
    have em12 := mul_spec a2 a1; rw [← hm12l, ← hm12h] at em12
    have e13 := addc_spec m12l m10h t11.cf; rw [← ht13] at e13
    have e14 := addc_spec m12h (0#64) t13.cf; rw [← ht14] at e14
    have em16 := mul_spec a3 a0; rw [← hm16l, ← hm16h] at em16
    have e17 := addc_spec t13.val m16l t14.cf; rw [← ht17] at e17
    have em18 := mul_spec a3 a1; rw [← hm18l, ← hm18h] at em18
    have e19 := addc_spec m18l m16h false; rw [← ht19] at e19
    have e20 := addc_spec t14.val t19.val t17.cf; rw [← ht20] at e20
    have e21 := addc_spec m18h (0#64) t19.cf; rw [← ht21] at e21
    have em22 := mul_spec a3 a2; rw [← hm22l, ← hm22h] at em22
    have e23 := addc_spec m22l t21.val t20.cf; rw [← ht23] at e23
    have e24 := addc_spec m22h (0#64) t23.cf; rw [← ht24] at e24
    have em26 := mul_spec a4 a0; rw [← hm26l, ← hm26h] at em26
    have e27 := addc_spec t20.val m26l t24.cf; rw [← ht27] at e27
    have em28 := mul_spec a4 a1; rw [← hm28l, ← hm28h] at em28
    have e29 := addc_spec m28l m26h t21.cf; rw [← ht29] at e29
    have e30 := addc_spec t23.val t29.val t27.cf; rw [← ht30] at e30
    have em31 := mul_spec a4 a2; rw [← hm31l, ← hm31h] at em31
    have e32 := addc_spec m31l m28h t29.cf; rw [← ht32] at e32
    have e33 := addc_spec t24.val t32.val t30.cf; rw [← ht33] at e33
    have e34 := addc_spec m31h (0#64) t32.cf; rw [← ht34] at e34
    have em35 := mul_spec a4 a3; rw [← hm35l, ← hm35h] at em35
    have e36 := addc_spec m35l t34.val t33.cf; rw [← ht36] at e36
    have e37 := addc_spec m35h (0#64) t36.cf; rw [← ht37] at e37
    have em39 := mul_spec a5 a0; rw [← hm39l, ← hm39h] at em39
    have e40 := addc_spec t30.val m39l t37.cf; rw [← ht40] at e40
    have em41 := mul_spec a5 a1; rw [← hm41l, ← hm41h] at em41
    have e42 := addc_spec m41l m39h t34.cf; rw [← ht42] at e42
    have e43 := addc_spec t33.val t42.val t40.cf; rw [← ht43] at e43
    have em44 := mul_spec a5 a2; rw [← hm44l, ← hm44h] at em44
    have e45 := addc_spec m44l m41h t42.cf; rw [← ht45] at e45
    have e46 := addc_spec t36.val t45.val t43.cf; rw [← ht46] at e46
    have em47 := mul_spec a5 a3; rw [← hm47l, ← hm47h] at em47
    have e48 := addc_spec m47l m44h t45.cf; rw [← ht48] at e48
    have e49 := addc_spec t37.val t48.val t46.cf; rw [← ht49] at e49
    have e50 := addc_spec m47h (0#64) t48.cf; rw [← ht50] at e50
    have em51 := mul_spec a5 a4; rw [← hm51l, ← hm51h] at em51
    have e52 := addc_spec m51l t50.val t49.cf; rw [← ht52] at e52
    have e54 := addc_spec m51h (0#64) t52.cf; rw [← ht54] at e54
    have e57 := addc_spec m8l m8l false; rw [← ht57] at e57
    have em58 := mul_spec a0 a0; rw [← hm58l, ← hm58h] at em58
    have e60 := addc_spec t57.val m58h false; rw [← ht60] at e60
    have e63 := addc_spec t11.val t11.val t57.cf; rw [← ht63] at e63
    have em64 := mul_spec a1 a1; rw [← hm64l, ← hm64h] at em64
    have e65 := addc_spec t63.val m64l t60.cf; rw [← ht65] at e65
    have e66 := addc_spec t17.val t17.val t63.cf; rw [← ht66] at e66
    have e68 := addc_spec t66.val m64h t65.cf; rw [← ht68] at e68
    have e71 := addc_spec t27.val t27.val t66.cf; rw [← ht71] at e71
    have em72 := mul_spec a2 a2; rw [← hm72l, ← hm72h] at em72
    have e73 := addc_spec t71.val m72l t68.cf; rw [← ht73] at e73
    have e74 := addc_spec t40.val t40.val t71.cf; rw [← ht74] at e74
    have e76 := addc_spec t74.val m72h t73.cf; rw [← ht76] at e76
    have e79 := addc_spec t43.val t43.val t74.cf; rw [← ht79] at e79
    have em80 := mul_spec a3 a3; rw [← hm80l, ← hm80h] at em80
    have e81 := addc_spec t79.val m80l t76.cf; rw [← ht81] at e81
    have e82 := addc_spec t46.val t46.val t79.cf; rw [← ht82] at e82
    have e84 := addc_spec t82.val m80h t81.cf; rw [← ht84] at e84
    have e87 := addc_spec t49.val t49.val t82.cf; rw [← ht87] at e87
    have em88 := mul_spec a4 a4; rw [← hm88l, ← hm88h] at em88
    have e89 := addc_spec t87.val m88l t84.cf; rw [← ht89] at e89
    have e90 := addc_spec t52.val t52.val t87.cf; rw [← ht90] at e90
    have e92 := addc_spec t90.val m88h t89.cf; rw [← ht92] at e92
    have e95 := addc_spec t54.val t54.val t90.cf; rw [← ht95] at e95
    have em96 := mul_spec a5 a5; rw [← hm96l, ← hm96h] at em96
    have e97 := addc_spec t95.val m96l t92.cf; rw [← ht97] at e97
    have e98 := carry_word ht98
    have e100 := addc_spec t98.val m96h t97.cf; rw [← ht100] at e100
    have n14 := mulHi_adc_nocarry hm12h ht14
    have n21 := mulHi_adc_nocarry hm18h ht21
    have n24 := mulHi_adc_nocarry hm22h ht24
    have n34 := mulHi_adc_nocarry hm31h ht34
    have n37 := mulHi_adc_nocarry hm35h ht37
    have n50 := mulHi_adc_nocarry hm47h ht50
    have n54 := mulHi_adc_nocarry hm51h ht54
    simp only [n14, n21, n24, n34, n37, n50, n54, Bool.toNat_false, Nat.add_zero, BitVec.toNat_ofNat, Nat.zero_mod] at e11 e13 e14 e17 e19 e20 e21 e23 e24 e27 e29 e30 e32 e33 e34 e36 e37 e40 e42 e43 e45 e46 e48 e49 e50 e52 e54 e57 e60 e63 e65 e66 e68 e71 e73 e74 e76 e79 e81 e82 e84 e87 e89 e90 e92 e95 e97 e98 e100
    have E : val (2 ^ 64) [m58l.toNat, t60.val.toNat, t65.val.toNat, t68.val.toNat, t73.val.toNat, t76.val.toNat, t81.val.toNat, t84.val.toNat, t89.val.toNat, t92.val.toNat, t97.val.toNat, t100.val.toNat] + 2 ^ 768 * t100.cf.toNat
        = val (2 ^ 64) [a0.toNat, a1.toNat, a2.toNat, a3.toNat, a4.toNat, a5.toNat] * val (2 ^ 64) [a0.toNat, a1.toNat, a2.toNat, a3.toNat, a4.toNat, a5.toNat] := by
      simp only [val_cons, val_nil]
      linear_combination 2 * 2 ^ 64 * em8 + 2 * 2 ^ 128 * em10 + 2 * 2 ^ 128 * e11 + 2 * 2 ^ 192 * em12 + 2 * 2 ^ 192 * e13 + 2 * 2 ^ 256 * e14 + 2 * 2 ^ 192 * em16 + 2 * 2 ^ 192 * e17 + 2 * 2 ^ 256 * em18 + 2 * 2 ^ 256 * e19 + 2 * 2 ^ 256 * e20 + 2 * 2 ^ 320 * e21 + 2 * 2 ^ 320 * em22 + 2 * 2 ^ 320 * e23 + 2 * 2 ^ 384 * e24 + 2 * 2 ^ 256 * em26 + 2 * 2 ^ 256 * e27 + 2 * 2 ^ 320 * em28 + 2 * 2 ^ 320 * e29 + 2 * 2 ^ 320 * e30 + 2 * 2 ^ 384 * em31 + 2 * 2 ^ 384 * e32 + 2 * 2 ^ 384 * e33 + 2 * 2 ^ 448 * e34 + 2 * 2 ^ 448 * em35 + 2 * 2 ^ 448 * e36 + 2 * 2 ^ 512 * e37 + 2 * 2 ^ 320 * em39 + 2 * 2 ^ 320 * e40 + 2 * 2 ^ 384 * em41 + 2 * 2 ^ 384 * e42 + 2 * 2 ^ 384 * e43 + 2 * 2 ^ 448 * em44 + 2 * 2 ^ 448 * e45 + 2 * 2 ^ 448 * e46 + 2 * 2 ^ 512 * em47 + 2 * 2 ^ 512 * e48 + 2 * 2 ^ 512 * e49 + 2 * 2 ^ 576 * e50 + 2 * 2 ^ 576 * em51 + 2 * 2 ^ 576 * e52 + 2 * 2 ^ 640 * e54 + 2 ^ 64 * e57 + em58 + 2 ^ 64 * e60 + 2 ^ 128 * e63 + 2 ^ 128 * em64 + 2 ^ 128 * e65 + 2 ^ 192 * e66 + 2 ^ 192 * e68 + 2 ^ 256 * e71 + 2 ^ 256 * em72 + 2 ^ 256 * e73 + 2 ^ 320 * e74 + 2 ^ 320 * e76 + 2 ^ 384 * e79 + 2 ^ 384 * em80 + 2 ^ 384 * e81 + 2 ^ 448 * e82 + 2 ^ 448 * e84 + 2 ^ 512 * e87 + 2 ^ 512 * em88 + 2 ^ 512 * e89 + 2 ^ 576 * e90 + 2 ^ 576 * e92 + 2 ^ 640 * e95 + 2 ^ 640 * em96 + 2 ^ 640 * e97 + 2 ^ 704 * e98 + 2 ^ 704 * e100
    exact (sqr_no_carry E (val6_lt a0 a1 a2 a3 a4 a5)).2
  · intro k hk1 hk2
    simp (disch := (clear * - hk1 hk2 room1 room6; omega)) only [setMem_ne]

end Jedi.X86
