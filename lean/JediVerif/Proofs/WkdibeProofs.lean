/-
Proof layer for the WKD-IBE models (`Impl/WkdibeImpl.lean`) against the specification
(`Spec/Wkdibe.lean`): helper lemmas used by the property files C11–C14.

Everything is over *lawful* operation records: `Lawful o` says that the record `o : GroupOps G`
is the additive-commutative-group structure of `G` (Mathlib `AddCommGroup`), with `smul` = nsmul.
"mod r" facts need the explicit hypothesis `∀ x, r • x = 0` (`ExpR`), bilinearity of the
pairing is the explicit hypothesis `Bilinear e`.  No axioms.
-/
import Mathlib.Algebra.BigOperators.Group.List.Basic
import Mathlib.Algebra.Group.Hom.Defs
import Mathlib.Algebra.Group.TypeTags.Basic
import Mathlib.Algebra.Module.NatInt
import Mathlib.Data.ZMod.Basic
import Mathlib.Tactic.Abel
import JediVerif.Impl.WkdibeImpl

namespace Jedi.Wk
set_option linter.unusedSectionVars false

/-! ## Lawful operation records -/

/-- The record `o` is the `AddCommGroup` structure of `G`. -/
structure Lawful {G : Type} [AddCommGroup G] (o : GroupOps G) : Prop where
  add : ∀ x y, o.add x y = x + y
  neg : ∀ x, o.neg x = -x
  zero : o.zero = 0
  smul : ∀ (n : Nat) x, o.smul n x = n • x

/-- the canonical lawful record of an additive commutative group. -/
def stdOps (G : Type) [AddCommGroup G] : GroupOps G :=
  { add := (· + ·), neg := (- ·), zero := 0, smul := fun n x => n • x }

theorem stdOps_lawful (G : Type) [AddCommGroup G] : Lawful (stdOps G) :=
  ⟨fun _ _ => rfl, fun _ => rfl, rfl, fun _ _ => rfl⟩

/-- the group has exponent `r` (the BLS12-381 group order). -/
def ExpR (G : Type) [AddCommGroup G] : Prop := ∀ x : G, r • x = 0

section expr
variable {G : Type} [AddCommGroup G]

theorem r_pos : 0 < r := by unfold r; omega

theorem mod_smul (hr : ExpR G) (n : Nat) (x : G) : (n % r) • x = n • x := by
  conv_rhs => rw [← Nat.div_add_mod n r]
  rw [add_nsmul, mul_nsmul, hr, nsmul_zero, zero_add]

theorem smul_eq_of_mod_eq (hr : ExpR G) {a b : Nat} (h : a % r = b % r) (x : G) : a • x = b • x := by
  rw [← mod_smul hr a, ← mod_smul hr b, h]

theorem smul_eq_zero_of_mod (hr : ExpR G) {a : Nat} (h : a % r = 0) (x : G) : a • x = 0 := by
  rw [← mod_smul hr a, h, zero_nsmul]

theorem diffId_smul (hr : ExpR G) (t f : Nat) (x : G) : diffId t f • x = t • x - f • x := by
  unfold diffId redId
  rw [mod_smul hr]
  have hf : f % r < r := Nat.mod_lt _ r_pos
  have h : (t % r + r - f % r) + f % r = t % r + r := by omega
  have h2 := congrArg (fun n : Nat => n • x) h
  simp only [add_nsmul, mod_smul hr, hr x, add_zero] at h2
  rw [← h2]; abel

theorem diffId_zero_smul (hr : ExpR G) (f : Nat) (x : G) : diffId 0 f • x = - (f • x) := by
  rw [diffId_smul hr, zero_nsmul, zero_sub]

end expr

/-! ## List sums -/
section sums
variable {G : Type} [AddCommGroup G]

theorem foldl_add_eq_sum {α : Type} (t : α → G) (L : List α) (a : G) :
    L.foldl (fun acc k => acc + t k) a = a + (L.map t).sum := by
  induction L generalizing a with
  | nil => simp
  | cons k L ih => simp [ih, add_assoc]

theorem foldl_eq_sum_of {α : Type} (f : G → α → G) (t : α → G) (hf : ∀ acc k, f acc k = acc + t k)
    (L : List α) (a : G) : L.foldl f a = a + (L.map t).sum := by
  have : f = fun acc k => acc + t k := by funext acc k; exact hf acc k
  rw [this, foldl_add_eq_sum]

end sums


/-! ## Cursors into a sorted attribute list -/

/-- strictly ascending indices. -/
def Asc (attrs : List Attr) : Prop := attrs.Pairwise (fun a b => a.idx < b.idx)

theorem asc_of_chain : ∀ (attrs : List Attr),
    (attrs.zip (attrs.drop 1)).all (fun p => p.1.idx < p.2.idx) = true → Asc attrs
  | [], _ => List.Pairwise.nil
  | [_], _ => List.pairwise_singleton _ _
  | a :: b :: rest, h => by
    simp only [List.drop_succ_cons, List.drop_zero, List.zip_cons_cons, List.all_cons,
      Bool.and_eq_true, decide_eq_true_eq] at h
    have ih : Asc (b :: rest) := asc_of_chain (b :: rest) (by simpa using h.2)
    refine List.pairwise_cons.2 ⟨?_, ih⟩
    intro c hc
    rcases List.mem_cons.1 hc with rfl | hc
    · exact h.1
    · exact Nat.lt_trans h.1 ((List.pairwise_cons.1 ih).1 c hc)

theorem wellFormed_asc {al : AttrList} {l : Nat} (h : al.wellFormed l = true) : Asc al.attrs := by
  unfold AttrList.wellFormed at h
  rw [Bool.and_eq_true] at h
  exact asc_of_chain _ h.2

theorem wellFormed_lt {al : AttrList} {l : Nat} (h : al.wellFormed l = true) :
    ∀ a ∈ al.attrs, a.idx < l := by
  unfold AttrList.wellFormed at h
  rw [Bool.and_eq_true] at h
  simpa using h.1

/-- `attrs` is the cursor at slot `i` of a sorted list whose lookup function is `look`:
the not-yet-consumed attributes are exactly those with index ≥ i. -/
structure Cur (look : Nat → Option Attr) (i : Nat) (attrs : List Attr) : Prop where
  look_eq : ∀ k, i ≤ k → look k = attrs.find? (·.idx == k)
  ge : ∀ a ∈ attrs, i ≤ a.idx
  asc : Asc attrs

theorem Cur.init {al : AttrList} {l : Nat} (h : al.wellFormed l = true) :
    Cur al.find? 0 al.attrs :=
  ⟨fun _ _ => rfl, fun _ _ => Nat.zero_le _, wellFormed_asc h⟩

theorem find?_none_of_gt {attrs : List Attr} {i : Nat} (h : ∀ a ∈ attrs, i < a.idx) :
    attrs.find? (·.idx == i) = none := by
  rw [List.find?_eq_none]
  intro a ha
  have := h a ha
  simp; omega

/-- one step of a cursor: either the head is the attribute of slot `i` (consumed), or slot `i`
has no attribute and the cursor stays. -/
theorem Cur.step {look : Nat → Option Attr} {i : Nat} {attrs : List Attr} (h : Cur look i attrs) :
    (∃ a rest, attrs = a :: rest ∧ a.idx = i ∧ look i = some a ∧ Cur look (i + 1) rest) ∨
    (look i = none ∧ Cur look (i + 1) attrs ∧ ∀ a rest, attrs = a :: rest → a.idx ≠ i) := by
  cases attrs with
  | nil =>
    right
    refine ⟨by rw [h.look_eq i (Nat.le_refl _)]; rfl, ⟨fun k hk => h.look_eq k (by omega), by simp, h.asc⟩, by simp⟩
  | cons a rest =>
    have hasc := List.pairwise_cons.1 h.asc
    by_cases hai : a.idx = i
    · left
      refine ⟨a, rest, rfl, hai, ?_, ?_, ?_, hasc.2⟩
      · rw [h.look_eq i (Nat.le_refl _)]; simp [hai]
      · intro k hk
        rw [h.look_eq k (by omega), List.find?_cons_of_neg]
        simp; omega
      · intro b hb
        have := hasc.1 b hb
        omega
    · right
      have hgt : i < a.idx := by
        have := h.ge a (List.mem_cons_self ..)
        omega
      refine ⟨?_, ⟨fun k hk => h.look_eq k (by omega), ?_, h.asc⟩, ?_⟩
      · rw [h.look_eq i (Nat.le_refl _)]
        apply find?_none_of_gt
        intro b hb
        rcases List.mem_cons.1 hb with rfl | hb
        · exact hgt
        · exact Nat.lt_trans hgt (hasc.1 b hb)
      · intro b hb
        rcases List.mem_cons.1 hb with rfl | hb
        · omega
        · have := hasc.1 b hb
          omega
      · intro a' rest' heq
        cases heq
        exact hai

/-- `pp.h.drop i = hi :: hs`: element and next suffix. -/
theorem drop_cons_getD {α : Type} {H : List α} {i : Nat} {hi : α} {hs : List α} (d : α)
    (h : H.drop i = hi :: hs) : H.getD i d = hi ∧ H.drop (i + 1) = hs := by
  constructor
  · rw [List.getD_eq_getElem?_getD, ← List.head?_drop, h]; rfl
  · rw [← List.drop_drop, h]; rfl

/-! ## `keygen` / `nondelegable_keygen` -/
section keygen
variable {G1 G2 GT : Type} [AddCommGroup G1] [AddCommGroup G2]
variable {o1 : GroupOps G1} {o2 : GroupOps G2}

/-- contribution of slot `k` to the product in `keygen` (and `qualifykey`). -/
def kgTerm (look : Nat → Option Attr) (H : List G1) (k : Nat) : G1 :=
  match look k with
  | some a => if a.hide then 0 else a.id • H.getD k 0
  | none => 0

/-- the `b` entry of slot `k` in `keygen`. -/
def kgB (look : Nat → Option Attr) (om : Bool) (rr : Nat) (H : List G1) (k : Nat) :
    Option (Nat × G1) :=
  match look k with
  | some _ => none
  | none => if om then none else some (k, rr • H.getD k 0)

theorem keygenLoop_spec (L1 : Lawful o1) (look : Nat → Option Attr) (rr : Nat) (om : Bool)
    (H : List G1) :
    ∀ (hs : List G1) (i : Nat) (attrs : List Attr) (a0 : G1) (b : List (Nat × G1)),
      H.drop i = hs → Cur look i attrs →
      keygenLoop o1 rr om i hs attrs a0 b =
        (a0 + ((List.range' i hs.length).map (kgTerm look H)).sum,
         b.reverse ++ (List.range' i hs.length).filterMap (kgB look om rr H)) := by
  intro hs
  induction hs with
  | nil => intros; simp [keygenLoop]
  | cons hi hs ih =>
    intro i attrs a0 b hd hc
    obtain ⟨hgi, hd'⟩ := drop_cons_getD (0 : G1) hd
    subst hgi
    rcases hc.step with ⟨a, rest, rfl, hai, hl, hc'⟩ | ⟨hl, hc', hne⟩
    · rw [keygenLoop]
      simp only [hai, beq_self_eq_true, if_true]
      rw [ih _ _ _ _ hd' hc']
      cases hh : a.hide <;>
        simp [List.range'_succ, kgTerm, kgB, hl, hh, L1.add, L1.smul, add_assoc]
    · cases attrs with
      | nil =>
        rw [keygenLoop]
        cases om <;> simp [ih _ _ _ _ hd' hc', List.range'_succ, kgTerm, kgB, hl, L1.smul]
      | cons a rest =>
        have := hne a rest rfl
        rw [keygenLoop]
        cases om <;>
          simp [this, ih _ _ _ _ hd' hc', List.range'_succ, kgTerm, kgB, hl, L1.smul]

end keygen

/-! ## The canonical key in sum form -/
section canon
variable {G1 G2 GT : Type} [AddCommGroup G1] [AddCommGroup G2]
variable {o1 : GroupOps G1} {o2 : GroupOps G2}

/-- per-slot term of `patternProduct`. -/
def patTerm (π : List Slot) (H : List G1) (k : Nat) : G1 :=
  match π.getD k .free with
  | .fixed v => v • H.getD k 0
  | _ => 0

/-- per-slot `b` entry of `canon`. -/
def canonB (π : List Slot) (ρ : Nat) (H : List G1) (k : Nat) : Option (Nat × G1) :=
  match π.getD k .free with
  | .free => some (k, ρ • H.getD k 0)
  | _ => none

theorem patternProduct_eq (L1 : Lawful o1) (pp : Params G1 G2 GT) (π : List Slot) :
    patternProduct o1 pp π = pp.g3 + ((List.range π.length).map (patTerm π pp.h)).sum := by
  unfold patternProduct
  apply foldl_eq_sum_of
  intro acc i
  unfold patTerm
  rcases π.getD i .free with _ | v | _ <;> simp [L1.add, L1.smul, L1.zero]

theorem canon_eq (L1 : Lawful o1) (L2 : Lawful o2) (pp : Params G1 G2 GT) (g2alpha : G1)
    (π : List Slot) (ρ : Nat) :
    canon o1 o2 pp g2alpha π ρ =
      { a0 := g2alpha + ρ • (pp.g3 + ((List.range π.length).map (patTerm π pp.h)).sum),
        a1 := ρ • pp.g,
        signatures := pp.signatures,
        bsig := if pp.signatures then ρ • pp.hsig else 0,
        b := (List.range π.length).filterMap (canonB π ρ pp.h) } := by
  unfold canon
  rw [patternProduct_eq L1]
  simp only [L1.add, L1.smul, L1.zero, L2.smul]
  congr 1

/-- slot update of `updatePattern`. -/
def updSlot (s : Slot) (oa : Option Attr) (om : Bool) : Slot :=
  match s, oa with
  | .fixed v, _ => .fixed v
  | .hidden, _ => .hidden
  | .free, some a => if a.hide then .hidden else .fixed a.id
  | .free, none => if om then .hidden else .free

@[simp] theorem updatePattern_length (π : List Slot) (al : AttrList) :
    (updatePattern π al).length = π.length := by
  simp [updatePattern]

theorem updatePattern_getD (π : List Slot) (al : AttrList) {k : Nat} (hk : k < π.length) :
    (updatePattern π al).getD k .free = updSlot (π.getD k .free) (al.find? k) al.omitAll := by
  unfold updatePattern
  rw [List.getD_eq_getElem?_getD, List.getElem?_map, List.getElem?_range hk]
  simp only [Option.map_some, Option.getD_some]
  unfold updSlot
  rfl

theorem replicate_getD_free (l k : Nat) : (List.replicate l Slot.free).getD k .free = .free := by
  rw [List.getD_eq_getElem?_getD, List.getElem?_replicate]
  split <;> rfl

end canon

/-! ## `keygen_canon` -/
section keygen_canon
variable {G1 G2 GT : Type} [AddCommGroup G1] [AddCommGroup G2]
variable {o1 : GroupOps G1} {o2 : GroupOps G2}

theorem keygen_canon (L1 : Lawful o1) (L2 : Lawful o2) (pp : Params G1 G2 GT) (g2alpha : G1)
    (al : AttrList) (ρ l : Nat) (hl : pp.h.length = l)
    (hadm : admissible (List.replicate l .free) al = true) :
    keygen o1 o2 pp g2alpha al ρ
      = canon o1 o2 pp g2alpha (updatePattern (List.replicate l .free) al) ρ := by
  have hwf : al.wellFormed l = true := by
    unfold admissible at hadm
    rw [Bool.and_eq_true] at hadm
    simpa using hadm.1
  unfold keygen
  rw [keygenLoop_spec L1 al.find? ρ al.omitAll pp.h pp.h 0 al.attrs pp.g3 [] rfl (Cur.init hwf)]
  rw [canon_eq L1 L2]
  simp only [updatePattern_length, List.length_replicate, hl, List.reverse_nil, List.nil_append,
    ← List.range_eq_range']
  have hsum : (List.range l).map (kgTerm al.find? pp.h)
      = (List.range l).map (patTerm (updatePattern (List.replicate l .free) al) pp.h) := by
    apply List.map_congr_left
    intro k hk
    have hk' : k < (List.replicate l Slot.free).length := by simpa using hk
    unfold kgTerm patTerm
    rw [updatePattern_getD _ _ hk', replicate_getD_free]
    unfold updSlot
    rcases al.find? k with _ | a
    · cases al.omitAll <;> rfl
    · cases hh : a.hide <;> simp [hh]
  have hb : (List.range l).filterMap (kgB al.find? al.omitAll ρ pp.h)
      = (List.range l).filterMap (canonB (updatePattern (List.replicate l .free) al) ρ pp.h) := by
    apply List.filterMap_congr
    intro k hk
    have hk' : k < (List.replicate l Slot.free).length := by simpa using hk
    unfold kgB canonB
    rw [updatePattern_getD _ _ hk', replicate_getD_free]
    unfold updSlot
    rcases al.find? k with _ | a
    · cases al.omitAll <;> rfl
    · cases hh : a.hide <;> simp [hh]
  rw [hsum, hb]
  simp only [L1.add, L1.smul, L1.zero, L2.smul]
  congr 1
  abel

end keygen_canon

/-! ## `nondelegable_keygen` is `keygen` with randomiser 1 -/
section ndkeygen
variable {G1 G2 GT : Type} [AddCommGroup G1] [AddCommGroup G2]
variable {o1 : GroupOps G1} {o2 : GroupOps G2}

theorem ndKeygenLoop_eq (L1 : Lawful o1) (om : Bool) :
    ∀ (hs : List G1) (i : Nat) (attrs : List Attr) (a0 : G1) (b : List (Nat × G1)),
      ndKeygenLoop o1 om i hs attrs a0 b = keygenLoop o1 1 om i hs attrs a0 b := by
  intro hs
  induction hs with
  | nil => intros; simp [ndKeygenLoop, keygenLoop]
  | cons hi hs ih =>
    intro i attrs a0 b
    cases attrs with
    | nil => rw [ndKeygenLoop, keygenLoop]; simp only [ih, L1.smul, one_smul]
    | cons a rest => rw [ndKeygenLoop, keygenLoop]; simp only [ih, L1.smul, one_smul]

theorem ndKeygen_eq_keygen (L1 : Lawful o1) (L2 : Lawful o2) (pp : Params G1 G2 GT) (g2alpha : G1)
    (al : AttrList) : ndKeygen o1 pp g2alpha al = keygen o1 o2 pp g2alpha al 1 := by
  unfold ndKeygen keygen
  rw [ndKeygenLoop_eq L1]
  simp only [L1.smul, L2.smul, one_smul]

theorem ndKeygen_canon (L1 : Lawful o1) (L2 : Lawful o2) (pp : Params G1 G2 GT) (g2alpha : G1)
    (al : AttrList) (l : Nat) (hl : pp.h.length = l)
    (hadm : admissible (List.replicate l .free) al = true) :
    ndKeygen o1 pp g2alpha al
      = canon o1 o2 pp g2alpha (updatePattern (List.replicate l .free) al) 1 := by
  rw [ndKeygen_eq_keygen L1 L2, keygen_canon L1 L2 pp g2alpha al 1 l hl hadm]

end ndkeygen

/-! ## Cursor into the parent's `b` list -/
section skb
variable {G1 : Type}

/-- the parent's free-slot list from slot `i` on, for the lookup function `pb`. -/
def skbFrom (pb : Nat → Option G1) (i m : Nat) : List (Nat × G1) :=
  (List.range' i m).filterMap fun k => (pb k).map fun bx => (k, bx)

theorem skbFrom_succ_some {pb : Nat → Option G1} {i : Nat} {bx : G1} (m : Nat) (h : pb i = some bx) :
    skbFrom pb i (m + 1) = (i, bx) :: skbFrom pb (i + 1) m := by
  simp [skbFrom, List.range'_succ, h]

theorem skbFrom_succ_none {pb : Nat → Option G1} {i : Nat} (m : Nat) (h : pb i = none) :
    skbFrom pb i (m + 1) = skbFrom pb (i + 1) m := by
  simp [skbFrom, List.range'_succ, h]

theorem skbFrom_ge {pb : Nat → Option G1} {i m : Nat} : ∀ p ∈ skbFrom pb i m, i ≤ p.1 := by
  intro p hp
  simp only [skbFrom, List.mem_filterMap, List.mem_range'_1, Option.map_eq_some_iff] at hp
  obtain ⟨k, hk, bx, _, rfl⟩ := hp
  exact hk.1

theorem skbFrom_head_ne {pb : Nat → Option G1} {i m j : Nat} {bx : G1} {tl : List (Nat × G1)}
    (h : skbFrom pb (i + 1) m = (j, bx) :: tl) : (j == i) = false := by
  have := skbFrom_ge (pb := pb) (i := i + 1) (m := m) (j, bx) (by rw [h]; exact List.mem_cons_self ..)
  simp at this ⊢
  omega

end skb

/-! ## `qualifykey` -/
section qualify
variable {G1 G2 GT : Type} [AddCommGroup G1] [AddCommGroup G2]
variable {o1 : GroupOps G1} {o2 : GroupOps G2}

/-- contribution of slot `k` to `a0` in `qualifykey` / `nondelegable_qualifykey`. -/
def qA0Term (look : Nat → Option Attr) (pb : Nat → Option G1) (k : Nat) : G1 :=
  match look k, pb k with
  | some a, some bx => if a.hide then 0 else a.id • bx
  | _, _ => 0

/-- the `b` entry of slot `k` in `qualifykey`. -/
def qB (look : Nat → Option Attr) (pb : Nat → Option G1) (om : Bool) (t : Nat) (H : List G1)
    (k : Nat) : Option (Nat × G1) :=
  match look k, pb k with
  | none, some bx => if om then none else some (k, t • H.getD k 0 + bx)
  | _, _ => none

theorem qualifyLoop_spec (L1 : Lawful o1) (look : Nat → Option Attr) (pb : Nat → Option G1)
    (t : Nat) (om : Bool) (H : List G1) :
    ∀ (hs : List G1) (i : Nat) (attrs : List Attr) (product a0 : G1) (b : List (Nat × G1)),
      H.drop i = hs → Cur look i attrs →
      qualifyLoop o1 t om i hs attrs (skbFrom pb i hs.length) product a0 b =
        (product + ((List.range' i hs.length).map (kgTerm look H)).sum,
         a0 + ((List.range' i hs.length).map (qA0Term look pb)).sum,
         b.reverse ++ (List.range' i hs.length).filterMap (qB look pb om t H)) := by
  intro hs
  induction hs with
  | nil => intros; simp [qualifyLoop]
  | cons hi hs ih =>
    intro i attrs product a0 b hd hc
    obtain ⟨hgi, hd'⟩ := drop_cons_getD (0 : G1) hd
    subst hgi
    rcases hc.step with ⟨a, rest, rfl, hai, hl, hc'⟩ | ⟨hl, hc', hne⟩
    · have IH := fun product a0 b => ih (i + 1) rest product a0 b hd' hc'
      rcases hp : pb i with _ | bx
      · rw [List.length_cons, skbFrom_succ_none _ hp]
        rcases hs' : skbFrom pb (i + 1) hs.length with _ | ⟨⟨j, bx⟩, tl⟩
        · rw [hs'] at IH
          rw [qualifyLoop]
          cases hh : a.hide <;>
            simp [hai, IH, List.range'_succ, kgTerm, qA0Term, qB, hl, hp, hh, L1.add, L1.smul,
              add_assoc]
        · rw [hs'] at IH
          have hj := skbFrom_head_ne hs'
          rw [qualifyLoop]
          cases hh : a.hide <;>
            simp [hai, hj, IH, List.range'_succ, kgTerm, qA0Term, qB, hl, hp, hh, L1.add, L1.smul,
              add_assoc]
      · rw [List.length_cons, skbFrom_succ_some _ hp]
        rw [qualifyLoop]
        cases hh : a.hide <;>
          simp [hai, IH, List.range'_succ, kgTerm, qA0Term, qB, hl, hp, hh, L1.add, L1.smul,
            add_assoc]
    · have IH := fun product a0 b => ih (i + 1) attrs product a0 b hd' hc'
      have hattrs : attrs = [] ∨ ∃ a rest, attrs = a :: rest ∧ (a.idx == i) = false := by
        cases attrs with
        | nil => exact Or.inl rfl
        | cons a rest => exact Or.inr ⟨a, rest, rfl, by simpa using hne a rest rfl⟩
      rcases hp : pb i with _ | bx
      · rw [List.length_cons, skbFrom_succ_none _ hp]
        rcases hs' : skbFrom pb (i + 1) hs.length with _ | ⟨⟨j, bx⟩, tl⟩
        · rw [hs'] at IH
          rcases hattrs with rfl | ⟨a, rest, rfl, ha⟩
          · rw [qualifyLoop]
            simp [IH, List.range'_succ, kgTerm, qA0Term, qB, hl, hp]
          · rw [qualifyLoop]
            simp [ha, IH, List.range'_succ, kgTerm, qA0Term, qB, hl, hp]
        · rw [hs'] at IH
          have hj := skbFrom_head_ne hs'
          rcases hattrs with rfl | ⟨a, rest, rfl, ha⟩
          · rw [qualifyLoop]
            simp [hj, IH, List.range'_succ, kgTerm, qA0Term, qB, hl, hp]
          · rw [qualifyLoop]
            simp [ha, hj, IH, List.range'_succ, kgTerm, qA0Term, qB, hl, hp]
      · rw [List.length_cons, skbFrom_succ_some _ hp]
        rcases hattrs with rfl | ⟨a, rest, rfl, ha⟩
        · rw [qualifyLoop]
          cases om <;>
            simp [IH, List.range'_succ, kgTerm, qA0Term, qB, hl, hp, L1.add, L1.smul]
        · rw [qualifyLoop]
          cases om <;>
            simp [ha, IH, List.range'_succ, kgTerm, qA0Term, qB, hl, hp, L1.add, L1.smul]

end qualify

/-! ## Admissibility, slot by slot -/
section adm

/-- the per-slot condition of `admissible`. -/
def admSlot (s : Slot) (oa : Option Attr) : Bool :=
  match s, oa with
  | .fixed v, some a => !a.hide && a.id % r == v % r
  | .fixed _, none => false
  | .hidden, some a => a.hide
  | _, _ => true

theorem admissible_eq (π : List Slot) (al : AttrList) :
    admissible π al = (al.wellFormed π.length &&
      (List.range π.length).all fun i => admSlot (π.getD i .free) (al.find? i)) := by
  unfold admissible
  congr 2

theorem admissible_wf {π : List Slot} {al : AttrList} (h : admissible π al = true) :
    al.wellFormed π.length = true := by
  rw [admissible_eq, Bool.and_eq_true] at h
  exact h.1

theorem admissible_at {π : List Slot} {al : AttrList} (h : admissible π al = true) {k : Nat}
    (hk : k < π.length) : admSlot (π.getD k .free) (al.find? k) = true := by
  rw [admissible_eq, Bool.and_eq_true, List.all_eq_true] at h
  exact h.2 k (List.mem_range.2 hk)

end adm

/-! ## `qualify_canon` -/
section qualify_canon
variable {G1 G2 GT : Type} [AddCommGroup G1] [AddCommGroup G2]
variable {o1 : GroupOps G1} {o2 : GroupOps G2}

/-- the `b` list of a canonical key as a lookup function. -/
def canonPb (π : List Slot) (ρ : Nat) (H : List G1) (k : Nat) : Option G1 :=
  match π.getD k .free with
  | .free => some (ρ • H.getD k 0)
  | _ => none

theorem canonB_skb (π : List Slot) (ρ : Nat) (H : List G1) (n : Nat) :
    (List.range n).filterMap (canonB π ρ H) = skbFrom (canonPb π ρ H) 0 n := by
  rw [List.range_eq_range', skbFrom]
  apply List.filterMap_congr
  intro k _
  unfold canonB canonPb
  rcases π.getD k .free with _ | v | _ <;> rfl

theorem sum_combine {G : Type} [AddCommGroup G] (L : List Nat) (ρ t : Nat) (P Q R P' : Nat → G)
    (h : ∀ k ∈ L, ρ • P k + Q k + t • R k = (ρ + t) • P' k) :
    ρ • (L.map P).sum + (L.map Q).sum + t • (L.map R).sum = (ρ + t) • (L.map P').sum := by
  induction L with
  | nil => simp
  | cons k L ih =>
    have h1 := h k (List.mem_cons_self ..)
    have h2 := ih (fun j hj => h j (List.mem_cons_of_mem _ hj))
    simp only [List.map_cons, List.sum_cons, smul_add]
    rw [← h1, ← h2]
    abel

theorem qualify_a0_slot (hr : ExpR G1) {π : List Slot} {al : AttrList} (H : List G1) (ρ t : Nat)
    (hadm : admissible π al = true) {k : Nat} (hk : k < π.length) :
    ρ • patTerm π H k + qA0Term al.find? (canonPb π ρ H) k + t • kgTerm al.find? H k
      = (ρ + t) • patTerm (updatePattern π al) H k := by
  have ha := admissible_at hadm hk
  unfold patTerm qA0Term kgTerm canonPb
  rw [updatePattern_getD _ _ hk]
  generalize π.getD k .free = s at ha ⊢
  generalize al.find? k = oa at ha ⊢
  generalize H.getD k 0 = h
  rcases s with _ | v | _ <;> rcases oa with _ | a
  · cases al.omitAll <;> simp [updSlot]
  · cases hh : a.hide
    · simp only [updSlot, hh, Bool.false_eq_true, if_false, smul_zero, zero_add, add_nsmul]
      rw [smul_comm]
    · simp [updSlot, hh]
  · simp [admSlot] at ha
  · simp only [admSlot, Bool.and_eq_true, Bool.not_eq_true', beq_iff_eq] at ha
    simp only [updSlot, ha.1, Bool.false_eq_true, if_false, add_zero, add_nsmul]
    rw [smul_eq_of_mod_eq hr ha.2]
  · simp [updSlot]
  · simp only [admSlot] at ha
    simp [updSlot, ha]

theorem qualify_b_slot {π : List Slot} {al : AttrList} (H : List G1) (ρ t : Nat)
    {k : Nat} (hk : k < π.length) :
    qB al.find? (canonPb π ρ H) al.omitAll t H k = canonB (updatePattern π al) (ρ + t) H k := by
  unfold qB canonB canonPb
  rw [updatePattern_getD _ _ hk]
  generalize π.getD k .free = s
  generalize al.find? k = oa
  rcases s with _ | v | _ <;> rcases oa with _ | a
  · cases al.omitAll <;> simp [updSlot, add_nsmul, add_comm]
  · cases hh : a.hide <;> simp [updSlot, hh]
  all_goals simp [updSlot]

theorem qualify_canon (L1 : Lawful o1) (L2 : Lawful o2) (hr : ExpR G1) (pp : Params G1 G2 GT)
    (g2alpha : G1) (π : List Slot) (ρ : Nat) (al : AttrList) (t : Nat)
    (hl : pp.h.length = π.length) (hadm : admissible π al = true) :
    qualifykey o1 o2 pp (canon o1 o2 pp g2alpha π ρ) al t
      = canon o1 o2 pp g2alpha (updatePattern π al) (ρ + t) := by
  have hwf := admissible_wf hadm
  rw [canon_eq L1 L2, canon_eq L1 L2]
  unfold qualifykey
  simp only [updatePattern_length]
  rw [canonB_skb, ← hl,
    qualifyLoop_spec L1 al.find? (canonPb π ρ pp.h) t al.omitAll pp.h pp.h 0 al.attrs pp.g3 _ []
      rfl (Cur.init hwf)]
  simp only [List.reverse_nil, List.nil_append, ← List.range_eq_range', L1.add, L1.smul, L1.zero,
    L2.add, L2.smul]
  have key := sum_combine (List.range pp.h.length) ρ t (patTerm π pp.h)
    (qA0Term al.find? (canonPb π ρ pp.h)) (kgTerm al.find? pp.h)
    (patTerm (updatePattern π al) pp.h)
    (fun k hk => qualify_a0_slot hr pp.h ρ t hadm (by rw [← hl]; exact List.mem_range.1 hk))
  have hb : (List.range pp.h.length).filterMap (qB al.find? (canonPb π ρ pp.h) al.omitAll t pp.h)
      = (List.range pp.h.length).filterMap (canonB (updatePattern π al) (ρ + t) pp.h) := by
    apply List.filterMap_congr
    intro k hk
    exact qualify_b_slot pp.h ρ t (by rw [← hl]; exact List.mem_range.1 hk)
  rw [hb]
  congr 1
  · rw [smul_add, smul_add, smul_add (ρ + t), ← key, add_nsmul]
    abel
  · rw [add_nsmul, add_comm]
  · cases pp.signatures <;> simp [add_nsmul, add_comm]

end qualify_canon

/-! ## `nondelegable_qualifykey` -/
section ndqualify
variable {G1 G2 GT : Type} [AddCommGroup G1] [AddCommGroup G2]
variable {o1 : GroupOps G1} {o2 : GroupOps G2}

/-- the `b` entry of slot `k` in `nondelegable_qualifykey`. -/
def ndB (look : Nat → Option Attr) (pb : Nat → Option G1) (om : Bool) (k : Nat) : Option (Nat × G1) :=
  match look k, pb k with
  | none, some bx => if om then none else some (k, bx)
  | _, _ => none

theorem qA0Term_none {look : Nat → Option Attr} {pb : Nat → Option G1} {k : Nat} (h : pb k = none) :
    qA0Term look pb k = 0 := by
  unfold qA0Term; rw [h]; cases look k <;> rfl

theorem ndB_none {look : Nat → Option Attr} {pb : Nat → Option G1} {om : Bool} {k : Nat}
    (h : pb k = none) : ndB look pb om k = none := by
  unfold ndB; rw [h]; cases look k <;> rfl

theorem ndQualifyLoop_nil (om : Bool) (fuel i : Nat) (attrs : List Attr) (a0 : G1)
    (b : List (Nat × G1)) : ndQualifyLoop o1 om fuel i attrs [] a0 b = (a0, b.reverse) := by
  cases fuel <;> simp [ndQualifyLoop]

theorem ndQualifyLoop_spec (L1 : Lawful o1) (look : Nat → Option Attr) (pb : Nat → Option G1)
    (om : Bool) :
    ∀ (m i : Nat) (attrs : List Attr) (a0 : G1) (b : List (Nat × G1)),
      Cur look i attrs →
      ndQualifyLoop o1 om m i attrs (skbFrom pb i m) a0 b =
        (a0 + ((List.range' i m).map (qA0Term look pb)).sum,
         b.reverse ++ (List.range' i m).filterMap (ndB look pb om)) := by
  intro m
  induction m with
  | zero => intros; simp [ndQualifyLoop]
  | succ m ih =>
    intro i attrs a0 b hc
    rcases hp : pb i with _ | bx
    · -- slot i is not in the parent's list: nothing happens at this slot
      have hq := qA0Term_none (look := look) hp
      have hn := ndB_none (look := look) (om := om) hp
      rw [skbFrom_succ_none _ hp, List.range'_succ, List.map_cons, List.sum_cons,
        List.filterMap_cons_none hn, hq, zero_add]
      rcases hs' : skbFrom pb (i + 1) m with _ | ⟨⟨j, bx⟩, tl⟩
      · rw [ndQualifyLoop_nil]
        rcases hc.step with ⟨a, rest, rfl, hai, hl, hc'⟩ | ⟨hl, hc', hne⟩
        · have IH := ih (i + 1) rest a0 b hc'
          rw [hs', ndQualifyLoop_nil] at IH
          exact IH
        · have IH := ih (i + 1) attrs a0 b hc'
          rw [hs', ndQualifyLoop_nil] at IH
          exact IH
      · have hj := skbFrom_head_ne hs'
        rcases hc.step with ⟨a, rest, rfl, hai, hl, hc'⟩ | ⟨hl, hc', hne⟩
        · have IH := ih (i + 1) rest a0 b hc'
          rw [hs'] at IH
          rw [ndQualifyLoop]
          simp [hai, hj, IH]
        · have IH := ih (i + 1) attrs a0 b hc'
          rw [hs'] at IH
          cases attrs with
          | nil => rw [ndQualifyLoop]; simp [hj, IH]
          | cons a rest =>
            have ha : (a.idx == i) = false := by simpa using hne a rest rfl
            rw [ndQualifyLoop]; simp [ha, hj, IH]
    · rw [skbFrom_succ_some _ hp]
      rcases hc.step with ⟨a, rest, rfl, hai, hl, hc'⟩ | ⟨hl, hc', hne⟩
      · have IH := fun a0 b => ih (i + 1) rest a0 b hc'
        rw [ndQualifyLoop]
        cases hh : a.hide <;>
          simp [hai, IH, List.range'_succ, qA0Term, ndB, hl, hp, hh, L1.add, L1.smul, add_assoc]
      · have IH := fun a0 b => ih (i + 1) attrs a0 b hc'
        cases attrs with
        | nil =>
          rw [ndQualifyLoop]
          cases om <;> simp [IH, List.range'_succ, qA0Term, ndB, hl, hp]
        | cons a rest =>
          have ha : (a.idx == i) = false := by simpa using hne a rest rfl
          rw [ndQualifyLoop]
          cases om <;> simp [ha, IH, List.range'_succ, qA0Term, ndB, hl, hp]

theorem ndQualify_a0_slot {π : List Slot} {al : AttrList} (H : List G1) (ρ : Nat)
    {k : Nat} (hk : k < π.length) :
    ρ • patTerm π H k + qA0Term al.find? (canonPb π ρ H) k
      = ρ • patTerm (updatePattern π al) H k := by
  unfold patTerm qA0Term canonPb
  rw [updatePattern_getD _ _ hk]
  generalize π.getD k .free = s
  generalize al.find? k = oa
  generalize H.getD k 0 = h
  rcases s with _ | v | _ <;> rcases oa with _ | a
  · cases al.omitAll <;> simp [updSlot]
  · cases hh : a.hide
    · simp only [updSlot, hh, Bool.false_eq_true, if_false, smul_zero, zero_add]
      rw [smul_comm]
    · simp [updSlot, hh]
  all_goals simp [updSlot]

theorem ndQualify_b_slot {π : List Slot} {al : AttrList} (H : List G1) (ρ : Nat)
    {k : Nat} (hk : k < π.length) :
    ndB al.find? (canonPb π ρ H) al.omitAll k = canonB (updatePattern π al) ρ H k := by
  unfold ndB canonB canonPb
  rw [updatePattern_getD _ _ hk]
  generalize π.getD k .free = s
  generalize al.find? k = oa
  rcases s with _ | v | _ <;> rcases oa with _ | a
  · cases al.omitAll <;> simp [updSlot]
  · cases hh : a.hide <;> simp [updSlot, hh]
  all_goals simp [updSlot]

theorem sum_combine2 {G : Type} [AddCommGroup G] (L : List Nat) (ρ : Nat) (P Q P' : Nat → G)
    (h : ∀ k ∈ L, ρ • P k + Q k = ρ • P' k) :
    ρ • (L.map P).sum + (L.map Q).sum = ρ • (L.map P').sum := by
  induction L with
  | nil => simp
  | cons k L ih =>
    have h1 := h k (List.mem_cons_self ..)
    have h2 := ih (fun j hj => h j (List.mem_cons_of_mem _ hj))
    simp only [List.map_cons, List.sum_cons, smul_add]
    rw [← h1, ← h2]
    abel

/-- `nondelegable_qualifykey` on a canonical key: only well-formedness of the list is needed. -/
theorem ndQualify_canon_wf (L1 : Lawful o1) (L2 : Lawful o2) (pp : Params G1 G2 GT)
    (g2alpha : G1) (π : List Slot) (ρ : Nat) (al : AttrList)
    (hwf : al.wellFormed π.length = true) :
    ndQualifykey o1 π.length (canon o1 o2 pp g2alpha π ρ) al
      = canon o1 o2 pp g2alpha (updatePattern π al) ρ := by
  rw [canon_eq L1 L2, canon_eq L1 L2]
  unfold ndQualifykey
  simp only [updatePattern_length]
  rw [canonB_skb,
    ndQualifyLoop_spec L1 al.find? (canonPb π ρ pp.h) al.omitAll π.length 0 al.attrs _ []
      (Cur.init hwf)]
  simp only [List.reverse_nil, List.nil_append, ← List.range_eq_range', L1.zero]
  have key := sum_combine2 (List.range π.length) ρ (patTerm π pp.h)
    (qA0Term al.find? (canonPb π ρ pp.h)) (patTerm (updatePattern π al) pp.h)
    (fun k hk => ndQualify_a0_slot pp.h ρ (List.mem_range.1 hk))
  have hb : (List.range π.length).filterMap (ndB al.find? (canonPb π ρ pp.h) al.omitAll)
      = (List.range π.length).filterMap (canonB (updatePattern π al) ρ pp.h) := by
    apply List.filterMap_congr
    intro k hk
    exact ndQualify_b_slot pp.h ρ (List.mem_range.1 hk)
  rw [hb]
  congr 1
  · rw [smul_add, smul_add, ← key]
    abel
  · cases pp.signatures <;> simp

theorem ndQualify_canon (L1 : Lawful o1) (L2 : Lawful o2) (pp : Params G1 G2 GT)
    (g2alpha : G1) (π : List Slot) (ρ : Nat) (al : AttrList)
    (hadm : admissible π al = true) :
    ndQualifykey o1 π.length (canon o1 o2 pp g2alpha π ρ) al
      = canon o1 o2 pp g2alpha (updatePattern π al) ρ :=
  ndQualify_canon_wf L1 L2 pp g2alpha π ρ al (admissible_wf hadm)

end ndqualify

/-! ## `precompute` / `adjust_precomputed` (C14) -/
section precomputed
variable {G1 G2 GT : Type} [AddCommGroup G1] [AddCommGroup G2]
variable {o1 : GroupOps G1} {o2 : GroupOps G2}

/-- contribution of one attribute to `listProduct`. -/
def lpTerm (H : List G1) (a : Attr) : G1 := a.id • H.getD a.idx 0

theorem listProduct_eq (L1 : Lawful o1) (pp : Params G1 G2 GT) (al : AttrList) :
    listProduct o1 pp al = pp.g3 + (al.attrs.map (lpTerm pp.h)).sum := by
  unfold listProduct
  apply foldl_eq_sum_of
  intro acc a
  simp [lpTerm, L1.add, L1.smul, L1.zero]

theorem adjustPreLoop_spec (L1 : Lawful o1) (hr : ExpR G1) (H : List G1) :
    ∀ (fuel : Nat) (fs ts : List Attr) (acc : G1), fs.length + ts.length ≤ fuel →
      adjustPreLoop o1 H fuel fs ts acc
        = acc - (fs.map (lpTerm H)).sum + (ts.map (lpTerm H)).sum := by
  intro fuel
  induction fuel with
  | zero =>
    intro fs ts acc hlen
    have h1 : fs = [] := List.length_eq_zero_iff.1 (by omega)
    have h2 : ts = [] := List.length_eq_zero_iff.1 (by omega)
    subst h1 h2
    simp [adjustPreLoop]
  | succ fuel ih =>
    intro fs ts acc hlen
    cases fs with
    | nil =>
      cases ts with
      | nil => simp [adjustPreLoop]
      | cons t ts =>
        rw [adjustPreLoop, ih _ _ _ (by simp at hlen ⊢; omega)]
        simp only [lpTerm, L1.add, L1.smul, L1.zero, List.map_nil, List.sum_nil, List.map_cons,
          List.sum_cons]
        abel
    | cons f fs =>
      cases ts with
      | nil =>
        rw [adjustPreLoop, ih _ _ _ (by simp at hlen ⊢; omega)]
        simp only [lpTerm, L1.add, L1.smul, L1.zero, List.map_nil, List.sum_nil, List.map_cons,
          List.sum_cons, diffId_zero_smul hr]
        abel
      | cons t ts =>
        rw [adjustPreLoop]
        by_cases hidx : f.idx = t.idx
        · by_cases hid : redId f.id = redId t.id
          · simp only [hidx, hid, beq_self_eq_true, if_true]
            rw [ih _ _ _ (by simp at hlen ⊢; omega)]
            simp only [lpTerm, List.map_cons, List.sum_cons, hidx]
            rw [smul_eq_of_mod_eq hr (show f.id % r = t.id % r from hid)]
            abel
          · have hid' : (redId f.id == redId t.id) = false := by simpa using hid
            simp only [hidx, hid', beq_self_eq_true, if_true, Bool.false_eq_true, if_false]
            rw [ih _ _ _ (by simp at hlen ⊢; omega)]
            simp only [lpTerm, List.map_cons, List.sum_cons, hidx, L1.add, L1.smul, L1.zero,
              diffId_smul hr]
            abel
        · have hidx' : (f.idx == t.idx) = false := by simpa using hidx
          simp only [hidx', Bool.false_eq_true, if_false]
          by_cases hlt : f.idx < t.idx
          · simp only [hlt, if_true]
            rw [ih _ _ _ (by simp at hlen ⊢; omega)]
            simp only [lpTerm, List.map_cons, List.sum_cons, L1.add, L1.smul, L1.zero,
              diffId_zero_smul hr]
            abel
          · simp only [hlt, if_false]
            rw [ih _ _ _ (by simp at hlen ⊢; omega)]
            simp only [lpTerm, List.map_cons, List.sum_cons, L1.add, L1.smul, L1.zero]
            abel

/-- C14, first half: adjusting a precomputed product from list `A` to list `B` gives the
precomputed product of `B` — for all lists and all identifier values (also ≥ r). -/
theorem adjustPrecomputed_eq (L1 : Lawful o1) (hr : ExpR G1) (pp : Params G1 G2 GT)
    (from_ to_ : AttrList) :
    adjustPrecomputed o1 pp (listProduct o1 pp from_) from_ to_ = listProduct o1 pp to_ := by
  unfold adjustPrecomputed
  rw [adjustPreLoop_spec L1 hr _ _ _ _ _ (by omega), listProduct_eq L1, listProduct_eq L1]
  abel

end precomputed

/-! ## `adjust_nondelegable` (C14) -/
section adjustnd
variable {G1 G2 GT : Type} [AddCommGroup G1] [AddCommGroup G2]
variable {o1 : GroupOps G1} {o2 : GroupOps G2}

/-- the cursor test of `adjust_nondelegable`: is the head of the cursor the attribute of `idx`. -/
def headAt (l : List Attr) (idx : Nat) : Option Attr :=
  match l with
  | a :: _ => if a.idx == idx then some a else none
  | [] => none

/-- the `a0` update of one iteration of `adjust_nondelegable`. -/
def adjA0 (o1 : GroupOps G1) (fromE toE : Option Attr) (a0 hexp : G1) : G1 :=
  let subFrom := match fromE with | some a => !a.hide | none => false
  let addTo := match toE with | some a => !a.hide | none => false
  match subFrom, addTo with
  | true, true =>
    let f := (fromE.map (·.id)).getD 0; let t := (toE.map (·.id)).getD 0
    if redId f == redId t then a0 else o1.add a0 (o1.smul (diffId t f) hexp)
  | true, false => o1.add a0 (o1.smul (diffId 0 ((fromE.map (·.id)).getD 0)) hexp)
  | false, true => o1.add a0 (o1.smul ((toE.map (·.id)).getD 0) hexp)
  | false, false => a0

theorem adjustNdLoop_cons (tom : Bool) (idx : Nat) (hexp : G1) (ps : List (Nat × G1))
    (from_ to_ : List Attr) (a0 : G1) (b : List (Nat × G1)) :
    adjustNdLoop o1 tom ((idx, hexp) :: ps) from_ to_ a0 b =
      adjustNdLoop o1 tom ps (from_.dropWhile (·.idx < idx)) (to_.dropWhile (·.idx < idx))
        (adjA0 o1 (headAt (from_.dropWhile (·.idx < idx)) idx)
          (headAt (to_.dropWhile (·.idx < idx)) idx) a0 hexp)
        (if (headAt (to_.dropWhile (·.idx < idx)) idx).isNone && !tom then (idx, hexp) :: b
          else b) := by
  rfl

/-- what an attribute (if any) contributes to `a0` for a parent element `bx`. -/
def ndS (oa : Option Attr) (bx : G1) : G1 :=
  match oa with
  | some a => if a.hide then 0 else a.id • bx
  | none => 0

theorem adjA0_eq (L1 : Lawful o1) (hr : ExpR G1) (fE tE : Option Attr) (a0 hexp : G1) :
    adjA0 o1 fE tE a0 hexp = a0 - ndS fE hexp + ndS tE hexp := by
  rcases fE with _ | f <;> rcases tE with _ | t
  · simp [adjA0, ndS]
  · cases ht : t.hide <;> simp [adjA0, ndS, ht, L1.add, L1.smul]
  · cases hf : f.hide <;> simp [adjA0, ndS, hf, L1.add, L1.smul, diffId_zero_smul hr, sub_eq_add_neg]
  · cases hf : f.hide <;> cases ht : t.hide
    · by_cases hid : redId f.id = redId t.id
      · simp only [adjA0, ndS, hf, ht, Bool.not_false, Option.map_some, Option.getD_some, hid,
          beq_self_eq_true, if_true, Bool.false_eq_true, if_false]
        rw [smul_eq_of_mod_eq hr (show f.id % r = t.id % r from hid)]
        abel
      · have hid' : (redId f.id == redId t.id) = false := by simpa using hid
        simp only [adjA0, ndS, hf, ht, Bool.not_false, Option.map_some, Option.getD_some, hid',
          Bool.false_eq_true, if_false, L1.add, L1.smul, diffId_smul hr]
        abel
    · simp [adjA0, ndS, hf, ht, L1.add, L1.smul, diffId_zero_smul hr, sub_eq_add_neg]
    · simp [adjA0, ndS, hf, ht, L1.add, L1.smul]
    · simp [adjA0, ndS, hf, ht]

theorem find?_dropWhile (attrs : List Attr) {idx k : Nat} (h : idx ≤ k) :
    (attrs.dropWhile (·.idx < idx)).find? (·.idx == k) = attrs.find? (·.idx == k) := by
  induction attrs with
  | nil => rfl
  | cons a rest ih =>
    by_cases ha : a.idx < idx
    · rw [List.dropWhile_cons_of_pos (by simpa using ha), ih, List.find?_cons_of_neg]
      simp; omega
    · rw [List.dropWhile_cons_of_neg (by simpa using ha)]

theorem asc_dropWhile {attrs : List Attr} (p : Attr → Bool) (h : Asc attrs) :
    Asc (attrs.dropWhile p) :=
  List.Pairwise.sublist (List.dropWhile_sublist p) h

theorem headAt_dropWhile {attrs : List Attr} (hasc : Asc attrs) (idx : Nat) :
    headAt (attrs.dropWhile (·.idx < idx)) idx = attrs.find? (·.idx == idx) := by
  induction attrs with
  | nil => rfl
  | cons a rest ih =>
    have hc := List.pairwise_cons.1 hasc
    by_cases ha : a.idx < idx
    · rw [List.dropWhile_cons_of_pos (by simpa using ha), ih hc.2, List.find?_cons_of_neg]
      simp; omega
    · rw [List.dropWhile_cons_of_neg (by simpa using ha)]
      by_cases he : a.idx = idx
      · simp [headAt, he]
      · have : rest.find? (·.idx == idx) = none := by
          apply find?_none_of_gt
          intro c hc'
          have := hc.1 c hc'
          omega
        simp [headAt, he, this]

/-- strictly ascending slot indices in a key's `b` list. -/
def AscB (ps : List (Nat × G1)) : Prop := ps.Pairwise (fun p q => p.1 < q.1)

theorem adjustNdLoop_spec (L1 : Lawful o1) (hr : ExpR G1) (tom : Bool) :
    ∀ (ps : List (Nat × G1)) (from_ to_ : List Attr) (a0 : G1) (b : List (Nat × G1)),
      AscB ps → Asc from_ → Asc to_ →
      adjustNdLoop o1 tom ps from_ to_ a0 b =
        (a0 + (ps.map (fun p => ndS (to_.find? (·.idx == p.1)) p.2
                                - ndS (from_.find? (·.idx == p.1)) p.2)).sum,
         b.reverse ++ ps.filter (fun p => (to_.find? (·.idx == p.1)).isNone && !tom)) := by
  intro ps
  induction ps with
  | nil => intros; simp [adjustNdLoop]
  | cons p ps ih =>
    obtain ⟨idx, hexp⟩ := p
    intro from_ to_ a0 b hps hf ht
    have hpc := List.pairwise_cons.1 hps
    rw [adjustNdLoop_cons, ih _ _ _ _ hpc.2 (asc_dropWhile _ hf) (asc_dropWhile _ ht),
      headAt_dropWhile hf, headAt_dropWhile ht, adjA0_eq L1 hr]
    have hmap : ps.map (fun p => ndS ((to_.dropWhile (·.idx < idx)).find? (·.idx == p.1)) p.2
          - ndS ((from_.dropWhile (·.idx < idx)).find? (·.idx == p.1)) p.2)
        = ps.map (fun p => ndS (to_.find? (·.idx == p.1)) p.2
          - ndS (from_.find? (·.idx == p.1)) p.2) := by
      apply List.map_congr_left
      intro q hq
      have hle : idx ≤ q.1 := Nat.le_of_lt (hpc.1 q hq)
      rw [find?_dropWhile _ hle, find?_dropWhile _ hle]
    have hfil : ps.filter (fun p => ((to_.dropWhile (·.idx < idx)).find? (·.idx == p.1)).isNone && !tom)
        = ps.filter (fun p => (to_.find? (·.idx == p.1)).isNone && !tom) := by
      apply List.filter_congr
      intro q hq
      have hle : idx ≤ q.1 := Nat.le_of_lt (hpc.1 q hq)
      rw [find?_dropWhile _ hle]
    rw [hmap, hfil]
    simp only [List.map_cons, List.sum_cons, List.filter_cons]
    refine Prod.ext ?_ ?_
    · simp only; abel
    · cases (to_.find? (·.idx == idx)).isNone <;> cases tom <;> simp

end adjustnd

section adjustnd_eq
variable {G1 G2 GT : Type} [AddCommGroup G1] [AddCommGroup G2]
variable {o1 : GroupOps G1} {o2 : GroupOps G2}

theorem qA0Term_some {look : Nat → Option Attr} {pb : Nat → Option G1} {k : Nat} {bx : G1}
    (h : pb k = some bx) : qA0Term look pb k = ndS (look k) bx := by
  unfold qA0Term ndS; rw [h]; cases look k <;> rfl

theorem skbFrom_ascB (pb : Nat → Option G1) : ∀ (m i : Nat), AscB (skbFrom pb i m) := by
  intro m
  induction m with
  | zero => intro i; simp [skbFrom, AscB]
  | succ m ih =>
    intro i
    rcases hp : pb i with _ | bx
    · rw [skbFrom_succ_none _ hp]; exact ih _
    · rw [skbFrom_succ_some _ hp]
      refine List.pairwise_cons.2 ⟨?_, ih _⟩
      intro q hq
      have := skbFrom_ge q hq
      simp only; omega

theorem sum_skbFrom_adjust (pb : Nat → Option G1) (lf lt : Nat → Option Attr) :
    ∀ (m i : Nat),
      ((List.range' i m).map (qA0Term lf pb)).sum
        + ((skbFrom pb i m).map (fun p => ndS (lt p.1) p.2 - ndS (lf p.1) p.2)).sum
      = ((List.range' i m).map (qA0Term lt pb)).sum := by
  intro m
  induction m with
  | zero => intro i; simp [skbFrom]
  | succ m ih =>
    intro i
    rcases hp : pb i with _ | bx
    · rw [skbFrom_succ_none _ hp, List.range'_succ]
      simp only [List.map_cons, List.sum_cons, qA0Term_none hp, zero_add]
      exact ih _
    · rw [skbFrom_succ_some _ hp, List.range'_succ]
      simp only [List.map_cons, List.sum_cons, qA0Term_some hp]
      rw [← ih (i + 1)]
      abel

theorem filter_skbFrom (pb : Nat → Option G1) (lt : Nat → Option Attr) (om : Bool) :
    ∀ (m i : Nat),
      (skbFrom pb i m).filter (fun p => (lt p.1).isNone && !om)
        = (List.range' i m).filterMap (ndB lt pb om) := by
  intro m
  induction m with
  | zero => intro i; simp [skbFrom]
  | succ m ih =>
    intro i
    rcases hp : pb i with _ | bx
    · rw [skbFrom_succ_none _ hp, List.range'_succ, List.filterMap_cons_none (ndB_none hp)]
      exact ih _
    · rw [skbFrom_succ_some _ hp, List.range'_succ, List.filter_cons, List.filterMap_cons, ih]
      unfold ndB
      rw [hp]
      cases lt i <;> cases om <;> simp

/-- C14, second half, for any parent whose free-slot list is `skbFrom pb 0 l`. -/
theorem adjustNd_eq_skb (L1 : Lawful o1) (hr : ExpR G1) (parent : SecretKey G1 G2)
    (pb : Nat → Option G1) (l : Nat) (hb : parent.b = skbFrom pb 0 l) (from_ to_ : AttrList)
    (hf : from_.wellFormed l = true) (ht : to_.wellFormed l = true) :
    adjustNondelegable o1 (ndQualifykey o1 l parent from_) parent from_ to_
      = ndQualifykey o1 l parent to_ := by
  unfold adjustNondelegable ndQualifykey
  rw [hb, ndQualifyLoop_spec L1 from_.find? pb from_.omitAll l 0 from_.attrs _ [] (Cur.init hf),
    ndQualifyLoop_spec L1 to_.find? pb to_.omitAll l 0 to_.attrs _ [] (Cur.init ht)]
  simp only
  rw [adjustNdLoop_spec L1 hr _ _ _ _ _ _ (skbFrom_ascB pb l 0) (wellFormed_asc hf)
    (wellFormed_asc ht)]
  simp only [List.reverse_nil, List.nil_append]
  have h1 := sum_skbFrom_adjust pb from_.find? to_.find? l 0
  have h2 := filter_skbFrom pb to_.find? to_.omitAll l 0
  rw [add_assoc]
  congr 1
  exact congrArg (parent.a0 + ·) h1

end adjustnd_eq

section ascb
variable {G1 G2 GT : Type} [AddCommGroup G1] [AddCommGroup G2]
variable {o1 : GroupOps G1} {o2 : GroupOps G2}

/-- lookup in a key's `b` list. -/
def lookupB (ps : List (Nat × G1)) (k : Nat) : Option G1 := (ps.find? (·.1 == k)).map (·.2)

theorem skbFrom_congr {pb pb' : Nat → Option G1} (m i : Nat) (h : ∀ k, i ≤ k → pb k = pb' k) :
    skbFrom pb i m = skbFrom pb' i m := by
  unfold skbFrom
  apply List.filterMap_congr
  intro k hk
  rw [h k (List.mem_range'_1.1 hk).1]

/-- every strictly ascending list with indices in `[i, i+m)` is a `skbFrom`. -/
theorem ascB_eq_skbFrom : ∀ (m i : Nat) (ps : List (Nat × G1)), AscB ps →
    (∀ p ∈ ps, i ≤ p.1 ∧ p.1 < i + m) → ps = skbFrom (lookupB ps) i m := by
  intro m
  induction m with
  | zero =>
    intro i ps _ hrange
    cases ps with
    | nil => rfl
    | cons p tl => have := hrange p (List.mem_cons_self ..); omega
  | succ m ih =>
    intro i ps hasc hrange
    by_cases hhead : ∃ bx tl, ps = (i, bx) :: tl
    · obtain ⟨bx, tl, rfl⟩ := hhead
      have hc := List.pairwise_cons.1 hasc
      have hlook : lookupB ((i, bx) :: tl) i = some bx := by simp [lookupB]
      rw [skbFrom_succ_some _ hlook]
      congr 1
      have htl := ih (i + 1) tl hc.2 (fun p hp => by
        have h1 := hc.1 p hp
        have h2 := hrange p (List.mem_cons_of_mem _ hp)
        simp only at h1; omega)
      rw [skbFrom_congr (pb := lookupB ((i, bx) :: tl)) (pb' := lookupB tl)]
      · exact htl
      · intro k hk
        unfold lookupB
        rw [List.find?_cons_of_neg]
        simp; omega
    · have hgt : ∀ p ∈ ps, i + 1 ≤ p.1 := by
        intro p hp
        cases ps with
        | nil => cases hp
        | cons q tl =>
          have hq := hrange q (List.mem_cons_self ..)
          have hqi : q.1 ≠ i := by
            intro he
            exact hhead ⟨q.2, tl, by rw [← he]⟩
          rcases List.mem_cons.1 hp with rfl | hp'
          · omega
          · have := (List.pairwise_cons.1 hasc).1 p hp'
            omega
      have hlook : lookupB ps i = none := by
        unfold lookupB
        rw [Option.map_eq_none_iff, List.find?_eq_none]
        intro p hp
        have := hgt p hp
        simp; omega
      rw [skbFrom_succ_none _ hlook]
      exact ih (i + 1) ps hasc (fun p hp => by
        have h1 := hgt p hp
        have h2 := hrange p hp
        omega)

/-- C14, second half: adjusting the non-delegable key derived from `parent` for list `from_`
to list `to_` gives the non-delegable key derived from `parent` for `to_` directly — for every
parent key whose free-slot list is strictly ascending with indices below `l`, and for both
settings of `from_.omitAll` and `to_.omitAll`. -/
theorem adjustNd_eq (L1 : Lawful o1) (hr : ExpR G1) (parent : SecretKey G1 G2) (l : Nat)
    (hasc : AscB parent.b) (hlt : ∀ p ∈ parent.b, p.1 < l) (from_ to_ : AttrList)
    (hf : from_.wellFormed l = true) (ht : to_.wellFormed l = true) :
    adjustNondelegable o1 (ndQualifykey o1 l parent from_) parent from_ to_
      = ndQualifykey o1 l parent to_ :=
  adjustNd_eq_skb L1 hr parent (lookupB parent.b) l
    (ascB_eq_skbFrom l 0 parent.b hasc (fun p hp => ⟨Nat.zero_le _, by have := hlt p hp; omega⟩))
    from_ to_ hf ht

/-- the free-slot list of a canonical key is strictly ascending, indices below the length. -/
theorem canon_b_ascB (L1 : Lawful o1) (L2 : Lawful o2) (pp : Params G1 G2 GT) (g2alpha : G1)
    (π : List Slot) (ρ : Nat) : AscB (canon o1 o2 pp g2alpha π ρ).b := by
  rw [canon_eq L1 L2]
  simp only
  rw [canonB_skb]
  exact skbFrom_ascB _ _ _

theorem canon_b_lt (L1 : Lawful o1) (L2 : Lawful o2) (pp : Params G1 G2 GT) (g2alpha : G1)
    (π : List Slot) (ρ : Nat) : ∀ p ∈ (canon o1 o2 pp g2alpha π ρ).b, p.1 < π.length := by
  rw [canon_eq L1 L2]
  simp only
  intro p hp
  simp only [List.mem_filterMap, List.mem_range] at hp
  obtain ⟨k, hk, hpk⟩ := hp
  unfold canonB at hpk
  split at hpk
  · cases hpk; exact hk
  · cases hpk

end ascb

/-! ## `updatePattern` facts (C12) and the index list of a canonical key (C11) -/
section pattern_facts
variable {G1 G2 GT : Type} [AddCommGroup G1] [AddCommGroup G2]
variable {o1 : GroupOps G1} {o2 : GroupOps G2}

theorem lt_length_of_getD_ne {π : List Slot} {i : Nat} (h : π.getD i .free ≠ .free) :
    i < π.length := by
  by_contra hn
  apply h
  rw [List.getD_eq_getElem?_getD, List.getElem?_eq_none (by omega)]
  rfl

/-- a hidden slot stays hidden under every step (admissible or not). -/
theorem updatePattern_hidden {π : List Slot} (al : AttrList) {i : Nat}
    (h : π.getD i .free = .hidden) : (updatePattern π al).getD i .free = .hidden := by
  rw [updatePattern_getD _ _ (lt_length_of_getD_ne (by rw [h]; simp)), h]
  rfl

/-- a fixed slot keeps its value under every step. -/
theorem updatePattern_fixed {π : List Slot} (al : AttrList) {i v : Nat}
    (h : π.getD i .free = .fixed v) : (updatePattern π al).getD i .free = .fixed v := by
  rw [updatePattern_getD _ _ (lt_length_of_getD_ne (by rw [h]; simp)), h]
  rfl

/-- an admissible step never gives a value to a hidden slot: if it mentions it, it hides it. -/
theorem admissible_hidden {π : List Slot} {al : AttrList} (hadm : admissible π al = true) {i : Nat}
    (h : π.getD i .free = .hidden) {a : Attr} (ha : al.find? i = some a) : a.hide = true := by
  have := admissible_at hadm (lt_length_of_getD_ne (by rw [h]; simp))
  rw [h, ha] at this
  exact this

/-- an admissible step repeats fixed slots with the same value mod r, unhidden. -/
theorem admissible_fixed {π : List Slot} {al : AttrList} (hadm : admissible π al = true) {i v : Nat}
    (h : π.getD i .free = .fixed v) :
    ∃ a, al.find? i = some a ∧ a.hide = false ∧ a.id % r = v % r := by
  have := admissible_at hadm (lt_length_of_getD_ne (by rw [h]; simp))
  rw [h] at this
  rcases hf : al.find? i with _ | a
  · rw [hf] at this; simp [admSlot] at this
  · rw [hf] at this
    simp only [admSlot, Bool.and_eq_true, Bool.not_eq_true', beq_iff_eq] at this
    exact ⟨a, rfl, this.1, this.2⟩

/-- the canonical key lists exactly the free slots, in ascending order. -/
theorem canon_b_indices (L1 : Lawful o1) (L2 : Lawful o2) (pp : Params G1 G2 GT) (g2alpha : G1)
    (π : List Slot) (ρ : Nat) :
    (canon o1 o2 pp g2alpha π ρ).b.map (·.1)
      = (List.range π.length).filter (fun i => π.getD i .free == .free) := by
  rw [canon_eq L1 L2]
  simp only
  rw [List.map_filterMap, ← List.filterMap_eq_filter]
  apply List.filterMap_congr
  intro k _
  have : (canonB π ρ pp.h k).map (·.1) = if π.getD k .free == .free then some k else none := by
    unfold canonB
    generalize π.getD k .free = s
    cases s <;> rfl
  rw [this]
  rfl

end pattern_facts

/-! ## `resamplekey` -/
section resample
variable {G1 G2 GT : Type} [AddCommGroup G1] [AddCommGroup G2]
variable {o1 : GroupOps G1} {o2 : GroupOps G2}

/-- the pattern of a key resampled without support for further qualification. -/
def hideFree (π : List Slot) : List Slot :=
  π.map fun s => match s with | .free => .hidden | s => s

@[simp] theorem hideFree_length (π : List Slot) : (hideFree π).length = π.length := by
  simp [hideFree]

theorem hideFree_getD (π : List Slot) {k : Nat} (hk : k < π.length) :
    (hideFree π).getD k .free = (match π.getD k .free with | .free => .hidden | s => s) := by
  unfold hideFree
  rw [List.getD_eq_getElem?_getD, List.getD_eq_getElem?_getD, List.getElem?_map,
    List.getElem?_eq_getElem hk]
  rfl

theorem resample_canon (L1 : Lawful o1) (L2 : Lawful o2) (pp : Params G1 G2 GT) (g2alpha : G1)
    (π : List Slot) (ρ t : Nat) (pre : G1) (hpre : pre = patternProduct o1 pp π) (further : Bool) :
    resamplekey o1 o2 pp pre (canon o1 o2 pp g2alpha π ρ) further t
      = canon o1 o2 pp g2alpha (if further then π else hideFree π) (ρ + t) := by
  subst hpre
  rw [patternProduct_eq L1, canon_eq L1 L2, canon_eq L1 L2]
  unfold resamplekey
  simp only [L1.add, L1.smul, L1.zero, L2.add, L2.smul]
  cases further
  · -- no further qualification: the free slots are dropped
    simp only [Bool.false_eq_true, if_false, hideFree_length]
    have hsum : (List.range π.length).map (patTerm (hideFree π) pp.h)
        = (List.range π.length).map (patTerm π pp.h) := by
      apply List.map_congr_left
      intro k hk
      unfold patTerm
      rw [hideFree_getD _ (List.mem_range.1 hk)]
      rcases π.getD k .free with _ | v | _ <;> rfl
    have hb : (List.range π.length).filterMap (canonB (hideFree π) (ρ + t) pp.h) = [] := by
      rw [List.filterMap_eq_nil_iff]
      intro k hk
      unfold canonB
      rw [hideFree_getD _ (List.mem_range.1 hk)]
      rcases π.getD k .free with _ | v | _ <;> rfl
    rw [hsum, hb]
    congr 1
    · rw [add_nsmul]; abel
    · rw [add_nsmul]
    · cases pp.signatures <;> simp [add_nsmul]
  · simp only [if_true]
    congr 1
    · rw [add_nsmul]; abel
    · rw [add_nsmul]
    · cases pp.signatures <;> simp [add_nsmul]
    · rw [List.map_filterMap]
      apply List.filterMap_congr
      intro k _
      unfold canonB
      rcases π.getD k .free with _ | v | _ <;> simp [add_nsmul]

end resample

/-! ## Attribute-list products vs pattern products (`opens`, `extendsOnFree`) -/
section opens
variable {G1 G2 GT : Type} [AddCommGroup G1] [AddCommGroup G2]
variable {o1 : GroupOps G1} {o2 : GroupOps G2}

/-- per-slot term of `listProduct` for a well-formed list. -/
def lvTerm (look : Nat → Option Attr) (H : List G1) (k : Nat) : G1 :=
  match look k with
  | some a => a.id • H.getD k 0
  | none => 0

theorem sum_attrs_eq_range (look : Nat → Option Attr) (H : List G1) :
    ∀ (m i : Nat) (attrs : List Attr), Cur look i attrs → (∀ a ∈ attrs, a.idx < i + m) →
      (attrs.map (lpTerm H)).sum = ((List.range' i m).map (lvTerm look H)).sum := by
  intro m
  induction m with
  | zero =>
    intro i attrs hc hlt
    cases attrs with
    | nil => rfl
    | cons a rest =>
      have h1 := hc.ge a (List.mem_cons_self ..)
      have h2 := hlt a (List.mem_cons_self ..)
      omega
  | succ m ih =>
    intro i attrs hc hlt
    rcases hc.step with ⟨a, rest, rfl, hai, hl, hc'⟩ | ⟨hl, hc', _⟩
    · rw [List.range'_succ, List.map_cons, List.sum_cons, List.map_cons, List.sum_cons,
        ih (i + 1) rest hc' (fun b hb => by have := hlt b (List.mem_cons_of_mem _ hb); omega)]
      congr 1
      unfold lpTerm lvTerm
      rw [hl, hai]
    · rw [List.range'_succ, List.map_cons, List.sum_cons,
        ih (i + 1) attrs hc' (fun b hb => by have := hlt b hb; omega)]
      unfold lvTerm
      rw [hl]
      simp

/-- `listProduct` of a well-formed list, slot by slot. -/
theorem listProduct_eq_range (L1 : Lawful o1) (pp : Params G1 G2 GT) (al : AttrList) (l : Nat)
    (hwf : al.wellFormed l = true) :
    listProduct o1 pp al = pp.g3 + ((List.range l).map (lvTerm al.find? pp.h)).sum := by
  rw [listProduct_eq L1, List.range_eq_range',
    sum_attrs_eq_range al.find? pp.h l 0 al.attrs (Cur.init hwf)
      (fun a ha => by have := wellFormed_lt hwf a ha; omega)]

/-- the per-slot condition of `opens`. -/
theorem opens_at {π : List Slot} {al : AttrList} (h : opens π al = true) {k : Nat}
    (hk : k < π.length) :
    (match π.getD k .free with | .fixed v => v % r | _ => 0)
      = (match al.find? k with | some a => a.id % r | none => 0) := by
  unfold opens patternVector listVector at h
  have h' := congrArg (fun L : List Nat => L[k]?) (beq_iff_eq.1 h)
  simp only [List.getElem?_map, List.getElem?_range hk, List.getElem?_eq_getElem hk,
    Option.map_some, Option.some.injEq] at h'
  rw [List.getD_eq_getElem?_getD, List.getElem?_eq_getElem hk, Option.getD_some]
  rcases hs : π[k] with _ | v | _ <;> rw [hs] at h' <;> rcases ho : al.find? k with _ | a <;>
    rw [ho] at h' <;> simpa using h'

/-- a key for π and a ciphertext for `al` with `opens π al` are bound to the same product. -/
theorem listProduct_eq_patternProduct (L1 : Lawful o1) (hr : ExpR G1) (pp : Params G1 G2 GT)
    (π : List Slot) (al : AttrList) (hwf : al.wellFormed π.length = true)
    (hop : opens π al = true) :
    listProduct o1 pp al = patternProduct o1 pp π := by
  rw [listProduct_eq_range L1 pp al π.length hwf, patternProduct_eq L1]
  congr 2
  apply List.map_congr_left
  intro k hk
  have h := opens_at hop (List.mem_range.1 hk)
  unfold lvTerm patTerm
  generalize π.getD k .free = s at h ⊢
  generalize al.find? k = oa at h ⊢
  rcases s with _ | v | _ <;> rcases oa with _ | a <;> simp only at h ⊢
  · exact smul_eq_zero_of_mod hr h.symm _
  · exact (smul_eq_zero_of_mod hr h _).symm
  · exact (smul_eq_of_mod_eq hr h _).symm
  · exact smul_eq_zero_of_mod hr h.symm _

end opens

/-! ## Bilinear maps, encryption and decryption -/

/-- `e` is bilinear (explicit hypothesis, never an axiom). -/
structure Bilinear {G1 G2 GT : Type} [AddCommGroup G1] [AddCommGroup G2] [CommGroup GT]
    (e : G1 → G2 → GT) : Prop where
  add_left : ∀ a b c, e (a + b) c = e a c * e b c
  add_right : ∀ a b c, e a (b + c) = e a b * e a c

namespace Bilinear
variable {G1 G2 GT : Type} [AddCommGroup G1] [AddCommGroup G2] [CommGroup GT]
variable {e : G1 → G2 → GT}

theorem zero_left (he : Bilinear e) (c : G2) : e 0 c = 1 := by
  have h := he.add_left 0 0 c
  rw [add_zero] at h
  exact (mul_eq_left).1 h.symm

theorem zero_right (he : Bilinear e) (a : G1) : e a 0 = 1 := by
  have h := he.add_right a 0 0
  rw [add_zero] at h
  exact (mul_eq_left).1 h.symm

theorem nsmul_left (he : Bilinear e) (n : Nat) (a : G1) (c : G2) : e (n • a) c = e a c ^ n := by
  induction n with
  | zero => rw [zero_nsmul, pow_zero, he.zero_left]
  | succ n ih => rw [succ_nsmul, he.add_left, ih, pow_succ]

theorem nsmul_right (he : Bilinear e) (n : Nat) (a : G1) (c : G2) : e a (n • c) = e a c ^ n := by
  induction n with
  | zero => rw [zero_nsmul, pow_zero, he.zero_right]
  | succ n ih => rw [succ_nsmul, he.add_right, ih, pow_succ]

theorem neg_left (he : Bilinear e) (a : G1) (c : G2) : e (-a) c = (e a c)⁻¹ := by
  have h := he.add_left (-a) a c
  rw [neg_add_cancel, he.zero_left] at h
  exact eq_inv_of_mul_eq_one_left h.symm

theorem sub_left (he : Bilinear e) (a b : G1) (c : G2) : e (a - b) c = e a c / e b c := by
  rw [sub_eq_add_neg, he.add_left, he.neg_left, div_eq_mul_inv]

end Bilinear

section crypt
variable {G1 G2 GT : Type} [AddCommGroup G1] [AddCommGroup G2] [CommGroup GT]
variable {o1 : GroupOps G1} {o2 : GroupOps G2}

structure Ciphertext (G1 G2 GT : Type) where
  a : GT
  b : G2
  c : G1

/-- `encrypt_precomputed` with the sampled scalar `s` (`prod` = `precompute pp al`). -/
def encrypt (pp : Params G1 G2 GT) (m : GT) (prod : G1) (s : Nat) : Ciphertext G1 G2 GT :=
  { a := pp.pairing ^ s * m, b := s • pp.g, c := s • prod }

/-- `decrypt`: a · e(c, a1) · e(−a0, b). -/
def decrypt (e : G1 → G2 → GT) (ct : Ciphertext G1 G2 GT) (sk : SecretKey G1 G2) : GT :=
  ct.a * e ct.c sk.a1 * (e sk.a0 ct.b)⁻¹

/-- `decrypt_master`: a · e(−g2^α, b). -/
def decryptMaster (e : G1 → G2 → GT) (ct : Ciphertext G1 G2 GT) (g2alpha : G1) : GT :=
  ct.a * (e g2alpha ct.b)⁻¹

/-- the consistency of public parameters and master key produced by `setup`. -/
structure SetupOk (e : G1 → G2 → GT) (pp : Params G1 G2 GT) (g2alpha : G1) (α : Nat) : Prop where
  g1 : pp.g1 = α • pp.g
  msk : g2alpha = α • pp.g2
  pairing : pp.pairing = e pp.g2 pp.g1

private theorem comm_cancel (U m V W : GT) : U * m * V * (U * W)⁻¹ = m * (V / W) := by
  rw [mul_inv, div_eq_mul_inv]
  calc U * m * V * (U⁻¹ * W⁻¹) = (U * U⁻¹) * (m * (V * W⁻¹)) := by ac_rfl
    _ = m * (V * W⁻¹) := by rw [mul_inv_cancel, one_mul]

/-- exact decryption formula (C12): the message times the pairing of the *difference* of the two
products. -/
theorem decrypt_exact (L1 : Lawful o1) (L2 : Lawful o2) {e : G1 → G2 → GT} (he : Bilinear e)
    (pp : Params G1 G2 GT) (g2alpha : G1) (α : Nat) (hs : SetupOk e pp g2alpha α)
    (π : List Slot) (ρ : Nat) (m : GT) (prod : G1) (s : Nat) :
    decrypt e (encrypt pp m prod s) (canon o1 o2 pp g2alpha π ρ)
      = m * e (prod - patternProduct o1 pp π) pp.g ^ (s * ρ) := by
  unfold decrypt encrypt canon
  simp only [L1.add, L1.smul, L2.smul, hs.pairing, hs.g1, hs.msk, he.add_left, he.nsmul_left,
    he.nsmul_right, he.sub_left, div_pow, pow_mul]
  rw [pow_right_comm (e pp.g2 pp.g) s α, pow_right_comm (e prod pp.g) ρ s, comm_cancel]

/-- C11: a canonical key decrypts every ciphertext bound to the same product. -/
theorem decrypt_canon_of_prod (L1 : Lawful o1) (L2 : Lawful o2) {e : G1 → G2 → GT}
    (he : Bilinear e) (pp : Params G1 G2 GT) (g2alpha : G1) (α : Nat) (hs : SetupOk e pp g2alpha α)
    (π : List Slot) (ρ : Nat) (m : GT) (prod : G1) (s : Nat)
    (hprod : prod = patternProduct o1 pp π) :
    decrypt e (encrypt pp m prod s) (canon o1 o2 pp g2alpha π ρ) = m := by
  rw [decrypt_exact L1 L2 he pp g2alpha α hs, hprod, sub_self, he.zero_left, one_pow, mul_one]

/-- C11: a canonical key for π decrypts every ciphertext encrypted to a list `al` that π opens. -/
theorem decrypt_canon (L1 : Lawful o1) (L2 : Lawful o2) (hr : ExpR G1) {e : G1 → G2 → GT}
    (he : Bilinear e) (pp : Params G1 G2 GT) (g2alpha : G1) (α : Nat) (hs : SetupOk e pp g2alpha α)
    (π : List Slot) (ρ : Nat) (al : AttrList) (hwf : al.wellFormed π.length = true)
    (hop : opens π al = true) (m : GT) (s : Nat) :
    decrypt e (encrypt pp m (precompute o1 pp al) s) (canon o1 o2 pp g2alpha π ρ) = m :=
  decrypt_canon_of_prod L1 L2 he pp g2alpha α hs π ρ m _ s
    (listProduct_eq_patternProduct L1 hr pp π al hwf hop)

/-- the master key decrypts every ciphertext. -/
theorem decrypt_master {e : G1 → G2 → GT} (he : Bilinear e) (pp : Params G1 G2 GT) (g2alpha : G1)
    (α : Nat) (hs : SetupOk e pp g2alpha α) (m : GT) (prod : G1) (s : Nat) :
    decryptMaster e (encrypt pp m prod s) g2alpha = m := by
  unfold decryptMaster encrypt
  simp only [hs.pairing, hs.g1, hs.msk, he.nsmul_left, he.nsmul_right]
  rw [pow_right_comm (e pp.g2 pp.g) s α, mul_comm, ← mul_assoc, inv_mul_cancel, one_mul]

/-- C12: under non-degeneracy (stated for the exponent that occurs) a key opens a ciphertext
*only if* the products agree. -/
theorem decrypt_only_matching (L1 : Lawful o1) (L2 : Lawful o2) {e : G1 → G2 → GT}
    (he : Bilinear e) (pp : Params G1 G2 GT) (g2alpha : G1) (α : Nat) (hs : SetupOk e pp g2alpha α)
    (π : List Slot) (ρ : Nat) (m : GT) (prod : G1) (s : Nat)
    (hnd : ∀ x : G1, e x pp.g ^ (s * ρ) = 1 → x = 0) :
    decrypt e (encrypt pp m prod s) (canon o1 o2 pp g2alpha π ρ) = m
      ↔ prod = patternProduct o1 pp π := by
  rw [decrypt_exact L1 L2 he pp g2alpha α hs, mul_eq_left]
  constructor
  · intro h; exact sub_eq_zero.1 (hnd _ h)
  · intro h; rw [h, sub_self, he.zero_left, one_pow]

end crypt

/-! ## Signatures (C13) -/
section sign
variable {G1 G2 GT : Type} [AddCommGroup G1] [AddCommGroup G2]
variable {o1 : GroupOps G1} {o2 : GroupOps G2}

/-- what the signing loop adds for a free slot of the key with element `bx`. -/
def sgS (oa : Option Attr) (bx : G1) : G1 :=
  match oa with
  | some a => a.id • bx
  | none => 0

theorem signLoop_spec (L1 : Lawful o1) :
    ∀ (bs : List (Nat × G1)) (attrs : List Attr) (a0 : G1), AscB bs → Asc attrs →
      signLoop o1 bs attrs a0
        = a0 + (bs.map (fun p => sgS (attrs.find? (·.idx == p.1)) p.2)).sum := by
  intro bs
  induction bs with
  | nil => intros; simp [signLoop]
  | cons p bs ih =>
    obtain ⟨idx, bx⟩ := p
    intro attrs a0 hbs hattrs
    have hpc := List.pairwise_cons.1 hbs
    have hhead := headAt_dropWhile hattrs idx
    have hasc' := asc_dropWhile (fun a : Attr => decide (a.idx < idx)) hattrs
    rw [signLoop]
    rcases hd : attrs.dropWhile (·.idx < idx) with _ | ⟨a, rest⟩
    · -- early return: no attribute at or after this slot
      have hnone : ∀ k, idx ≤ k → attrs.find? (·.idx == k) = none := by
        intro k hk
        rw [← find?_dropWhile attrs hk, hd]; rfl
      have hz : ((idx, bx) :: bs).map (fun p => sgS (attrs.find? (·.idx == p.1)) p.2)
          = ((idx, bx) :: bs).map (fun _ => (0 : G1)) := by
        apply List.map_congr_left
        intro q hq
        have hle : idx ≤ q.1 := by
          rcases List.mem_cons.1 hq with rfl | hq'
          · exact Nat.le_refl _
          · exact Nat.le_of_lt (hpc.1 q hq')
        rw [hnone _ hle]; rfl
      rw [hz]
      simp only [hd]
      simp
    · rw [hd] at hhead hasc'
      have hac := List.pairwise_cons.1 hasc'
      simp only [hd]
      by_cases he : a.idx = idx
      · have hfind : attrs.find? (·.idx == idx) = some a := by
          rw [← hhead]; simp [headAt, he]
        simp only [he, beq_self_eq_true, if_true]
        rw [ih rest _ hpc.2 hac.2]
        have hmap : bs.map (fun p => sgS (rest.find? (·.idx == p.1)) p.2)
            = bs.map (fun p => sgS (attrs.find? (·.idx == p.1)) p.2) := by
          apply List.map_congr_left
          intro q hq
          have hlt : idx < q.1 := hpc.1 q hq
          rw [← find?_dropWhile attrs (Nat.le_of_lt hlt), hd, List.find?_cons_of_neg]
          simp; omega
        rw [hmap, List.map_cons, List.sum_cons, hfind]
        simp only [sgS, L1.add, L1.smul, add_assoc]
      · have hfind : attrs.find? (·.idx == idx) = none := by
          rw [← hhead]; simp [headAt, he]
        have he' : (a.idx == idx) = false := by simpa using he
        simp only [he', Bool.false_eq_true, if_false]
        rw [ih (a :: rest) _ hpc.2 hasc']
        have hmap : bs.map (fun p => sgS ((a :: rest).find? (·.idx == p.1)) p.2)
            = bs.map (fun p => sgS (attrs.find? (·.idx == p.1)) p.2) := by
          apply List.map_congr_left
          intro q hq
          have hlt : idx < q.1 := hpc.1 q hq
          rw [← find?_dropWhile attrs (Nat.le_of_lt hlt), hd]
        rw [hmap, List.map_cons, List.sum_cons, hfind]
        simp [sgS]

theorem sum_skbFrom_sg (pb : Nat → Option G1) (look : Nat → Option Attr) :
    ∀ (m i : Nat),
      ((skbFrom pb i m).map (fun p => sgS (look p.1) p.2)).sum
        = ((List.range' i m).map
            (fun k => match pb k with | some bx => sgS (look k) bx | none => 0)).sum := by
  intro m
  induction m with
  | zero => intro i; simp [skbFrom]
  | succ m ih =>
    intro i
    rcases hp : pb i with _ | bx
    · rw [skbFrom_succ_none _ hp, List.range'_succ, List.map_cons, List.sum_cons, ih]
      simp [hp]
    · rw [skbFrom_succ_some _ hp, List.range'_succ, List.map_cons, List.sum_cons, List.map_cons,
        List.sum_cons, ih]
      simp [hp]

/-- the per-slot condition of `extendsOnFree`. -/
def extSlot (s : Slot) (oa : Option Attr) : Bool :=
  match s, oa with
  | .fixed v, some a => a.id % r == v % r
  | .fixed v, none => v % r == 0
  | .hidden, some a => a.id % r == 0
  | _, _ => true

theorem extendsOnFree_eq (π : List Slot) (al : AttrList) :
    extendsOnFree π al = (al.wellFormed π.length &&
      (List.range π.length).all fun i => extSlot (π.getD i .free) (al.find? i)) := by
  unfold extendsOnFree
  congr 2

theorem extendsOnFree_wf {π : List Slot} {al : AttrList} (h : extendsOnFree π al = true) :
    al.wellFormed π.length = true := by
  rw [extendsOnFree_eq, Bool.and_eq_true] at h
  exact h.1

theorem extendsOnFree_at {π : List Slot} {al : AttrList} (h : extendsOnFree π al = true) {k : Nat}
    (hk : k < π.length) : extSlot (π.getD k .free) (al.find? k) = true := by
  rw [extendsOnFree_eq, Bool.and_eq_true, List.all_eq_true] at h
  exact h.2 k (List.mem_range.2 hk)

theorem sign_slot (hr : ExpR G1) {π : List Slot} {al : AttrList} (H : List G1) (ρ : Nat)
    (hext : extendsOnFree π al = true) {k : Nat} (hk : k < π.length) :
    ρ • patTerm π H k
        + (match canonPb π ρ H k with | some bx => sgS (al.find? k) bx | none => 0)
      = ρ • lvTerm al.find? H k := by
  have ha := extendsOnFree_at hext hk
  unfold patTerm canonPb lvTerm
  generalize π.getD k .free = s at ha ⊢
  generalize al.find? k = oa at ha ⊢
  generalize H.getD k 0 = h
  rcases s with _ | v | _ <;> rcases oa with _ | a
  · simp [sgS]
  · simp only [sgS, smul_zero, zero_add]
    rw [smul_comm]
  · simp only [extSlot, beq_iff_eq] at ha
    simp [smul_eq_zero_of_mod hr ha]
  · simp only [extSlot, beq_iff_eq] at ha
    simp [smul_eq_of_mod_eq hr ha]
  · simp
  · simp only [extSlot, beq_iff_eq] at ha
    simp [smul_eq_zero_of_mod hr ha]

/-- C13: signing with a canonical key and a list that extends the key's pattern on its free
slots yields the canonical signature for that list (randomiser ρ + s). -/
theorem sign_canon (L1 : Lawful o1) (L2 : Lawful o2) (hr : ExpR G1) (pp : Params G1 G2 GT)
    (g2alpha : G1) (π : List Slot) (ρ : Nat) (al : AttrList) (msg s : Nat)
    (hsig : pp.signatures = true) (hext : extendsOnFree π al = true) :
    signPrecomputed o1 o2 pp (canon o1 o2 pp g2alpha π ρ) (some al) (precompute o1 pp al) msg s
      = (g2alpha + (ρ + s) • (listProduct o1 pp al + msg • pp.hsig), (ρ + s) • pp.g) := by
  have hwf := extendsOnFree_wf hext
  have hasc := canon_b_ascB L1 L2 pp g2alpha π ρ
  unfold signPrecomputed precompute
  simp only
  rw [signLoop_spec L1 _ _ _ hasc (wellFormed_asc hwf)]
  rw [canon_eq L1 L2]
  simp only [hsig, if_true]
  rw [canonB_skb]
  have h1 := sum_skbFrom_sg (canonPb π ρ pp.h) al.find? π.length 0
  unfold AttrList.find? at h1
  rw [h1, ← List.range_eq_range']
  have key := sum_combine2 (List.range π.length) ρ (patTerm π pp.h)
    (fun k => match canonPb π ρ pp.h k with | some bx => sgS (al.find? k) bx | none => 0)
    (lvTerm al.find? pp.h)
    (fun k hk => sign_slot hr pp.h ρ hext (List.mem_range.1 hk))
  unfold AttrList.find? at key
  rw [listProduct_eq_range L1 pp al π.length hwf]
  simp only [L1.add, L1.smul, L2.add, L2.smul]
  refine Prod.ext ?_ ?_
  · simp only
    unfold AttrList.find?
    simp only [smul_add, add_nsmul]
    rw [← key, smul_comm msg ρ pp.hsig]
    abel
  · simp only
    rw [add_nsmul, add_comm]

/-- signing without an attribute list (the key's own pattern, `pre` its product). -/
theorem sign_canon_none (L1 : Lawful o1) (L2 : Lawful o2) (pp : Params G1 G2 GT)
    (g2alpha : G1) (π : List Slot) (ρ : Nat) (pre : G1) (msg s : Nat)
    (hsig : pp.signatures = true) (hpre : pre = patternProduct o1 pp π) :
    signPrecomputed o1 o2 pp (canon o1 o2 pp g2alpha π ρ) none pre msg s
      = (g2alpha + (ρ + s) • (pre + msg • pp.hsig), (ρ + s) • pp.g) := by
  subst hpre
  unfold signPrecomputed canon
  simp only [hsig, if_true, L1.add, L1.smul, L2.add, L2.smul]
  refine Prod.ext ?_ ?_
  · simp only [smul_add, add_nsmul]
    rw [smul_comm msg ρ pp.hsig]
    abel
  · simp only
    rw [add_nsmul, add_comm]

end sign

section verify
variable {G1 G2 GT : Type} [AddCommGroup G1] [AddCommGroup G2] [CommGroup GT]

/-- `verify_precomputed`, division-free: e(a0, g) = e(g2, g1) · e(prod + msg·hsig, a1). -/
def verify (e : G1 → G2 → GT) (pp : Params G1 G2 GT) (prod : G1) (sig : G1 × G2) (msg : Nat) : Prop :=
  e sig.1 pp.g = pp.pairing * e (prod + msg • pp.hsig) sig.2

/-- exact verification formula: the canonical signature on (`prod`, `msg`) verifies for
(`prod'`, `msg'`) iff the pairing of the difference of the bound elements is trivial. -/
theorem verify_exact {e : G1 → G2 → GT} (he : Bilinear e) (pp : Params G1 G2 GT) (g2alpha : G1)
    (α : Nat) (hs : SetupOk e pp g2alpha α) (prod prod' : G1) (msg msg' k : Nat) :
    verify e pp prod' (g2alpha + k • (prod + msg • pp.hsig), k • pp.g) msg'
      ↔ e ((prod + msg • pp.hsig) - (prod' + msg' • pp.hsig)) pp.g ^ k = 1 := by
  unfold verify
  simp only [hs.pairing, hs.g1, hs.msk, he.add_left, he.nsmul_left, he.nsmul_right, he.sub_left]
  rw [mul_right_inj, div_pow, div_eq_one]
  simp only [mul_pow, ← pow_mul, mul_comm]

/-- C13: the canonical signature verifies for the signed message and list. -/
theorem verify_canonical {e : G1 → G2 → GT} (he : Bilinear e) (pp : Params G1 G2 GT) (g2alpha : G1)
    (α : Nat) (hs : SetupOk e pp g2alpha α) (prod : G1) (msg k : Nat) :
    verify e pp prod (g2alpha + k • (prod + msg • pp.hsig), k • pp.g) msg := by
  rw [verify_exact he pp g2alpha α hs, sub_self, he.zero_left, one_pow]

end verify

/-! ## Delegation histories (C11) -/
section history
variable {G1 G2 GT : Type} [AddCommGroup G1] [AddCommGroup G2]

/-- how a key is first issued from the master key. -/
inductive Start where
  | keygen (al : AttrList) (ρ : Nat)
  | ndKeygen (al : AttrList)

/-- one delegation / maintenance step applied to a key (fresh scalars are part of the step). -/
inductive Step where
  | qualify (al : AttrList) (t : Nat)
  | ndQualify (al : AttrList)
  /-- derive a non-delegable key for `from_` and adjust it to `to_` -/
  | ndAdjust (from_ to_ : AttrList)
  /-- resample with the precomputed product of a list the key's pattern opens -/
  | resample (al : AttrList) (further : Bool) (t : Nat)

/-- a key together with the pattern and randomiser it is claimed to be canonical for. -/
structure KeyState (G1 G2 : Type) where
  sk : SecretKey G1 G2
  π : List Slot
  ρ : Nat

def Start.attrs : Start → AttrList
  | .keygen al _ => al
  | .ndKeygen al => al

def Start.ok (l : Nat) (s : Start) : Bool := admissible (List.replicate l .free) s.attrs

def Start.run (o1 : GroupOps G1) (o2 : GroupOps G2) (pp : Params G1 G2 GT) (g2alpha : G1) (l : Nat) :
    Start → KeyState G1 G2
  | .keygen al ρ => ⟨Jedi.Wk.keygen o1 o2 pp g2alpha al ρ, updatePattern (List.replicate l .free) al, ρ⟩
  | .ndKeygen al => ⟨Jedi.Wk.ndKeygen o1 pp g2alpha al, updatePattern (List.replicate l .free) al, 1⟩

def Step.ok (π : List Slot) : Step → Bool
  | .qualify al _ => admissible π al
  | .ndQualify al => admissible π al
  | .ndAdjust f t => admissible π f && admissible π t
  | .resample al _ _ => al.wellFormed π.length && opens π al

def Step.pattern (π : List Slot) : Step → List Slot
  | .qualify al _ => updatePattern π al
  | .ndQualify al => updatePattern π al
  | .ndAdjust _ t => updatePattern π t
  | .resample _ further _ => if further then π else hideFree π

def Step.run (o1 : GroupOps G1) (o2 : GroupOps G2) (pp : Params G1 G2 GT) (st : KeyState G1 G2) :
    Step → KeyState G1 G2
  | .qualify al t => ⟨qualifykey o1 o2 pp st.sk al t, updatePattern st.π al, st.ρ + t⟩
  | .ndQualify al => ⟨ndQualifykey o1 st.π.length st.sk al, updatePattern st.π al, st.ρ⟩
  | .ndAdjust f t =>
    ⟨adjustNondelegable o1 (ndQualifykey o1 st.π.length st.sk f) st.sk f t, updatePattern st.π t, st.ρ⟩
  | .resample al further t =>
    ⟨resamplekey o1 o2 pp (precompute o1 pp al) st.sk further t,
      if further then st.π else hideFree st.π, st.ρ + t⟩

def runSteps (o1 : GroupOps G1) (o2 : GroupOps G2) (pp : Params G1 G2 GT) :
    KeyState G1 G2 → List Step → KeyState G1 G2
  | st, [] => st
  | st, s :: ss => runSteps o1 o2 pp (s.run o1 o2 pp st) ss

/-- every step is admissible for the pattern accumulated so far. -/
def stepsOk : List Slot → List Step → Bool
  | _, [] => true
  | π, s :: ss => s.ok π && stepsOk (s.pattern π) ss

variable {o1 : GroupOps G1} {o2 : GroupOps G2}

theorem Step.run_π (pp : Params G1 G2 GT) (st : KeyState G1 G2) (s : Step) :
    (s.run o1 o2 pp st).π = s.pattern st.π := by
  cases s <;> rfl

theorem Step.pattern_length (π : List Slot) (s : Step) : (s.pattern π).length = π.length := by
  cases s with
  | resample al further t => cases further <;> simp [Step.pattern]
  | _ => simp [Step.pattern]

/-- the invariant of a history: the key is the canonical key of its state. -/
def KeyState.Canonical (o1 : GroupOps G1) (o2 : GroupOps G2) (pp : Params G1 G2 GT) (g2alpha : G1)
    (st : KeyState G1 G2) : Prop :=
  st.sk = canon o1 o2 pp g2alpha st.π st.ρ ∧ st.π.length = pp.h.length

theorem start_canon (L1 : Lawful o1) (L2 : Lawful o2) (pp : Params G1 G2 GT) (g2alpha : G1)
    (s : Start) (hok : s.ok pp.h.length = true) :
    (s.run o1 o2 pp g2alpha pp.h.length).Canonical o1 o2 pp g2alpha := by
  cases s with
  | keygen al ρ =>
    exact ⟨keygen_canon L1 L2 pp g2alpha al ρ _ rfl hok, by simp [Start.run]⟩
  | ndKeygen al =>
    exact ⟨ndKeygen_canon L1 L2 pp g2alpha al _ rfl hok, by simp [Start.run]⟩

theorem step_canon (L1 : Lawful o1) (L2 : Lawful o2) (hr : ExpR G1) (pp : Params G1 G2 GT)
    (g2alpha : G1) (st : KeyState G1 G2) (hst : st.Canonical o1 o2 pp g2alpha) (s : Step)
    (hok : s.ok st.π = true) : (s.run o1 o2 pp st).Canonical o1 o2 pp g2alpha := by
  obtain ⟨hsk, hlen⟩ := hst
  refine ⟨?_, by rw [Step.run_π, Step.pattern_length, hlen]⟩
  cases s with
  | qualify al t =>
    simp only [Step.run, hsk]
    exact qualify_canon L1 L2 hr pp g2alpha st.π st.ρ al t hlen.symm hok
  | ndQualify al =>
    simp only [Step.run, hsk]
    exact ndQualify_canon L1 L2 pp g2alpha st.π st.ρ al hok
  | ndAdjust f t =>
    simp only [Step.ok, Bool.and_eq_true] at hok
    obtain ⟨hf, ht⟩ := hok
    simp only [Step.run]
    rw [adjustNd_eq L1 hr st.sk st.π.length (by rw [hsk]; exact canon_b_ascB L1 L2 pp g2alpha st.π st.ρ)
      (by rw [hsk]; exact canon_b_lt L1 L2 pp g2alpha st.π st.ρ) f t (admissible_wf hf) (admissible_wf ht), hsk]
    exact ndQualify_canon L1 L2 pp g2alpha st.π st.ρ t ht
  | resample al further t =>
    simp only [Step.ok, Bool.and_eq_true] at hok
    simp only [Step.run, hsk]
    exact resample_canon L1 L2 pp g2alpha st.π st.ρ t _
      (listProduct_eq_patternProduct L1 hr pp st.π al hok.1 hok.2) further

theorem runSteps_canon (L1 : Lawful o1) (L2 : Lawful o2) (hr : ExpR G1) (pp : Params G1 G2 GT)
    (g2alpha : G1) : ∀ (steps : List Step) (st : KeyState G1 G2),
      st.Canonical o1 o2 pp g2alpha → stepsOk st.π steps = true →
      (runSteps o1 o2 pp st steps).Canonical o1 o2 pp g2alpha := by
  intro steps
  induction steps with
  | nil => intro st hst _; exact hst
  | cons s ss ih =>
    intro st hst hok
    simp only [stepsOk, Bool.and_eq_true] at hok
    exact ih _ (step_canon L1 L2 hr pp g2alpha st hst s hok.1) (by rw [Step.run_π]; exact hok.2)

/-- C11: every key reachable from the master key by an admissible history is the canonical key
for the accumulated pattern and the accumulated randomiser. -/
theorem history_canon (L1 : Lawful o1) (L2 : Lawful o2) (hr : ExpR G1) (pp : Params G1 G2 GT)
    (g2alpha : G1) (start : Start) (steps : List Step)
    (hstart : start.ok pp.h.length = true)
    (hsteps : stepsOk (start.run o1 o2 pp g2alpha pp.h.length).π steps = true) :
    (runSteps o1 o2 pp (start.run o1 o2 pp g2alpha pp.h.length) steps).Canonical o1 o2 pp g2alpha :=
  runSteps_canon L1 L2 hr pp g2alpha steps _ (start_canon L1 L2 pp g2alpha start hstart) hsteps

end history

/-! ## Consequences along histories -/
section history_facts
variable {G1 G2 GT : Type} [AddCommGroup G1] [AddCommGroup G2] [CommGroup GT]
variable {o1 : GroupOps G1} {o2 : GroupOps G2}

/-- C11: the key at the end of an admissible history decrypts every ciphertext encrypted to a
list its accumulated pattern opens. -/
theorem history_decrypts (L1 : Lawful o1) (L2 : Lawful o2) (hr : ExpR G1) {e : G1 → G2 → GT}
    (he : Bilinear e) (pp : Params G1 G2 GT) (g2alpha : G1) (α : Nat) (hs : SetupOk e pp g2alpha α)
    (start : Start) (steps : List Step) (hstart : start.ok pp.h.length = true)
    (hsteps : stepsOk (start.run o1 o2 pp g2alpha pp.h.length).π steps = true)
    (al : AttrList) (m : GT) (s : Nat)
    (hwf : al.wellFormed pp.h.length = true)
    (hop : opens (runSteps o1 o2 pp (start.run o1 o2 pp g2alpha pp.h.length) steps).π al = true) :
    decrypt e (encrypt pp m (precompute o1 pp al) s)
      (runSteps o1 o2 pp (start.run o1 o2 pp g2alpha pp.h.length) steps).sk = m := by
  obtain ⟨hsk, hlen⟩ := history_canon L1 L2 hr pp g2alpha start steps hstart hsteps
  rw [hsk]
  exact decrypt_canon L1 L2 hr he pp g2alpha α hs _ _ al (by rw [hlen]; exact hwf) hop m s

end history_facts

section hidden_facts
variable {G1 G2 GT : Type} [AddCommGroup G1] [AddCommGroup G2]
variable {o1 : GroupOps G1} {o2 : GroupOps G2}

theorem hideFree_hidden {π : List Slot} {i : Nat} (h : π.getD i .free = .hidden) :
    (hideFree π).getD i .free = .hidden := by
  rw [hideFree_getD _ (lt_length_of_getD_ne (by rw [h]; simp)), h]

/-- C12: no step un-hides a hidden slot. -/
theorem Step.pattern_hidden {π : List Slot} (s : Step) {i : Nat} (h : π.getD i .free = .hidden) :
    (s.pattern π).getD i .free = .hidden := by
  cases s with
  | qualify al t => exact updatePattern_hidden al h
  | ndQualify al => exact updatePattern_hidden al h
  | ndAdjust f t => exact updatePattern_hidden t h
  | resample al further t =>
    cases further
    · exact hideFree_hidden h
    · exact h

theorem runSteps_hidden (pp : Params G1 G2 GT) : ∀ (steps : List Step) (st : KeyState G1 G2) {i : Nat},
    st.π.getD i .free = .hidden → (runSteps o1 o2 pp st steps).π.getD i .free = .hidden := by
  intro steps
  induction steps with
  | nil => intro st i h; exact h
  | cons s ss ih =>
    intro st i h
    exact ih _ (by rw [Step.run_π]; exact s.pattern_hidden h)

/-- C12: a key whose slot `i` is hidden only opens lists whose slot `i` is empty (0 mod r). -/
theorem opens_hidden {π : List Slot} {al : AttrList} (hop : opens π al = true) {i : Nat}
    (h : π.getD i .free = .hidden) {a : Attr} (ha : al.find? i = some a) : a.id % r = 0 := by
  have := opens_at hop (lt_length_of_getD_ne (by rw [h]; simp))
  rw [h, ha] at this
  exact this.symm

/-- C12: a key whose slot `i` is fixed to `v` only opens lists with that value (mod r). -/
theorem opens_fixed {π : List Slot} {al : AttrList} (hop : opens π al = true) {i v : Nat}
    (h : π.getD i .free = .fixed v) :
    (match al.find? i with | some a => a.id % r | none => 0) = v % r := by
  have := opens_at hop (lt_length_of_getD_ne (by rw [h]; simp))
  rw [h] at this
  exact this.symm

end hidden_facts

/-! ## A concrete lawful instance (used by the non-vacuity examples of C11–C14)

`G1 = G2 = ZMod r` (additive), `GT = Multiplicative (ZMod r)`, `e a b = a·b`: a bilinear map
between groups of exponent `r`, three slots. -/
namespace Ex

abbrev Z := ZMod r

theorem expR : ExpR Z := fun x => by rw [nsmul_eq_mul, ZMod.natCast_self, zero_mul]

def e (a b : Z) : Multiplicative Z := Multiplicative.ofAdd (a * b)

theorem bilinear : Bilinear e :=
  ⟨fun a b c => by simp [e, add_mul], fun a b c => by simp [e, mul_add]⟩

def ops : GroupOps Z := stdOps Z

theorem lawful : Lawful ops := stdOps_lawful Z

/-- parameters as `setup` produces them for α = 5 (g = 1, g2 = 7). -/
def pp : Params Z Z (Multiplicative Z) :=
  { g := 1, g1 := 5, g2 := 7, g3 := 11, pairing := e 7 5, hsig := 13, signatures := true,
    h := [2, 3, 4] }

def g2alpha : Z := 35

theorem setupOk : SetupOk e pp g2alpha 5 :=
  ⟨by simp [pp], by simp [pp, g2alpha]; norm_num, rfl⟩

/-- slot 0 := 42, slot 2 hidden, slot 1 left free. -/
def al0 : AttrList := ⟨[⟨0, 42, false⟩, ⟨2, 7, true⟩], false⟩
/-- repeats slot 0 (with an identifier ≥ r), fixes slot 1. -/
def al1 : AttrList := ⟨[⟨0, 42 + r, false⟩, ⟨1, 9, false⟩], false⟩
/-- the list a ciphertext for the final pattern is encrypted to. -/
def alC : AttrList := ⟨[⟨0, 42, false⟩, ⟨1, 9, false⟩], false⟩

theorem al0_ok : admissible (List.replicate 3 .free) al0 = true := by decide
theorem al0_pattern : updatePattern (List.replicate 3 .free) al0 = [.fixed 42, .free, .hidden] := by
  decide
theorem al1_ok : admissible [.fixed 42, .free, .hidden] al1 = true := by decide
theorem al1_pattern : updatePattern [.fixed 42, .free, .hidden] al1 = [.fixed 42, .fixed 9, .hidden] := by
  decide
theorem alC_opens : opens [.fixed 42, .fixed 9, .hidden] alC = true := by decide
theorem alC_wf : alC.wellFormed 3 = true := by decide

end Ex

end Jedi.Wk
